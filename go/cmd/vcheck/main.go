// vcheck: correspondence harness and property oracle for the go-ipld-prime property list.
//   vcheck run <Cxx> <quick|thorough>
//   vcheck replay <file>
package main

import (
	"encoding/json"
	"fmt"
	"os"

	"verif/internal/checks"
	"verif/internal/core"
)

func main() {
	if len(os.Args) < 3 {
		fmt.Fprintln(os.Stderr, "usage: vcheck run <Cxx> <quick|thorough> | vcheck replay <file>")
		os.Exit(2)
	}
	switch os.Args[1] {
	case "run":
		if len(os.Args) < 4 {
			fmt.Fprintln(os.Stderr, "usage: vcheck run <Cxx> <quick|thorough>")
			os.Exit(2)
		}
		os.Exit(run(os.Args[2], os.Args[3]))
	case "replay":
		os.Exit(replay(os.Args[2]))
	case "fs-child":
		os.Exit(checks.FsChild(os.Args[2:]))
	case "race-child":
		os.Exit(checks.RaceChild(os.Args[2:]))
	}
	os.Exit(2)
}

func run(prop, tier string) int {
	ch := core.Checks[prop]
	if ch == nil {
		fmt.Fprintf(os.Stderr, "no check registered for %s\n", prop)
		return 2
	}
	c := core.NewCtx(prop, tier)
	if err := ch.Run(c); err != nil {
		// an infrastructure error is not a verdict; make it loud and fail closed
		fmt.Printf("VIOLATION property=%s replay=%s no-failing-input-found\n", prop, writeInfra(c, err))
		_ = c.WriteEvidence()
		return 1
	}
	if !c.Proof.OK {
		// proof obligations or regenerated facts no longer check: directed search for a failing input
		if ch.Search != nil && c.Violations() == 0 {
			if err := ch.Search(c); err != nil {
				fmt.Fprintf(os.Stderr, "search error: %v\n", err)
			}
		}
		if c.Violations() == 0 {
			c.Fail("proof-broken", core.Replay{Kind: "proof", Theorem: fmt.Sprint(c.Proof.Failed),
				Detail: "theorems / generated facts no longer check: " + fmt.Sprint(c.Proof.Failed) + "\n" + c.Proof.LogTail})
		}
	}
	if err := c.WriteEvidence(); err != nil {
		fmt.Fprintf(os.Stderr, "cannot write evidence: %v\n", err)
		return 2
	}
	if c.Violations() > 0 {
		return 1
	}
	fmt.Printf("OK property=%s tier=%s seed=%d\n", prop, tier, c.Seed)
	return 0
}

func writeInfra(c *core.Ctx, err error) string {
	p := core.VerifDir() + "/build/" + c.Prop + "/infra-error.json"
	_ = os.MkdirAll(core.VerifDir()+"/build/"+c.Prop, 0o755)
	b, _ := json.MarshalIndent(map[string]string{"property": c.Prop, "kind": "infrastructure", "error": err.Error()}, "", " ")
	_ = os.WriteFile(p, b, 0o644)
	fmt.Fprintf(os.Stderr, "infrastructure error: %v\n", err)
	return p
}

func replay(path string) int {
	b, err := os.ReadFile(path)
	if err != nil {
		fmt.Fprintln(os.Stderr, err)
		return 2
	}
	var rp core.Replay
	if err := json.Unmarshal(b, &rp); err != nil {
		fmt.Fprintln(os.Stderr, err)
		return 2
	}
	ch := core.Checks[rp.Property]
	if ch == nil || ch.Replay == nil {
		fmt.Fprintf(os.Stderr, "no replay for %s\n", rp.Property)
		return 2
	}
	if rp.Case == "" {
		fmt.Printf("replay names a broken proof obligation / correspondence, not an input: %s\n%s\n", rp.Theorem, rp.Detail)
		return 1
	}
	c := core.NewCtx(rp.Property, "quick")
	c.Findings = nil // a replay reports the raw verdict
	if err := ch.Replay(c, rp); err != nil {
		fmt.Fprintln(os.Stderr, err)
		return 2
	}
	if c.Violations() > 0 {
		return 1
	}
	fmt.Printf("replay passes on the current tree: %s\n", rp.Case)
	return 0
}
