/-
  Typed assemblers: the example types and histories used by the non-vacuity examples of Props/C12typed.lean, and two
  small facts about struct values.
-/
import IpldModel.Lemmas.TypedAssemblerCalls
import IpldModel.Lemmas.TypedAssemblerErase
namespace Ipld
namespace TAsm
open Ipld.Asm (Op Out ErrClass)
open Ipld.Schema (Ty Fields Field TL TLs TLKVs canonFields conforms conformsStruct)

/-- `{String : Int}` -/
def exMapTy : Ty := .map .int false

/-- `struct { a Int; b optional nullable [String] }` -/
def exStructTy : Ty :=
  .struct (.cons [97] [97] false false .int (.cons [98] [98] true true (.list .str false) .nil)) .map

/-- builds `{"a": 1, "b": 2}` in a `{String:Int}` with seven refused calls on the way: `AssembleEntry "a"` a second time,
    a key assembler given `"a"` again (as a node), a key assembler given an integer before it is given `"b"`, and a
    value assembler given a string, `BeginList`, the node `[1]` and a null before it is given `2` -/
def exMapHistory : List Op :=
  [.beginMap 2, .assembleEntry [97], .assign (.int 1),
   .assembleEntry [97],
   .assembleKey, .assignNode (.str [97]),
   .assembleKey, .assign (.int 7), .assign (.str [98]), .assembleValue,
   .assign (.str [120]), .beginList 0, .assignNode (.list (.cons (.int 1) .nil)), .assign .null,
   .assign (.int 2), .finish]

/-- builds `{"a": 5, "b": ["x"]}` in the struct, fields out of order, with four refused calls: the node `["x", 1]` for
    `b` (refused at its second element), `Finish` while `a` is missing, `AssembleEntry "a"` a second time and `"b"`
    through the key assembler a second time -/
def exStructHistory : List Op :=
  [.beginMap 0, .assembleEntry [98],
   .assignNode (.list (.cons (.str [120]) (.cons (.int 1) .nil))),
   .beginList 1, .assembleValue, .assign (.str [120]), .finish,
   .finish,
   .assembleEntry [97], .assign (.int 5),
   .assembleEntry [97],
   .assembleKey, .assign (.str [98]),
   .finish]

def exStructBuilt : TL :=
  .map (.cons [97] (.int 5) (.cons [98] (.list (.cons (.str [120]) .nil)) .nil))

/-- `a` alone: `b` is optional and shows as `absent` -/
def exStructShort : List Op := [.beginMap 0, .assembleEntry [97], .assign (.int 5), .finish]

/-- `{"a": 1}` begun, `"a"` handed to the key assembler -/
def exDupViaKeyAsm : List Op :=
  [.beginMap 1, .assembleEntry [97], .assign (.int 1), .assembleKey, .assign (.str [97])]

/-- a name that is no field -/
def exUnknownField : List Op :=
  [.beginMap 0, .assembleEntry [122], .assign (.int 1), .beginList 0, .assignNode (.str [120])]

/-- a list of Int is handed the node `[1, "x"]`, then built call by call as `[5]` -/
def exRefusedNode : List Op :=
  [.assignNode (.list (.cons (.int 1) (.cons (.str [120]) .nil))),
   .beginList 1, .assembleValue, .assign (.int 5), .finish]

/-! ### struct values -/

theorem conformsStruct_fieldVals (F : List Field) : (es : TLKVs) → (seen : List Bytes) →
    conformsStruct F seen es = true →
    ∀ p ∈ es.toList, ∃ f, fieldOf F p.1 = some f ∧ (p.2 = .absent → f.opt = true)
  | .nil, _, _, p, hp => by simp [TLKVs.toList] at hp
  | .cons k v es, seen, h, p, hp => by
    rw [Schema.conformsStruct_cons] at h
    cases hf : F.find? (fun f => f.name == k) with
    | none => simp [hf] at h
    | some f =>
      simp only [hf, Bool.and_eq_true] at h
      simp only [TLKVs.toList, List.mem_cons] at hp
      rcases hp with rfl | hp
      · refine ⟨f, hf, ?_⟩
        intro hv
        simp only at hv
        have := h.1.2
        rw [hv] at this
        exact this
      · exact conformsStruct_fieldVals F es (k :: seen) h.2 p hp

/-- A good value of a struct type is a map that lists exactly the fields, in declaration order; a field shown as `absent`
    is optional. -/
theorem good_struct_shape {F : Fields} {r : Schema.StructRepr} {nul : Bool} {v : TL}
    (h : Good (.struct F r) nul v) (hv : v ≠ .null) :
    ∃ es, v = .map es ∧ keysOf es = F.toList.map (·.name) ∧
      ∀ p ∈ es.toList, ∃ f, fieldOf F.toList p.1 = some f ∧ (p.2 = .absent → f.opt = true) := by
  have hc := h.conf
  cases v with
  | map es =>
    refine ⟨es, rfl, ?_, ?_⟩
    · have hn := h.canon
      simp only [Schema.normalize, TL.map.injEq] at hn
      have := congrArg keysOf hn
      rw [← this]
      simp only [keysOf, Schema.TLKVs.toList_ofList, canonFields_keys]
    · unfold conforms at hc
      exact conformsStruct_fieldVals F.toList es [] hc
  | null => exact absurd rfl hv
  | absent => simp [conforms] at hc
  | bool _ => simp [conforms] at hc
  | int _ => simp [conforms] at hc
  | float _ => simp [conforms] at hc
  | str _ => simp [conforms] at hc
  | bytes _ => simp [conforms] at hc
  | link _ => simp [conforms] at hc
  | list _ => simp [conforms] at hc

theorem KeyReset.ne {s s' : St} (h : KeyReset s s') : s' ≠ s := by
  intro he
  have h1 := h.inKey
  have h2 := h.not_inKey
  rw [he, h1] at h2
  cases h2

theorem supplyKey_err_class {e : Engine} {s s' : St} {k : Bytes} {c : ErrClass}
    (h : supplyKey e s k = (s', .err c)) : c = .repeatedKey ∨ (c = .other ∧ e.unknownAtKey = true) := by
  unfold supplyKey at h
  split at h
  · split at h
    · exact Or.inl (by have := (Prod.mk.inj h).2; cases this; rfl)
    · cases h
  · split at h
    · split at h
      · rename_i hu
        exact Or.inr ⟨by have := (Prod.mk.inj h).2; cases this; rfl, hu⟩
      · cases h
    · split at h
      · exact Or.inl (by have := (Prod.mk.inj h).2; cases this; rfl)
      · cases h
  · cases h

theorem keyPrim_reset_class {e : Engine} {s s' : St} {op : Op} {c : ErrClass}
    (h : keyPrim e s op = (s', .err c)) (hr : s' ≠ s) :
    c = .repeatedKey ∨ (c = .other ∧ e.unknownAtKey = true) := by
  unfold keyPrim at h
  split at h
  · exact supplyKey_err_class h
  all_goals first | (cases h; done) | exact absurd (Prod.mk.inj h).1.symm hr

/-- a refusal that ends the key assembler is a repeated key - or, for an engine with `unknownAtKey`, a name that is no
    field -/
theorem step_reset_class {e : Engine} {s s' : St} {op : Op} {c : ErrClass} (h : step e s op = (s', .err c))
    (hr : KeyReset s s') : c = .repeatedKey ∨ (c = .other ∧ e.unknownAtKey = true) := by
  have hk := (pos_key_iff_inKey s).2 hr.inKey
  have hne := hr.ne
  unfold step at h
  split at h
  · cases h
  · unfold stepU at h
    split at h
    · rename_i v
      split at h
      · split at h
        · cases h
        · split at h
          · exfalso
            have h1 := (Prod.mk.inj h).1
            have := hr.not_inKey
            rw [← h1] at this
            simp only [inKey] at this
            have h2 := hr.inKey
            simp only [inKey] at h2
            rw [h2] at this; cases this
          · exact absurd (Prod.mk.inj h).1.symm hne
        · cases h
      · rw [stepPrim_at_key hk] at h
        exact keyPrim_reset_class h hne
    · rw [stepPrim_at_key hk] at h
      exact keyPrim_reset_class h hne

end TAsm
end Ipld
