/-
  Helper lemmas and auxiliary definitions for the link-system properties (Props/C05, Props/C06):
  inversion of `buildLink` / `truncate` / `mkLink`, storage `get`/`put`, frame lemmas for histories
  (`hstep` / `hrun`), the DAG-JSON model packaged as a `Link.Codec`, `LoadPlusRaw` as the composition the
  Go code is, and small concrete data for the non-vacuity examples.  Core Lean only.
-/
import IpldModel.Model.Link
import IpldModel.Model.JsonTok
namespace Ipld
namespace Link

/-! ## `truncate`, `mkLink`, `buildLink` -/

theorem truncate_identity (p : Proto) (h : Bytes) (hi : p.mhType = identityCode) : truncate p h = some h := by
  simp [truncate, hi]

theorem truncate_whole (p : Proto) (h : Bytes) (hl : p.mhLength = -1) : truncate p h = some h := by
  simp [truncate, hl]

/-- a proper `MhLength` on a non-identity hash that the hash can supply: the digest is exactly the first `MhLength` bytes -/
theorem truncate_some_cut {p : Proto} {h d : Bytes} (ht : truncate p h = some d)
    (hi : p.mhType ≠ identityCode) (hl : p.mhLength ≠ -1)
    (hfit : 0 ≤ p.mhLength ∧ p.mhLength ≤ (h.length : Int)) :
    d = h.take p.mhLength.toNat ∧ (d.length : Int) = p.mhLength := by
  unfold truncate at ht
  have c1 : ¬ (p.mhType = identityCode ∨ p.mhLength = -1) := fun x => x.elim hi hl
  have c2 : ¬ (p.mhLength < 0 ∨ (h.length : Int) < p.mhLength) := by omega
  simp only [c1, c2, if_false, Option.some.injEq] at ht
  subst ht
  refine ⟨rfl, ?_⟩
  rw [List.length_take]
  omega

/-- a length the hash cannot supply (or a negative one) leaves the whole hash: no refusal, no panic -/
theorem truncate_unfit {p : Proto} {h : Bytes} (hi : p.mhType ≠ identityCode) (hl : p.mhLength ≠ -1)
    (hun : p.mhLength < 0 ∨ (h.length : Int) < p.mhLength) : truncate p h = some h := by
  unfold truncate
  have c1 : ¬ (p.mhType = identityCode ∨ p.mhLength = -1) := fun x => x.elim hi hl
  simp only [c1, hun, if_false, if_true]

/-- `truncate` never refuses (since the repair of the slice-bounds panic) -/
theorem truncate_ne_none (p : Proto) (h : Bytes) : truncate p h ≠ none := by
  unfold truncate
  split
  · simp
  · split <;> simp

theorem truncate_none_iff (p : Proto) (h : Bytes) : truncate p h = none ↔ False :=
  ⟨fun x => truncate_ne_none p h x, False.elim⟩

/-- whatever the prototype, the digest is a prefix of the hash -/
theorem truncate_prefix {p : Proto} {h d : Bytes} (ht : truncate p h = some d) : d <+: h := by
  unfold truncate at ht
  split at ht
  · simp only [Option.some.injEq] at ht; subst ht; exact List.prefix_refl _
  · split at ht
    · simp only [Option.some.injEq] at ht; subst ht; exact List.prefix_refl _
    · simp only [Option.some.injEq] at ht; subst ht; exact List.take_prefix _ _

theorem mkLink_some {p : Proto} {d : Bytes} {l : Lnk} (h : mkLink p d = some l) :
    l.mhType = p.mhType ∧ l.digest = d ∧
      ((p.version = 0 ∧ l.version = 0 ∧ l.codec = 0x70 ∧ d.length = 32) ∨
       (p.version = 1 ∧ l.version = 1 ∧ l.codec = p.codec)) := by
  unfold mkLink at h
  by_cases v0 : p.version = 0
  · simp only [v0, if_true] at h
    split at h
    · rename_i h32
      simp only [Option.some.injEq] at h
      subst h
      exact ⟨rfl, rfl, Or.inl ⟨v0, rfl, rfl, h32⟩⟩
    · simp at h
  · simp only [v0, if_false] at h
    by_cases v1 : p.version = 1
    · simp only [v1, if_true, Option.some.injEq] at h
      subst h
      exact ⟨rfl, rfl, Or.inr ⟨v1, rfl, rfl⟩⟩
    · simp [v1] at h

/-- inversion of `buildLink`: the guard passed, the digest of the link is the truncated hash, and the
    link is what the version's constructor makes of it -/
theorem buildLink_some {p : Proto} {h : Bytes} {l : Lnk} (hb : buildLink p h = some l) :
    v0ok p = true ∧ truncate p h = some l.digest ∧ mkLink p l.digest = some l := by
  unfold buildLink at hb
  by_cases hv : v0ok p = true
  · simp only [hv, if_true] at hb
    cases ht : truncate p h with
    | none => simp [ht] at hb
    | some d =>
      simp only [ht, Option.bind] at hb
      have := (mkLink_some hb).2.1
      subst this
      exact ⟨hv, rfl, hb⟩
  · simp [hv] at hb

theorem buildLink_of {p : Proto} {h d : Bytes} (hv : v0ok p = true) (ht : truncate p h = some d) :
    buildLink p h = mkLink p d := by
  simp [buildLink, hv, ht]

/-- `buildLink` depends on the hash only through its truncation -/
theorem buildLink_congr {p : Proto} {h₁ h₂ : Bytes} (e : truncate p h₁ = truncate p h₂) :
    buildLink p h₁ = buildLink p h₂ := by
  simp [buildLink, e]

theorem v0ok_v0 {p : Proto} (hv : v0ok p = true) (h0 : p.version = 0) :
    p.mhType = sha256Code ∧ (p.mhLength = 32 ∨ p.mhLength = -1) := by
  unfold v0ok at hv
  simp only [h0, true_and, Bool.not_eq_true', decide_eq_false_iff_not] at hv
  constructor
  · apply Classical.byContradiction; intro x; exact hv (Or.inl x)
  · apply Classical.byContradiction; intro x
    exact hv (Or.inr ⟨fun a => x (Or.inl a), fun a => x (Or.inr a)⟩)

/-! ## storage -/

theorem get_put (s : Store) (l l' : Lnk) (b : Bytes) :
    (s.put l b).get l' = if l = l' then some b else s.get l' := rfl

theorem get_put_self (s : Store) (l : Lnk) (b : Bytes) : (s.put l b).get l = some b := by
  simp [get_put]

/-- re-putting the block a link is already bound to changes no lookup -/
theorem get_put_same (s : Store) (l : Lnk) (b : Bytes) (h : s.get l = some b) (l' : Lnk) :
    (s.put l b).get l' = s.get l' := by
  rw [get_put]
  by_cases e : l = l'
  · subst e; simp [h]
  · simp [e]

/-! ## histories -/

variable (H : Nat → Bytes → Bytes) (codecs : Nat → Option Codec)

/-- the operation `op` writes block `b` under link `l` (it is a `store` whose encoder produced `b` and
    whose link came out as `l`) -/
def Writes (op : HOp) (l : Lnk) (b : Bytes) : Prop :=
  ∃ p v c, op = .store p v ∧ codecs p.codec = some c ∧ c.encode v = some b ∧ buildLink p (H p.mhType b) = some l

/-- inversion of a `store` step that returned a link -/
theorem hstep_store_out {s : Store} {p : Proto} {v : DM} {l : Lnk}
    (hs : (hstep H codecs s (.store p v)).2 = .link l) :
    ∃ c b, codecs p.codec = some c ∧ c.encode v = some b ∧ buildLink p (H p.mhType b) = some l ∧
      hstep H codecs s (.store p v) = (s.put l b, .link l) := by
  simp only [hstep] at hs ⊢
  cases hc : codecs p.codec with
  | none => simp [hc] at hs
  | some c =>
    simp only [hc] at hs ⊢
    cases he : c.encode v with
    | none => simp [he] at hs
    | some b =>
      simp only [he] at hs ⊢
      cases hb : buildLink p (H p.mhType b) with
      | none => simp [hb] at hs
      | some l' =>
        simp only [hb, HOut.link.injEq] at hs ⊢
        subst hs
        exact ⟨c, b, rfl, he, hb, rfl⟩

theorem hstep_store_of {s : Store} {p : Proto} {v : DM} {l : Lnk} {c : Codec} {b : Bytes}
    (hc : codecs p.codec = some c) (he : c.encode v = some b) (hb : buildLink p (H p.mhType b) = some l) :
    hstep H codecs s (.store p v) = (s.put l b, .link l) := by
  simp [hstep, hc, he, hb]

theorem hstep_compute_of {s : Store} {p : Proto} {v : DM} {l : Lnk} {c : Codec} {b : Bytes}
    (hc : codecs p.codec = some c) (he : c.encode v = some b) (hb : buildLink p (H p.mhType b) = some l) :
    hstep H codecs s (.compute p v) = (s, .link l) := by
  simp [hstep, hc, he, hb]

/-- a `store` that does not return a link leaves the storage alone -/
theorem hstep_store_nolink {s : Store} {p : Proto} {v : DM}
    (hs : ∀ l, (hstep H codecs s (.store p v)).2 ≠ .link l) :
    hstep H codecs s (.store p v) = (s, .error) := by
  simp only [hstep] at hs ⊢
  cases hc : codecs p.codec with
  | none => rfl
  | some c =>
    simp only [hc] at hs ⊢
    cases he : c.encode v with
    | none => rfl
    | some b =>
      simp only [he] at hs ⊢
      cases hb : buildLink p (H p.mhType b) with
      | none => rfl
      | some l' => simp only [hb] at hs; exact (hs l' rfl).elim

/-- every step leaves the storage alone, or is a store that puts the block it wrote -/
theorem hstep_fst_cases (s : Store) (op : HOp) :
    (hstep H codecs s op).1 = s ∨
    ∃ l b, Writes H codecs op l b ∧ hstep H codecs s op = (s.put l b, .link l) := by
  cases op with
  | store p v =>
    by_cases h : ∃ l, (hstep H codecs s (.store p v)).2 = .link l
    · obtain ⟨l, hl⟩ := h
      obtain ⟨c, b, hc, he, hb, e⟩ := hstep_store_out H codecs hl
      exact Or.inr ⟨l, b, ⟨p, v, c, rfl, hc, he, hb⟩, e⟩
    · left
      rw [hstep_store_nolink H codecs (fun l hl => h ⟨l, hl⟩)]
  | compute p v =>
    left
    simp only [hstep]
    split
    · rfl
    · split
      · rfl
      · split <;> rfl
  | load l =>
    left
    simp only [hstep]
    split
    · split
      · split <;> rfl
      · rfl
    · rfl
  | loadRaw l =>
    left
    simp only [hstep]
    split
    · split <;> rfl
    · rfl

/-- frame lemma, one step: the binding of `l` is unchanged, or the step wrote it -/
theorem hstep_get_cases (s : Store) (op : HOp) (l : Lnk) :
    (hstep H codecs s op).1.get l = s.get l ∨
    ∃ b, Writes H codecs op l b ∧ (hstep H codecs s op).1.get l = some b := by
  rcases hstep_fst_cases H codecs s op with e | ⟨l0, b0, hw, e⟩
  · left; rw [e]
  · rw [e]
    by_cases hl : l0 = l
    · subst hl
      exact Or.inr ⟨b0, hw, get_put_self s l0 b0⟩
    · left
      show (s.put l0 b0).get l = s.get l
      simp [get_put, hl]

theorem hrun_cons_fst (s : Store) (op : HOp) (ops : List HOp) :
    (hrun H codecs s (op :: ops)).1 = (hrun H codecs (hstep H codecs s op).1 ops).1 := rfl

theorem hrun_cons_snd (s : Store) (op : HOp) (ops : List HOp) :
    (hrun H codecs s (op :: ops)).2 = (hstep H codecs s op).2 :: (hrun H codecs (hstep H codecs s op).1 ops).2 := rfl

theorem hrun_append_fst (s : Store) (a b : List HOp) :
    (hrun H codecs s (a ++ b)).1 = (hrun H codecs (hrun H codecs s a).1 b).1 := by
  induction a generalizing s with
  | nil => rfl
  | cons op a ih => simp only [List.cons_append, hrun_cons_fst, ih]

theorem hrun_append_snd (s : Store) (a b : List HOp) :
    (hrun H codecs s (a ++ b)).2 = (hrun H codecs s a).2 ++ (hrun H codecs (hrun H codecs s a).1 b).2 := by
  induction a generalizing s with
  | nil => rfl
  | cons op a ih => simp only [List.cons_append, hrun_cons_fst, hrun_cons_snd, ih]

theorem hrun_length (s : Store) (ops : List HOp) : (hrun H codecs s ops).2.length = ops.length := by
  induction ops generalizing s with
  | nil => rfl
  | cons op ops ih => simp only [hrun_cons_snd, List.length_cons, ih]

/-- frame lemma, whole history: the binding of `l` afterwards is the one before, or one of the
    operations wrote it -/
theorem hrun_get_cases (s : Store) (ops : List HOp) (l : Lnk) :
    (hrun H codecs s ops).1.get l = s.get l ∨
    ∃ op ∈ ops, ∃ b, Writes H codecs op l b ∧ (hrun H codecs s ops).1.get l = some b := by
  induction ops generalizing s with
  | nil => left; rfl
  | cons op ops ih =>
    rw [hrun_cons_fst]
    rcases ih (hstep H codecs s op).1 with e | ⟨op', hm, b, hw, e⟩
    · rcases hstep_get_cases H codecs s op l with e' | ⟨b, hw, e'⟩
      · left; rw [e, e']
      · right; exact ⟨op, List.mem_cons_self, b, hw, by rw [e, e']⟩
    · right; exact ⟨op', List.mem_cons_of_mem _ hm, b, hw, e⟩

/-- what a step returns, and every lookup in the storage it leaves, depend on the storage only through
    its lookups -/
theorem hstep_congr (s s' : Store) (op : HOp) (h : ∀ l, s.get l = s'.get l) :
    (hstep H codecs s op).2 = (hstep H codecs s' op).2 ∧
    ∀ l, (hstep H codecs s op).1.get l = (hstep H codecs s' op).1.get l := by
  cases op with
  | store p v =>
    by_cases hx : ∃ l, (hstep H codecs s (.store p v)).2 = .link l
    · obtain ⟨l, hl⟩ := hx
      obtain ⟨c, b, hc, he, hb, e⟩ := hstep_store_out H codecs hl
      rw [e, hstep_store_of H codecs (s := s') hc he hb]
      refine ⟨rfl, fun l' => ?_⟩
      simp only [get_put, h]
    · have e1 := hstep_store_nolink H codecs (s := s) (p := p) (v := v) (fun l hl => hx ⟨l, hl⟩)
      have hx' : ∀ l, (hstep H codecs s' (.store p v)).2 ≠ .link l := by
        intro l hl
        obtain ⟨c, b, hc, he, hb, _⟩ := hstep_store_out H codecs hl
        exact hx ⟨l, by rw [hstep_store_of H codecs (s := s) hc he hb]⟩
      rw [e1, hstep_store_nolink H codecs hx']
      exact ⟨rfl, h⟩
  | compute p v =>
    have e : ∀ t : Store, hstep H codecs t (.compute p v) = (t, (hstep H codecs [] (.compute p v)).2) := by
      intro t
      simp only [hstep]
      split
      · rfl
      · split
        · rfl
        · split <;> rfl
    rw [e s, e s']
    exact ⟨rfl, h⟩
  | load l =>
    have e : ∀ t : Store, (hstep H codecs t (.load l)).1 = t := by
      intro t
      simp only [hstep]
      split
      · split
        · split <;> rfl
        · rfl
      · rfl
    refine ⟨?_, fun l' => by rw [e s, e s']; exact h l'⟩
    simp only [hstep, h l]
    cases codecs l.codec with
    | none => rfl
    | some c =>
      cases s'.get l with
      | none => rfl
      | some b =>
        by_cases hh : hashesTo H l b = true
        · simp only [hh, if_true]
          cases c.decode b <;> rfl
        · simp only [hh]; rfl
  | loadRaw l =>
    have e : ∀ t : Store, (hstep H codecs t (.loadRaw l)).1 = t := by
      intro t
      simp only [hstep]
      split
      · split <;> rfl
      · rfl
    refine ⟨?_, fun l' => by rw [e s, e s']; exact h l'⟩
    simp only [hstep, h l]
    cases s'.get l with
    | none => rfl
    | some b =>
      by_cases hh : hashesTo H l b = true
      · simp only [hh, if_true]
      · simp only [hh]; rfl

theorem hrun_congr (s s' : Store) (ops : List HOp) (h : ∀ l, s.get l = s'.get l) :
    (hrun H codecs s ops).2 = (hrun H codecs s' ops).2 ∧
    ∀ l, (hrun H codecs s ops).1.get l = (hrun H codecs s' ops).1.get l := by
  induction ops generalizing s s' with
  | nil => exact ⟨rfl, h⟩
  | cons op ops ih =>
    obtain ⟨h1, h2⟩ := hstep_congr H codecs s s' op h
    obtain ⟨h3, h4⟩ := ih _ _ h2
    simp only [hrun_cons_fst, hrun_cons_snd]
    exact ⟨by rw [h1, h3], h4⟩

/-- what `load` / `loadRaw` return, in terms of the binding of the link -/
theorem hstep_loadRaw_of {s : Store} {l : Lnk} {b : Bytes} (hg : s.get l = some b)
    (hh : hashesTo H l b = true) : hstep H codecs s (.loadRaw l) = (s, .raw b) := by
  simp [hstep, hg, hh]

theorem hstep_load_of {s : Store} {l : Lnk} {b : Bytes} {c : Codec} (hc : codecs l.codec = some c)
    (hg : s.get l = some b) (hh : hashesTo H l b = true) :
    hstep H codecs s (.load l) = (s, match c.decode b with | some v => .node v | none => .error) := by
  simp only [hstep, hc, hg, hh, if_true]
  cases c.decode b <;> rfl

/-! ## verdicts of `fill` / `loadRaw`, exactly -/

theorem fill_ok_iff (l : Lnk) (s : Stream) (d : DecRun) :
    fill H false l s d = .ok ↔ d.failed = false ∧ s.failAt = none ∧ hashesTo H l s.data = true := by
  unfold fill
  simp only [Bool.false_eq_true, if_false]
  cases hfa : s.failAt with
  | some f => simp
  | none =>
    dsimp only
    cases hh : hashesTo H l s.data <;> cases hf : d.failed <;> simp

theorem fill_decodeErr_iff (l : Lnk) (s : Stream) (d : DecRun) :
    fill H false l s d = .decodeErr ↔ d.failed = true ∧ s.failAt = none ∧ hashesTo H l s.data = true := by
  unfold fill
  simp only [Bool.false_eq_true, if_false]
  cases hfa : s.failAt with
  | some f => simp
  | none =>
    dsimp only
    cases hh : hashesTo H l s.data <;> cases hf : d.failed <;> simp

/-- an I/O error surfaces whatever the decoder did (it may even have finished before the failure point) -/
theorem fill_ioErr_iff (l : Lnk) (s : Stream) (d : DecRun) :
    fill H false l s d = .ioErr ↔ ∃ f, s.failAt = some f := by
  unfold fill
  simp only [Bool.false_eq_true, if_false]
  cases hfa : s.failAt with
  | some f => simp
  | none =>
    dsimp only
    cases hh : hashesTo H l s.data <;> cases hf : d.failed <;> simp

/-- the verdict on the hash does not depend on the decoder at all -/
theorem fill_hashMismatch_iff (l : Lnk) (s : Stream) (d : DecRun) :
    fill H false l s d = .hashMismatch ↔ s.failAt = none ∧ hashesTo H l s.data = false := by
  unfold fill
  simp only [Bool.false_eq_true, if_false]
  cases hfa : s.failAt with
  | some f => simp
  | none =>
    dsimp only
    cases hh : hashesTo H l s.data <;> cases hf : d.failed <;> simp

theorem loadRaw_eq (l : Lnk) (s : Stream) :
    loadRaw H l s =
      (match s.failAt with
       | some _ => (.ioErr, none)
       | none => if hashesTo H l s.data then (.ok, some s.data) else (.hashMismatch, none)) := rfl

/-- `b` is the only block that hashes to `l`: the collision assumption, for one link -/
def NoCollision (l : Lnk) (b : Bytes) : Prop := ∀ b', hashesTo H l b' = true → b' = b

/-! ## the three corruption families really change the block -/

theorem set_ne_self (b : Bytes) (i : Nat) (x : UInt8) (hi : i < b.length) (hx : x ≠ b[i]) : b.set i x ≠ b := by
  intro e
  have h1 : (b.set i x)[i]? = some x := by simp [hi]
  rw [e] at h1
  rw [List.getElem?_eq_getElem hi] at h1
  exact hx (Option.some.inj h1).symm

theorem take_ne_self (b : Bytes) (n : Nat) (hn : n < b.length) : b.take n ≠ b := by
  intro e
  have := congrArg List.length e
  rw [List.length_take] at this
  omega

theorem append_ne_self (b x : Bytes) (hx : x ≠ []) : b ++ x ≠ b := by
  intro e
  have := congrArg List.length e
  rw [List.length_append] at this
  cases x with
  | nil => exact hx rfl
  | cons a t => simp at this

/-- a prefix of a block of the same length as another block is that block only if the two are equal;
    used to show that only an extension can be accepted through an early-stopping decoder -/
theorem take_eq_imp (b b' : Bytes) (n : Nat) (h : b'.take n = b) : b <+: b' := by
  rw [← h]; exact List.take_prefix _ _

/-! ## `store` over encoder runs -/

theorem store_committed_iff (p : Proto) (e : EncRun) (l : Lnk) (b : Bytes) :
    store H p e = .committed l b ↔
      e.encFails = false ∧ (∀ j, e.writerFailsAt = some j → e.writes.length ≤ j) ∧
      buildLink p (H p.mhType e.writes.flatten) = some l ∧ b = e.writes.flatten := by
  unfold store
  cases hw : e.writerFailsAt with
  | none =>
    cases hf : e.encFails with
    | true => simp
    | false =>
      simp only [Bool.false_eq_true, if_false]
      cases hb : buildLink p (H p.mhType e.writes.flatten) with
      | none => simp
      | some l' =>
        simp only [StoreRes.committed.injEq, Option.some.injEq, true_and]
        constructor
        · rintro ⟨a, c⟩; exact ⟨fun j hj => (by cases hj), a, c.symm⟩
        · rintro ⟨_, a, c⟩; exact ⟨a, c.symm⟩
  | some j =>
    by_cases c : j < e.writes.length ∨ e.encFails = true
    · simp only [c, if_true]
      constructor
      · intro x; cases x
      · rintro ⟨a, g, _⟩
        rcases c with c | c
        · have := g j rfl; omega
        · rw [a] at c; cases c
    · simp only [c, if_false]
      have c1 : ¬ j < e.writes.length := fun x => c (Or.inl x)
      have c2 : e.encFails = false := by
        cases hf : e.encFails with
        | true => exact (c (Or.inr hf)).elim
        | false => rfl
      cases hb : buildLink p (H p.mhType e.writes.flatten) with
      | none => simp
      | some l' =>
        simp only [StoreRes.committed.injEq, Option.some.injEq]
        constructor
        · rintro ⟨a, d⟩
          refine ⟨c2, fun j' hj' => ?_, a, d.symm⟩
          cases hj'; omega
        · rintro ⟨_, _, a, d⟩; exact ⟨a, d.symm⟩

theorem store_failed_iff (p : Proto) (e : EncRun) :
    store H p e = .failed ↔ e.encFails = true ∨ ∃ j, e.writerFailsAt = some j ∧ j < e.writes.length := by
  unfold store
  cases hw : e.writerFailsAt with
  | none =>
    cases hf : e.encFails with
    | true => simp
    | false =>
      simp only [Bool.false_eq_true, if_false]
      cases hb : buildLink p (H p.mhType e.writes.flatten) <;> simp
  | some j =>
    by_cases c : j < e.writes.length ∨ e.encFails = true
    · simp only [c, if_true, true_iff]
      rcases c with c | c
      · exact Or.inr ⟨j, rfl, c⟩
      · exact Or.inl c
    · simp only [c, if_false]
      have c1 : ¬ j < e.writes.length := fun x => c (Or.inl x)
      have c2 : ¬ e.encFails = true := fun x => c (Or.inr x)
      cases hb : buildLink p (H p.mhType e.writes.flatten) <;> simp [c1, c2]

/-! ## `LoadPlusRaw`: `LoadRaw`, then the decoder on the verified buffer -/

/-- `LinkSystem.LoadPlusRaw` (after the decoder chooser succeeded): the block comes from `LoadRaw`
    (so it is `none` on every `LoadRaw` error), the decoder runs on that buffer; on a decode error the Go
    code returns the (verified) block together with the error. -/
def loadPlusRaw (c : Codec) (l : Lnk) (s : Stream) : Res × Option DM × Option Bytes :=
  match loadRaw H l s with
  | (.ok, some b) =>
    (match c.decode b with
     | some v => (.ok, some v, some b)
     | none => (.decodeErr, none, some b))
  | (r, _) => (r, none, none)

/-! ## the DAG-JSON model as a codec -/

/-- The DAG-JSON model as a `Codec`.  The model of the encoder goes all the way to bytes
    (`Json.encodeJson`: marshal to tokens, refmt's state machine to text, compact layout); the model of
    the decoder starts at tokens (`Json.decodeToksWin`, the code's token window).  The step in between —
    refmt's JSON tokenizer, bytes to tokens — is not modelled and enters as the parameter `lex`; the float
    formatter (strconv) is the parameter `fmtF` as everywhere in the JSON model. -/
def dagjsonCodec (fmtF : UInt64 → Option Bytes) (lex : Bytes → Option (List Json.JTok)) : Codec :=
  { encode := Json.encodeJson Json.dagjsonEnc Json.compact fmtF
    decode := fun b => (lex b).bind fun ts => (Json.decodeToksWin Json.dagjsonDec ts).toOption }

/-! ## small concrete data for the examples -/

/-- a toy hash: length and first byte (so collisions are easy to exhibit) -/
def toyHash : Nat → Bytes → Bytes := fun _ b => [UInt8.ofNat b.length, b.headD 0]

/-- a degenerate hash with one value: everything collides -/
def constHash : Nat → Bytes → Bytes := fun _ _ => [0]

/-- the `raw` codec (0x55): byte strings only, written as they are -/
def rawCodec : Codec :=
  { encode := fun v => match v with | .bytes b => some b | _ => none
    decode := fun b => some (.bytes b) }

def toyCodecs : Nat → Option Codec := fun n => if n = 0x55 then some rawCodec else none

/-- CIDv1, raw, sha2-256 code, whole digest -/
def toyP : Proto := ⟨1, 0x55, 0x12, -1⟩

end Link
end Ipld
