/-
  C19, second part — Wrap and Unwrap themselves, over every Go type of the shape vocabulary and every value.

  "Wrapping a Go value exposes exactly the data held in that value as the schema describes it (struct fields, slices,
  ordered-map structs, pointers for optional and nullable, union structs, integer widths and unsigned values), and
  unwrapping a built node returns a Go value holding exactly what was assembled.  Marshalling a Go value and
  unmarshalling the bytes into a fresh value of the same type reproduces a Go value holding the same data …"

  Property theorems only; the model is `Model/GoBind.lean` (what node.go does, not an idealisation), the lemmas are in
  `Lemmas/GoBind*.lean`.  Vocabulary:

    * `compatible g t false` — Go type `g` is bound to schema type `t`: pointers for optional / nullable (the
      vocabulary the property names), and the other slot shapes `verifyCompatibility` accepts and the node code
      serves: ONE pointer more than a slot needs (`*T` on a slot that is not nullable - struct field, list element,
      map value, the value behind an optional field's or union member's pointer -, `**T` on a nullable one, so `***T`
      for an optional nullable field), and a bare nilable Go type (slice, []byte, `datamodel.Link`, `datamodel.Node`)
      for an optional struct field (`GoBind.fslot`) or for ANY nullable slot (struct field, list element, map value),
      nil (`GoVal.nilBare`) standing for absent / null;
    * `t.wf` — the schema type is well-formed (C08: distinct field names, member names, discriminants, enum
      representation strings / ints);
    * `view g t false gv` — `Wrap(&gv, t)` read in full through the node API (`none`: the read fails);
    * `assign g t tl` — `Unwrap(build(tl))` for the type-level builder of the binding (`none`: the builder refuses);
      `tl` is ANY type-level tree (struct entries in any order), the node built is `Schema.normalize t tl` (C08/C09);
    * `gv.norm` — the normalisations Unwrap∘build applies (a nil slice in a slot where nil is an empty list comes back
      as the non-nil empty slice, empty `Keys` becomes nil, `Values` made and in step);
    * `wt g t false gv` — `gv` is a Go value of type `g` and an inhabitant of `t`;
    * `intsFit g t false v` — every integer of the canonical typed value `v` (and every enum member's
      representation int) fits the Go kind it is bound to.

  EVERY theorem below holds at full strength for the code as it is (library HEAD 7d5a566 plus the five bindnode
  repairs of this round) over the whole vocabulary; the only hypotheses are `t.wf` and `compatible`, i.e. what the
  schema compiler and `verifyCompatibility` establish before any node exists; each is needed (`view_assign_needs_wf`,
  `assign_refuses_iff_needs_wf`, `assign_refuses_iff_needs_compatible`).  Deviations that earlier versions of this
  file stated as counterexamples were repaired in the library; the same inputs are now theorems of the repaired
  behaviour:
    `view_assign_fails_enum` / `assign_accepts_unfitting_enum` (commit 7093040) → `enum_300_into_int8_is_refused`;
    `view_assign_fails_uint` / `view_total_needs_readable_uint` (commit f5ad5bb) → `uint_above_int64_reads_back`;
    `view_assign_fails_nilable_slot_empty_list` / `norm_loses_empty_list_in_nilable_slot` (an empty list or empty
    bytes assembled into a bare nilable slot used to leave the slot nil, i.e. absent / null: the list assembler now
    makes the slice when the list is begun, `AssignBytes` stores a non-nil `[]byte`) →
    `empty_list_in_bare_nilable_slot_stays_empty`, `norm_keeps_empty_list_in_nilable_slot`, and `view_assign` /
    `view_norm` no longer carry a side condition.
  The shapes that the other three repairs made usable are theorems too: `nullable_elements_in_bare_nilable`
  (nullable list elements / map values bound to bare nilable types), `double_pointer_slots` (`**T` / `***T`).
-/
import IpldModel.Lemmas.GoBindAssignView
import IpldModel.Lemmas.GoBindViewAssign
import IpldModel.Lemmas.GoBindTotal
import IpldModel.Lemmas.GoBindRefuse
import IpldModel.Lemmas.GoBindWt
import IpldModel.Props.C08
namespace Ipld.Props.C19
open Ipld Ipld.Schema Ipld.GoBind

/-! ## Wrap of what was built -/

/-- **unwrap_well_typed.**  The Go value behind a built node is a well-typed inhabitant of the schema type (integers
    within their kinds, enum values that name a member, exactly one union field set, `Keys` and `Values` in step). -/
theorem unwrap_well_typed (g : GoTy) (t : Ty) (tl : TL) (gv : GoVal) (hwf : t.wf = true)
    (hc : compatible g t false = true) (ha : assign g t tl = some gv) : wt g t false gv = true :=
  assign_wt g t tl gv hwf hc ha

/-- **view_assign.**  For every compatible pair of a Go type and a well-formed schema type and every type-level tree
    `tl`: if the builder accepts `tl` and `gv` is the Go value behind the built node, then wrapping `gv` shows exactly
    what was assembled (the normal form of `tl`: fields in declaration order, unset optional fields explicit). -/
theorem view_assign (g : GoTy) (t : Ty) (tl : TL) (gv : GoVal) (hwf : t.wf = true)
    (hc : compatible g t false = true) (ha : assign g t tl = some gv) :
    view g t false gv = some (normalize t tl) := by
  obtain ⟨w, hw⟩ := view_isSome gv g t false hc (assign_wt g t tl gv hwf hc ha)
  rw [hw, GoBind.assign_view g t tl gv hwf hc ha w hw]

/-- **empty_list_in_bare_nilable_slot_stays_empty** (was `view_assign_fails_nilable_slot_empty_list`, the known
    finding `C19/nilable-slot-empty-list-becomes-absent`, repaired).  `struct { a optional [String] }` bound to
    `struct{ A []string }` (no pointer: `verifyCompatibility` accepts a nilable type for an optional field), the
    nullable variant, and nullable Bytes in a `[]byte`: the builder accepts `{a: []}` and stores a NON-NIL empty slice
    (`BeginList` makes it), which reads as the empty list; nil is stored for absent / null only.  Go:
    `ipld.Unmarshal([]byte(`{"A":[]}`), dagjson.Decode, &v, T)` then `Marshal` gives `{"A":[]}` again. -/
theorem empty_list_in_bare_nilable_slot_stays_empty :
    compatible (.struct (GoFields.ofList [([97], .slice .str)]))
      (.struct (Fields.ofList [⟨[97], [97], true, false, .list .str false⟩]) .map) false = true ∧
    assign (.struct (GoFields.ofList [([97], .slice .str)]))
      (.struct (Fields.ofList [⟨[97], [97], true, false, .list .str false⟩]) .map)
      (.map (TLKVs.ofList [([97], .list .nil)])) = some (.struct (GoVals.ofList [.slice .nil])) ∧
    view (.struct (GoFields.ofList [([97], .slice .str)]))
      (.struct (Fields.ofList [⟨[97], [97], true, false, .list .str false⟩]) .map) false
      (.struct (GoVals.ofList [.slice .nil])) = some (.map (TLKVs.ofList [([97], .list .nil)])) ∧
    assign (.struct (GoFields.ofList [([97], .slice .str)]))
      (.struct (Fields.ofList [⟨[97], [97], true, false, .list .str false⟩]) .map)
      (.map .nil) = some (.struct (GoVals.ofList [.nilBare])) ∧
    -- the nullable variant
    assign (.struct (GoFields.ofList [([97], .slice .str)]))
      (.struct (Fields.ofList [⟨[97], [97], false, true, .list .str false⟩]) .map)
      (.map (TLKVs.ofList [([97], .list .nil)])) = some (.struct (GoVals.ofList [.slice .nil])) ∧
    view (.struct (GoFields.ofList [([97], .slice .str)]))
      (.struct (Fields.ofList [⟨[97], [97], false, true, .list .str false⟩]) .map) false
      (.struct (GoVals.ofList [.slice .nil])) = some (.map (TLKVs.ofList [([97], .list .nil)])) ∧
    assign (.struct (GoFields.ofList [([97], .slice .str)]))
      (.struct (Fields.ofList [⟨[97], [97], false, true, .list .str false⟩]) .map)
      (.map (TLKVs.ofList [([97], .null)])) = some (.struct (GoVals.ofList [.nilBare])) ∧
    -- empty bytes in a nullable `[]byte` (was `C19/nilable-slot-empty-bytes-becomes-absent-dagcbor`)
    assign (.struct (GoFields.ofList [([97], .bytes)]))
      (.struct (Fields.ofList [⟨[97], [97], false, true, .bytes⟩]) .map)
      (.map (TLKVs.ofList [([97], .bytes [])])) = some (.struct (GoVals.ofList [.bytes []])) ∧
    view (.struct (GoFields.ofList [([97], .bytes)]))
      (.struct (Fields.ofList [⟨[97], [97], false, true, .bytes⟩]) .map) false
      (.struct (GoVals.ofList [.bytes []])) = some (.map (TLKVs.ofList [([97], .bytes [])])) ∧
    -- behind a pointer (the vocabulary the property names) likewise
    assign (.struct (GoFields.ofList [([97], .ptr (.slice .str))]))
      (.struct (Fields.ofList [⟨[97], [97], true, false, .list .str false⟩]) .map)
      (.map (TLKVs.ofList [([97], .list .nil)])) = some (.struct (GoVals.ofList [.ptr (.slice .nil)])) ∧
    view (.struct (GoFields.ofList [([97], .ptr (.slice .str))]))
      (.struct (Fields.ofList [⟨[97], [97], true, false, .list .str false⟩]) .map) false
      (.struct (GoVals.ofList [.ptr (.slice .nil)])) = some (.map (TLKVs.ofList [([97], .list .nil)])) := by decide

/-- **nullable_elements_in_bare_nilable.**  Nullable list elements and map values bound to bare nilable Go types
    (`[][]byte`, `[][]string`, `map[string]datamodel.Link`): nil is null, every other value - the empty ones
    included - is itself, in both directions (reading such elements used to panic:
    `C19/nullable-element-bare-slice-read-panics`, repaired). -/
theorem nullable_elements_in_bare_nilable :
    compatible (.slice .bytes) (.list .bytes true) false = true ∧
    view (.slice .bytes) (.list .bytes true) false (.slice (GoVals.ofList [.nilBare, .bytes [], .bytes [1]]))
      = some (.list (TLs.ofList [.null, .bytes [], .bytes [1]])) ∧
    assign (.slice .bytes) (.list .bytes true) (.list (TLs.ofList [.null, .bytes [], .bytes [1]]))
      = some (.slice (GoVals.ofList [.nilBare, .bytes [], .bytes [1]])) ∧
    view (.slice (.slice .str)) (.list (.list .str false) true) false
      (.slice (GoVals.ofList [.nilBare, .slice .nil, .slice (GoVals.ofList [.str [120]])]))
      = some (.list (TLs.ofList [.null, .list .nil, .list (TLs.ofList [.str [120]])])) ∧
    assign (.slice (.slice .str)) (.list (.list .str false) true)
      (.list (TLs.ofList [.null, .list .nil, .list (TLs.ofList [.str [120]])]))
      = some (.slice (GoVals.ofList [.nilBare, .slice .nil, .slice (GoVals.ofList [.str [120]])])) ∧
    compatible (.omap (.link .iface)) (.map .link true) false = true ∧
    view (.omap (.link .iface)) (.map .link true) false
      (.omap (some [[97], [98]]) false (GoKVs.ofList [([97], .nilBare), ([98], .link [1])]))
      = some (.map (TLKVs.ofList [([97], .null), ([98], .link [1])])) ∧
    assign (.omap (.link .iface)) (.map .link true) (.map (TLKVs.ofList [([97], .null), ([98], .link [1])]))
      = some (.omap (some [[97], [98]]) false (GoKVs.ofList [([97], .nilBare), ([98], .link [1])])) ∧
    -- a type that is not nilable without a pointer is not accepted there, nor a concrete link type
    compatible (.slice .str) (.list .str true) false = false ∧
    compatible (.slice (.link .cid)) (.list .link true) false = false := by decide

/-- **double_pointer_slots.**  One pointer more than the slot needs: `**int64` for a nullable Int, `***string` for an
    optional nullable String.  nil at the outermost level is null (absent for the optional field), the value sits
    behind fresh pointers at every level (building such a value used to panic:
    `C19/nullable-double-pointer-build-panics`, repaired). -/
theorem double_pointer_slots :
    compatible (.slice (.ptr (.ptr (.int .i64)))) (.list .int true) false = true ∧
    assign (.slice (.ptr (.ptr (.int .i64)))) (.list .int true) (.list (TLs.ofList [.null, .int 7]))
      = some (.slice (GoVals.ofList [.nilPtr, .ptr (.ptr (.int 7))])) ∧
    view (.slice (.ptr (.ptr (.int .i64)))) (.list .int true) false
      (.slice (GoVals.ofList [.nilPtr, .ptr (.ptr (.int 7))])) = some (.list (TLs.ofList [.null, .int 7])) ∧
    compatible (.struct (GoFields.ofList [([97], .ptr (.ptr (.ptr .str)))]))
      (.struct (Fields.ofList [⟨[97], [97], true, true, .str⟩]) .map) false = true ∧
    assign (.struct (GoFields.ofList [([97], .ptr (.ptr (.ptr .str)))]))
      (.struct (Fields.ofList [⟨[97], [97], true, true, .str⟩]) .map) (.map .nil)
      = some (.struct (GoVals.ofList [.nilPtr])) ∧
    assign (.struct (GoFields.ofList [([97], .ptr (.ptr (.ptr .str)))]))
      (.struct (Fields.ofList [⟨[97], [97], true, true, .str⟩]) .map) (.map (TLKVs.ofList [([97], .null)]))
      = some (.struct (GoVals.ofList [.ptr .nilPtr])) ∧
    assign (.struct (GoFields.ofList [([97], .ptr (.ptr (.ptr .str)))]))
      (.struct (Fields.ofList [⟨[97], [97], true, true, .str⟩]) .map) (.map (TLKVs.ofList [([97], .str [120])]))
      = some (.struct (GoVals.ofList [.ptr (.ptr (.ptr (.str [120])))])) ∧
    view (.struct (GoFields.ofList [([97], .ptr (.ptr (.ptr .str)))]))
      (.struct (Fields.ofList [⟨[97], [97], true, true, .str⟩]) .map) false
      (.struct (GoVals.ofList [.ptr (.ptr (.ptr (.str [120])))])) = some (.map (TLKVs.ofList [([97], .str [120])])) ∧
    -- two pointers where one too many is already there are refused; an optional nullable field needs two
    compatible (.slice (.ptr (.ptr (.int .i64)))) (.list .int false) false = false ∧
    compatible (.slice (.ptr (.ptr (.ptr (.int .i64))))) (.list .int true) false = false ∧
    compatible (.struct (GoFields.ofList [([97], .ptr .str)]))
      (.struct (Fields.ofList [⟨[97], [97], true, true, .str⟩]) .map) false = false := by decide

/-- **pointer_uint64_reads_back.**  A required, non-nullable Int bound to a Go POINTER (`Count *uint64`, `[]*uint64`):
    `newNode` looks through the pointer (`nonPtrVal`) when it decides on the unsigned view, so 2^64-1 is stored behind
    a fresh pointer and reads back exactly; a nil pointer in such a slot is not a value of the type (unreadable). -/
theorem pointer_uint64_reads_back :
    compatible (.ptr (.int .u64)) .int false = true ∧
    assign (.ptr (.int .u64)) .int (.int 18446744073709551615) = some (.ptr (.int 18446744073709551615)) ∧
    view (.ptr (.int .u64)) .int false (.ptr (.int 18446744073709551615)) = some (.int 18446744073709551615) ∧
    view (.slice (.ptr (.int .u64))) (.list .int false) false
      (.slice (GoVals.ofList [.ptr (.int 9223372036854775808)])) = some (.list (TLs.ofList [.int 9223372036854775808])) ∧
    view (.ptr (.int .u64)) .int false .nilPtr = none ∧ wt (.ptr (.int .u64)) .int false .nilPtr = false ∧
    assign (.ptr (.int .u64)) .int .null = none := by decide

/-- **optional_in_bare_nilable_is_absent.**  An optional field bound to a bare nilable Go type (`Tags []string`,
    `Blob []byte`, `Ref datamodel.Link`): nil is absent - by iteration as by lookup - and absent is stored as nil. -/
theorem optional_in_bare_nilable_is_absent :
    view (.struct (GoFields.ofList [([97], .slice .str), ([98], .bytes), ([99], .link .iface)]))
      (.struct (Fields.ofList [⟨[97], [97], true, false, .list .str false⟩, ⟨[98], [98], true, false, .bytes⟩,
        ⟨[99], [99], true, false, .link⟩]) .map) false
      (.struct (GoVals.ofList [.nilBare, .nilBare, .nilBare]))
      = some (.map (TLKVs.ofList [([97], .absent), ([98], .absent), ([99], .absent)])) ∧
    assign (.struct (GoFields.ofList [([97], .slice .str), ([98], .bytes), ([99], .link .iface)]))
      (.struct (Fields.ofList [⟨[97], [97], true, false, .list .str false⟩, ⟨[98], [98], true, false, .bytes⟩,
        ⟨[99], [99], true, false, .link⟩]) .map) (.map .nil)
      = some (.struct (GoVals.ofList [.nilBare, .nilBare, .nilBare])) ∧
    view (.struct (GoFields.ofList [([97], .slice .str), ([98], .bytes), ([99], .link .iface)]))
      (.struct (Fields.ofList [⟨[97], [97], true, false, .list .str false⟩, ⟨[98], [98], true, false, .bytes⟩,
        ⟨[99], [99], true, false, .link⟩]) .map) false
      (.struct (GoVals.ofList [.slice (GoVals.ofList [.str [120]]), .bytes [], .link [1]]))
      = some (.map (TLKVs.ofList [([97], .list (TLs.ofList [.str [120]])), ([98], .bytes []), ([99], .link [1])])) := by
  decide

/-- **view_assign_needs_wf.**  Well-formedness of the schema type is needed: an int-represented enum two of whose
    members share the representation int (`Ty.wf` excludes it; `schema.SpawnTypeSystem` does not check it).  `"B"`
    is stored as 1 and reads back as the first member with that int, `"A"`. -/
theorem view_assign_needs_wf :
    (Ty.enum [⟨[65], [65], 1⟩, ⟨[66], [66], 1⟩] .int).wf = false ∧
    compatible (.int .i8) (.enum [⟨[65], [65], 1⟩, ⟨[66], [66], 1⟩] .int) false = true ∧
    assign (.int .i8) (.enum [⟨[65], [65], 1⟩, ⟨[66], [66], 1⟩] .int) (.str [66]) = some (.int 1) ∧
    view (.int .i8) (.enum [⟨[65], [65], 1⟩, ⟨[66], [66], 1⟩] .int) false (.int 1) = some (.str [65]) := by decide

/-- **enum_300_into_int8_is_refused** (was `view_assign_fails_enum`, repaired by library commit 7093040).
    `type E enum { A ("300") | B ("1") } representation int` bound to a Go `int8`: the builder refuses `"A"` (nothing
    is stored; 44, what `SetInt` used to truncate 300 to, is not a member and would not read), and stores `"B"`. -/
theorem enum_300_into_int8_is_refused :
    compatible (.int .i8) (.enum [⟨[65], [65], 300⟩, ⟨[66], [66], 1⟩] .int) false = true ∧
    assign (.int .i8) (.enum [⟨[65], [65], 300⟩, ⟨[66], [66], 1⟩] .int) (.str [65]) = none ∧
    view (.int .i8) (.enum [⟨[65], [65], 300⟩, ⟨[66], [66], 1⟩] .int) false (.int 44) = none ∧
    assign (.int .i8) (.enum [⟨[65], [65], 300⟩, ⟨[66], [66], 1⟩] .int) (.str [66]) = some (.int 1) ∧
    view (.int .i8) (.enum [⟨[65], [65], 300⟩, ⟨[66], [66], 1⟩] .int) false (.int 1) = some (.str [66]) ∧
    assign (.int .i16) (.enum [⟨[65], [65], 300⟩, ⟨[66], [66], 1⟩] .int) (.str [65]) = some (.int 300) := by decide

/-- **uint_above_int64_reads_back** (was `view_assign_fails_uint` / `view_total_needs_readable_uint`, repaired by
    library commit f5ad5bb).  A schema Int bound to a Go `uint`: 2^63 and 2^64-1 are stored by the builder, are
    well-typed, and read back exactly - like a `uint64`. -/
theorem uint_above_int64_reads_back :
    assign (.int .uint) .int (.int 9223372036854775808) = some (.int 9223372036854775808) ∧
    wt (.int .uint) .int false (.int 9223372036854775808) = true ∧
    view (.int .uint) .int false (.int 9223372036854775808) = some (.int 9223372036854775808) ∧
    view (.int .uint) .int false (.int 18446744073709551615) = some (.int 18446744073709551615) ∧
    view (.int .u64) .int false (.int 9223372036854775808) = some (.int 9223372036854775808) ∧
    assign (.int .uint) .int (.int 18446744073709551616) = none := by decide

/-! ## Unwrap of what a wrapped value shows -/

/-- **assign_view.**  For every compatible pair, every well-typed Go value `gv` of the Go type and the content `v`
    that wrapping it shows: building `v` through the type-level builder and unwrapping gives `gv` up to the stated
    normalisation (`GoVal.norm`: a nil slice that stands for an empty list becomes the non-nil empty slice, empty
    `Keys` becomes nil, `Values` is made and lists exactly `Keys`). -/
theorem assign_view (g : GoTy) (t : Ty) (gv : GoVal) (v : TL) (hwf : t.wf = true)
    (hc : compatible g t false = true) (hwt : wt g t false gv = true) (hv : view g t false gv = some v) :
    assign g t v = some gv.norm :=
  GoBind.view_assign g t gv v hwf hc hwt hv

/-- … a value that is already in normal form comes back identical. -/
theorem assign_view_normal (g : GoTy) (t : Ty) (gv : GoVal) (v : TL) (hwf : t.wf = true)
    (hc : compatible g t false = true) (hwt : wt g t false gv = true) (hv : view g t false gv = some v)
    (hn : gv.norm = gv) : assign g t v = some gv := by
  rw [assign_view g t gv v hwf hc hwt hv, hn]

/-- The normalisation is not the identity: a nil slice comes back as the non-nil empty slice, nil `Values` comes
    back made. -/
theorem norm_is_needed :
    view (.slice .str) (.list .str false) false .nilSlice = some (.list .nil) ∧
    assign (.slice .str) (.list .str false) (.list .nil) = some (.slice .nil) ∧
    GoVal.nilSlice.norm = .slice .nil ∧
    view (.omap .str) (.map .str false) false (.omap (some []) true .nil) = some (.map .nil) ∧
    assign (.omap .str) (.map .str false) (.map .nil) = some (.omap none false .nil) := by decide

/-- **view_norm.**  The normalisation does not change the data held: the normalised value shows what the value
    shows. -/
theorem view_norm (g : GoTy) (t : Ty) (gv : GoVal) (v : TL) (hwf : t.wf = true)
    (hc : compatible g t false = true) (hwt : wt g t false gv = true) (hv : view g t false gv = some v) :
    view g t false gv.norm = some v := by
  have hn := (view_good gv g t false hwf hc hwt v hv).2.1
  have := view_assign g t v gv.norm hwf hc (assign_view g t gv v hwf hc hwt hv)
  rwa [hn] at this

/-- **norm_keeps_empty_list_in_nilable_slot** (was `norm_loses_empty_list_in_nilable_slot`, the known finding
    `C19/nilable-slot-empty-list-becomes-absent` seen from the Go value, repaired):
    `struct{ A []string }{A: []string{}}` with `a` optional shows `{a: []}`, is its own normal form, and is what
    building `{a: []}` (or Marshal → Unmarshal) gives. -/
theorem norm_keeps_empty_list_in_nilable_slot :
    wt (.struct (GoFields.ofList [([97], .slice .str)]))
      (.struct (Fields.ofList [⟨[97], [97], true, false, .list .str false⟩]) .map) false
      (.struct (GoVals.ofList [.slice .nil])) = true ∧
    view (.struct (GoFields.ofList [([97], .slice .str)]))
      (.struct (Fields.ofList [⟨[97], [97], true, false, .list .str false⟩]) .map) false
      (.struct (GoVals.ofList [.slice .nil])) = some (.map (TLKVs.ofList [([97], .list .nil)])) ∧
    (GoVal.struct (GoVals.ofList [.slice .nil])).norm = .struct (GoVals.ofList [.slice .nil]) ∧
    assign (.struct (GoFields.ofList [([97], .slice .str)]))
      (.struct (Fields.ofList [⟨[97], [97], true, false, .list .str false⟩]) .map)
      (.map (TLKVs.ofList [([97], .list .nil)])) = some (.struct (GoVals.ofList [.slice .nil])) := by decide

/-! ## Every well-typed value can be wrapped and read -/

/-- **view_total.**  Every well-typed Go value of a compatible type has a view: reading the wrapped value never
    fails. -/
theorem view_total (g : GoTy) (t : Ty) (gv : GoVal) (hc : compatible g t false = true)
    (hwt : wt g t false gv = true) : ∃ v, view g t false gv = some v :=
  view_isSome gv g t false hc hwt

/-- … and then Unwrap∘build gives the value back (both directions together). -/
theorem wrap_build_unwrap (g : GoTy) (t : Ty) (gv : GoVal) (hwf : t.wf = true) (hc : compatible g t false = true)
    (hwt : wt g t false gv = true) : ∃ v, view g t false gv = some v ∧ assign g t v = some gv.norm := by
  obtain ⟨v, hv⟩ := view_total g t gv hc hwt
  exact ⟨v, hv, assign_view g t gv v hwf hc hwt hv⟩

/-- Well-typedness is what makes a value readable: a union struct with no field set, an enum integer no member
    has, a key that `Values` does not hold. -/
theorem view_total_needs_wt :
    view (.struct (GoFields.ofList [([83], .ptr .str)])) (.union (Members.ofList [⟨[83], [115], .str, .str⟩]) .keyed)
      false (.struct (GoVals.ofList [.nilPtr])) = none ∧
    view (.int .i8) (.enum [⟨[65], [65], 1⟩] .int) false (.int 2) = none ∧
    view (.omap .str) (.map .str false) false (.omap (some [[107]]) false .nil) = none := by decide

/-! ## What Wrap exposes conforms to the schema type -/

/-- **view_conforms.**  What wrapping a well-typed value exposes conforms to the schema type. -/
theorem view_conforms (g : GoTy) (t : Ty) (gv : GoVal) (v : TL) (hwf : t.wf = true)
    (hc : compatible g t false = true) (hwt : wt g t false gv = true) (hv : view g t false gv = some v) :
    conforms t false v = true :=
  (view_good gv g t false hwf hc hwt v hv).1

/-- … and has the canonical shape of a typed node (it is its own normal form). -/
theorem view_normal (g : GoTy) (t : Ty) (gv : GoVal) (v : TL) (hwf : t.wf = true)
    (hc : compatible g t false = true) (hwt : wt g t false gv = true) (hv : view g t false gv = some v) :
    normalize t v = v :=
  (view_good gv g t false hwf hc hwt v hv).2.1

/-- Well-typedness is needed: a Go string that names no member of the enum it is bound to is shown as it is. -/
theorem view_conforms_needs_wt :
    view .str (.enum [⟨[65], [65], 0⟩] .str) false (.str [66]) = some (.str [66]) ∧
    conforms (.enum [⟨[65], [65], 0⟩] .str) false (.str [66]) = false := by decide

/-! ## When the builder refuses -/

/-- **assign_refuses_iff.**  For every compatible pair with a well-formed schema type, the builder refuses a tree
    exactly when it does not conform to the schema type or an integer of it (an enum member's representation int
    included) does not fit the Go kind it is bound to. -/
theorem assign_refuses_iff (g : GoTy) (t : Ty) (tl : TL) (hwf : t.wf = true)
    (hc : compatible g t false = true) :
    assign g t tl = none ↔ (conforms t false tl = false ∨ intsFit g t false (normalize t tl) = false) :=
  assign_none_iff g t tl hwf hc

/-- **assign_refuses_iff_needs_compatible.**  Compatibility is needed: a Go `string` "bound" to a schema Int (which
    `verifyCompatibility` refuses at bind time) - the tree conforms, no integer fails to fit, and nothing can be
    stored. -/
theorem assign_refuses_iff_needs_compatible :
    compatible .str .int false = false ∧ assign .str .int (.int 1) = none ∧
    conforms .int false (.int 1) = true ∧ intsFit .str .int false (normalize .int (.int 1)) = true := by decide

/-- **assign_refuses_iff_needs_wf.**  Well-formedness is needed: a struct type with two fields of the same name
    and different types (no type system declares it).  `{a: 1}` conforms (the name is looked up, the first field
    answers), the canonical value gives BOTH fields the value 1, and the second field, a string, cannot hold it. -/
theorem assign_refuses_iff_needs_wf :
    (Ty.struct (Fields.ofList [⟨[97], [97], false, false, .int⟩, ⟨[97], [97], false, false, .str⟩]) .map).wf = false ∧
    compatible (.struct (GoFields.ofList [([97], .int .i64), ([97], .str)]))
      (.struct (Fields.ofList [⟨[97], [97], false, false, .int⟩, ⟨[97], [97], false, false, .str⟩]) .map) false = true ∧
    assign (.struct (GoFields.ofList [([97], .int .i64), ([97], .str)]))
      (.struct (Fields.ofList [⟨[97], [97], false, false, .int⟩, ⟨[97], [97], false, false, .str⟩]) .map)
      (.map (TLKVs.ofList [([97], .int 1)])) = none ∧
    conforms (.struct (Fields.ofList [⟨[97], [97], false, false, .int⟩, ⟨[97], [97], false, false, .str⟩]) .map) false
      (.map (TLKVs.ofList [([97], .int 1)])) = true ∧
    intsFit (.struct (GoFields.ofList [([97], .int .i64), ([97], .str)]))
      (.struct (Fields.ofList [⟨[97], [97], false, false, .int⟩, ⟨[97], [97], false, false, .str⟩]) .map) false
      (normalize (.struct (Fields.ofList [⟨[97], [97], false, false, .int⟩, ⟨[97], [97], false, false, .str⟩]) .map)
        (.map (TLKVs.ofList [([97], .int 1)]))) = true := by decide

/-- Widths: the boundary of each side, for a narrow signed and a narrow unsigned kind. -/
theorem assign_width_boundaries :
    assign (.int .i8) .int (.int 127) = some (.int 127) ∧ assign (.int .i8) .int (.int 128) = none ∧
    assign (.int .i8) .int (.int (-128)) = some (.int (-128)) ∧ assign (.int .i8) .int (.int (-129)) = none ∧
    assign (.int .u16) .int (.int 65535) = some (.int 65535) ∧ assign (.int .u16) .int (.int 65536) = none ∧
    assign (.int .u16) .int (.int (-1)) = none ∧
    assign (.int .u64) .int (.int 18446744073709551615) = some (.int 18446744073709551615) ∧
    assign (.int .i64) .int (.int 9223372036854775808) = none := by decide

/-! ## Marshal, then Unmarshal into a fresh value -/

/-- **marshal_unmarshal.**  Model-level composition of `Marshal` and `Unmarshal`: the wrapped value's content `v`,
    its representation `d` (C08 `repr`), a codec that gives the representation back (`dec (enc d) = some d`: proved
    for dag-cbor in C02 `decode_encode` up to the canonical order of map entries - the key order of ordered-map
    structs that the property text excepts), the representation builder (`ofRepr`, C08 `ofRepr_repr_partial`), and
    `Unwrap`: the fresh Go value is the normalised original.  `unambig` is C08's side condition on string
    strategies (a stringjoin field holding the delimiter does not survive ANY codec). -/
theorem marshal_unmarshal {β : Type} (enc : DM → β) (dec : β → Option DM)
    (g : GoTy) (t : Ty) (gv : GoVal) (v : TL) (d : DM) (hwf : t.wf = true)
    (hc : compatible g t false = true) (hwt : wt g t false gv = true) (hv : view g t false gv = some v)
    (hu : unambig t v = true) (hr : repr t v = some d) (hcodec : dec (enc d) = some d) :
    ∃ d' v', dec (enc d) = some d' ∧ ofRepr Engine.ideal t d' = .ok v' ∧ assign g t v' = some gv.norm :=
  ⟨d, v, hcodec,
    C08.ofRepr_repr_partial t v d hwf (view_conforms g t gv v hwf hc hwt hv) hu hr,
    assign_view g t gv v hwf hc hwt hv⟩

/-! ## Non-vacuity: one binding that uses the whole vocabulary -/

/-- `struct { a Int; b optional String; c optional nullable Int; d [nullable Bool]; e {String:Int};
             f union { | S String "s" | I enum{A=1,B=2}/int "i" } keyed;
             g Int; h optional [String]; i nullable Bytes; j optional Link;
             k [nullable Link]; l nullable Int; m optional nullable String }` -/
def exSchema : Ty :=
  .struct (Fields.ofList [⟨[97], [97], false, false, .int⟩, ⟨[98], [98], true, false, .str⟩,
    ⟨[99], [99], true, true, .int⟩, ⟨[100], [100], false, false, .list .bool true⟩,
    ⟨[101], [101], false, false, .map .int false⟩,
    ⟨[102], [102], false, false, .union (Members.ofList [⟨[83], [115], .str, .str⟩,
      ⟨[73], [105], .int, .enum [⟨[65], [65], 1⟩, ⟨[66], [66], 2⟩] .int⟩]) .keyed⟩,
    ⟨[103], [103], false, false, .int⟩, ⟨[104], [104], true, false, .list .str false⟩,
    ⟨[105], [105], false, true, .bytes⟩, ⟨[106], [106], true, false, .link⟩,
    ⟨[107], [107], false, false, .list .link true⟩, ⟨[108], [108], false, true, .int⟩,
    ⟨[109], [109], true, true, .str⟩]) .map

/-- `struct { A int8; B *string; C **uint64; D []*bool; E struct{Keys []string; Values map[string]uint16};
             F struct{ S *string; I *uint8 }; G *uint64; H []string; I []byte; J datamodel.Link;
             K []datamodel.Link; L **int64; M ***string }`
    (G: one pointer on a required field; H, I, J: bare nilable types for optional / nullable fields; K: for nullable
    elements; L, M: one pointer more than nullable / optional nullable need) -/
def exGo : GoTy :=
  .struct (GoFields.ofList [([97], .int .i8), ([98], .ptr .str), ([99], .ptr (.ptr (.int .u64))),
    ([100], .slice (.ptr .bool)), ([101], .omap (.int .u16)),
    ([102], .struct (GoFields.ofList [([83], .ptr .str), ([73], .ptr (.int .u8))])),
    ([103], .ptr (.int .u64)), ([104], .slice .str), ([105], .bytes), ([106], .link .iface),
    ([107], .slice (.link .iface)), ([108], .ptr (.ptr (.int .i64))), ([109], .ptr (.ptr (.ptr .str)))])

/-- `{A: -5, B: nil, C: &nil, D: {nil, &true}, E: {Keys: {"b","a"}, Values: {"a":1, "b":2}}, F: {I: &2},
      G: &(1<<64-1), H: {"x"}, I: nil, J: nil, K: {nil, cid}, L: &&7, M: &nil}` -/
def exVal : GoVal :=
  .struct (GoVals.ofList [.int (-5), .nilPtr, .ptr .nilPtr, .slice (GoVals.ofList [.nilPtr, .ptr (.bool true)]),
    .omap (some [[98], [97]]) false (GoKVs.ofList [([97], .int 1), ([98], .int 2)]),
    .struct (GoVals.ofList [.nilPtr, .ptr (.int 2)]),
    .ptr (.int 18446744073709551615), .slice (GoVals.ofList [.str [120]]), .nilBare, .nilBare,
    .slice (GoVals.ofList [.nilBare, .link [1]]), .ptr (.ptr (.int 7)), .ptr .nilPtr])

/-- `{a: -5, b: absent, c: null, d: [null, true], e: {"b": 2, "a": 1}, f: {I: "B"},
      g: 2^64-1, h: ["x"], i: null, j: absent, k: [null, cid], l: 7, m: null}` -/
def exTL : TL :=
  .map (TLKVs.ofList [([97], .int (-5)), ([98], .absent), ([99], .null),
    ([100], .list (TLs.ofList [.null, .bool true])),
    ([101], .map (TLKVs.ofList [([98], .int 2), ([97], .int 1)])),
    ([102], .map (TLKVs.ofList [([73], .str [66])])),
    ([103], .int 18446744073709551615), ([104], .list (TLs.ofList [.str [120]])), ([105], .null),
    ([106], .absent), ([107], .list (TLs.ofList [.null, .link [1]])), ([108], .int 7), ([109], .null)])

/-- the same tree with the fields in another order and the unset fields left out, as a builder may be fed -/
def exTLShuffled : TL :=
  .map (TLKVs.ofList [([102], .map (TLKVs.ofList [([73], .str [66])])), ([97], .int (-5)), ([109], .null),
    ([105], .null), ([101], .map (TLKVs.ofList [([98], .int 2), ([97], .int 1)])), ([99], .null),
    ([108], .int 7), ([104], .list (TLs.ofList [.str [120]])), ([100], .list (TLs.ofList [.null, .bool true])),
    ([107], .list (TLs.ofList [.null, .link [1]])), ([103], .int 18446744073709551615)])

-- the hypotheses of every theorem above are satisfiable together, on a value that uses every construction
example : exSchema.wf = true ∧ compatible exGo exSchema false = true ∧
    wt exGo exSchema false exVal = true := by decide
-- view_total / view_conforms / view_normal
example : view exGo exSchema false exVal = some exTL ∧ conforms exSchema false exTL = true ∧
    normalize exSchema exTL = exTL := by decide
-- assign_view / view_norm: here the value is in normal form except for the order of the association list
example : assign exGo exSchema exTL = some exVal.norm ∧ exVal.norm ≠ exVal ∧ exVal.norm.norm = exVal.norm ∧
    view exGo exSchema false exVal.norm = some exTL := by decide
-- view_assign / unwrap_well_typed, fed in another field order
example : assign exGo exSchema exTLShuffled = some exVal.norm ∧ normalize exSchema exTLShuffled = exTL ∧
    view exGo exSchema false exVal.norm = some exTL ∧ wt exGo exSchema false exVal.norm = true := by decide
-- assign_refuses_iff: 200 does not fit the int8 field `a`; an unknown union member does not conform
example : assign exGo exSchema (.map (TLKVs.ofList [([97], .int 200), ([99], .null), ([100], .list .nil),
      ([101], .map .nil), ([102], .map (TLKVs.ofList [([83], .str [])])), ([103], .int 1), ([105], .bytes []),
      ([107], .list .nil), ([108], .null)])) = none ∧
    intsFit exGo exSchema false (normalize exSchema (.map (TLKVs.ofList [([97], .int 200), ([99], .null),
      ([100], .list .nil), ([101], .map .nil), ([102], .map (TLKVs.ofList [([83], .str [])])), ([103], .int 1),
      ([105], .bytes []), ([107], .list .nil), ([108], .null)]))) = false ∧
    -- ... and with 100 in its place the same tree is stored
    (assign exGo exSchema (.map (TLKVs.ofList [([97], .int 100), ([99], .null), ([100], .list .nil),
      ([101], .map .nil), ([102], .map (TLKVs.ofList [([83], .str [])])), ([103], .int 1), ([105], .bytes []),
      ([107], .list .nil), ([108], .null)]))).isSome = true := by decide
-- marshal_unmarshal: the representation of the example (keyed union, enum as int, absent fields omitted)
example : unambig exSchema exTL = true ∧
    repr exSchema exTL = some (.map (DMKVs.ofList [([97], .int (-5)), ([99], .null),
      ([100], .list (DMs.ofList [.null, .bool true])),
      ([101], .map (DMKVs.ofList [([98], .int 2), ([97], .int 1)])),
      ([102], .map (DMKVs.ofList [([105], .int 2)])),
      ([103], .int 18446744073709551615), ([104], .list (DMs.ofList [.str [120]])), ([105], .null),
      ([107], .list (DMs.ofList [.null, .link [1]])), ([108], .int 7), ([109], .null)])) := by decide

end Ipld.Props.C19
