package checks

import (
	"fmt"
	"math"
	"os"
	"regexp"
	"sort"
	"strconv"
	"strings"

	"github.com/ipld/go-ipld-prime/datamodel"
	"github.com/ipld/go-ipld-prime/node/bindnode"

	"verif/internal/core"
)

// C13 — generated code compiles and behaves exactly like the reflection binding.
//
//   impl observation : random type systems within the code generator's feature set (core.GenSupported) are handed to
//                      gengo.Generate in this process (the generator of the working tree), one Go package each, and
//                      compiled together with a small request/answer main by the Go toolchain.  For EVERY named type of
//                      every type system (root and nested), conforming inputs and every local mutation of them (the
//                      C09 mutation machinery) are fed whole into the type-level and the representation-level builder
//                      over six routes (core.GenRoutes: three pure assembler plans - AssembleEntry / key assembler /
//                      one AssignNode of a prebuilt node -, dag-cbor bytes, dag-json text, a random assembler plan) to BOTH
//                      engines: the generated package (in the child) and bindnode.Prototype(nil, schemaType) of the same
//                      schema.TypeSystem (in this process).  One function (core.GenObserve) describes what happened for
//                      both:  accepted <type-level view> | <representation view> | <dag-cbor bytes> | <dag-json bytes>
//                      or   rejected   or   panic.
//   (O) oracle        : the two observations are the same string - same accept/reject, same content at both levels, same
//                      bytes (a panic while building and a node that cannot be read in full count as the same outcome);
//                      every generated package compiles; and, for each engine by itself, random access to the node built
//                      (Length, LookupByString/Node/Segment/Index at every level of both views) shows what iteration showed.
//   (D) correspondence: each observation is the one the Lean model predicts for that engine driven that way:
//                      `schema.of<level> gen@<plan>` / `schema.of<level> bindnode@<plan>` (plan = entry | keys | node),
//                      `schema.repr` of the value built, `cbor.enc` / `json.enc` of that.  The random plan is predicted
//                      where the three pure plans get one answer; inputs on which the plan matters are left to the pure plans.
//   A disagreement of the engines that both correspondences explain is attributed to the flags of `Engine.gen` whose
//   removal changes the model's answer (`schema.quirksof gen@<plan>`) and reported as `C13/gen-<flag>`, one signature per
//   flag; a value without representation that both engines build and show differently is
//   `C13/view-of-value-without-representation` (decided by the model's `schema.repr`); an inconsistent node is
//   `C13/<engine>-node/<probe>-<what>`; anything else keeps a generic signature and fails the run.

func init() {
	core.Register(&core.Check{ID: "C13", Run: runC13, Replay: replayC13, After: core.GenTrimCache})
}

const c13SigCompile = "C13/generated-code-does-not-compile"

type c13Case struct {
	g      *core.GenTS
	t      *core.SType // the type under test (root or nested)
	ty     string      // its tokens
	lvl    string      // type | repr
	input  core.Val
	mut    string // mutation kind; "none": a generated inhabitant's own input
	expect string // mut == none: the canonical typed value (term)
}

// caseLine is the replayable form of one (case, route).
func (cs c13Case) caseLine(route string, seed uint64) string {
	return "c13 " + cs.g.Tokens() + " TYPE " + cs.t.Name + " " + cs.lvl + " " + route + " " + strconv.FormatUint(seed, 10) + " VAL " + cs.input.Term()
}

func (cs c13Case) modelArgs() string { return cs.ty + " VAL " + cs.input.Term() }

// parseC13Line parses a case line; the type system gets package index idx.
func parseC13Line(line string, idx int) (cs c13Case, route string, seed uint64, compileOnly bool, err error) {
	f := strings.Fields(line)
	if len(f) < 3 || f[0] != "c13" {
		return cs, "", 0, false, fmt.Errorf("bad C13 case line")
	}
	g, rest, err := core.ParseGenTS(idx, f[1:])
	if err != nil {
		return cs, "", 0, false, err
	}
	cs.g = g
	if len(rest) == 1 && rest[0] == "COMPILE" {
		return cs, "", 0, true, nil
	}
	if len(rest) < 7 || rest[0] != "TYPE" || rest[5] != "VAL" {
		return cs, "", 0, false, fmt.Errorf("bad C13 case line: want TYPE <name> <level> <route> <seed> VAL <term>")
	}
	cs.t = g.TypeByName(rest[1])
	if cs.t == nil {
		return cs, "", 0, false, fmt.Errorf("no type %s in the type system", rest[1])
	}
	cs.ty = cs.t.Tokens()
	cs.lvl, route = rest[2], rest[3]
	if cs.lvl != "type" && cs.lvl != "repr" {
		return cs, "", 0, false, fmt.Errorf("bad level %q", cs.lvl)
	}
	seed, err = strconv.ParseUint(rest[4], 10, 64)
	if err != nil {
		return cs, "", 0, false, err
	}
	v, rest2, err := core.ParseTerm(rest[6:])
	if err != nil || len(rest2) != 0 {
		return cs, "", 0, false, fmt.Errorf("bad value term")
	}
	cs.input, cs.mut = v, "replay"
	return cs, route, seed, false, nil
}

// bindProto: the reflection binding of the same schema type (cached per type system).
type c13Binds struct {
	protos map[string]datamodel.NodePrototype
}

func (b *c13Binds) proto(g *core.GenTS, name, lvl string) (p datamodel.NodePrototype, err error) {
	key := strconv.Itoa(g.Index) + "/" + name + "/" + lvl
	if p, ok := b.protos[key]; ok {
		return p, nil
	}
	t := g.TS.TypeByName(name)
	if t == nil {
		return nil, fmt.Errorf("no type %q in the type system", name)
	}
	defer func() {
		if r := recover(); r != nil {
			err = fmt.Errorf("bindnode.Prototype(nil, %s) panicked: %v", name, r)
		}
	}()
	tp := bindnode.Prototype(nil, t)
	b.protos[strconv.Itoa(g.Index)+"/"+name+"/type"] = tp
	b.protos[strconv.Itoa(g.Index)+"/"+name+"/repr"] = tp.Representation()
	return b.protos[key], nil
}

type c13Routed struct {
	route       string
	seed        uint64
	gen, bind   string // observations
	genD, bindD string // details (error texts)
	genL, bindL string // lookup self-checks ("" = random access agrees with iteration)
}

// The plans under which the model is asked (Engine.viaKeys / viaNode): how the route drives the builder.
var c13Plans = []string{"entry", "keys", "node"}

func c13PlanOf(route string) string {
	switch route {
	case "keys", "node":
		return route
	case "direct-rand":
		return "mixed"
	}
	return "entry" // direct, cbor, json: AssembleEntry, Begin* called
}

// c13Class: a panic while building and a node that cannot be read in full are one class of outcome.
func c13Class(obs string) string {
	if obs == "panic" || core.GenUnreadable(obs) {
		return "panic"
	}
	return obs
}

func firstSegment(s string) string {
	if i := strings.Index(s, " | "); i >= 0 {
		return s[:i]
	}
	return s
}

// c13Pred is the model's prediction for one engine under one plan.
type c13Pred struct {
	of      string // ok <tl> | reject | panic
	full    string // the whole observation
	hasRepr bool   // false: the value built has no representation (only outcome and type-level view are specified)
}

// corresponds: the observation is the predicted one.
func (p c13Pred) corresponds(obs string) bool {
	switch {
	case p.of == "panic":
		return c13Class(obs) == "panic"
	case strings.HasPrefix(p.of, "ok ") && !p.hasRepr:
		return firstSegment(obs) == firstSegment(p.full)
	}
	return obs == p.full
}

// c13Batch runs the cases on both engines and the model and compares.  The child must have been compiled for the
// cases' type systems.  routes: the routes to use (a replay names one); seedOf: the seed of a (case, route).
func c13Batch(c *core.Ctx, cases []c13Case, routes []string, seedOf func(i int, route string) uint64, report func(string, core.Replay), stats bool) error {
	if len(cases) == 0 {
		return nil
	}
	// ---- both engines
	perCase := make([][]c13Routed, len(cases))
	var reqs []core.GenRequest
	type back struct{ i, j int }
	var backs []back
	binds := &c13Binds{protos: map[string]datamodel.NodePrototype{}}
	for i, cs := range cases {
		for _, route := range routes {
			payload, ok := core.GenPayload(route, cs.input)
			if !ok {
				continue // the route cannot carry the input
			}
			seed := seedOf(i, route)
			rt := c13Routed{route: route, seed: seed}
			bp, err := binds.proto(cs.g, cs.t.Name, cs.lvl)
			if err != nil {
				rt.bind, rt.bindD = "panic", err.Error()
			} else {
				rt.bind, rt.bindD, rt.bindL = core.SplitObs(core.GenObserve(bp, route, payload, seed))
			}
			perCase[i] = append(perCase[i], rt)
			backs = append(backs, back{i, len(perCase[i]) - 1})
			reqs = append(reqs, core.GenRequest{Pkg: cs.g.Index, Type: cs.t.Name, Level: cs.lvl, Route: route, Payload: payload, Seed: seed})
		}
	}
	answers, err := core.RunGen(reqs)
	if err != nil {
		return err
	}
	for k, a := range answers {
		rt := &perCase[backs[k].i][backs[k].j]
		rt.gen, rt.genD, rt.genL = core.SplitObs(a)
	}

	// ---- the model, round 1: the builders of both engines under the three plans, and the ideal builder
	const perCaseLines = 7
	lines := make([]string, 0, perCaseLines*len(cases))
	for _, cs := range cases {
		for _, eng := range []string{"gen", "bindnode"} {
			for _, plan := range c13Plans {
				lines = append(lines, "schema.of"+cs.lvl+" "+eng+"@"+plan+" "+cs.modelArgs())
			}
		}
		lines = append(lines, "schema.of"+cs.lvl+" ideal "+cs.modelArgs())
	}
	r1, err := core.RunDriver(lines)
	if err != nil {
		return err
	}
	// round 2: representation of every value built; responsible flags where the engines' models differ
	idx2 := map[string]int{}
	var lines2 []string
	ask2 := func(l string) {
		if _, ok := idx2[l]; !ok {
			idx2[l] = len(lines2)
			lines2 = append(lines2, l)
		}
	}
	for i, cs := range cases {
		for k := 0; k < perCaseLines; k++ {
			o := r1[perCaseLines*i+k]
			if strings.HasPrefix(o, "bad-") {
				return fmt.Errorf("driver refused case %q: %s", lines[perCaseLines*i+k], o)
			}
			if strings.HasPrefix(o, "ok ") {
				ask2("schema.repr " + cs.ty + " VAL " + o[3:])
			}
		}
		for p, plan := range c13Plans {
			if r1[perCaseLines*i+p] != r1[perCaseLines*i+3+p] {
				ask2("schema.quirksof gen@" + plan + " " + cs.lvl + " " + cs.modelArgs())
			}
		}
	}
	r2, err := core.RunDriver(lines2)
	if err != nil {
		return err
	}
	// round 3: bytes of every representation
	idx3 := map[string]int{}
	jsonLine := map[string]string{} // per representation term (floatTable is not deterministic in its order)
	var lines3 []string
	ask3 := func(l string) {
		if _, ok := idx3[l]; !ok {
			idx3[l] = len(lines3)
			lines3 = append(lines3, l)
		}
	}
	for k, o := range r2 {
		if !strings.HasPrefix(lines2[k], "schema.repr ") || o == "nonconforming" || strings.HasPrefix(o, "bad-") {
			continue
		}
		ask3("cbor.enc " + o)
		if v, err := core.ParseTermString(o); err == nil {
			jsonLine[o] = "json.enc dag " + floatTable(v) + " " + o
			ask3(jsonLine[o])
		}
	}
	r3, err := core.RunDriver(lines3)
	if err != nil {
		return err
	}
	// the model's full observation for a builder answer
	predict := func(cs c13Case, of string) c13Pred {
		if !strings.HasPrefix(of, "ok ") {
			return c13Pred{of: of, full: modelObs(of), hasRepr: true}
		}
		tl := of[3:]
		rp := r2[idx2["schema.repr "+cs.ty+" VAL "+tl]]
		if rp == "nonconforming" {
			return c13Pred{of: of, full: "accepted " + tl + " | nonconforming | - | -", hasRepr: false}
		}
		cb, js := "-", "-"
		if k, ok := idx3["cbor.enc "+rp]; ok {
			if f := strings.Fields(r3[k]); len(f) >= 2 && f[0] == "ok" {
				cb = f[1]
			}
		}
		if k, ok := idx3[jsonLine[rp]]; ok {
			if f := strings.Fields(r3[k]); len(f) >= 2 && f[0] == "ok" {
				js = f[1]
			}
		}
		return c13Pred{of: of, full: "accepted " + tl + " | " + rp + " | " + cb + " | " + js, hasRepr: true}
	}

	// ---- compare
	for i, cs := range cases {
		base := perCaseLines * i
		gen, bind := map[string]c13Pred{}, map[string]c13Pred{}
		quirks := map[string]string{}
		for p, plan := range c13Plans {
			gen[plan], bind[plan] = predict(cs, r1[base+p]), predict(cs, r1[base+3+p])
			quirks[plan] = "-"
			if k, ok := idx2["schema.quirksof gen@"+plan+" "+cs.lvl+" "+cs.modelArgs()]; ok {
				quirks[plan] = r2[k]
			}
		}
		ideal := predict(cs, r1[base+6])
		// a random plan is predictable where the three pure plans get the same answer
		planSensitive := gen["entry"].of != gen["keys"].of || gen["entry"].of != gen["node"].of ||
			bind["entry"].of != bind["keys"].of || bind["entry"].of != bind["node"].of
		gen["mixed"], bind["mixed"], quirks["mixed"] = gen["entry"], bind["entry"], quirks["entry"]

		dups := core.HasRepeatedKey(cs.input)
		rts := perCase[i]
		if stats {
			c.Dist("level:" + cs.lvl)
			c.Dist("mutation:" + cs.mut)
			c.Dist("subject:" + subjectKind(cs.t))
			c.Dist("model-ideal:" + strings.Fields(ideal.full)[0])
			for _, plan := range c13Plans {
				if gen[plan].of != ideal.of {
					c.Dist("model-gen-differs-from-ideal:" + plan + ":" + quirks[plan])
				}
			}
			if i < 4 && len(rts) > 0 {
				c.Sample(map[string]string{"case": cs.caseLine(rts[0].route, rts[0].seed), "mutation": cs.mut, "gen": rts[0].gen, "bindnode": rts[0].bind, "model-gen": gen["entry"].full})
			}
		}
		if cs.g.Ambiguous() {
			c.Dist("type-system-with-unreadable-stringprefix-discriminant")
		}
		// (a type system with a string strategy that cannot read back its own output makes no such promise for inputs at
		// representation level; the engines are still compared with each other and with the model on it)
		if cs.mut == "none" && ideal.of != "ok "+cs.expect && !(cs.g.Ambiguous() && cs.lvl == "repr") {
			report("C13/model-rejects-generated-inhabitant", core.Replay{Kind: "correspondence", Case: cs.caseLine("direct", 0), Model: ideal.of, Expected: "ok " + cs.expect,
				Detail: "the model's ideal builder does not build the generated inhabitant from its own input"})
			continue
		}
		for _, rt := range rts {
			line := cs.caseLine(rt.route, rt.seed)
			plan := c13PlanOf(rt.route)
			if stats {
				c.Count("c13 "+cs.g.Tokens()+" TYPE "+cs.t.Name+" "+cs.lvl+" "+rt.route+" VAL "+cs.input.Term(), cs.mut != "none" || cs.input.Size() >= 3)
				c.Trace(1)
				c.Dist("route:" + rt.route)
				c.Dist("gen:" + strings.Fields(c13Class(rt.gen))[0])
				c.Dist("bindnode:" + strings.Fields(c13Class(rt.bind))[0])
			}
			mg, mb, q := gen[plan], bind[plan], quirks[plan]
			rp := func(kind, expected, det string) core.Replay {
				return core.Replay{Kind: kind, Case: line, Impl: "gen=" + rt.gen + "  bindnode=" + rt.bind,
					Model:    "plan=" + plan + "  gen=" + mg.full + "  bindnode=" + mb.full + "  ideal=" + ideal.full + "  quirks=" + q,
					Expected: expected, Detail: "mutation=" + cs.mut + " subject=" + cs.ty + " " + det + " [gen: " + rt.genD + "] [bindnode: " + rt.bindD + "]"}
			}
			if rt.route == "cbor" && dups {
				// the dag-cbor decoder itself refuses a repeated map key (C03): the input never reaches a builder whole,
				// whatever the engine; the engines must still agree with each other
				if stats {
					c.Dist("cbor-route:repeated-key-refused-by-codec")
				}
				if strings.HasPrefix(rt.gen, "accepted") || strings.HasPrefix(rt.bind, "accepted") {
					report("C13/cbor-route-passed-repeated-key", rp("oracle", "rejected by the decoder", ""))
				} else if rt.gen != rt.bind {
					report("C13/engines-disagree", rp("oracle", "the same observation from both engines", "repeated key over the dag-cbor route"))
				}
				continue
			}
			if plan == "mixed" && planSensitive {
				// the answer depends on which assembler calls carry the input (the pure plans `direct`, `keys`, `node` check
				// exactly that); a random mixture of them is not predicted
				if stats {
					c.Dist("direct-rand:plan-sensitive-input-left-to-the-pure-plans")
				}
				continue
			}
			if valHasBigUint(cs.input) {
				// outside the model's domain (its integers are unbounded): judged by the oracle alone - no Int slot holds an
				// unsigned value above MaxInt64 (the mutator puts it in Int slots only), so both engines refuse the input, by
				// whichever route it arrives
				c.Dist("int-above-int64:" + firstWord(rt.gen) + "/" + firstWord(rt.bind))
				if strings.HasPrefix(rt.gen, "accepted") || strings.HasPrefix(rt.bind, "accepted") {
					report("C13/int-above-int64-accepted", rp("oracle", "rejected by both engines", "an unsigned integer above MaxInt64 in an Int slot"))
				}
				continue
			}
			genCorr, bindCorr := mg.corresponds(rt.gen), mb.corresponds(rt.bind)
			// (O) the engines agree
			if c13Class(rt.gen) != c13Class(rt.bind) {
				switch {
				case genCorr && bindCorr && q != "-":
					for _, f := range strings.Split(q, ",") {
						report("C13/gen-"+f, rp("oracle", "the same observation from both engines", "the generated code deviates from the reflection binding; the model attributes it to Engine.gen."+f))
					}
				case genCorr && bindCorr && mg.of == mb.of && !mg.hasRepr:
					// both engines build the same type-level value, and it has no representation (a tuple with an absent
					// field before a present one): each shows something else where there is nothing to show
					report("C13/view-of-value-without-representation", rp("oracle", "the same observation from both engines", "both engines accept a type-level value that has no representation; their representation views differ"))
				default:
					report(c13ViewDeviation(rt), rp("oracle", "the same observation from both engines", "generated code and reflection binding disagree, and the model does not explain it"))
				}
			}
			// (D) each engine is the one the model describes
			if !genCorr {
				if c13Class(rt.gen) == "panic" {
					report("C13/gen-panic", rp("correspondence", mg.full, "the generated code panics (or hands out an unreadable node) where the model's `gen` engine does not"))
				} else {
					report("C13/corr-gen-"+cs.lvl+"-builder", rp("correspondence", mg.full, "generated code vs the model's `gen` engine"))
				}
			}
			if !bindCorr {
				report("C13/corr-bindnode-"+cs.lvl+"-builder", rp("correspondence", mb.full, "reflection binding vs the model's `bindnode` engine"))
			}
			// (O) the nodes of each engine are consistent in themselves: random access shows what iteration showed
			for _, lk := range [][2]string{{"gen", rt.genL}, {"bindnode", rt.bindL}} {
				if lk[1] == "" {
					continue
				}
				for _, problem := range strings.Split(lk[1], ";;") {
					report("C13/"+lk[0]+"-node/"+c13LookupClass(problem), rp("oracle", "Length and every lookup agree with iteration", lk[0]+": "+problem))
				}
			}
		}
	}
	return nil
}

var c13Particulars = regexp.MustCompile(`\(.*\)`)

// c13LookupClass: the failing probe and what it did, without the particulars in parentheses (error / panic text).
func c13LookupClass(l string) string {
	l = c13Particulars.ReplaceAllString(l, "")
	if i := strings.Index(l, ":"); i >= 0 {
		l = l[i+1:] // the view (type-level | representation) stays in the detail
	}
	return l
}

// c13ViewDeviation names a disagreement the model does not explain by the part of the observation that differs.
func c13ViewDeviation(rt c13Routed) string {
	g, b := c13Class(rt.gen), c13Class(rt.bind)
	ga, ba := strings.HasPrefix(g, "accepted "), strings.HasPrefix(b, "accepted ")
	if !ga || !ba {
		return "C13/engines-disagree-on-outcome"
	}
	gs, bs := strings.Split(g, " | "), strings.Split(b, " | ")
	if len(gs) != 4 || len(bs) != 4 {
		return "C13/engines-disagree"
	}
	switch {
	case gs[0] != bs[0]:
		return "C13/engines-disagree-on-type-level-view"
	case gs[1] != bs[1]:
		return "C13/engines-disagree-on-representation-view"
	case gs[2] != bs[2]:
		return "C13/engines-disagree-on-dag-cbor-bytes"
	}
	return "C13/engines-disagree-on-dag-json-bytes"
}

func subjectKind(t *core.SType) string {
	switch t.K {
	case "struct":
		return "struct-" + t.SRepr
	case "union":
		return "union-" + t.URepr
	case "list", "map":
		if t.Nullable {
			return t.K + "?"
		}
	}
	return t.K
}

// c13Cases draws the cases of one type system: per named type, inhabitants and their mutations at both levels.
func c13Cases(g *core.GenTS, r *core.Rand, cfg core.SchemaCfg, inhabitants, mutants int) []c13Case {
	var out []c13Case
	for _, t := range g.Types {
		ty := t.Tokens()
		nInh, nMut := inhabitants, mutants
		switch t.K {
		case "bool", "int", "float", "str", "bytes", "link":
			nInh, nMut = 1, 2 // scalars: one value, a retype and a null
		}
		for k := 0; k < nInh; k++ {
			tv := core.GenInhabitant(t, r, cfg, false)
			for _, lvl := range []string{"type", "repr"} {
				var input core.Val
				if lvl == "type" {
					input = core.TypeInput(tv)
				} else {
					rv, ok := core.ReprOf(t, tv)
					if !ok {
						continue
					}
					input = rv
				}
				if k == 0 || !r.Chance(2, 3) {
					out = append(out, c13Case{g: g, t: t, ty: ty, lvl: lvl, input: input, mut: "none", expect: tv.Term()})
				}
				for m := 0; m < nMut; m++ {
					var mu core.Mutant
					var ok bool
					if r.Chance(1, 6) {
						mu, ok = core.MutateTwice(t, lvl, input, r, cfg)
					} else {
						mu, ok = core.MutateInput(t, lvl, input, r, cfg)
					}
					if !ok {
						continue
					}
					out = append(out, c13Case{g: g, t: t, ty: ty, lvl: lvl, input: mu.V, mut: mu.Kind})
				}
			}
		}
	}
	return out
}

// c13Compile emits and compiles the type systems; packages that do not compile are reported and dropped.
func c13Compile(c *core.Ctx, tss []*core.GenTS, report func(string, core.Replay), stats bool) ([]*core.GenTS, error) {
	for attempt := 0; attempt < 3; attempt++ {
		emitFailed, err := core.GenEmit(tss)
		if err != nil {
			return nil, err
		}
		if len(emitFailed) > 0 {
			// the generator itself failed on a type system inside its feature set
			smallest := emitFailed[0]
			bad := map[int]bool{}
			for _, f := range emitFailed {
				bad[f.TS.Index] = true
				if len(f.TS.Types) < len(smallest.TS.Types) {
					smallest = f
				}
			}
			report("C13/generator-fails", core.Replay{Kind: "oracle", Case: "c13 " + smallest.TS.Tokens() + " COMPILE", Impl: "gengo.Generate fails",
				Expected: "code is generated", Detail: fmt.Sprintf("%d of %d type systems; the smallest: %s", len(emitFailed), len(tss), smallest.Err)})
			var rest []*core.GenTS
			for _, g := range tss {
				if !bad[g.Index] {
					rest = append(rest, g)
				}
			}
			tss = rest
			if len(tss) == 0 {
				return nil, nil
			}
		}
		ok, out, wall, err := core.GenCompile()
		if err != nil {
			return nil, fmt.Errorf("%w: %s", err, out)
		}
		if stats {
			c.Extra["compile_wall_s"] = addFloat(c.Extra["compile_wall_s"], wall.Seconds())
			c.Extra["compilations"] = addFloat(c.Extra["compilations"], 1)
		}
		if ok {
			return tss, nil
		}
		failing := core.GenCompileFailing(tss)
		if len(failing) == 0 {
			// every package compiles on its own: the problem is in the harness's own main
			return nil, fmt.Errorf("the generated child does not compile although every package does: %s", out)
		}
		smallest := failing[0]
		for _, f := range failing {
			if len(f.TS.Types) < len(smallest.TS.Types) {
				smallest = f
			}
		}
		report(c13SigCompile, core.Replay{Kind: "oracle", Case: "c13 " + smallest.TS.Tokens() + " COMPILE", Impl: "go build fails",
			Expected: "the generated package compiles", Detail: fmt.Sprintf("%d of %d generated packages do not compile; first errors of the smallest: %s", len(failing), len(tss), smallest.Errors)})
		bad := map[int]bool{}
		for _, f := range failing {
			bad[f.TS.Index] = true
		}
		var rest []*core.GenTS
		for _, g := range tss {
			if !bad[g.Index] {
				rest = append(rest, g)
			}
		}
		tss = rest
		if len(tss) == 0 {
			return nil, nil
		}
	}
	return nil, fmt.Errorf("generated packages still do not compile together after dropping the failing ones")
}

func addFloat(old any, x float64) float64 {
	if f, ok := old.(float64); ok {
		return f + x
	}
	return x
}

// c13Directed: type systems added to the first batch of every run (token form, union layout first).  The schema
// generator gives delimiter-less stringprefix unions two-character discriminants only; these have discriminants of one
// UTF-8 sequence (one and two bytes) - the only ones generated code can ever match there - next to longer ones (the
// sets stay prefix-free: the strategy's own hypothesis).
var c13Directed = []string{
	"embedAll union prefix: m:5431:61:str str m:5432:c3a9:str str )",
	"interface union prefix: m:5431:6162:str str m:5432:62:str str m:5433:63:str struct join:2c f:78:78 str f:79:79 str ) )",
	"embedAll list? union prefix: m:5432:7a:str str m:5433:79:str str )",
	// containers of structs whose optional / nullable fields are themselves structs or unions (held by pointer in the
	// generated code): several elements with the field present, over every route
	"embedAll list struct map fo:61:61 struct map f:78:78 int f:79:79 str ) fn:62:62 struct map f:7a:7a int ) f:63:63 int )",
	"interface map struct map fon:61:61 struct map f:78:78 int ) fo:62:62 union keyed m:5431:69:int int m:5432:73:str str ) )",
	"embedAll list struct map fo:61:72 union kinded m:5431:5431:int int m:5432:5432:str str ) fo:62:62 struct tuple f:78:78 int f:79:79 int ) )",
	"interface list? struct tuple f:61:61 int fn:62:62 struct map f:78:78 str ) )",
}

func runC13(c *core.Ctx) error {
	c.Rule = "case = (random type system within the code generator's feature set: bool int float string bytes link, typed list/map (values nullable or not), struct map(renames, optional, nullable, both)|tuple|stringjoin, union keyed|kinded|stringprefix, union memory layout embedAll|interface; generated by gengo.Generate of the working tree and compiled on this run) x (every named type of it, root or nested) x (level: type | representation) x (a generated inhabitant's input, or a local mutation of it: distribution `mutation:*`) x (route: direct | keys | node | cbor | json | direct-rand); non-trivial = mutated, or an input of >= 3 nodes; distinct by (type system, type, level, route, input)"
	c.Explanation = "model: lean/IpldModel/Model/Schema.lean (buildSealed with Engine.gen / Engine.bindnode under the driving modes viaKeys / viaNode, toRepr), Model/Cbor.lean and Model/JsonTok.lean for the bytes; Props/C13.lean: build_with_flags_cleared / build_depends_only_on, gen_with_flags_cleared_accepts_iff_conforms, gen_accepts_what_ideal_accepts, gen_flags (one deviation left) and a kernel-evaluated witness per flag; oracle: string equality of the two engines' observations, self-consistency of every node, call-by-call histories"
	c.Assumptions = []string{
		"the Go compiler and linker are trusted (the generated packages are compiled by the installed toolchain)",
		"the generator is run in this process, linked from the library working tree (/repo/schema/gen/go); nothing checked in is used: go/gen13/ is deleted and regenerated on every run",
		"outside gengo's feature set and therefore excluded (core.GenSupported, with the generator lines that impose each): any, enum (generate.go:45-86 has no generator), listpairs structs (generate.go:58-68), stringjoin fields / stringprefix members that are not string, stringjoin struct or stringprefix union (only those emit fromString: genStructReprStringjoin.go:160, genUnionReprStringprefix.go:164), optional or nullable stringjoin fields (genStructReprStringjoin.go:73), kinded-union members without a single representation kind (genUnionReprKinded.go:467-540), map keys other than the plain String type, field names that are not Go identifiers (adjunctCfg.go:61-73), recursive types (the schema generator draws trees)",
		"ints within int64 (plus, as a mutation judged by the oracle alone, an unsigned value above MaxInt64 in an Int slot: both engines refuse), finite non-integral floats, UTF-8 strings, no map key \"/\" (as C08/C09)",
		"observational equivalence is taken over the Node / NodeAssembler / NodePrototype interfaces and the two codecs; error TEXTS and native Go accessors of generated types are not compared",
		"route direct-rand (random mixture of assembler calls) is compared only on inputs for which the model gives one answer under the three pure plans; the others (distribution `direct-rand:plan-sensitive-…`) are decided by the routes direct, keys and node",
		"route node is not used for inputs with a repeated map key (no node can hold them); the dag-cbor route refuses them in the decoder (C03), there only the agreement of the engines is checked",
	}
	unlock, err := core.GenLock()
	if err != nil {
		return err
	}
	defer unlock()
	defer core.GenCleanup()
	cfg := core.GenSchemaCfg
	cfg.IntAboveInt64 = true
	failCounted := func(sig string, rp core.Replay) {
		c.Dist("failing:" + sig)
		if os.Getenv("VERIF_C13_DEBUG") != "" {
			fmt.Printf("DEBUG %s\n  case=%s\n  impl=%s\n  model=%s\n  %s\n", sig, rp.Case, rp.Impl, rp.Model, rp.Detail)
		}
		c.Fail(sig, rp)
	}

	// the witnesses of the known findings are compiled together with the first batch
	type witness struct {
		f    core.Finding
		cs   c13Case
		rt   string
		sd   uint64
		cmp  bool
		hist *c13OpsCase // the witness is a call history
	}
	var wits []witness
	nBatches := c.Pick(2, 12) // thorough: per worker (cmd/vcheck runs several, each with its own seed)
	perBatch := c.Pick(90, 100)
	maxNodes := c.Pick(16, 22)
	idx := 0
	for b := 0; b < nBatches; b++ {
		var tss []*core.GenTS
		for len(tss) < perBatch {
			t, notes := core.GenSchemaFor(c.Rand, cfg, maxNodes)
			for _, n := range notes {
				if strings.HasPrefix(n, "redrawn: ") {
					n = "redrawn"
				}
				c.Dist("outside-feature-set:" + n)
			}
			g, err := core.NewGenTS(idx, t, core.GenLayouts[c.Rand.Intn(len(core.GenLayouts))])
			if err != nil {
				return fmt.Errorf("type system inside the feature set cannot be declared: %w (%s)", err, t.Tokens())
			}
			idx++
			tss = append(tss, g)
		}
		if b == 0 {
			// constructions the random generator never draws
			for _, d := range c13Directed {
				g, rest, err := core.ParseGenTS(idx, strings.Fields(d))
				if err != nil || len(rest) != 0 {
					return fmt.Errorf("directed type system %q: %v", d, err)
				}
				idx++
				c.Dist("directed-type-systems")
				tss = append(tss, g)
			}
			for _, f := range c.Findings {
				if f.Status != "known" || !strings.HasPrefix(f.Witness, "c13 ") {
					continue
				}
				if strings.Contains(f.Witness, " ops 0 OPS ") {
					// a call history (the builders as state machines)
					h, err := parseC13OpsLine(f.Witness, idx)
					if err != nil {
						return fmt.Errorf("witness of %s cannot be parsed: %w", f.Signature, err)
					}
					idx++
					wits = append(wits, witness{f: f, cs: c13Case{g: h.g}, hist: h})
					tss = append(tss, h.g)
					continue
				}
				cs, rt, sd, cmp, err := parseC13Line(f.Witness, idx)
				if err != nil {
					return fmt.Errorf("witness of %s cannot be parsed: %w", f.Signature, err)
				}
				idx++
				wits = append(wits, witness{f: f, cs: cs, rt: rt, sd: sd, cmp: cmp})
				tss = append(tss, cs.g)
			}
		}
		compiled, err := c13Compile(c, tss, failCounted, true)
		if err != nil {
			return err
		}
		live := map[int]bool{}
		for _, g := range compiled {
			live[g.Index] = true
		}
		if b == 0 {
			for _, w := range wits {
				fired := map[string]bool{}
				if w.hist != nil {
					if live[w.cs.g.Index] {
						genObs, bindObs, err := w.hist.run()
						if err == nil {
							err = w.hist.judge(genObs, bindObs, func(sig string, _ core.Replay) { fired[sig] = true })
						}
						if err != nil {
							return fmt.Errorf("witness of %s cannot be replayed: %w", w.f.Signature, err)
						}
					}
				} else if w.cmp {
					fired[c13SigCompile] = !live[w.cs.g.Index]
				} else if live[w.cs.g.Index] {
					sd := w.sd
					if err := c13Batch(c, []c13Case{w.cs}, []string{w.rt}, func(int, string) uint64 { return sd }, func(sig string, _ core.Replay) { fired[sig] = true }, false); err != nil {
						return fmt.Errorf("witness of %s cannot be replayed: %w", w.f.Signature, err)
					}
				}
				c.KnownWitness(w.f.Signature, fired[w.f.Signature], w.f.Witness)
			}
		}
		var cases []c13Case
		for _, g := range compiled {
			isWit := false
			for _, w := range wits {
				if w.cs.g == g {
					isWit = true
				}
			}
			if isWit {
				continue
			}
			c.Dist("packages")
			c.Dist("union-layout:" + g.Layout)
			for range g.Types {
				c.Dist("types")
			}
			distStrategies(c, g.Root)
			c.Dist("root:" + subjectKind(g.Root))
			cases = append(cases, c13Cases(g, c.Rand, cfg, c.Pick(3, 4), c.Pick(3, 4))...)
		}
		seeds := map[int]uint64{} // per case: the seed of its random plan
		sr := c.Rand.Fork()
		seedOf := func(i int, route string) uint64 {
			if route != "direct-rand" {
				return 0
			}
			if _, ok := seeds[i]; !ok {
				seeds[i] = sr.U64()
			}
			return seeds[i]
		}
		// the failing cases of the batch are reported smallest first, so that the replay recorded for a signature is a small one
		type failure struct {
			sig string
			rp  core.Replay
		}
		var failures []failure
		if err := c13Batch(c, cases, core.GenRoutes, seedOf, func(sig string, rp core.Replay) { failures = append(failures, failure{sig, rp}) }, true); err != nil {
			return err
		}
		sort.SliceStable(failures, func(i, j int) bool { return len(failures[i].rp.Case) < len(failures[j].rp.Case) })
		for _, f := range failures {
			failCounted(f.sig, f.rp)
		}
		if err := c13Histories(c, compiled, func(g *core.GenTS) bool {
			for _, w := range wits {
				if w.cs.g == g {
					return true
				}
			}
			return false
		}, cfg, failCounted); err != nil {
			return err
		}
		if err := c13Reset(c, compiled, func(g *core.GenTS) bool {
			for _, w := range wits {
				if w.cs.g == g {
					return true
				}
			}
			return false
		}, cfg, failCounted); err != nil {
			return err
		}
		if err := c13Retry(c, compiled, func(g *core.GenTS) bool {
			for _, w := range wits {
				if w.cs.g == g {
					return true
				}
			}
			return false
		}, cfg, failCounted); err != nil {
			return err
		}
	}
	return nil
}

// c13Reset: Reset makes a builder new.  For every container type of every compiled type system, at both levels: a first
// history (complete, cut off anywhere, or ending in a refused call), Reset, then a legal history for another inhabitant:
// on both engines every call of the second history succeeds and the node built is the second inhabitant - nothing of
// the first history shows.  The whole history (`<first> R <second>`, route `ops`) is also run on the typed-assembler machine
// of its level (`TAsm.runC` / `RAsm.runC`: `typed_reset_is_init`, `typed_reset_history_result` and their representation
// twins are theorems about exactly this), once per engine: every answer of the first history too must be the model's.
func c13Reset(c *core.Ctx, compiled []*core.GenTS, skip func(*core.GenTS) bool, cfg core.SchemaCfg, report func(string, core.Replay)) error {
	type rcase struct {
		g             *core.GenTS
		t             *core.SType
		lvl           string
		ops           []core.AsmOp
		payload, want string
		n1, n2        int
		bind          string
	}
	var hs []rcase
	var reqs []core.GenRequest
	binds := &c13Binds{protos: map[string]datamodel.NodePrototype{}}
	r := c.Rand.Fork()
	for _, g := range compiled {
		if skip(g) || g.Ambiguous() {
			continue
		}
		for _, t := range g.Types {
			if t.K != "map" && t.K != "list" && t.K != "struct" && t.K != "union" {
				continue
			}
			for _, lvl := range []string{"type", "repr"} {
				v1 := core.GenInhabitant(t, r, cfg, true)
				v2 := core.GenInhabitant(t, r, cfg, true)
				in1, in2 := core.TypeInput(v1), core.TypeInput(v2)
				if lvl == "repr" {
					r1, ok1 := core.ReprOf(t, v1)
					r2, ok2 := core.ReprOf(t, v2)
					if !ok1 || !ok2 {
						continue
					}
					in1, in2 = r1, r2
				}
				ops1 := core.GenHistory(in1, r, false, true)
				switch r.Intn(3) {
				case 0: // cut off anywhere
					ops1 = ops1[:r.Intn(len(ops1)+1)]
				case 1: // cut off, then a value no position of these schemas holds at that point (a refused call, or not)
					ops1 = append(append([]core.AsmOp{}, ops1[:r.Intn(len(ops1)+1)]...), core.AsmOp{Kind: "A", V: core.Str("\x01?")})
				}
				ops2 := core.GenHistory(in2, r, false, true)
				bp, err := binds.proto(g, t.Name, lvl)
				if err != nil {
					continue
				}
				ops := append(append(append([]core.AsmOp{}, ops1...), core.AsmOp{Kind: "R"}), ops2...)
				h := rcase{g: g, t: t, lvl: lvl, ops: ops, payload: core.OpsLine(ops), want: "built " + v2.Term(), n1: len(ops1), n2: len(ops2)}
				h.bind = core.GenObserve(bp, "ops", h.payload, 0)
				hs = append(hs, h)
				reqs = append(reqs, core.GenRequest{Pkg: g.Index, Type: t.Name, Level: lvl, Route: "ops", Payload: h.payload})
			}
		}
	}
	answers, err := core.RunGen(reqs)
	if err != nil {
		return err
	}
	var lines []string
	var idx []int
	for i, h := range hs {
		caseID := fmt.Sprintf("c13 %s TYPE %s %s ops 0 OPS %s", h.g.Tokens(), h.t.Name, h.lvl, h.payload)
		c.Count(caseID, true)
		c.Dist("reset:" + h.lvl + ":" + h.t.K)
		// (O) the answers from the Reset on: `reset`, every call of the second history accepted, its node built
		wantTail := "reset " + strings.TrimSpace(strings.Repeat("ok ", h.n2)) + " | " + h.want
		for engine, obs := range map[string]string{"gen": answers[i], "bindnode": h.bind} {
			f := strings.SplitN(obs, "\t", 2)
			tail := ""
			if len(f) == 2 && f[0] == "ops" {
				if parts := strings.SplitN(f[1], " | ", 2); len(parts) == 2 {
					if toks := strings.Fields(parts[0]); len(toks) == h.n1+1+h.n2 {
						tail = strings.Join(toks[h.n1:], " ") + " | " + parts[1]
					}
				}
			}
			if tail != wantTail {
				report("C13/reset-"+engine+"-builder-not-as-new", core.Replay{Kind: "oracle", Case: caseID, Impl: obs, Expected: "… " + wantTail,
					Detail: "after Reset a builder answers a legal history as a new builder does and builds exactly its node"})
			}
		}
		if h.lvl == "type" && core.PlainType(h.t) || h.lvl == "repr" && core.PlainReprType(h.t) {
			lines = append(lines, core.TasmLineLvl("bindnode", h.lvl, h.t, h.ops), core.TasmLineLvl("gen", h.lvl, h.t, h.ops))
			idx = append(idx, i)
		}
	}
	// (D) the whole history, first part included, on the machine of the level
	model, err := core.RunDriver(lines)
	if err != nil {
		return err
	}
	for n, i := range idx {
		h := hs[i]
		c.Dist("reset-on-typed-assembler-model:" + h.lvl)
		for e, eng := range []struct{ name, obs string }{{"bindnode", h.bind}, {"gen", answers[i]}} {
			f := strings.SplitN(eng.obs, "\t", 2)
			if f[0] != "ops" || len(f) != 2 {
				continue // a panic outside the calls: reported above
			}
			if d := core.TasmCompare(f[1], model[2*n+e], eng.name == "bindnode" && h.lvl == "type"); d != "" {
				report("C13/corr-typed-assembler", core.Replay{Kind: "correspondence", Case: lines[2*n+e], Impl: eng.obs, Model: model[2*n+e],
					Detail: d + "; engine " + eng.name + "; history " + fmt.Sprintf("c13 %s TYPE %s %s ops 0 OPS %s", h.g.Tokens(), h.t.Name, h.lvl, h.payload)})
			}
		}
	}
	return nil
}

// c13Retry: a refused value leaves a REPRESENTATION builder as it was.  For every type of every compiled type system, the
// representation builder is first offered a scalar it may have to refuse (a string no strategy can parse, an int, a
// bool, null) and then, on the same builder, a legal history for the representation of an inhabitant.  Both engines
// must answer the first call alike; where it is refused, every following call must succeed and the node built must be
// the inhabitant (a refused call has no effect: C12 for generated and bound builders).
func c13Retry(c *core.Ctx, compiled []*core.GenTS, skip func(*core.GenTS) bool, cfg core.SchemaCfg, report func(string, core.Replay)) error {
	type rcase struct {
		g       *core.GenTS
		t       *core.SType
		ops     []core.AsmOp
		want    string
		payload string
		bind    string
	}
	var hs []rcase
	var reqs []core.GenRequest
	binds := &c13Binds{protos: map[string]datamodel.NodePrototype{}}
	r := c.Rand.Fork()
	bads := []core.Val{core.Str("\x01?"), core.Str(""), core.Int(7), core.Bool(true), {K: 'n'}, core.Str("zz\x01zz")}
	for _, g := range compiled {
		if skip(g) {
			continue
		}
		for _, t := range g.Types {
			v := core.GenInhabitant(t, r, cfg, true)
			rv, ok := core.ReprOf(t, v)
			if !ok {
				continue
			}
			bp, err := binds.proto(g, t.Name, "repr")
			if err != nil {
				continue
			}
			for k := 0; k < 2; k++ {
				bad := bads[r.Intn(len(bads))]
				if k == 0 {
					bad = bads[0]
				}
				ops := append([]core.AsmOp{{Kind: "A", V: bad}}, core.GenHistory(rv, r, false, true)...)
				h := rcase{g: g, t: t, ops: ops, want: "built " + v.Term(), payload: core.OpsLine(ops)}
				h.bind = core.GenObserve(bp, "ops", h.payload, 0)
				hs = append(hs, h)
				reqs = append(reqs, core.GenRequest{Pkg: g.Index, Type: t.Name, Level: "repr", Route: "ops", Payload: h.payload})
			}
		}
	}
	answers, err := core.RunGen(reqs)
	if err != nil {
		return err
	}
	// (D) the representation-level machine (Model/ReprAssembler.lean; `repr_retry` is the theorem this section samples): every
	// history, whatever the first call was answered, once per engine - accepted / refused per call and the node built
	{
		var lines []string
		var idx []int
		for i, h := range hs {
			if core.PlainReprType(h.t) {
				lines = append(lines, core.TasmLineLvl("bindnode", "repr", h.t, h.ops), core.TasmLineLvl("gen", "repr", h.t, h.ops))
				idx = append(idx, i)
			}
		}
		model, err := core.RunDriver(lines)
		if err != nil {
			return err
		}
		for n, i := range idx {
			h := hs[i]
			c.Dist("retry-on-repr-assembler-model")
			for e, eng := range []struct{ name, obs string }{{"bindnode", h.bind}, {"gen", answers[i]}} {
				f := strings.SplitN(eng.obs, "\t", 2)
				if f[0] != "ops" || len(f) != 2 {
					continue // a panic outside the calls: reported below
				}
				if d := core.TasmCompare(f[1], model[2*n+e], false); d != "" {
					report("C13/corr-typed-assembler", core.Replay{Kind: "correspondence", Case: lines[2*n+e], Impl: eng.obs, Model: model[2*n+e],
						Detail: d + "; engine " + eng.name + "; history " + fmt.Sprintf("c13 %s TYPE %s repr ops 0 OPS %s", h.g.Tokens(), h.t.Name, h.payload)})
				}
			}
		}
	}
	split := func(obs string) (calls []string, final string, ok bool) {
		f := strings.SplitN(obs, "\t", 2)
		if f[0] != "ops" || len(f) != 2 {
			return nil, "", false
		}
		parts := strings.SplitN(f[1], " | ", 2)
		if len(parts) != 2 {
			return nil, "", false
		}
		return strings.Fields(parts[0]), parts[1], true
	}
	for i, h := range hs {
		caseID := fmt.Sprintf("c13 %s TYPE %s repr ops 0 OPS %s", h.g.Tokens(), h.t.Name, h.payload)
		gc, gf, ok1 := split(answers[i])
		bc, bf, ok2 := split(h.bind)
		if !ok1 || !ok2 || len(gc) == 0 || len(bc) == 0 {
			report("C13/retry-panics", core.Replay{Kind: "oracle", Case: caseID, Impl: "gen=" + answers[i] + "  bindnode=" + h.bind, Expected: "the first call answered (accepted or refused) by both engines"})
			continue
		}
		refused := func(o string) bool { return strings.HasPrefix(o, "e:") }
		c.Count(caseID, refused(bc[0]))
		if refused(gc[0]) != refused(bc[0]) || (!refused(gc[0]) && gc[0] != "ok") || (!refused(bc[0]) && bc[0] != "ok") {
			report("C13/retry-engines-disagree-on-first-call", core.Replay{Kind: "oracle", Case: caseID, Impl: "gen=" + answers[i] + "  bindnode=" + h.bind, Expected: "both engines accept or both refuse " + h.ops[0].Tokens()})
			continue
		}
		if !refused(bc[0]) {
			c.Dist("retry:first-call-accepted")
			continue // the scalar was a value of the type: nothing to retry
		}
		c.Dist("retry:" + h.t.K + ":" + string(h.ops[0].V.K))
		for engine, cf := range map[string]struct {
			calls []string
			final string
			obs   string
		}{"gen": {gc, gf, answers[i]}, "bindnode": {bc, bf, h.bind}} {
			bad := ""
			if h.g.Ambiguous() {
				// the representation of an inhabitant need not be readable here: the engines are only compared with each other
				cls := func(cs []string) string {
					out := make([]string, len(cs))
					for k, o := range cs {
						if out[k] = o; refused(o) {
							out[k] = "refused"
						}
					}
					return strings.Join(out, " ")
				}
				if cls(gc) != cls(bc) || gf != bf {
					bad = "the answers of the other engine"
				}
				if bad != "" && engine == "gen" {
					report("C13/retry-engines-disagree", core.Replay{Kind: "oracle", Case: caseID, Impl: "gen=" + answers[i] + "  bindnode=" + h.bind, Expected: bad})
				}
				continue
			}
			for j := 1; j < len(h.ops); j++ {
				if j >= len(cf.calls) || cf.calls[j] != "ok" {
					bad = fmt.Sprintf("call %d (%s) → ok", j, h.ops[j].Tokens())
					break
				}
			}
			if bad == "" && cf.final != h.want {
				bad = h.want
			}
			if bad != "" {
				report("C13/retry-"+engine+"-refused-value-had-an-effect", core.Replay{Kind: "oracle", Case: caseID, Impl: cf.obs, Expected: bad,
					Detail: "after a refused value the builder is as before: the legal history that follows is accepted call by call and builds the inhabitant"})
			}
		}
	}
	return nil
}

// c13Histories: the builders as state machines.  For every map / list / struct type of every compiled type system, a
// legal call history building an inhabitant at type level, with the two rejections the builder contract pins down
// (a repeated key, a kind the position cannot hold) injected at random positions and the history CONTINUED after each
// rejection, is run call by call on the generated builder (child) and on the reflection binding: both must answer every
// call alike (accepted / refused), agree with the contract (a legal call succeeds, an injected one is refused, nothing
// panics) and build the same node - the one of the accepted calls only.
func c13Histories(c *core.Ctx, compiled []*core.GenTS, skip func(*core.GenTS) bool, cfg core.SchemaCfg, report func(string, core.Replay)) error {
	type hcase struct {
		g        *core.GenTS
		t        *core.SType
		ops      []core.AsmOp
		want     string
		payload  string
		bind     string
		plain    bool
		corrOnly bool   // no prescribed outcome: the history is run against the model only
		lvl      string // the builder's level
		what     string // corrOnly: what the odd call is
	}
	var hs []hcase
	var reqs []core.GenRequest
	binds := &c13Binds{protos: map[string]datamodel.NodePrototype{}}
	r := c.Rand.Fork()
	for _, g := range compiled {
		if skip(g) {
			continue
		}
		for _, t := range g.Types {
			container := t.K == "map" || t.K == "list" || t.K == "struct"
			if !container && t.K != "union" {
				continue
			}
			for k := 0; k < 7; k++ {
				if k < 3 && !container {
					continue // the value-directed histories: maps, lists, structs; the type-directed ones also unions
				}
				v := core.GenInhabitant(t, r, cfg, true)
				if k >= 3 {
					// type-directed histories (core.GenTypedHistory): the schema says which calls are refused - kinds the position cannot
					// hold (also where it holds several), Finish while a field is missing, refused nodes, repeated representation keys -,
					// at type level (k=3) and at representation level (k=4,5), with a first history and a Reset in front of some; k=6:
					// a call the engines answer differently (pinned by the model of each engine only), the history ends there
					lvl := "type"
					if k == 4 || k == 5 || k == 6 && r.Bool() {
						lvl = "repr"
					}
					if lvl == "repr" && g.Ambiguous() {
						continue
					}
					h := hcase{g: g, t: t, lvl: lvl, plain: lvl == "type" && core.PlainType(t) || lvl == "repr" && core.PlainReprType(t)}
					if k == 6 {
						ops, what, ok := core.GenTypedHistoryOdd(t, lvl, v, r, cfg)
						if !ok || what == "" || !h.plain {
							continue
						}
						h.ops, h.corrOnly, h.what = ops, true, what
					} else {
						ops, ok := core.GenTypedHistory(t, lvl, v, r, cfg, core.TypedHistoryOpts{Inject: k != 5, Reset: r.Chance(1, 3)})
						if !ok {
							continue
						}
						h.ops, h.want = ops, "built "+v.Term()
					}
					h.payload = core.OpsLine(h.ops)
					bp, err := binds.proto(g, t.Name, lvl)
					if err != nil {
						continue
					}
					h.bind = core.GenObserve(bp, "ops", h.payload, 0)
					hs = append(hs, h)
					reqs = append(reqs, core.GenRequest{Pkg: g.Index, Type: t.Name, Level: lvl, Route: "ops", Payload: h.payload})
					continue
				}
				if k == 2 {
					// a struct key that is no field (plain structs only): what happens is pinned by the typed-assembler model alone - the
					// reflection binding accepts the name and refuses every value for it, generated code refuses the name - so the history is
					// run for the correspondence only
					if t.K != "struct" || !core.PlainType(t) {
						continue
					}
					ops := unknownFieldTail(core.GenHistory(core.TypeInput(v), r, false, true), r)
					if ops == nil {
						continue
					}
					h := hcase{g: g, t: t, lvl: "type", ops: ops, payload: core.OpsLine(ops), plain: true, corrOnly: true, what: "struct-unknown-field-name"}
					bp, err := binds.proto(g, t.Name, "type")
					if err != nil {
						continue
					}
					h.bind = core.GenObserve(bp, "ops", h.payload, 0)
					hs = append(hs, h)
					reqs = append(reqs, core.GenRequest{Pkg: g.Index, Type: t.Name, Level: "type", Route: "ops", Payload: h.payload})
					continue
				}
				// where every position holds exactly one kind (the plain fragment) the refused calls also come at VALUE
				// positions: kinds the position cannot hold, and AssignNode of a container refused part of the way through
				plain := core.PlainType(t)
				ops := core.GenHistoryOpts(core.TypeInput(v), r, core.HistoryOpts{Inject: k == 0, WrongKindValues: k == 0 && plain, RefusedAssignNode: k == 0 && plain})
				h := hcase{g: g, t: t, lvl: "type", ops: ops, want: "built " + v.Term(), payload: core.OpsLine(ops), plain: plain}
				bp, err := binds.proto(g, t.Name, "type")
				if err != nil {
					continue
				}
				h.bind = core.GenObserve(bp, "ops", h.payload, 0)
				hs = append(hs, h)
				reqs = append(reqs, core.GenRequest{Pkg: g.Index, Type: t.Name, Level: "type", Route: "ops", Payload: h.payload})
			}
		}
	}
	answers, err := core.RunGen(reqs)
	if err != nil {
		return err
	}
	class := func(o string) string {
		switch {
		case o == "ok":
			return "ok"
		case strings.HasPrefix(o, "e:"):
			return "refused"
		}
		return o
	}
	for i, h := range hs {
		caseID := fmt.Sprintf("c13 %s TYPE %s %s ops 0 OPS %s", h.g.Tokens(), h.t.Name, h.lvl, h.payload)
		if h.corrOnly {
			c.Count(caseID, true)
			c.Dist("histories:" + h.lvl + ":" + h.what)
			continue
		}
		injected := 0
		for _, op := range h.ops {
			if op.Expect != "ok" {
				injected++
			}
			if op.Kind == "R" {
				c.Dist("histories:" + h.lvl + ":with-reset")
			}
		}
		c.Count(caseID, injected > 0)
		c.Dist("histories:" + h.lvl + ":" + h.t.K)
		check := func(engine, obs string) (calls []string, final string, ok bool) {
			f := strings.SplitN(obs, "\t", 2)
			if f[0] != "ops" || len(f) != 2 {
				report("C13/history-"+engine+"-panics", core.Replay{Kind: "oracle", Case: caseID, Impl: obs, Expected: h.want})
				return nil, "", false
			}
			parts := strings.SplitN(f[1], " | ", 2)
			if len(parts) != 2 {
				return nil, "", false
			}
			calls, final = strings.Fields(parts[0]), parts[1]
			for j, op := range h.ops {
				if j >= len(calls) {
					break
				}
				if op.Note == "before-reset" {
					continue // the first history of a reset case: whatever it does, the Reset makes the builder new
				}
				got := class(calls[j])
				want := "ok"
				if op.Expect == "reset" {
					want = "reset"
				} else if op.Expect != "ok" {
					want = "refused"
				}
				if got != want {
					if engine == "gen" && op.Expect == "e:repeatedKey" && (op.Kind == "A" || op.Kind == "AN") && got == "ok" {
						// the recorded finding, exactly: a repeated key handed to the KEY ASSEMBLER of a generated typed map is not refused
						report("C13/gen-keyAsmDupMapKey", core.Replay{Kind: "oracle", Case: caseID, Impl: obs, Expected: fmt.Sprintf("call %d (%s) → refused", j, op.Tokens())})
						return calls, final, true // what follows in this history is the consequence
					}
					if engine == "gen" && j > 0 && h.ops[j-1].Expect == "e:refusedNode" && class(calls[j-1]) == "refused" &&
						(op.Kind == "BM" || op.Kind == "BL" || op.Kind == "A" || op.Kind == "AN") && (got == "panic" || got == "refused") {
						// the recorded finding, exactly: a generated assembler that refused AssignNode of a map/list node part of the way
						// through stays "begun"; the next Begin*/Assign* on that same assembler panics (or is refused)
						report("C13/gen-refused-assignnode-wedges-builder", core.Replay{Kind: "oracle", Case: caseID, Impl: obs, Expected: fmt.Sprintf("call %d (%s) → ok", j, op.Tokens()),
							Detail: "after a refused AssignNode the builder is as before: the legal history that follows is accepted call by call"})
						return calls, final, true // what follows in this history is the consequence
					}
					report("C13/history-"+engine+"-call-outcome", core.Replay{Kind: "oracle", Case: caseID, Impl: obs, Expected: fmt.Sprintf("call %d (%s) → %s", j, op.Tokens(), want),
						Detail: "the builder contract: a legal call succeeds, a repeated key or an unacceptable kind is refused by that call, and the builder stays usable"})
					return calls, final, false
				}
			}
			if final != h.want {
				report("C13/history-"+engine+"-result-not-accepted-entries", core.Replay{Kind: "oracle", Case: caseID, Impl: obs, Expected: h.want})
				return calls, final, false
			}
			return calls, final, true
		}
		_, _, ok1 := check("gen", answers[i])
		_, _, ok2 := check("bindnode", h.bind)
		if ok1 != ok2 {
			report("C13/engines-disagree-on-call-history", core.Replay{Kind: "oracle", Case: caseID, Impl: "gen=" + answers[i] + "  bindnode=" + h.bind, Expected: h.want})
		}
	}
	// (D) the typed-assembler machine (Model/TypedAssembler.lean; theorems Props/C12typed.lean): for the types of the plain
	// fragment every history is also run on the model, once per engine - the reflection binding call by call with its error
	// classes, generated code (Engine.gen: its named deviations set) for accepted / refused / repeated key and the node built
	var lines []string
	var idx []int
	for i, h := range hs {
		if h.plain {
			lines = append(lines, core.TasmLineLvl("bindnode", h.lvl, h.t, h.ops), core.TasmLineLvl("gen", h.lvl, h.t, h.ops))
			idx = append(idx, i)
		}
	}
	model, err := core.RunDriver(lines)
	if err != nil {
		return err
	}
	for n, i := range idx {
		h := hs[i]
		c.Dist("histories-on-typed-assembler-model:" + h.lvl)
		for e, eng := range []struct{ name, obs string }{{"bindnode", h.bind}, {"gen", answers[i]}} {
			f := strings.SplitN(eng.obs, "\t", 2)
			if f[0] != "ops" || len(f) != 2 {
				continue // a panic outside the calls: reported above
			}
			if d := core.TasmCompare(f[1], model[2*n+e], eng.name == "bindnode" && h.lvl == "type"); d != "" {
				report("C13/corr-typed-assembler", core.Replay{Kind: "correspondence", Case: lines[2*n+e], Impl: eng.obs, Model: model[2*n+e],
					Detail: d + "; engine " + eng.name + "; history " + fmt.Sprintf("c13 %s TYPE %s %s ops 0 OPS %s", h.g.Tokens(), h.t.Name, h.lvl, h.payload)})
			}
		}
	}
	return nil
}

// A call history as a case line: `c13 <type system> TYPE <name> <level> ops 0 OPS <calls>` (c13Histories, c13Retry).
type c13OpsCase struct {
	line    string
	g       *core.GenTS
	t       *core.SType
	lvl     string
	ops     []core.AsmOp
	payload string
}

func parseC13OpsLine(line string, idx int) (*c13OpsCase, error) {
	f := strings.Fields(line)
	if len(f) < 3 || f[0] != "c13" {
		return nil, fmt.Errorf("bad C13 case line")
	}
	g, rest, err := core.ParseGenTS(idx, f[1:])
	if err != nil {
		return nil, err
	}
	if len(rest) < 7 || rest[0] != "TYPE" || rest[3] != "ops" || rest[5] != "OPS" {
		return nil, fmt.Errorf("bad C13 history line: want TYPE <name> <level> ops 0 OPS <calls>")
	}
	t := g.TypeByName(rest[1])
	if t == nil {
		return nil, fmt.Errorf("no type %s in the type system", rest[1])
	}
	ops, err := core.ParseOps(rest[6:])
	if err != nil {
		return nil, err
	}
	return &c13OpsCase{line: line, g: g, t: t, lvl: rest[2], ops: ops, payload: strings.Join(rest[6:], " ")}, nil
}

// run executes the history on both engines (the type system must be compiled).
func (h *c13OpsCase) run() (genObs, bindObs string, err error) {
	ans, err := core.RunGen([]core.GenRequest{{Pkg: h.g.Index, Type: h.t.Name, Level: h.lvl, Route: "ops", Payload: h.payload}})
	if err != nil {
		return "", "", err
	}
	binds := &c13Binds{protos: map[string]datamodel.NodePrototype{}}
	bp, err := binds.proto(h.g, h.t.Name, h.lvl)
	if err != nil {
		return "", "", err
	}
	return ans[0], core.GenObserve(bp, "ops", h.payload, 0), nil
}

// judge: the executed history - at type level, for a type of the plain fragment - against the typed-assembler model: each
// engine against the model of that engine (correspondence) and against the contract's machine (`ideal`: which calls are
// accepted, which refused, the node built), a deviation of generated code classified by the model's named flag; outside the
// model the engines against each other.
func (h *c13OpsCase) judge(genObs, bindObs string, report func(string, core.Replay)) error {
	cut := func(obs string) (string, bool) {
		p := strings.SplitN(obs, "\t", 2)
		return p[len(p)-1], len(p) == 2 && p[0] == "ops"
	}
	go_, ok1 := cut(genObs)
	bo, ok2 := cut(bindObs)
	if !ok1 || !ok2 {
		report("C13/history-panics", core.Replay{Kind: "oracle", Case: h.line, Impl: "gen=" + genObs + "  bindnode=" + bindObs})
		return nil
	}
	if !(h.lvl == "type" && core.PlainType(h.t) || h.lvl == "repr" && core.PlainReprType(h.t)) {
		if d := core.TasmCompare(go_, bo, false); d != "" {
			report("C13/engines-disagree-on-call-history", core.Replay{Kind: "oracle", Case: h.line, Impl: "gen=" + genObs + "  bindnode=" + bindObs, Detail: d})
		}
		return nil
	}
	model, err := core.RunDriver([]string{core.TasmLineLvl("ideal", h.lvl, h.t, h.ops), core.TasmLineLvl("bindnode", h.lvl, h.t, h.ops), core.TasmLineLvl("gen", h.lvl, h.t, h.ops)})
	if err != nil {
		return err
	}
	// where the models of the two engines part for a reason that is no finding (a key that cannot get a value: refused at the
	// key or at the value; BeginMap on a representation that is no map) the contract's machine is no oracle any more
	part := core.TasmEnginesPart(model[1], model[2], model[0])
	for _, e := range []struct {
		name, obs, model string
		exact            bool
	}{{"bindnode", bo, model[1], h.lvl == "type"}, {"gen", go_, model[2], false}} {
		if d := core.TasmCompare(e.obs, e.model, e.exact); d != "" {
			report("C13/corr-typed-assembler", core.Replay{Kind: "correspondence", Case: core.TasmLineLvl(e.name, h.lvl, h.t, h.ops), Impl: e.obs, Model: e.model, Detail: d + "; engine " + e.name + "; history " + h.line})
		}
		obs, ideal := e.obs, model[0]
		if part >= 0 {
			obs, ideal = core.TasmUpTo(obs, part), core.TasmUpTo(ideal, part)
		}
		if d := core.TasmCompare(obs, ideal, false); d != "" {
			sig := "C13/history-" + e.name + "-call-outcome"
			if e.name == "gen" && strings.Contains(e.model, "unclaimed") {
				sig = "C13/gen-refused-assignnode-wedges-builder"
			} else if e.name == "gen" && core.TasmCompare(e.obs, e.model, false) == "" && core.TasmEngineFlag(e.model, model[0]) {
				sig = "C13/gen-keyAsmDupMapKey"
			}
			report(sig, core.Replay{Kind: "oracle", Case: h.line, Impl: e.obs, Expected: model[0], Detail: d + " (expected: the contract's machine, `tasm.run ideal`)"})
		}
	}
	return nil
}

// replayC13Ops re-executes one call history (also a `tasm.run` correspondence case, whose detail names the history): the type
// system is generated and compiled afresh, the history runs on both engines and is judged as above.
func replayC13Ops(c *core.Ctx, line string) error {
	h, err := parseC13OpsLine(line, 0)
	if err != nil {
		return err
	}
	unlock, err := core.GenLock()
	if err != nil {
		return err
	}
	defer unlock()
	defer core.GenCleanup()
	compiled, err := c13Compile(c, []*core.GenTS{h.g}, c.Fail, false)
	if err != nil || len(compiled) == 0 {
		return err
	}
	genObs, bindObs, err := h.run()
	if err != nil {
		return err
	}
	c.Count(line, true)
	c.Sample(map[string]string{"case": line, "gen": genObs, "bindnode": bindObs})
	return h.judge(genObs, bindObs, c.Fail)
}

func replayC13(c *core.Ctx, rp core.Replay) error {
	if strings.HasPrefix(rp.Case, "tasm.run ") {
		if i := strings.Index(rp.Detail, "history c13 "); i >= 0 {
			return replayC13Ops(c, rp.Detail[i+8:])
		}
		return fmt.Errorf("a tasm.run case needs the history line in its detail")
	}
	if strings.Contains(rp.Case, " ops 0 OPS ") {
		return replayC13Ops(c, rp.Case)
	}
	cs, route, seed, compileOnly, err := parseC13Line(rp.Case, 0)
	if err != nil {
		return err
	}
	unlock, err := core.GenLock()
	if err != nil {
		return err
	}
	defer unlock()
	defer core.GenCleanup()
	compiled, err := c13Compile(c, []*core.GenTS{cs.g}, c.Fail, false)
	if err != nil {
		return err
	}
	if compileOnly || len(compiled) == 0 {
		return nil
	}
	if i := strings.Index(rp.Detail, "mutation="); i >= 0 {
		cs.mut = strings.Fields(rp.Detail[i+9:])[0]
	}
	if cs.mut == "none" {
		cs.mut = "replay" // the canonical value is not part of the case line; the engines are compared with each other and the model
	}
	return c13Batch(c, []c13Case{cs}, []string{route}, func(int, string) uint64 { return seed }, c.Fail, false)
}

func firstWord(s string) string {
	if i := strings.IndexByte(s, ' '); i >= 0 {
		return s[:i]
	}
	return s
}

func valHasBigUint(v core.Val) bool {
	switch v.K {
	case 'i':
		return !v.Neg && v.Mag > math.MaxInt64
	case '[':
		for _, x := range v.L {
			if valHasBigUint(x) {
				return true
			}
		}
	case '{':
		for _, e := range v.M {
			if valHasBigUint(e.V) {
				return true
			}
		}
	}
	return false
}
