/-
  Token-level model of the DAG-JSON codec (`codec/dagjson/marshal.go`, `unmarshal.go`) and of refmt's
  JSON encoder state machine.  DESIGN §5 C04.  Core Lean only.

  Two decoders are given:
    * `unTok`   — the meaning: recursive descent with the two reserved forms recognised by pattern
                  matching on the token list;
    * `Win.un`  — the mechanism: the code's fixed 7-slot token window (`tk[0..6]`, `shift`, `step`,
                  `ensure`, `linkLookahead`, `bytesLookahead`), including the list loop that reads the
                  source directly and the `shift = 0` that drops the window after a recognised form.
  `lookahead_total` (Props/C04) states that they agree on every token stream.
-/
import IpldModel.Model.JsonText
import IpldModel.Model.Cbor
namespace Ipld
namespace Json

inductive JTok where
  | mapOpen | mapClose | arrOpen | arrClose
  | null | bool (b : Bool) | int (i : Int) | float (bits : UInt64) | str (s : Bytes)
  deriving DecidableEq, Repr, Inhabited

structure EncCfg where
  encodeLinks : Bool := true
  encodeBytes : Bool := true
  sort : Cbor.SortMode := .lexical
  deriving Repr

def dagjsonEnc : EncCfg := {}
def plainJsonEnc : EncCfg := { encodeLinks := false, encodeBytes := false, sort := .none }

def slash : Bytes := [0x2f]
def bytesWord : Bytes := [0x62, 0x79, 0x74, 0x65, 0x73]

def inInt64 (i : Int) : Bool := decide (-9223372036854775808 ≤ i ∧ i ≤ 9223372036854775807)

def finiteBits (b : UInt64) : Bool := !(b.toNat / 2 ^ 52 % 2048 = 2047)

def flattenTokPairs (es : List (Bytes × List JTok)) : List JTok :=
  es.flatMap fun e => .str e.1 :: e.2

mutual
/-- `dagjson.Marshal`: the token stream handed to the JSON encoder (`none` = an error is returned). -/
def marshalTok (cfg : EncCfg) : DM → Option (List JTok)
  | .null => some [.null]
  | .bool b => some [.bool b]
  | .int i => if inInt64 i then some [.int i] else none          -- AsInt of a uint above int64 fails
  | .float f => if finiteBits f then some [.float f] else none    -- the encoder refuses NaN/±Inf
  | .str s => some [.str s]
  | .bytes b => if cfg.encodeBytes then
      some [.mapOpen, .str slash, .mapOpen, .str bytesWord, .str (base64Raw b), .mapClose, .mapClose] else none
  | .link c => if cfg.encodeLinks && cidValid c then
      some [.mapOpen, .str slash, .str (cidText c), .mapClose] else none
  | .list xs => (marshalList cfg xs).map fun ts => .arrOpen :: (ts ++ [.arrClose])
  | .map es => (marshalKVs cfg es).map fun ps => .mapOpen :: (flattenTokPairs (Cbor.sortPairs cfg.sort ps) ++ [.mapClose])
def marshalList (cfg : EncCfg) : DMs → Option (List JTok)
  | .nil => some []
  | .cons x xs => do
    let a ← marshalTok cfg x
    let b ← marshalList cfg xs
    pure (a ++ b)
def marshalKVs (cfg : EncCfg) : DMKVs → Option (List (Bytes × List JTok))
  | .nil => some []
  | .cons k v es => do
    let a ← marshalTok cfg v
    let b ← marshalKVs cfg es
    pure ((k, a) :: b)
end

/-! ## refmt JSON encoder: tokens to bytes -/

inductive Phase where | anyValue | mapKeyOrEnd | mapValue | arrValueOrEnd
  deriving DecidableEq, Repr

structure EmitSt where
  stack : List Phase := []      -- outstanding opens (innermost last, as in the Go slice)
  current : Phase := .anyValue
  hasSome : Bool := false
  out : Bytes := []
  done : Bool := false

structure Layout where
  line : Bytes := []
  indent : Bytes := []

def compact : Layout := {}
def pretty : Layout := { line := [0x0a], indent := [0x09] }

def rep (n : Nat) (b : Bytes) : Bytes := (List.replicate n b).flatten

def EmitSt.push (st : EmitSt) (p : Phase) (w : Bytes) : EmitSt :=
  { st with current := p, stack := st.stack ++ [p], hasSome := false, out := st.out ++ w }

def EmitSt.pop (lay : Layout) (st : EmitSt) (w : Bytes) : Option EmitSt :=
  let n := st.stack.length - 1
  if st.stack.isEmpty then none
  else if n = 0 then some { st with out := st.out ++ w ++ lay.line, done := true }
  else some { st with current := (st.stack.getD (n - 1) .anyValue), stack := st.stack.take n, hasSome := true, out := st.out ++ w }

def entrySep (lay : Layout) (st : EmitSt) : EmitSt :=
  let o := (if st.hasSome then [0x2c] else []) ++ lay.line ++ rep st.stack.length lay.indent
  { st with hasSome := true, out := st.out ++ o }

/-- text of a scalar token; floats through the parameter `fmtF` (strconv shortest formatting) -/
def scalarText (fmtF : UInt64 → Option Bytes) : JTok → Option Bytes
  | .null => some [0x6e, 0x75, 0x6c, 0x6c]
  | .bool true => some [0x74, 0x72, 0x75, 0x65]
  | .bool false => some [0x66, 0x61, 0x6c, 0x73, 0x65]
  | .int i => some (emitInt i)
  | .float f => fmtF f
  | .str s => some (emitString s)
  | _ => none

def closeLine (lay : Layout) (st : EmitSt) : Bytes :=
  if st.hasSome then lay.line ++ rep (st.stack.length - 1) lay.indent else []

def emitStep (lay : Layout) (fmtF : UInt64 → Option Bytes) (st : EmitSt) (t : JTok) : Option EmitSt :=
  if st.done then none else
  match st.current, t with
  | .anyValue, .mapOpen => some (st.push .mapKeyOrEnd [0x7b])
  | .anyValue, .arrOpen => some (st.push .arrValueOrEnd [0x5b])
  | .anyValue, .mapClose => none
  | .anyValue, .arrClose => none
  | .anyValue, t => (scalarText fmtF t).map fun w => { st with out := st.out ++ w, done := true }
  | .mapKeyOrEnd, .mapClose => EmitSt.pop lay { st with out := st.out ++ closeLine lay st } [0x7d]
  | .mapKeyOrEnd, .str k =>
      let st1 := entrySep lay st
      some { st1 with out := st1.out ++ emitString k ++ [0x3a] ++ (if lay.line.isEmpty then [] else [0x20]), current := .mapValue }
  | .mapKeyOrEnd, _ => none
  | .mapValue, .mapOpen => some (st.push .mapKeyOrEnd [0x7b])
  | .mapValue, .arrOpen => some (st.push .arrValueOrEnd [0x5b])
  | .mapValue, .mapClose => none
  | .mapValue, .arrClose => none
  | .mapValue, t => (scalarText fmtF t).map fun w => { st with out := st.out ++ w, current := .mapKeyOrEnd }
  | .arrValueOrEnd, .mapOpen => some ((entrySep lay st).push .mapKeyOrEnd [0x7b])
  | .arrValueOrEnd, .arrOpen => some ((entrySep lay st).push .arrValueOrEnd [0x5b])
  | .arrValueOrEnd, .mapClose => none
  | .arrValueOrEnd, .arrClose => EmitSt.pop lay { st with out := st.out ++ closeLine lay st } [0x5d]
  | .arrValueOrEnd, t =>
      let st1 := entrySep lay st
      (scalarText fmtF t).map fun w => { st1 with out := st1.out ++ w }

def emitToks (lay : Layout) (fmtF : UInt64 → Option Bytes) (ts : List JTok) : Option Bytes :=
  (ts.foldlM (emitStep lay fmtF) {}).map (·.out)

/-- bytes of `dagjson.Encode` (compact) / `json.Encode` (pretty) -/
def encodeJson (cfg : EncCfg) (lay : Layout) (fmtF : UInt64 → Option Bytes) (d : DM) : Option Bytes :=
  (marshalTok cfg d).bind (emitToks lay fmtF)

/-! ## Decoder, meaning: recursive descent over the token list -/

inductive JErr where
  | eof | depth | badKey | dupKey | badCid | badBase64 | unexpectedClose | trailing | unreachable
  deriving DecidableEq, Repr, Inhabited

structure DecCfg where
  parseLinks : Bool := true
  parseBytes : Bool := true
  dontParseBeyondEnd : Bool := false
  maxDepth : Nat := 1024
  deriving Repr

def dagjsonDec : DecCfg := {}
def plainJsonDec : DecCfg := { parseLinks := false, parseBytes := false }

abbrev JR (α : Type) := Except JErr α

/-- Go's base64 decoders ignore carriage returns and line feeds in their input -/
def stripNL (s : Bytes) : Bytes := s.filter fun b => b != 0x0a && b != 0x0d

/-- base64 of the bytes form: RawStdEncoding first, StdEncoding (padded) as the fallback -/
def decodeB64 (s0 : Bytes) : Option Bytes :=
  let s := stripNL s0
  match unbase64Raw s with
  | some b => some b
  | none =>
    -- padded form: strip one or two '=' provided the total length is a multiple of 4
    if s.length % 4 = 0 ∧ s.length ≥ 4 then
      let body := if s.getLast? = some 0x3d then (if (s.dropLast).getLast? = some 0x3d then s.dropLast.dropLast else s.dropLast) else s
      if body.length = s.length then none else unbase64Raw body
    else none

/-- `n` …entries of a map until `mapClose`; `item` decodes one value. -/
def unMapLoop (item : List JTok → JR (DM × List JTok)) : Nat → List Bytes → List JTok → JR (List (Bytes × DM) × List JTok)
  | 0, _, _ => .error .eof
  | fuel + 1, seen, toks =>
    match toks with
    | [] => .error .eof
    | .mapClose :: rest => .ok ([], rest)
    | .str k :: rest =>
      if seen.contains k then .error .dupKey else
      match rest with
      | [] => .error .eof
      | _ => do
        let (v, rest') ← item rest
        let (es, rest'') ← unMapLoop item fuel (k :: seen) rest'
        pure ((k, v) :: es, rest'')
    | _ => .error .badKey

def unListLoop (item : List JTok → JR (DM × List JTok)) : Nat → List JTok → JR (List DM × List JTok)
  | 0, _ => .error .eof
  | fuel + 1, toks =>
    match toks with
    | [] => .error .eof
    | .arrClose :: rest => .ok ([], rest)
    | _ => do
      let (v, rest') ← item toks
      let (xs, rest'') ← unListLoop item fuel rest'
      pure (v :: xs, rest'')

def unTok (cfg : DecCfg) : Nat → Nat → List JTok → JR (DM × List JTok)
  | 0, _, _ => .error .eof
  | fuel + 1, depth, toks =>
    match toks with
    | [] => .error .eof
    | .null :: rest => .ok (.null, rest)
    | .bool b :: rest => .ok (.bool b, rest)
    | .int i :: rest => .ok (.int i, rest)
    | .float f :: rest => .ok (.float f, rest)
    | .str s :: rest => .ok (.str s, rest)
    | .mapClose :: _ => .error .unexpectedClose
    | .arrClose :: _ => .error .unexpectedClose
    | .arrOpen :: rest =>
      if depth ≥ cfg.maxDepth then .error .depth else do
      let (xs, rest') ← unListLoop (unTok cfg fuel (depth + 1)) (rest.length + 1) rest
      pure (.list (DMs.ofList xs), rest')
    | .mapOpen :: rest =>
      if depth ≥ cfg.maxDepth then .error .depth else
      let asMap : JR (DM × List JTok) := do
        let (es, rest') ← unMapLoop (unTok cfg fuel (depth + 1)) (rest.length + 1) [] rest
        pure (.map (DMKVs.ofList es), rest')
      -- peeking past the end of the token stream is an error of the token source (EOF / malformed text)
      let peek (i : Nat) : JR JTok := match rest[i]? with | some t => .ok t | none => .error .eof
      let tryBytes : JR (DM × List JTok) :=
        if cfg.parseBytes then do
          let t1 ← peek 0
          if t1 ≠ .str slash then asMap else
          let t2 ← peek 1
          if t2 ≠ .mapOpen then asMap else
          let t3 ← peek 2
          if t3 ≠ .str bytesWord then asMap else
          let t4 ← peek 3
          match t4 with
          | .str s =>
            let t5 ← peek 4
            if t5 ≠ .mapClose then asMap else
            let t6 ← peek 5
            if t6 ≠ .mapClose then asMap else
            match decodeB64 s with
            | some b => .ok (.bytes b, rest.drop 6)
            | none => .error .badBase64
          | _ => asMap
        else asMap
      if cfg.parseLinks then do
        let t1 ← peek 0
        if t1 ≠ .str slash then tryBytes else
        let t2 ← peek 1
        match t2 with
        | .str s =>
          let t3 ← peek 2
          if t3 ≠ .mapClose then tryBytes else
          match cidParse s with
          | some c => .ok (.link c, rest.drop 3)
          | none => .error .badCid
        | _ => tryBytes
      else tryBytes

/-- `DecodeOptions.Decode` at token level: one value, then (unless told otherwise) nothing more. -/
def decodeToks (cfg : DecCfg) (toks : List JTok) : JR DM := do
  let (v, rest) ← unTok cfg (toks.length + 1) 0 toks
  if cfg.dontParseBeyondEnd then pure v
  else if rest.isEmpty then pure v else .error .trailing

/-! ## Decoder, mechanism: the code's token window -/

/-- `buf` = the tokens peeked so far (`tk[1..shift]`), `src` = what the token source still holds. -/
structure Win where
  buf : List JTok
  src : List JTok

/-- `unmarshalState.step`: next token, from the window if it holds any. -/
def Win.step (w : Win) : JR (JTok × Win) :=
  match w.buf with
  | t :: b => if w.buf.length ≤ 6 then .ok (t, { w with buf := b }) else .error .unreachable   -- `default: panic("unreachable")`
  | [] =>
    match w.src with
    | t :: s => .ok (t, { w with src := s })
    | [] => .error .eof

/-- `tokSrc.Step(&st.tk[0])` as the list loop does it: straight from the source, whatever the window holds. -/
def Win.stepSrc (w : Win) : JR (JTok × Win) :=
  match w.src with
  | t :: s => .ok (t, { w with src := s })
  | [] => .error .eof

/-- `ensure(n)`: make `tk[n]` available.  The code loads one token into slot `n` and sets `shift = n`;
    that is only meaningful when `shift = n - 1` (otherwise stale slots would be exposed). -/
def Win.ensure (w : Win) (n : Nat) : JR Win :=
  if w.buf.length ≥ n then .ok w
  else if w.buf.length + 1 = n then
    match w.src with
    | t :: s => .ok { buf := w.buf ++ [t], src := s }
    | [] => .error .eof
  else .error .unreachable

inductive Look where
  | got (v : DM) (w : Win)      -- a reserved form was recognised; the window was dropped (`shift = 0`)
  | notIt (w : Win)

def Win.linkLookahead (w : Win) : JR Look := do
  let w : Win ← w.ensure 1
  match (w.buf[0]? : Option JTok) with
  | some (.str k) =>
    if k ≠ slash then pure (.notIt w) else
    let w : Win ← w.ensure 2
    match (w.buf[1]? : Option JTok) with
    | some (.str s) =>
      let w : Win ← w.ensure 3
      match (w.buf[2]? : Option JTok) with
      | some .mapClose =>
        match cidParse s with
        | some c => pure (.got (.link c) { w with buf := [] })      -- st.shift = 0
        | none => .error .badCid
      | _ => pure (.notIt w)
    | _ => pure (.notIt w)
  | _ => pure (.notIt w)

def Win.bytesLookahead (w : Win) : JR Look := do
  let w : Win ← w.ensure 1
  match (w.buf[0]? : Option JTok) with
  | some (.str k) =>
    if k ≠ slash then pure (.notIt w) else
    let w : Win ← w.ensure 2
    match (w.buf[1]? : Option JTok) with
    | some .mapOpen =>
      let w : Win ← w.ensure 3
      match (w.buf[2]? : Option JTok) with
      | some (.str k2) =>
        if k2 ≠ bytesWord then pure (.notIt w) else
        let w : Win ← w.ensure 4
        match (w.buf[3]? : Option JTok) with
        | some (.str s) =>
          let w : Win ← w.ensure 5
          match (w.buf[4]? : Option JTok) with
          | some .mapClose =>
            let w : Win ← w.ensure 6
            match (w.buf[5]? : Option JTok) with
            | some .mapClose =>
              match decodeB64 s with
              | some b => pure (.got (.bytes b) { w with buf := [] })
              | none => .error .badBase64
            | _ => pure (.notIt w)
          | _ => pure (.notIt w)
        | _ => pure (.notIt w)
      | _ => pure (.notIt w)
    | _ => pure (.notIt w)
  | _ => pure (.notIt w)

def winMapLoop (item : JTok → Win → JR (DM × Win)) : Nat → List Bytes → Win → JR (List (Bytes × DM) × Win)
  | 0, _, _ => .error .eof
  | fuel + 1, seen, w => do
    let (t, w1) ← w.step
    match t with
    | .mapClose => pure ([], w1)
    | .str k =>
      if seen.contains k then .error .dupKey else
      let (t2, w2) ← w1.step
      let (v, w3) ← item t2 w2
      let (es, w4) ← winMapLoop item fuel (k :: seen) w3
      pure ((k, v) :: es, w4)
    | _ => .error .badKey

def winListLoop (item : JTok → Win → JR (DM × Win)) : Nat → Win → JR (List DM × Win)
  | 0, _ => .error .eof
  | fuel + 1, w => do
    let (t, w1) ← w.stepSrc          -- NB: reads the source directly
    match t with
    | .arrClose => pure ([], w1)
    | _ =>
      let (v, w2) ← item t w1
      let (xs, w3) ← winListLoop item fuel w2
      pure (v :: xs, w3)

/-- `unmarshalState.unmarshal` with `cur` = `tk[0]`. -/
def Win.un (cfg : DecCfg) : Nat → Nat → JTok → Win → JR (DM × Win)
  | 0, _, _, _ => .error .eof
  | fuel + 1, depth, cur, w =>
    match cur with
    | .null => .ok (.null, w)
    | .bool b => .ok (.bool b, w)
    | .int i => .ok (.int i, w)
    | .float f => .ok (.float f, w)
    | .str s => .ok (.str s, w)
    | .mapClose => .error .unexpectedClose
    | .arrClose => .error .unexpectedClose
    | .arrOpen =>
      if depth ≥ cfg.maxDepth then .error .depth else do
      let (xs, w') ← winListLoop (Win.un cfg fuel (depth + 1)) (w.buf.length + w.src.length + 1) w
      pure (.list (DMs.ofList xs), w')
    | .mapOpen =>
      if depth ≥ cfg.maxDepth then .error .depth else do
      let afterLink ← (if cfg.parseLinks then w.linkLookahead else pure (.notIt w))
      match afterLink with
      | .got v w' => pure (v, w')
      | .notIt w1 =>
        let afterBytes ← (if cfg.parseBytes then w1.bytesLookahead else pure (.notIt w1))
        match afterBytes with
        | .got v w' => pure (v, w')
        | .notIt w2 =>
          let (es, w') ← winMapLoop (Win.un cfg fuel (depth + 1)) (w2.buf.length + w2.src.length + 1) [] w2
          pure (.map (DMKVs.ofList es), w')

/-- `Unmarshal` + the end-of-input check, through the window mechanism. -/
def decodeToksWin (cfg : DecCfg) (toks : List JTok) : JR DM :=
  match toks with
  | [] => .error .eof
  | t :: rest => do
    let (v, w) ← Win.un cfg (toks.length + 1) 0 t { buf := [], src := rest }
    if cfg.dontParseBeyondEnd then pure v
    else if w.buf.isEmpty && w.src.isEmpty then pure v else .error .trailing

end Json
end Ipld
