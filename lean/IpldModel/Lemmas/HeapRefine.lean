/-
  Refinement of the heap-level builder model to the pure assembler model: the abstraction `toPure`,
  an abstract step `astep` that mirrors `hstep` on abstracted states, and its agreement with
  `Asm.step` on histories without misuse.  Core Lean only.
-/
import IpldModel.Lemmas.HeapRead
import IpldModel.Lemmas.Assembler
set_option linter.unusedSimpArgs false
set_option linter.unusedVariables false
namespace Ipld
namespace Heap
open Asm

/-! ### enough fuel -/

/-- below a bounded node more fuel changes nothing -/
theorem absRef_bounded {h : H} : ∀ (n id : Nat), Bounded h n id → ∀ F, n ≤ F →
    absRef h F (.obj id) = absRef h n (.obj id)
  | 0, _, hb, _, _ => absurd hb (by simp [Bounded])
  | n + 1, id, hb, F, hF => by
    obtain ⟨F', rfl⟩ : ∃ F', F = F' + 1 := ⟨F - 1, by omega⟩
    rw [absRef_succ, absRef_succ]
    have hv : ∀ c ∈ cellsOf h id, ∀ v, c.ref = some v → absRef h F' v = absRef h n v := by
      intro c hc v hr
      cases v with
      | scalar d => simp
      | obj id' => exact absRef_bounded n id' (hb c hc id' hr) F' (by omega)
    have e1 : (cellsOf h id).filterMap (entryVal h F') = (cellsOf h id).filterMap (entryVal h n) := by
      apply filterMap_congr'
      intro c hc
      cases c with
      | entry k v =>
        cases v with
        | none => rfl
        | some v => simp only [entryVal]; rw [hv _ hc v rfl]
      | _ => rfl
    have e2 : (cellsOf h id).filterMap (itemVal h F') = (cellsOf h id).filterMap (itemVal h n) := by
      apply filterMap_congr'
      intro c hc
      cases c with
      | item v => simp only [itemVal]; rw [hv _ hc v rfl]
      | _ => rfl
    rw [e1, e2]

/-- with fuel at least the number of finished nodes, more fuel changes nothing -/
theorem HeapInv.absRef_fuel {h : H} (hi : HeapInv h) {v : NRef} (hv : RefOk h.finished v) {F F' : Nat}
    (h1 : h.finished.length ≤ F) (h2 : h.finished.length ≤ F') : absRef h F v = absRef h F' v := by
  cases v with
  | scalar d => simp
  | obj id =>
    rw [absRef_bounded _ id (hi.bounded id hv) F h1, absRef_bounded _ id (hi.bounded id hv) F' h2]

/-! ### the abstraction -/

def cellEntry (h : H) (F : Nat) : Cell → Bytes × Option DM
  | .entry k v => (k, v.map (absRef h F))
  | _ => ([], none)

def absGm (h : H) (F : Nat) (g : List (Bytes × NRef)) : List (Bytes × DM) :=
  g.map fun e => (e.1, absRef h F e.2)

def absFrame (h : H) (F : Nat) : HFrame → Frame
  | .map id ph => .map ((cellsOf h id).map (cellEntry h F)) (absGm h F (gmOf h id)) ph
  | .list id ph => .list ((cellsOf h id).filterMap (itemVal h F)) ph

/-- the pure assembler state a heap-level builder state stands for (fuel `F` for reading nodes) -/
def toPure (F : Nat) (s : HSt) : St :=
  { proto := .any, frames := s.frames.map (absFrame s.h F), root := s.root.map (absRef s.h F) }

/-- reading any storable reference gives the same value in `h'` as in `h` -/
def AbsStable (h h' : H) (F : Nat) : Prop := ∀ v, RefOk h.finished v → absRef h' F v = absRef h F v

theorem absStable_of_same {h h' : H} (hi : HeapInv h) (hs : ∀ j ∈ h.finished, SameObj h h' j) (F : Nat) :
    AbsStable h h' F := by
  intro v hv
  refine absRef_congr_ref (· ∈ h.finished) hs hi.closed_fin F v ?_
  intro id e; subst e; exact hv

theorem cellEntry_stable {h h' : H} {F : Nat} (hst : AbsStable h h' F) {mp : Bool} {c : Cell}
    (hc : CellGood h.finished mp c) : cellEntry h' F c = cellEntry h F c := by
  cases c with
  | entry k v =>
    cases v with
    | none => rfl
    | some v => simp only [cellEntry, Option.map]; rw [hst v (hc.2 v rfl)]
  | _ => rfl

theorem itemVal_stable {h h' : H} {F : Nat} (hst : AbsStable h h' F) {mp : Bool} {c : Cell}
    (hc : CellGood h.finished mp c) : itemVal h' F c = itemVal h F c := by
  cases c with
  | item v => simp only [itemVal]; rw [hst v (hc.2 v rfl)]
  | _ => rfl

theorem absGm_stable {h h' : H} {F : Nat} (hst : AbsStable h h' F) {g : List (Bytes × NRef)}
    (hg : ∀ e ∈ g, RefOk h.finished e.2) : absGm h' F g = absGm h F g := by
  unfold absGm
  apply List.map_congr_left
  intro e he; rw [hst e.2 (hg e he)]

/-- a frame whose object is untouched abstracts to the same pure frame -/
theorem absFrame_same {h h' : H} {F : Nat} (hi : HeapInv h) (hst : AbsStable h h' F) {f : HFrame}
    (hj : f.id < h.objs.length) (hs : SameObj h h' f.id) : absFrame h' F f = absFrame h F f := by
  cases f with
  | map id ph =>
    simp only [HFrame.id] at hj hs
    simp only [absFrame, hs.cells, hs.gm]
    rw [absGm_stable hst (hi.gm_ok id hj)]
    congr 1
    apply List.map_congr_left
    intro c hc; exact cellEntry_stable hst (hi.cells id hj c hc)
  | list id ph =>
    simp only [HFrame.id] at hj hs
    simp only [absFrame, hs.cells]
    congr 1
    apply filterMap_congr'
    intro c hc; exact itemVal_stable hst (hi.cells id hj c hc)

theorem absFrames_same {h h' : H} {F : Nat} (hi : HeapInv h) (hst : AbsStable h h' F) {fr : List HFrame}
    (hs : ∀ f ∈ fr, f.id < h.objs.length ∧ SameObj h h' f.id) :
    fr.map (absFrame h' F) = fr.map (absFrame h F) := by
  apply List.map_congr_left
  intro f hf; exact absFrame_same hi hst (hs f hf).1 (hs f hf).2

theorem absRoot_same {h h' : H} {F : Nat} (hst : AbsStable h h' F) {r : Option NRef}
    (hr : ∀ v, r = some v → RefOk h.finished v) : r.map (absRef h' F) = r.map (absRef h F) := by
  cases r with
  | none => rfl
  | some v => simp only [Option.map]; rw [hst v (hr v rfl)]

theorem tableEntries_cellEntry (h : H) (F : Nat) (cs : List Cell) :
    tableEntries (cs.map (cellEntry h F)) = cs.filterMap (entryVal h F) := by
  induction cs with
  | nil => rfl
  | cons c r ih =>
    simp only [List.map_cons, List.filterMap_cons]
    have : tableEntries (cellEntry h F c :: r.map (cellEntry h F)) =
        tableEntries [cellEntry h F c] ++ tableEntries (r.map (cellEntry h F)) :=
      tableEntries_append [cellEntry h F c] _
    rw [this, ih]
    cases c with
    | entry k v =>
      cases v with
      | none => rfl
      | some v => rfl
    | _ => rfl

/-! ### the abstract step -/

def pvaluePos (p : St) : Bool :=
  match p.frames with
  | [] => p.root.isNone
  | .map _ _ .midValue :: _ => true
  | .list _ .midValue :: _ => true
  | _ => false

/-- `hstep` on abstracted states: the heap-level builder call seen through `toPure`
    (`val` reads the nodes handed in by reference). -/
def astep (p : St) (val : NRef → DM) : HOp → St
  | .reset => { p with frames := [], root := none }
  | .beginMap _ => if pvaluePos p then { p with frames := .map [] [] .init :: p.frames } else p
  | .beginList _ => if pvaluePos p then { p with frames := .list [] .init :: p.frames } else p
  | .assignScalar d => if pvaluePos p then (deliver p d).1 else p
  | .assignNode r => if pvaluePos p then (deliver p (val r)).1 else p
  | .assignNodeShortcut src =>
    if p.frames.isEmpty && p.root.isNone then { p with root := some (val (.obj src)) } else p
  | .assembleKey =>
    match p.frames with
    | .map t m .init :: rest => { p with frames := .map t m .midKey :: rest }
    | _ => p
  | .assembleEntry k =>
    match p.frames with
    | .map t m .init :: rest =>
      if mapHas m k then p else { p with frames := .map (t ++ [(k, none)]) m .midValue :: rest }
    | _ => p
  | .keyString k =>
    match p.frames with
    | .map t m .midKey :: rest =>
      if mapHas m k then { p with frames := .map t m .init :: rest }
      else { p with frames := .map (t ++ [(k, none)]) m .expectValue :: rest }
    | _ => p
  | .assembleValue =>
    match p.frames with
    | .map t m .expectValue :: rest => { p with frames := .map t m .midValue :: rest }
    | .list x .init :: rest => { p with frames := .list x .midValue :: rest }
    | _ => p
  | .finish =>
    match p.frames with
    | .map t _ .init :: rest => (deliver { p with frames := rest } (.map (DMKVs.ofList (tableEntries t)))).1
    | .list x .init :: rest => (deliver { p with frames := rest } (.list (DMs.ofList x))).1
    | _ => p

/-- the shape part of the assembler invariant: which entries of a map frame have values, by phase -/
def FShape : Frame → Prop
  | .map t m ph => Shape t m ph
  | .list _ _ => True

def PInv (p : St) : Prop := ∀ f ∈ p.frames, FShape f

theorem PInv.tail {p : St} {f : Frame} {rest : List Frame} (h : PInv p) (hf : p.frames = f :: rest) :
    PInv { p with frames := rest } := by
  intro g hg; exact h g (by rw [hf]; exact List.mem_cons_of_mem _ hg)

theorem PInv.replace {p : St} {f g : Frame} {rest : List Frame} (h : PInv p) (hf : p.frames = f :: rest)
    (hg : FShape g) : PInv { p with frames := g :: rest } := by
  intro g' hg'
  rcases List.mem_cons.1 hg' with e | hm
  · subst e; exact hg
  · exact h g' (by rw [hf]; exact List.mem_cons_of_mem _ hm)

theorem PInv.push {p : St} {g : Frame} (h : PInv p) (hg : FShape g) :
    PInv { p with frames := g :: p.frames } := by
  intro g' hg'
  rcases List.mem_cons.1 hg' with e | hm
  · subst e; exact hg
  · exact h g' hm

theorem PInv.top {p : St} {f : Frame} {rest : List Frame} (h : PInv p) (hf : p.frames = f :: rest) :
    FShape f := h f (by rw [hf]; exact List.mem_cons_self ..)

theorem deliver_pinv {p : St} (v : DM) (h : PInv p) : PInv (deliver p v).1 := by
  obtain ⟨pr, fr, rt⟩ := p
  cases fr with
  | nil => exact h
  | cons f rest =>
    cases f with
    | map t m ph =>
      cases ph with
      | midValue =>
        have hs : Shape t m .midValue := h.top rfl
        obtain ⟨t0, k, rfl, hd, hk⟩ := hs
        simp only [deliver, lastKey_append_single, setLast_append_single]
        exact h.replace (g := .map (t0 ++ [(k, some v)]) (mapInsert m k v) .init) rfl
          (allDone_append.2 ⟨hd, allDone_single k v⟩)
      | _ => exact h
    | list x ph =>
      cases ph with
      | init => exact h
      | midValue =>
        simp only [deliver]
        exact h.replace (g := .list (x ++ [v]) .init) rfl trivial

theorem astep_pinv {p : St} (val : NRef → DM) (op : HOp) (h : PInv p) : PInv (astep p val op) := by
  cases op with
  | reset => intro f hf; cases hf
  | beginMap n =>
    simp only [astep]; split
    · exact h.push (g := .map [] [] .init) allDone_nil
    · exact h
  | beginList n =>
    simp only [astep]; split
    · exact h.push (g := .list [] .init) trivial
    · exact h
  | assignScalar d =>
    simp only [astep]; split
    · exact deliver_pinv _ h
    · exact h
  | assignNode r =>
    simp only [astep]; split
    · exact deliver_pinv _ h
    · exact h
  | assignNodeShortcut src => simp only [astep]; split <;> exact h
  | assembleKey =>
    simp only [astep]; split
    · rename_i t m rest hf
      exact h.replace (g := .map t m .midKey) hf (show AllDone t from h.top hf)
    · exact h
  | assembleEntry k =>
    simp only [astep]; split
    · rename_i t m rest hf
      split
      · exact h
      · rename_i hk
        exact h.replace (g := .map (t ++ [(k, none)]) m .midValue) hf
          ⟨t, k, rfl, h.top hf, by simpa using hk⟩
    · exact h
  | keyString k =>
    simp only [astep]; split
    · rename_i t m rest hf
      split
      · exact h.replace (g := .map t m .init) hf (show AllDone t from h.top hf)
      · rename_i hk
        exact h.replace (g := .map (t ++ [(k, none)]) m .expectValue) hf
          ⟨t, k, rfl, h.top hf, by simpa using hk⟩
    · exact h
  | assembleValue =>
    simp only [astep]; split
    · rename_i t m rest hf
      exact h.replace (g := .map t m .midValue) hf (show Pending t m from h.top hf)
    · rename_i x rest hf
      exact h.replace (g := .list x .midValue) hf trivial
    · exact h
  | finish =>
    simp only [astep]; split
    · rename_i t m rest hf; exact deliver_pinv _ (h.tail hf)
    · rename_i x rest hf; exact deliver_pinv _ (h.tail hf)
    · exact h

/-! ### small facts about the lookup map -/

theorem mapInsert_of_not_has {m : List (Bytes × DM)} {k : Bytes} (v : DM) (h : mapHas m k = false) :
    mapInsert m k v = m ++ [(k, v)] := by
  induction m with
  | nil => rfl
  | cons e r ih =>
    obtain ⟨a, b⟩ := e
    rw [mapHas_eq_false_iff, mapLookup_cons] at h
    by_cases e : a = k
    · simp [e] at h
    · rw [if_neg e] at h
      rw [mapInsert_cons, if_neg e, ih ((mapHas_eq_false_iff _ _).2 h)]
      rfl

theorem mapHas_absGm (h : H) (F : Nat) (g : List (Bytes × NRef)) (k : Bytes) :
    mapHas (absGm h F g) k = g.any fun e => e.1 = k := by
  induction g with
  | nil => rfl
  | cons e r ih =>
    obtain ⟨a, b⟩ := e
    have : absGm h F ((a, b) :: r) = (a, absRef h F b) :: absGm h F r := rfl
    rw [this]
    unfold mapHas at ih ⊢
    rw [mapLookup_cons]
    by_cases e : a = k
    · simp [e]
    · simp [e, ih]

theorem filter_ne_of_not_any {g : List (Bytes × NRef)} {k : Bytes}
    (h : (g.any fun e => e.1 = k) = false) : (g.filter fun e => e.1 ≠ k) = g := by
  rw [List.filter_eq_self]
  intro e he
  have := (List.any_eq_false.1 h) e he
  simpa using this

/-! ### `toPure` along the building blocks -/

theorem pvaluePos_toPure (F : Nat) (s : HSt) : pvaluePos (toPure F s) = valuePos s := by
  obtain ⟨h, fr, rt, w⟩ := s
  cases fr with
  | nil => cases rt <;> rfl
  | cons f rest =>
    cases f with
    | map id ph => cases ph <;> rfl
    | list id ph => cases ph <;> rfl

theorem Mod.absStable {h h' : H} {id : Nat} (hm : Mod h h' id) (hi : HeapInv h) (hnf : id ∉ h.finished)
    (F : Nat) : AbsStable h h' F := by
  apply absStable_of_same hi
  intro j hj
  exact hm.other j (hi.fin_lt j hj) (fun e => hnf (e ▸ hj))

theorem Ext.absStable {h h' : H} {o : Obj} (he : Ext h h' o) (hi : HeapInv h) (F : Nat) :
    AbsStable h h' F := by
  apply absStable_of_same hi
  intro j hj
  exact he.same hi (hi.fin_lt j hj)

/-- after a change confined to the object of the innermost frame, the other frames and the root
    abstract to the same pure values -/
theorem toPure_mod {others : List Nat} {s : HSt} {h' : H} {id : Nat} {f0 f' : HFrame}
    {rest : List HFrame} {w' : List Loc} (F : Nat) (hi : HInvO others s) (hf : s.frames = f0 :: rest)
    (hid : f0.id = id) (hm : Mod s.h h' id) :
    toPure F { s with h := h', frames := f' :: rest, written := w' } =
      { toPure F s with frames := absFrame h' F f' :: rest.map (absFrame s.h F) } := by
  have hidm : id ∈ frameIds s.frames := by simp [hf, frameIds, hid]
  have hnf := hi.ids_unfin id (List.mem_append_left _ hidm)
  have hst := hm.absStable hi.heap hnf F
  have hnd := hi.ids_nodup
  simp only [hf, frameIds, List.map_cons, List.cons_append, hid, List.nodup_cons] at hnd
  have hrest : rest.map (absFrame h' F) = rest.map (absFrame s.h F) := by
    apply absFrames_same hi.heap hst
    intro f hfm
    have hmem : f.id ∈ frameIds s.frames ++ others := by
      simp only [hf, frameIds, List.map_cons, List.cons_append]
      exact List.mem_cons_of_mem _ (List.mem_append_left _ (List.mem_map.2 ⟨f, hfm, rfl⟩))
    have hlt := hi.ids_lt f.id hmem
    refine ⟨hlt, hm.other f.id hlt ?_⟩
    intro e; apply hnd.1; rw [← e]
    exact List.mem_append_left _ (List.mem_map.2 ⟨f, hfm, rfl⟩)
  simp only [toPure, List.map_cons, hrest, absRoot_same hst hi.root]

/-- after an allocation every frame and the root abstract to the same pure values -/
theorem toPure_ext {others : List Nat} {s : HSt} {h' : H} {o : Obj} (F : Nat) (hi : HInvO others s)
    (he : Ext s.h h' o) (hfin : h'.finished = s.h.finished) :
    s.frames.map (absFrame h' F) = s.frames.map (absFrame s.h F) ∧
      s.root.map (absRef h' F) = s.root.map (absRef s.h F) := by
  have hst := he.absStable hi.heap F
  refine ⟨?_, absRoot_same hst hi.root⟩
  apply absFrames_same hi.heap hst
  intro f hfm
  have hlt := hi.ids_lt f.id (List.mem_append_left _ (List.mem_map.2 ⟨f, hfm, rfl⟩))
  exact ⟨hlt, he.same hi.heap hlt⟩

theorem cellsOf_length {h : H} (hi : HeapInv h) {id : Nat} (hlt : id < h.objs.length) :
    (cellsOf h id).length = (objAt h id).slice.len := by
  obtain ⟨h1, h2, h3⟩ := hi.wf id hlt
  unfold cellsOf; rw [sliceCells_eq, List.length_take]; omega

theorem isMap_true_iff {o : Obj} (h : o.isMap = true) : ∃ t m, o = .map t m := by
  cases o with
  | map t m => exact ⟨t, m, rfl⟩
  | list x => cases h

theorem isMap_false_iff {o : Obj} (h : o.isMap = false) : ∃ x, o = .list x := by
  cases o with
  | map t m => cases h
  | list x => exact ⟨x, rfl⟩


theorem hdeliver_list_eq {s : HSt} {id : Nat} {rest : List HFrame} {x : Slice} (v : NRef)
    (hf : s.frames = .list id .midValue :: rest) (ho : objAt s.h id = .list x) :
    hdeliver s v = { s with h := hAppend s.h id (.item v), frames := .list id .init :: rest,
                            written := (appendSlice s.h x (.item v)).2.2 ++ [.objHdr id] ++ s.written } := by
  obtain ⟨h, fr, rt, w⟩ := s
  simp only at hf ho
  subst hf
  have ho' : h.objs.getD id default = .list x := ho
  simp only [hdeliver, ho', hAppend, ho, Obj.slice, Obj.withSlice]

theorem hdeliver_map_eq {s : HSt} {id : Nat} {rest : List HFrame} {t : Slice} {m : Nat} {k : Bytes}
    {o : Option NRef} (v : NRef)
    (hf : s.frames = .map id .midValue :: rest) (ho : objAt s.h id = .map t m)
    (hc : (arrAt s.h t.arr).getD (t.len - 1) .empty = .entry k o) :
    hdeliver s v = { s with h := hSetLast s.h t m k v, frames := .map id .init :: rest,
                            written := [.arrCell t.arr (t.len - 1), .gomap m] ++ s.written } := by
  obtain ⟨h, fr, rt, w⟩ := s
  simp only at hf ho hc
  subst hf
  have ho' : h.objs.getD id default = .map t m := ho
  have hc' : (h.arrs.getD t.arr []).getD (t.len - 1) .empty = .entry k o := hc
  simp only [hdeliver, ho', hc', hSetLast]

/-- the abstraction of a list frame after appending an item -/
theorem absFrame_hAppend_list {h : H} {id : Nat} {v : NRef} (F : Nat) (hi : HeapInv h)
    (hlt : id < h.objs.length) (hnf : id ∉ h.finished) (hk : (objAt h id).isMap = false)
    (hv : RefOk h.finished v) (ph : LPhase) :
    absFrame (hAppend h id (.item v)) F (.list id ph) =
      .list ((cellsOf h id).filterMap (itemVal h F) ++ [absRef h F v]) ph := by
  have hc : CellGood h.finished (objAt h id).isMap (.item v) := by
    rw [hk]; refine ⟨trivial, ?_⟩
    intro w hw; simp [Cell.ref] at hw; subst hw; exact hv
  have hst := (hAppend_mod hi hlt hnf hc).absStable hi hnf F
  simp only [absFrame, cellsOf_hAppend_self _ hi hlt, List.filterMap_append]
  congr 1
  congr 1
  · apply filterMap_congr'
    intro c hc; exact itemVal_stable hst (hi.cells id hlt c hc)
  · simp [itemVal, hst v hv]

theorem absFrame_hAppend_map {h : H} {id : Nat} {k : Bytes} (F : Nat) (hi : HeapInv h)
    (hlt : id < h.objs.length) (hnf : id ∉ h.finished) (hk : (objAt h id).isMap = true)
    (ph : MPhase) :
    absFrame (hAppend h id (.entry k none)) F (.map id ph) =
      .map ((cellsOf h id).map (cellEntry h F) ++ [(k, none)]) (absGm h F (gmOf h id)) ph := by
  have hc : CellGood h.finished (objAt h id).isMap (.entry k none) := by
    rw [hk]; exact ⟨trivial, by intro w hw; simp [Cell.ref] at hw⟩
  have hm := hAppend_mod hi hlt hnf hc
  have hst := hm.absStable hi hnf F
  have hg : gmOf (hAppend h id (.entry k none)) id = gmOf h id := by
    unfold gmOf; rw [objAt_hAppend_self _ hlt, Obj.withSlice_gm]
    simp only [gmAt, hAppend, setObj_gomaps, appendSlice_gomaps]
  simp only [absFrame, cellsOf_hAppend_self _ hi hlt, List.map_append, hg]
  rw [absGm_stable hst (hi.gm_ok id hlt)]
  congr 1
  congr 1
  apply List.map_congr_left
  intro c hc; exact cellEntry_stable hst (hi.cells id hlt c hc)


theorem cellsOf_hSetLast {h : H} {id : Nat} {t : Slice} {m : Nat} {k : Bytes} {v : NRef}
    (hi : HeapInv h) (hlt : id < h.objs.length) (ho : objAt h id = .map t m) (hlen : 0 < t.len) :
    cellsOf (hSetLast h t m k v) id = (arrAt h t.arr).take (t.len - 1) ++ [.entry k (some v)] := by
  have hoj : objAt (hSetLast h t m k v) id = objAt h id := rfl
  have hw := hi.wf id hlt
  rw [ho] at hw
  obtain ⟨h1, h2, h3⟩ := hw
  simp only [Obj.slice] at h1 h2 h3
  unfold cellsOf
  rw [hoj, ho]
  simp only [Obj.slice, sliceCells_eq, hSetLast, arrAt_gomapInsert]
  rw [arrAt_writeCell_self _ _ h1]
  have : t.len = (t.len - 1) + 1 := by omega
  conv => lhs; rw [this]
  exact take_succ_setAt _ _ (by omega)

theorem gmOf_hSetLast {h : H} {id : Nat} {t : Slice} {m : Nat} {k : Bytes} {v : NRef}
    (hi : HeapInv h) (hlt : id < h.objs.length) (ho : objAt h id = .map t m) :
    gmOf (hSetLast h t m k v) id = ((gmOf h id).filter fun e => e.1 ≠ k) ++ [(k, v)] := by
  have hoj : objAt (hSetLast h t m k v) id = objAt h id := rfl
  have hm := hi.gm_lt id m hlt (by rw [ho]; rfl)
  unfold gmOf
  rw [hoj, ho]
  simp only [Obj.gm, hSetLast]
  rw [gmAt_gomapInsert, if_pos ⟨rfl, by simpa using hm⟩]
  rfl

theorem absFrame_hSetLast {h : H} {id : Nat} {t : Slice} {m : Nat} {k : Bytes} {v : NRef} (F : Nat)
    (hi : HeapInv h) (hlt : id < h.objs.length) (hnf : id ∉ h.finished) (ho : objAt h id = .map t m)
    (hv : RefOk h.finished v) (hlen : 0 < t.len) (ph : MPhase) :
    absFrame (hSetLast h t m k v) F (.map id ph) =
      .map (((arrAt h t.arr).take (t.len - 1)).map (cellEntry h F) ++ [(k, some (absRef h F v))])
        (absGm h F ((gmOf h id).filter fun e => e.1 ≠ k) ++ [(k, absRef h F v)]) ph := by
  have hm := hSetLast_mod (k := k) hi hlt hnf ho hv
  have hst := hm.absStable hi hnf F
  have hw := hi.wf id hlt
  rw [ho] at hw
  obtain ⟨h1, h2, h3⟩ := hw
  simp only [Obj.slice] at h1 h2 h3
  have hsub : ∀ c ∈ (arrAt h t.arr).take (t.len - 1), c ∈ cellsOf h id := by
    intro c hc
    unfold cellsOf; rw [ho]; simp only [Obj.slice, sliceCells_eq]
    rw [take_dropLast_last (arrAt h t.arr) Cell.empty hlen (by omega)]
    exact List.mem_append_left _ hc
  simp only [absFrame, cellsOf_hSetLast hi hlt ho hlen, gmOf_hSetLast hi hlt ho, List.map_append]
  congr 1
  · congr 1
    · apply List.map_congr_left
      intro c hc; exact cellEntry_stable hst (hi.cells id hlt c (hsub c hc))
    · simp [cellEntry, hst v hv]
  · have : absGm (hSetLast h t m k v) F (((gmOf h id).filter fun e => e.1 ≠ k) ++ [(k, v)]) =
        absGm (hSetLast h t m k v) F ((gmOf h id).filter fun e => e.1 ≠ k) ++ [(k, absRef (hSetLast h t m k v) F v)] := by
      simp [absGm]
    rw [this, hst v hv]
    congr 1
    apply absGm_stable hst
    intro e he; exact hi.gm_ok id hlt e (List.mem_filter.1 he).1


theorem toPure_hdeliver {others : List Nat} {s : HSt} {v : NRef} (F : Nat) (hi : HInvO others s)
    (hv : RefOk s.h.finished v) (hp : PInv (toPure F s)) :
    toPure F (hdeliver s v) = (deliver (toPure F s) (absRef s.h F v)).1 := by
  cases hfr : s.frames with
  | nil =>
    obtain ⟨h, fr, rt, w⟩ := s
    simp only at hfr; subst hfr; rfl
  | cons f rest =>
    cases f with
    | map id ph =>
      cases ph with
      | midValue =>
        have hidm : id ∈ frameIds s.frames := by simp [hfr, frameIds, HFrame.id]
        have hlt := hi.ids_lt id (List.mem_append_left _ hidm)
        have hnf := hi.ids_unfin id (List.mem_append_left _ hidm)
        have hk : (objAt s.h id).isMap = true :=
          hi.kinds (id, true) (by simp [hfr, HFrame.key, HFrame.id, HFrame.isMap])
        obtain ⟨t, m, ho⟩ := isMap_true_iff hk
        have hw := hi.heap.wf id hlt
        rw [ho] at hw
        obtain ⟨h1, h2, h3⟩ := hw
        simp only [Obj.slice] at h1 h2 h3
        -- the shape of the abstract frame
        have hpf : (toPure F s).frames = .map ((cellsOf s.h id).map (cellEntry s.h F))
            (absGm s.h F (gmOf s.h id)) .midValue :: rest.map (absFrame s.h F) := by
          simp [toPure, hfr, absFrame]
        obtain ⟨t0, k, ht, hd, hmk⟩ : Pending ((cellsOf s.h id).map (cellEntry s.h F))
            (absGm s.h F (gmOf s.h id)) := hp.top hpf
        have hcl := cellsOf_length hi.heap hlt
        rw [ho] at hcl; simp only [Obj.slice] at hcl
        have hlen : 0 < t.len := by
          have := congrArg List.length ht
          simp at this; omega
        have hcells : cellsOf s.h id = (arrAt s.h t.arr).take (t.len - 1) ++
            [(arrAt s.h t.arr).getD (t.len - 1) .empty] := by
          unfold cellsOf; rw [ho]; simp only [Obj.slice, sliceCells_eq]
          exact take_dropLast_last _ _ hlen (by omega)
        rw [hcells, List.map_append] at ht
        simp only [List.map_cons, List.map_nil] at ht
        obtain ⟨ht0, hlast⟩ := List.append_inj' ht rfl
        simp only [List.cons.injEq, and_true] at hlast
        have hgood := hi.heap.cells id hlt ((arrAt s.h t.arr).getD (t.len - 1) .empty)
          (by rw [hcells]; simp)
        rw [hk] at hgood
        have hc : (arrAt s.h t.arr).getD (t.len - 1) .empty = .entry k none := by
          generalize (arrAt s.h t.arr).getD (t.len - 1) .empty = c at hlast hgood
          cases c with
          | entry k' o =>
            simp only [cellEntry, Prod.mk.injEq] at hlast
            obtain ⟨rfl, ho⟩ := hlast
            cases o with
            | none => rfl
            | some x => simp at ho
          | empty => exact absurd hgood.1 (by simp [CellKind])
          | item x => exact absurd hgood.1 (by simp [CellKind])
        rw [hdeliver_map_eq v hfr ho hc]
        rw [toPure_mod (id := id) F hi hfr rfl (hSetLast_mod hi.heap hlt hnf ho hv)]
        rw [absFrame_hSetLast F hi.heap hlt hnf ho hv hlen]
        have hfil : ((gmOf s.h id).filter fun e => e.1 ≠ k) = gmOf s.h id := by
          apply filter_ne_of_not_any
          rw [← mapHas_absGm s.h F]; exact hmk
        rw [hfil, ht0]
        simp only [deliver, hpf]
        rw [hcells, List.map_append, ht0]
        simp only [List.map_cons, List.map_nil, hc, cellEntry, Option.map]
        rw [lastKey_append_single, setLast_append_single]
        simp only [mapInsert_of_not_has _ hmk]
      | init => obtain ⟨h, fr, rt, w⟩ := s; simp only at hfr; subst hfr; rfl
      | midKey => obtain ⟨h, fr, rt, w⟩ := s; simp only at hfr; subst hfr; rfl
      | expectValue => obtain ⟨h, fr, rt, w⟩ := s; simp only at hfr; subst hfr; rfl
    | list id ph =>
      cases ph with
      | init => obtain ⟨h, fr, rt, w⟩ := s; simp only at hfr; subst hfr; rfl
      | midValue =>
        have hidm : id ∈ frameIds s.frames := by simp [hfr, frameIds, HFrame.id]
        have hlt := hi.ids_lt id (List.mem_append_left _ hidm)
        have hnf := hi.ids_unfin id (List.mem_append_left _ hidm)
        have hk : (objAt s.h id).isMap = false :=
          hi.kinds (id, false) (by simp [hfr, HFrame.key, HFrame.id, HFrame.isMap])
        obtain ⟨x, ho⟩ := isMap_false_iff hk
        have hc : CellGood s.h.finished (objAt s.h id).isMap (.item v) := by
          rw [hk]; refine ⟨trivial, ?_⟩
          intro w hw; simp [Cell.ref] at hw; subst hw; exact hv
        rw [hdeliver_list_eq v hfr ho]
        rw [toPure_mod (id := id) F hi hfr rfl (hAppend_mod hi.heap hlt hnf hc)]
        rw [absFrame_hAppend_list F hi.heap hlt hnf hk hv]
        simp [deliver, toPure, hfr, absFrame]


/-! ### marking finished does not change what is read -/

theorem absRef_hFinish (h : H) (id : Nat) (F : Nat) (v : NRef) :
    absRef (hFinish h id) F v = absRef h F v :=
  absRef_congr_ref (fun _ => True) (fun j _ => hFinish_same h id j) (fun _ _ _ _ _ _ => trivial) F v
    (fun _ _ => trivial)

theorem absFrame_hFinish (h : H) (id : Nat) (F : Nat) (f : HFrame) :
    absFrame (hFinish h id) F f = absFrame h F f := by
  have e1 : cellEntry (hFinish h id) F = cellEntry h F := by
    funext c
    cases c with
    | entry k v => cases v <;> simp [cellEntry, absRef_hFinish]
    | _ => rfl
  have e2 : itemVal (hFinish h id) F = itemVal h F := by
    funext c
    cases c with
    | item v => simp [itemVal, absRef_hFinish]
    | _ => rfl
  have e3 : ∀ g, absGm (hFinish h id) F g = absGm h F g := by
    intro g; simp [absGm, absRef_hFinish]
  cases f with
  | map j ph => 
    simp only [absFrame, e1, e3]; rfl
  | list j ph => 
    simp only [absFrame, e2]; rfl

theorem toPure_markFin (F : Nat) (s : HSt) (id : Nat) (rest : List HFrame) :
    toPure F (markFin s id rest) = { toPure F s with frames := rest.map (absFrame s.h F) } := by
  simp only [toPure, markFin]
  congr 1
  · apply List.map_congr_left; intro f _; exact absFrame_hFinish _ _ _ _
  · cases s.root with
    | none => rfl
    | some v => simp [absRef_hFinish]

/-- with enough fuel, the value of a finished map/list object is built from the values of its cells
    read with the same fuel -/
theorem absRef_obj_full {h : H} (hi : HeapInv h) {id : Nat} (hlt : id < h.objs.length) {F : Nat}
    (hF : h.finished.length < F) :
    absRef h F (.obj id) =
      if (objAt h id).isMap then .map (DMKVs.ofList (tableEntries ((cellsOf h id).map (cellEntry h F))))
      else .list (DMs.ofList ((cellsOf h id).filterMap (itemVal h F))) := by
  obtain ⟨F', rfl⟩ : ∃ F', F = F' + 1 := ⟨F - 1, by omega⟩
  rw [absRef_succ, tableEntries_cellEntry]
  have e1 : (cellsOf h id).filterMap (entryVal h F') = (cellsOf h id).filterMap (entryVal h (F' + 1)) := by
    apply filterMap_congr'
    intro c hc
    cases c with
    | entry k v =>
      cases v with
      | none => rfl
      | some v =>
        simp only [entryVal]
        rw [hi.absRef_fuel ((hi.cells id hlt _ hc).2 v rfl) (F := F') (F' := F' + 1) (by omega) (by omega)]
    | _ => rfl
  have e2 : (cellsOf h id).filterMap (itemVal h F') = (cellsOf h id).filterMap (itemVal h (F' + 1)) := by
    apply filterMap_congr'
    intro c hc
    cases c with
    | item v =>
      simp only [itemVal]
      rw [hi.absRef_fuel ((hi.cells id hlt _ hc).2 v rfl) (F := F') (F' := F' + 1) (by omega) (by omega)]
    | _ => rfl
  rw [e1, e2]

theorem absRef_hCopy {h : H} (hi : HeapInv h) {src : Nat} (hs : src ∈ h.finished) (F : Nat) :
    absRef (hCopy h src) F (.obj h.objs.length) = absRef h F (.obj src) := by
  have e := hCopy_ext h src
  have hsl := hi.fin_lt src hs
  cases F with
  | zero => rfl
  | succ F' =>
    have hst := e.absStable hi F'
    have hcn : cellsOf (hCopy h src) h.objs.length = cellsOf h src := by
      unfold cellsOf; rw [e.objAt_new]; simp only [sliceCells_eq]; rw [e.arrAt_old (hi.wf src hsl).1]
    rw [absRef_succ, absRef_succ, e.objAt_new, hcn]
    have e1 : (cellsOf h src).filterMap (entryVal (hCopy h src) F') = (cellsOf h src).filterMap (entryVal h F') := by
      apply filterMap_congr'
      intro c hc
      cases c with
      | entry k v =>
        cases v with
        | none => rfl
        | some v => simp only [entryVal]; rw [hst v ((hi.cells src hsl _ hc).2 v rfl)]
      | _ => rfl
    have e2 : (cellsOf h src).filterMap (itemVal (hCopy h src) F') = (cellsOf h src).filterMap (itemVal h F') := by
      apply filterMap_congr'
      intro c hc; exact itemVal_stable hst (hi.cells src hsl c hc)
    rw [e1, e2]


theorem toPure_pushMap {others : List Nat} {s : HSt} (F : Nat) (hint : Int) (hi : HInvO others s) :
    toPure F (pushMap s hint) = { toPure F s with frames := .map [] [] .init :: (toPure F s).frames } := by
  have he := hNewMap_ext s.h (hintCap hint)
  obtain ⟨e1, e2⟩ := toPure_ext F hi he rfl
  have hnew : absFrame (hNewMap s.h (hintCap hint)) F (.map s.h.objs.length .init) = .map [] [] .init := by
    have hc : cellsOf (hNewMap s.h (hintCap hint)) s.h.objs.length = [] := by
      unfold cellsOf; rw [he.objAt_new]; simp [sliceCells_eq, Obj.slice]
    have hg : gmOf (hNewMap s.h (hintCap hint)) s.h.objs.length = [] := by
      unfold gmOf; rw [he.objAt_new]
      simp only [Obj.gm, gmAt, hNewMap]; rw [getD_append_len]
    simp only [absFrame, hc, hg]; rfl
  simp only [toPure, pushMap, List.map_cons, hnew, e1, e2]

theorem toPure_pushList {others : List Nat} {s : HSt} (F : Nat) (hint : Int) (hi : HInvO others s) :
    toPure F (pushList s hint) = { toPure F s with frames := .list [] .init :: (toPure F s).frames } := by
  have he := hNewList_ext s.h (hintCap hint)
  obtain ⟨e1, e2⟩ := toPure_ext F hi he rfl
  have hnew : absFrame (hNewList s.h (hintCap hint)) F (.list s.h.objs.length .init) = .list [] .init := by
    have hc : cellsOf (hNewList s.h (hintCap hint)) s.h.objs.length = [] := by
      unfold cellsOf; rw [he.objAt_new]; simp [sliceCells_eq, Obj.slice]
    simp only [absFrame, hc]; rfl
  simp only [toPure, pushList, List.map_cons, hnew, e1, e2]

theorem toPure_shortcut {others : List Nat} {s : HSt} {src : Nat} (F : Nat) (hi : HInvO others s)
    (hf : s.frames = []) (hs : src ∈ s.h.finished) :
    toPure F (doShortcut s src) = { toPure F s with root := some (absRef s.h F (.obj src)) } := by
  simp only [toPure, doShortcut, hf, List.map_nil, Option.map, absRef_hCopy hi.heap hs]

theorem toPure_addEntry {others : List Nat} {s : HSt} {id : Nat} {rest : List HFrame} {ph0 : MPhase}
    (F : Nat) (k : Bytes) (ph : MPhase) (hi : HInvO others s) (hf : s.frames = .map id ph0 :: rest) :
    toPure F (addEntry s id k ph rest) =
      { toPure F s with frames := (Frame.map ((cellsOf s.h id).map (cellEntry s.h F) ++ [(k, none)])
          (absGm s.h F (gmOf s.h id)) ph :: rest.map (absFrame s.h F)) } := by
  have hidm : id ∈ frameIds s.frames := by simp [hf, frameIds, HFrame.id]
  have hlt := hi.ids_lt id (List.mem_append_left _ hidm)
  have hnf := hi.ids_unfin id (List.mem_append_left _ hidm)
  have hk : (objAt s.h id).isMap = true :=
    hi.kinds (id, true) (by simp [hf, HFrame.key, HFrame.id, HFrame.isMap])
  have hc : CellGood s.h.finished (objAt s.h id).isMap (.entry k none) := by
    rw [hk]; exact ⟨trivial, by intro w hw; simp [Cell.ref] at hw⟩
  unfold addEntry
  rw [toPure_mod (id := id) F hi hf rfl (hAppend_mod hi.heap hlt hnf hc)]
  rw [absFrame_hAppend_map F hi.heap hlt hnf hk]

theorem gomapHas_eq {h : H} {id : Nat} {t : Slice} {m : Nat} (F : Nat) (k : Bytes)
    (ho : objAt h id = .map t m) : mapHas (absGm h F (gmOf h id)) k = gomapHas h m k := by
  rw [mapHas_absGm]
  unfold gmOf gomapHas; rw [ho]; rfl

theorem toPure_hstep {others : List Nat} {s : HSt} {op : HOp} (F : Nat) (hi : HInvO others s)
    (hw : OpWf s op) (hp : PInv (toPure F s)) (hF : s.h.finished.length < F) :
    toPure F (hstep s op) = astep (toPure F s) (absRef s.h F) op := by
  cases op with
  | reset => rfl
  | beginMap hint =>
    rw [hstep_beginMap]; simp only [astep, pvaluePos_toPure]
    split
    · exact toPure_pushMap F hint hi
    · rfl
  | beginList hint =>
    rw [hstep_beginList]; simp only [astep, pvaluePos_toPure]
    split
    · exact toPure_pushList F hint hi
    · rfl
  | assignScalar d =>
    rw [hstep_assignScalar]; simp only [astep, pvaluePos_toPure]
    split
    · rw [toPure_hdeliver (v := .scalar d) F hi trivial hp, absRef_scalar]
    · rfl
  | assignNode r =>
    rw [hstep_assignNode]; simp only [astep, pvaluePos_toPure]
    split
    · refine toPure_hdeliver F hi ?_ hp
      cases r with
      | scalar d => trivial
      | obj id => exact hw
    · rfl
  | assignNodeShortcut src =>
    rw [hstep_shortcut]; simp only [astep]
    by_cases hc : s.frames = [] ∧ s.root = none
    · rw [if_pos hc, toPure_shortcut F hi hc.1 hw]
      simp [toPure, hc.1, hc.2]
    · rw [if_neg hc]
      have : ¬ ((toPure F s).frames.isEmpty && (toPure F s).root.isNone) = true := by
        intro hh; apply hc
        simp only [toPure, Bool.and_eq_true, List.isEmpty_iff, List.map_eq_nil_iff, Option.isNone_iff_eq_none,
          Option.map_eq_none_iff] at hh
        exact hh
      rw [if_neg this]
  | assembleKey =>
    obtain ⟨h, fr, rt, w⟩ := s
    cases fr with
    | nil => rfl
    | cons f rest =>
      cases f with
      | map id ph => cases ph <;> rfl
      | list id ph => cases ph <;> rfl
  | assembleValue =>
    obtain ⟨h, fr, rt, w⟩ := s
    cases fr with
    | nil => rfl
    | cons f rest =>
      cases f with
      | map id ph => cases ph <;> rfl
      | list id ph => cases ph <;> rfl
  | assembleEntry k =>
    cases hfr : s.frames with
    | nil => obtain ⟨h, fr, rt, w⟩ := s; simp only at hfr; subst hfr; rfl
    | cons f rest =>
      cases f with
      | list id ph => obtain ⟨h, fr, rt, w⟩ := s; simp only at hfr; subst hfr; cases ph <;> rfl
      | map id ph =>
        cases ph with
        | init =>
          have hk : (objAt s.h id).isMap = true :=
            hi.kinds (id, true) (by simp [hfr, HFrame.key, HFrame.id, HFrame.isMap])
          obtain ⟨t, m, ho⟩ := isMap_true_iff hk
          have hpf : (toPure F s).frames = .map ((cellsOf s.h id).map (cellEntry s.h F))
              (absGm s.h F (gmOf s.h id)) .init :: rest.map (absFrame s.h F) := by
            simp [toPure, hfr, absFrame]
          have hs : hstep s (.assembleEntry k) =
              if gomapHas s.h m k then s else addEntry s id k .midValue rest := by
            rw [addEntry_eq k _ rest ho]
            obtain ⟨h, fr, rt, w⟩ := s
            simp only at hfr ho; subst hfr
            have ho' : h.objs.getD id default = .map t m := ho
            simp only [hstep, ho']
          rw [hs]
          simp only [astep, hpf, gomapHas_eq F k ho]
          split
          · rfl
          · exact toPure_addEntry F k _ hi hfr
        | midKey => obtain ⟨h, fr, rt, w⟩ := s; simp only at hfr; subst hfr; rfl
        | expectValue => obtain ⟨h, fr, rt, w⟩ := s; simp only at hfr; subst hfr; rfl
        | midValue => obtain ⟨h, fr, rt, w⟩ := s; simp only at hfr; subst hfr; rfl
  | keyString k =>
    cases hfr : s.frames with
    | nil => obtain ⟨h, fr, rt, w⟩ := s; simp only at hfr; subst hfr; rfl
    | cons f rest =>
      cases f with
      | list id ph => obtain ⟨h, fr, rt, w⟩ := s; simp only at hfr; subst hfr; cases ph <;> rfl
      | map id ph =>
        cases ph with
        | midKey =>
          have hk : (objAt s.h id).isMap = true :=
            hi.kinds (id, true) (by simp [hfr, HFrame.key, HFrame.id, HFrame.isMap])
          obtain ⟨t, m, ho⟩ := isMap_true_iff hk
          have hpf : (toPure F s).frames = .map ((cellsOf s.h id).map (cellEntry s.h F))
              (absGm s.h F (gmOf s.h id)) .midKey :: rest.map (absFrame s.h F) := by
            simp [toPure, hfr, absFrame]
          have hs : hstep s (.keyString k) =
              if gomapHas s.h m k then { s with frames := .map id .init :: rest }
              else addEntry s id k .expectValue rest := by
            rw [addEntry_eq k _ rest ho]
            obtain ⟨h, fr, rt, w⟩ := s
            simp only at hfr ho; subst hfr
            have ho' : h.objs.getD id default = .map t m := ho
            simp only [hstep, ho']
          rw [hs]
          simp only [astep, hpf, gomapHas_eq F k ho]
          split
          · simp [toPure, hfr, absFrame]
          · exact toPure_addEntry F k _ hi hfr
        | init => obtain ⟨h, fr, rt, w⟩ := s; simp only at hfr; subst hfr; rfl
        | expectValue => obtain ⟨h, fr, rt, w⟩ := s; simp only at hfr; subst hfr; rfl
        | midValue => obtain ⟨h, fr, rt, w⟩ := s; simp only at hfr; subst hfr; rfl
  | finish =>
    cases hfr : s.frames with
    | nil => obtain ⟨h, fr, rt, w⟩ := s; simp only at hfr; subst hfr; rfl
    | cons f rest =>
      have fin : ∀ id, f.id = id → (∀ ph, f = .map id ph → ph = .init) → (∀ ph, f = .list id ph → ph = .init) →
          hstep s .finish = hdeliver (markFin s id rest) (.obj id) →
          toPure F (hstep s .finish) =
            (deliver { toPure F s with frames := rest.map (absFrame s.h F) } (absRef s.h F (.obj id))).1 := by
        intro id hid _ _ hs
        rw [hs]
        have hi' := markFin_inv hi hfr hid
        have hp' : PInv (toPure F (markFin s id rest)) := by
          rw [toPure_markFin]
          exact hp.tail (f := absFrame s.h F f) (by simp [toPure, hfr])
        rw [toPure_hdeliver F hi' (List.mem_cons_self ..) hp', toPure_markFin]
        simp only [markFin, absRef_hFinish]
      cases f with
      | map id ph =>
        cases ph with
        | init =>
          have hidm : id ∈ frameIds s.frames := by simp [hfr, frameIds, HFrame.id]
          have hlt := hi.ids_lt id (List.mem_append_left _ hidm)
          have hk : (objAt s.h id).isMap = true :=
            hi.kinds (id, true) (by simp [hfr, HFrame.key, HFrame.id, HFrame.isMap])
          have hs : hstep s .finish = hdeliver (markFin s id rest) (.obj id) := by
            obtain ⟨h, fr, rt, w⟩ := s; simp only at hfr; subst hfr; rfl
          rw [fin id rfl (by intro ph e; cases e; rfl) (by intro ph e; cases e) hs]
          rw [absRef_obj_full hi.heap hlt hF, hk]
          simp [astep, toPure, hfr, absFrame]
        | midKey => obtain ⟨h, fr, rt, w⟩ := s; simp only at hfr; subst hfr; rfl
        | expectValue => obtain ⟨h, fr, rt, w⟩ := s; simp only at hfr; subst hfr; rfl
        | midValue => obtain ⟨h, fr, rt, w⟩ := s; simp only at hfr; subst hfr; rfl
      | list id ph =>
        cases ph with
        | init =>
          have hidm : id ∈ frameIds s.frames := by simp [hfr, frameIds, HFrame.id]
          have hlt := hi.ids_lt id (List.mem_append_left _ hidm)
          have hk : (objAt s.h id).isMap = false :=
            hi.kinds (id, false) (by simp [hfr, HFrame.key, HFrame.id, HFrame.isMap])
          have hs : hstep s .finish = hdeliver (markFin s id rest) (.obj id) := by
            obtain ⟨h, fr, rt, w⟩ := s; simp only at hfr; subst hfr; rfl
          rw [fin id rfl (by intro ph e; cases e) (by intro ph e; cases e; rfl) hs]
          rw [absRef_obj_full hi.heap hlt hF, hk]
          simp [astep, toPure, hfr, absFrame]
        | midValue => obtain ⟨h, fr, rt, w⟩ := s; simp only at hfr; subst hfr; rfl


/-! ### the abstract step agrees with `Asm.step` when there is no misuse -/

/-- the pure call a heap-level call stands for (`reset` and the shortcut have none) -/
def trOp (val : NRef → DM) : HOp → Option Op
  | .beginMap n => some (.beginMap n)
  | .beginList n => some (.beginList n)
  | .assembleKey => some .assembleKey
  | .assembleValue => some .assembleValue
  | .assembleEntry k => some (.assembleEntry k)
  | .keyString k => some (.assign (.str k))
  | .assignScalar d => some (.assign d)
  | .assignNode r => some (.assignNode (val r))
  | .finish => some .finish
  | .reset => none
  | .assignNodeShortcut _ => none

def pmidKey (p : St) : Bool :=
  match p.frames with
  | .map _ _ .midKey :: _ => true
  | _ => false

/-- calls whose heap-level and pure readings differ: `keyString` is the key assembler's call and
    only that; `assignScalar` takes scalars -/
def PNoMisuse (p : St) : HOp → Prop
  | .reset => False
  | .assignNodeShortcut _ => False
  | .keyString _ => pmidKey p = true
  | .assignScalar d => isScalar d = true ∧ pmidKey p = false
  | .assignNode _ => pmidKey p = false
  | _ => True

theorem astep_eq_step {p : St} {val : NRef → DM} {op : HOp} {o : Op} (hpr : p.proto = .any)
    (ht : trOp val op = some o) (hm : PNoMisuse p op) : astep p val op = (step p o).1 := by
  obtain ⟨pr, fr, rt⟩ := p
  simp only at hpr; subst hpr
  cases op with
  | reset => cases ht
  | assignNodeShortcut src => cases ht
  | beginMap n =>
    cases ht
    cases fr with
    | nil => cases rt <;> simp [astep, step, valueCall, pvaluePos, Proto.accepts]
    | cons f rest =>
      cases f with
      | map t m ph => cases ph <;> simp [astep, step, valueCall, pvaluePos, Proto.accepts]
      | list x ph => cases ph <;> simp [astep, step, valueCall, pvaluePos, Proto.accepts]
  | beginList n =>
    cases ht
    cases fr with
    | nil => cases rt <;> simp [astep, step, valueCall, pvaluePos, Proto.accepts]
    | cons f rest =>
      cases f with
      | map t m ph => cases ph <;> simp [astep, step, valueCall, pvaluePos, Proto.accepts]
      | list x ph => cases ph <;> simp [astep, step, valueCall, pvaluePos, Proto.accepts]
  | assembleKey =>
    cases ht
    cases fr with
    | nil => cases rt <;> simp [astep, step, valueCall]
    | cons f rest =>
      cases f with
      | map t m ph => cases ph <;> simp [astep, step, valueCall]
      | list x ph => cases ph <;> simp [astep, step, valueCall]
  | assembleValue =>
    cases ht
    cases fr with
    | nil => cases rt <;> simp [astep, step, valueCall]
    | cons f rest =>
      cases f with
      | map t m ph => cases ph <;> simp [astep, step, valueCall]
      | list x ph => cases ph <;> simp [astep, step, valueCall]
  | assembleEntry k =>
    cases ht
    cases fr with
    | nil => cases rt <;> simp [astep, step, valueCall]
    | cons f rest =>
      cases f with
      | map t m ph =>
        cases ph <;> simp [astep, step, valueCall]
        split <;> rfl
      | list x ph => cases ph <;> simp [astep, step, valueCall]
  | finish =>
    cases ht
    cases fr with
    | nil => cases rt <;> simp [astep, step, valueCall]
    | cons f rest =>
      cases f with
      | map t m ph => cases ph <;> simp [astep, step, valueCall]
      | list x ph => cases ph <;> simp [astep, step, valueCall]
  | keyString k =>
    cases ht
    cases fr with
    | nil => simp [PNoMisuse, pmidKey] at hm
    | cons f rest =>
      cases f with
      | map t m ph =>
        cases ph <;> simp [PNoMisuse, pmidKey] at hm
        simp only [astep, step, supplyKey]
        split <;> rfl
      | list x ph => simp [PNoMisuse, pmidKey] at hm
  | assignScalar d =>
    cases ht
    obtain ⟨hs, hk⟩ := hm
    cases fr with
    | nil => cases rt <;> simp [astep, step, valueCall, pvaluePos, Proto.accepts, hs]
    | cons f rest =>
      cases f with
      | map t m ph =>
        cases ph <;> simp [pmidKey] at hk <;> simp [astep, step, valueCall, pvaluePos, Proto.accepts, hs]
      | list x ph => cases ph <;> simp [astep, step, valueCall, pvaluePos, Proto.accepts, hs]
  | assignNode r =>
    cases ht
    have hk : pmidKey _ = false := hm
    cases fr with
    | nil => cases rt <;> simp [astep, step, valueCall, pvaluePos, Proto.accepts]
    | cons f rest =>
      cases f with
      | map t m ph =>
        cases ph <;> simp [pmidKey] at hk <;> simp [astep, step, valueCall, pvaluePos, Proto.accepts]
      | list x ph => cases ph <;> simp [astep, step, valueCall, pvaluePos, Proto.accepts]


/-! ### refinement, one step and whole histories -/

def midKeyH (s : HSt) : Bool :=
  match s.frames with
  | .map _ .midKey :: _ => true
  | _ => false

/-- calls that mean the same at heap level and in the pure model: no `reset`, no shortcut, `keyString`
    exactly for the key assembler, `assignScalar` with a scalar -/
def NoMisuse (s : HSt) : HOp → Prop
  | .reset => False
  | .assignNodeShortcut _ => False
  | .keyString _ => midKeyH s = true
  | .assignScalar d => isScalar d = true ∧ midKeyH s = false
  | .assignNode _ => midKeyH s = false
  | _ => True

theorem pmidKey_toPure (F : Nat) (s : HSt) : pmidKey (toPure F s) = midKeyH s := by
  obtain ⟨h, fr, rt, w⟩ := s
  cases fr with
  | nil => rfl
  | cons f rest =>
    cases f with
    | map id ph => cases ph <;> rfl
    | list id ph => cases ph <;> rfl

theorem pnoMisuse_toPure {F : Nat} {s : HSt} {op : HOp} (h : NoMisuse s op) : PNoMisuse (toPure F s) op := by
  cases op <;> simp only [NoMisuse, PNoMisuse, pmidKey_toPure] at h ⊢ <;> exact h

/-- one well-formed call without misuse: the heap-level step is the pure step on the abstractions -/
theorem step_refines {others : List Nat} {s : HSt} {op : HOp} {o : Op} (F : Nat) (hi : HInvO others s)
    (hw : OpWf s op) (hp : PInv (toPure F s)) (hF : s.h.finished.length < F) (hm : NoMisuse s op)
    (ht : trOp (absRef s.h F) op = some o) : toPure F (hstep s op) = (step (toPure F s) o).1 := by
  rw [toPure_hstep F hi hw hp hF]
  exact astep_eq_step rfl ht (pnoMisuse_toPure hm)

theorem hdeliver_finished_eq (st : HSt) (v : NRef) : (hdeliver st v).h.finished = st.h.finished :=
  hdeliver_finished st v

theorem finished_length_mono (st : HSt) (op : HOp) :
    st.h.finished.length ≤ (hstep st op).h.finished.length := by
  have hr := hstep_rel st op
  generalize hstep st op = s' at hr ⊢
  cases hr with
  | noop => exact Nat.le_refl _
  | reset => exact Nat.le_refl _
  | beginMap hint hv => exact Nat.le_refl _
  | beginList hint hv => exact Nat.le_refl _
  | assignScalar d hv => rw [hdeliver_finished]; exact Nat.le_refl _
  | assignNode r hv => rw [hdeliver_finished]; exact Nat.le_refl _
  | shortcut src hf hr => simp [doShortcut, hCopy]
  | assembleKey id rest hf => exact Nat.le_refl _
  | assembleEntry id rest t m k hf ho hg => simp [addEntry, hAppend, appendSlice_finished]
  | keyDup id rest t m k hf ho hg => exact Nat.le_refl _
  | keyString id rest t m k hf ho hg => simp [addEntry, hAppend, appendSlice_finished]
  | mapValue id rest hf => exact Nat.le_refl _
  | listValue id rest hf => exact Nat.le_refl _
  | finishMap id rest hf => rw [hdeliver_finished]; simp [markFin, hFinish]
  | finishList id rest hf => rw [hdeliver_finished]; simp [markFin, hFinish]

theorem hrun_finished_length_mono (st : HSt) (ops : List HOp) :
    st.h.finished.length ≤ (hrun st ops).h.finished.length := by
  induction ops generalizing st with
  | nil => exact Nat.le_refl _
  | cons op ops ih => exact Nat.le_trans (finished_length_mono st op) (ih _)

/-- the pure history a heap-level history stands for (nodes handed in by reference are read in the
    heap of the moment) -/
def pureOps (F : Nat) : HSt → List HOp → List Op
  | _, [] => []
  | s, op :: ops => (trOp (absRef s.h F) op).toList ++ pureOps F (hstep s op) ops

def HistOk : HSt → List HOp → Prop
  | _, [] => True
  | s, op :: ops => NoMisuse s op ∧ HistOk (hstep s op) ops

/-- run the pure model, ignoring the outcomes -/
def steps (p : St) (os : List Op) : St := os.foldl (fun p o => (step p o).1) p

theorem toPure_proto (F : Nat) (s : HSt) : (toPure F s).proto = .any := rfl

theorem pinv_hstep {others : List Nat} {s : HSt} {op : HOp} (F : Nat) (hi : HInvO others s)
    (hw : OpWf s op) (hp : PInv (toPure F s)) (hF : s.h.finished.length < F) :
    PInv (toPure F (hstep s op)) := by
  rw [toPure_hstep F hi hw hp hF]; exact astep_pinv _ _ hp

theorem run_refines {others : List Nat} {s : HSt} {ops : List HOp} (F : Nat) (hi : HInvO others s)
    (hw : HistWf s ops) (hok : HistOk s ops) (hp : PInv (toPure F s))
    (hF : (hrun s ops).h.finished.length < F) :
    toPure F (hrun s ops) = steps (toPure F s) (pureOps F s ops) := by
  induction ops generalizing s with
  | nil => rfl
  | cons op ops ih =>
    have hF1 : s.h.finished.length < F :=
      Nat.lt_of_le_of_lt (hrun_finished_length_mono s (op :: ops)) hF
    have hi1 := hstep_inv hi hw.1
    have hp1 := pinv_hstep F hi hw.1 hp hF1
    simp only [hrun, pureOps]
    rw [ih hi1 hw.2 hok.2 hp1 hF]
    cases ht : trOp (absRef s.h F) op with
    | none =>
      have := hok.1
      cases op <;> simp [trOp] at ht <;> simp [NoMisuse] at this
    | some o =>
      rw [step_refines F hi hw.1 hp hF1 hok.1 ht]
      simp [steps]

theorem run_no_panic {p : St} {os : List Op} (h : Out.panic ∉ (run p os).2) : (run p os).1 = steps p os := by
  induction os generalizing p with
  | nil => rfl
  | cons o os ih =>
    cases hs : step p o with
    | mk p1 out =>
      cases out with
      | panic => rw [run_cons_panic os hs] at h; simp at h
      | ok =>
        rw [run_cons_ok os hs] at h ⊢
        simp only [List.mem_cons, not_or] at h
        simp only [steps, List.foldl_cons, hs]
        exact ih h.2
      | err c =>
        rw [run_cons_err os hs] at h ⊢
        simp only [List.mem_cons, not_or] at h
        simp only [steps, List.foldl_cons, hs]
        exact ih h.2

/-- `Build()` at heap level: the abstraction of the root once the builder is done -/
def hbuild (F : Nat) (s : HSt) : Option DM :=
  if s.frames.isEmpty then s.root.map (absRef s.h F) else none

theorem build_toPure (F : Nat) (s : HSt) : build (toPure F s) = hbuild F s := by
  simp [build, hbuild, toPure]

theorem pinv_init (F : Nat) : PInv (toPure F {}) := by
  intro f hf; cases hf

end Heap
end Ipld
