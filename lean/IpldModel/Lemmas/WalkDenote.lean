/-
  Consequences of the path-indexed denotation (`Spec/SelectorDenote.lean`) for particular selectors and for
  the order of `denote`: explore-everything selectors select every position of the graph (`nodeAt`,
  `preorder`), the depth-limited one every position above the limit, field selectors the named children;
  `denote` is sorted by `DocBefore`.  No walk in this file: these are facts about the spec alone.
-/
import IpldModel.Lemmas.WalkComplete
import IpldModel.Lemmas.WalkExamples
namespace Ipld
namespace Walk
open Sel Spec

/-! ### explore-everything selectors -/

/-- a selector that has no explicit interests, explores every child with itself again, and matches every
    node as it is: the explore-all-recursively selector `R(none, |[., a(@)])` is one -/
structure ExploresAll (s : S) : Prop where
  noInterests : interests s = none
  exploreSelf : ∀ n p, explore s n p = .ok (some s)
  matchesAll : ∀ n, matchNode s n = some n

theorem interests_seqAll : interests Ex.seqAll = none := by
  simp [Ex.seqAll, interests, unionInterests]

theorem explore_seqAll (n : DM) (p : Seg) : explore Ex.seqAll n p = .ok (some .edge) := by
  simp [Ex.seqAll, explore, exploreList, S.isEdge, bind, Except.bind, pure, Except.pure]

theorem matchNode_seqAll (n : DM) : matchNode Ex.seqAll n = some n := by
  simp [Ex.seqAll, matchNode, matchList]

theorem selAll_exploresAll : ExploresAll Ex.selAll := by
  refine ⟨?_, ?_, ?_⟩
  · simp [Ex.selAll, interests, interests_seqAll]
  · intro n p
    simp [Ex.selAll, explore, explore_seqAll, hasEdge, replaceEdge]
    simp [Ex.seqAll, S.isEdge]
  · intro n
    simp [Ex.selAll, matchNode, matchNode_seqAll]

/-- one step through the graph, selector-free -/
def nodeStep (store : Store) (n : DM) (seg : Seg) : Option DM :=
  if seg ∈ ownSegs n then (lookupBySegment n seg).bind (deref store) else none

theorem nodeAt_cons (store : Store) (root : DM) (seg : Seg) (rest : Path) :
    nodeAt store root (seg :: rest) = (nodeStep store root seg).bind fun n' => nodeAt store n' rest := by
  rw [nodeAt, nodeStep]
  split
  · cases (lookupBySegment root seg).bind (deref store) <;> rfl
  · rfl

theorem stepAt_noInterests {s : S} (hi : interests s = none) (store : Store) (n : DM) (seg : Seg) :
    stepAt store n s seg =
      match explore s n seg with
      | .ok (some s') => (nodeStep store n seg).map fun n' => (n', s')
      | _ => none := by
  unfold stepAt childAt segsAt nodeStep
  rw [hi]
  simp only [Option.getD_none]
  by_cases hm : seg ∈ ownSegs n
  · simp only [hm, if_true]
    cases lookupBySegment n seg with
    | none => simp only [Option.bind_none, Option.map_none]; split <;> rfl
    | some v => simp only [Option.bind_some]; split <;> simp_all
  · simp only [hm, if_false, Option.map_none]
    split <;> rfl

theorem stepAt_all {s : S} (hs : ExploresAll s) (store : Store) (n : DM) (seg : Seg) :
    stepAt store n s seg = (nodeStep store n seg).map fun n' => (n', s) := by
  rw [stepAt_noInterests hs.noInterests, hs.exploreSelf]

theorem selectorAt_all {s : S} (hs : ExploresAll s) (store : Store) : ∀ (p : Path) (root : DM),
    selectorAt store s root p = (nodeAt store root p).map fun n => (n, s)
  | [], root => rfl
  | seg :: rest, root => by
    rw [selectorAt_cons, nodeAt_cons, stepAt_all hs]
    cases nodeStep store root seg with
    | none => rfl
    | some n' => exact selectorAt_all hs store rest n'

theorem visitOf_all {s : S} (hs : ExploresAll s) (p : Path) (n : DM) : visitOf p n s = (p, n, .matched) := by
  unfold visitOf; rw [hs.matchesAll]

theorem preorder_succ (store : Store) (d : Nat) (path : Path) (n : DM) :
    preorder store (d + 1) path n =
      (path, n) :: (ownSegs n).flatMap fun seg =>
        match nodeStep store n seg with
        | some n' => preorder store d (path ++ [seg]) n'
        | none => [] := by
  rw [preorder]
  congr 1
  apply flatMap_congr'
  intro seg hseg
  simp only [nodeStep, hseg, if_true]
  rfl

theorem denoteFrom_all {s : S} (hs : ExploresAll s) (store : Store) : ∀ (d : Nat) (path : Path) (n : DM),
    denoteFrom store d path n s = (preorder store d path n).map fun x => (x.1, x.2, Reason.matched)
  | 0, _, _ => rfl
  | d + 1, path, n => by
    rw [denoteFrom_succ, preorder_succ, List.map_cons, List.map_flatMap, visitOf_all hs]
    congr 1
    have : segsAt n s = ownSegs n := by simp [segsAt, hs.noInterests]
    rw [this]
    apply flatMap_congr'
    intro seg _
    rw [stepAt_all hs]
    cases nodeStep store n seg with
    | none => rfl
    | some n' => exact denoteFrom_all hs store d (path ++ [seg]) n'

/-! ### the depth-limited explore-everything selector -/

/-- `R(depth d, |[., a(@)])` -/
def recAll (d : Int) : S := .recursive Ex.seqAll Ex.seqAll (some d) none

theorem interests_recAll (d : Int) : interests (recAll d) = none := by
  simp [recAll, interests, interests_seqAll]

theorem matchNode_recAll (d : Int) (n : DM) : matchNode (recAll d) n = some n := by
  simp [recAll, matchNode, matchNode_seqAll]

theorem explore_recAll (d : Int) (n : DM) (p : Seg) :
    explore (recAll d) n p = if d < 2 then .ok none else .ok (some (recAll (d - 1))) := by
  simp [recAll, explore, explore_seqAll, hasEdge, replaceEdge]
  simp [Ex.seqAll, S.isEdge]

theorem stepAt_recAll (store : Store) (d : Int) (n : DM) (seg : Seg) :
    stepAt store n (recAll d) seg =
      if d < 2 then none else (nodeStep store n seg).map fun n' => (n', recAll (d - 1)) := by
  rw [stepAt_noInterests (interests_recAll d), explore_recAll]
  by_cases hd : d < 2 <;> simp only [hd, if_true, if_false]

theorem selectorAt_recAll (store : Store) : ∀ (p : Path) (d : Int) (root : DM),
    selectorAt store (recAll d) root p =
      if p = [] ∨ (p.length : Int) < d then (nodeAt store root p).map fun n => (n, recAll (d - p.length)) else none
  | [], d, root => by simp [selectorAt_nil, nodeAt]
  | seg :: rest, d, root => by
    rw [selectorAt_cons, nodeAt_cons, stepAt_recAll]
    by_cases hd : d < 2
    · have : ¬ (seg :: rest = [] ∨ ((seg :: rest).length : Int) < d) := by
        simp only [List.length_cons]; rintro (h | h)
        · cases h
        · omega
      simp only [hd, if_true, this, if_false, Option.bind_none]
    · simp only [hd, if_false]
      cases nodeStep store root seg with
      | none => simp
      | some n' =>
        simp only [Option.map_some, Option.bind_some]
        rw [selectorAt_recAll store rest (d - 1) n']
        have e : d - 1 - (rest.length : Int) = d - ((seg :: rest).length : Int) := by
          simp only [List.length_cons]; omega
        rw [e]
        by_cases hr : rest = [] ∨ (rest.length : Int) < d - 1
        · have : seg :: rest = [] ∨ ((seg :: rest).length : Int) < d := by
            right; simp only [List.length_cons]
            rcases hr with rfl | h
            · simp; omega
            · omega
          simp only [hr, this, if_true]
        · have : ¬ (seg :: rest = [] ∨ ((seg :: rest).length : Int) < d) := by
            simp only [List.length_cons]; rintro (h | h)
            · cases h
            · exact hr (Or.inr (by omega))
          simp only [hr, this, if_false]

/-! ### matchers and field selectors -/

theorem selectorAt_matcher (store : Store) (sl : Option (Int × Int)) (root : DM) (p : Path) :
    selectorAt store (.matcher sl) root p = if p = [] then some (root, .matcher sl) else none := by
  cases p with
  | nil => rfl
  | cons seg rest =>
    rw [selectorAt_cons]
    have : stepAt store root (.matcher sl) seg = none := by
      simp [stepAt, childAt, segsAt, interests]
    rw [this]; simp

/-- the keys a field selector names, in order -/
def fieldKeys (fs : SFields) : List Bytes := fs.toList.map (·.1)

theorem fieldInterests_eq : (fs : SFields) → fieldInterests fs = (fieldKeys fs).map .str
  | .nil => rfl
  | .cons k s r => by
    have ih := fieldInterests_eq r
    simp only [fieldInterests, fieldKeys, SFields.toList, List.map_cons, List.map_map] at ih ⊢
    rw [ih]

theorem mem_fieldInterests (fs : SFields) (seg : Seg) :
    seg ∈ fieldInterests fs ↔ ∃ k, seg = .str k ∧ k ∈ fieldKeys fs := by
  rw [fieldInterests_eq, List.mem_map]
  constructor
  · rintro ⟨k, hk, rfl⟩; exact ⟨k, rfl, hk⟩
  · rintro ⟨k, rfl, hk⟩; exact ⟨k, hk, rfl⟩

theorem fieldLookup_mem : (fs : SFields) → (k : Bytes) → (s : S) → fieldLookup fs k = some s → (k, s) ∈ fs.toList
  | .nil, _, _, h => by simp [fieldLookup] at h
  | .cons k' s' r, k, s, h => by
    simp only [fieldLookup] at h
    simp only [SFields.toList, List.mem_cons]
    split at h
    · rename_i s1 h1
      cases h
      exact Or.inr (fieldLookup_mem r k s h1)
    · split at h
      · rename_i hk; cases h; subst hk; exact Or.inl rfl
      · cases h

theorem fieldLookup_isSome : (fs : SFields) → (k : Bytes) → k ∈ fieldKeys fs → (fieldLookup fs k).isSome = true
  | .nil, _, h => by simp [fieldKeys, SFields.toList] at h
  | .cons k' s' r, k, h => by
    simp only [fieldKeys, SFields.toList, List.map_cons, List.mem_cons] at h
    simp only [fieldLookup]
    cases h1 : fieldLookup r k with
    | some x => rfl
    | none =>
      rcases h with rfl | h
      · simp
      · have := fieldLookup_isSome r k h
        rw [h1] at this; cases this

/-- one step under a field selector: the segment must be one of the named keys (as a string segment), present
    in the node; the residual selector is the one given for that key -/
theorem stepAt_fields (store : Store) (fs : SFields) (n : DM) (seg : Seg) (n' : DM) (s' : S) :
    stepAt store n (.fields fs) seg = some (n', s') ↔
      ∃ k v, seg = .str k ∧ k ∈ fieldKeys fs ∧ lookupBySegment n (.str k) = some v ∧ deref store v = some n' ∧
        fieldLookup fs k = some s' := by
  constructor
  · intro h
    obtain ⟨v, hm, hl, hx, hd⟩ := stepAt_some h
    simp only [segsAt, interests, Option.getD_some] at hm
    obtain ⟨k, rfl, hk⟩ := (mem_fieldInterests fs seg).1 hm
    simp only [explore, Seg.toString, Except.ok.injEq] at hx
    exact ⟨k, v, rfl, hk, hl, hd, hx⟩
  · rintro ⟨k, v, rfl, hk, hl, hd, hx⟩
    apply stepAt_of (v := v) _ hl _ hd
    · simp only [segsAt, interests, Option.getD_some]
      exact (mem_fieldInterests fs _).2 ⟨k, rfl, hk⟩
    · simp only [explore, Seg.toString, hx]

theorem selected_nil (store : Store) (s : S) (root : DM) : Selected store s root [] := rfl

theorem selected_cons (store : Store) (s : S) (root : DM) (seg : Seg) (rest : Path) :
    Selected store s root (seg :: rest) ↔
      ∃ n' s', stepAt store root s seg = some (n', s') ∧ Selected store s' n' rest := by
  unfold Selected
  rw [selectorAt_cons]
  cases stepAt store root s seg with
  | none => simp
  | some x =>
    obtain ⟨n', s'⟩ := x
    simp only [Option.bind_some, Option.some.injEq, Prod.mk.injEq]
    constructor
    · intro h; exact ⟨n', s', ⟨rfl, rfl⟩, h⟩
    · rintro ⟨_, _, ⟨rfl, rfl⟩, h⟩; exact h

theorem selected_fields (store : Store) (fs : SFields) (root : DM) (p : Path) :
    Selected store (.fields fs) root p ↔
      p = [] ∨ ∃ k rest v n' s', p = .str k :: rest ∧ k ∈ fieldKeys fs ∧ lookupBySegment root (.str k) = some v ∧
        deref store v = some n' ∧ fieldLookup fs k = some s' ∧ Selected store s' n' rest := by
  cases p with
  | nil => simp [selected_nil]
  | cons seg rest =>
    rw [selected_cons]
    constructor
    · rintro ⟨n', s', hstep, hsel⟩
      obtain ⟨k, v, rfl, hk, hl, hd, hx⟩ := (stepAt_fields store fs root seg n' s').1 hstep
      exact Or.inr ⟨k, rest, v, n', s', rfl, hk, hl, hd, hx, hsel⟩
    · rintro (h | ⟨k, rest', v, n', s', hp, hk, hl, hd, hx, hsel⟩)
      · cases h
      · cases hp
        exact ⟨n', s', (stepAt_fields store fs root _ n' s').2 ⟨k, v, rfl, hk, hl, hd, hx⟩, hsel⟩

theorem selected_matcher (store : Store) (sl : Option (Int × Int)) (root : DM) (p : Path) :
    Selected store (.matcher sl) root p ↔ p = [] := by
  unfold Selected
  rw [selectorAt_matcher]
  by_cases h : p = [] <;> simp [h]

/-- every field's selector is a matcher -/
def AllMatchers (fs : SFields) : Prop := ∀ e ∈ fs.toList, ∃ sl, e.2 = .matcher sl

/-- a field selector with matcher leaves selects the root and the named children that exist (and, when links,
    can be loaded) -/
theorem selected_fields_matchers (store : Store) (fs : SFields) (hfs : AllMatchers fs) (root : DM) (p : Path) :
    Selected store (.fields fs) root p ↔
      p = [] ∨ ∃ k v, p = [.str k] ∧ k ∈ fieldKeys fs ∧ lookupBySegment root (.str k) = some v ∧
        (deref store v).isSome = true := by
  rw [selected_fields]
  constructor
  · rintro (h | ⟨k, rest, v, n', s', rfl, hk, hl, hd, hx, hsel⟩)
    · exact Or.inl h
    · obtain ⟨sl, hsl⟩ := hfs _ (fieldLookup_mem fs k s' hx)
      simp only at hsl
      subst hsl
      rw [selected_matcher] at hsel
      subst hsel
      exact Or.inr ⟨k, v, rfl, hk, hl, by rw [hd]; rfl⟩
  · rintro (h | ⟨k, v, rfl, hk, hl, hd⟩)
    · exact Or.inl h
    · right
      cases hd' : deref store v with
      | none => rw [hd'] at hd; cases hd
      | some n' =>
        cases hx : fieldLookup fs k with
        | none => have := fieldLookup_isSome fs k hk; rw [hx] at this; cases this
        | some s' => exact ⟨k, [], v, n', s', rfl, hk, hl, hd', hx, selected_nil _ _ _⟩

/-! ### document order of `denote` -/

theorem denoteFrom_path_prefix (store : Store) (d : Nat) (path : Path) (n : DM) (s : S) (q : Path)
    (h : q ∈ (denoteFrom store d path n s).map (·.1)) : ∃ t, q = path ++ t := by
  obtain ⟨x, hx, rfl⟩ := List.mem_map.1 h
  obtain ⟨t, n', s', _, _, rfl⟩ := (mem_denoteFrom store d path n s x).1 hx
  exact ⟨t, visitOf_fst _ _ _⟩

/-- the part of `denoteFrom` below one segment -/
def denoteSeg (store : Store) (d : Nat) (path : Path) (n : DM) (s : S) (seg : Seg) : List (Path × DM × Reason) :=
  match stepAt store n s seg with
  | some (n', s') => denoteFrom store d (path ++ [seg]) n' s'
  | none => []

theorem denoteSeg_path (store : Store) (d : Nat) (path : Path) (n : DM) (s : S) (seg : Seg) (q : Path)
    (h : q ∈ (denoteSeg store d path n s seg).map (·.1)) : ∃ t, q = path ++ seg :: t := by
  unfold denoteSeg at h
  split at h
  · obtain ⟨t, rfl⟩ := denoteFrom_path_prefix _ _ _ _ _ _ h
    exact ⟨t, by simp⟩
  · cases h

theorem denoteFrom_sorted (store : Store) (s0 : S) (root : DM) : ∀ (d : Nat) (path : Path) (n : DM) (s : S),
    selectorAt store s0 root path = some (n, s) →
      ((denoteFrom store d path n s).map (·.1)).Pairwise (DocBefore store s0 root)
  | 0, _, _, _, _ => List.Pairwise.nil
  | d + 1, path, n, s, hsel => by
    have hd : denoteFrom store (d + 1) path n s = visitOf path n s :: (segsAt n s).flatMap (denoteSeg store d path n s) :=
      rfl
    rw [hd, List.map_cons, visitOf_fst, List.pairwise_cons]
    constructor
    · intro q hq
      rw [List.map_flatMap, List.mem_flatMap] at hq
      obtain ⟨seg, _, hq⟩ := hq
      obtain ⟨t, rfl⟩ := denoteSeg_path _ _ _ _ _ _ _ hq
      exact Or.inl ⟨seg :: t, by simp, rfl⟩
    · -- the children, one suffix of `segsAt n s` at a time
      have key : ∀ (suf pre : List Seg), segsAt n s = pre ++ suf →
          ((suf.flatMap (denoteSeg store d path n s)).map (·.1)).Pairwise (DocBefore store s0 root) := by
        intro suf
        induction suf with
        | nil => intro _ _; exact List.Pairwise.nil
        | cons seg suf ih =>
          intro pre hpre
          rw [List.flatMap_cons, List.map_append, List.pairwise_append]
          refine ⟨?_, ih (pre ++ [seg]) (by rw [hpre]; simp), ?_⟩
          · unfold denoteSeg
            cases hstep : stepAt store n s seg with
            | none => exact List.Pairwise.nil
            | some y =>
              obtain ⟨n', s'⟩ := y
              apply denoteFrom_sorted store s0 root d (path ++ [seg]) n' s'
              rw [selectorAt_snoc, hsel]; exact hstep
          · intro a ha b hb
            obtain ⟨ta, rfl⟩ := denoteSeg_path _ _ _ _ _ _ _ ha
            rw [List.map_flatMap, List.mem_flatMap] at hb
            obtain ⟨seg', hseg', hb⟩ := hb
            obtain ⟨tb, rfl⟩ := denoteSeg_path _ _ _ _ _ _ _ hb
            obtain ⟨l2, l3, rfl⟩ := List.append_of_mem hseg'
            refine Or.inr ⟨path, seg, seg', ta, tb, n, s, rfl, rfl, hsel, pre.length, pre.length + 1 + l2.length,
              by omega, ?_, ?_⟩
            · rw [hpre]; simp
            · rw [hpre, List.getElem?_append_right (by omega)]
              have : pre.length + 1 + l2.length - pre.length = l2.length + 1 := by omega
              rw [this, List.getElem?_cons_succ, List.getElem?_append_right (Nat.le_refl _)]
              simp
      exact key (segsAt n s) [] rfl

theorem denote_sorted (store : Store) (d : Nat) (s : S) (root : DM) :
    ((denote store d s root).map (·.1)).Pairwise (DocBefore store s root) :=
  denoteFrom_sorted store s root d [] root s rfl

/-! ### `DocBefore` is a strict order on the selected paths when no position tries a segment twice -/

/-- no selected position tries the same segment twice -/
def SegsNodup (store : Store) (s : S) (root : DM) : Prop :=
  ∀ q n s', selectorAt store s root q = some (n, s') → (segsAt n s').Nodup

theorem triedBefore_ne {l : List Seg} (hl : l.Nodup) {a b : Seg} (h : TriedBefore l a b) : a ≠ b := by
  obtain ⟨i, j, hij, hi, hj⟩ := h
  rintro rfl
  have hlen : i < l.length := by
    rcases Nat.lt_or_ge i l.length with h | h
    · exact h
    · rw [List.getElem?_eq_none h] at hi; cases hi
  have := (List.getElem?_inj hlen hl).1 (hi.trans hj.symm)
  omega

theorem triedBefore_asymm {l : List Seg} (hl : l.Nodup) {a b : Seg} (h : TriedBefore l a b) :
    ¬ TriedBefore l b a := by
  obtain ⟨i, j, hij, hi, hj⟩ := h
  rintro ⟨i', j', hij', hi', hj'⟩
  have len : ∀ {k : Nat} {x : Seg}, l[k]? = some x → k < l.length := by
    intro k x h
    rcases Nat.lt_or_ge k l.length with h' | h'
    · exact h'
    · rw [List.getElem?_eq_none h'] at h; cases h
  have e1 := (List.getElem?_inj (len hi) hl).1 (hi.trans hj'.symm)
  have e2 := (List.getElem?_inj (len hj) hl).1 (hj.trans hi'.symm)
  omega

/-- two paths that part ways at `r` (through `a ≠ b`) part ways nowhere else -/
theorem diverge_unique : ∀ (r r2 : Path) {a b a2 b2 : Seg} {p' q' p2 q2 : Path},
    r ++ a :: p' = r2 ++ a2 :: p2 → r ++ b :: q' = r2 ++ b2 :: q2 → a ≠ b → a2 ≠ b2 →
      r = r2 ∧ a = a2 ∧ b = b2
  | [], [], _, _, _, _, _, _, _, _, h1, h2, _, _ => by
    simp only [List.nil_append, List.cons.injEq] at h1 h2
    exact ⟨rfl, h1.1, h2.1⟩
  | [], x :: r2, _, _, _, _, _, _, _, _, h1, h2, hab, _ => by
    simp only [List.nil_append, List.cons_append, List.cons.injEq] at h1 h2
    exact absurd (h1.1.trans h2.1.symm) hab
  | x :: r, [], _, _, _, _, _, _, _, _, h1, h2, _, hab2 => by
    simp only [List.nil_append, List.cons_append, List.cons.injEq] at h1 h2
    exact absurd (h1.1.symm.trans h2.1) hab2
  | x :: r, y :: r2, _, _, _, _, _, _, _, _, h1, h2, hab, hab2 => by
    simp only [List.cons_append, List.cons.injEq] at h1 h2
    obtain ⟨e, h3, h4⟩ := diverge_unique r r2 h1.2 h2.2 hab hab2
    exact ⟨by rw [h1.1, e], h3, h4⟩

theorem docBefore_asymm {store : Store} {s : S} {root : DM} (hnd : SegsNodup store s root) {p q : Path}
    (h : DocBefore store s root p q) : ¬ DocBefore store s root q p := by
  intro h'
  rcases h with ⟨t, ht, rfl⟩ | ⟨r, a, b, p', q', n, s', rfl, rfl, hsel, htb⟩
  · rcases h' with ⟨t', ht', h'⟩ | ⟨r, a, b, p', q', n, s', hq, hp, hsel, htb⟩
    · have := congrArg List.length h'
      simp only [List.length_append] at this
      have : t.length = 0 := by omega
      exact ht (List.length_eq_zero_iff.1 this)
    · subst hp
      rw [List.append_assoc, List.cons_append] at hq
      have := List.append_cancel_left hq
      simp only [List.cons.injEq] at this
      exact triedBefore_ne (hnd _ _ _ hsel) htb this.1.symm
  · have hab := triedBefore_ne (hnd _ _ _ hsel) htb
    rcases h' with ⟨t', ht', h'⟩ | ⟨r2, a2, b2, p2, q2, n2, s2, hq, hp, hsel2, htb2⟩
    · rw [List.append_assoc, List.cons_append] at h'
      have := List.append_cancel_left h'
      simp only [List.cons.injEq] at this
      exact hab this.1
    · have hab2 := triedBefore_ne (hnd _ _ _ hsel2) htb2
      obtain ⟨rfl, rfl, rfl⟩ := diverge_unique r r2 hp hq hab (fun h => hab2 h.symm)
      rw [hsel] at hsel2
      cases hsel2
      exact triedBefore_asymm (hnd _ _ _ hsel) htb htb2

theorem docBefore_irrefl {store : Store} {s : S} {root : DM} (hnd : SegsNodup store s root) (p : Path) :
    ¬ DocBefore store s root p p :=
  fun h => docBefore_asymm hnd h h

/-- a list sorted by document order that holds every selected path of depth `< d` and nothing else IS the
    path list of `denote` -/
theorem denote_unique {store : Store} {s : S} {root : DM} (hnd : SegsNodup store s root) (d : Nat) (L : List Path)
    (hmem : ∀ p, p ∈ L ↔ (Selected store s root p ∧ p.length < d))
    (hsorted : L.Pairwise (DocBefore store s root)) : L = (denote store d s root).map (·.1) := by
  have hs2 := denote_sorted store d s root
  have nd : ∀ {l : List Path}, l.Pairwise (DocBefore store s root) → l.Nodup :=
    fun h => List.Pairwise.imp (fun {a b} hab => by rintro rfl; exact docBefore_irrefl hnd a hab) h
  apply List.Perm.eq_of_pairwise (le := DocBefore store s root)
  · intro a b _ _ h1 h2; exact absurd h2 (docBefore_asymm hnd h1)
  · exact hsorted
  · exact hs2
  · rw [List.perm_ext_iff_of_nodup (nd hsorted) (nd hs2)]
    intro p
    rw [hmem, List.mem_map]
    constructor
    · rintro ⟨hsel, hlen⟩
      unfold Selected at hsel
      cases hx : selectorAt store s root p with
      | none => rw [hx] at hsel; cases hsel
      | some y =>
        obtain ⟨n, s'⟩ := y
        exact ⟨visitOf p n s', (mem_denote store d s root _).2 ⟨n, s', by rw [visitOf_fst]; exact hlen,
          by rw [visitOf_fst]; exact hx, by rw [visitOf_fst]⟩, visitOf_fst _ _ _⟩
    · rintro ⟨x, hx, rfl⟩
      obtain ⟨n, s', hlen, hsel, _⟩ := (mem_denote store d s root x).1 hx
      exact ⟨by unfold Selected; rw [hsel]; rfl, hlen⟩

end Walk
end Ipld
