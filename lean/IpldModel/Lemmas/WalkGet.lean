/-
  The walk against path resolution: the node the walk visits at a path is the node `get` resolves the path to.
-/
import IpldModel.Lemmas.WalkOrder
import IpldModel.Lemmas.Path
namespace Ipld
namespace Walk
open Sel

theorem noDupVals_mem : (es : DMKVs) → es.NoDupVals → ∀ e ∈ es.toList, e.2.NoDup
  | .nil, _, e, he => by simp [DMKVs.toList] at he
  | .cons k v es, h, e, he => by
    simp only [DMKVs.NoDupVals] at h
    simp only [DMKVs.toList, List.mem_cons] at he
    rcases he with rfl | he
    · exact h.1
    · exact noDupVals_mem es h.2 e he

theorem noDupList_mem : (xs : DMs) → xs.NoDup → ∀ x ∈ xs.toList, x.NoDup
  | .nil, _, x, hx => by simp [DMs.toList] at hx
  | .cons y ys, h, x, hx => by
    simp only [DMs.NoDup] at h
    simp only [DMs.toList, List.mem_cons] at hx
    rcases hx with rfl | hx
    · exact h.1
    · exact noDupList_mem ys h.2 x hx

theorem zipIdx_getElem? {α} {l : List α} {e : α × Nat} (h : e ∈ l.zipIdx) : l[e.2]? = some e.1 := by
  have := List.mem_zipIdx h
  simp only [Nat.zero_add, Nat.sub_zero] at this
  obtain ⟨_, h1, h2⟩ := this
  rw [List.getElem?_eq_getElem h1, h2]

theorem children_noDup {n : DM} (hn : n.NoDup) {ps : Seg} {v : DM} (h : (ps, v) ∈ children n) : v.NoDup := by
  cases n with
  | map es =>
    simp only [children, List.mem_map] at h
    obtain ⟨e, he, heq⟩ := h
    cases heq
    simp only [DM.NoDup] at hn
    exact noDupVals_mem es hn.2 e he
  | list xs =>
    simp only [children, List.mem_map] at h
    obtain ⟨e, he, heq⟩ := h
    cases heq
    simp only [DM.NoDup] at hn
    exact noDupList_mem xs hn e.1 (List.mem_of_getElem? (zipIdx_getElem? he))
  | _ => simp [children] at h

/-! ### one step of `get` against the children the walk iterates / looks up -/

theorem find_of_nodup_keys : (l : List (Bytes × DM)) → (l.map (·.1)).Nodup → ∀ e ∈ l,
    l.find? (fun e' => e'.1 == e.1) = some e
  | [], _, e, he => by cases he
  | x :: l, hn, e, he => by
    simp only [List.map_cons, List.nodup_cons] at hn
    rcases List.mem_cons.1 he with rfl | he
    · simp
    · have hne : x.1 ≠ e.1 := by
        intro h; apply hn.1; rw [h]; exact List.mem_map_of_mem he
      rw [List.find?_cons_of_neg (by simpa using hne)]
      exact find_of_nodup_keys l hn.2 e he

theorem followLinks_nonlink (store : List (Bytes × DM)) (F : Nat) (v : DM) (hv : ∀ c, v ≠ .link c) :
    followLinks store (F + 1) v = .ok v := by
  cases v <;> first | rfl | exact absurd rfl (hv _)

theorem followLinks_link (store : List (Bytes × DM)) (F : Nat) (c : Bytes) (blk : DM)
    (hs : storeGet store c = some blk) (hb : ∀ c', blk ≠ .link c') :
    followLinks store (F + 2) (.link c) = .ok blk := by
  rw [followLinks]
  simp only [hs]
  exact followLinks_nonlink store F blk hb

theorem children_getStep (store : List (Bytes × DM)) (F : Nat) {n : DM} (hn : n.NoDup) {ps : Seg} {v : DM}
    (h : (ps, v) ∈ children n) : getStep store F n ps = followLinks store F v := by
  cases n with
  | map es =>
    simp only [children, List.mem_map] at h
    obtain ⟨e, he, heq⟩ := h
    cases heq
    simp only [DM.NoDup, DMKVs.keys] at hn
    simp only [getStep, Seg.toString, find_of_nodup_keys es.toList hn.1 e he]
  | list xs =>
    simp only [children, List.mem_map] at h
    obtain ⟨e, he, heq⟩ := h
    cases heq
    have hx := zipIdx_getElem? he
    have h1 : ¬ ((e.2 : Int) < 0) := by omega
    simp only [getStep, Seg.index, h1, if_false, Int.toNat_natCast, hx]
  | _ => simp [children] at h

theorem lookup_getStep (store : List (Bytes × DM)) (F : Nat) {n : DM} {ps : Seg} {v : DM}
    (h : lookupBySegment n ps = some v) : getStep store F n ps = followLinks store F v := by
  cases n with
  | map es =>
    simp only [lookupBySegment, Option.map_eq_some_iff] at h
    obtain ⟨e, he, hv⟩ := h
    simp only [getStep, he, hv]
  | list xs =>
    simp only [lookupBySegment] at h
    cases hi : ps.index with
    | none => rw [hi] at h; cases h
    | some i =>
      rw [hi] at h
      simp only at h
      by_cases h0 : i < 0
      · rw [if_pos h0] at h; cases h
      · rw [if_neg h0] at h
        simp only [getStep, hi, h0, if_false, h]
  | _ => simp [lookupBySegment] at h

theorem lookup_mem_children {n : DM} {ps : Seg} {v : DM} (h : lookupBySegment n ps = some v) :
    ∃ ps', (ps', v) ∈ children n := by
  cases n with
  | map es =>
    simp only [lookupBySegment, Option.map_eq_some_iff] at h
    obtain ⟨e, he, hv⟩ := h
    exact ⟨.str e.1, by
      simp only [children, List.mem_map]
      exact ⟨e, List.mem_of_find?_eq_some he, by rw [hv]⟩⟩
  | list xs =>
    simp only [lookupBySegment] at h
    cases hi : ps.index with
    | none => rw [hi] at h; cases h
    | some i =>
      rw [hi] at h
      simp only at h
      by_cases h0 : i < 0
      · rw [if_pos h0] at h; cases h
      · rw [if_neg h0] at h
        exact ⟨.idx i.toNat, by
          simp only [children, List.mem_map]
          exact ⟨(v, i.toNat), List.mk_mem_zipIdx_iff_getElem?.2 h, rfl⟩⟩
  | _ => simp [lookupBySegment] at h

theorem childList_cases {n : DM} {s : S} {ps : Seg} {v : DM} (h : (ps, v) ∈ childList n s) :
    (ps, v) ∈ children n ∨ lookupBySegment n ps = some v := by
  unfold childList at h
  split at h
  · exact Or.inl h
  · right
    simp only [List.mem_filterMap, Option.map_eq_some_iff] at h
    obtain ⟨ps', _, v', hv, heq⟩ := h
    cases heq
    exact hv

theorem childList_getStep (store : List (Bytes × DM)) (F : Nat) {n : DM} (hn : n.NoDup) {s : S} {ps : Seg} {v : DM}
    (h : (ps, v) ∈ childList n s) : getStep store F n ps = followLinks store F v := by
  rcases childList_cases h with h | h
  · exact children_getStep store F hn h
  · exact lookup_getStep store F h

theorem childList_noDup {n : DM} (hn : n.NoDup) {s : S} {ps : Seg} {v : DM}
    (h : (ps, v) ∈ childList n s) : v.NoDup := by
  rcases childList_cases h with h | h
  · exact children_noDup hn h
  · obtain ⟨ps', h'⟩ := lookup_mem_children h
    exact children_noDup hn h'

/-! ### every visit resolves -/

/-- store blocks are well formed for the comparison: no duplicate map keys, and a block is not a bare link -/
def StoreOk (store : List (Bytes × DM)) : Prop :=
  ∀ c blk, storeGet store c = some blk → blk.NoDup ∧ ∀ c', blk ≠ .link c'

theorem get_snoc (store : List (Bytes × DM)) (F : Nat) (root n : DM) (path : Path) (ps : Seg)
    (h : get store F root path = .ok n) : get store F root (path ++ [ps]) = getStep store F n ps := by
  rw [get_append, h]
  exact get_single store F n ps

/-- an event is a link load, or the visit event for the node `get` resolves its path to -/
def EventResolves (store : List (Bytes × DM)) (F : Nat) (root : DM) (e : Event) : Prop :=
  (∃ c, e = .load c) ∨ ∃ path n s, get store F root path = .ok n ∧ e = visitEvent path n s

theorem walk_events_resolve (cfg : Cfg) (F : Nat) (root : DM) (hroot : root.NoDup) (hstore : StoreOk cfg.store)
    (fuel : Nat) (nb lb : Option Int) (s : S) :
    ∀ e ∈ (walk cfg fuel nb lb root s).events, EventResolves cfg.store (F + 2) root e := by
  have h := (walk_inv cfg (fun _ path n _ => get cfg.store (F + 2) root path = .ok n ∧ n.NoDup)
    (fun es => ∀ e ∈ es, EventResolves cfg.store (F + 2) root e)
    (fun _ _ _ _ _ h => h)
    (fun es c hq e he => by
      rcases List.mem_cons.1 he with rfl | he
      · exact Or.inl ⟨c, rfl⟩
      · exact hq e he)
    (fun es path n s' hq hp e he => by
      rcases List.mem_cons.1 he with rfl | he
      · exact Or.inr ⟨path, n, s', hp.1, rfl⟩
      · exact hq e he)
    (fun es path n s' ps v sNext hp _ hm hx hnl => by
      refine ⟨?_, childList_noDup hp.2 hm⟩
      rw [get_snoc _ _ _ _ _ _ hp.1, childList_getStep _ _ hp.2 hm]
      exact followLinks_nonlink _ _ _ hnl)
    (fun es path n s' ps c blk sNext hp _ hm hx hs hk => by
      obtain ⟨hb1, hb2⟩ := hstore c blk hs
      refine ⟨?_, hb1⟩
      rw [get_snoc _ _ _ _ _ _ hp.1, childList_getStep _ _ hp.2 hm]
      exact followLinks_link _ _ _ _ hs hb2) fuel).1
      false [] root s { nodeBudget := nb, linkBudget := lb } (by intro e he; cases he) ⟨rfl, hroot⟩
  intro e he
  unfold walk at he
  simp only [List.mem_reverse] at he
  exact h e he

/-- for nodes other than strings and bytes `Match` returns the node itself -/
theorem matchNode_self_all :
    (∀ (s : S) (n m : DM), matchNode s n = some m → (∀ b, n ≠ .str b) → (∀ b, n ≠ .bytes b) → m = n) ∧
    (∀ (ms : SList) (n m : DM), matchList ms n = some m → (∀ b, n ≠ .str b) → (∀ b, n ≠ .bytes b) → m = n) := by
  suffices h : ∀ k, (∀ (s : S), sizeOf s ≤ k → ∀ (n m : DM), matchNode s n = some m →
        (∀ b, n ≠ .str b) → (∀ b, n ≠ .bytes b) → m = n) ∧
      (∀ (ms : SList), sizeOf ms ≤ k → ∀ (n m : DM), matchList ms n = some m →
        (∀ b, n ≠ .str b) → (∀ b, n ≠ .bytes b) → m = n) from
    ⟨fun s => (h (sizeOf s)).1 s (Nat.le_refl _), fun ms => (h (sizeOf ms)).2 ms (Nat.le_refl _)⟩
  intro k
  induction k with
  | zero =>
    refine ⟨fun s hs => ?_, fun ms hs => ?_⟩
    · cases s <;> simp at hs <;> omega
    · cases ms <;> simp at hs <;> omega
  | succ k ih =>
    refine ⟨fun s hs n m h h1 h2 => ?_, fun ms hs n m h h1 h2 => ?_⟩
    · cases s with
      | matcher sl =>
        cases sl with
        | none => simp only [matchNode, Option.some.injEq] at h; exact h.symm
        | some ft =>
          obtain ⟨f, t⟩ := ft
          cases n <;> simp only [matchNode] at h <;> first | cases h | exact absurd rfl (h1 _) | exact absurd rfl (h2 _)
      | union ms =>
        simp only [matchNode] at h
        exact ih.2 ms (by simp at hs; omega) n m h h1 h2
      | recursive sq cur lim stop =>
        simp only [matchNode] at h
        exact ih.1 cur (by simp at hs; omega) n m h h1 h2
      | all _ => simp [matchNode] at h
      | fields _ => simp [matchNode] at h
      | index _ _ => simp [matchNode] at h
      | range _ _ _ => simp [matchNode] at h
      | edge => simp [matchNode] at h
      | interpretAs _ _ => simp [matchNode] at h
    · cases ms with
      | nil => simp [matchList] at h
      | cons s r =>
        simp only [matchList] at h
        cases hm : matchNode s n with
        | some m' =>
          rw [hm] at h
          simp only [Option.some.injEq] at h
          subst h
          exact ih.1 s (by simp at hs; omega) n m' hm h1 h2
        | none =>
          rw [hm] at h
          exact ih.2 r (by simp at hs; omega) n m h h1 h2

end Walk
end Ipld
