/-
  C01 — what is built is what was assembled, and the read side reports it faithfully: the canonical
  plan of a value (and every variant of it) builds exactly that value; `LookupByString` through the
  Go map agrees with the entry table; `Length`/`LookupByIndex`/wrong-kind behaviour of the read side.
  Property theorems only; definitions (`Plan`, `ValuePos`, `Runs`, `Inv`) and helper lemmas are in
  `IpldModel/Lemmas/Assembler.lean`.  See DESIGN §5 C01.
-/
import IpldModel.Lemmas.Assembler
namespace Ipld.Props.C01
open Ipld Ipld.Asm

/-! ### (f) the canonical plan builds the value -/

/-- Generalisation used for every subtree: whenever the current object is a value assembler that
    can take a value of `d`'s kind (the empty root builder, a map value assembler, or a list value
    assembler), running the canonical plan of a duplicate-free `d` is accepted call by call and
    leaves the assembler exactly where handing over the finished `d` in one step would leave it. -/
theorem plan_delivers {s : St} {d : DM} (hn : d.NoDup) (hv : ValuePos s d.kind) :
    run s (planOf d) = ((deliver s d).1, List.replicate (planOf d).length .ok) :=
  Plan.runs d _ (plan_planOf d) hn s hv

/-- `plan_delivers` for the value assembler of a map: under the invariant, a map frame in phase
    `midValue` takes the canonical plan of any duplicate-free `d` and ends up with `d` recorded as
    the value of the waiting entry. -/
theorem plan_delivers_map_value {s : St} (hi : Inv s) {t m rest} {d : DM} (hn : d.NoDup)
    (hf : s.frames = .map t m .midValue :: rest) :
    run s (planOf d) = ((deliver s d).1, List.replicate (planOf d).length .ok) :=
  plan_delivers hn (ValuePos.of_inv_map hi d.kind hf)

/-- For every value `d` in which no map carries a key twice, and every root prototype that accepts
    `d`'s kind (in particular `Any`): running the canonical plan of `d` on a fresh builder is
    accepted call by call, and `Build` then returns exactly `d` — same entries, same order, same
    nesting. -/
theorem plan_builds (p : Proto) (d : DM) (hn : d.NoDup) (hp : p.accepts d.kind = true) :
    ∃ s, run (init p) (planOf d) = (s, List.replicate (planOf d).length .ok) ∧
      build s = some d :=
  ⟨_, plan_delivers hn (ValuePos.root rfl rfl hp), rfl⟩

/-- `plan_builds` at the `Any` prototype, which accepts every kind. -/
theorem plan_builds_any (d : DM) (hn : d.NoDup) :
    ∃ s, run (init .any) (planOf d) = (s, List.replicate (planOf d).length .ok) ∧
      build s = some d :=
  plan_builds .any d hn rfl

/-! ### (g) variants of the plan build the same value -/

/-- The canonical plan is one of the plans described by the relation `Plan` (which also allows
    arbitrary size hints, `AssignNode` of whole subtrees, and the three-call way of opening a map
    entry through the key assembler). -/
theorem planOf_is_plan (d : DM) : Plan d (planOf d) := plan_planOf d

/-- The generalisation of `plan_delivers` to every variant plan: in value position, any call
    sequence related to `d` by `Plan` is accepted call by call and has the effect of delivering
    `d`. -/
theorem plan_variant_delivers {s : St} {d : DM} {ops : List Op} (hpl : Plan d ops) (hn : d.NoDup)
    (hv : ValuePos s d.kind) :
    run s ops = ((deliver s d).1, List.replicate ops.length .ok) :=
  Plan.runs d ops hpl hn s hv

/-- Every variant plan of a duplicate-free `d` — whatever integers are passed as size hints,
    whichever entries are opened with `AssembleKey`/assign-string/`AssembleValue` instead of
    `AssembleEntry`, whichever subtrees are handed over with `AssignNode` instead of being
    assembled — is accepted call by call on a fresh builder whose prototype accepts `d`'s kind, and
    `Build` returns exactly `d`. -/
theorem plan_variant_builds (p : Proto) (d : DM) (ops : List Op) (hpl : Plan d ops) (hn : d.NoDup)
    (hp : p.accepts d.kind = true) :
    ∃ s, run (init p) ops = (s, List.replicate ops.length .ok) ∧ build s = some d :=
  ⟨_, plan_variant_delivers hpl hn (ValuePos.root rfl rfl hp), rfl⟩

/-- (i) The size hint of `BeginMap` and of `BeginList` has no influence on the state or on the
    outcome, in any state. -/
theorem hint_ignored (s : St) (n n' : Int) :
    step s (.beginMap n) = step s (.beginMap n') ∧ step s (.beginList n) = step s (.beginList n') :=
  ⟨step_beginMap_hint s n n', step_beginList_hint s n n'⟩

/-- (ii) On a map assembler between entries, for a key not yet present, the three calls
    `AssembleKey`, assign the string `k` to the key assembler (by `AssignString` or by `AssignNode`
    of a string node), `AssembleValue` are all accepted and end in the same state as the single
    call `AssembleEntry k`. -/
theorem three_call_entry {s : St} {t m rest} {k : Bytes} (hf : s.frames = .map t m .init :: rest)
    (hk : mapHas m k = false) (keyOp : Op)
    (hko : keyOp = .assign (.str k) ∨ keyOp = .assignNode (.str k)) :
    run s [.assembleKey, keyOp, .assembleValue] = ((step s (.assembleEntry k)).1, [.ok, .ok, .ok]) ∧
    (step s (.assembleEntry k)).2 = .ok := by
  rw [step_assembleEntry hf hk]
  exact ⟨runs_open_entry hf hk keyOp hko, rfl⟩

/-- (iii) In value position, assembling a duplicate-free subtree `d` by any of its plans ends in
    the same state as handing the finished `d` over with a single `AssignNode d`, and both are
    accepted. -/
theorem assignNode_same_as_plan {s : St} {d : DM} {ops : List Op} (hpl : Plan d ops) (hn : d.NoDup)
    (hv : ValuePos s d.kind) :
    (run s ops).1 = (run s [.assignNode d]).1 ∧
    (∀ o ∈ (run s ops).2, o = .ok) ∧ (run s [.assignNode d]).2 = [.ok] := by
  have h1 := plan_variant_delivers hpl hn hv
  have h2 : run s [.assignNode d] = ((deliver s d).1, [.ok]) := plan_node_runs hv
  rw [h1, h2]
  exact ⟨rfl, fun o ho => (List.mem_replicate.1 ho).2, rfl⟩

/-! ### (d) lookups through the Go map agree with the entry table -/

/-- For every map frame of a state satisfying the invariant (in particular a frame in phase `init`
    that is about to be finished), and every key `k`: what Go's `LookupByString` finds through the
    lookup map `m` is exactly what a search of the finished entries in iteration order finds first —
    a hit in `m` with value `v` corresponds to `ok v`, a miss in `m` to the not-exists error.  So
    the two fields of `plainMap` never disagree about any key. -/
theorem lookup_agree {s : St} (hi : Inv s) {t m ph} (hf : Frame.map t m ph ∈ s.frames) (k : Bytes) :
    lookupByString (.map (DMKVs.ofList (tableEntries t))) k =
      match mapLookup m k with
      | some v => .ok v
      | none => .error .notExists := by
  have h : MapInv t m ph := hi.frames _ hf
  rw [h.agree k]
  simp only [lookupByString, DMKVs.toList_ofList]
  cases (tableEntries t).find? (fun e => e.1 == k) <;> rfl

/-- The same statement at the moment of `Finish`: the call hands to the parent the map value
    `d` made of the table's entries, and every lookup in `d` agrees with the Go map `m`. -/
theorem lookup_agree_finish {s : St} (hi : Inv s) {t m rest} (hf : s.frames = .map t m .init :: rest) :
    ∃ d, step s .finish = deliver { s with frames := rest } d ∧
      ∀ k, lookupByString d k =
        match mapLookup m k with
        | some v => .ok v
        | none => .error .notExists :=
  ⟨_, step_finish_map hf, fun k => lookup_agree hi (by rw [hf]; exact List.mem_cons_self ..) k⟩

/-- In a map without duplicate keys, looking up the key of any entry returns that entry's value. -/
theorem lookup_finds_entry {es : DMKVs} (hn : es.keys.Nodup) {k : Bytes} {v : DM}
    (hm : (k, v) ∈ es.toList) : lookupByString (.map es) k = .ok v := by
  simp only [lookupByString, find_of_mem_nodup_keys hn hm]

/-- Looking up a key that no entry carries reports not-exists. -/
theorem lookup_missing {es : DMKVs} {k : Bytes} (hm : k ∉ es.keys) :
    lookupByString (.map es) k = .error .notExists := by
  simp only [lookupByString, find_none_of_not_mem_keys hm]

/-! ### (h) read side: length, index lookup, wrong-kind totality -/

/-- `Length` of a map is its number of entries. -/
theorem length_map (es : DMKVs) : length (.map es) = (es.toList.length : Int) := rfl

/-- `Length` of a list is its number of elements. -/
theorem length_list (xs : DMs) : length (.list xs) = (xs.toList.length : Int) := rfl

/-- `Length` of a scalar is `-1`. -/
theorem length_scalar {d : DM} (h : isScalar d = true) : length d = -1 := by
  cases d <;> first | rfl | simp [isScalar] at h

/-- `LookupByIndex` on a list with a non-negative index returns the element at that position, or
    the not-exists error when the index is past the end. -/
theorem lookupByIndex_list_nat (xs : DMs) (n : Nat) :
    lookupByIndex (.list xs) (n : Int) =
      match xs.toList[n]? with
      | some x => .ok x
      | none => .error .notExists := by
  simp only [lookupByIndex, Int.toNat_natCast]
  rw [if_neg (by omega)]
  cases xs.toList[n]? <;> rfl

/-- In range: the element. -/
theorem lookupByIndex_list_in_range (xs : DMs) (n : Nat) (h : n < xs.toList.length) :
    lookupByIndex (.list xs) (n : Int) = .ok xs.toList[n] := by
  rw [lookupByIndex_list_nat, List.getElem?_eq_getElem h]

/-- Past the end: not-exists. -/
theorem lookupByIndex_list_past_end (xs : DMs) (n : Nat) (h : xs.toList.length ≤ n) :
    lookupByIndex (.list xs) (n : Int) = .error .notExists := by
  rw [lookupByIndex_list_nat, List.getElem?_eq_none h]

/-- `LookupByIndex` on a list with a negative index reports not-exists. -/
theorem lookupByIndex_list_neg (xs : DMs) (i : Int) (h : i < 0) :
    lookupByIndex (.list xs) i = .error .notExists := by
  simp [lookupByIndex, h]

/-- Wrong-kind totality of `LookupByString`: on every value that is not a map (every scalar and
    every list) it returns the wrong-kind error, for every key; on a map it never does.  (The read
    side of the model has no panic outcome at all: both lookups are total functions into
    `Except ReadErr DM`.) -/
theorem lookupByString_wrongKind (d : DM) (k : Bytes) :
    lookupByString d k = .error .wrongKind ↔ d.kind ≠ .map := by
  cases d <;> simp [lookupByString, DM.kind]
  split <;> simp

/-- Wrong-kind totality of `LookupByIndex`: on every value that is not a list (every scalar and
    every map) it returns the wrong-kind error, for every index; on a list it never does. -/
theorem lookupByIndex_wrongKind (d : DM) (i : Int) :
    lookupByIndex d i = .error .wrongKind ↔ d.kind ≠ .list := by
  cases d <;> simp [lookupByIndex, DM.kind]
  split
  · simp
  · split <;> simp

/-! ### non-vacuity -/

example : exNested.NoDup := by simp [exNested, DM.NoDup, DMs.NoDup, DMKVs.NoDupVals, DMKVs.keys, DMKVs.toList]

example : build (run (init .any) (planOf exNested)).1 = some exNested := by decide

example : (run (init .map) (planOf exNested)).2 = List.replicate (planOf exNested).length .ok := by
  decide

/-- a prototype that does not accept the kind rejects the first call and nothing is built -/
example : run (init .list) (planOf exMap) |>.2.head? = some (.err .wrongKind) := by decide

example : Plan exNested exVariantPlan := by
  refine Plan.map _ _ ([.assembleKey, .assign (.str [97]), .assembleValue,
     .beginList 1000, .assembleValue, .assign (.int 1),
       .assembleValue, .assignNode (.map (.cons [120] .null .nil)), .finish,
     .assembleEntry [98], .assign (.str [115])]) ?_
  refine PlanKVs.keyAssign _ _ _ [.beginList 1000, .assembleValue, .assign (.int 1),
       .assembleValue, .assignNode (.map (.cons [120] .null .nil)), .finish]
       [.assembleEntry [98], .assign (.str [115])] ?_ ?_
  · refine Plan.list _ _ [.assembleValue, .assign (.int 1),
       .assembleValue, .assignNode (.map (.cons [120] .null .nil))] ?_
    exact PlanList.cons _ _ [_] _ (Plan.scalar _ rfl)
      (PlanList.cons _ _ [_] [] (Plan.node _) PlanList.nil)
  · exact PlanKVs.entry _ _ _ [_] [] (Plan.scalar _ rfl) PlanKVs.nil

example : build (run (init .any) exVariantPlan).1 = some exNested := by decide

/-- the duplicate-key hypothesis of `plan_builds` is needed: the plan of `{"a":1,"a":2}` has its
    second entry rejected -/
example : (run (init .any) (planOf (.map (.cons [97] (.int 1) (.cons [97] (.int 2) .nil))))).2 =
    [.ok, .ok, .ok, .err .repeatedKey, .panic] := by decide

example : lookupByString exMap [98] = .ok (.int 2) := rfl
example : lookupByString exMap [99] = .error .notExists := rfl
example : lookupByIndex exMap 0 = .error .wrongKind := rfl

end Ipld.Props.C01
