/-
  Representation-level assemblers (Model/ReprAssembler.lean): what a refused call leaves behind, where an accepted
  call leaves the machine, and the plumbing of `andThen` / `run`.  Helper lemmas for Props/C12repr.lean; the twin of
  Lemmas/TypedAssembler.lean.
-/
import IpldModel.Model.ReprAssembler
namespace Ipld
namespace RAsm
open Ipld.Asm (Op Out ErrClass)
open Ipld.Schema (Ty Fields Members Field Member TL TLs TLKVs canonFields wrapPath)
open Ipld.TAsm (Phase Pos hasKey inInt64 Call)

/-! ### `andThen` -/

theorem andThen_ok (s : St) (f : St → St × Out) : andThen (s, .ok) f = f s := rfl
theorem andThen_err (s : St) (c : ErrClass) (f : St → St × Out) : andThen (s, .err c) f = (s, .err c) := rfl
theorem andThen_panic (s : St) (f : St → St × Out) : andThen (s, .panic) f = (s, .panic) := rfl

theorem andThen_eq_ok {r : St × Out} {f : St → St × Out} {s' : St} (h : andThen r f = (s', .ok)) :
    ∃ s1, r = (s1, .ok) ∧ f s1 = (s', .ok) := by
  obtain ⟨s1, o⟩ := r
  cases o with
  | ok => exact ⟨s1, rfl, h⟩
  | err c => simp [andThen] at h
  | panic => simp [andThen] at h

/-- a property of the state that every stage establishes from the one before holds of the end, whatever the answers -/
theorem andThen_state {P : St → Prop} {r : St × Out} {f : St → St × Out} (hr : P r.1)
    (hf : ∀ s, P s → P (f s).1) : P (andThen r f).1 := by
  obtain ⟨s1, o⟩ := r
  cases o with
  | ok => exact hf s1 hr
  | err c => exact hr
  | panic => exact hr

theorem andThen_assoc (r : St × Out) (f g : St → St × Out) :
    andThen (andThen r f) g = andThen r (fun s => andThen (f s) g) := by
  obtain ⟨s, o⟩ := r
  cases o <;> rfl

theorem andThen_of_ok {r : St × Out} {s1 : St} (h : r = (s1, .ok)) (f : St → St × Out) : andThen r f = f s1 := by
  rw [h]; rfl

theorem andThen_of_err {r : St × Out} (h : ∃ s' c, r = (s', .err c)) (f : St → St × Out) :
    ∃ s' c, andThen r f = (s', .err c) := by
  obtain ⟨s', c, rfl⟩ := h
  exact ⟨s', c, rfl⟩

/-! ### key assemblers -/

/-- the frame whose key assembler is out, back where it was before `AssembleKey` -/
def Frame.endKey : Frame → Option Frame
  | .map vty vnul es .midKey w => some (.map vty vnul es .init w)
  | .struct fs es .midKey w => some (.struct fs es .init w)
  | .union ms cur .midKey w => some (.union ms cur .init w)
  | .dead .midKey => some (.dead .init)
  | _ => none

/-- an `AssembleKey` of the innermost map-like assembler is outstanding (its key assembler, or - `Frame.dead` - the error
    assembler handed out in its place, is the current object) -/
def inKey (s : St) : Bool :=
  match s.frames with
  | f :: _ => f.endKey.isSome
  | [] => false

/-- `s'` is `s` with its key assembler ended: the map / struct / union assembler is back where it was before
    `AssembleKey`. -/
def KeyReset (s s' : St) : Prop :=
  ∃ f f' rest, s.frames = f :: rest ∧ f.endKey = some f' ∧ s' = { s with frames := f' :: rest }

theorem endKey_endKey {f f' : Frame} (h : f.endKey = some f') : f'.endKey = none := by
  cases f with
  | list ety enul xs mid w => cases h
  | map vty vnul es ph w => cases ph <;> first | (cases h; done) | (simp only [Frame.endKey, Option.some.injEq] at h; subst h; rfl)
  | struct fs es ph w => cases ph <;> first | (cases h; done) | (simp only [Frame.endKey, Option.some.injEq] at h; subst h; rfl)
  | tuple fs es mid w => cases h
  | union ms cur ph w => cases ph <;> first | (cases h; done) | (simp only [Frame.endKey, Option.some.injEq] at h; subst h; rfl)
  | dead ph => cases ph <;> first | (cases h; done) | (simp only [Frame.endKey, Option.some.injEq] at h; subst h; rfl)

theorem KeyReset.inKey {s s' : St} (h : KeyReset s s') : inKey s = true := by
  obtain ⟨f, f', rest, hf, he, _⟩ := h
  simp [RAsm.inKey, hf, he]

theorem KeyReset.not_inKey {s s' : St} (h : KeyReset s s') : RAsm.inKey s' = false := by
  obtain ⟨f, f', rest, hf, he, rfl⟩ := h
  simp [RAsm.inKey, endKey_endKey he]

theorem KeyReset.unique {s s1 s2 : St} (h1 : KeyReset s s1) (h2 : KeyReset s s2) : s1 = s2 := by
  obtain ⟨f, f', rest, hf, he, rfl⟩ := h1
  obtain ⟨g, g', rest', hg, he', rfl⟩ := h2
  rw [hf] at hg
  cases hg
  rw [he] at he'
  cases he'
  rfl

theorem KeyReset.tainted {s s' : St} (h : KeyReset s s') : s'.tainted = s.tainted := by
  obtain ⟨_, _, _, _, _, rfl⟩ := h; rfl

theorem KeyReset.ty {s s' : St} (h : KeyReset s s') : s'.ty = s.ty := by
  obtain ⟨_, _, _, _, _, rfl⟩ := h; rfl

/-! ### a refused call -/

theorem deliver_ne_err (s : St) (v : TL) (c : ErrClass) : (deliver s v).2 ≠ .err c := by
  unfold deliver
  repeat' split
  all_goals simp

theorem deliver_eq_err {s s' : St} {v : TL} {c : ErrClass} : deliver s v ≠ (s', .err c) := by
  intro h
  exact deliver_ne_err s v c (by rw [h])

theorem valuePrim_err {e : Engine} {s s' : St} {ty : Ty} {nul : Bool} {op : Op} {c : ErrClass}
    (h : valuePrim e s ty nul op = (s', .err c)) : s' = s := by
  cases op <;> simp only [valuePrim] at h
  all_goals repeat' split at h
  all_goals first | (cases h; done) | exact absurd h deliver_eq_err | exact (Prod.mk.inj h).1.symm

theorem errPrim_err {s s' : St} {op : Op} {c : ErrClass} (h : errPrim s op = (s', .err c)) : s' = s := by
  cases op <;> simp only [errPrim] at h
  all_goals repeat' split at h
  all_goals first | (cases h; done) | exact (Prod.mk.inj h).1.symm

theorem errPrim_state (s : St) (op : Op) : (errPrim s op).1 = s := by
  cases op <;> simp only [errPrim] <;> first | rfl | (split <;> rfl)

theorem errPrim_ne_ok {s s' : St} {op : Op} : errPrim s op ≠ (s', .ok) := by
  intro h
  cases op <;> simp only [errPrim] at h <;> first | (cases h; done) | (split at h <;> cases h)

theorem supplyKey_err {e : Engine} {s s' : St} {k : Bytes} {c : ErrClass}
    (h : supplyKey e s k = (s', .err c)) : KeyReset s s' := by
  unfold supplyKey at h
  split at h
  · rename_i vty vnul es w rest hf
    split at h
    · exact ⟨_, _, rest, hf, rfl, (Prod.mk.inj h).1.symm⟩
    · cases h
  · rename_i fs es w rest hf
    repeat' split at h
    all_goals first | (cases h; done) | exact ⟨_, _, rest, hf, rfl, (Prod.mk.inj h).1.symm⟩
  · rename_i ms cur w rest hf
    split at h
    · exact ⟨_, _, rest, hf, rfl, (Prod.mk.inj h).1.symm⟩
    · cases h
  · cases h

theorem keyPrim_err {e : Engine} {s s' : St} {op : Op} {c : ErrClass}
    (h : keyPrim e s op = (s', .err c)) : s' = s ∨ KeyReset s s' := by
  unfold keyPrim at h
  split at h
  · exact Or.inr (supplyKey_err h)
  all_goals first | (cases h; done) | exact Or.inl (Prod.mk.inj h).1.symm

/-- Every call except `AssignNode`: a refusal leaves the state as it was, or ends the key assembler. -/
theorem stepPrim_err {e : Engine} {s s' : St} {op : Op} {c : ErrClass}
    (h : stepPrim e s op = (s', .err c)) : s' = s ∨ KeyReset s s' := by
  unfold stepPrim at h
  repeat' split at h
  all_goals first
    | (cases h; done)
    | exact Or.inl (valuePrim_err h)
    | exact Or.inl (errPrim_err h)
    | exact keyPrim_err h
    | exact absurd h deliver_eq_err
    | exact Or.inl (Prod.mk.inj h).1.symm

/-- **What a refused call leaves behind.**  The state as it was; or - a call on a key assembler - the same state with the
    key assembler ended; or - only for an engine with `anPartial`, only for `AssignNode` of a map/list node that
    got past its `Begin…` - the state marked as no longer the contract's. -/
theorem step_err {e : Engine} {s s' : St} {op : Op} {c : ErrClass} (h : step e s op = (s', .err c)) :
    s' = s ∨ KeyReset s s' ∨
    (e.anPartial = true ∧ s' = { s with tainted := true } ∧ ∃ v, op = .assignNode v ∧ TAsm.isRec v = true) := by
  unfold step at h
  split at h
  · cases h
  · unfold stepU at h
    split at h
    · rename_i v
      split at h
      · rename_i hrec
        split at h
        · cases h
        · split at h
          · rename_i hp
            simp only [Bool.and_eq_true] at hp
            exact Or.inr (Or.inr ⟨hp.1, (Prod.mk.inj h).1.symm, v, rfl, hrec⟩)
          · exact Or.inl (Prod.mk.inj h).1.symm
        · cases h
      · rcases stepPrim_err h with h1 | h1
        · exact Or.inl h1
        · exact Or.inr (Or.inl h1)
    · rcases stepPrim_err h with h1 | h1
      · exact Or.inl h1
      · exact Or.inr (Or.inl h1)

/-! ### an accepted call -/

theorem deliver_ok_not_inKey {s s' : St} {v : TL} (h : deliver s v = (s', .ok)) : inKey s' = false := by
  unfold deliver at h
  repeat' split at h
  all_goals first
    | (cases h; done)
    | (obtain rfl := (Prod.mk.inj h).1; simp_all [inKey, Frame.endKey]; done)

theorem valuePrim_ok_not_inKey {e : Engine} {s s' : St} {ty : Ty} {nul : Bool} {op : Op}
    (h : valuePrim e s ty nul op = (s', .ok)) : inKey s' = false := by
  cases op <;> simp only [valuePrim] at h
  all_goals repeat' split at h
  all_goals first
    | (cases h; done)
    | exact deliver_ok_not_inKey h
    | skip
  all_goals
    obtain rfl := (Prod.mk.inj h).1
    simp only [inKey]
    rename_i hop
    first
      | (unfold opensMap at hop; repeat' split at hop
         all_goals first | (cases hop; done) | (simp only [Opens.frame.injEq] at hop; subst hop; rfl))
      | (unfold opensList at hop; repeat' split at hop
         all_goals first | (cases hop; done) | (simp only [Opens.frame.injEq] at hop; subst hop; rfl))
      | rfl

theorem supplyKey_ok_not_inKey {e : Engine} {s s' : St} {k : Bytes}
    (h : supplyKey e s k = (s', .ok)) : inKey s' = false := by
  unfold supplyKey at h
  repeat' split at h
  all_goals first | (cases h; done) | (obtain rfl := (Prod.mk.inj h).1; rfl)

theorem keyPrim_ok_not_inKey {e : Engine} {s s' : St} {op : Op}
    (h : keyPrim e s op = (s', .ok)) : inKey s' = false := by
  unfold keyPrim at h
  split at h
  · exact supplyKey_ok_not_inKey h
  all_goals cases h

theorem stepPrim_assembleKey_ok' {e : Engine} {s s' : St} {op : Op} (hop : op = .assembleKey)
    (h : stepPrim e s op = (s', .ok)) : KeyReset s' s ∧ inKey s = false := by
  unfold stepPrim at h
  repeat' split at h
  all_goals first
    | (cases hop; done)
    | (cases h; done)
    | (subst hop; simp only [valuePrim] at h; cases h; done)
    | (subst hop; simp only [errPrim] at h; cases h; done)
    | (subst hop; simp only [keyPrim] at h; cases h; done)
    | skip
  all_goals
    rename_i hf _
    obtain rfl := (Prod.mk.inj h).1
    refine ⟨⟨_, _, _, rfl, rfl, ?_⟩, by simp [inKey, hf, Frame.endKey]⟩
    obtain ⟨t, fr, rt, tt⟩ := s
    simp only at hf; subst hf; rfl

/-- `AssembleKey` is accepted exactly by a map-like assembler that expects a key; it hands out the key assembler. -/
theorem stepPrim_assembleKey_ok {e : Engine} {s s' : St} (h : stepPrim e s .assembleKey = (s', .ok)) :
    KeyReset s' s ∧ inKey s = false := stepPrim_assembleKey_ok' rfl h

theorem stepPrim_ok_not_inKey {e : Engine} {s s' : St} {op : Op} (h : stepPrim e s op = (s', .ok))
    (hop : op ≠ .assembleKey) : inKey s' = false := by
  unfold stepPrim at h
  repeat' split at h
  all_goals first
    | (cases h; done)
    | exact valuePrim_ok_not_inKey h
    | exact keyPrim_ok_not_inKey h
    | exact deliver_ok_not_inKey h
    | exact absurd h errPrim_ne_ok
    | exact absurd rfl hop
    | (obtain rfl := (Prod.mk.inj h).1; rfl)

/-- an accepted copy of a map/list node ends with its `Finish`: the current object is no key assembler -/
theorem putNode_rec_ok_not_inKey {e : Engine} {s s' : St} {v : DM} (hv : TAsm.isRec v = true)
    (h : putNode e s v = (s', .ok)) : inKey s' = false := by
  cases v with
  | list xs =>
    simp only [putNode] at h
    obtain ⟨s1, _, h⟩ := andThen_eq_ok h
    obtain ⟨s2, _, h⟩ := andThen_eq_ok h
    exact stepPrim_ok_not_inKey h (by intro e; cases e)
  | map es =>
    simp only [putNode] at h
    obtain ⟨s1, _, h⟩ := andThen_eq_ok h
    obtain ⟨s2, _, h⟩ := andThen_eq_ok h
    exact stepPrim_ok_not_inKey h (by intro e; cases e)
  | null => cases hv
  | bool _ => cases hv
  | int _ => cases hv
  | float _ => cases hv
  | str _ => cases hv
  | bytes _ => cases hv
  | link _ => cases hv

theorem step_ok_not_tainted {e : Engine} {s s' : St} {op : Op} {o : Out} (h : step e s op = (s', o))
    (ho : o ≠ .panic) : s.tainted = false := by
  unfold step at h
  split at h
  · exact absurd (Prod.mk.inj h).2.symm ho
  · rename_i ht
    simpa using ht

theorem step_of_not_tainted {e : Engine} {s : St} (ht : s.tainted = false) (op : Op) :
    step e s op = stepU e s op := by
  unfold step
  simp [ht]

theorem step_assembleKey_ok {e : Engine} {s s' : St} (h : step e s .assembleKey = (s', .ok)) :
    KeyReset s' s ∧ inKey s = false := by
  have ht := step_ok_not_tainted h (by intro e; cases e)
  rw [step_of_not_tainted ht] at h
  exact stepPrim_assembleKey_ok h

theorem step_ok_not_inKey {e : Engine} {s s' : St} {op : Op} (h : step e s op = (s', .ok))
    (hop : op ≠ .assembleKey) : inKey s' = false := by
  have ht := step_ok_not_tainted h (by intro e; cases e)
  rw [step_of_not_tainted ht] at h
  unfold stepU at h
  split at h
  · rename_i v
    split at h
    · rename_i hrec
      split at h
      · rename_i st' hp
        obtain rfl := (Prod.mk.inj h).1
        exact putNode_rec_ok_not_inKey hrec hp
      · split at h <;> cases h
      · cases h
    · exact stepPrim_ok_not_inKey h (by intro e; cases e)
  · exact stepPrim_ok_not_inKey h hop

/-- the key assembler of `s`'s top frame, handed out from `s0` -/
theorem step_assembleKey_of_keyReset {e : Engine} {s s0 : St} (h : KeyReset s s0) (ht : s.tainted = false) :
    step e s0 .assembleKey = (s, .ok) := by
  have ht0 : s0.tainted = false := by rw [h.tainted]; exact ht
  rw [step_of_not_tainted ht0]
  obtain ⟨f, f', rest, hf, he, rfl⟩ := h
  obtain ⟨t, fr, rt, tt⟩ := s
  simp only at hf; subst hf
  cases f with
  | list ety enul xs mid w => cases he
  | map vty vnul es ph w =>
    cases ph <;> first | (cases he; done) | (simp only [Frame.endKey, Option.some.injEq] at he; subst he; simp [stepU, stepPrim])
  | struct fs es ph w =>
    cases ph <;> first | (cases he; done) | (simp only [Frame.endKey, Option.some.injEq] at he; subst he; simp [stepU, stepPrim])
  | tuple fs es mid w => cases he
  | union ms cur ph w =>
    cases ph <;> first | (cases he; done) | (simp only [Frame.endKey, Option.some.injEq] at he; subst he; simp [stepU, stepPrim])
  | dead ph =>
    cases ph <;> first | (cases he; done) | (simp only [Frame.endKey, Option.some.injEq] at he; subst he; simp [stepU, stepPrim])

/-! ### running -/

/-- every call of `ops`, run from `s`, is accepted, and the run ends in `s'` -/
def Runs (e : Engine) (s : St) (ops : List Op) (s' : St) : Prop :=
  run e s ops = (s', List.replicate ops.length .ok)

theorem Runs.nil (e : Engine) (s : St) : Runs e s [] s := rfl

theorem run_cons_ok {e : Engine} {s s1 : St} {op : Op} (ops : List Op) (h : step e s op = (s1, .ok)) :
    run e s (op :: ops) = ((run e s1 ops).1, .ok :: (run e s1 ops).2) := by
  simp only [run, h]

theorem run_cons_err {e : Engine} {s s1 : St} {op : Op} {c : ErrClass} (ops : List Op)
    (h : step e s op = (s1, .err c)) :
    run e s (op :: ops) = ((run e s1 ops).1, .err c :: (run e s1 ops).2) := by
  simp only [run, h]

theorem run_cons_panic {e : Engine} {s s1 : St} {op : Op} (ops : List Op) (h : step e s op = (s1, .panic)) :
    run e s (op :: ops) = (s1, [.panic]) := by
  simp only [run, h]

theorem Runs.cons {e : Engine} {s s1 s' : St} {op : Op} {ops : List Op} (h1 : step e s op = (s1, .ok))
    (h2 : Runs e s1 ops s') : Runs e s (op :: ops) s' := by
  unfold Runs at *
  rw [run_cons_ok ops h1, h2]
  rfl

theorem Runs.single {e : Engine} {s s1 : St} {op : Op} (h1 : step e s op = (s1, .ok)) : Runs e s [op] s1 :=
  Runs.cons h1 (Runs.nil e s1)

theorem Runs.append {e : Engine} {s s1 s' : St} {a b : List Op} (h1 : Runs e s a s1) (h2 : Runs e s1 b s') :
    Runs e s (a ++ b) s' := by
  induction a generalizing s with
  | nil =>
    have : s1 = s := by have := congrArg Prod.fst h1; simpa [run] using this.symm
    subst this
    simpa using h2
  | cons op ops ih =>
    cases hs : step e s op with
    | mk s2 o =>
      cases o with
      | ok =>
        unfold Runs at h1
        rw [run_cons_ok ops hs] at h1
        have h1' : Runs e s2 ops s1 := by
          unfold Runs
          have hfst := congrArg Prod.fst h1
          have hsnd := congrArg Prod.snd h1
          simp only [List.length_cons, List.replicate_succ, List.cons.injEq, true_and] at hfst hsnd
          exact Prod.ext hfst hsnd
        exact Runs.cons hs (ih h1')
      | err c =>
        unfold Runs at h1
        rw [run_cons_err ops hs] at h1
        have := congrArg Prod.snd h1
        simp [List.replicate_succ] at this
      | panic =>
        unfold Runs at h1
        rw [run_cons_panic ops hs] at h1
        have := congrArg Prod.snd h1
        simp [List.replicate_succ] at this

/-! ### what no call changes: the builder's type; and, but for a refused `AssignNode` left half done, the mark -/

/-- same root type, same mark -/
def SameHdr (s s' : St) : Prop := s'.ty = s.ty ∧ s'.tainted = s.tainted

theorem SameHdr.refl (s : St) : SameHdr s s := ⟨rfl, rfl⟩

theorem SameHdr.trans {a b c : St} (h1 : SameHdr a b) (h2 : SameHdr b c) : SameHdr a c :=
  ⟨h2.1.trans h1.1, h2.2.trans h1.2⟩

theorem deliver_hdr (s : St) (v : TL) : SameHdr s (deliver s v).1 := by
  unfold deliver
  repeat' (first | exact ⟨rfl, rfl⟩ | split)

theorem valuePrim_hdr (e : Engine) (s : St) (ty : Ty) (nul : Bool) (op : Op) :
    SameHdr s (valuePrim e s ty nul op).1 := by
  cases op <;> simp only [valuePrim]
  all_goals repeat' (first | exact ⟨rfl, rfl⟩ | exact deliver_hdr _ _ | split)

theorem supplyKey_hdr (e : Engine) (s : St) (k : Bytes) : SameHdr s (supplyKey e s k).1 := by
  unfold supplyKey
  repeat' (first | exact ⟨rfl, rfl⟩ | split)

theorem keyPrim_hdr (e : Engine) (s : St) (op : Op) : SameHdr s (keyPrim e s op).1 := by
  unfold keyPrim
  split
  · exact supplyKey_hdr _ _ _
  all_goals exact ⟨rfl, rfl⟩

theorem errPrim_hdr (s : St) (op : Op) : SameHdr s (errPrim s op).1 := by
  rw [errPrim_state]; exact SameHdr.refl s

theorem stepPrim_hdr (e : Engine) (s : St) (op : Op) : SameHdr s (stepPrim e s op).1 := by
  unfold stepPrim
  repeat' (first
    | exact ⟨rfl, rfl⟩
    | exact valuePrim_hdr _ _ _ _ _
    | exact keyPrim_hdr _ _ _
    | exact errPrim_hdr _ _
    | exact (SameHdr.trans ⟨rfl, rfl⟩ (deliver_hdr _ _))
    | split)

mutual
theorem putNode_hdr (e : Engine) : (v : DM) → (s : St) → SameHdr s (putNode e s v).1
  | .list xs, s => by
    simp only [putNode]
    exact andThen_state (P := SameHdr s) (stepPrim_hdr _ _ _) fun s1 h1 =>
      andThen_state (P := SameHdr s) (h1.trans (putList_hdr e xs s1)) fun s2 h2 => h2.trans (stepPrim_hdr _ _ _)
  | .map es, s => by
    simp only [putNode]
    exact andThen_state (P := SameHdr s) (stepPrim_hdr _ _ _) fun s1 h1 =>
      andThen_state (P := SameHdr s) (h1.trans (putKVs_hdr e es s1)) fun s2 h2 => h2.trans (stepPrim_hdr _ _ _)
  | .null, s => by simp only [putNode]; exact stepPrim_hdr _ _ _
  | .bool _, s => by simp only [putNode]; exact stepPrim_hdr _ _ _
  | .int _, s => by simp only [putNode]; exact stepPrim_hdr _ _ _
  | .float _, s => by simp only [putNode]; exact stepPrim_hdr _ _ _
  | .str _, s => by simp only [putNode]; exact stepPrim_hdr _ _ _
  | .bytes _, s => by simp only [putNode]; exact stepPrim_hdr _ _ _
  | .link _, s => by simp only [putNode]; exact stepPrim_hdr _ _ _
theorem putList_hdr (e : Engine) : (xs : DMs) → (s : St) → SameHdr s (putList e s xs).1
  | .nil, s => by simp only [putList]; exact SameHdr.refl s
  | .cons x xs, s => by
    simp only [putList]
    exact andThen_state (P := SameHdr s) (stepPrim_hdr _ _ _) fun s1 h1 =>
      andThen_state (P := SameHdr s) (h1.trans (putNode_hdr e x s1)) fun s2 h2 => h2.trans (putList_hdr e xs s2)
theorem putKVs_hdr (e : Engine) : (es : DMKVs) → (s : St) → SameHdr s (putKVs e s es).1
  | .nil, s => by simp only [putKVs]; exact SameHdr.refl s
  | .cons k v es, s => by
    simp only [putKVs]
    exact andThen_state (P := SameHdr s) (stepPrim_hdr _ _ _) fun s1 h1 =>
      andThen_state (P := SameHdr s) (h1.trans (stepPrim_hdr _ _ _)) fun s2 h2 =>
      andThen_state (P := SameHdr s) (h2.trans (stepPrim_hdr _ _ _)) fun s3 h3 =>
      andThen_state (P := SameHdr s) (h3.trans (putNode_hdr e v s3)) fun s4 h4 => h4.trans (putKVs_hdr e es s4)
end

/-- a call keeps the builder's type; it keeps the mark too unless it is a refused `AssignNode` that an engine with
    `anPartial` leaves half done -/
theorem step_hdr (e : Engine) (s : St) (op : Op) :
    (step e s op).1.ty = s.ty ∧ ((step e s op).1.tainted = s.tainted ∨ e.anPartial = true) := by
  unfold step
  split
  · exact ⟨rfl, Or.inl rfl⟩
  · unfold stepU
    split
    · rename_i v
      split
      · have hp := putNode_hdr e v s
        split
        · rename_i st' heq
          rw [heq] at hp
          exact ⟨hp.1, Or.inl hp.2⟩
        · split
          · rename_i hc
            simp only [Bool.and_eq_true] at hc
            exact ⟨rfl, Or.inr hc.1⟩
          · exact ⟨rfl, Or.inl rfl⟩
        · exact ⟨rfl, Or.inl rfl⟩
      · exact ⟨(stepPrim_hdr _ _ _).1, Or.inl (stepPrim_hdr _ _ _).2⟩
    · exact ⟨(stepPrim_hdr _ _ _).1, Or.inl (stepPrim_hdr _ _ _).2⟩

theorem run_ty (e : Engine) (s : St) (h : List Op) : (run e s h).1.ty = s.ty := by
  induction h generalizing s with
  | nil => rfl
  | cons op ops ih =>
    have h1 := (step_hdr e s op).1
    cases hs : step e s op with
    | mk s' o =>
      rw [hs] at h1
      cases o with
      | ok => rw [run_cons_ok ops hs, ih]; exact h1
      | err c => rw [run_cons_err ops hs, ih]; exact h1
      | panic => rw [run_cons_panic ops hs]; exact h1

/-- An engine that rolls a refused `AssignNode` back never leaves the contract's machine. -/
theorem run_not_tainted {e : Engine} (he : e.anPartial = false) (s : St) (h : List Op) :
    (run e s h).1.tainted = s.tainted := by
  induction h generalizing s with
  | nil => rfl
  | cons op ops ih =>
    have h1 : (step e s op).1.tainted = s.tainted := by
      rcases (step_hdr e s op).2 with h | h
      · exact h
      · rw [he] at h; cases h
    cases hs : step e s op with
    | mk s' o =>
      rw [hs] at h1
      cases o with
      | ok => rw [run_cons_ok ops hs, ih]; exact h1
      | err c => rw [run_cons_err ops hs, ih]; exact h1
      | panic => rw [run_cons_panic ops hs]; exact h1

theorem run_tainted {e : Engine} {s : St} (ht : s.tainted = true) (h : List Op) : (run e s h).1 = s := by
  cases h with
  | nil => rfl
  | cons op ops =>
    have : step e s op = (s, .panic) := by unfold step; simp [ht]
    rw [run_cons_panic ops this]

end RAsm
end Ipld
