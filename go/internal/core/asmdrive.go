package core

import (
	"encoding/hex"
	"errors"
	"fmt"
	"strings"

	"github.com/ipld/go-ipld-prime/datamodel"
	"github.com/ipld/go-ipld-prime/schema"
)

// AsmOp is one call of an assembler history (mirrors Ipld.Asm.Op of the Lean model).
type AsmOp struct {
	Kind string // BM BL AK AV AE A AN F, and R: Reset() on the root builder
	Hint int64
	Key  []byte
	V    Val
	// Expect is what the builder contract says this call returns (filled by the generator):
	// "ok", "e:repeatedKey", "e:wrongKind", "e:other"; "" = no expectation
	Expect string
	// Note names an injected call for the run's distribution ("" for the legal calls); not part of the token form
	Note string
}

func (op AsmOp) Tokens() string {
	switch op.Kind {
	case "BM", "BL":
		return fmt.Sprintf("%s%d", op.Kind, op.Hint)
	case "AE":
		return "AE s" + hex.EncodeToString(op.Key)
	case "A", "AN":
		return op.Kind + " " + op.V.Term()
	}
	return op.Kind
}

func OpsLine(ops []AsmOp) string {
	parts := make([]string, len(ops))
	for i, o := range ops {
		parts[i] = o.Tokens()
	}
	return strings.Join(parts, " ")
}

// ParseOps parses the token form back (for replays).
func ParseOps(toks []string) ([]AsmOp, error) {
	var ops []AsmOp
	for len(toks) > 0 {
		t := toks[0]
		toks = toks[1:]
		switch {
		case t == "AK" || t == "AV" || t == "F" || t == "R":
			ops = append(ops, AsmOp{Kind: t})
		case t == "AE":
			if len(toks) == 0 || toks[0][0] != 's' {
				return nil, fmt.Errorf("bad AE")
			}
			k, err := hex.DecodeString(toks[0][1:])
			if err != nil {
				return nil, err
			}
			ops = append(ops, AsmOp{Kind: "AE", Key: k})
			toks = toks[1:]
		case t == "A" || t == "AN":
			v, rest, err := ParseTerm(toks)
			if err != nil {
				return nil, err
			}
			ops = append(ops, AsmOp{Kind: t, V: v})
			toks = rest
		case strings.HasPrefix(t, "BM") || strings.HasPrefix(t, "BL"):
			var h int64
			if _, err := fmt.Sscanf(t[2:], "%d", &h); err != nil {
				return nil, err
			}
			ops = append(ops, AsmOp{Kind: t[:2], Hint: h})
		default:
			return nil, fmt.Errorf("bad op token %q", t)
		}
	}
	return ops, nil
}

func ClassifyAsmErr(err error) string {
	if err == nil {
		return "ok"
	}
	var rk datamodel.ErrRepeatedMapKey
	if errors.As(err, &rk) {
		return "e:repeatedKey"
	}
	var rkp *datamodel.ErrRepeatedMapKey
	if errors.As(err, &rkp) {
		return "e:repeatedKey"
	}
	var wk datamodel.ErrWrongKind
	if errors.As(err, &wk) {
		return "e:wrongKind"
	}
	return "e:other"
}

// keyAssemblyEnded: the refusal is one by which a key assembler ends (the map assembler expects a key again): besides the
// repeated key, generated code's refusal of a key that is no field / no discriminant / a second key of a union.  A
// wrong-kind refusal leaves the key assembler waiting.
func keyAssemblyEnded(err error) bool {
	if err == nil {
		return false
	}
	var ik schema.ErrInvalidKey
	var ikp *schema.ErrInvalidKey
	var nu schema.ErrNotUnionStructure
	var nup *schema.ErrNotUnionStructure
	return errors.As(err, &ik) || errors.As(err, &ikp) || errors.As(err, &nu) || errors.As(err, &nup)
}

type gframe struct {
	isMap bool
	ma    datamodel.MapAssembler
	la    datamodel.ListAssembler
	cur   datamodel.NodeAssembler
	phase int // 0 init, 1 midKey, 2 expectValue, 3 midValue
}

func assignScalar(na datamodel.NodeAssembler, v Val) error {
	return Assemble(na, v, nil)
}

// RunOps interprets a history against a real builder.  The receiver of each call is the object the
// contract makes current.  Returns the per-call outcomes and "built <term>" / "unfinished".
// mkNode builds the finished node handed to AssignNode.
func RunOps(nb datamodel.NodeBuilder, ops []AsmOp, mkNode func(Val) (datamodel.Node, error)) (outs []string, final string) {
	var frames []*gframe
	rootDone := false
	final = "unfinished"
	// the value was accepted by the current value position
	delivered := func() {
		if len(frames) == 0 {
			rootDone = true
			return
		}
		frames[len(frames)-1].phase = 0
	}
	valueCall := func(na datamodel.NodeAssembler, op AsmOp) (string, bool) {
		switch op.Kind {
		case "A":
			if op.V.K == '[' || op.V.K == '{' {
				return "panic", false
			}
			cls := ClassifyAsmErr(assignScalar(na, op.V))
			if cls == "ok" {
				delivered()
			}
			return cls, true
		case "AN":
			n, err := mkNode(op.V)
			if err != nil {
				return "harness:" + err.Error(), false
			}
			cls := ClassifyAsmErr(na.AssignNode(n))
			if cls == "ok" {
				delivered()
			}
			return cls, true
		case "BM":
			ma, err := na.BeginMap(op.Hint)
			if err != nil {
				return ClassifyAsmErr(err), true
			}
			frames = append(frames, &gframe{isMap: true, ma: ma})
			return "ok", true
		case "BL":
			la, err := na.BeginList(op.Hint)
			if err != nil {
				return ClassifyAsmErr(err), true
			}
			frames = append(frames, &gframe{la: la})
			return "ok", true
		}
		return "panic", false
	}
	laterReset := func(i int) bool {
		for _, op := range ops[i+1:] {
			if op.Kind == "R" {
				return true
			}
		}
		return false
	}
	skipping := false // a call panicked (or was misuse the harness does not make): nothing is called until the next Reset
	for i, op := range ops {
		var out string
		cont := true
		if op.Kind == "R" {
			// Reset() on the root builder: legal in any state; what follows is a new history
			func() {
				defer func() {
					if r := recover(); r != nil {
						out, cont = "panic", false
					}
				}()
				nb.Reset()
				out = "reset"
			}()
			outs = append(outs, out)
			frames, rootDone, skipping = nil, false, false
			if !cont {
				return outs, "unfinished"
			}
			continue
		}
		if skipping {
			outs = append(outs, "skipped")
			continue
		}
		func() {
			defer func() {
				if r := recover(); r != nil {
					out, cont = "panic", false
				}
			}()
			if len(frames) == 0 {
				if rootDone {
					out, cont = "panic", false
					return
				}
				out, cont = valueCall(nb, op)
				return
			}
			f := frames[len(frames)-1]
			switch {
			case f.isMap && f.phase == 0:
				switch op.Kind {
				case "AK":
					f.cur = f.ma.AssembleKey()
					f.phase = 1
					out = "ok"
				case "AE":
					va, err := f.ma.AssembleEntry(string(op.Key))
					out = ClassifyAsmErr(err)
					if err == nil {
						f.cur, f.phase = va, 3
					}
				case "F":
					out = ClassifyAsmErr(f.ma.Finish())
					if out == "ok" {
						frames = frames[:len(frames)-1]
						delivered()
					}
				default:
					out, cont = "panic", false
				}
			case f.isMap && f.phase == 1:
				var kerr error
				switch op.Kind {
				case "A":
					if op.V.K == '[' || op.V.K == '{' {
						out, cont = "panic", false
						return
					}
					kerr = assignScalar(f.cur, op.V)
					out = ClassifyAsmErr(kerr)
				case "AN":
					n, err := mkNode(op.V)
					if err != nil {
						out, cont = "harness:"+err.Error(), false
						return
					}
					kerr = f.cur.AssignNode(n)
					out = ClassifyAsmErr(kerr)
				case "BM":
					_, err := f.cur.BeginMap(op.Hint)
					out = ClassifyAsmErr(err)
					if err == nil {
						out, cont = "harness:key assembler began a map", false
					}
				case "BL":
					_, err := f.cur.BeginList(op.Hint)
					out = ClassifyAsmErr(err)
					if err == nil {
						out, cont = "harness:key assembler began a list", false
					}
				default:
					out, cont = "panic", false
					return
				}
				switch {
				case out == "ok":
					f.phase = 2
				case out == "e:repeatedKey" || keyAssemblyEnded(kerr):
					f.phase = 0
				}
			case f.isMap && f.phase == 2:
				if op.Kind != "AV" {
					out, cont = "panic", false
					return
				}
				f.cur = f.ma.AssembleValue()
				f.phase = 3
				out = "ok"
			case f.phase == 3:
				out, cont = valueCall(f.cur, op)
			case !f.isMap && f.phase == 0:
				switch op.Kind {
				case "AV":
					f.cur = f.la.AssembleValue()
					f.phase = 3
					out = "ok"
				case "F":
					out = ClassifyAsmErr(f.la.Finish())
					if out == "ok" {
						frames = frames[:len(frames)-1]
						delivered()
					}
				default:
					out, cont = "panic", false
				}
			default:
				out, cont = "panic", false
			}
		}()
		outs = append(outs, out)
		if !cont {
			if !laterReset(i) {
				return outs, "unfinished"
			}
			skipping = true
		}
	}
	if skipping {
		return outs, "unfinished"
	}
	if len(frames) == 0 && rootDone {
		func() {
			defer func() {
				if r := recover(); r != nil {
					final = fmt.Sprintf("panic-in-build %v", r)
				}
			}()
			n := nb.Build()
			v, err := ReadNode(n)
			if err != nil {
				final = "read-error " + err.Error()
				return
			}
			final = "built " + v.Term()
		}()
	}
	return outs, final
}

// HistoryOpts says which refused calls GenHistoryOpts mixes into a legal history.
type HistoryOpts struct {
	// the two rejections every builder pins down: a repeated key (supplied in each of the three ways), a kind the KEY position cannot hold
	Inject bool
	// typed builders only (every position of the type must hold exactly one kind - the plain-schema fragment): calls of a kind the
	// VALUE position cannot hold (scalar assigns, Begin* of the other recursive kind, AssignNode of such nodes)
	WrongKindValues bool
	// typed builders only: AssignNode of a map/list node that is the legal value with ONE entry's value replaced by a scalar of
	// another kind - the copy is refused part of the way through; the legal history for the position follows on the same assembler
	RefusedAssignNode bool
}

func kindClass(v Val) byte {
	if v.K == 'f' {
		return 't'
	}
	return v.K
}

// otherKindScalar is a non-null scalar whose kind differs from v's.
func otherKindScalar(v Val, r *Rand) Val {
	cands := []Val{Int(int64(r.Intn(9))), Str("x"), Bool(r.Bool()), Float(1.5), Bytes([]byte{1}), Str("")}
	for {
		c := cands[r.Intn(len(cands))]
		if kindClass(c) != kindClass(v) {
			return c
		}
	}
}

// refusedValueCalls: calls the typed value position that is about to receive v must refuse (v is not null: the kind of a
// nullable position is not known from a null).
func refusedValueCalls(v Val, r *Rand, o HistoryOpts) []AsmOp {
	var ops []AsmOp
	if v.K == 'n' {
		return nil
	}
	if o.WrongKindValues && r.Chance(1, 5) {
		for n := 1 + r.Intn(2); n > 0; n-- {
			switch r.Intn(6) {
			case 0, 1:
				ops = append(ops, AsmOp{Kind: "A", V: otherKindScalar(v, r), Expect: "e:wrongKind", Note: "value-kind"})
			case 2:
				ops = append(ops, AsmOp{Kind: "AN", V: otherKindScalar(v, r), Expect: "e:wrongKind", Note: "value-kind"})
			case 3:
				if v.K != '{' {
					ops = append(ops, AsmOp{Kind: "BM", Hint: int64(r.Intn(3)) - 1, Expect: "e:wrongKind", Note: "value-kind"})
				}
			case 4:
				if v.K != '[' {
					ops = append(ops, AsmOp{Kind: "BL", Hint: int64(r.Intn(3)) - 1, Expect: "e:wrongKind", Note: "value-kind"})
				}
			case 5:
				if v.K != '[' && r.Bool() {
					ops = append(ops, AsmOp{Kind: "AN", V: List(), Expect: "e:wrongKind", Note: "value-kind"})
				} else if v.K != '{' {
					ops = append(ops, AsmOp{Kind: "AN", V: Map(), Expect: "e:wrongKind", Note: "value-kind"})
				}
			}
		}
	}
	if o.RefusedAssignNode && (v.K == '[' && len(v.L) > 0 || v.K == '{' && len(v.M) > 0) && r.Chance(1, 5) {
		// the legal value with one entry's value of the wrong kind (an entry whose value is not null; later entries preferred,
		// so that part of the node is copied before the refusal)
		n := len(v.L) + len(v.M)
		j := n - 1 - r.Intn((n+1)/2)
		at := func(i int) Val {
			if v.K == '[' {
				return v.L[i]
			}
			return v.M[i].V
		}
		for tries := 0; tries < n && at(j).K == 'n'; tries++ {
			j = (j + 1) % n
		}
		if at(j).K != 'n' {
			bad := Val{K: v.K}
			if v.K == '[' {
				bad.L = append([]Val{}, v.L...)
				bad.L[j] = otherKindScalar(v.L[j], r)
			} else {
				bad.M = append([]KV{}, v.M...)
				bad.M[j] = KV{v.M[j].K, otherKindScalar(v.M[j].V, r)}
			}
			ops = append(ops, AsmOp{Kind: "AN", V: bad, Expect: "e:refusedNode", Note: "refused-node"})
		}
	}
	return ops
}

// GenHistory emits a legal history that builds v, drawing every choice the contract leaves open from r,
// and (if inject) the two pinned rejections at random positions.  Every op carries the outcome the
// contract prescribes; rejected calls leave no effect, so the history must build exactly v.
func GenHistory(v Val, r *Rand, inject bool, atRoot bool) []AsmOp {
	return GenHistoryOpts(v, r, HistoryOpts{Inject: inject})
}

// GenHistoryOpts is GenHistory with the refused calls chosen by o.
func GenHistoryOpts(v Val, r *Rand, o HistoryOpts) []AsmOp {
	if o.WrongKindValues || o.RefusedAssignNode {
		if pre := refusedValueCalls(v, r, o); len(pre) > 0 {
			o2 := o
			return append(pre, genHistoryAt(v, r, o2)...)
		}
	}
	return genHistoryAt(v, r, o)
}

func genHistoryAt(v Val, r *Rand, o HistoryOpts) []AsmOp {
	inject := o.Inject
	var ops []AsmOp
	ok := func(o AsmOp) AsmOp { o.Expect = "ok"; return o }
	hint := func(n int) int64 {
		switch r.Intn(4) {
		case 0:
			return -1
		case 1:
			return 0
		case 2:
			return int64(r.Intn(2*n + 3))
		}
		return int64(n)
	}
	switch v.K {
	case '[':
		if r.Chance(1, 8) {
			return []AsmOp{ok(AsmOp{Kind: "AN", V: v})}
		}
		ops = append(ops, ok(AsmOp{Kind: "BL", Hint: hint(len(v.L))}))
		for _, x := range v.L {
			ops = append(ops, ok(AsmOp{Kind: "AV"}))
			ops = append(ops, GenHistoryOpts(x, r, o)...)
		}
		return append(ops, ok(AsmOp{Kind: "F"}))
	case '{':
		if r.Chance(1, 8) {
			return []AsmOp{ok(AsmOp{Kind: "AN", V: v})}
		}
		ops = append(ops, ok(AsmOp{Kind: "BM", Hint: hint(len(v.M))}))
		for i, e := range v.M {
			// pinned rejection 1: a repeated key, supplied in each of the three ways
			if inject && i > 0 && r.Chance(1, 3) {
				dup := v.M[r.Intn(i)].K
				switch r.Intn(3) {
				case 0:
					ops = append(ops, AsmOp{Kind: "AE", Key: dup, Expect: "e:repeatedKey"})
				case 1:
					ops = append(ops, ok(AsmOp{Kind: "AK"}), AsmOp{Kind: "A", V: Val{K: 's', S: dup}, Expect: "e:repeatedKey"})
				case 2:
					ops = append(ops, ok(AsmOp{Kind: "AK"}), AsmOp{Kind: "AN", V: Val{K: 's', S: dup}, Expect: "e:repeatedKey"})
				}
			}
			switch r.Intn(3) {
			case 0:
				ops = append(ops, ok(AsmOp{Kind: "AE", Key: e.K}))
			default:
				ops = append(ops, ok(AsmOp{Kind: "AK"}))
				// pinned rejection 2: kinds the key position cannot hold
				if inject && r.Chance(1, 4) {
					for n := 1 + r.Intn(2); n > 0; n-- {
						switch r.Intn(5) {
						case 0:
							ops = append(ops, AsmOp{Kind: "A", V: Int(int64(r.Intn(9))), Expect: "e:wrongKind"})
						case 1:
							ops = append(ops, AsmOp{Kind: "A", V: Null(), Expect: "e:wrongKind"})
						case 2:
							ops = append(ops, AsmOp{Kind: "BM", Hint: 0, Expect: "e:wrongKind"})
						case 3:
							ops = append(ops, AsmOp{Kind: "BL", Hint: 1, Expect: "e:wrongKind"})
						case 4:
							ops = append(ops, AsmOp{Kind: "AN", V: List(Int(1)), Expect: "e:other"})
						}
					}
				}
				if r.Bool() {
					ops = append(ops, ok(AsmOp{Kind: "A", V: Val{K: 's', S: e.K}}))
				} else {
					ops = append(ops, ok(AsmOp{Kind: "AN", V: Val{K: 's', S: e.K}}))
				}
				ops = append(ops, ok(AsmOp{Kind: "AV"}))
			}
			ops = append(ops, GenHistoryOpts(e.V, r, o)...)
		}
		return append(ops, ok(AsmOp{Kind: "F"}))
	}
	if r.Chance(1, 6) {
		return []AsmOp{ok(AsmOp{Kind: "AN", V: v})}
	}
	return []AsmOp{ok(AsmOp{Kind: "A", V: v})}
}

// TasmLine is the case line of the typed-assembler model (Lean: Driver/TypedAsm.lean) for a history on the type-level
// builder of t; engine = bindnode | gen | ideal.
func TasmLine(engine string, t *SType, ops []AsmOp) string {
	return "tasm.run " + engine + " " + t.Tokens() + " OPS " + OpsLine(ops)
}

// TasmLineLvl is the case line for a history on the builder of t at the level ("type" | "repr": Model/TypedAssembler.lean,
// Model/ReprAssembler.lean).
func TasmLineLvl(engine, lvl string, t *SType, ops []AsmOp) string {
	if lvl == "type" {
		return TasmLine(engine, t, ops)
	}
	return "tasm.run " + engine + " " + lvl + " " + t.Tokens() + " OPS " + OpsLine(ops)
}

// TasmCompare compares what a typed builder answered call by call (RunOps' form: "<out…> | <final>") with the model's
// answer.  exact: every outcome token must be the model's (the engine's error classes are modelled); otherwise accepted /
// refused / panic must agree and the repeated-key class where either side reports it.  No verdict is given on the calls
// from one the model answers `unclaimed` (it makes no claim after a refused AssignNode the engine leaves half done), or
// the harness could not make (`harness:…`), up to the next Reset (`reset`) - on the rest and the result if there is none.
// "" = agree (or the type is outside the model).
func TasmCompare(impl, model string, exact bool) string {
	if model == "unsupported" {
		return ""
	}
	ip := strings.SplitN(impl, " | ", 2)
	mp := strings.SplitN(model, " | ", 2)
	if len(ip) != 2 || len(mp) != 2 {
		return "malformed answer"
	}
	ic, mc := strings.Fields(ip[0]), strings.Fields(mp[0])
	class := func(o string) string {
		if exact || o == "ok" || o == "panic" || o == "e:repeatedKey" {
			return o
		}
		if strings.HasPrefix(o, "e:") {
			return "refused"
		}
		return o
	}
	laterReset := func(j int) bool {
		for _, o := range mc[min(j+1, len(mc)):] {
			if o == "reset" {
				return true
			}
		}
		return false
	}
	ignoring := false
	for j := 0; j < len(ic) || j < len(mc); j++ {
		if j < len(mc) && mc[j] == "reset" {
			ignoring = false
		}
		if ignoring {
			continue
		}
		if j < len(mc) && mc[j] == "unclaimed" || j < len(ic) && strings.HasPrefix(ic[j], "harness:") {
			if !laterReset(j) {
				return ""
			}
			ignoring = true
			continue
		}
		if j >= len(ic) || j >= len(mc) {
			return fmt.Sprintf("call %d: one side stopped", j)
		}
		if class(ic[j]) != class(mc[j]) {
			return fmt.Sprintf("call %d: impl %s, model %s", j, ic[j], mc[j])
		}
	}
	if mp[1] == "unclaimed" {
		return "" // the history ends in a state the model makes no claim about
	}
	if ip[1] != mp[1] {
		return "result: impl " + ip[1] + ", model " + mp[1]
	}
	return ""
}

// TasmEnginesPart: the first call which the models of the two engines answer differently (accepted / refused) for a reason
// that is no finding - where a key that cannot get a value is refused (generated code: at the key; the reflection binding:
// at the value), BeginMap on a representation that is no map.  The builder contract does not say which is right, so the
// contract's machine (`ideal`) is no oracle from that call on.  -1: none (a difference that IS a finding - a repeated key
// accepted, a refused AssignNode left half done - is not one of these).
func TasmEnginesPart(bindModel, genModel, idealModel string) int {
	bm, gm, im := strings.Fields(strings.SplitN(bindModel, " | ", 2)[0]), strings.Fields(strings.SplitN(genModel, " | ", 2)[0]), strings.Fields(strings.SplitN(idealModel, " | ", 2)[0])
	cls := func(o string) string {
		if strings.HasPrefix(o, "e:") && o != "e:repeatedKey" {
			return "refused"
		}
		return o
	}
	for j := 0; j < len(bm) && j < len(gm); j++ {
		if gm[j] == "unclaimed" || bm[j] == "unclaimed" {
			return -1
		}
		if cls(bm[j]) != cls(gm[j]) {
			if j < len(im) && im[j] == "e:repeatedKey" {
				return -1 // the contract pins the repeated key: the engine that accepts it deviates
			}
			return j
		}
	}
	return -1
}

// TasmUpTo: the answer cut before call j (the result left open)
func TasmUpTo(ans string, j int) string {
	p := strings.SplitN(ans, " | ", 2)
	t := strings.Fields(p[0])
	if j < len(t) {
		t = t[:j]
	}
	return strings.Join(t, " ") + " | (open)"
}

// PlainReprType: the fragment of schemas whose REPRESENTATION-level builders the model covers (Lean: RAsm.plainR):
// everything but `any` and the listpairs representation.
func PlainReprType(t *SType) bool {
	switch t.K {
	case "any":
		return false
	case "list", "map":
		return t.Elem != nil && PlainReprType(t.Elem)
	case "struct":
		if t.SRepr == "listpairs" {
			return false
		}
		for _, f := range t.Fields {
			if !PlainReprType(f.T) {
				return false
			}
		}
	case "union":
		for _, m := range t.Members {
			if !PlainReprType(m.T) {
				return false
			}
		}
	}
	return true
}

// PlainType: the fragment of schemas whose type-level builders the typed-assembler model covers (Lean: TAsm.plain):
// scalars, links, lists and String-keyed maps of such, structs of such (any representation: at type level a struct is a map).
// Every position of such a type holds exactly one kind (or null, where nullable).
func PlainType(t *SType) bool {
	switch t.K {
	case "bool", "int", "float", "str", "bytes", "link":
		return true
	case "list", "map":
		return t.Elem != nil && PlainType(t.Elem)
	case "struct":
		for _, f := range t.Fields {
			if !PlainType(f.T) {
				return false
			}
		}
		return true
	}
	return false
}

// TasmEngineFlag: the engine's model accepts, as a key handed to a key assembler, a call the contract's machine answers with
// the repeated-key error (the one named deviation of generated code that is an acceptance: keyAsmDupMapKey).
func TasmEngineFlag(engineModel, idealModel string) bool {
	em, im := strings.Fields(strings.SplitN(engineModel, " | ", 2)[0]), strings.Fields(strings.SplitN(idealModel, " | ", 2)[0])
	for j := 0; j < len(em) && j < len(im); j++ {
		if em[j] != im[j] {
			return em[j] == "ok" && im[j] == "e:repeatedKey"
		}
	}
	return false
}
