package main

// extraGenFiles: fact extractors that pattern-match one AST shape and emit a table
// (never by widening the translator).  Added per property.
func extraGenFiles() []genFile {
	return append(append(append(factGenFiles(), skeletonGenFiles()...), moreSkeletonGenFiles()...), coreSkeletonGenFiles()...)
}
