/-
  C16 — transforms are pure functional updates.  `Transform.focused` (the model of Go's
  `traversal.FocusedTransform`) against a reference update `updateAt` defined by recursion on the
  path: replace / remove the entry, keep all other entries in order.  Property theorems only; helper
  lemmas are in `Lemmas/Transform.lean` and (expanded graph, any number of links: B6, B7 below)
  `Lemmas/TransformExpand.lean`.

  Vocabulary (all in `Lemmas/Transform.lean`):
    * `getPlain root path = some target` — the target exists and no link is crossed to reach it
      (`LookupBySegment` only; a target found by `traversal.Get` with an empty store is such a target:
      `getPlain_of_get`);
    * `setEntry l k r` — replace (`some`) / remove (`none`) the first entry with key `k`, keep the rest in order;
    * `setChild n seg r` — the same for one child of a map (by key) or a list (by index);
    * `updateAt root path r` — the tree with the node at `path` replaced / removed.
  `root.NoDup` (no map in the tree carries a key twice — the invariant C12 proves of every built node)
  is needed wherever the loop that rewrites *every* matching entry must agree with "rewrite the entry":
  see `identity_needs_nodup` for what happens without it.
-/
import IpldModel.Model.Transform
import IpldModel.Lemmas.Transform
import IpldModel.Lemmas.TransformExpand
namespace Ipld.Props.C16
open Ipld Ipld.Sel Ipld.Walk Ipld.Transform

variable (fn : Fn) (linkOf : DM → Bytes) (canon : DM → DM) (cp : Bool)

/-- A target `traversal.Get` finds with nothing to load from is an existing target reached without
    crossing a link. -/
theorem getPlain_of_get (path : Path) (fuel : Nat) (root target : DM) :
    Walk.get [] fuel root path = .ok target → getPlain root path = some target :=
  getPlain_of_get_nil path fuel root target

/-! ## B0 — no link, no store -/

/-- **focused_no_link_store_unchanged.**  On a tree without links — any path (existing or not), any
    fuel, with or without `createParents`, success or error — the store is never consulted and comes
    back unchanged: the result is the result computed with an empty store, with the caller's store
    put back. -/
theorem focused_no_link_store_unchanged (fuel : Nat) (at_ : Path) (root : DM) (path : Path) (st : TSt) :
    Spec.hasLink root = false →
    focused fn linkOf canon cp fuel at_ (some root) path st =
      reState st (focused fn linkOf canon cp fuel at_ (some root) path { store := [], written := [] }) :=
  fun h => focused_linkfree fn linkOf canon cp fuel at_ (some root) path st
    (by intro d hd; injection hd with hd; subst hd; exact h)

/-- In particular a successful transform of a link-free tree returns the store it was given, and
    gives the same tree with any other store. -/
theorem focused_no_link_store_unchanged' (fuel : Nat) (at_ : Path) (root : DM) (path : Path) (st st' : TSt)
    (o : Option DM) :
    Spec.hasLink root = false → focused fn linkOf canon cp fuel at_ (some root) path st = .ok (o, st') →
    st' = st ∧ ∀ st2, focused fn linkOf canon cp fuel at_ (some root) path st2 = .ok (o, st2) := by
  intro hl h
  rw [focused_no_link_store_unchanged fn linkOf canon cp fuel at_ root path st hl] at h
  cases h0 : focused fn linkOf canon cp fuel at_ (some root) path { store := [], written := [] } with
  | error e => rw [h0] at h; cases h
  | ok q =>
    obtain ⟨o0, s0⟩ := q
    rw [h0] at h
    simp only [reState] at h
    injection h with h; injection h with h1 h2; subst h1 h2
    refine ⟨rfl, fun st2 => ?_⟩
    rw [focused_no_link_store_unchanged fn linkOf canon cp fuel at_ root path st2 hl, h0]
    rfl

/-! ## B2 — the transform is the functional update, and the callback sees what is there -/

/-- **focused_eq_update.**  Existing target, no link crossed, distinct keys: the transform returns
    the reference update with the callback's answer, computed from the position as the code reports
    it (`at_ ++ path`) and the node currently there; the store is returned unchanged. -/
theorem focused_eq_update (path : Path) (root target : DM) (at_ : Path) (fuel : Nat) (st : TSt) :
    root.NoDup → getPlain root path = some target → path.length < fuel →
    focused fn linkOf canon cp fuel at_ (some root) path st =
      .ok (updateAt root path (fn (at_ ++ path) (some target)), st) :=
  focused_eq_updateAt fn linkOf canon cp path root target at_ fuel st

/-- **callback_sees_current.**  The callback is consulted exactly once, at `at_ ++ path`, with the
    node currently there: any two callbacks that agree on that one question give the same result. -/
theorem callback_sees_current (fn' : Fn) (path : Path) (root target : DM) (at_ : Path) (fuel : Nat) (st : TSt) :
    root.NoDup → getPlain root path = some target → path.length < fuel →
    fn' (at_ ++ path) (some target) = fn (at_ ++ path) (some target) →
    focused fn' linkOf canon cp fuel at_ (some root) path st = focused fn linkOf canon cp fuel at_ (some root) path st := by
  intro hn hg hf he
  rw [focused_eq_update fn' linkOf canon cp path root target at_ fuel st hn hg hf,
    focused_eq_update fn linkOf canon cp path root target at_ fuel st hn hg hf, he]

/-- The reference update puts the new node at `path`… -/
theorem update_reads_back (path : Path) (root target v y : DM) :
    getPlain root path = some target → updateAt root path (some v) = some y → getPlain y path = some v :=
  getPlain_updateAt_same path root target v y

/-- …and leaves every position off the path as it was (B3 lifted along the path, for a replacement). -/
theorem update_off_path (path : Path) (root target : DM) (q : Path) (v y : DM) :
    getPlain root path = some target → OffPath root path q → updateAt root path (some v) = some y →
    getPlain y q = getPlain root q :=
  getPlain_updateAt_off path root target q v y

/-! ## B1 — the identity transform -/

/-- **identity_transform.**  A callback that answers with what it is shown returns an equal tree. -/
theorem identity_transform (path : Path) (root target : DM) (at_ : Path) (fuel : Nat) (st : TSt) :
    (∀ p prev, fn p prev = prev) → root.NoDup → getPlain root path = some target → path.length < fuel →
    focused fn linkOf canon cp fuel at_ (some root) path st = .ok (some root, st) := by
  intro hid hn hg hf
  rw [focused_eq_update fn linkOf canon cp path root target at_ fuel st hn hg hf, hid,
    updateAt_self path root target hg]

/-- The same with the target given by `traversal.Get` (nothing to load from). -/
theorem identity_transform_get (path : Path) (root target : DM) (gfuel fuel : Nat) (st : TSt) :
    (∀ p prev, fn p prev = prev) → root.NoDup → Walk.get [] gfuel root path = .ok target → path.length < fuel →
    focused fn linkOf canon cp fuel [] (some root) path st = .ok (some root, st) :=
  fun hid hn hg hf =>
    identity_transform fn linkOf canon cp path root target [] fuel st hid hn (getPlain_of_get path gfuel root target hg) hf

/-- Without `NoDup` the statement is false in the model: on a map carrying the key "a" twice the end
    case shows the callback the first entry and writes its answer into *every* matching entry.
    (Not reachable in Go: no node builder produces a repeated key, C12.) -/
theorem identity_needs_nodup :
    focused (fun _ prev => prev) linkOf canon cp 2 []
      (some (.map (.cons [0x61] (.int 1) (.cons [0x61] (.int 2) .nil)))) [.str [0x61]] ⟨[], []⟩
    = .ok (some (.map (.cons [0x61] (.int 1) (.cons [0x61] (.int 1) .nil))), ⟨[], []⟩) := by rfl

/-! ## B3 — untouched entries are equal and in order -/

/-- The map loop: entries whose key does not match the segment are kept, unchanged, in order. -/
theorem untouched_map_entries (l : List (Bytes × DM)) (seg : Seg) (r : Option DM) :
    (focusedMapSet l seg r).filter (fun e => !keyMatches e.1 seg) = l.filter (fun e => !keyMatches e.1 seg) :=
  focusedMapSet_others seg r l

/-- …the matching ones all carry the new value, or are all gone. -/
theorem matching_map_entries (l : List (Bytes × DM)) (seg : Seg) (v : DM) :
    (focusedMapSet l seg (some v)).filter (fun e => keyMatches e.1 seg) =
      (l.filter (fun e => keyMatches e.1 seg)).map (fun e => (e.1, v)) ∧
    (focusedMapSet l seg none).filter (fun e => keyMatches e.1 seg) = [] :=
  ⟨focusedMapSet_matching seg v l, focusedMapSet_removed seg l⟩

/-- **untouched_equal_in_order (maps).**  Whatever the transform does below a map — any path, found
    or missing key, `createParents` or not, links below or not — if it succeeds the result is a map
    whose entries not matching the first segment are the original ones, unchanged, in the same order. -/
theorem untouched_map (fuel : Nat) (at_ : Path) (es : DMKVs) (seg : Seg) (p2 : Path) (st st' : TSt) (o : Option DM) :
    focused fn linkOf canon cp (fuel + 1) at_ (some (.map es)) (seg :: p2) st = .ok (o, st') →
    ∃ es' : DMKVs, o = some (.map es') ∧
      es'.toList.filter (fun e => !keyMatches e.1 seg) = es.toList.filter (fun e => !keyMatches e.1 seg) :=
  focused_map_others fn linkOf canon cp fuel at_ es seg p2 st st' o

/-- **untouched_equal_in_order (lists).**  Whatever the transform does below a list, if it succeeds the
    result is a list that differs from the original at one position `i` at most: `take i` is
    preserved, and so is `drop (i+1)` (found at `drop i` if the element was removed).  For an append
    `i` is the length. -/
theorem untouched_list (fuel : Nat) (at_ : Path) (xs : DMs) (seg : Seg) (p2 : Path) (st st' : TSt) (o : Option DM) :
    focused fn linkOf canon cp (fuel + 1) at_ (some (.list xs)) (seg :: p2) st = .ok (o, st') →
    ∃ (xs' : DMs) (i : Nat), o = some (.list xs') ∧ i ≤ xs.toList.length ∧
      xs'.toList.take i = xs.toList.take i ∧
      (xs'.toList.drop (i + 1) = xs.toList.drop (i + 1) ∨ xs'.toList.drop i = xs.toList.drop (i + 1)) :=
  focused_list_others fn linkOf canon cp fuel at_ xs seg p2 st st' o

/-! ## B4 — insert and append -/

/-- **insert.**  A missing key at the end of the path: the callback is shown `none`; `some v` appends
    `(key, v)` after all existing entries, `none` returns the map unchanged. -/
theorem insert_missing_key (fuel : Nat) (at_ : Path) (es : DMKVs) (seg : Seg) (st : TSt) :
    lookupBySegment (.map es) seg = none →
    focused fn linkOf canon cp (fuel + 1) at_ (some (.map es)) [seg] st =
      match fn (at_ ++ [seg]) none with
      | none => .ok (some (.map es), st)
      | some v => .ok (some (.map (DMKVs.ofList (es.toList ++ [(seg.toString, v)]))), st) :=
  focused_map_insert fn linkOf canon cp fuel at_ es seg st

/-- **append.**  On a list, "-" or any negative index appends: the callback is shown `none` at the
    position `l.length` (an index segment, not "-"); `some v` adds `v` at the end, `none` returns the
    list unchanged. -/
theorem append_to_list (fuel : Nat) (at_ : Path) (xs : DMs) (seg : Seg) (st : TSt) :
    IsAppendSeg seg →
    focused fn linkOf canon cp (fuel + 1) at_ (some (.list xs)) [seg] st =
      match fn (at_ ++ [Seg.idx xs.toList.length]) none with
      | none => .ok (some (.list xs), st)
      | some v => .ok (some (.list (DMs.ofList (xs.toList ++ [v]))), st) :=
  focused_list_append fn linkOf canon cp fuel at_ xs seg st

/-- "-" is an append segment, and so is every negative index. -/
theorem dash_appends : IsAppendSeg (.str [0x2d]) := Or.inr ⟨by decide, by decide⟩

/-- An index at or past the end is an error, wherever in the path it occurs. -/
theorem index_beyond_bounds (fuel : Nat) (at_ : Path) (xs : DMs) (seg : Seg) (p2 : Path) (st : TSt) (i : Int) :
    seg.index = some i → (xs.toList.length : Int) ≤ i →
    focused fn linkOf canon cp (fuel + 1) at_ (some (.list xs)) (seg :: p2) st = .error .beyondBounds :=
  focused_list_beyond fn linkOf canon cp fuel at_ xs seg p2 st i

/-- A segment that is neither a number nor "-" is an error on a list. -/
theorem not_an_index (fuel : Nat) (at_ : Path) (xs : DMs) (seg : Seg) (p2 : Path) (st : TSt) :
    seg.index = none → lastSegIsDash seg = false →
    focused fn linkOf canon cp (fuel + 1) at_ (some (.list xs)) (seg :: p2) st = .error .notIndex :=
  focused_list_notIndex fn linkOf canon cp fuel at_ xs seg p2 st

/-- Insert below an existing, link-free path `pre` ending in a map: the enlarged map is put back at
    `pre`, everything else is as `updateAt` says; the store is unchanged. -/
theorem insert_at_path (pre : Path) (root : DM) (es : DMKVs) (seg : Seg) (v : DM) (at_ : Path) (f : Nat) (st : TSt) :
    root.NoDup → getPlain root pre = some (.map es) → lookupBySegment (.map es) seg = none →
    fn (at_ ++ pre ++ [seg]) none = some v →
    focused fn linkOf canon cp (pre.length + (f + 1)) at_ (some root) (pre ++ [seg]) st =
      .ok (updateAt root pre (some (.map (DMKVs.ofList (es.toList ++ [(seg.toString, v)])))), st) := by
  intro hn hg hl hv
  apply focused_prefix_ok fn linkOf canon cp pre root (.map es) at_ [seg] (f + 1) st st _ (by simp) hn hg
  rw [focused_map_insert fn linkOf canon cp f (at_ ++ pre) es seg st hl, hv]

/-- Append below an existing, link-free path `pre` ending in a list. -/
theorem append_at_path (pre : Path) (root : DM) (xs : DMs) (seg : Seg) (v : DM) (at_ : Path) (f : Nat) (st : TSt) :
    root.NoDup → getPlain root pre = some (.list xs) → IsAppendSeg seg →
    fn (at_ ++ pre ++ [Seg.idx xs.toList.length]) none = some v →
    focused fn linkOf canon cp (pre.length + (f + 1)) at_ (some root) (pre ++ [seg]) st =
      .ok (updateAt root pre (some (.list (DMs.ofList (xs.toList ++ [v])))), st) := by
  intro hn hg hs hv
  apply focused_prefix_ok fn linkOf canon cp pre root (.list xs) at_ [seg] (f + 1) st st _ (by simp) hn hg
  rw [focused_list_append fn linkOf canon cp f (at_ ++ pre) xs seg st hs, hv]

/-- An error below an existing, link-free path is the transform's error. -/
theorem error_at_path (pre : Path) (root mid : DM) (at_ rest : Path) (k : Nat) (st : TSt) (e : TErr) :
    rest ≠ [] → root.NoDup → getPlain root pre = some mid →
    focused fn linkOf canon cp k (at_ ++ pre) (some mid) rest st = .error e →
    focused fn linkOf canon cp (pre.length + k) at_ (some root) (pre ++ rest) st = .error e :=
  focused_prefix_err fn linkOf canon cp pre root mid at_ rest k st e

/-! ## B5 — across a link -/

/-- **relink.**  The path runs `pre` (no link crossed) to a link `c` whose block `blk` is in the store,
    then `rest ≠ []` inside the block (no further link crossed) to an existing target.  Then the
    block is updated functionally (`blk0`), written as the codec writes it (`canon blk0`) under the
    link `c' = linkOf (canon blk0)`, `.link c'` is put where `.link c` was, and the store gains exactly
    that one entry, in front. -/
theorem relink (pre rest : Path) (root blk target : DM) (c : Bytes) (at_ : Path) (k : Nat) (st : TSt) :
    rest ≠ [] → root.NoDup → blk.NoDup → getPlain root pre = some (.link c) → storeGet st.store c = some blk →
    getPlain blk rest = some target → rest.length < k →
    ∃ blk0, updateAt blk rest (fn (at_ ++ pre ++ rest) (some target)) = some blk0 ∧
      focused fn linkOf canon cp (pre.length + (k + 1)) at_ (some root) (pre ++ rest) st =
        .ok (updateAt root pre (some (.link (linkOf (canon blk0)))),
          { store := (linkOf (canon blk0), canon blk0) :: st.store,
            written := (linkOf (canon blk0), canon blk0) :: st.written }) :=
  focused_through_link fn linkOf canon cp pre rest root blk target c at_ k st

/-- **relink_loads_back.**  With the hypotheses of `relink`, for the returned tree `y` and store `st'`:
    the new link loads the new block; every other link loads what it loaded before; the new link sits
    at `pre`; and (for `pre ≠ []`) `traversal.Get` along `pre` through the new store reaches the new
    link and loads the block as written. -/
theorem relink_loads_back (pre rest : Path) (root blk target : DM) (c : Bytes) (at_ : Path) (k : Nat) (st : TSt) :
    rest ≠ [] → root.NoDup → blk.NoDup → getPlain root pre = some (.link c) → storeGet st.store c = some blk →
    getPlain blk rest = some target → rest.length < k →
    ∃ (blk0 y : DM) (st' : TSt),
      updateAt blk rest (fn (at_ ++ pre ++ rest) (some target)) = some blk0 ∧
      focused fn linkOf canon cp (pre.length + (k + 1)) at_ (some root) (pre ++ rest) st = .ok (some y, st') ∧
      storeGet st'.store (linkOf (canon blk0)) = some (canon blk0) ∧
      (∀ c2, c2 ≠ linkOf (canon blk0) → storeGet st'.store c2 = storeGet st.store c2) ∧
      st'.written = (linkOf (canon blk0), canon blk0) :: st.written ∧
      getPlain y pre = some (.link (linkOf (canon blk0))) ∧
      (∀ q, OffPath root pre q → getPlain y q = getPlain root q) ∧
      (pre ≠ [] → ∀ f, Walk.get st'.store (f + 2) y pre = followLinks st'.store (f + 1) (canon blk0)) := by
  intro hr hn hb hg hs hg2 hk
  obtain ⟨blk0, hb0, hfoc⟩ := relink fn linkOf canon cp pre rest root blk target c at_ k st hr hn hb hg hs hg2 hk
  obtain ⟨y, hy⟩ := updateAt_some pre root (.link (linkOf (canon blk0)))
  refine ⟨blk0, y, _, hb0, by rw [hfoc, hy], storeGet_cons_self _ _ _, fun c2 h2 => storeGet_cons_ne _ _ _ _ h2,
    rfl, getPlain_updateAt_same pre root _ _ y hg hy, fun q ho => getPlain_updateAt_off pre root _ q _ y hg ho hy,
    fun hp f => relink_get pre root y _ c _ _ f hp hg hy⟩

/-- If moreover the codec writes the block as it is (`canon blk0 = blk0`), the callback answered
    `some v` and `v` is not itself a link, reading the whole path back through the new store gives `v`. -/
theorem relink_reads_new_value (pre rest : Path) (root blk target v : DM) (c : Bytes) (at_ : Path) (k : Nat) (st : TSt) :
    pre ≠ [] → rest ≠ [] → root.NoDup → blk.NoDup → getPlain root pre = some (.link c) →
    storeGet st.store c = some blk → getPlain blk rest = some target → rest.length < k →
    fn (at_ ++ pre ++ rest) (some target) = some v → (∀ c', v ≠ .link c') →
    (∀ b, updateAt blk rest (some v) = some b → canon b = b) →
    ∃ (y : DM) (st' : TSt),
      focused fn linkOf canon cp (pre.length + (k + 1)) at_ (some root) (pre ++ rest) st = .ok (some y, st') ∧
      ∀ f, Walk.get st'.store (f + 2) y (pre ++ rest) = .ok v := by
  intro hp hr hn hb hg hs hg2 hk hv hnl hcanon
  obtain ⟨blk0, hb0, hfoc⟩ := relink fn linkOf canon cp pre rest root blk target c at_ k st hr hn hb hg hs hg2 hk
  rw [hv] at hb0
  have hc := hcanon blk0 hb0
  obtain ⟨y, hy⟩ := updateAt_some pre root (.link (linkOf (canon blk0)))
  refine ⟨y, _, by rw [hfoc, hy], fun f => ?_⟩
  obtain ⟨seg, p2, rfl⟩ : ∃ a b, rest = a :: b := by
    cases rest with
    | nil => exact absurd rfl hr
    | cons a b => exact ⟨a, b, rfl⟩
  rw [get_append, relink_get pre root y _ c _ _ f hp hg hy, hc,
    followLinks_nonlink _ f blk0 (updateAt_cons_nonlink _ hg2 hb0)]
  simp only [bind, Except.bind]
  rw [get_of_getPlain _ (f + 1) (seg :: p2) blk0 v (by simp) (getPlain_updateAt_same _ blk target v blk0 hg2 hb0),
    followLinks_nonlink _ (f + 1) v hnl]

/-! ## Examples -/

section examples

def kA : Bytes := [0x61]
def kB : Bytes := [0x62]
def kC : Bytes := [0x63]

/-- `{"a": 1, "b": [10, 20, 30]}` -/
def ex : DM :=
  .map (.cons kA (.int 1) (.cons kB (.list (.cons (.int 10) (.cons (.int 20) (.cons (.int 30) .nil)))) .nil))

def st0 : TSt := ⟨[], []⟩
def lk (_ : DM) : Bytes := []

example : ex.NoDup := by
  simp [ex, DM.NoDup, DMKVs.NoDupVals, DMs.NoDup, DMKVs.keys, DMKVs.toList, kA, kB]
example : getPlain ex [.str kB, .idx 1] = some (.int 20) := by rfl

/-- replace `b/1` by 21 -/
example : focused (fun _ _ => some (.int 21)) lk id false 3 [] (some ex) [.str kB, .idx 1] st0 =
    .ok (some (.map (.cons kA (.int 1) (.cons kB (.list (.cons (.int 10) (.cons (.int 21) (.cons (.int 30) .nil)))) .nil))),
      st0) := by rfl
/-- the same through the reference update -/
example : updateAt ex [.str kB, .idx 1] (some (.int 21)) =
    some (.map (.cons kA (.int 1) (.cons kB (.list (.cons (.int 10) (.cons (.int 21) (.cons (.int 30) .nil)))) .nil))) := by
  rfl
/-- delete the list element `b/1`: the later element moves up -/
example : focused (fun _ _ => none) lk id false 3 [] (some ex) [.str kB, .idx 1] st0 =
    .ok (some (.map (.cons kA (.int 1) (.cons kB (.list (.cons (.int 10) (.cons (.int 30) .nil))) .nil))), st0) := by rfl
/-- delete the map entry `a` -/
example : focused (fun _ _ => none) lk id false 3 [] (some ex) [.str kA] st0 =
    .ok (some (.map (.cons kB (.list (.cons (.int 10) (.cons (.int 20) (.cons (.int 30) .nil)))) .nil)), st0) := by rfl
/-- insert the missing key `c`: appended after the existing entries -/
example : focused (fun _ _ => some .null) lk id false 3 [] (some ex) [.str kC] st0 =
    .ok (some (.map (.cons kA (.int 1) (.cons kB (.list (.cons (.int 10) (.cons (.int 20) (.cons (.int 30) .nil))))
      (.cons kC .null .nil)))), st0) := by rfl
/-- append to the list with "-"; the callback is told position `b/3` -/
example : focused (fun p _ => if p = [.str kB, .idx 3] then some (.int 40) else none) lk id false 3 []
      (some ex) [.str kB, .str [0x2d]] st0 =
    .ok (some (.map (.cons kA (.int 1) (.cons kB
      (.list (.cons (.int 10) (.cons (.int 20) (.cons (.int 30) (.cons (.int 40) .nil))))) .nil))), st0) := by rfl
/-- index past the end -/
example : focused (fun _ _ => some .null) lk id false 3 [] (some ex) [.str kB, .idx 3] st0 =
    .error .beyondBounds := by rfl
/-- identity -/
example : focused (fun _ prev => prev) lk id false 3 [] (some ex) [.str kB, .idx 1] st0 = .ok (some ex, st0) := by rfl

/-- across a link: `{"a": Link(c1)}` with block `c1 ↦ {"b": 1}`; replace `a/b` by 2.  The new block is
    stored under the new link, the old entry is still there. -/
example :
    (match focused (fun _ _ => some (.int 2)) (fun _ => [0x02]) id false 4 []
        (some (.map (.cons kA (.link [0x01]) .nil))) [.str kA, .str kB]
        ⟨[([0x01], .map (.cons kB (.int 1) .nil))], []⟩ with
      | .ok (o, st') => some (o, st'.store, st'.written)
      | .error _ => none) =
    some (some (.map (.cons kA (.link [0x02]) .nil)),
      [([0x02], .map (.cons kB (.int 2) .nil)), ([0x01], .map (.cons kB (.int 1) .nil))],
      [([0x02], .map (.cons kB (.int 2) .nil))]) := by rfl

end examples

/-! ## B6 — across a link, at the level of the expanded graph

  `expandFuel store F d` resolves every link of `d` through `store`, down to depth `F` (a link costs one
  unit, like a map or a list).  All statements hold for *every* `F` that reaches the link on the path
  (`pre.length < F`), so in particular for the full expansion; no acyclicity of the store is needed.
  Helper lemmas are in `Lemmas/TransformExpand.lean`.

  Vocabulary:
    * `linkOccurs c d` — the link `c` occurs in `d` (syntactically, nothing is loaded);
    * `FreshLink c' b' store root` (decidable) — the new link `c'` either already loads the new block `b'`,
      or occurs as a link nowhere (neither in `root` nor in a block of `store`).  It is needed: see
      `fresh_needed_collision` and `fresh_needed_dangling`.  A block referenced twice, on and off the
      path, is *not* a problem: `shared_block_ok`.
-/

/-- **expand_focused_one_link (E1, as the codec stores the block).**  Hypotheses of `relink`, `blk0` the
    functionally updated block, `c' = linkOf (canon blk0)` fresh.  For every fuel reaching the link:
    (1) the expanded new graph is the expanded old graph with, at `pre` (where the link is), the
        expansion of the block as stored (`canon blk0`);
    (2) the expansion of the updated block `blk0` is the functional update of the expanded old block at
        `rest` by the callback's answer (expanded through the new store with the fuel left at that depth).
    Nothing is assumed of `canon`: (1) and (2) meet at the block, up to `canon`. -/
theorem expand_focused_one_link_canon (pre rest : Path) (root blk target blk0 : DM) (c : Bytes) (at_ : Path)
    (k : Nat) (st : TSt) (F : Nat) :
    rest ≠ [] → root.NoDup → blk.NoDup → getPlain root pre = some (.link c) → storeGet st.store c = some blk →
    getPlain blk rest = some target → rest.length < k →
    updateAt blk rest (fn (at_ ++ pre ++ rest) (some target)) = some blk0 →
    FreshLink (linkOf (canon blk0)) (canon blk0) st.store root → pre.length < F →
    ∃ (y : DM) (st' : TSt),
      focused fn linkOf canon cp (pre.length + (k + 1)) at_ (some root) (pre ++ rest) st = .ok (some y, st') ∧
      some (expandFuel st'.store F y) =
        updateAt (expandFuel st.store F root) pre (some (expandFuel st'.store (F - pre.length - 1) (canon blk0))) ∧
      some (expandFuel st'.store (F - pre.length - 1) blk0) =
        updateAt (expandFuel st.store (F - pre.length - 1) blk) rest
          ((fn (at_ ++ pre ++ rest) (some target)).map (expandFuel st'.store (F - pre.length - 1 - rest.length))) := by
  intro hr hn hb hg hs hg2 hk hb0 hfresh hF
  obtain ⟨blk0', hb0', hfoc⟩ := relink fn linkOf canon cp pre rest root blk target c at_ k st hr hn hb hg hs hg2 hk
  rw [hb0] at hb0'; injection hb0' with hb0'; subst hb0'
  obtain ⟨y, hy⟩ := updateAt_some pre root (.link (linkOf (canon blk0)))
  refine ⟨y, _, by rw [hfoc, hy], ?_⟩
  have hcore := expand_relink_core st.store c (linkOf (canon blk0)) pre rest root blk target blk0 (canon blk0) y
    (fn (at_ ++ pre ++ rest) (some target)) F hn hb hg hs hg2 hb0 hy
    (fresh_offSubtrees hfresh root (Or.inl rfl) pre) (fresh_offSubtrees hfresh blk (Or.inr ⟨c, hs⟩) rest) hF
  exact ⟨hcore.1, hcore.2.1⟩

/-- **expand_focused_one_link (E1).**  If moreover the codec writes the block as it is
    (`canon blk0 = blk0`): expanding the new root through the new store is the functional update of the
    expanded old graph at the whole path `pre ++ rest`, by the callback's answer (which is itself
    expanded through the new store with the fuel left at its depth; `none`, a removal, stays `none`). -/
theorem expand_focused_one_link (pre rest : Path) (root blk target blk0 : DM) (c : Bytes) (at_ : Path)
    (k : Nat) (st : TSt) (F : Nat) :
    rest ≠ [] → root.NoDup → blk.NoDup → getPlain root pre = some (.link c) → storeGet st.store c = some blk →
    getPlain blk rest = some target → rest.length < k →
    updateAt blk rest (fn (at_ ++ pre ++ rest) (some target)) = some blk0 → canon blk0 = blk0 →
    FreshLink (linkOf blk0) blk0 st.store root → pre.length < F →
    ∃ (y : DM) (st' : TSt),
      focused fn linkOf canon cp (pre.length + (k + 1)) at_ (some root) (pre ++ rest) st = .ok (some y, st') ∧
      st'.store = (linkOf blk0, blk0) :: st.store ∧
      some (expandFuel st'.store F y) =
        updateAt (expandFuel st.store F root) (pre ++ rest)
          ((fn (at_ ++ pre ++ rest) (some target)).map (expandFuel st'.store (F - pre.length - 1 - rest.length))) := by
  intro hr hn hb hg hs hg2 hk hb0 hcanon hfresh hF
  obtain ⟨blk0', hb0', hfoc⟩ := relink fn linkOf canon cp pre rest root blk target c at_ k st hr hn hb hg hs hg2 hk
  rw [hb0] at hb0'; injection hb0' with hb0'; subst hb0'
  rw [hcanon] at hfoc
  obtain ⟨y, hy⟩ := updateAt_some pre root (.link (linkOf blk0))
  refine ⟨y, _, by rw [hfoc, hy], rfl, ?_⟩
  exact (expand_relink_core st.store c (linkOf blk0) pre rest root blk target blk0 blk0 y
    (fn (at_ ++ pre ++ rest) (some target)) F hn hb hg hs hg2 hb0 hy
    (fresh_offSubtrees hfresh root (Or.inl rfl) pre) (fresh_offSubtrees hfresh blk (Or.inr ⟨c, hs⟩) rest) hF).2.2 rfl

/-- The same when the callback's answer contains no link (or is a removal): the expanded new graph is
    literally `updateAt (expanded old graph) (pre ++ rest) (answer)`. -/
theorem expand_focused_one_link_plain (pre rest : Path) (root blk target blk0 : DM) (c : Bytes) (at_ : Path)
    (k : Nat) (st : TSt) (F : Nat) :
    rest ≠ [] → root.NoDup → blk.NoDup → getPlain root pre = some (.link c) → storeGet st.store c = some blk →
    getPlain blk rest = some target → rest.length < k →
    updateAt blk rest (fn (at_ ++ pre ++ rest) (some target)) = some blk0 → canon blk0 = blk0 →
    FreshLink (linkOf blk0) blk0 st.store root → pre.length < F →
    (∀ v, fn (at_ ++ pre ++ rest) (some target) = some v → Spec.hasLink v = false) →
    ∃ (y : DM) (st' : TSt),
      focused fn linkOf canon cp (pre.length + (k + 1)) at_ (some root) (pre ++ rest) st = .ok (some y, st') ∧
      some (expandFuel st'.store F y) =
        updateAt (expandFuel st.store F root) (pre ++ rest) (fn (at_ ++ pre ++ rest) (some target)) := by
  intro hr hn hb hg hs hg2 hk hb0 hcanon hfresh hF hv
  obtain ⟨y, st', h1, _, h3⟩ := expand_focused_one_link fn linkOf canon cp pre rest root blk target blk0 c at_ k st F
    hr hn hb hg hs hg2 hk hb0 hcanon hfresh hF
  refine ⟨y, st', h1, ?_⟩
  rw [h3]
  cases hfn : fn (at_ ++ pre ++ rest) (some target) with
  | none => rfl
  | some v => rw [Option.map_some, expandFuel_linkfree _ _ v (hv v hfn)]

/-- **expand_off_path_unchanged (E2).**  Replacement case (`fn … = some v`), hypotheses of E1.
    (a) every position of the expanded new graph that is off the path — `OffPath`, taken in the expanded
        old graph, so positions inside other blocks count — reads as in the expanded old graph;
    (b) every tree that does not mention the new link expands through the new store as through the
        old one; in particular
    (c) every link other than the new one loads and expands as before. -/
theorem expand_off_path_unchanged (pre rest : Path) (root blk target blk0 v : DM) (c : Bytes) (at_ : Path)
    (k : Nat) (st : TSt) (F : Nat) :
    rest ≠ [] → root.NoDup → blk.NoDup → getPlain root pre = some (.link c) → storeGet st.store c = some blk →
    getPlain blk rest = some target → rest.length < k →
    fn (at_ ++ pre ++ rest) (some target) = some v →
    updateAt blk rest (some v) = some blk0 → canon blk0 = blk0 →
    FreshLink (linkOf blk0) blk0 st.store root → pre.length < F →
    ∃ (y : DM) (st' : TSt),
      focused fn linkOf canon cp (pre.length + (k + 1)) at_ (some root) (pre ++ rest) st = .ok (some y, st') ∧
      (∀ q, OffPath (expandFuel st.store F root) (pre ++ rest) q →
        getPlain (expandFuel st'.store F y) q = getPlain (expandFuel st.store F root) q) ∧
      (∀ j d, linkOccurs (linkOf blk0) d = false → expandFuel st'.store j d = expandFuel st.store j d) ∧
      (∀ j c2, c2 ≠ linkOf blk0 → expandFuel st'.store j (.link c2) = expandFuel st.store j (.link c2)) := by
  intro hr hn hb hg hs hg2 hk hv hb0 hcanon hfresh hF
  obtain ⟨y, st', h1, h2, h3⟩ := expand_focused_one_link fn linkOf canon cp pre rest root blk target blk0 c at_ k st F
    hr hn hb hg hs hg2 hk (by rw [hv]; exact hb0) hcanon hfresh hF
  have hagree : ∀ j d, linkOccurs (linkOf blk0) d = false → expandFuel st'.store j d = expandFuel st.store j d := by
    intro j d hd; rw [h2]; exact fresh_agree hfresh d hd j
  refine ⟨y, st', h1, fun q ho => ?_, hagree, fun j c2 hc2 => hagree j _ ?_⟩
  · obtain ⟨m, hm⟩ : ∃ m, F - pre.length = m + 1 := ⟨F - pre.length - 1, by omega⟩
    have hgp : getPlain (expandFuel st.store F root) (pre ++ rest) =
        some (expandFuel st.store (m - rest.length) target) := by
      rw [getPlain_append, getPlain_expand st.store pre root (.link c) F hg, hm,
        expandFuel_link_some st.store m c blk hs, Option.bind_some, getPlain_expand st.store rest blk target m hg2]
    rw [hv, Option.map_some] at h3
    exact getPlain_updateAt_off (pre ++ rest) _ _ q _ _ hgp ho h3.symm
  · simp only [linkOccurs, beq_eq_false_iff_ne]; exact hc2

/-- E2 without any assumption on `canon`: positions off `pre` (the path up to the link) are unchanged in
    the expanded graph — whatever the codec does to the block, nothing outside it moves. -/
theorem expand_off_link_unchanged_canon (pre rest : Path) (root blk target blk0 : DM) (c : Bytes) (at_ : Path)
    (k : Nat) (st : TSt) (F : Nat) :
    rest ≠ [] → root.NoDup → blk.NoDup → getPlain root pre = some (.link c) → storeGet st.store c = some blk →
    getPlain blk rest = some target → rest.length < k →
    updateAt blk rest (fn (at_ ++ pre ++ rest) (some target)) = some blk0 →
    FreshLink (linkOf (canon blk0)) (canon blk0) st.store root → pre.length < F →
    ∃ (y : DM) (st' : TSt),
      focused fn linkOf canon cp (pre.length + (k + 1)) at_ (some root) (pre ++ rest) st = .ok (some y, st') ∧
      ∀ q, OffPath (expandFuel st.store F root) pre q →
        getPlain (expandFuel st'.store F y) q = getPlain (expandFuel st.store F root) q := by
  intro hr hn hb hg hs hg2 hk hb0 hfresh hF
  obtain ⟨y, st', h1, h2, _⟩ := expand_focused_one_link_canon fn linkOf canon cp pre rest root blk target blk0 c at_ k
    st F hr hn hb hg hs hg2 hk hb0 hfresh hF
  exact ⟨y, st', h1, fun q ho => getPlain_updateAt_off pre _ _ q _ _
    (getPlain_expand st.store pre root (.link c) F hg) ho h2.symm⟩

/-! ## B7 — across any number of links

  `resolve store f root path = some (target, k)`: walking as `focusedTransform` does (a link with more
  path to go is loaded), the path arrives at `target` having crossed `k` links.  `relink`'s situation
  is `k = 1` (`one_link_resolves`).
-/

/-- The hypotheses of `relink` say: the path resolves, crossing one link. -/
theorem one_link_resolves (s : List (Bytes × DM)) (pre rest : Path) (root blk target : DM) (c : Bytes) (k : Nat) :
    rest ≠ [] → getPlain root pre = some (.link c) → storeGet s c = some blk →
    getPlain blk rest = some target → rest.length ≤ k →
    resolve s (pre.length + (k + 1)) root (pre ++ rest) = some (target, 1) :=
  resolve_one_link s pre rest root blk target c k

/-- **focused_through_links.**  A path that resolves crossing `k` links, all blocks `NoDup`: the
    transform succeeds whatever the callback answers; exactly `k` blocks are written, each under
    `linkOf` of itself, and the store is the old one with these in front (nothing is overwritten or
    removed); a non-empty path never yields a nil root. -/
theorem focused_through_links (path : Path) (root target : DM) (k : Nat) (at_ : Path) (f : Nat) (st : TSt) :
    resolve st.store f root path = some (target, k) → root.NoDup → (∀ e ∈ st.store, e.2.NoDup) →
    ∃ (Y : Option DM) (W : List (Bytes × DM)),
      focused fn linkOf canon cp (f + 1) at_ (some root) path st =
        .ok (Y, { store := W ++ st.store, written := W ++ st.written }) ∧
      W.length = k ∧ (∀ e ∈ W, e.1 = linkOf e.2) ∧ (path ≠ [] → ∃ y, Y = some y) := by
  intro hr hn hst
  obtain ⟨Y, W, h1, h2, h3, h4, _⟩ := focused_through fn linkOf canon cp f path root target k at_ st hr hn hst
  exact ⟨Y, W, h1, h2, h3, h4⟩

/-- **focused_through_links_reads (E3).**  If moreover the callback answers `some v`, `v` not a link, the
    codec writes blocks as they are, and `linkOf` is injective (no two different blocks under one link —
    needed: `injective_needed`), then `st'.written` has grown by the number of links crossed and reading
    the path back from the new root through the new store gives `v`: with fuel for `k` loads,
    `followLinks` from `y` (only needed if the root itself is a link) and then `traversal.Get`. -/
theorem focused_through_links_reads (path : Path) (root target v : DM) (k : Nat) (at_ : Path) (f : Nat) (st : TSt) :
    resolve st.store f root path = some (target, k) → root.NoDup → (∀ e ∈ st.store, e.2.NoDup) →
    fn (at_ ++ path) (some target) = some v → (∀ c, v ≠ .link c) →
    (∀ b, canon b = b) → (∀ a b, linkOf a = linkOf b → a = b) →
    ∃ (y : DM) (st' : TSt),
      focused fn linkOf canon cp (f + 1) at_ (some root) path st = .ok (some y, st') ∧
      st'.written.length = st.written.length + k ∧
      ∀ F, k < F → ∃ m, followLinks st'.store F y = .ok m ∧ Walk.get st'.store F m path = .ok v := by
  intro hr hn hst hv hnl hcanon hinj
  obtain ⟨Y, W, h1, h2, h3, _, _, h6⟩ := focused_through fn linkOf canon cp f path root target k at_ st hr hn hst
  obtain ⟨y, rfl, hreads⟩ := h6 v hv hnl hcanon
  refine ⟨y, _, h1, by simp only [List.length_append, h2]; omega, fun F hF => ?_⟩
  exact reads_get _ (hreads _ (written_loads_back linkOf hinj st.store W h3)) F hF

/-- E3 for a root that is not itself a link and a non-empty path: `traversal.Get` from the new root. -/
theorem focused_through_links_get (path : Path) (root target v : DM) (k : Nat) (at_ : Path) (f : Nat) (st : TSt) :
    resolve st.store f root path = some (target, k) → root.NoDup → (∀ e ∈ st.store, e.2.NoDup) →
    fn (at_ ++ path) (some target) = some v → (∀ c, v ≠ .link c) →
    (∀ b, canon b = b) → (∀ a b, linkOf a = linkOf b → a = b) →
    path ≠ [] → (∀ c, root ≠ .link c) →
    ∃ (y : DM) (st' : TSt),
      focused fn linkOf canon cp (f + 1) at_ (some root) path st = .ok (some y, st') ∧
      st'.written.length = st.written.length + k ∧
      ∀ F, k < F → Walk.get st'.store F y path = .ok v := by
  intro hr hn hst hv hnl hcanon hinj hp hroot
  obtain ⟨Y, W, h1, h2, h3, _, h5, h6⟩ := focused_through fn linkOf canon cp f path root target k at_ st hr hn hst
  obtain ⟨y, rfl, hreads⟩ := h6 v hv hnl hcanon
  refine ⟨y, _, h1, by simp only [List.length_append, h2]; omega, fun F hF => ?_⟩
  obtain ⟨m, hm1, hm2⟩ := reads_get _ (hreads _ (written_loads_back linkOf hinj st.store W h3)) F hF
  obtain ⟨f', rfl⟩ : ∃ f', F = f' + 1 := ⟨F - 1, by omega⟩
  rw [followLinks_nonlink _ f' y (h5 hp hroot y rfl)] at hm1
  injection hm1 with hm1; subst hm1
  exact hm2

/-- **expand_focused_through_links (E1 and E2 for any number of links).**  The path resolves crossing `k`
    links, all blocks `NoDup`.  The transform succeeds and prepends `k` written blocks `W`.  If the codec
    writes blocks as they are, the new links (the keys of `W`) are fresh — they occur as links neither
    in the root nor in a block of the old store — and each loads back the block written under it (no
    two different written blocks share a link), then for every fuel covering the path
    (`path.length + k ≤ F`: one unit per segment and per link):
    * the new root expanded through the new store is the functional update, at `path`, of the old root
      expanded through the old store (the callback's answer being expanded with the fuel left);
    * in the replacement case every position off the path reads as in the expanded old graph. -/
theorem expand_focused_through_links (path : Path) (root target : DM) (k : Nat) (at_ : Path) (f : Nat) (st : TSt) :
    resolve st.store f root path = some (target, k) → root.NoDup → (∀ e ∈ st.store, e.2.NoDup) → path ≠ [] →
    ∃ (y : DM) (W : List (Bytes × DM)),
      focused fn linkOf canon cp (f + 1) at_ (some root) path st =
        .ok (some y, { store := W ++ st.store, written := W ++ st.written }) ∧
      W.length = k ∧ (∀ e ∈ W, e.1 = linkOf e.2) ∧
      ((∀ b, canon b = b) →
       (∀ e ∈ W, linkOccurs e.1 root = false ∧ StoreFreeOf e.1 st.store) →
       (∀ e ∈ W, storeGet (W ++ st.store) e.1 = some e.2) →
       ∀ F, path.length + k ≤ F →
        some (expandFuel (W ++ st.store) F y) =
          updateAt (expandFuel st.store F root) path
            ((fn (at_ ++ path) (some target)).map (expandFuel (W ++ st.store) (F - path.length - k))) ∧
        ∀ v, fn (at_ ++ path) (some target) = some v →
          ∀ q, OffPath (expandFuel st.store F root) path q →
            getPlain (expandFuel (W ++ st.store) F y) q = getPlain (expandFuel st.store F root) q) := by
  intro hr hn hst hp
  obtain ⟨Y, W, h1, h2, h3, h4, h5⟩ := focused_through_expand fn linkOf canon cp f path root target k at_ st hr hn hst
  obtain ⟨y, rfl⟩ := h4 hp
  refine ⟨y, W, h1, h2, h3, fun hcanon hfresh hback F hF => ?_⟩
  have hmain := h5 (NoKeyOf W) (W ++ st.store) (hereditary_noKeyOf W)
    (fun c b hcb e he => (hfresh e he).2 _ (storeGet_mem hcb))
    (fun d hd j => expandFuel_append_fresh W st.store (fun e he => (hfresh e he).2) j d hd)
    (fun e he => (hfresh e he).1) hcanon hback F hF
  rw [Option.map_some] at hmain
  refine ⟨hmain, fun v hv q ho => ?_⟩
  rw [hv, Option.map_some] at hmain
  exact getPlain_updateAt_off path _ _ q _ _ (getPlain_expand_resolve st.store f path root target k F hr hF) ho
    hmain.symm

/-- The same under hypotheses on `linkOf` alone: injective (no two blocks under one link) and never
    answering a link that occurs in the root or in a block of the old store. -/
theorem expand_focused_through_links' (path : Path) (root target : DM) (k : Nat) (at_ : Path) (f : Nat) (st : TSt)
    (F : Nat) :
    resolve st.store f root path = some (target, k) → root.NoDup → (∀ e ∈ st.store, e.2.NoDup) → path ≠ [] →
    (∀ b, canon b = b) → (∀ a b, linkOf a = linkOf b → a = b) →
    (∀ b, linkOccurs (linkOf b) root = false ∧ StoreFreeOf (linkOf b) st.store) →
    path.length + k ≤ F →
    ∃ (y : DM) (st' : TSt),
      focused fn linkOf canon cp (f + 1) at_ (some root) path st = .ok (some y, st') ∧
      st'.written.length = st.written.length + k ∧
      some (expandFuel st'.store F y) =
        updateAt (expandFuel st.store F root) path
          ((fn (at_ ++ path) (some target)).map (expandFuel st'.store (F - path.length - k))) ∧
      ∀ v, fn (at_ ++ path) (some target) = some v →
        ∀ q, OffPath (expandFuel st.store F root) path q →
          getPlain (expandFuel st'.store F y) q = getPlain (expandFuel st.store F root) q := by
  intro hr hn hst hp hcanon hinj hfresh hF
  obtain ⟨y, W, h1, h2, h3, h4⟩ := expand_focused_through_links fn linkOf canon cp path root target k at_ f st hr hn hst hp
  obtain ⟨h5, h6⟩ := h4 hcanon (fun e _ => by rw [h3 e ‹_›]; exact hfresh e.2)
    (written_loads_back linkOf hinj st.store W h3) F hF
  exact ⟨y, _, h1, by simp only [List.length_append, h2]; omega, h5, h6⟩

/-! ## Examples for B6 / B7 -/

section examples2

def c1 : Bytes := [0x01]
def c2 : Bytes := [0x02]
def c3 : Bytes := [0x03]
def kZ : Bytes := [0x7a]

/-- the block `{"b": i}` -/
def blkB (i : Int) : DM := .map (.cons kB (.int i) .nil)
/-- `{"a": Link(c1), "z": Link(c3)}` -/
def root2 : DM := .map (.cons kA (.link c1) (.cons kZ (.link c3) .nil))
/-- two blocks: `c1 ↦ {"b": 1}`, `c3 ↦ {"b": 7}` -/
def store2 : List (Bytes × DM) := [(c1, blkB 1), (c3, blkB 7)]
/-- replace whatever is there by 2 -/
def set2 : Fn := fun _ _ => some (.int 2)

/-! The hypotheses of `expand_focused_one_link` are satisfiable: path `a/b` = `pre ++ rest` with
    `pre = [a]`, `rest = [b]`, new link `c2`. -/
example : root2.NoDup := by
  simp [root2, DM.NoDup, DMKVs.NoDupVals, DMKVs.keys, DMKVs.toList, kA, kZ]
example : (blkB 1).NoDup := by simp [blkB, DM.NoDup, DMKVs.NoDupVals, DMKVs.keys, DMKVs.toList]
example : getPlain root2 [.str kA] = some (.link c1) := by rfl
example : storeGet store2 c1 = some (blkB 1) := by rfl
example : getPlain (blkB 1) [.str kB] = some (.int 1) := by rfl
example : updateAt (blkB 1) [.str kB] (set2 ([] ++ [.str kA] ++ [.str kB]) (some (.int 1))) = some (blkB 2) := by rfl
example : FreshLink c2 (blkB 2) store2 root2 := by decide

/-- …and its conclusion on this graph, computed: the expanded new graph is the expanded old graph with
    `a/b` replaced; `z` still expands to `{"b": 7}`. -/
example :
    (match focused set2 (fun _ => c2) id false 4 [] (some root2) [.str kA, .str kB] ⟨store2, []⟩ with
      | .ok (some y, st') => some (expandFuel st'.store 3 y)
      | _ => none) = some (.map (.cons kA (blkB 2) (.cons kZ (blkB 7) .nil))) ∧
    updateAt (expandFuel store2 3 root2) [.str kA, .str kB] (some (.int 2)) =
      some (.map (.cons kA (blkB 2) (.cons kZ (blkB 7) .nil))) := ⟨by rfl, by rfl⟩

/-- **Freshness is needed (collision).**  If `linkOf` answers a link that already loads a *different*
    block (`c3 ↦ {"b": 7}`) and that link is used off the path (`z`), the new entry shadows the old one
    and the off-path position `z` changes in the expanded graph: `{"b": 2}` instead of `{"b": 7}`.
    (With a real hash this is a hash collision; the model's `linkOf` is arbitrary.) -/
theorem fresh_needed_collision :
    ¬ FreshLink c3 (blkB 2) store2 root2 ∧
    (match focused set2 (fun _ => c3) id false 4 [] (some root2) [.str kA, .str kB] ⟨store2, []⟩ with
      | .ok (some y, st') => some (expandFuel st'.store 3 y)
      | _ => none) = some (.map (.cons kA (blkB 2) (.cons kZ (blkB 2) .nil))) ∧
    updateAt (expandFuel store2 3 root2) [.str kA, .str kB] (some (.int 2)) =
      some (.map (.cons kA (blkB 2) (.cons kZ (blkB 7) .nil))) := ⟨by decide, by rfl, by rfl⟩

/-- **Freshness is needed (dangling link).**  `z` links to `c3`, which the store does not have; the
    changed block happens to be stored under `c3`.  After the transform the formerly dangling `z` loads
    the new block.  (With content addressing this is not a misbehaviour — `c3` always *meant* that
    block — but the expanded graph, as observed through this store, changes off the path.) -/
theorem fresh_needed_dangling :
    ¬ FreshLink c3 (blkB 2) [(c1, blkB 1)] root2 ∧
    (match focused set2 (fun _ => c3) id false 4 [] (some root2) [.str kA, .str kB] ⟨[(c1, blkB 1)], []⟩ with
      | .ok (some y, st') => some (expandFuel st'.store 3 y)
      | _ => none) = some (.map (.cons kA (blkB 2) (.cons kZ (blkB 2) .nil))) ∧
    updateAt (expandFuel [(c1, blkB 1)] 3 root2) [.str kA, .str kB] (some (.int 2)) =
      some (.map (.cons kA (blkB 2) (.cons kZ (.link c3) .nil))) := ⟨by decide, by rfl, by rfl⟩

/-- **A block referenced twice, on and off the path, is fine**: `{"a": Link(c1), "z": Link(c1)}`,
    transform `a/b`.  The new block goes under the new link, only `a` is re-pointed, `z` keeps loading
    the old block (the store is only ever prepended to). -/
theorem shared_block_ok :
    FreshLink c2 (blkB 2) store2 (.map (.cons kA (.link c1) (.cons kZ (.link c1) .nil))) ∧
    (match focused set2 (fun _ => c2) id false 4 [] (some (.map (.cons kA (.link c1) (.cons kZ (.link c1) .nil))))
        [.str kA, .str kB] ⟨store2, []⟩ with
      | .ok (some y, st') => some (y, expandFuel st'.store 3 y)
      | _ => none) =
      some (.map (.cons kA (.link c2) (.cons kZ (.link c1) .nil)),
        .map (.cons kA (blkB 2) (.cons kZ (blkB 1) .nil))) := ⟨by decide, by rfl⟩

/-- The identity transform with a content-addressing `linkOf` (`{"b": 1}` hashes to `c1` again): the first
    alternative of `FreshLink`. -/
example : FreshLink c1 (blkB 1) store2 root2 := by decide

/-- Two links on the path: `{"a": Link(c1)}`, `c1 ↦ {"b": Link(c3)}`, `c3 ↦ {"c": 1}`, path `a/b/c`. -/
def store3 : List (Bytes × DM) := [(c1, .map (.cons kB (.link c3) .nil)), (c3, .map (.cons kC (.int 1) .nil))]
def root3 : DM := .map (.cons kA (.link c1) .nil)
/-- a `linkOf` that tells the two written blocks apart (by their first key) -/
def lk2 : DM → Bytes
  | .map (.cons k _ _) => 0xff :: k
  | _ => []

example : resolve store3 5 root3 [.str kA, .str kB, .str kC] = some (.int 1, 2) := by rfl

/-- two blocks written (innermost first, so it is last in the list), and the new value read back -/
example :
    (match focused set2 lk2 id false 6 [] (some root3) [.str kA, .str kB, .str kC] ⟨store3, []⟩ with
      | .ok (some y, st') => some (y, st'.written, Walk.get st'.store 3 y [.str kA, .str kB, .str kC])
      | _ => none) =
    some (.map (.cons kA (.link (0xff :: kB)) .nil),
      [(0xff :: kB, .map (.cons kB (.link (0xff :: kC)) .nil)), (0xff :: kC, .map (.cons kC (.int 2) .nil))],
      .ok (.int 2)) := by rfl

/-- …and at the level of the expanded graph (`expand_focused_through_links`): the new links are fresh,
    each loads back its block, and the expanded new graph is the update of the expanded old graph. -/
example :
    (match focused set2 lk2 id false 6 [] (some root3) [.str kA, .str kB, .str kC] ⟨store3, []⟩ with
      | .ok (some y, st') => some (expandFuel st'.store 5 y,
          decide (∀ e ∈ st'.written, linkOccurs e.1 root3 = false ∧ StoreFreeOf e.1 store3),
          decide (∀ e ∈ st'.written, storeGet st'.store e.1 = some e.2))
      | _ => none) =
      some (.map (.cons kA (.map (.cons kB (.map (.cons kC (.int 2) .nil)) .nil)) .nil), true, true) ∧
    updateAt (expandFuel store3 5 root3) [.str kA, .str kB, .str kC] (some (.int 2)) =
      some (.map (.cons kA (.map (.cons kB (.map (.cons kC (.int 2) .nil)) .nil)) .nil)) := ⟨by decide, by rfl⟩

/-- **Injectivity of `linkOf` is needed** once two links are crossed: with a constant `linkOf` the outer
    block, written last, shadows the inner one under the same key; the new root's `a` then loads
    `{"b": Link(c2)}` whose `b` loads the same block again, and the new value is not found. -/
theorem injective_needed :
    (match focused set2 (fun _ => c2) id false 6 [] (some root3) [.str kA, .str kB, .str kC] ⟨store3, []⟩ with
      | .ok (some y, st') => some (st'.written.length, Walk.get st'.store 5 y [.str kA, .str kB, .str kC])
      | _ => none) = some (2, .error .notFound) := by rfl

end examples2

end Ipld.Props.C16
