module verif

go 1.25.7

require (
	github.com/ipfs/go-cid v0.6.2
	github.com/ipld/go-ipld-prime v0.0.0
	github.com/multiformats/go-multibase v0.3.0
	github.com/multiformats/go-multicodec v0.10.0
	github.com/multiformats/go-multihash v0.2.3
	github.com/polydawn/refmt v0.90.0
)

require (
	github.com/klauspost/cpuid/v2 v2.0.9 // indirect
	github.com/minio/sha256-simd v1.0.0 // indirect
	github.com/mr-tron/base58 v1.3.0 // indirect
	github.com/multiformats/go-base32 v0.1.0 // indirect
	github.com/multiformats/go-base36 v0.2.0 // indirect
	github.com/multiformats/go-varint v0.1.0 // indirect
	github.com/spaolacci/murmur3 v1.1.0 // indirect
	golang.org/x/crypto v0.53.0 // indirect
	golang.org/x/sys v0.46.0 // indirect
	lukechampine.com/blake3 v1.1.6 // indirect
)

replace github.com/ipld/go-ipld-prime => /repo
