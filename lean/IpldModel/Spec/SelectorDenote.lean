/-
  Spec: what a selector DENOTES on a graph of blocks, independently of the walk (DESIGN §5 C07).

  The walk (`Model/Walk.lean`) is a stateful, fuel-indexed, error-propagating loop that threads budgets, a
  seen-set, a start-at path and an event log.  The denotation here is written the other way round: it is
  indexed by the PATH.  `selectorAt store s root path` follows `path` from `root`, one segment at a time, and
  answers the node and the residual selector found there, or `none` when the selector does not lead there.
  It is structurally recursive on the path: no fuel, no state, no errors, no log.

  One step (`stepAt`) from a node `n` under selector `s` along segment `seg`:
    * `seg` must be one of the segments tried at `n` (`segsAt`): the selector's explicit interest list when it
      has one (`Interests()` non-nil), otherwise the node's own segments (map keys, list indices);
    * the child is found by random access (`LookupBySegment`), not by iteration;
    * `Explore(n, seg)` must answer a residual selector `s'` (an error or "do not explore" ends the path);
    * if the child is a link it is loaded from `store` and the path goes on in the loaded block, AT THE SAME
      PATH: the link node itself is never a position of its own (this mirrors `exploreChild`, which loads
      before calling `walkAdv` on the block and never calls `walkAdv` on the link child).  A link is only
      ever a position when it is the root handed to the walk or the root of a loaded block (no second hop:
      the block's root is taken as it is).

  `Selected store s root path` = the selector leads to `path`.  The visit there is a match iff the residual
  selector decides the node (`Match` answers), a candidate otherwise; the node reported is `Match`'s answer
  (the slice, for a matcher with a subset) or the node itself (`visitOf`).

  `denote store depth s root` enumerates the selected positions of depth `< depth` in document order
  (pre-order; the children of a node in the order of `segsAt`: the node's own order when the selector has no
  explicit interests, the interest order otherwise).  Its membership is characterised through `selectorAt`
  (`Lemmas/WalkComplete.lean`, `mem_denote`), and its order through `DocBefore` (`Lemmas/WalkDenote.lean`:
  `denote_sorted`; `denote_unique`: it is the only list of the selected paths sorted that way).

  `cleanFrom store depth root s` says that nothing can go wrong (no ADL clause, no failing `Explore`, no
  unloadable link) and that the selection is no deeper than `depth`: exactly when a walk with enough fuel
  succeeds (`Lemmas/WalkOk.lean`).

  Also here: the selector-free positions of a graph (`nodeAt`, `preorder`), to state what "explore everything"
  means.  Core Lean only.
-/
import IpldModel.Model.Selector
import IpldModel.Model.Walk
namespace Ipld
namespace Spec
open Sel
open Walk (Reason)

abbrev Store := List (Bytes × DM)

/-- the segments under which a node lists its own children, in the node's order -/
def ownSegs : DM → List Seg
  | .map es => es.keys.map .str
  | .list xs => (List.range xs.length).map .idx
  | _ => []

/-- the segments tried at node `n` under selector `s`, in order: the explicit interests if the selector has
    them, the node's own segments otherwise -/
def segsAt (n : DM) (s : S) : List Seg := (interests s).getD (ownSegs n)

/-- the child value under `seg`, if `seg` is tried at all -/
def childAt (n : DM) (s : S) (seg : Seg) : Option DM :=
  if seg ∈ segsAt n s then lookupBySegment n seg else none

/-- a link child stands for the block it names (`none`: not loadable); anything else for itself -/
def deref (store : Store) : DM → Option DM
  | .link c => store.lookup c
  | v => some v

/-- one step of a path: the node entered and the selector that applies there -/
def stepAt (store : Store) (n : DM) (s : S) (seg : Seg) : Option (DM × S) :=
  match childAt n s seg, explore s n seg with
  | some v, .ok (some s') => (deref store v).map fun n' => (n', s')
  | _, _ => none

/-- the node and residual selector reached by following `path` from `root` under `s` -/
def selectorAt (store : Store) (s : S) (root : DM) : Path → Option (DM × S)
  | [] => some (root, s)
  | seg :: rest =>
    match stepAt store root s seg with
    | some (n', s') => selectorAt store s' n' rest
    | none => none

/-- the selector leads to this position -/
def Selected (store : Store) (s : S) (root : DM) (path : Path) : Prop :=
  (selectorAt store s root path).isSome = true

instance (store : Store) (s : S) (root : DM) (path : Path) : Decidable (Selected store s root path) := by
  unfold Selected; exact inferInstance

/-- does the selector decide (match) the node -/
def decides (s : S) (n : DM) : Bool := (matchNode s n).isSome

/-- what an observer is told about position `path`, where node `n` is under residual selector `s` -/
def visitOf (path : Path) (n : DM) (s : S) : Path × DM × Reason :=
  match matchNode s n with
  | some m => (path, m, .matched)
  | none => (path, n, .candidate)

/-- selected positions below (and including) `path`, where `n` is under `s`, to relative depth `< depth`,
    in document order -/
def denoteFrom (store : Store) : Nat → Path → DM → S → List (Path × DM × Reason)
  | 0, _, _, _ => []
  | depth + 1, path, n, s =>
    visitOf path n s :: (segsAt n s).flatMap fun seg =>
      match stepAt store n s seg with
      | some (n', s') => denoteFrom store depth (path ++ [seg]) n' s'
      | none => []

/-- all selected positions of depth `< depth`, in document order -/
def denote (store : Store) (depth : Nat) (s : S) (root : DM) : List (Path × DM × Reason) :=
  denoteFrom store depth [] root s

/-! ### when nothing goes wrong -/

/-- is the selector an ADL clause (`interpretAs`)?  No ADL is configured in the modelled link system, so
    arriving at a position under such a selector is an error, not a visit. -/
def needsAdl : S → Bool
  | .interpretAs _ _ => true
  | _ => false

/-- nothing goes wrong at or below a position (node `n` under selector `s`) and the selection below it ends
    within relative depth `< depth`: the selector is not an ADL clause; for every segment tried and present,
    `Explore` does not fail, and if it answers a selector, a link child can be loaded and the position entered
    is clean to `depth - 1` -/
def cleanFrom (store : Store) : Nat → DM → S → Bool
  | 0, _, _ => false
  | depth + 1, n, s =>
    !needsAdl s && (segsAt n s).all fun seg =>
      match childAt n s seg with
      | none => true
      | some v =>
        match explore s n seg with
        | .error _ => false
        | .ok none => true
        | .ok (some s') =>
          match deref store v with
          | none => false
          | some n' => cleanFrom store depth n' s'

/-! ### document order, stated on paths -/

/-- `a` is tried strictly before `b` in the list `l`: it sits at an earlier index -/
def TriedBefore (l : List Seg) (a b : Seg) : Prop := ∃ i j : Nat, i < j ∧ l[i]? = some a ∧ l[j]? = some b

/-- `p` comes before `q` in document order under selector `s` from `root`: `p` is a proper ancestor of `q`, or
    they part ways below a common ancestor `r`, `p` through a segment tried earlier at `r` than `q`'s -/
def DocBefore (store : Store) (s : S) (root : DM) (p q : Path) : Prop :=
  (∃ t, t ≠ [] ∧ q = p ++ t) ∨
  ∃ r a b p' q' n s', p = r ++ a :: p' ∧ q = r ++ b :: q' ∧ selectorAt store s root r = some (n, s') ∧
    TriedBefore (segsAt n s') a b

/-! ### the graph without a selector -/

/-- the node at `path`, following the node's own segments and loading links -/
def nodeAt (store : Store) (root : DM) : Path → Option DM
  | [] => some root
  | seg :: rest =>
    if seg ∈ ownSegs root then
      match (lookupBySegment root seg).bind (deref store) with
      | some n' => nodeAt store n' rest
      | none => none
    else none

/-- every position of relative depth `< depth` below (and including) `path`, in pre-order -/
def preorder (store : Store) : Nat → Path → DM → List (Path × DM)
  | 0, _, _ => []
  | depth + 1, path, n =>
    (path, n) :: (ownSegs n).flatMap fun seg =>
      match (lookupBySegment n seg).bind (deref store) with
      | some n' => preorder store depth (path ++ [seg]) n'
      | none => []

end Spec
end Ipld
