/-
  Model of the builder/assembler protocol as implemented by `node/basicnode` (map.go, list.go,
  any.go and the scalar builders), DESIGN §5 C01/C12.  Core Lean only.

  A history is a list of calls; the receiver of each call is the assembler object that the contract
  makes current (root builder → map/list assembler → key/value assembler → child …), so a call is
  identified by what is called.  The map frame mirrors `plainMap`'s two fields: the entry table `t`
  (order, iteration, `Length`) whose last entry may still be waiting for its value, and the lookup
  map `m` (used by `LookupByString` and by the duplicate check).  Misuse (a call order the contract
  declares illegal) is modelled as `panic`, with no claim made about what follows.
-/
import IpldModel.Model.DM
namespace Ipld
namespace Asm

inductive Op where
  | beginMap (hint : Int)
  | beginList (hint : Int)
  | assembleKey
  | assembleValue
  | assembleEntry (k : Bytes)
  | assign (v : DM)       -- AssignNull/Bool/Int/Float/String/Bytes/Link with the scalar `v`
  | assignNode (v : DM)   -- AssignNode of a finished node (of any implementation) holding `v`
  | finish
  deriving Repr, DecidableEq, Inhabited

inductive ErrClass where
  | repeatedKey | wrongKind | other
  deriving Repr, DecidableEq, Inhabited

inductive Out where
  | ok
  | err (c : ErrClass)
  | panic
  deriving Repr, DecidableEq, Inhabited

inductive MPhase where | init | midKey | expectValue | midValue
  deriving Repr, DecidableEq, Inhabited
inductive LPhase where | init | midValue
  deriving Repr, DecidableEq, Inhabited

inductive Frame where
  | map (t : List (Bytes × Option DM)) (m : List (Bytes × DM)) (phase : MPhase)
  | list (x : List DM) (phase : LPhase)
  deriving Repr, Inhabited

/-- The root builder's prototype: basicnode Any / Map / List / a scalar prototype. -/
inductive Proto where
  | any | map | list | scalar (k : Kind)
  deriving Repr, DecidableEq, Inhabited

structure St where
  proto : Proto
  frames : List Frame := []     -- innermost first
  root : Option DM := none      -- the finished root value, once there is one
  deriving Repr, Inhabited

def isScalar (d : DM) : Bool :=
  match d with
  | .list _ => false
  | .map _ => false
  | _ => true

def Proto.accepts : Proto → Kind → Bool
  | .any, _ => true
  | .map, k => k == .map
  | .list, k => k == .list
  | .scalar k', k => k' == k

/-- Go map insert (overwrite if present, else add). -/
def mapInsert (m : List (Bytes × DM)) (k : Bytes) (v : DM) : List (Bytes × DM) :=
  match m with
  | [] => [(k, v)]
  | (k', v') :: r => if k' == k then (k, v) :: r else (k', v') :: mapInsert r k v

def mapLookup (m : List (Bytes × DM)) (k : Bytes) : Option DM :=
  match m with
  | [] => none
  | (k', v') :: r => if k' == k then some v' else mapLookup r k

def mapHas (m : List (Bytes × DM)) (k : Bytes) : Bool := (mapLookup m k).isSome

/-- `t[len-1].v = v` -/
def setLast (t : List (Bytes × Option DM)) (v : DM) : List (Bytes × Option DM) :=
  match t with
  | [] => []
  | [(k, _)] => [(k, some v)]
  | e :: r => e :: setLast r v

def lastKey (t : List (Bytes × Option DM)) : Option Bytes := (t.getLast?).map (·.1)

/-- entries of a finished table (an entry still waiting for its value cannot occur in phase `init`) -/
def tableEntries (t : List (Bytes × Option DM)) : List (Bytes × DM) :=
  t.filterMap fun e => e.2.map fun v => (e.1, v)

/-- A value assembler received the finished value `v`. -/
def deliver (st : St) (v : DM) : St × Out :=
  match st.frames with
  | [] => ({ st with root := some v }, .ok)
  | .map t m .midValue :: rest =>
      match lastKey t with
      | some k => ({ st with frames := .map (setLast t v) (mapInsert m k v) .init :: rest }, .ok)
      | none => (st, .panic)
  | .list x .midValue :: rest => ({ st with frames := .list (x ++ [v]) .init :: rest }, .ok)
  | _ => (st, .panic)

/-- the key assembler was given the string `k` -/
def supplyKey (st : St) (t : List (Bytes × Option DM)) (m : List (Bytes × DM)) (rest : List Frame) (k : Bytes) : St × Out :=
  if mapHas m k then ({ st with frames := .map t m .init :: rest }, .err .repeatedKey)
  else ({ st with frames := .map (t ++ [(k, none)]) m .expectValue :: rest }, .ok)

/-- A call on the object in value-assembler position (the root builder, or a map/list value assembler). -/
def valueCall (st : St) (atRoot : Bool) (op : Op) : St × Out :=
  match op with
  | .assign v =>
      if !isScalar v then (st, .panic)
      else if atRoot && !st.proto.accepts v.kind then (st, .err .wrongKind)
      else deliver st v
  | .assignNode v =>
      if atRoot && !st.proto.accepts v.kind then (st, .err .wrongKind)
      else deliver st v
  | .beginMap _ =>
      if atRoot && !st.proto.accepts .map then (st, .err .wrongKind)
      else ({ st with frames := .map [] [] .init :: st.frames }, .ok)
  | .beginList _ =>
      if atRoot && !st.proto.accepts .list then (st, .err .wrongKind)
      else ({ st with frames := .list [] .init :: st.frames }, .ok)
  | _ => (st, .panic)

def step (st : St) (op : Op) : St × Out :=
  match st.frames with
  | [] =>
      match st.root with
      | some _ => (st, .panic)            -- the builder already holds a value: anything further is misuse
      | none => valueCall st true op
  | .map t m .init :: rest =>
      match op with
      | .assembleKey => ({ st with frames := .map t m .midKey :: rest }, .ok)
      | .assembleEntry k =>
          if mapHas m k then (st, .err .repeatedKey)
          else ({ st with frames := .map (t ++ [(k, none)]) m .midValue :: rest }, .ok)
      | .finish => deliver { st with frames := rest } (.map (DMKVs.ofList (tableEntries t)))
      | _ => (st, .panic)
  | .map t m .midKey :: rest =>
      match op with
      | .assign (.str k) => supplyKey st t m rest k
      | .assign _ => (st, .err .wrongKind)
      | .beginMap _ => (st, .err .wrongKind)
      | .beginList _ => (st, .err .wrongKind)
      | .assignNode (.str k) => supplyKey st t m rest k
      | .assignNode _ => (st, .err .other)
      | _ => (st, .panic)
  | .map t m .expectValue :: rest =>
      match op with
      | .assembleValue => ({ st with frames := .map t m .midValue :: rest }, .ok)
      | _ => (st, .panic)
  | .map _ _ .midValue :: _ => valueCall st false op
  | .list x .init :: rest =>
      match op with
      | .assembleValue => ({ st with frames := .list x .midValue :: rest }, .ok)
      | .finish => deliver { st with frames := rest } (.list (DMs.ofList x))
      | _ => (st, .panic)
  | .list _ .midValue :: _ => valueCall st false op

/-- Run a history; stops making claims at the first panic (the Go process would have unwound). -/
def run (st : St) : List Op → St × List Out
  | [] => (st, [])
  | op :: ops =>
    match step st op with
    | (st', .panic) => (st', [.panic])
    | (st', o) =>
      let (st'', os) := run st' ops
      (st'', o :: os)

def init (p : Proto) : St := { proto := p }

/-- `Build()` on the root builder: the finished value (Go panics if there is none). -/
def build (st : St) : Option DM := if st.frames.isEmpty then st.root else none

/-! ## Read side (node API) -/

inductive ReadErr where | wrongKind | notExists | other
  deriving Repr, DecidableEq

def lookupByString (d : DM) (k : Bytes) : Except ReadErr DM :=
  match d with
  | .map es => match es.toList.find? (fun e => e.1 == k) with
      | some e => .ok e.2
      | none => .error .notExists
  | _ => .error .wrongKind

def lookupByIndex (d : DM) (i : Int) : Except ReadErr DM :=
  match d with
  | .list xs => if i < 0 then .error .notExists else
      match xs.toList[i.toNat]? with
      | some x => .ok x
      | none => .error .notExists
  | _ => .error .wrongKind

def length (d : DM) : Int :=
  match d with
  | .list xs => xs.length
  | .map es => es.length
  | _ => -1

/-! ## Canonical plan: the calls that build a given tree -/

mutual
def planOf : DM → List Op
  | .list xs => .beginList xs.length :: (planList xs ++ [.finish])
  | .map es => .beginMap es.length :: (planKVs es ++ [.finish])
  | d => [.assign d]
def planList : DMs → List Op
  | .nil => []
  | .cons x xs => .assembleValue :: (planOf x ++ planList xs)
def planKVs : DMKVs → List Op
  | .nil => []
  | .cons k v es => .assembleEntry k :: (planOf v ++ planKVs es)
end

end Asm
end Ipld
