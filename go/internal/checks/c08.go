package checks

import (
	"bytes"
	"encoding/hex"
	"fmt"
	"sort"
	"strings"

	"github.com/ipld/go-ipld-prime/codec/dagcbor"
	"github.com/ipld/go-ipld-prime/codec/dagjson"
	"github.com/ipld/go-ipld-prime/datamodel"
	"github.com/ipld/go-ipld-prime/node/basicnode"
	"github.com/ipld/go-ipld-prime/schema"

	"verif/internal/core"
)

// C08 — type-level and representation views of a typed node obey the schema's strategy.
//
//   impl observation : for a random type system (schema.Spawn* API, bindnode.Prototype(nil, schemaType)) and a
//                      random inhabitant: the node built through the type-level builder and the node built through
//                      the representation builder, BOTH views of both read in full (Absent as `a`), the
//                      representation encoded with dag-cbor and dag-json, decoded back through the representation
//                      builder and re-encoded
//   (D) correspondence: views and builder outcomes == the Lean schema model (`schema.repr`, `schema.oftype bindnode`,
//                      `schema.ofrepr bindnode`)
//   (O) oracle        : independent of the model - both build routes give the same node (both views equal) and that
//                      node is the generated value; the representation view is the one the generator states per
//                      strategy (optional-absent omitted, nullable as null, renames, trailing absents of tuples
//                      dropped, delimiters, discriminants: core.ReprOf); decode(encode(repr)) gives the same typed
//                      value (up to the codec's map order) and the same bytes.
//   Failing cases are classified by the construction that provokes them (core.Triggers) into `C08/bindnode-…`
//   signatures; anything else is a plain violation.

func init() {
	core.Register(&core.Check{ID: "C08", Run: runC08, Replay: replayC08})
}

// ---------------------------------------------------------------------------------------------
// shared by C08 / C09 (and C13 later)

type schemaCase struct {
	T   *core.SType
	Ty  string // token form
	Eng core.TypedEngine
	// the same tree with every enum weakened to String, bound with inferred Go types (route "weak-node"); nil = not yet
	// made, weakErr = cannot be made
	weak    *core.SType
	weakEng core.TypedEngine
	weakErr error
}

func (sc *schemaCase) weakBuilder() (datamodel.NodeBuilder, error) {
	if sc.weak == nil && sc.weakErr == nil {
		w := core.WeakenEnums(sc.T)
		ts, err := core.BuildTypeSystem(w)
		if err != nil {
			sc.weakErr = err
		} else {
			sc.weak, sc.weakEng = w, core.NewBindEngine(ts)
		}
	}
	if sc.weakErr != nil {
		return nil, sc.weakErr
	}
	return sc.weakEng.NewTypeBuilder(sc.weak.Name)
}

func newSchemaCase(t *core.SType) (*schemaCase, error) {
	ts, err := core.BuildTypeSystem(t)
	if err != nil {
		return nil, err
	}
	// the reflection binding with inferred Go types, or with caller-supplied ones (the choice and the Go types are
	// functions of the type's token form, so a case line determines them)
	var eng core.TypedEngine = core.NewBindEngine(ts)
	toks := t.Tokens()
	h := uint32(2166136261)
	for _, c := range []byte(toks) {
		h = (h ^ uint32(c)) * 16777619
	}
	if (h>>7)%2 == 1 {
		eng = core.NewUserBindEngine(ts, toks)
	}
	// bind now: a schema the engine cannot bind is an infrastructure problem of the generator, not a case
	if _, err := eng.NewTypeBuilder(t.Name); err != nil {
		return nil, err
	}
	return &schemaCase{T: t, Ty: toks, Eng: eng}, nil
}

func genSchemaCase(r *core.Rand, cfg core.SchemaCfg) (*schemaCase, error) {
	return newSchemaCase(core.GenSchema(r, cfg))
}

// buildObs is what feeding one whole input into one builder shows.
type buildObs struct {
	Outcome string // accepted | rejected | panic | unfed (the route cannot carry the input)
	Node    datamodel.Node
	Detail  string
}

// weak-node (type level only): the input is first built as a typed node of ANOTHER schema - the same tree with every
// enum weakened to String, whose Go types are the same - and handed over with AssignNode: a typed source is data like
// any other and must be accepted or refused exactly as the same data from a plain node
// direct-uint: as direct, but every non-negative integer arrives as a datamodel.UintNode handed over with AssignNode
var schemaRoutes = []string{"direct", "direct-rand", "cbor", "json", "weak-node", "direct-uint"}

// feed pushes the whole input into the builder of the root type at the level, over the route.
func feed(sc *schemaCase, lvl, route string, input core.Val, r *core.Rand) buildObs {
	var nb datamodel.NodeBuilder
	var err error
	if lvl == "type" {
		nb, err = sc.Eng.NewTypeBuilder(sc.T.Name)
	} else {
		nb, err = sc.Eng.NewReprBuilder(sc.T.Name)
	}
	if err != nil {
		return buildObs{Outcome: "panic", Detail: err.Error()}
	}
	var payload []byte
	switch route {
	case "cbor":
		payload = core.RawCBOR(nil, input)
	case "json":
		var sb strings.Builder
		if !core.RawJSON(&sb, input) {
			return buildObs{Outcome: "unfed"}
		}
		payload = []byte(sb.String())
	case "weak-node":
		if lvl != "type" {
			return buildObs{Outcome: "unfed"}
		}
	}
	var n datamodel.Node
	unfed := false
	ferr, panicked, pv := core.Catch(func() error {
		switch route {
		case "weak-node":
			wb, err := sc.weakBuilder()
			if err != nil {
				unfed = true
				return nil
			}
			var src datamodel.Node
			werr, wp, _ := core.Catch(func() error {
				if err := core.Assemble(wb, input, nil); err != nil {
					return err
				}
				src = wb.Build()
				return nil
			})
			if wp || werr != nil {
				unfed = true // the weakened schema does not hold this input either
				return nil
			}
			if err := nb.AssignNode(src); err != nil {
				return err
			}
		case "direct":
			if err := core.Assemble(nb, input, nil); err != nil {
				return err
			}
		case "direct-uint":
			core.UintNodesForNonNegative = true
			err := core.Assemble(nb, input, nil)
			core.UintNodesForNonNegative = false
			if err != nil {
				return err
			}
		case "direct-rand":
			if err := assembleInput(nb, input, r); err != nil {
				return err
			}
		case "cbor":
			if err := dagcbor.Decode(nb, bytes.NewReader(payload)); err != nil {
				return err
			}
		case "json":
			if err := dagjson.Decode(nb, bytes.NewReader(payload)); err != nil {
				return err
			}
		}
		n = nb.Build()
		return nil
	})
	if panicked {
		return buildObs{Outcome: "panic", Detail: fmt.Sprint(pv)}
	}
	if unfed {
		return buildObs{Outcome: "unfed"}
	}
	if ferr != nil {
		return buildObs{Outcome: "rejected", Detail: ferr.Error()}
	}
	return buildObs{Outcome: "accepted", Node: n}
}

// assembleInput is core.Assemble with every choice of the builder contract drawn from r, except that a subtree
// holding a repeated map key is never handed over as a prebuilt node: no node can hold it (basicnode refuses
// to build it), it exists only as a sequence of assembler calls.
func assembleInput(na datamodel.NodeAssembler, v core.Val, r *core.Rand) error {
	if !hasRepeatedKey(v) {
		return core.Assemble(na, v, r)
	}
	switch v.K {
	case '[':
		la, err := na.BeginList([]int64{-1, 0, int64(len(v.L))}[r.Intn(3)])
		if err != nil {
			return err
		}
		for _, x := range v.L {
			if err := assembleInput(la.AssembleValue(), x, r); err != nil {
				return err
			}
		}
		return la.Finish()
	case '{':
		ma, err := na.BeginMap([]int64{-1, 0, int64(len(v.M))}[r.Intn(3)])
		if err != nil {
			return err
		}
		for _, e := range v.M {
			switch r.Intn(3) {
			case 0:
				va, err := ma.AssembleEntry(string(e.K))
				if err != nil {
					return err
				}
				if err := assembleInput(va, e.V, r); err != nil {
					return err
				}
			case 1:
				if err := ma.AssembleKey().AssignString(string(e.K)); err != nil {
					return err
				}
				if err := assembleInput(ma.AssembleValue(), e.V, r); err != nil {
					return err
				}
			default:
				if err := ma.AssembleKey().AssignNode(basicnode.NewString(string(e.K))); err != nil {
					return err
				}
				if err := assembleInput(ma.AssembleValue(), e.V, r); err != nil {
					return err
				}
			}
		}
		return ma.Finish()
	}
	return core.Assemble(na, v, r)
}

// readView reads a node in full; a read error or panic is part of the observation.
func readView(n datamodel.Node) string {
	var v core.Val
	err, panicked, pv := core.Catch(func() error {
		var e error
		v, e = core.ReadNode(n)
		return e
	})
	if panicked {
		return "read-panic(" + fmt.Sprint(pv) + ")"
	}
	if err != nil {
		return "read-error(" + err.Error() + ")"
	}
	return v.Term()
}

func reprOfNode(n datamodel.Node) (datamodel.Node, bool) {
	tn, ok := n.(schema.TypedNode)
	if !ok {
		return nil, false
	}
	return tn.Representation(), true
}

func reprView(n datamodel.Node) string {
	var out string
	_, panicked, pv := core.Catch(func() error {
		rn, ok := reprOfNode(n)
		if !ok {
			out = "not-a-typed-node"
			return nil
		}
		out = readView(rn)
		return nil
	})
	if panicked {
		return "read-panic(" + fmt.Sprint(pv) + ")"
	}
	return out
}

func (o buildObs) typeObs() string {
	if o.Outcome == "accepted" {
		return "accepted " + readView(o.Node)
	}
	return o.Outcome
}

// modelObs maps a model answer (`ok <term>` | `reject` | `panic`) into the observation alphabet.
func modelObs(s string) string {
	switch {
	case strings.HasPrefix(s, "ok "):
		return "accepted " + s[3:]
	case s == "reject":
		return "rejected"
	}
	return s
}

func sortedTerm(term string) string {
	v, err := core.ParseTermString(term)
	if err != nil {
		return term
	}
	return v.Sorted(core.LessCbor).Term()
}

func distStrategies(c *core.Ctx, t *core.SType) {
	m := map[string]bool{}
	t.Strategies(m)
	ks := make([]string, 0, len(m))
	for k := range m {
		ks = append(ks, k)
	}
	sort.Strings(ks)
	for _, k := range ks {
		c.Dist("strategy:" + k)
	}
}

// c08KnownConsequence: per recorded construction, the sub-checks it is known to fail.
var c08KnownConsequence = map[string]map[string]bool{
	"tuple-absent-before-present-field": {"C08/value-without-representation": true},
}

func triggerList(t *core.SType, v core.Val) []string {
	m := map[string]bool{}
	core.Triggers(t, v, false, m)
	ks := make([]string, 0, len(m))
	for k := range m {
		ks = append(ks, k)
	}
	sort.Strings(ks)
	return ks
}

// replayWitnesses re-executes the witness (a case line) of every `known` finding of the property and tells the
// context whether it still fails with the finding's signature.
func replayWitnesses(c *core.Ctx, run func(witness string, report func(string, core.Replay)) error) error {
	for _, f := range c.Findings {
		if f.Status != "known" || !strings.HasPrefix(f.Witness, "schema.") {
			continue
		}
		fired := map[string]bool{}
		err := run(f.Witness, func(sig string, _ core.Replay) { fired[sig] = true })
		if err != nil {
			return fmt.Errorf("witness of %s cannot be replayed: %w", f.Signature, err)
		}
		c.KnownWitness(f.Signature, fired[f.Signature], f.Witness)
	}
	return nil
}

// ---------------------------------------------------------------------------------------------

type c08Case struct {
	sc *schemaCase
	v  core.Val // canonical typed value
}

func (cs c08Case) line() string { return "schema.repr " + cs.sc.Ty + " VAL " + cs.v.Term() }

type codecTrip struct {
	name                 string
	enc1, enc2           string // hex of the two encodings, or an error text
	back                 string // type view of the decoded node
	encErr, decErr, err2 string
}

func codecRoundTrip(sc *schemaCase, n datamodel.Node, name string) codecTrip {
	out := codecTrip{name: name}
	encode := func(n datamodel.Node) (b []byte, err error) {
		e, panicked, pv := core.Catch(func() error {
			rn, ok := reprOfNode(n)
			if !ok {
				return fmt.Errorf("not a typed node")
			}
			var buf bytes.Buffer
			var err error
			if name == "cbor" {
				err = dagcbor.Encode(rn, &buf)
			} else {
				err = dagjson.Encode(rn, &buf)
			}
			b = buf.Bytes()
			return err
		})
		if panicked {
			return nil, fmt.Errorf("panic: %v", pv)
		}
		return b, e
	}
	b1, err := encode(n)
	if err != nil {
		out.encErr = err.Error()
		return out
	}
	out.enc1 = hex.EncodeToString(b1)
	var n2 datamodel.Node
	derr, panicked, pv := core.Catch(func() error {
		nb, err := sc.Eng.NewReprBuilder(sc.T.Name)
		if err != nil {
			return err
		}
		if name == "cbor" {
			err = dagcbor.Decode(nb, bytes.NewReader(b1))
		} else {
			err = dagjson.Decode(nb, bytes.NewReader(b1))
		}
		if err != nil {
			return err
		}
		n2 = nb.Build()
		return nil
	})
	if panicked {
		out.decErr = fmt.Sprintf("panic: %v", pv)
		return out
	}
	if derr != nil {
		out.decErr = derr.Error()
		return out
	}
	out.back = readView(n2)
	b2, err := encode(n2)
	if err != nil {
		out.err2 = err.Error()
		return out
	}
	out.enc2 = hex.EncodeToString(b2)
	return out
}

// report: c.Fail for a run; a collector when the witness of a known finding is replayed (stats == false).
func c08Batch(c *core.Ctx, cases []c08Case, r *core.Rand, report func(string, core.Replay), stats bool) error {
	// model lines: 5 per case
	lines := make([]string, 0, 5*len(cases))
	type prep struct {
		ti      core.Val
		rv      core.Val
		reprOK  bool
		trigger []string
	}
	preps := make([]prep, len(cases))
	for i, cs := range cases {
		p := prep{ti: core.TypeInput(cs.v)}
		p.rv, p.reprOK = core.ReprOf(cs.sc.T, cs.v)
		p.trigger = triggerList(cs.sc.T, cs.v)
		preps[i] = p
		lines = append(lines, cs.line())
		lines = append(lines, "schema.oftype "+cs.sc.Eng.ModelName()+" "+cs.sc.Ty+" VAL "+p.ti.Term())
		if p.reprOK {
			lines = append(lines, "schema.ofrepr "+cs.sc.Eng.ModelName()+" "+cs.sc.Ty+" VAL "+p.rv.Term())
		} else {
			lines = append(lines, "schema.wf "+cs.sc.Ty)
		}
		lines = append(lines, "schema.conforms "+cs.sc.Ty+" VAL "+cs.v.Term())
		if p.reprOK {
			lines = append(lines, "schema.ofrepr ideal "+cs.sc.Ty+" VAL "+p.rv.Term())
		} else {
			lines = append(lines, "schema.wf "+cs.sc.Ty)
		}
	}
	outs, err := core.RunDriver(lines)
	if err != nil {
		return err
	}
	for i, cs := range cases {
		p := preps[i]
		mRepr, mOfType, mOfRepr, mConf, mIdealRT := outs[5*i], outs[5*i+1], outs[5*i+2], outs[5*i+3], outs[5*i+4]
		want := cs.v.Term()
		rr := r.Fork()

		// impl
		o1 := feed(cs.sc, "type", "direct-rand", p.ti, rr)
		tv1, rv1 := "-", "-"
		if o1.Outcome == "accepted" {
			tv1, rv1 = readView(o1.Node), reprView(o1.Node)
		}
		var o2 buildObs
		tv2, rv2 := "-", "-"
		if p.reprOK {
			o2 = feed(cs.sc, "repr", "direct-rand", p.rv, rr)
			if o2.Outcome == "accepted" {
				tv2, rv2 = readView(o2.Node), reprView(o2.Node)
			}
		}
		var trips []codecTrip
		if o1.Outcome == "accepted" {
			trips = append(trips, codecRoundTrip(cs.sc, o1.Node, "cbor"), codecRoundTrip(cs.sc, o1.Node, "json"))
		}

		if stats {
			c.Count(cs.line(), cs.v.Size() >= 3)
			c.Trace(1)
			distStrategies(c, cs.sc.T)
			c.Dist("root:" + cs.sc.T.K)
			for _, t := range p.trigger {
				c.Dist("trigger:" + t)
			}
			if len(p.trigger) == 0 {
				c.Dist("trigger:none")
			}
		}
		implObs := fmt.Sprintf("fromtype=%s %s | repr=%s | fromrepr=%s", o1.Outcome, tv1, rv1, o2.typeObsOr(p.reprOK))
		if i < 3 && stats {
			c.Sample(map[string]string{"case": cs.line(), "impl": implObs, "model-repr": mRepr})
		}

		fail := func(sig, kind, expected, detail string) {
			// a recorded finding is identified by the construction that provokes it AND by the sub-check it fails;
			// any other failure on the same case keeps its own signature and is reported
			if len(p.trigger) > 0 && c08KnownConsequence[p.trigger[0]][sig] {
				if stats {
					c.Dist("classified:" + p.trigger[0] + " <- " + sig)
				}
				detail = "check=" + sig + " " + detail
				sig = "C08/bindnode-" + p.trigger[0]
			}
			report(sig, core.Replay{Kind: kind, Case: cs.line(), Impl: implObs,
				Model:    fmt.Sprintf("repr=%s | oftype=%s | ofrepr=%s | conforms=%s", mRepr, mOfType, mOfRepr, mConf),
				Expected: expected, Detail: detail})
		}

		// the generator and the model agree that the value inhabits the type (else the machinery is wrong)
		if mConf != "true" {
			report("C08/model-rejects-generated-inhabitant", core.Replay{Kind: "correspondence", Case: cs.line(), Model: mConf, Detail: "schema.conforms is false on a generated inhabitant"})
			continue
		}
		goRepr := "nonconforming"
		if p.reprOK {
			goRepr = p.rv.Term()
		}
		if mRepr != goRepr {
			report("C08/model-vs-generator-repr", core.Replay{Kind: "correspondence", Case: cs.line(), Model: mRepr, Expected: goRepr, Detail: "the model's representation differs from the generator's statement of the strategy"})
			continue
		}

		// the model's ideal representation builder inverts the model's representation on this value (target theorem
		// repr_roundtrip; a failure here is the model's, or the generator left the strategy's unambiguity hypotheses)
		if p.reprOK && mIdealRT != "ok "+want {
			report("C08/model-repr-roundtrip", core.Replay{Kind: "correspondence", Case: cs.line(), Model: mIdealRT, Expected: "ok " + want, Detail: "schema.ofrepr ideal (schema.repr v) is not v"})
			continue
		}

		// (O) the type-level route builds the generated value
		if o1.Outcome != "accepted" || tv1 != want {
			fail("C08/type-level-route", "oracle", "accepted "+want, "type-level builder: "+o1.Outcome+" "+o1.Detail)
			continue
		}
		// (O) the representation view is the strategy's
		if p.reprOK && rv1 != goRepr {
			fail("C08/representation-view", "oracle", goRepr, "Representation() of the node built at type level")
			continue
		}
		if !p.reprOK {
			// no data-model representation exists for this value (absent before present in a tuple): whatever the
			// engine shows is a violation of the strategy
			fail("C08/value-without-representation", "oracle", "a representation (or a refusal to build the value)", "repr view: "+rv1)
			continue
		}
		// (O) both build routes give the same node
		if o2.Outcome != "accepted" || tv2 != tv1 || rv2 != rv1 {
			fail("C08/routes-differ", "oracle", "accepted "+want+" / "+goRepr, fmt.Sprintf("representation builder: %s %s type=%s repr=%s", o2.Outcome, o2.Detail, tv2, rv2))
			continue
		}
		// (O) decode(encode(repr)) gives the same typed value (up to the codec's map order) and the same bytes
		for _, tr := range trips {
			switch {
			case tr.encErr != "":
				fail("C08/encode-"+tr.name, "oracle", "encodes", tr.encErr)
			case tr.decErr != "":
				fail("C08/roundtrip-decode-"+tr.name, "oracle", "accepted "+want, tr.decErr+" bytes="+tr.enc1)
			case sortedTerm(tr.back) != sortedTerm(want):
				fail("C08/roundtrip-value-"+tr.name, "oracle", want, "decoded: "+tr.back+" bytes="+tr.enc1)
			case tr.err2 != "":
				fail("C08/encode-"+tr.name, "oracle", "re-encodes", tr.err2)
			case tr.enc1 != tr.enc2:
				fail("C08/roundtrip-bytes-"+tr.name, "oracle", tr.enc1, tr.enc2)
			}
		}
		// (D) views and builder outcomes == model
		if modelObs(mOfType) != "accepted "+tv1 {
			fail("C08/corr-oftype", "correspondence", modelObs(mOfType), "type-level builder vs schema.oftype")
		}
		if modelObs(mOfRepr) != "accepted "+tv2 {
			fail("C08/corr-ofrepr", "correspondence", modelObs(mOfRepr), "representation builder vs schema.ofrepr")
		}
		if mRepr != rv1 {
			fail("C08/corr-repr", "correspondence", mRepr, "representation view vs schema.repr")
		}
	}
	return nil
}

func (o buildObs) typeObsOr(fed bool) string {
	if !fed {
		return "not-fed"
	}
	return o.typeObs()
}

func runC08(c *core.Ctx) error {
	c.Rule = "case = (random type system within: scalars, link, any, typed list/map (values nullable or not), struct map(renames, optional, nullable, both)|tuple|stringjoin|listpairs, union keyed|kinded|stringprefix, enum string|int; depth <= 3; built with schema.Spawn*; bound with bindnode.Prototype(nil, type)) x (random inhabitant); non-trivial = value of >= 3 nodes; distinct by (type, value)"
	c.Explanation = "model: lean/IpldModel/Model/Schema.lean (toRepr, build); no theorems registered yet for C08 - this run is correspondence + oracle only"
	c.Assumptions = []string{
		"engine: reflection binding with inferred Go types only (generated code: C13)",
		"ints within int64, finite non-integral floats (C04/K2 keeps integral floats out of dag-json round trips), UTF-8 strings, no map key \"/\"",
		"stringjoin / stringprefix field strings are free of the enclosing delimiters (hypothesis of the strategy)",
	}
	// typed maps keyed by a string-represented enum with renamed members: keys are spelled differently at the two levels
	// (shared with C09, which decides acceptance; here: the two views and their lookups by key)
	if err := c09EnumKeys(c, c.Rand.Fork(), c.Pick(100, 10000), "C08"); err != nil {
		return err
	}
	// witnesses of the known findings, replayed on the implementation
	if err := replayWitnesses(c, func(w string, report func(string, core.Replay)) error {
		sc, v, err := parseSchemaCase(w, 1)
		if err != nil {
			return err
		}
		return c08Batch(c, []c08Case{{sc: sc, v: v}}, c.Rand, report, false)
	}); err != nil {
		return err
	}
	nSchemas := c.Pick(4000, 200000)
	perSchema := 6
	cfg := core.DefaultSchemaCfg
	cfg.UnionAnyMember = 4
	var batch []c08Case
	flush := func() error {
		if len(batch) == 0 {
			return nil
		}
		err := c08Batch(c, batch, c.Rand, c.Fail, true)
		batch = batch[:0]
		return err
	}
	for s := 0; s < nSchemas; s++ {
		sc, err := genSchemaCase(c.Rand, cfg)
		if err != nil {
			c.Fail("C08/schema-not-bindable", core.Replay{Kind: "oracle", Case: "", Detail: err.Error()})
			continue
		}
		for k := 0; k < perSchema; k++ {
			batch = append(batch, c08Case{sc: sc, v: core.GenInhabitant(sc.T, c.Rand, cfg, false)})
		}
		if len(batch) >= 3000 {
			if err := flush(); err != nil {
				return err
			}
		}
	}
	return flush()
}

// parseSchemaCase parses `<cmd> [engine] <ty…> VAL <term…>`.
func parseSchemaCase(caseLine string, skip int) (*schemaCase, core.Val, error) {
	f := strings.Fields(caseLine)
	if len(f) <= skip {
		return nil, core.Val{}, fmt.Errorf("bad case")
	}
	t, rest, err := core.ParseSType(f[skip:])
	if err != nil {
		return nil, core.Val{}, err
	}
	if len(rest) == 0 || rest[0] != "VAL" {
		return nil, core.Val{}, fmt.Errorf("bad case: no VAL")
	}
	v, rest2, err := core.ParseTerm(rest[1:])
	if err != nil || len(rest2) != 0 {
		return nil, core.Val{}, fmt.Errorf("bad value term")
	}
	sc, err := newSchemaCase(t)
	if err != nil {
		return nil, core.Val{}, err
	}
	return sc, v, nil
}

func replayC08(c *core.Ctx, rp core.Replay) error {
	if strings.HasPrefix(rp.Case, "enumkey.") {
		return replayEnumKey(c, rp, "C08")
	}
	sc, v, err := parseSchemaCase(rp.Case, 1)
	if err != nil {
		return err
	}
	return c08Batch(c, []c08Case{{sc: sc, v: v}}, c.Rand, c.Fail, false)
}
