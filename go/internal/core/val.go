package core

import (
	"encoding/hex"
	"fmt"
	"math"
	"strconv"
	"strings"

	"github.com/ipfs/go-cid"
	"github.com/ipld/go-ipld-prime/datamodel"
	cidlink "github.com/ipld/go-ipld-prime/linking/cid"
)

// Val is the harness's own, implementation-independent representation of a data-model value;
// it prints to / parses from the line-protocol term language shared with the Lean driver.
type Val struct {
	K   byte // 'n','t','f','i','d','s','b','l','[','{'  ('a' = absent, typed views only)
	Neg bool   // ints: sign
	Mag uint64 // ints: magnitude (value = -Mag if Neg) ; Neg && Mag==0 means -2^64 (never generated as a node)
	F   uint64 // float bits
	S   []byte // string / bytes / link (CID bytes)
	L   []Val
	M   []KV
}

type KV struct {
	K []byte
	V Val
}

func Null() Val            { return Val{K: 'n'} }
func Bool(b bool) Val      { if b { return Val{K: 't'} }; return Val{K: 'f'} }
func Int(i int64) Val      { if i < 0 { return Val{K: 'i', Neg: true, Mag: uint64(-(i + 1)) + 1} }; return Val{K: 'i', Mag: uint64(i)} }
func Uint(u uint64) Val    { return Val{K: 'i', Mag: u} }
func Float(f float64) Val  { return Val{K: 'd', F: math.Float64bits(f)} }
func FloatBits(b uint64) Val { return Val{K: 'd', F: b} }
func Str(s string) Val     { return Val{K: 's', S: []byte(s)} }
func Bytes(b []byte) Val   { return Val{K: 'b', S: b} }
func Link(c []byte) Val    { return Val{K: 'l', S: c} }
func List(xs ...Val) Val   { return Val{K: '[', L: xs} }
func Map(es ...KV) Val     { return Val{K: '{', M: es} }

// IsInt64 reports whether an int value fits int64, and returns it.
func (v Val) Int64() (int64, bool) {
	if v.Neg {
		if v.Mag == 0 || v.Mag > 1<<63 {
			return 0, false
		}
		return -int64(v.Mag-1) - 1, true
	}
	if v.Mag > math.MaxInt64 {
		return 0, false
	}
	return int64(v.Mag), true
}

func (v Val) writeTerm(sb *strings.Builder) {
	switch v.K {
	case 'n', 't', 'f', 'a':
		sb.WriteByte(v.K)
	case 'i':
		sb.WriteByte('i')
		if v.Neg {
			sb.WriteByte('-')
			if v.Mag == 0 {
				sb.WriteString("18446744073709551616")
				return
			}
		}
		sb.WriteString(strconv.FormatUint(v.Mag, 10))
	case 'd':
		fmt.Fprintf(sb, "d%016x", v.F)
	case 's', 'b', 'l':
		sb.WriteByte(v.K)
		sb.WriteString(hex.EncodeToString(v.S))
	case '[':
		sb.WriteString("[")
		for _, x := range v.L {
			sb.WriteByte(' ')
			x.writeTerm(sb)
		}
		sb.WriteString(" ]")
	case '{':
		sb.WriteString("{")
		for _, e := range v.M {
			sb.WriteString(" s")
			sb.WriteString(hex.EncodeToString(e.K))
			sb.WriteByte(' ')
			e.V.writeTerm(sb)
		}
		sb.WriteString(" }")
	default:
		sb.WriteString("?")
	}
}

func (v Val) Term() string {
	var sb strings.Builder
	v.writeTerm(&sb)
	return sb.String()
}

// ParseTerm parses a term from whitespace-separated tokens; returns the value and the remaining tokens.
func ParseTerm(toks []string) (Val, []string, error) {
	if len(toks) == 0 {
		return Val{}, nil, fmt.Errorf("empty term")
	}
	t, rest := toks[0], toks[1:]
	switch {
	case t == "n" || t == "t" || t == "f" || t == "a":
		return Val{K: t[0]}, rest, nil
	case t == "[":
		var xs []Val
		for {
			if len(rest) == 0 {
				return Val{}, nil, fmt.Errorf("unterminated list")
			}
			if rest[0] == "]" {
				return Val{K: '[', L: xs}, rest[1:], nil
			}
			x, r, err := ParseTerm(rest)
			if err != nil {
				return Val{}, nil, err
			}
			xs = append(xs, x)
			rest = r
		}
	case t == "{":
		var es []KV
		for {
			if len(rest) == 0 {
				return Val{}, nil, fmt.Errorf("unterminated map")
			}
			if rest[0] == "}" {
				return Val{K: '{', M: es}, rest[1:], nil
			}
			if rest[0][0] != 's' {
				return Val{}, nil, fmt.Errorf("bad key token %q", rest[0])
			}
			k, err := hex.DecodeString(rest[0][1:])
			if err != nil {
				return Val{}, nil, err
			}
			x, r, err := ParseTerm(rest[1:])
			if err != nil {
				return Val{}, nil, err
			}
			es = append(es, KV{k, x})
			rest = r
		}
	case t[0] == 'i':
		s := t[1:]
		neg := strings.HasPrefix(s, "-")
		if neg {
			s = s[1:]
		}
		if neg && s == "18446744073709551616" {
			return Val{K: 'i', Neg: true, Mag: 0}, rest, nil
		}
		u, err := strconv.ParseUint(s, 10, 64)
		if err != nil {
			return Val{}, nil, err
		}
		if neg && u == 0 {
			neg = false
		}
		return Val{K: 'i', Neg: neg, Mag: u}, rest, nil
	case t[0] == 'd':
		u, err := strconv.ParseUint(t[1:], 16, 64)
		if err != nil {
			return Val{}, nil, err
		}
		return Val{K: 'd', F: u}, rest, nil
	case t[0] == 's' || t[0] == 'b' || t[0] == 'l':
		b, err := hex.DecodeString(t[1:])
		if err != nil {
			return Val{}, nil, err
		}
		return Val{K: t[0], S: b}, rest, nil
	}
	return Val{}, nil, fmt.Errorf("bad token %q", t)
}

func ParseTermString(s string) (Val, error) {
	v, rest, err := ParseTerm(strings.Fields(s))
	if err != nil {
		return Val{}, err
	}
	if len(rest) != 0 {
		return Val{}, fmt.Errorf("trailing tokens")
	}
	return v, nil
}

// canonNaN: all NaN bit patterns are reported as one (payload bits are not part of any property).
const canonNaN = 0x7ff8000000000001

// ReadNode reads a node into a Val through the public Node interface only.
// ReadNode reads a node into a Val.  A node nested deeper than any tree the checks build (a node that has come to
// contain itself through a defect, say) is an error, not a stack overflow.
func ReadNode(n datamodel.Node) (Val, error) {
	budget := 300000
	return readNodeAt(n, 0, &budget)
}

func readNodeAt(n datamodel.Node, depth int, budget *int) (Val, error) {
	if *budget--; depth > 5000 || *budget < 0 {
		return Val{}, fmt.Errorf("node nested deeper than 5000 levels or of more than 300000 nodes (cyclic?)")
	}
	if n == nil {
		return Val{}, fmt.Errorf("nil node")
	}
	switch n.Kind() {
	case datamodel.Kind_Null:
		if n.IsAbsent() {
			return Val{K: 'a'}, nil
		}
		return Null(), nil
	case datamodel.Kind_Bool:
		b, err := n.AsBool()
		if err != nil {
			return Val{}, err
		}
		return Bool(b), nil
	case datamodel.Kind_Int:
		if un, ok := n.(datamodel.UintNode); ok {
			u, err := un.AsUint()
			if err != nil {
				return Val{}, err
			}
			return Uint(u), nil
		}
		i, err := n.AsInt()
		if err != nil {
			return Val{}, err
		}
		return Int(i), nil
	case datamodel.Kind_Float:
		f, err := n.AsFloat()
		if err != nil {
			return Val{}, err
		}
		if math.IsNaN(f) {
			return FloatBits(canonNaN), nil
		}
		return Float(f), nil
	case datamodel.Kind_String:
		s, err := n.AsString()
		if err != nil {
			return Val{}, err
		}
		return Str(s), nil
	case datamodel.Kind_Bytes:
		b, err := n.AsBytes()
		if err != nil {
			return Val{}, err
		}
		return Bytes(append([]byte{}, b...)), nil
	case datamodel.Kind_Link:
		l, err := n.AsLink()
		if err != nil {
			return Val{}, err
		}
		cl, ok := l.(cidlink.Link)
		if !ok {
			return Val{}, fmt.Errorf("non-cid link %T", l)
		}
		return Link(cl.Cid.Bytes()), nil
	case datamodel.Kind_List:
		v := Val{K: '['}
		it := n.ListIterator()
		for !it.Done() {
			_, x, err := it.Next()
			if err != nil {
				return Val{}, err
			}
			xv, err := readNodeAt(x, depth+1, budget)
			if err != nil {
				return Val{}, err
			}
			v.L = append(v.L, xv)
		}
		return v, nil
	case datamodel.Kind_Map:
		v := Val{K: '{'}
		it := n.MapIterator()
		for !it.Done() {
			k, x, err := it.Next()
			if err != nil {
				return Val{}, err
			}
			ks, err := k.AsString()
			if err != nil {
				return Val{}, err
			}
			xv, err := readNodeAt(x, depth+1, budget)
			if err != nil {
				return Val{}, err
			}
			v.M = append(v.M, KV{[]byte(ks), xv})
		}
		return v, nil
	}
	return Val{}, fmt.Errorf("invalid kind %v", n.Kind())
}

// LinkOf converts CID bytes to a cidlink (must be valid).
func LinkOf(b []byte) (datamodel.Link, error) {
	c, err := cid.Cast(b)
	if err != nil {
		return nil, err
	}
	return cidlink.Link{Cid: c}, nil
}

// Equal is structural equality of Vals (float bits compared exactly; NaN canonicalised on read).
func (v Val) Equal(w Val) bool { return v.Term() == w.Term() }

// Sorted returns a copy with every map's entries sorted by `less` on keys (recursively).
func (v Val) Sorted(less func(a, b []byte) bool) Val {
	switch v.K {
	case '[':
		out := Val{K: '[', L: make([]Val, len(v.L))}
		for i, x := range v.L {
			out.L[i] = x.Sorted(less)
		}
		if len(out.L) == 0 {
			out.L = nil
		}
		return out
	case '{':
		out := Val{K: '{', M: make([]KV, len(v.M))}
		for i, e := range v.M {
			out.M[i] = KV{e.K, e.V.Sorted(less)}
		}
		// insertion sort (stable)
		for i := 1; i < len(out.M); i++ {
			for j := i; j > 0 && less(out.M[j].K, out.M[j-1].K); j-- {
				out.M[j], out.M[j-1] = out.M[j-1], out.M[j]
			}
		}
		if len(out.M) == 0 {
			out.M = nil
		}
		return out
	}
	return v
}

func LessCbor(a, b []byte) bool {
	if len(a) != len(b) {
		return len(a) < len(b)
	}
	return string(a) < string(b)
}

func LessLex(a, b []byte) bool { return string(a) < string(b) }

// Size is the number of nodes in the tree.
func (v Val) Size() int {
	n := 1
	for _, x := range v.L {
		n += x.Size()
	}
	for _, e := range v.M {
		n += e.V.Size()
	}
	return n
}

func (v Val) Depth() int {
	d := 0
	for _, x := range v.L {
		if xd := x.Depth() + 1; xd > d {
			d = xd
		}
	}
	for _, e := range v.M {
		if ed := e.V.Depth() + 1; ed > d {
			d = ed
		}
	}
	if (v.K == '[' || v.K == '{') && d == 0 {
		d = 1
	}
	return d
}
