/-
  Sorting lemmas for the lexical (bytewise) key order used by DAG-JSON: insertion sort on lists (mirror
  of `Spec.insertKVLex`), its agreement with the model's merge sort, and commutation of sorting with
  a map over the values.
-/
import IpldModel.Lemmas.CborSort
import IpldModel.Spec.CanonJson
namespace Ipld
namespace Json
open Cbor

variable {α : Type}

def insertLex (k : Bytes) (v : α) : List (Bytes × α) → List (Bytes × α)
  | [] => [(k, v)]
  | (k', v') :: es => if lexLE k k' then (k, v) :: (k', v') :: es else (k', v') :: insertLex k v es

def isortLex : List (Bytes × α) → List (Bytes × α)
  | [] => []
  | (k, v) :: es => insertLex k v (isortLex es)

theorem insertLex_perm (k : Bytes) (v : α) (l : List (Bytes × α)) : (insertLex k v l).Perm ((k, v) :: l) := by
  induction l with
  | nil => exact List.Perm.refl _
  | cons x xs ih =>
    obtain ⟨k', v'⟩ := x
    simp only [insertLex]
    split
    · exact List.Perm.refl _
    · exact (List.Perm.cons _ ih).trans (List.Perm.swap _ _ _)

theorem isortLex_perm (l : List (Bytes × α)) : (isortLex l).Perm l := by
  induction l with
  | nil => exact List.Perm.refl _
  | cons x xs ih =>
    obtain ⟨k, v⟩ := x
    exact (insertLex_perm k v _).trans (List.Perm.cons _ ih)

theorem insertLex_sorted (k : Bytes) (v : α) (l : List (Bytes × α))
    (s : l.Pairwise (fun a b => lexLE a.1 b.1 = true)) :
    (insertLex k v l).Pairwise (fun a b => lexLE a.1 b.1 = true) := by
  induction l with
  | nil => simp [insertLex]
  | cons x xs ih =>
    obtain ⟨k', v'⟩ := x
    simp only [insertLex]
    rw [List.pairwise_cons] at s
    obtain ⟨hx, hxs⟩ := s
    split
    · rename_i hle
      rw [List.pairwise_cons]
      refine ⟨?_, List.pairwise_cons.mpr ⟨hx, hxs⟩⟩
      intro b hb
      simp only [List.mem_cons] at hb
      rcases hb with rfl | hb
      · exact hle
      · exact lexLE_trans _ _ _ hle (hx b hb)
    · rename_i hnle
      have hle' : lexLE k' k = true := by
        have := lexLE_total k k'
        simp only [Bool.or_eq_true] at this
        rcases this with h | h
        · exact absurd h hnle
        · exact h
      rw [List.pairwise_cons]
      refine ⟨?_, ih hxs⟩
      intro b hb
      have := (insertLex_perm k v xs).subset hb
      simp only [List.mem_cons] at this
      rcases this with rfl | hb'
      · exact hle'
      · exact hx b hb'

theorem isortLex_sorted (l : List (Bytes × α)) : (isortLex l).Pairwise (fun a b => lexLE a.1 b.1 = true) := by
  induction l with
  | nil => simp [isortLex]
  | cons x xs ih =>
    obtain ⟨k, v⟩ := x
    exact insertLex_sorted k v _ ih

/-- Insertion sort and the model's merge sort agree on lists with distinct keys (lexical order). -/
theorem isortLex_eq_sortPairs {l : List (Bytes × α)} (nd : (keysOf l).Nodup) :
    isortLex l = sortPairs .lexical l := by
  apply sorted_perm_unique lexLE lexLE_antisymm
  · exact ((keysOf_perm (isortLex_perm l)).nodup_iff).mpr nd
  · exact isortLex_sorted l
  · exact sortPairs_sorted .lexical (by decide) l
  · exact (isortLex_perm l).trans (sortPairs_perm .lexical l).symm

theorem insertLex_map {β : Type} (f : α → β) (k : Bytes) (v : α) (l : List (Bytes × α)) :
    (insertLex k v l).map (fun e => (e.1, f e.2)) = insertLex k (f v) (l.map (fun e => (e.1, f e.2))) := by
  induction l with
  | nil => rfl
  | cons x xs ih =>
    obtain ⟨k', v'⟩ := x
    simp only [insertLex, List.map_cons]
    split
    · rfl
    · simp [ih]

theorem isortLex_map {β : Type} (f : α → β) (l : List (Bytes × α)) :
    (isortLex l).map (fun e => (e.1, f e.2)) = isortLex (l.map (fun e => (e.1, f e.2))) := by
  induction l with
  | nil => rfl
  | cons x xs ih =>
    obtain ⟨k, v⟩ := x
    simp only [isortLex, List.map_cons]
    rw [insertLex_map, ih]

/-! ### agreement with the Spec -/

theorem insertKVLex_toList (k : Bytes) (v : DM) : (es : DMKVs) →
    (Spec.insertKVLex k v es).toList = insertLex k v es.toList
  | .nil => rfl
  | .cons k' v' es => by
    simp only [Spec.insertKVLex, DMKVs.toList, insertLex, spec_bytewiseLE_eq]
    split
    · rfl
    · simp [DMKVs.toList, insertKVLex_toList k v es]

theorem canonLexKVs_toList : (es : DMKVs) →
    (Spec.canonLexKVs es).toList = isortLex (es.toList.map (fun e => (e.1, Spec.canonLex e.2)))
  | .nil => rfl
  | .cons k v es => by
    simp only [Spec.canonLexKVs, DMKVs.toList, List.map_cons, isortLex]
    rw [insertKVLex_toList, canonLexKVs_toList es]

theorem keys_cons (k : Bytes) (v : DM) (es : DMKVs) : (DMKVs.cons k v es).keys = k :: es.keys := by
  simp [DMKVs.keys, DMKVs.toList]

theorem canonLexKVs_keys_perm (es : DMKVs) : (Spec.canonLexKVs es).keys.Perm es.keys := by
  simp only [DMKVs.keys, canonLexKVs_toList]
  have := (isortLex_perm (es.toList.map (fun e => (e.1, Spec.canonLex e.2)))).map (·.1)
  simpa [List.map_map, Function.comp_def] using this

end Json
end Ipld
