/-
  C19 — binding Go values is faithful, reversible and a pure function of its inputs.
  Property theorems only.  The reflection walk itself is tied by correspondence only (DESIGN §9);
  what is logic — the integer-width rule and the registry of inferred types — is proved here.
-/
import IpldModel.Model.Bind
import IpldModel.Generated.GlobalWrites
namespace Ipld.Props.C19
open Ipld Ipld.Bind

/-- width_guard: the (repaired) code stores an integer exactly when it fits the Go field, and then stores
    exactly that integer; everything else is refused — for every width and every integer. -/
theorem width_guard (w : Width) (i : Int) : assignCode true w i = assignIdeal w i := by
  unfold assignCode assignIdeal
  by_cases hs : w.signed = true
  · simp [hs]
  · have hs' : w.signed = false := by simpa using hs
    by_cases hn : i < 0
    · have : fits w i = false := by
        unfold fits; simp [hs']; intro h0; omega
      simp [hs', hn, this]
    · simp [hs', hn]

/-- what is stored always fits the field and is the value assigned -/
theorem stored_is_value (w : Width) (i j : Int) (h : assignCode true w i = .stored j) : j = i ∧ fits w j = true := by
  rw [width_guard] at h
  unfold assignIdeal at h
  split at h
  · rename_i hf; cases h; exact ⟨rfl, hf⟩
  · cases h

/-- the unrepaired code deviates exactly on the values that do not fit: there it stores a different number -/
theorem truncating_code_witness : assignCode false .i8 300 = .stored 44 ∧ assignIdeal .i8 300 = .rejected := by decide

/-- uint64 above MaxInt64 into an int64 field wrapped to a negative number -/
theorem truncating_code_witness_u64 :
    assignCode false .i64 9223372036854775808 = .stored (-9223372036854775808) ∧ assignIdeal .i64 9223372036854775808 = .rejected := by decide

/-- binding_pure (explicit schemas): in any history of calls that all give their schema explicitly, every call
    answers exactly as it would alone, whatever was bound before (also with inferring calls interleaved, as long
    as the call in question is explicit). -/
theorem binding_pure_explicit (perCall : Bool) (reg : Registry) (g s : Nat) :
    (bindStep perCall reg (.explicit g s)).2 = single (.explicit g s) := rfl

/-- the registry never changes the answer of any call once inference is per call -/
theorem binding_pure (reg : Registry) (c : Call) : (bindStep true reg c).2 = single c := by
  cases c <;> simp [bindStep, single]

/-- every history succeeds with the single-call results under per-call inference -/
theorem binding_pure_history (reg : Registry) (h : List Call) : bindRun true reg h = h.map single := by
  induction h generalizing reg with
  | nil => rfl
  | cons c cs ih =>
    simp only [bindRun, List.map_cons]
    cases c <;> simp [bindStep, single, ih]

/-- binding_pure_partial: the code as it is satisfies the property on histories that infer each Go type at most once -/
theorem binding_pure_partial (reg : Registry) (h : List Call)
    (fresh : ∀ g, Call.inferred g ∈ h → g ∉ reg)
    (once : (h.filterMap fun c => match c with | .inferred g => some g | _ => none).Nodup) :
    bindRun false reg h = h.map single := by
  induction h generalizing reg with
  | nil => rfl
  | cons c cs ih =>
    cases c with
    | explicit g s =>
      simp only [bindRun, bindStep, List.map_cons, single]
      rw [ih reg (fun g hg => fresh g (List.mem_cons_of_mem _ hg)) (by simpa using once)]
    | inferred g =>
      have hg : g ∉ reg := fresh g (List.mem_cons_self)
      simp only [List.filterMap_cons, List.nodup_cons] at once
      have hc : reg.contains g = false := by simpa using hg
      simp only [bindRun, bindStep, Bool.false_eq_true, if_false, hc, List.map_cons, single, List.contains_nil]
      congr 1
      apply ih
      · intro g' hg'
        simp only [List.mem_cons, not_or]
        refine ⟨?_, fresh g' (List.mem_cons_of_mem _ hg')⟩
        intro e
        subst e
        apply once.1
        simp only [List.mem_filterMap]
        exact ⟨_, hg', rfl⟩
      · exact once.2

/-- the full statement is false of the code as it is: the second inference of the same Go type panics -/
theorem binding_inferred_twice_witness :
    bindRun false [] [.inferred 7, .inferred 7] = [.ok 7 7, .panic] ∧ [Call.inferred 7, .inferred 7].map single = [.ok 7 7, .ok 7 7] := by decide

/-- (T) Inventory, re-extracted from source on every run, of the package-level variables that any function other
    than `init` writes in the anchored packages (bindnode, schema, multicodec, traversal, selector, linking, cidlink,
    basicnode, datamodel, the two DAG codecs, memstore): exactly the registry of inferred schema types (`bindStep`'s
    state — the known finding) and the codec registry through its registration functions (set-up only by contract).
    A new global write breaks this theorem. -/
theorem globalWrites_src_inventory :
    Generated.globalWrites_src =
      [("node/bindnode", "defaultTypeSystem", ["inferSchema"]),
       ("multicodec", "DefaultRegistry", ["RegisterDecoder", "RegisterEncoder"])] := by decide

/-! Non-vacuity -/
example : assignCode true .u8 255 = .stored 255 ∧ assignCode true .u8 256 = .rejected ∧ assignCode true .i8 (-128) = .stored (-128) := by decide
example : bindRun false [] [.inferred 1, .explicit 1 5, .inferred 2] = [.ok 1 1, .ok 1 5, .ok 2 2] := by decide

end Ipld.Props.C19
