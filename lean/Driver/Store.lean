import IpldModel.Model.Term
import IpldModel.Model.Store
namespace Ipld.Driver
open Ipld Ipld.Store

def sharderOf : String → Option Sharder
  | "r12" => some shardR12
  | "r122" => some shardR122
  | "r133" => some shardR133
  | _ => none

def hexOrDash (b : Bytes) : String := if b.isEmpty then "-" else hexOfBytes b

/-- store.path <r12|r122|r133> <keyhex|->      → path components (hex, '/'-joined) under the base directory, key base32-escaped
    store.kv <op…>   ops: P<key>:<val>  G<key>  H<key>  (hex, '-' for empty)  → one answer per op: ok / <valhex> / none / t / f
    store.trace <t|f>  → the hook points of a successful Put -/
def storeHandler : List String → Option String
  | ["store.path", sh, k] =>
    match sharderOf sh, (if k == "-" then some [] else bytesOfHex k) with
    | some s, some key => some ("/".intercalate ((pathForKey b32Std s key).map hexOrDash))
    | _, _ => some "bad-args"
  | "store.kv" :: ops =>
    let step (acc : Kv × List String) (op : String) : Kv × List String :=
      let (s, out) := acc
      let arg (h : String) : Option Bytes := if h == "-" then some [] else bytesOfHex h
      match op.toList with
      | 'P' :: rest =>
        match (String.ofList rest).splitOn ":" with
        | [k, v] => match arg k, arg v with
          | some k, some v => (s.put k v, out ++ ["ok"])
          | _, _ => (s, out ++ ["bad"])
        | _ => (s, out ++ ["bad"])
      | 'G' :: rest => match arg (String.ofList rest) with
        | some k => (s, out ++ [match s.get k with | some v => hexOrDash v | none => "none"])
        | none => (s, out ++ ["bad"])
      | 'H' :: rest => match arg (String.ofList rest) with
        | some k => (s, out ++ [if s.has k then "t" else "f"])
        | none => (s, out ++ ["bad"])
      | _ => (s, out ++ ["bad"])
    some (" ".intercalate (ops.foldl step ([], [])).2)
  | ["store.trace", d] => some (" ".intercalate (putTrace (d == "t")))
  | _ => none

end Ipld.Driver
