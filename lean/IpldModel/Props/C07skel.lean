/-
  C07 (companion) — the selector clause methods (Interests / Explore / Decide of every clause) as transcribed into Sel.interests / Sel.explore / Sel.matchNode.
  Recorded by tools/pin_skeletons.py from the source the models were transcribed from; property-tie theorems only.
-/
import IpldModel.Generated.SelectorSkeletons
namespace Ipld.Props.C07

/-- (T) statement skeleton of `ExploreAll.Interests` (traversal/selector/exploreAll.go) — selector clause method (model: `Sel.interests` / `Sel.explore` / `Sel.matchNode`): the statements on this run are the recorded ones. -/
theorem sel_ExploreAll_Interests_is_transcribed : Ipld.Generated.sel_ExploreAll_Interests_skel_src = [
  "return nil"
] := rfl

/-- (T) statement skeleton of `ExploreAll.Explore` (traversal/selector/exploreAll.go) — selector clause method (model: `Sel.interests` / `Sel.explore` / `Sel.matchNode`): the statements on this run are the recorded ones. -/
theorem sel_ExploreAll_Explore_is_transcribed : Ipld.Generated.sel_ExploreAll_Explore_skel_src = [
  "return s.next, nil"
] := rfl

/-- (T) statement skeleton of `ExploreAll.Decide` (traversal/selector/exploreAll.go) — selector clause method (model: `Sel.interests` / `Sel.explore` / `Sel.matchNode`): the statements on this run are the recorded ones. -/
theorem sel_ExploreAll_Decide_is_transcribed : Ipld.Generated.sel_ExploreAll_Decide_skel_src = [
  "return false"
] := rfl

/-- (T) statement skeleton of `ExploreFields.Interests` (traversal/selector/exploreFields.go) — selector clause method (model: `Sel.interests` / `Sel.explore` / `Sel.matchNode`): the statements on this run are the recorded ones. -/
theorem sel_ExploreFields_Interests_is_transcribed : Ipld.Generated.sel_ExploreFields_Interests_skel_src = [
  "return s.interests"
] := rfl

/-- (T) statement skeleton of `ExploreFields.Explore` (traversal/selector/exploreFields.go) — selector clause method (model: `Sel.interests` / `Sel.explore` / `Sel.matchNode`): the statements on this run are the recorded ones. -/
theorem sel_ExploreFields_Explore_is_transcribed : Ipld.Generated.sel_ExploreFields_Explore_skel_src = [
  "return s.selections[p.String()], nil"
] := rfl

/-- (T) statement skeleton of `ExploreFields.Decide` (traversal/selector/exploreFields.go) — selector clause method (model: `Sel.interests` / `Sel.explore` / `Sel.matchNode`): the statements on this run are the recorded ones. -/
theorem sel_ExploreFields_Decide_is_transcribed : Ipld.Generated.sel_ExploreFields_Decide_skel_src = [
  "return false"
] := rfl

/-- (T) statement skeleton of `ExploreIndex.Interests` (traversal/selector/exploreIndex.go) — selector clause method (model: `Sel.interests` / `Sel.explore` / `Sel.matchNode`): the statements on this run are the recorded ones. -/
theorem sel_ExploreIndex_Interests_is_transcribed : Ipld.Generated.sel_ExploreIndex_Interests_skel_src = [
  "return s.interest[:]"
] := rfl

/-- (T) statement skeleton of `ExploreIndex.Explore` (traversal/selector/exploreIndex.go) — selector clause method (model: `Sel.interests` / `Sel.explore` / `Sel.matchNode`): the statements on this run are the recorded ones. -/
theorem sel_ExploreIndex_Explore_is_transcribed : Ipld.Generated.sel_ExploreIndex_Explore_skel_src = [
  "if n.Kind() != datamodel.Kind_List",
  ". return nil, nil",
  "expectedIndex, expectedErr := p.Index()",
  "actualIndex, actualErr := s.interest[0].Index()",
  "if expectedErr != nil || actualErr != nil || expectedIndex != actualIndex",
  ". return nil, nil",
  "return s.next, nil"
] := rfl

/-- (T) statement skeleton of `ExploreIndex.Decide` (traversal/selector/exploreIndex.go) — selector clause method (model: `Sel.interests` / `Sel.explore` / `Sel.matchNode`): the statements on this run are the recorded ones. -/
theorem sel_ExploreIndex_Decide_is_transcribed : Ipld.Generated.sel_ExploreIndex_Decide_skel_src = [
  "return false"
] := rfl

/-- (T) statement skeleton of `ExploreRange.Interests` (traversal/selector/exploreRange.go) — selector clause method (model: `Sel.interests` / `Sel.explore` / `Sel.matchNode`): the statements on this run are the recorded ones. -/
theorem sel_ExploreRange_Interests_is_transcribed : Ipld.Generated.sel_ExploreRange_Interests_skel_src = [
  "return s.interest"
] := rfl

/-- (T) statement skeleton of `ExploreRange.Explore` (traversal/selector/exploreRange.go) — selector clause method (model: `Sel.interests` / `Sel.explore` / `Sel.matchNode`): the statements on this run are the recorded ones. -/
theorem sel_ExploreRange_Explore_is_transcribed : Ipld.Generated.sel_ExploreRange_Explore_skel_src = [
  "if n.Kind() != datamodel.Kind_List",
  ". return nil, nil",
  "index, err := p.Index()",
  "if err != nil",
  ". return nil, nil",
  "if index < s.start || index >= s.end",
  ". return nil, nil",
  "return s.next, nil"
] := rfl

/-- (T) statement skeleton of `ExploreRange.Decide` (traversal/selector/exploreRange.go) — selector clause method (model: `Sel.interests` / `Sel.explore` / `Sel.matchNode`): the statements on this run are the recorded ones. -/
theorem sel_ExploreRange_Decide_is_transcribed : Ipld.Generated.sel_ExploreRange_Decide_skel_src = [
  "return false"
] := rfl

/-- (T) statement skeleton of `ExploreRecursiveEdge.Interests` (traversal/selector/exploreRecursiveEdge.go) — selector clause method (model: `Sel.interests` / `Sel.explore` / `Sel.matchNode`): the statements on this run are the recorded ones. -/
theorem sel_ExploreRecursiveEdge_Interests_is_transcribed : Ipld.Generated.sel_ExploreRecursiveEdge_Interests_skel_src = [
  "return []datamodel.PathSegment{}"
] := rfl

/-- (T) statement skeleton of `ExploreRecursiveEdge.Explore` (traversal/selector/exploreRecursiveEdge.go) — selector clause method (model: `Sel.interests` / `Sel.explore` / `Sel.matchNode`): the statements on this run are the recorded ones. -/
theorem sel_ExploreRecursiveEdge_Explore_is_transcribed : Ipld.Generated.sel_ExploreRecursiveEdge_Explore_skel_src = [
  "panic(\"Traversed Explore Recursive Edge Node With No Parent\")"
] := rfl

/-- (T) statement skeleton of `ExploreRecursiveEdge.Decide` (traversal/selector/exploreRecursiveEdge.go) — selector clause method (model: `Sel.interests` / `Sel.explore` / `Sel.matchNode`): the statements on this run are the recorded ones. -/
theorem sel_ExploreRecursiveEdge_Decide_is_transcribed : Ipld.Generated.sel_ExploreRecursiveEdge_Decide_skel_src = [
  "return false"
] := rfl

/-- (T) statement skeleton of `ExploreUnion.Interests` (traversal/selector/exploreUnion.go) — selector clause method (model: `Sel.interests` / `Sel.explore` / `Sel.matchNode`): the statements on this run are the recorded ones. -/
theorem sel_ExploreUnion_Interests_is_transcribed : Ipld.Generated.sel_ExploreUnion_Interests_skel_src = [
  "_, m := range s.Members",
  ". if m.Interests() == nil",
  ". . return nil",
  "v := []datamodel.PathSegment{}",
  "seen := map[string]struct{}{}",
  "_, m := range s.Members",
  ". _, ps := range m.Interests()",
  ". . if _, dup := seen[ps.String()]; dup",
  ". . . continue",
  ". . seen[ps.String()] = struct{}{}",
  ". . v = append(v, ps)",
  "return v"
] := rfl

/-- (T) statement skeleton of `ExploreUnion.Explore` (traversal/selector/exploreUnion.go) — selector clause method (model: `Sel.interests` / `Sel.explore` / `Sel.matchNode`): the statements on this run are the recorded ones. -/
theorem sel_ExploreUnion_Explore_is_transcribed : Ipld.Generated.sel_ExploreUnion_Explore_skel_src = [
  "nonNilResults := make([]Selector, 0, len(s.Members))",
  "_, member := range s.Members",
  ". if _, ok := member.(ExploreRecursiveEdge); ok",
  ". . continue",
  ". resultSelector, err := member.Explore(n, p)",
  ". if err != nil",
  ". . return nil, err",
  ". if resultSelector != nil",
  ". . nonNilResults = append(nonNilResults, resultSelector)",
  "if len(nonNilResults) == 0",
  ". return nil, nil",
  "if len(nonNilResults) == 1",
  ". return nonNilResults[0], nil",
  "return ExploreUnion{nonNilResults}, nil"
] := rfl

/-- (T) statement skeleton of `ExploreUnion.Decide` (traversal/selector/exploreUnion.go) — selector clause method (model: `Sel.interests` / `Sel.explore` / `Sel.matchNode`): the statements on this run are the recorded ones. -/
theorem sel_ExploreUnion_Decide_is_transcribed : Ipld.Generated.sel_ExploreUnion_Decide_skel_src = [
  "_, m := range s.Members",
  ". if m.Decide(n)",
  ". . return true",
  "return false"
] := rfl

/-- (T) statement skeleton of `ExploreRecursive.Interests` (traversal/selector/exploreRecursive.go) — selector clause method (model: `Sel.interests` / `Sel.explore` / `Sel.matchNode`): the statements on this run are the recorded ones. -/
theorem sel_ExploreRecursive_Interests_is_transcribed : Ipld.Generated.sel_ExploreRecursive_Interests_skel_src = [
  "return s.current.Interests()"
] := rfl

/-- (T) statement skeleton of `ExploreRecursive.Explore` (traversal/selector/exploreRecursive.go) — selector clause method (model: `Sel.interests` / `Sel.explore` / `Sel.matchNode`): the statements on this run are the recorded ones. -/
theorem sel_ExploreRecursive_Explore_is_transcribed : Ipld.Generated.sel_ExploreRecursive_Explore_skel_src = [
  "if s.stopAt != nil",
  ". target, err := n.LookupBySegment(p)",
  ". if err != nil",
  ". . return nil, err",
  ". if s.stopAt.Match(target)",
  ". . return nil, nil",
  "if _, ok := s.current.(ExploreRecursiveEdge); ok",
  ". return nil, nil",
  "nextSelector, _ := s.current.Explore(n, p)",
  "if nextSelector == nil",
  ". return nil, nil",
  "limit := s.limit",
  "if !s.hasRecursiveEdge(nextSelector)",
  ". return ExploreRecursive{s.sequence, nextSelector, limit, s.stopAt}, nil",
  "switch limit.mode",
  "case RecursionLimit_Depth",
  ". if limit.depth < 2",
  ". . return s.replaceRecursiveEdge(nextSelector, nil), nil",
  ". return ExploreRecursive{s.sequence, s.replaceRecursiveEdge(nextSelector, s.sequence), RecursionLimit{RecursionLimit_Depth, limit.depth - 1}, s.stopAt}, nil",
  "case RecursionLimit_None",
  ". return ExploreRecursive{s.sequence, s.replaceRecursiveEdge(nextSelector, s.sequence), limit, s.stopAt}, nil",
  "default",
  ". panic(\"Unsupported recursion limit type\")"
] := rfl

/-- (T) statement skeleton of `ExploreRecursive.Decide` (traversal/selector/exploreRecursive.go) — selector clause method (model: `Sel.interests` / `Sel.explore` / `Sel.matchNode`): the statements on this run are the recorded ones. -/
theorem sel_ExploreRecursive_Decide_is_transcribed : Ipld.Generated.sel_ExploreRecursive_Decide_skel_src = [
  "return s.current.Decide(n)"
] := rfl

/-- (T) statement skeleton of `Matcher.Interests` (traversal/selector/matcher.go) — selector clause method (model: `Sel.interests` / `Sel.explore` / `Sel.matchNode`): the statements on this run are the recorded ones. -/
theorem sel_Matcher_Interests_is_transcribed : Ipld.Generated.sel_Matcher_Interests_skel_src = [
  "return []datamodel.PathSegment{}"
] := rfl

/-- (T) statement skeleton of `Matcher.Explore` (traversal/selector/matcher.go) — selector clause method (model: `Sel.interests` / `Sel.explore` / `Sel.matchNode`): the statements on this run are the recorded ones. -/
theorem sel_Matcher_Explore_is_transcribed : Ipld.Generated.sel_Matcher_Explore_skel_src = [
  "return nil, nil"
] := rfl

/-- (T) statement skeleton of `Matcher.Decide` (traversal/selector/matcher.go) — selector clause method (model: `Sel.interests` / `Sel.explore` / `Sel.matchNode`): the statements on this run are the recorded ones. -/
theorem sel_Matcher_Decide_is_transcribed : Ipld.Generated.sel_Matcher_Decide_skel_src = [
  "return true"
] := rfl

end Ipld.Props.C07
