/-
  JSON string round trip (DESIGN §5 C04): refmt's `parseString` inverts `emitString`'s body on every
  valid UTF-8 byte string.  Core Lean only.
-/
import IpldModel.Lemmas.JsonUtf8
namespace Ipld
namespace Json

/-! ## one step of the parser, per chunk shape the emitter produces -/

theorem parse_raw_ascii (p : Nat) (b : UInt8) (t acc : Bytes)
    (h1 : 0x20 ≤ b.toNat) (h2 : b.toNat ≠ 0x5c) (h3 : b.toNat ≠ 0x22) (h4 : b.toNat < 0x80) :
    parseStringAux (p + 1) (b :: t) acc = parseStringAux p t (acc ++ [b]) := by
  have h5 : ¬ (b.toNat = 0x22 ∨ b.toNat < 0x20) := by omega
  simp only [parseStringAux, h2, if_false, h5, h4, if_true]

theorem parse_esc_self (p : Nat) (b : UInt8) (t acc : Bytes) (h : b.toNat = 0x5c ∨ b.toNat = 0x22) :
    parseStringAux (p + 1) (0x5c :: b :: t) acc = parseStringAux p t (acc ++ [b]) := by
  have h5 : b.toNat = 0x22 ∨ b.toNat = 0x5c ∨ b.toNat = 0x2f ∨ b.toNat = 0x27 := by omega
  simp [parseStringAux, h5]

theorem parse_esc_n (p : Nat) (t acc : Bytes) :
    parseStringAux (p + 1) (0x5c :: 0x6e :: t) acc = parseStringAux p t (acc ++ [0x0a]) := by
  simp [parseStringAux]

theorem parse_esc_r (p : Nat) (t acc : Bytes) :
    parseStringAux (p + 1) (0x5c :: 0x72 :: t) acc = parseStringAux p t (acc ++ [0x0d]) := by
  simp [parseStringAux]

theorem parse_esc_t (p : Nat) (t acc : Bytes) :
    parseStringAux (p + 1) (0x5c :: 0x74 :: t) acc = parseStringAux p t (acc ++ [0x09]) := by
  simp [parseStringAux]

theorem parse_u4 (p : Nat) (a b c d : UInt8) (t acc : Bytes) (rr : Nat)
    (hg : getu4 (0x5c :: 0x75 :: a :: b :: c :: d :: t) = some rr) (hs : isSurrogate rr = false) :
    parseStringAux (p + 1) (0x5c :: 0x75 :: a :: b :: c :: d :: t) acc
      = parseStringAux p t (acc ++ encodeRune rr) := by
  simp [parseStringAux, hg, hs]

theorem parse_raw_multi (p : Nat) (b : UInt8) (u acc : Bytes) (r n : Nat) (hb : 0x80 ≤ b.toNat)
    (hd : decodeRune (b :: u) = (r, n)) :
    parseStringAux (p + 1) (b :: u) acc = parseStringAux p ((b :: u).drop n) (acc ++ encodeRune r) := by
  have h1 : ¬ b.toNat = 0x5c := by omega
  have h2 : ¬ (b.toNat = 0x22 ∨ b.toNat < 0x20) := by omega
  have h3 : ¬ b.toNat < 0x80 := by omega
  simp only [parseStringAux, h1, h2, h3, if_false, hd]

/-! ## `\uXXXX` as written by the emitter -/

theorem hexValB_hexDigitLower (n : Nat) (h : n < 16) : hexValB (hexDigitLower n) = some n := by
  have : ∀ k : Fin 16, hexValB (hexDigitLower k.val) = some k.val := by decide
  exact this ⟨n, h⟩

theorem getu4_ctl (c : Nat) (t : Bytes) (h : c < 0x20) :
    getu4 (0x5c :: 0x75 :: 0x30 :: 0x30 :: hexDigitLower (c / 16) :: hexDigitLower (c % 16) :: t) = some c := by
  have h0 : hexValB 0x30 = some 0 := by decide
  simp only [getu4, h0, hexValB_hexDigitLower (c / 16) (by omega), hexValB_hexDigitLower (c % 16) (by omega),
    bind, Option.bind, pure]
  congr 1; omega

theorem getu4_linesep (r : Nat) (t : Bytes) (h : r = 0x2028 ∨ r = 0x2029) :
    getu4 (0x5c :: 0x75 :: 0x32 :: 0x30 :: 0x32 :: hexDigitLower (r % 16) :: t) = some r := by
  have h0 : hexValB 0x30 = some 0 := by decide
  have h2 : hexValB 0x32 = some 2 := by decide
  simp only [getu4, h0, h2, hexValB_hexDigitLower (r % 16) (by omega), bind, Option.bind, pure]
  congr 1; omega

/-! ## one emitter step against one parser step -/

/-- One emitter step on a nonempty string whose first rune decodes: the emitter writes `chunk` for the
    prefix `consumed`, and one parser step over `chunk` appends exactly `consumed`. -/
theorem string_step (b : UInt8) (rest : Bytes) (hv : decodeRune (b :: rest) ≠ (runeError, 1)) :
    ∃ chunk consumed rest', b :: rest = consumed ++ rest' ∧ 1 ≤ consumed.length ∧ 1 ≤ chunk.length ∧
      (∀ fuel, emitStringBody (fuel + 1) (b :: rest) = chunk ++ emitStringBody fuel rest') ∧
      (∀ p t acc, parseStringAux (p + 1) (chunk ++ t) acc = parseStringAux p t (acc ++ consumed)) ∧
      (∀ vf, validUtf8 (vf + 1) (b :: rest) = validUtf8 vf rest') := by
  by_cases hc : b.toNat < 0x80
  · have hval : ∀ vf, validUtf8 (vf + 1) (b :: rest) = validUtf8 vf rest := fun vf => by
      rw [validUtf8_cons_ok vf (b :: rest) b.toNat 1 (by simp) (decodeRune_ascii b rest hc)
        (by unfold runeError; omega)]
      rfl
    by_cases h1 : 0x20 ≤ b.toNat ∧ b.toNat ≠ 0x5c ∧ b.toNat ≠ 0x22
    · refine ⟨[b], [b], rest, rfl, by simp, by simp, ?_, ?_, hval⟩
      · intro fuel
        simp only [emitStringBody, hc, if_true]
        rw [if_pos h1]; rfl
      · intro p t acc
        exact parse_raw_ascii p b t acc h1.1 h1.2.1 h1.2.2 hc
    · by_cases h2 : b.toNat = 0x5c ∨ b.toNat = 0x22
      · refine ⟨[0x5c, b], [b], rest, rfl, by simp, by simp, ?_, ?_, hval⟩
        · intro fuel
          simp only [emitStringBody, hc, if_true]
          rw [if_neg h1, if_pos h2]; rfl
        · intro p t acc
          exact parse_esc_self p b t acc h2
      · by_cases h3 : b.toNat = 0x0a
        · have hb : b = 0x0a := UInt8.toNat_inj.mp (by simpa using h3)
          refine ⟨[0x5c, 0x6e], [b], rest, rfl, by simp, by simp, ?_, ?_, hval⟩
          · intro fuel
            simp only [emitStringBody, hc, if_true]
            rw [if_neg h1, if_neg h2, if_pos h3]
          · intro p t acc
            rw [hb]; exact parse_esc_n p t acc
        · by_cases h4 : b.toNat = 0x0d
          · have hb : b = 0x0d := UInt8.toNat_inj.mp (by simpa using h4)
            refine ⟨[0x5c, 0x72], [b], rest, rfl, by simp, by simp, ?_, ?_, hval⟩
            · intro fuel
              simp only [emitStringBody, hc, if_true]
              rw [if_neg h1, if_neg h2, if_neg h3, if_pos h4]
            · intro p t acc
              rw [hb]; exact parse_esc_r p t acc
          · by_cases h5 : b.toNat = 0x09
            · have hb : b = 0x09 := UInt8.toNat_inj.mp (by simpa using h5)
              refine ⟨[0x5c, 0x74], [b], rest, rfl, by simp, by simp, ?_, ?_, hval⟩
              · intro fuel
                simp only [emitStringBody, hc, if_true]
                rw [if_neg h1, if_neg h2, if_neg h3, if_neg h4, if_pos h5]
              · intro p t acc
                rw [hb]; exact parse_esc_t p t acc
            · have hlt : b.toNat < 0x20 := by omega
              refine ⟨[0x5c, 0x75, 0x30, 0x30, hexDigitLower (b.toNat / 16), hexDigitLower (b.toNat % 16)],
                [b], rest, rfl, by simp, by simp, ?_, ?_, hval⟩
              · intro fuel
                simp only [emitStringBody, hc, if_true]
                rw [if_neg h1, if_neg h2, if_neg h3, if_neg h4, if_neg h5]
              · intro p t acc
                have hs : isSurrogate b.toNat = false := by
                  unfold isSurrogate; simp; omega
                have := parse_u4 p 0x30 0x30 (hexDigitLower (b.toNat / 16)) (hexDigitLower (b.toNat % 16))
                  t acc b.toNat (getu4_ctl b.toNat t hlt) hs
                rw [encodeRune_1 _ hc, UInt8.ofNat_toNat] at this
                exact this
  · rcases hd : decodeRune (b :: rest) with ⟨r, n⟩
    have hne : ¬ (r = runeError ∧ n = 1) := by
      rintro ⟨rfl, rfl⟩; exact hv hd
    obtain ⟨pre, post, hs, hl, hn1, henc, hpre⟩ := decodeRune_ok hd hne (by simp)
    have hdrop : (b :: rest).drop n = post := by rw [hs]; exact List.drop_left' hl
    have htake : (b :: rest).take n = pre := by rw [hs]; exact List.take_left' hl
    have hval : ∀ vf, validUtf8 (vf + 1) (b :: rest) = validUtf8 vf post := fun vf => by
      rw [validUtf8_cons_ok vf _ r n (by simp) hd hne, hdrop]
    by_cases hls : r = 0x2028 ∨ r = 0x2029
    · refine ⟨[0x5c, 0x75, 0x32, 0x30, 0x32, hexDigitLower (r % 16)], pre, post, hs, by omega, by simp,
        ?_, ?_, hval⟩
      · intro fuel
        simp only [emitStringBody, hc, if_false, hd]
        rw [if_neg hne, if_pos hls, hdrop]
      · intro p t acc
        have hsur : isSurrogate r = false := by
          unfold isSurrogate; simp; omega
        have := parse_u4 p 0x32 0x30 0x32 (hexDigitLower (r % 16)) t acc r (getu4_linesep r t hls) hsur
        rw [henc] at this
        exact this
    · refine ⟨pre, pre, post, hs, by omega, by omega, ?_, ?_, hval⟩
      · intro fuel
        simp only [emitStringBody, hc, if_false, hd]
        rw [if_neg hne, if_neg hls, hdrop, htake]
      · intro p t acc
        cases pre with
        | nil => simp at hl; omega
        | cons b' pre' =>
          have hb : b = b' := by
            rw [List.cons_append] at hs; exact (List.cons.inj hs).1
          subst hb
          have h := parse_raw_multi p b (pre' ++ t) acc r n (by omega) (hpre t)
          rw [List.cons_append, h, henc]
          have : (b :: (pre' ++ t)).drop n = t := by
            rw [← List.cons_append]; exact List.drop_left' hl
          rw [this]

/-! ## the round trip -/

theorem emitStringBody_nil (fuel : Nat) : emitStringBody fuel [] = [] := by
  cases fuel <;> rfl

theorem parseStringAux_nil (p : Nat) (acc : Bytes) : parseStringAux p [] acc = some acc := by
  cases p <;> rfl

/-- General form: any emitter fuel and validity fuel above `s.length`, any parser fuel above the emitted
    length, any accumulator. -/
theorem parseStringAux_emitStringBody : ∀ (k : Nat) (s : Bytes) (fuel vf p : Nat) (acc : Bytes),
    s.length ≤ k → s.length < fuel → s.length < vf → validUtf8 vf s = true →
    (emitStringBody fuel s).length < p →
    parseStringAux p (emitStringBody fuel s) acc = some (acc ++ s) := by
  intro k
  induction k with
  | zero =>
    intro s fuel vf p acc hk _ _ _ _
    have : s = [] := List.eq_nil_of_length_eq_zero (by omega)
    subst this
    rw [emitStringBody_nil, parseStringAux_nil, List.append_nil]
  | succ k ih =>
    intro s fuel vf p acc hk hf hvf hv hp
    cases s with
    | nil => rw [emitStringBody_nil, parseStringAux_nil, List.append_nil]
    | cons b rest =>
      obtain ⟨fuel, rfl⟩ : ∃ f, fuel = f + 1 := ⟨fuel - 1, by simp at hf; omega⟩
      obtain ⟨vf, rfl⟩ : ∃ f, vf = f + 1 := ⟨vf - 1, by simp at hvf; omega⟩
      have hdec : decodeRune (b :: rest) ≠ (runeError, 1) := by
        intro he
        rw [validUtf8_cons_err vf (b :: rest) (by simp) he] at hv
        exact Bool.noConfusion hv
      obtain ⟨chunk, consumed, rest', hs, hc1, hch1, hemit, hparse, hvalid⟩ := string_step b rest hdec
      have hlen : (b :: rest).length = consumed.length + rest'.length := by
        rw [hs, List.length_append]
      rw [hemit] at hp ⊢
      rw [List.length_append] at hp
      obtain ⟨p, rfl⟩ : ∃ q, p = q + 1 := ⟨p - 1, by omega⟩
      rw [hparse, ih rest' fuel vf p (acc ++ consumed) (by omega) (by omega) (by omega)
        (by rw [← hvalid]; exact hv) (by omega), hs, List.append_assoc]

/-- refmt's JSON string decoder inverts its string encoder (between the quotes) on every valid UTF-8
    byte string. -/
theorem parseString_emitStringBody (s : Bytes) (h : isValidUtf8 s = true) :
    parseString (emitStringBody (s.length + 1) s) = s := by
  unfold parseString
  rw [parseStringAux_emitStringBody s.length s (s.length + 1) (s.length + 1) _ [] (Nat.le_refl _)
    (Nat.lt_succ_self _) (Nat.lt_succ_self _) h (Nat.lt_succ_self _)]
  rfl

/-- the all-ASCII special case -/
theorem parseString_emitStringBody_ascii (s : Bytes) (h : ∀ b ∈ s, b.toNat < 0x80) :
    parseString (emitStringBody (s.length + 1) s) = s :=
  parseString_emitStringBody s (isValidUtf8_of_ascii s h)

end Json
end Ipld
