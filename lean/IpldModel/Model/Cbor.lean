/-
  Model of the DAG-CBOR codec as implemented by `/repo/codec/dagcbor` on top of refmt's CBOR
  tokenizer/encoder (DESIGN §5 C02/C03/C10).  Core Lean only.

  The encoder mirrors `marshal`/`marshalMap` with refmt's `emitMajorPlusLen`; the decoder mirrors
  refmt's `Decoder.Step`/`stepHelper_acceptValue` under `refmtDecodeOptions` fused with
  `unmarshal1/unmarshal2` (budget and depth accounting in the same order as the code).
-/
import IpldModel.Model.Base
namespace Ipld
namespace Cbor

/-! ## Heads -/

/-- Big-endian encoding of `n` on `w` bytes. -/
def beBytes : Nat → Nat → Bytes
  | 0, _ => []
  | w + 1, n => UInt8.ofNat (n / 256 ^ w % 256) :: beBytes w n

/-- Big-endian value of a byte list. -/
def beVal : Bytes → Nat
  | [] => 0
  | b :: bs => b.toNat * 256 ^ bs.length + beVal bs

/-- refmt `emitMajorPlusLen`: shortest head for major type `m` (0..7) and argument `n`. -/
def head (m n : Nat) : Bytes :=
  if n < 24 then [UInt8.ofNat (m * 32 + n)]
  else if n < 256 then [UInt8.ofNat (m * 32 + 24), UInt8.ofNat n]
  else if n < 65536 then UInt8.ofNat (m * 32 + 25) :: beBytes 2 n
  else if n < 4294967296 then UInt8.ofNat (m * 32 + 26) :: beBytes 4 n
  else UInt8.ofNat (m * 32 + 27) :: beBytes 8 n

/-! ## Key orders -/

/-- Bytewise lexicographic `≤` (Go string `<` is bytewise). -/
def lexLE : Bytes → Bytes → Bool
  | [], _ => true
  | _ :: _, [] => false
  | a :: as, b :: bs => if a.toNat < b.toNat then true else if b.toNat < a.toNat then false else lexLE as bs

/-- RFC 7049 canonical order used by DAG-CBOR: shorter keys first, then bytewise. -/
def cborLE (a b : Bytes) : Bool :=
  if a.length < b.length then true
  else if b.length < a.length then false
  else lexLE a b

inductive SortMode where | none | lexical | rfc7049
  deriving DecidableEq, Repr

def keyLE : SortMode → Bytes → Bytes → Bool
  | .none, _, _ => true   -- mergeSort with a constant-true order is the identity (stable)
  | .lexical, a, b => lexLE a b
  | .rfc7049, a, b => cborLE a b

def sortPairs {α : Type} (mode : SortMode) (es : List (Bytes × α)) : List (Bytes × α) :=
  match mode with
  | .none => es
  | m => es.mergeSort (fun a b => keyLE m a.1 b.1)

/-! ## Encoder -/

structure EncCfg where
  allowLinks : Bool := true
  sort : SortMode := .rfc7049
  deriving Repr

def dagcborEnc : EncCfg := {}
def plainCborEnc : EncCfg := { allowLinks := false, sort := .none }

def encInt (i : Int) : Bytes :=
  if 0 ≤ i then head 0 i.toNat else head 1 (-1 - i).toNat

def encStr (s : Bytes) : Bytes := head 3 s.length ++ s
def encBytes (s : Bytes) : Bytes := head 2 s.length ++ s
def encFloat (bits : UInt64) : Bytes := 0xfb :: beBytes 8 bits.toNat
def encLink (cid : Bytes) : Bytes := [0xd8, 0x2a] ++ (head 2 (cid.length + 1) ++ (0 :: cid))

def flattenPairs (es : List (Bytes × Bytes)) : Bytes :=
  es.flatMap fun e => encStr e.1 ++ e.2

mutual
/-- Bytes produced by `dagcbor.EncodeOptions.Encode` when it succeeds. -/
def enc (cfg : EncCfg) : DM → Bytes
  | .null => [0xf6]
  | .bool true => [0xf5]
  | .bool false => [0xf4]
  | .int i => encInt i
  | .float b => encFloat b
  | .str s => encStr s
  | .bytes b => encBytes b
  | .link c => encLink c
  | .list xs => head 4 xs.length ++ encList cfg xs
  | .map es => head 5 es.length ++ flattenPairs (sortPairs cfg.sort (encKVs cfg es))
def encList (cfg : EncCfg) : DMs → Bytes
  | .nil => []
  | .cons x xs => enc cfg x ++ encList cfg xs
def encKVs (cfg : EncCfg) : DMKVs → List (Bytes × Bytes)
  | .nil => []
  | .cons k v es => (k, enc cfg v) :: encKVs cfg es
end

mutual
/-- The values on which the encoder returns bytes rather than an error:
    ints a Go node can hold, links that are defined CIDs (and allowed). -/
def encodable (cfg : EncCfg) : DM → Bool
  | .int i => decide (intInRange i)
  | .link c => cfg.allowLinks && cidValid c
  | .list xs => encodableList cfg xs
  | .map es => encodableKVs cfg es
  | _ => true
def encodableList (cfg : EncCfg) : DMs → Bool
  | .nil => true
  | .cons x xs => encodable cfg x && encodableList cfg xs
def encodableKVs (cfg : EncCfg) : DMKVs → Bool
  | .nil => true
  | .cons _ v es => encodable cfg v && encodableKVs cfg es
end

def encode (cfg : EncCfg) (d : DM) : Option Bytes :=
  if encodable cfg d then some (enc cfg d) else none

/-! ### `EncodedLength` -/

/-- `uintLength` as the model states it (the generated `uintLength_src` is proved equal to this). -/
def uintLength (n : Nat) : Nat :=
  if n < 24 then 1 else if n < 256 then 2 else if n < 65536 then 3 else if n < 4294967296 then 5 else 9

mutual
/-- `dagcbor.EncodedLength` (with the F2 repair: unsigned values above int64 are sized, not refused). -/
def encodedLength : DM → Nat
  | .null => 1
  | .bool _ => 1
  | .int i => if 0 ≤ i then uintLength i.toNat else uintLength (-1 - i).toNat
  | .float _ => 9
  | .str s => uintLength s.length + s.length
  | .bytes b => uintLength b.length + b.length
  | .link c => 2 + uintLength (c.length + 1) + (c.length + 1)
  | .list xs => uintLength xs.length + encodedLengthList xs
  | .map es => uintLength es.length + encodedLengthKVs es
def encodedLengthList : DMs → Nat
  | .nil => 0
  | .cons x xs => encodedLength x + encodedLengthList xs
def encodedLengthKVs : DMKVs → Nat
  | .nil => 0
  | .cons k v es => (uintLength k.length + k.length) + encodedLength v + encodedLengthKVs es
end

/-! ## Decoder -/

inductive DecErr where
  | eof            -- input ended inside an item
  | indefinite     -- 0x5f/0x7f/0x9f/0xbf
  | nonMinimal     -- head argument not in shortest form (strict)
  | badInfo        -- additional info 28..31 where not allowed / invalid major byte / simple values
  | nan | inf      -- strict
  | negOverflow    -- negative integer below -2^63
  | lenOverflow    -- length does not fit int
  | oversized      -- string/bytes length above 32 MiB
  | multiTag       -- tag on a tag
  | badKey         -- map key is not a string
  | dupKey         -- duplicate map key (strict: decoder; relaxed: assembler)
  | badTag         -- tag other than 42, or a tag on something that is not a byte string
  | linksDisabled
  | badMultibase
  | badCid
  | budget
  | depth
  | trailing
  deriving DecidableEq, Repr, Inhabited

structure DecCfg where
  allowLinks : Bool := true
  relaxed : Bool := false
  dontParseBeyondEnd : Bool := false
  budget : Int := 10485760
  maxPrealloc : Nat := 1024
  maxDepth : Nat := 1024
  /-- refmt `decodeNegInt` computes `ui + 1` in uint64, so the argument 2^64-1 wraps to 0 and the item
      `3b ff…ff` (−2^64) is accepted as the integer 0 (known finding K1, in a dependency).  `true`
      mirrors the code; `false` is the model with that one deviation removed. -/
  negWrap : Bool := true
  deriving Repr

def dagcborDec : DecCfg := {}

abbrev R (α : Type) := Except DecErr α

def take? (n : Nat) (bs : Bytes) : R (Bytes × Bytes) :=
  if bs.length < n then .error .eof else .ok (bs.take n, bs.drop n)

/-- refmt `decodeUint`: the argument of a head with additional info `info`. -/
def readArg (strict : Bool) (info : Nat) (bs : Bytes) : R (Nat × Bytes) :=
  if info < 24 then .ok (info, bs)
  else if info = 24 then do
    let (a, r) ← take? 1 bs
    let v := beVal a
    if strict && v < 24 then .error .nonMinimal else .ok (v, r)
  else if info = 25 then do
    let (a, r) ← take? 2 bs
    let v := beVal a
    if strict && v < 256 then .error .nonMinimal else .ok (v, r)
  else if info = 26 then do
    let (a, r) ← take? 4 bs
    let v := beVal a
    if strict && v < 65536 then .error .nonMinimal else .ok (v, r)
  else if info = 27 then do
    let (a, r) ← take? 8 bs
    let v := beVal a
    if strict && v < 4294967296 then .error .nonMinimal else .ok (v, r)
  else .error .badInfo

/-- refmt `decodeLen`: argument must fit a Go `int` (63 bits). -/
def readLen (strict : Bool) (info : Nat) (bs : Bytes) : R (Nat × Bytes) := do
  let (n, r) ← readArg strict info bs
  if n > 9223372036854775807 then .error .lenOverflow else .ok (n, r)

def checkFloat (strict : Bool) (b : Nat) : R DM :=
  if strict && f64IsNaN b then .error .nan
  else if strict && f64IsInf b then .error .inf
  else .ok (.float (UInt64.ofNat b))

/-- State threaded through the decoder: remaining input and remaining allocation budget. -/
structure DS where
  rest : Bytes
  budget : Int

def charge (s : DS) (n : Int) : R DS :=
  let b := s.budget - n
  if b < 0 then .error .budget else .ok { s with budget := b }

/-- After the tokenizer has produced a scalar token: the list-entry charge (if any), the tag gate
    (a tag is only meaningful on a byte string), then the token's own charge. -/
def finish (tag : Option Nat) (extra cost : Int) (v : DM) (s : DS) : R (DM × DS) := do
  let s1 ← charge s extra
  match tag with
  | some _ => .error .badTag
  | none =>
    let s2 ← charge s1 cost
    pure (v, s2)

/-- `n` list elements, each read by `item` (the element decoder of the enclosing `decItem`). -/
def decList (item : DS → R (DM × DS)) : Nat → DS → R (List DM × DS)
  | 0, s => .ok ([], s)
  | n + 1, s => do
    let (x, s1) ← item s
    let (xs, s2) ← decList item n s1
    pure (x :: xs, s2)

/-- A map key: an untagged definite-length text string; everything else is rejected
    (the tokenizer accepts any item here, `unmarshal2` insists on a string). -/
def decKey (cfg : DecCfg) (s : DS) : R (Bytes × DS) :=
  let strict := !cfg.relaxed
  match s.rest with
  | [] => .error .eof
  | b0 :: rest =>
    let b := b0.toNat
    if b = 0x7f ∨ b = 0x5f ∨ b = 0x9f ∨ b = 0xbf then .error .indefinite
    else if b / 32 = 3 then do
      let (n, r) ← readLen strict (b % 32) rest
      if n > 33554432 then .error .oversized else
      let (payload, r') ← take? n r
      pure (payload, { s with rest := r' })
    else .error .badKey

/-- `n` map entries; `seen` is the decoder's duplicate set (in relaxed mode the assembler's). -/
def decMap (cfg : DecCfg) (item : DS → R (DM × DS)) : Nat → List Bytes → DS → R (List (Bytes × DM) × DS)
  | 0, _, s => .ok ([], s)
  | n + 1, seen, s => do
    let (k, s1) ← decKey cfg s
    let s2 ← charge s1 (k.length + 8)
    if seen.contains k then .error .dupKey else
    let (v, s3) ← item s2
    let (es, s4) ← decMap cfg item n (k :: seen) s3
    pure ((k, v) :: es, s4)

/--
  One item.  `tag` is the tag already slurped for this item (refmt reads a single tag and then the
  item itself inside the same `Step`).  `extra` is the per-element charge `unmarshal2` makes for a
  list entry *after* the tokenizer produced the element's first token and *before* the element is
  processed.  `fuel` bounds the nesting of recursive calls; `fuel = input length + 1` suffices
  because every nested call is made after consuming at least one byte.
-/
def decItem (cfg : DecCfg) : Nat → Nat → Int → Option Nat → DS → R (DM × DS)
  | 0, _, _, _, _ => .error .eof
  | fuel + 1, depth, extra, tag, s =>
    let strict := !cfg.relaxed
    match s.rest with
    | [] => .error .eof
    | b0 :: rest =>
      let b := b0.toNat
      let major := b / 32
      let info := b % 32
      if b = 0xf6 ∨ b = 0xf7 then finish tag extra 0 .null { s with rest := rest }
      else if b = 0xf4 then finish tag extra 1 (.bool false) { s with rest := rest }
      else if b = 0xf5 then finish tag extra 1 (.bool true) { s with rest := rest }
      else if b = 0xf9 then do
        let (a, r) ← take? 2 rest
        let v ← checkFloat strict (f16to64 (beVal a))
        finish tag extra 1 v { s with rest := r }
      else if b = 0xfa then do
        let (a, r) ← take? 4 rest
        let v ← checkFloat strict (f32to64 (beVal a))
        finish tag extra 1 v { s with rest := r }
      else if b = 0xfb then do
        let (a, r) ← take? 8 rest
        let v ← checkFloat strict (beVal a)
        finish tag extra 1 v { s with rest := r }
      else if b = 0x5f ∨ b = 0x7f ∨ b = 0x9f ∨ b = 0xbf then .error .indefinite
      else if major = 0 then do
        let (n, r) ← readArg strict info rest
        finish tag extra 1 (.int n) { s with rest := r }
      else if major = 1 then do
        let (n, r) ← readArg strict info rest
        -- refmt decodeNegInt: pos := ui + 1 (wrapping at 2^64); reject pos > 2^63
        let pos := if cfg.negWrap then (n + 1) % 18446744073709551616 else n + 1
        if pos > 9223372036854775808 then .error .negOverflow else
        finish tag extra 1 (.int (-(pos : Int))) { s with rest := r }
      else if major = 2 then do
        let (n, r) ← readLen strict info rest
        if n > 33554432 then .error .oversized else
        let (payload, r') ← take? n r
        let s0 ← charge { s with rest := r' } extra
        let s' ← charge s0 n
        match tag with
        | none => pure (.bytes payload, s')
        | some t =>
          if t ≠ 42 then .error .badTag
          else if !cfg.allowLinks then .error .linksDisabled
          else match payload with
            | 0 :: cid => if cidValid cid then pure (.link cid, s') else .error .badCid
            | _ => .error .badMultibase
      else if major = 3 then do
        let (n, r) ← readLen strict info rest
        if n > 33554432 then .error .oversized else
        let (payload, r') ← take? n r
        finish tag extra n (.str payload) { s with rest := r' }
      else if major = 4 then do
        let (n, r) ← readLen strict info rest
        let s0 ← charge { s with rest := r } extra
        match tag with
        | some _ => .error .badTag
        | none =>
        if depth ≥ cfg.maxDepth then .error .depth else
        let s1 ← charge s0 n
        let (xs, s2) ← decList (decItem cfg fuel (depth + 1) 4 none) n s1
        pure (.list (DMs.ofList xs), s2)
      else if major = 5 then do
        let (n, r) ← readLen strict info rest
        let s0 ← charge { s with rest := r } extra
        match tag with
        | some _ => .error .badTag
        | none =>
        if depth ≥ cfg.maxDepth then .error .depth else
        let s1 ← charge s0 n
        let (es, s2) ← decMap cfg (decItem cfg fuel (depth + 1) 0 none) n [] s1
        pure (.map (DMKVs.ofList es), s2)
      else if major = 6 then
        match tag with
        | some _ => .error .multiTag
        | none => do
          let (t, r) ← readLen strict info rest
          decItem cfg fuel depth extra (some t) { s with rest := r }
      else .error .badInfo

/-- `DecodeOptions.Decode` into a generic (basicnode Any) assembler. -/
def decode (cfg : DecCfg) (bs : Bytes) : R DM := do
  let (v, s) ← decItem cfg (bs.length + 1) 0 0 none { rest := bs, budget := cfg.budget }
  if cfg.dontParseBeyondEnd then pure v
  else if s.rest.isEmpty then pure v else .error .trailing

/-- Coarse classes compared with the implementation (DESIGN §3: error classes, never strings). -/
def DecErr.coarse : DecErr → String
  | .budget => "budget"
  | .depth => "depth"
  | .trailing => "trailing"
  | _ => "reject"

end Cbor
end Ipld
