package checks

import (
	"bytes"
	"encoding/hex"
	"errors"
	"fmt"
	"io"
	"math"
	"runtime"
	"strings"
	"time"

	"github.com/ipfs/go-cid"
	"github.com/ipld/go-ipld-prime/codec"
	"github.com/ipld/go-ipld-prime/codec/cbor"
	"github.com/ipld/go-ipld-prime/codec/dagcbor"
	"github.com/ipld/go-ipld-prime/codec/dagjson"
	"github.com/ipld/go-ipld-prime/codec/json"
	"github.com/ipld/go-ipld-prime/codec/raw"
	"github.com/ipld/go-ipld-prime/datamodel"
	"github.com/ipld/go-ipld-prime/linking"
	cidlink "github.com/ipld/go-ipld-prime/linking/cid"
	"github.com/ipld/go-ipld-prime/node/basicnode"
	"github.com/ipld/go-ipld-prime/node/bindnode"
	"github.com/ipld/go-ipld-prime/node/gendemo"
	"github.com/ipld/go-ipld-prime/traversal"
	mh "github.com/multiformats/go-multihash"
	rcbor "github.com/polydawn/refmt/cbor"

	"verif/internal/core"
)

// C10 — parsers of untrusted data are total and bounded: error or result, never panic.
//
//   impl observation : per input and option set: panic (recovered) | error class | result; nesting depth of what was built;
//                      bytes allocated during the decode (runtime.MemStats.TotalAlloc delta); wall time
//   (D) correspondence: dag-cbor under every option set == the Lean decoder model incl. the budget/depth error classes
//                       (`cbor.decx`); selector compile + walk == the model (C07's machinery) on adversarial specs
//   (O) oracle        : no panic; terminates within the per-case time limit; depth(result) <= MaxDepth; allocated bytes
//                       <= K1·budget + K2·|input| + K0 for the constants below, whatever lengths the input claims.

func init() {
	core.Register(&core.Check{ID: "C10", Run: runC10, Replay: replayC10})
}

const (
	c10K0 = 96 * 1024 // fixed overhead of a decode (decoder state, builder, tokenizer scratch)
	c10K1 = 160       // bytes per unit of allocation budget (one budget unit ~ one node / entry: boxed node + table entry + map bucket)
	c10K2 = 64        // bytes per input byte
)

type c10Target struct {
	name string
	mk   func() datamodel.NodeAssembler
}

var c10Targets = func() []c10Target {
	ts := []c10Target{
		{"any", func() datamodel.NodeAssembler { return basicnode.Prototype.Any.NewBuilder() }},
		{"map", func() datamodel.NodeAssembler { return basicnode.Prototype.Map.NewBuilder() }},
		{"list", func() datamodel.NodeAssembler { return basicnode.Prototype.List.NewBuilder() }},
		{"string", func() datamodel.NodeAssembler { return basicnode.Prototype.String.NewBuilder() }},
		{"gen:Msg3.repr", func() datamodel.NodeAssembler { return gendemo.Type.Msg3__Repr.NewBuilder() }},
		{"gen:Map__String__Msg3", func() datamodel.NodeAssembler { return gendemo.Type.Map__String__Msg3.NewBuilder() }},
		{"gen:UnionKinded.repr", func() datamodel.NodeAssembler { return gendemo.Type.UnionKinded__Repr.NewBuilder() }},
	}
	p := bindnode.Prototype((*c20Person)(nil), c20TS.TypeByName("Person"))
	ts = append(ts,
		c10Target{"bind:Person", func() datamodel.NodeAssembler { return p.NewBuilder() }},
		c10Target{"bind:Person.repr", func() datamodel.NodeAssembler { return p.Representation().NewBuilder() }})
	return ts
}()

func valDepth(n datamodel.Node, fuel int) int {
	if fuel <= 0 {
		return 0
	}
	d := 0
	switch n.Kind() {
	case datamodel.Kind_Map:
		for it := n.MapIterator(); !it.Done(); {
			_, v, err := it.Next()
			if err != nil {
				break
			}
			if v != nil && !v.IsAbsent() {
				d = max(d, valDepth(v, fuel-1))
			}
		}
		return d + 1
	case datamodel.Kind_List:
		for it := n.ListIterator(); !it.Done(); {
			_, v, err := it.Next()
			if err != nil {
				break
			}
			d = max(d, valDepth(v, fuel-1))
		}
		return d + 1
	}
	return 0
}

type c10obs struct {
	class   string // ok | budget | depth | reject | panic
	depth   int
	alloc   uint64
	elapsed time.Duration
	term    string
	panicV  string
}

func c10Decode(dec codec.Decoder, mk func() datamodel.NodeAssembler, in []byte, wantTerm bool) (o c10obs) {
	var m0, m1 runtime.MemStats
	runtime.ReadMemStats(&m0)
	t0 := time.Now()
	var built datamodel.Node
	func() {
		defer func() {
			if r := recover(); r != nil {
				o.class = "panic"
				o.panicV = fmt.Sprint(r)
			}
		}()
		na := mk()
		err := dec(na, bytes.NewReader(in))
		switch {
		case err == nil:
			o.class = "ok"
			if nb, ok := na.(datamodel.NodeBuilder); ok {
				built = nb.Build()
			}
		case errors.Is(err, dagcbor.ErrAllocationBudgetExceeded):
			o.class = "budget"
		case errors.Is(err, dagcbor.ErrDecodeDepthExceeded), errors.Is(err, dagjson.ErrDecodeDepthExceeded):
			o.class = "depth"
		case errors.Is(err, dagcbor.ErrTrailingBytes):
			o.class = "trailing"
		default:
			o.class = "reject"
		}
	}()
	o.elapsed = time.Since(t0)
	runtime.ReadMemStats(&m1)
	o.alloc = m1.TotalAlloc - m0.TotalAlloc
	if built != nil {
		func() {
			defer func() { recover() }()
			o.depth = valDepth(built, 5000)
			if wantTerm {
				o.term = termOf(built)
			}
		}()
	}
	return o
}

// adversarial dag-cbor inputs: what the input *claims* is far larger than what it contains
func c10AdversarialCbor(r *core.Rand) ([]byte, string) {
	switch r.Intn(9) {
	case 0: // huge declared list / map length
		major := []byte{4, 5}[r.Intn(2)]
		n := []uint64{1 << 20, 1 << 32, 1<<40 + 7, math.MaxInt64, math.MaxUint64, 1<<31 - 1}[r.Intn(6)]
		b := binaryHead(major, n)
		return append(b, r.Bytes(r.Intn(6))...), "huge-declared-collection"
	case 1: // huge declared string / bytes length with little payload
		major := []byte{2, 3}[r.Intn(2)]
		n := []uint64{1 << 20, 33554432, 33554433, 1 << 32, math.MaxInt64}[r.Intn(5)]
		return append(binaryHead(major, n), r.Bytes(r.Intn(40))...), "huge-declared-string"
	case 2: // depth bomb: nested one-element lists / maps
		d := []int{10, 1023, 1024, 1025, 5000}[r.Intn(5)]
		var b []byte
		for i := 0; i < d; i++ {
			if r.Chance(1, 4) {
				b = append(b, 0xa1, 0x61, 'k')
			} else {
				b = append(b, 0x81)
			}
		}
		return append(b, 0xf6), "depth-bomb"
	case 3: // wide list of small items filling the budget
		n := 1 + r.Intn(3000)
		b := binaryHead(4, uint64(n))
		for i := 0; i < n; i++ {
			b = append(b, 0x01)
		}
		return b, "wide-list"
	case 4: // many nested moderately sized collections, each claiming more than present
		var b []byte
		for i := 0; i < 1+r.Intn(40); i++ {
			b = append(b, binaryHead(4, uint64(1000+r.Intn(5000)))...)
		}
		return b, "nested-claims"
	case 5: // stacked tags
		var b []byte
		for i := 0; i < 1+r.Intn(50); i++ {
			b = append(b, 0xd8, 0x2a)
		}
		return append(b, 0x41, 0x00), "stacked-tags"
	case 6: // map with many tiny keys
		n := 1 + r.Intn(800)
		b := binaryHead(5, uint64(n))
		for i := 0; i < n; i++ {
			k := fmt.Sprintf("%x", i)
			b = append(append(b, byte(0x60+len(k))), k...)
			b = append(b, 0xf5)
		}
		return b, "wide-map"
	default:
		v := core.GenVal(r, core.DefaultGen, 0)
		b, label, _ := core.MutateCBOR(v, r)
		return b, "mutated:" + label
	}
}

func binaryHead(major byte, n uint64) []byte {
	switch {
	case n < 24:
		return []byte{major<<5 | byte(n)}
	case n < 1<<8:
		return []byte{major<<5 | 24, byte(n)}
	case n < 1<<16:
		return []byte{major<<5 | 25, byte(n >> 8), byte(n)}
	case n < 1<<32:
		return []byte{major<<5 | 26, byte(n >> 24), byte(n >> 16), byte(n >> 8), byte(n)}
	}
	b := []byte{major<<5 | 27}
	for i := 7; i >= 0; i-- {
		b = append(b, byte(n>>(8*uint(i))))
	}
	return b
}

func c10AdversarialJSON(r *core.Rand) ([]byte, string) {
	switch r.Intn(8) {
	case 0:
		d := []int{10, 1023, 1024, 1025, 4000}[r.Intn(5)]
		open := []string{"[", `{"a":`}[r.Intn(2)]
		return []byte(strings.Repeat(open, d)), "depth-bomb-unterminated"
	case 1:
		d := []int{5, 1024, 1025}[r.Intn(3)]
		return []byte(strings.Repeat("[", d) + "1" + strings.Repeat("]", d)), "depth-bomb"
	case 2:
		tail := []string{`"}}`, `"}`, `"}}}`, `",`, ``,
			// the reserved form matched through the whole look-ahead window, then more: another entry after the inner map,
			// another entry inside it, a second reserved key, nesting of the form in itself
			`"},"x":1}`, `","y":2}}`, `"},"/":1}`, `"},"x":{"/":{"bytes":"QQ"}}}`, `"}, "x" : [ 1 , { } ] }`}[r.Intn(10)]
		return []byte(`{"/":{"bytes":"` + strings.Repeat("A", []int{0, 1, 2, 3, 4, r.Intn(200)}[r.Intn(6)]) + tail), "bytes-form-variants"
	case 3:
		return []byte(`{"/":"` + []string{"bafkqaaa", "Qm", "", "zzzz", strings.Repeat("b", 300)}[r.Intn(5)] + `"` + []string{"}", ",", "", `,"x":1}`, `,"/":"bafkqaaa"}`, `,"x":{"/":"bafkqaaa"}}`}[r.Intn(6)]), "link-form-variants"
	case 4:
		return []byte([]string{"1e400", "-1e400", "1e-400", "123456789012345678901234567890", "-0", "1.", "1.e1", "01", "+1", ".5", "1e", "0x10", "NaN", "Infinity"}[r.Intn(14)]), "numbers"
	case 5:
		return []byte(`"` + []string{`\ud800`, `\udc00\ud800`, `\u12`, `\x`, "\x01", "\xff\xfe", `😀`, strings.Repeat(`\u0000`, 50)}[r.Intn(8)] + `"`), "strings"
	case 6:
		b := r.Bytes(1 + r.Intn(24))
		return b, "random-bytes"
	default:
		v := genForCodec(r, 0x0129)
		n, _ := core.BuildBasic(v, nil)
		var buf bytes.Buffer
		dagjson.Encode(n, &buf)
		b := buf.Bytes()
		if len(b) > 0 {
			switch r.Intn(4) {
			case 0:
				b = b[:r.Intn(len(b))]
			case 1:
				b[r.Intn(len(b))] = byte(r.U64())
			case 2:
				b = append(b, []byte{' ', '\n', 0, '}', 'x'}[r.Intn(5)])
			}
		}
		return b, "mutated-valid"
	}
}

// c10Probes: small inputs of every kind, at the integer and float boundaries (valid DAG-CBOR or nearly so).
var c10Probes = [][]byte{
	{0x00}, {0x17}, {0x18, 0x18}, {0x1b, 0x7f, 0xff, 0xff, 0xff, 0xff, 0xff, 0xff, 0xff}, {0x1b, 0x80, 0, 0, 0, 0, 0, 0, 0}, {0x1b, 0xff, 0xff, 0xff, 0xff, 0xff, 0xff, 0xff, 0xff},
	{0x20}, {0x3b, 0x7f, 0xff, 0xff, 0xff, 0xff, 0xff, 0xff, 0xff}, {0x3b, 0x80, 0, 0, 0, 0, 0, 0, 0}, {0x3b, 0xff, 0xff, 0xff, 0xff, 0xff, 0xff, 0xff, 0xff},
	{0xf4}, {0xf5}, {0xf6}, {0xf7}, {0xfb, 0x3f, 0xf8, 0, 0, 0, 0, 0, 0}, {0xfb, 0x7f, 0xf0, 0, 0, 0, 0, 0, 0}, {0xf9, 0x3c, 0x00},
	{0x40}, {0x41, 0x00}, {0x60}, {0x61, 0x61}, {0x80}, {0x81, 0x00}, {0x81, 0x1b, 0xff, 0xff, 0xff, 0xff, 0xff, 0xff, 0xff, 0xff}, {0xa0}, {0xa1, 0x61, 0x61, 0x00}, {0xa1, 0x61, 0x61, 0x1b, 0xff, 0xff, 0xff, 0xff, 0xff, 0xff, 0xff, 0xff},
	{0xd8, 0x2a, 0x58, 0x25, 0x00, 0x01, 0x71, 0x12, 0x20, 1, 2, 3, 4, 5, 6, 7, 8, 9, 10, 11, 12, 13, 14, 15, 16, 17, 18, 19, 20, 21, 22, 23, 24, 25, 26, 27, 28, 29, 30, 31, 32},
}

// c10TypedTargets: the decoders feeding schema-bound assemblers of RANDOM type systems (reflection binding with inferred
// and caller-supplied Go types, both levels): every probe, and mutated encodings of an inhabitant's representation and
// type-level form, through dag-cbor and dag-json.  Whatever the type, the answer is a node or an error, never a panic.
func c10TypedTargets(c *core.Ctx, r *core.Rand, n int) {
	cfg := core.DefaultSchemaCfg
	for i := 0; i < n; i++ {
		sc, err := genSchemaCase(r, cfg)
		if err != nil {
			continue
		}
		tv := core.GenInhabitant(sc.T, r, cfg, false)
		var inputs [][]byte
		inputs = append(inputs, c10Probes...)
		for _, v := range []core.Val{core.TypeInput(tv)} {
			inputs = append(inputs, core.RawCBOR(nil, v))
		}
		if rv, ok := core.ReprOf(sc.T, tv); ok {
			enc := core.RawCBOR(nil, rv)
			inputs = append(inputs, enc)
			for k := 0; k < 6 && len(enc) > 0; k++ {
				m := append([]byte{}, enc...)
				switch r.Intn(4) {
				case 0:
					m[r.Intn(len(m))] ^= byte(1 << r.Intn(8))
				case 1:
					m = m[:r.Intn(len(m))]
				case 2:
					p := c10Probes[r.Intn(len(c10Probes))]
					at := r.Intn(len(m))
					m = append(append(append([]byte{}, m[:at]...), p...), m[at:]...)
				default:
					m[r.Intn(len(m))] = []byte{0x1b, 0x3b, 0xf6, 0xfb, 0x40, 0x60, 0x80, 0xa0, 0xd8}[r.Intn(9)]
				}
				inputs = append(inputs, m)
			}
		}
		for _, lvl := range []string{"type", "repr"} {
			mk := func() datamodel.NodeAssembler {
				var nb datamodel.NodeBuilder
				if lvl == "type" {
					nb, _ = sc.Eng.NewTypeBuilder(sc.T.Name)
				} else {
					nb, _ = sc.Eng.NewReprBuilder(sc.T.Name)
				}
				return nb
			}
			for _, in := range inputs {
				o := c10Decode(dagcbor.Decode, mk, in, false)
				caseID := fmt.Sprintf("c10.typed %s %s %s cbor %s", sc.Eng.Name(), lvl, sc.Ty, hexArg(in))
				c.Count(caseID, len(in) >= 2)
				c.Dist("typed-target:" + lvl + ":" + o.class)
				if o.class == "panic" {
					c.Fail("C10/panic", core.Replay{Kind: "oracle", Case: caseID, Impl: o.panicV, Expected: "a node or an error", Detail: "dag-cbor decoder feeding a schema-bound assembler"})
				}
				// the same item as DAG-JSON where it has a JSON form
				nb := basicnode.Prototype.Any.NewBuilder()
				if dagcbor.Decode(nb, bytes.NewReader(in)) == nil {
					var jb bytes.Buffer
					if dagjson.Encode(nb.Build(), &jb) == nil {
						oj := c10Decode(dagjson.Decode, mk, jb.Bytes(), false)
						if oj.class == "panic" {
							c.Fail("C10/panic", core.Replay{Kind: "oracle", Case: fmt.Sprintf("c10.typed %s %s %s json %s", sc.Eng.Name(), lvl, sc.Ty, hexArg(jb.Bytes())), Impl: oj.panicV, Expected: "a node or an error", Detail: "dag-json decoder feeding a schema-bound assembler"})
						}
					}
				}
			}
		}
	}
}

func runC10(c *core.Ctx) error {
	c.Rule = "dag-cbor / cbor decoders under every combination of RelaxedDecode, AllowLinks, DontParseBeyondEnd, budgets {default,64,1000,100000}, prealloc caps {default,1,16}, depth limits {default,1,8}; dag-json / json decoders under ParseLinks/ParseBytes/DontParseBeyondEnd/MaxDepth; raw; each into generic (any, map, list, string), generated (gendemo) and reflection-bound assemblers; inputs: adversarial (declared lengths far beyond the content, depth bombs at 1023/1024/1025, wide collections, stacked tags, number and string edge cases, reserved-form variants) and mutated valid encodings; selector specs with extreme integers and degenerate recursion compiled and walked; ParsePath on random strings; non-trivial = input of at least 2 bytes; distinct by (decoder, options, target, input)"
	c.Explanation = "theorems on the decoder models: decode_depth (a decoded value never nests deeper than MaxDepth), decode_budget (the sum of all charges never exceeds the budget; every pre-allocation is charged before it is made and capped), no panic constructor is reachable (decode), walk_no_panic, compile_no_panic; the constants (entry costs, defaults) are re-extracted from source"
	c.Assumptions = []string{fmt.Sprintf("allocation bound checked: TotalAlloc delta <= %d·budget + %d·|input| + %d bytes (constants chosen for this Go runtime; the proved statement is about budget units)", c10K1, c10K2, c10K0),
		"per-case time limit 3 s", "refmt reads string payloads in bounded steps, so a declared length alone allocates nothing"}
	type cfgCase struct {
		flags           string
		budget, pre, md int64
	}
	c10TypedTargets(c, c.Rand.Fork(), c.Pick(60, 4000))
	var lines []string
	var impl []string
	n := c.Pick(2500, 150000)
	for i := 0; i < n; i++ {
		r := c.Rand
		in, label := c10AdversarialCbor(r)
		cc := cfgCase{flags: "", budget: []int64{0, 64, 1000, 100000}[r.Intn(4)], pre: []int64{0, 1, 16}[r.Intn(3)], md: []int64{0, 1, 8}[r.Intn(3)]}
		opts := dagcbor.DecodeOptions{AllocationBudget: cc.budget, MaxCollectionPrealloc: cc.pre, MaxDepth: cc.md}
		if r.Bool() {
			opts.AllowLinks = true
			cc.flags += "l"
		}
		if r.Chance(1, 3) {
			opts.RelaxedDecode = true
			cc.flags += "r"
		}
		if r.Chance(1, 4) {
			opts.DontParseBeyondEnd = true
			cc.flags += "e"
		}
		if cc.flags == "" {
			cc.flags = "-"
		}
		tgt := c10Targets[r.Intn(len(c10Targets))]
		if i%3 == 0 {
			tgt = c10Targets[0]
		}
		o := c10Decode(opts.Decode, tgt.mk, in, tgt.name == "any")
		caseID := fmt.Sprintf("cbor.decx %s %d %d %d %s", cc.flags, cc.budget, cc.pre, cc.md, hexArg(in))
		c.Count(caseID+"@"+tgt.name, len(in) >= 2)
		c.Dist("cbor-input:" + strings.SplitN(label, ":", 2)[0])
		c.Dist("cbor-class:" + o.class)
		c.Dist("target:" + tgt.name)
		budget := cc.budget
		if budget == 0 {
			budget = 10485760
		}
		md := cc.md
		if md == 0 {
			md = 1024
		}
		c10Common(c, "dag-cbor", caseID+" target="+tgt.name, o, uint64(budget), len(in), int(md))
		if tgt.name == "any" && o.class != "panic" {
			// D: classes incl. budget / depth, and the value
			lines = append(lines, caseID)
			if o.class == "ok" {
				impl = append(impl, "ok "+o.term)
			} else {
				impl = append(impl, "err "+o.class)
			}
		}
	}
	outs, err := core.RunDriver(lines)
	if err != nil {
		return err
	}
	for i := range lines {
		c.Trace(1)
		if i < 2 {
			c.Sample(map[string]string{"case": truncateStr(lines[i], 300), "impl": truncateStr(impl[i], 200)})
		}
		if modelClass(outs[i]) != impl[i] {
			// K1 (the −2^64 wrap) is C03's finding; here it only matters that classes agree
			c.Fail("C10/corr-decode-options", core.Replay{Kind: "correspondence", Case: lines[i], Impl: truncateStr(impl[i], 300), Model: truncateStr(outs[i], 300)})
		}
	}
	// plain cbor, raw
	for i := 0; i < c.Pick(400, 20000); i++ {
		in, _ := c10AdversarialCbor(c.Rand)
		o := c10Decode(cbor.Decode, c10Targets[c.Rand.Intn(4)].mk, in, false)
		c.Count("cbor-plain:"+hexArg(in), len(in) >= 2)
		c10Common(c, "cbor", "c10.cbor "+hexArg(in), o, 10485760, len(in), 1024)
		o = c10Decode(raw.Decode, c10Targets[c.Rand.Intn(4)].mk, in, false)
		c10Common(c, "raw", "c10.raw "+hexArg(in), o, 0, len(in), 1024)
	}
	// JSON family
	for i := 0; i < c.Pick(2500, 150000); i++ {
		r := c.Rand
		in, label := c10AdversarialJSON(r)
		opts := dagjson.DecodeOptions{ParseLinks: r.Bool(), ParseBytes: r.Bool(), DontParseBeyondEnd: r.Chance(1, 4), MaxDepth: []int64{0, 1, 8}[r.Intn(3)]}
		tgt := c10Targets[r.Intn(len(c10Targets))]
		var dec codec.Decoder = opts.Decode
		name := "dag-json"
		if r.Chance(1, 5) {
			dec, name = json.Decode, "json"
			opts.MaxDepth = 0
		}
		o := c10Decode(dec, tgt.mk, in, false)
		md := opts.MaxDepth
		if md == 0 {
			md = 1024
		}
		caseID := fmt.Sprintf("c10.%s links=%v bytes=%v end=%v depth=%d target=%s %s", name, opts.ParseLinks, opts.ParseBytes, opts.DontParseBeyondEnd, opts.MaxDepth, tgt.name, hexArg(in))
		c.Count(caseID, len(in) >= 2)
		c.Dist("json-input:" + label)
		c.Dist("json-class:" + o.class)
		c10Common(c, name, caseID, o, 0, len(in), int(md))
	}
	// the token-level entry point (dagcbor.Unmarshal over a token source of the caller's, here refmt's decoder with its
	// own defaults, which do not refuse indefinite lengths): nesting of definite and indefinite collections around the
	// depth limit
	for i := 0; i < c.Pick(120, 8000); i++ {
		r := c.Rand
		md := []int64{0, 1, 4, 8, 64}[r.Intn(5)]
		lim := md
		if lim == 0 {
			lim = 1024
		}
		depth := int(lim) + []int{-1, 0, 1, 2, 5, 2000}[r.Intn(6)]
		if depth < 1 {
			depth = 1
		}
		var in, tail []byte
		for d := 0; d < depth; d++ {
			switch r.Intn(4) {
			case 0:
				in = append(in, 0x81)
			case 1:
				in = append(in, 0xa1, 0x61, 0x61)
			case 2:
				in = append(in, 0x9f)
				tail = append([]byte{0xff}, tail...)
			default:
				in = append(in, 0xbf, 0x61, 0x61)
				tail = append([]byte{0xff}, tail...)
			}
		}
		in = append(append(in, 0x00), tail...)
		var built datamodel.Node
		var derr error
		_, panicked, pv := core.Catch(func() error {
			nb := basicnode.Prototype.Any.NewBuilder()
			derr = dagcbor.Unmarshal(nb, rcbor.NewDecoder(rcbor.DecodeOptions{}, bytes.NewReader(in)), dagcbor.DecodeOptions{MaxDepth: md})
			if derr == nil {
				built = nb.Build()
			}
			return nil
		})
		caseID := fmt.Sprintf("cbor.unmarshal-tokens maxdepth=%d nesting=%d %s", md, depth, hexArg(truncateBytes(in, 200)))
		c.Count(caseID, true)
		c.Dist("token-entry:" + map[bool]string{true: "accepted", false: "refused"}[derr == nil && !panicked])
		if panicked {
			c.Fail("C10/panic", core.Replay{Kind: "oracle", Case: caseID, Impl: fmt.Sprint(pv)})
		} else if built != nil {
			if d := valDepth(built, 5000); d > int(lim) {
				c.Fail("C10/depth-limit-exceeded", core.Replay{Kind: "oracle", Case: caseID, Impl: fmt.Sprintf("built a value nested %d deep", d), Expected: fmt.Sprintf("an error, or nesting <= %d", lim),
					Detail: "dagcbor.Unmarshal over refmt's CBOR decoder with default options (indefinite lengths not refused by the tokenizer)"})
			}
		}
	}
	// selectors with extreme numbers / degenerate recursion: compile and walk, against the model too
	var cases []walkCase
	for i := 0; i < c.Pick(600, 40000); i++ {
		r := c.Rand
		g, err := core.GenGraph(r, r.Intn(4))
		if err != nil {
			return err
		}
		spec := c10Selector(r, g, 0)
		t0 := time.Now()
		obs := core.RunWalk(g, spec, core.WalkCfg{}, false)
		if time.Since(t0) > 3*time.Second {
			c.Fail("C10/selector-too-slow", core.Replay{Kind: "oracle", Case: walkLine(g, spec, core.WalkCfg{}), Impl: time.Since(t0).String()})
		}
		_ = obs
		cases = append(cases, walkCase{g: g, spec: spec})
		c.Dist("selector-case")
	}
	if err := c07Batch(c, cases, "C10"); err != nil {
		return err
	}
	// walks through InterpretAs clauses with reifiers that change the KIND of the node (a container collapses into a
	// scalar, a scalar grows into a list), hide part of it, fail, or answer nothing - in front of every kind of
	// continuation: whatever a reifier answers, the walk ends with visits or an error
	for i := 0; i < c.Pick(400, 30000); i++ {
		r := c.Rand
		g, err := core.GenGraph(r, r.Intn(4))
		if err != nil {
			return err
		}
		mm := func(k string, v core.Val) core.Val { return core.Map(core.KV{K: []byte(k), V: v}) }
		as := func(x core.Val) core.Val {
			return mm("~", core.Map(core.KV{K: []byte("as"), V: core.Str("someadl")}, core.KV{K: []byte(">"), V: x}))
		}
		all := func(x core.Val) core.Val { return mm("a", mm(">", x)) }
		match := mm(".", core.Map())
		conts := []core.Val{match, all(match), core.SelAll(), mm("r", core.Map(core.KV{K: []byte("^"), V: core.Int(0)}, core.KV{K: []byte("$"), V: core.Int(2000)}, core.KV{K: []byte(">"), V: match})),
			mm("|", core.List(match, all(match))), mm("f", mm("f>", core.Map(core.KV{K: []byte("a"), V: match}, core.KV{K: []byte("0"), V: match}))), mm("i", core.Map(core.KV{K: []byte("i"), V: core.Int(0)}, core.KV{K: []byte(">"), V: match})), c10Selector(r, g, 1)}
		spec := as(conts[r.Intn(len(conts))])
		switch r.Intn(4) {
		case 0:
			spec = all(spec)
		case 1:
			spec = mm("|", core.List(match, all(spec)))
		case 2:
			spec = all(all(spec))
		}
		kind := []string{"collapse", "hide", "fail", "nil", "scalar-to-list", "collapse"}[r.Intn(6)]
		w := core.WalkCfg{ReifyKind: kind}
		for _, matching := range []bool{false, true} {
			obs := core.RunWalk(g, spec, w, matching)
			if obs.Outcome == "panic" {
				c.Fail("C10/walk-panics", core.Replay{Kind: "oracle", Case: "walk.reified " + kind + " " + walkLine(g, spec, core.WalkCfg{}), Impl: obs.String(), Expected: "visits or an error",
					Detail: "a selector that compiled, walked with a reifier registered for its InterpretAs clause"})
			}
		}
		c.Count("walk.reified "+kind+" "+walkLine(g, spec, core.WalkCfg{}), true)
		c.Dist("reified-walk:" + kind)
	}
	// walks over decoded UNTRUSTED data holding links no honest store would hand out (a multihash declaring more digest
	// than its function yields, oversized identity multihashes), with a block source that answers every request
	for i := 0; i < c.Pick(150, 10000); i++ {
		r := c.Rand
		code := []uint64{mh.SHA2_256, mh.SHA2_512, mh.SHA1, mh.IDENTITY}[r.Intn(4)]
		digest := r.Bytes(1 + r.Intn(130))
		enc, err := mh.Encode(digest, code)
		if err != nil {
			continue
		}
		lnk := cidlink.Link{Cid: cid.NewCidV1([]uint64{0x55, 0x71}[r.Intn(2)], enc)}
		answer := r.Bytes(r.Intn(70))
		lsys := cidlink.DefaultLinkSystem()
		lsys.StorageReadOpener = func(linking.LinkContext, datamodel.Link) (io.Reader, error) { return bytes.NewReader(answer), nil }
		root, _ := core.BuildBasic(core.Map(core.KV{K: []byte("next"), V: core.Link(lnk.Cid.Bytes())}, core.KV{K: []byte("x"), V: core.Int(1)}), nil)
		sel, _ := core.CompileSel(core.SelAll())
		var werr error
		_, panicked, pv := core.Catch(func() error {
			werr = traversal.Progress{Cfg: &traversal.Config{LinkSystem: lsys, LinkTargetNodePrototypeChooser: func(datamodel.Link, linking.LinkContext) (datamodel.NodePrototype, error) {
				return basicnode.Prototype.Any, nil
			}}}.WalkAdv(root, sel, func(traversal.Progress, datamodel.Node, traversal.VisitReason) error { return nil })
			return nil
		})
		caseID := fmt.Sprintf("walk.hostile-link mh=0x%x digest=%x answer=%x", code, digest, answer)
		c.Count(caseID, true)
		c.Dist("hostile-link-walk")
		if panicked {
			c.Fail("C10/walk-panics", core.Replay{Kind: "oracle", Case: caseID, Impl: fmt.Sprint(pv), Expected: "an error (" + fmt.Sprint(werr) + ")", Detail: "explore-all walk over data holding a link whose multihash no hash function output matches"})
		}
	}
	// ParsePath / Get on arbitrary strings
	for i := 0; i < c.Pick(1000, 50000); i++ {
		s := string(core.GenStrBytes(c.Rand, core.GenCfg{})) + []string{"", "/", "//", "/a/", "\x00/\xff"}[c.Rand.Intn(5)]
		func() {
			defer func() {
				if r := recover(); r != nil {
					c.Fail("C10/parsepath-panic", core.Replay{Kind: "oracle", Case: "path.rt " + hexArg([]byte(s)), Impl: fmt.Sprint(r)})
				}
			}()
			p := datamodel.ParsePath(s)
			n, _ := core.BuildBasic(core.Map(core.KV{K: []byte("a"), V: core.List(core.Int(1))}), nil)
			traversal.Get(n, p)
		}()
		c.Count("parsepath:"+hex.EncodeToString([]byte(s)), len(s) >= 2)
	}
	return nil
}

func c10Common(c *core.Ctx, dec, caseID string, o c10obs, budget uint64, inLen, maxDepth int) {
	if o.class == "panic" {
		c.Fail("C10/panic:"+dec, core.Replay{Kind: "oracle", Case: caseID, Impl: "panic: " + o.panicV})
		return
	}
	if o.elapsed > 3*time.Second {
		c.Fail("C10/too-slow:"+dec, core.Replay{Kind: "oracle", Case: caseID, Impl: o.elapsed.String()})
	}
	if o.class == "ok" && o.depth > maxDepth {
		c.Fail("C10/depth-limit-exceeded:"+dec, core.Replay{Kind: "oracle", Case: caseID, Impl: fmt.Sprint(o.depth), Expected: fmt.Sprintf("<= %d", maxDepth)})
	}
	bound := uint64(c10K1)*budget + uint64(c10K2)*uint64(inLen) + c10K0
	if dec == "dag-json" || dec == "json" || dec == "raw" {
		bound = 2048*uint64(inLen) + c10K0 // no budget option: proportional to the input
	}
	if o.alloc > bound {
		c.Fail("C10/allocation-beyond-bound:"+dec, core.Replay{Kind: "oracle", Case: caseID, Impl: fmt.Sprintf("%d bytes allocated", o.alloc), Expected: fmt.Sprintf("<= %d", bound)})
	}
}

func c10Selector(r *core.Rand, g *core.Graph, depth int) core.Val {
	mm := func(k string, v core.Val) core.Val { return core.Map(core.KV{K: []byte(k), V: v}) }
	ext := []int64{0, 1, -1, 2, math.MaxInt64, math.MinInt64, math.MaxInt64 - 1, 1 << 40, -(1 << 40), 1024, 1025}
	pick := func() core.Val { return core.Int(ext[r.Intn(len(ext))]) }
	if depth > 3 {
		return mm(".", core.Map())
	}
	next := func() core.Val { return c10Selector(r, g, depth+1) }
	switch r.Intn(9) {
	case 0:
		return mm("r", core.Map(core.KV{K: []byte("^"), V: pick()}, core.KV{K: []byte("$"), V: pick()}, core.KV{K: []byte(">"), V: next()}))
	case 1:
		return mm("i", core.Map(core.KV{K: []byte("i"), V: pick()}, core.KV{K: []byte(">"), V: next()}))
	case 2:
		return mm(".", mm("subset", core.Map(core.KV{K: []byte("["), V: pick()}, core.KV{K: []byte("]"), V: pick()})))
	case 3, 4:
		// recursion whose sequence is, or contains at the top of a union, a bare edge
		seqs := []core.Val{mm("@", core.Map()), mm("|", core.List(mm("@", core.Map()), mm("a", mm(">", mm("@", core.Map()))))),
			mm("|", core.List(mm("@", core.Map()), mm("@", core.Map()))), mm("|", core.List(mm("|", core.List(mm("@", core.Map()), next())), mm(".", core.Map()))),
			mm("a", mm(">", mm("a", mm(">", mm("@", core.Map())))))}
		lim := []core.Val{mm("none", core.Map()), mm("depth", pick())}[r.Intn(2)]
		return mm("R", core.Map(core.KV{K: []byte("l"), V: lim}, core.KV{K: []byte(":>"), V: seqs[r.Intn(len(seqs))]}))
	case 5:
		return mm("|", core.List(next(), next(), mm("@", core.Map())))
	case 6:
		return mm("a", mm(">", next()))
	case 7:
		return mm("i", core.Map(core.KV{K: []byte("i"), V: core.Uint(1 << 63)}, core.KV{K: []byte(">"), V: next()}))
	}
	return core.GenSelector(r, g, depth, false, true)
}

func replayC10(c *core.Ctx, rp core.Replay) error {
	f := strings.Fields(rp.Case)
	if len(f) >= 6 && f[0] == "cbor.decx" {
		var budget, pre, md int64
		fmt.Sscan(f[2], &budget)
		fmt.Sscan(f[3], &pre)
		fmt.Sscan(f[4], &md)
		var in []byte
		if f[5] != "-" {
			in, _ = hex.DecodeString(f[5])
		}
		opts := dagcbor.DecodeOptions{AllocationBudget: budget, MaxCollectionPrealloc: pre, MaxDepth: md, AllowLinks: strings.Contains(f[1], "l"), RelaxedDecode: strings.Contains(f[1], "r"), DontParseBeyondEnd: strings.Contains(f[1], "e")}
		o := c10Decode(opts.Decode, c10Targets[0].mk, in, true)
		if budget == 0 {
			budget = 10485760
		}
		if md == 0 {
			md = 1024
		}
		c10Common(c, "dag-cbor", rp.Case, o, uint64(budget), len(in), int(md))
		return nil
	}
	return fmt.Errorf("replay by seed: VERIF_SEED=%d ./vcheck C10 %s (case: %s)", rp.Seed, rp.Tier, rp.Case)
}
