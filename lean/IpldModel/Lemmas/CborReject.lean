/-
  Helper lemmas for the rejection theorems of C03: how an error inside `decItem` surfaces from
  `decode`, and what `decItem` does after a tag head.
-/
import IpldModel.Lemmas.CborDecComplete
import IpldModel.Lemmas.CborFloat
namespace Ipld
namespace Cbor
open Spec

/-- An error of the item decoder (for all sufficient fuel) is the error of `decode`. -/
theorem decode_error_of_decItem {cfg : DecCfg} {bs : Bytes} {e : DecErr} (k : Nat) (hk : k ≤ bs.length)
    (h : ∀ f, k ≤ f → decItem cfg (f + 1) 0 0 none ⟨bs, cfg.budget⟩ = .error e) :
    decode cfg bs = .error e := by
  unfold decode
  rw [h bs.length hk]
  rfl

theorem readLen_err {strict : Bool} {info : Nat} {rest : Bytes} {e : DecErr}
    (h : readArg strict info rest = .error e) : readLen strict info rest = .error e := by
  unfold readLen; rw [h]; rfl

/-- If reading the head's argument fails, the item fails with the same error (majors 0..6). -/
theorem decItem_readArg_err (cfg : DecCfg) (f depth : Nat) (extra : Int) (tag : Option Nat) (b0 : UInt8)
    (rest : Bytes) (B : Int) (e : DecErr) (hm : b0.toNat / 32 ≤ 6) (hi : b0.toNat % 32 ≠ 31)
    (htag : b0.toNat / 32 = 6 → tag = none)
    (h : readArg (!cfg.relaxed) (b0.toNat % 32) rest = .error e) :
    decItem cfg (f + 1) depth extra tag ⟨b0 :: rest, B⟩ = .error e := by
  have hmaj : b0.toNat / 32 = 0 ∨ b0.toNat / 32 = 1 ∨ b0.toNat / 32 = 2 ∨ b0.toNat / 32 = 3 ∨
      b0.toNat / 32 = 4 ∨ b0.toNat / 32 = 5 ∨ b0.toNat / 32 = 6 := by omega
  rcases hmaj with m | m | m | m | m | m | m
  · rw [decItem_m0 _ _ _ _ _ _ _ _ m, h]; rfl
  · rw [decItem_m1 _ _ _ _ _ _ _ _ m, h]; rfl
  · rw [decItem_m2 _ _ _ _ _ _ _ _ m hi, readLen_err h]; rfl
  · rw [decItem_m3 _ _ _ _ _ _ _ _ m hi, readLen_err h]; rfl
  · rw [decItem_m4 _ _ _ _ _ _ _ _ m hi, readLen_err h]; rfl
  · rw [decItem_m5 _ _ _ _ _ _ _ _ m hi, readLen_err h]; rfl
  · rw [decItem_m6 _ _ _ _ _ _ _ _ m, htag m]
    simp only []
    rw [readLen_err h]; rfl

/-- After a tag head the decoder reads the tagged item with the tag pending. -/
theorem decItem_tag (cfg : DecCfg) (f depth : Nat) (extra : Int) (t : Nat) (ht : t < 2 ^ 63) (r : Bytes) (B : Int) :
    decItem cfg (f + 1) depth extra none ⟨shortestHead 6 t ++ r, B⟩ =
      decItem cfg f depth extra (some t) ⟨r, B⟩ := by
  rw [shortestHead_eq 6, List.cons_append, decItem_m6 _ _ _ _ _ _ _ _ (head_byte_div 6 _ (by omega)),
    head_byte_mod 6 _ (by omega), readLen_harg _ _ ht]
  rfl

/-- The first byte of a shortest head, for the dispatch lemmas. -/
theorem shortestHead_cons (m n : Nat) (r : Bytes) :
    shortestHead m n ++ r = UInt8.ofNat (32 * m + hinfo n) :: (harg n ++ r) := by
  rw [shortestHead_eq, List.cons_append]

/-- A 1/2/4/8-byte argument below the threshold of its width is refused in strict mode. -/
theorem readArg_nonminimal (info w thr : Nat)
    (hw : (info = 24 ∧ w = 1 ∧ thr = 24) ∨ (info = 25 ∧ w = 2 ∧ thr = 256) ∨ (info = 26 ∧ w = 4 ∧ thr = 65536)
      ∨ (info = 27 ∧ w = 8 ∧ thr = 4294967296))
    (a : Bytes) (ha : a.length = w) (hv : beVal a < thr) (rest : Bytes) :
    readArg true info (a ++ rest) = .error .nonMinimal := by
  rcases hw with ⟨rfl, rfl, rfl⟩ | ⟨rfl, rfl, rfl⟩ | ⟨rfl, rfl, rfl⟩ | ⟨rfl, rfl, rfl⟩ <;>
  · simp only [readArg]
    rw [take?_append' _ a rest ha]
    simp [bind, Except.bind, hv]

theorem decKey_bad (cfg : DecCfg) (b : UInt8) (rest : Bytes) (B : Int) (hb3 : b.toNat / 32 ≠ 3)
    (hind : ¬ (b.toNat = 0x5f ∨ b.toNat = 0x9f ∨ b.toNat = 0xbf)) :
    decKey cfg ⟨b :: rest, B⟩ = .error .badKey := by
  unfold decKey
  simp only []
  rw [if_neg (by omega), if_neg hb3]

/-- A map head followed by something that is not a text string. -/
theorem decItem_bad_key (cfg : DecCfg) (f : Nat) (n : Nat) (h1 : 1 ≤ n) (hn : n < 2 ^ 63) (B : Int)
    (hb : (n : Int) ≤ B) (hd : 0 < cfg.maxDepth) (b : UInt8) (rest : Bytes) (hb3 : b.toNat / 32 ≠ 3)
    (hind : ¬ (b.toNat = 0x5f ∨ b.toNat = 0x9f ∨ b.toNat = 0xbf)) :
    decItem cfg (f + 1) 0 0 none ⟨shortestHead 5 n ++ b :: rest, B⟩ = .error .badKey := by
  have hi := hinfo_le n
  rw [shortestHead_eq, List.cons_append,
    decItem_m5 _ _ _ _ _ _ _ _ (head_byte_div 5 _ (by omega)) (by rw [head_byte_mod 5 _ (by omega)]; omega),
    head_byte_mod 5 _ (by omega), readLen_harg _ _ hn]
  simp only [bind, Except.bind]
  rw [charge_ok _ _ _ (by omega)]
  simp only []
  rw [if_neg (by omega), charge_ok _ _ _ (by omega)]
  simp only []
  obtain ⟨m, rfl⟩ : ∃ m, n = m + 1 := ⟨n - 1, by omega⟩
  simp only [decMap, bind, Except.bind]
  rw [decKey_bad _ _ _ _ hb3 hind]

/-- A two-entry map whose two keys are the same string `k` (first value: null). -/
theorem decItem_dup_key (cfg : DecCfg) (f : Nat) (k rest : Bytes) (hk : k.length ≤ 33554432) (B : Int)
    (hb : 2 * (k.length : Int) + 18 ≤ B) (hd : 0 < cfg.maxDepth) :
    decItem cfg (f + 2) 0 0 none
      ⟨shortestHead 5 2 ++ ((shortestHead 3 k.length ++ k) ++ (0xf6 :: ((shortestHead 3 k.length ++ k) ++ rest))), B⟩
      = .error .dupKey := by
  rw [shortestHead_eq, List.cons_append,
    decItem_m5 _ _ _ _ _ _ _ _ (head_byte_div 5 _ (by omega)) (by rw [head_byte_mod 5 _ (by omega)]; decide),
    head_byte_mod 5 _ (by omega), readLen_harg _ _ (by omega)]
  simp only [bind, Except.bind]
  rw [charge_ok _ _ _ (by omega)]
  simp only []
  rw [if_neg (by omega), charge_ok _ _ _ (by omega)]
  simp only [decMap, bind, Except.bind]
  rw [decKey_complete cfg k _ _ hk]
  simp only []
  rw [charge_ok _ _ _ (by omega)]
  simp only [List.contains_nil, Bool.false_eq_true, if_false]
  rw [decItem_null _ _ _ _ _ _ _ _ (by decide), finish_ok _ _ _ _ _ (by omega) (by omega) (by omega)]
  simp only []
  rw [decKey_complete cfg k _ _ hk]
  simp only []
  rw [charge_ok _ _ _ (by omega)]
  simp

theorem finish_tag (t : Nat) (extra c : Int) (v : DM) (r : Bytes) (B : Int) (h : extra ≤ B) :
    finish (some t) extra c v ⟨r, B⟩ = .error .badTag := by
  unfold finish
  rw [charge_ok _ _ _ h]
  rfl

/-- A tagged byte string whose payload is fully present and paid for: only the tag/CID checks remain. -/
theorem decItem_tagged_bytes (cfg : DecCfg) (f depth : Nat) (extra : Int) (t : Nat) (p r : Bytes) (B : Int)
    (n : Nat) (hn : p.length = n) (hp : n ≤ 33554432) (hB : extra + n ≤ B) :
    decItem cfg (f + 1) depth extra (some t) ⟨(shortestHead 2 n ++ p) ++ r, B⟩ =
      (if t ≠ 42 then .error .badTag
       else if !cfg.allowLinks then .error .linksDisabled
       else match (generalizing := false) p with
         | 0 :: cid => if cidValid cid then pure (.link cid, ⟨r, B - extra - n⟩) else .error .badCid
         | _ => .error .badMultibase) := by
  have hi := hinfo_le n
  rw [shortestHead_eq, List.cons_append, List.cons_append,
    decItem_m2 _ _ _ _ _ _ _ _ (head_byte_div 2 _ (by omega)) (by rw [head_byte_mod 2 _ (by omega)]; omega),
    head_byte_mod 2 _ (by omega), List.append_assoc, readLen_harg _ _ (by omega)]
  simp only [bind, Except.bind]
  have : ¬ (n > 33554432) := by omega
  rw [if_neg this, take?_append' n p r hn]
  simp only []
  rw [charge_ok _ _ _ (by omega)]
  simp only []
  rw [charge_ok _ _ _ (by omega)]
  rfl

/-- A complete item followed by at least one more byte is refused as a whole input. -/
theorem decode_trailing_aux (cfg : DecCfg) (v : DM) (bs : Bytes) (b : UInt8) (rest : Bytes)
    (hd : Denotes v bs) (hl : WithinLimits cfg v) (hB : cfg.budget < 2 ^ 63)
    (hp : cfg.dontParseBeyondEnd = false) : decode cfg (bs ++ b :: rest) = .error .trailing := by
  obtain ⟨h1, h2, h3, h4⟩ := hl
  have hlen := (denotes_fuel v bs hd).2
  unfold decode
  rw [decItem_complete cfg v bs (b :: rest) _ 0 0 cfg.budget hd (by simp only [List.length_append]; omega)
    (by omega) (by omega) (by omega) hB h3 h4]
  simp [bind, Except.bind, hp]

/-- With `dontParseBeyondEnd` the same input is accepted and the tail ignored. -/
theorem decode_prefix_aux (cfg : DecCfg) (v : DM) (bs : Bytes) (rest : Bytes)
    (hd : Denotes v bs) (hl : WithinLimits cfg v) (hB : cfg.budget < 2 ^ 63)
    (hp : cfg.dontParseBeyondEnd = true) : decode cfg (bs ++ rest) = .ok v := by
  obtain ⟨h1, h2, h3, h4⟩ := hl
  have hlen := (denotes_fuel v bs hd).2
  unfold decode
  rw [decItem_complete cfg v bs rest _ 0 0 cfg.budget hd (by simp only [List.length_append]; omega)
    (by omega) (by omega) (by omega) hB h3 h4]
  simp [bind, Except.bind, hp]
  rfl

end Cbor
end Ipld
