/-
  C10 helper lemmas: resource bounds of the DAG-CBOR decoder model, for every configuration
  (strict or relaxed, any limits).  What a successful `decItem` guarantees about nesting depth,
  budget accounting and input consumption; what a collection header larger than the budget does;
  fuel irrelevance.
-/
import IpldModel.Lemmas.CborDecSound
namespace Ipld
namespace Cbor
open Spec

/-! ### reading heads never grows the input -/

theorem take?_len {n : Nat} {bs a r : Bytes} (h : take? n bs = .ok (a, r)) :
    r.length + n = bs.length := by
  obtain ⟨rfl, hl⟩ := take?_ok h
  simp only [List.length_append]; omega

theorem readArg_len {strict : Bool} {info n : Nat} {bs r : Bytes} (h : readArg strict info bs = .ok (n, r)) :
    r.length ≤ bs.length := by
  unfold readArg at h
  split at h
  · injection h with h; injection h with ha hb; subst hb; exact Nat.le_refl _
  · split at h
    · obtain ⟨⟨a, r'⟩, h1, h2⟩ := bind_ok h
      have := take?_len h1
      simp only [] at h2
      split at h2
      · cases h2
      · injection h2 with h2; injection h2 with ha hb; subst hb; omega
    · split at h
      · obtain ⟨⟨a, r'⟩, h1, h2⟩ := bind_ok h
        have := take?_len h1
        simp only [] at h2
        split at h2
        · cases h2
        · injection h2 with h2; injection h2 with ha hb; subst hb; omega
      · split at h
        · obtain ⟨⟨a, r'⟩, h1, h2⟩ := bind_ok h
          have := take?_len h1
          simp only [] at h2
          split at h2
          · cases h2
          · injection h2 with h2; injection h2 with ha hb; subst hb; omega
        · split at h
          · obtain ⟨⟨a, r'⟩, h1, h2⟩ := bind_ok h
            have := take?_len h1
            simp only [] at h2
            split at h2
            · cases h2
            · injection h2 with h2; injection h2 with ha hb; subst hb; omega
          · cases h

theorem readLen_len {strict : Bool} {info n : Nat} {bs r : Bytes} (h : readLen strict info bs = .ok (n, r)) :
    r.length ≤ bs.length := by
  unfold readLen at h
  obtain ⟨⟨n', r'⟩, h1, h2⟩ := bind_ok h
  simp only [] at h2
  split at h2
  · cases h2
  · injection h2 with h2; injection h2 with ha hb; subst hb
    exact readArg_len h1

/-! ### the post-condition of one decoded item -/

/-- What a successful item decode guarantees: at least one byte consumed, the budget still
    non-negative, exactly `extra + cost v` charged, and the value fits under the depth cap. -/
def ItemPost (cfg : DecCfg) (depth : Nat) (extra : Int) (s : DS) (v : DM) (s' : DS) : Prop :=
  s'.rest.length < s.rest.length ∧ 0 ≤ s'.budget ∧ s.budget - s'.budget = extra + cost v ∧
    depth + v.depth ≤ cfg.maxDepth

/-- The property of an element decoder the list/map lemmas rely on. -/
def ItemBounded (cfg : DecCfg) (depth : Nat) (extra : Int) (item : DS → R (DM × DS)) : Prop :=
  ∀ s v s', item s = .ok (v, s') → ItemPost cfg depth extra s v s'

theorem finish_post {tag : Option Nat} {extra c : Int} {v v' : DM} {s s' : DS}
    (h : finish tag extra c v s = .ok (v', s')) :
    v' = v ∧ s'.rest = s.rest ∧ 0 ≤ s'.budget ∧ s.budget - s'.budget = extra + c := by
  unfold finish at h
  obtain ⟨s1, h1, h2⟩ := bind_ok h
  obtain ⟨_, rfl⟩ := charge_eq_ok h1
  cases tag with
  | some t => cases h2
  | none =>
    simp only [] at h2
    obtain ⟨s2, h3, h4⟩ := bind_ok h2
    obtain ⟨hle, rfl⟩ := charge_eq_ok h3
    injection h4 with h4; injection h4 with ha hb; subst ha hb
    simp only [] at hle
    refine ⟨rfl, rfl, ?_, ?_⟩ <;> simp only [] <;> omega

section cases
variable {cfg : DecCfg} {depth : Nat} {extra : Int} {tag : Option Nat} {b0 : UInt8} {rest : Bytes} {B : Int}
  {v : DM} {s' : DS}

/-- A scalar token: `w` has depth 0 and costs `c`; `r` is what is left after it. -/
theorem post_scalar {c : Int} {w : DM} {r : Bytes} (hd : depth ≤ cfg.maxDepth) (hw : w.depth = 0)
    (hc : cost w = c) (hr : r.length ≤ rest.length)
    (h : finish tag extra c w ⟨r, B⟩ = .ok (v, s')) : ItemPost cfg depth extra ⟨b0 :: rest, B⟩ v s' := by
  obtain ⟨rfl, hr', h0, hb⟩ := finish_post h
  simp only [] at hr' hb
  refine ⟨by simp only [hr', List.length_cons]; omega, h0, by simp only [hb, hc], by omega⟩

theorem checkFloat_ok {strict : Bool} {b : Nat} {v : DM} (h : checkFloat strict b = .ok v) :
    v = .float (UInt64.ofNat b) := by
  unfold checkFloat at h
  split at h
  · cases h
  · split at h
    · cases h
    · injection h with h; exact h.symm

theorem post_float {k : Nat} {strict : Bool} {g : Nat → Nat} (hd : depth ≤ cfg.maxDepth)
    (h : (do let (a, r) ← take? k rest
             let v ← checkFloat strict (g (beVal a))
             finish tag extra 1 v ⟨r, B⟩) = .ok (v, s')) :
    ItemPost cfg depth extra ⟨b0 :: rest, B⟩ v s' := by
  obtain ⟨⟨a, r⟩, h1, h2⟩ := bind_ok h
  have hl := take?_len h1
  obtain ⟨w, h3, h4⟩ := bind_ok h2
  have hw := checkFloat_ok h3
  subst hw
  exact post_scalar hd (by simp only [DM.depth]) (by simp only [cost]) (by omega) h4

theorem post_m0 {strict : Bool} (hd : depth ≤ cfg.maxDepth)
    (h : (do let (n, r) ← readArg strict (b0.toNat % 32) rest
             finish tag extra 1 (.int n) ⟨r, B⟩) = .ok (v, s')) :
    ItemPost cfg depth extra ⟨b0 :: rest, B⟩ v s' := by
  obtain ⟨⟨n, r⟩, h1, h2⟩ := bind_ok h
  exact post_scalar hd (by simp only [DM.depth]) (by simp only [cost]) (readArg_len h1) h2

theorem post_m1 {strict : Bool} (hd : depth ≤ cfg.maxDepth)
    (h : (do let (n, r) ← readArg strict (b0.toNat % 32) rest
             let pos := if cfg.negWrap then (n + 1) % 18446744073709551616 else n + 1
             if pos > 9223372036854775808 then .error .negOverflow else
             finish tag extra 1 (.int (-(pos : Int))) ⟨r, B⟩) = .ok (v, s')) :
    ItemPost cfg depth extra ⟨b0 :: rest, B⟩ v s' := by
  obtain ⟨⟨n, r⟩, h1, h2⟩ := bind_ok h
  simp only [] at h2
  generalize (if cfg.negWrap = true then (n + 1) % 18446744073709551616 else n + 1) = pos at h2
  split at h2
  · cases h2
  · exact post_scalar hd (by simp only [DM.depth]) (by simp only [cost]) (readArg_len h1) h2

theorem post_m3 {strict : Bool} (hd : depth ≤ cfg.maxDepth)
    (h : (do let (n, r) ← readLen strict (b0.toNat % 32) rest
             if n > 33554432 then .error .oversized else
             let (payload, r') ← take? n r
             finish tag extra n (.str payload) ⟨r', B⟩) = .ok (v, s')) :
    ItemPost cfg depth extra ⟨b0 :: rest, B⟩ v s' := by
  obtain ⟨⟨n, r⟩, h1, h2⟩ := bind_ok h
  have hr := readLen_len h1
  simp only [] at h2
  split at h2
  · cases h2
  · obtain ⟨⟨p, r'⟩, h3, h4⟩ := bind_ok h2
    have hl := take?_len h3
    obtain ⟨_, hp⟩ := take?_ok h3
    simp only [] at h4
    exact post_scalar hd (by simp only [DM.depth]) (by simp only [cost, hp]) (by omega) h4

theorem post_m2 {strict : Bool} (hd : depth ≤ cfg.maxDepth)
    (h : (do let (n, r) ← readLen strict (b0.toNat % 32) rest
             if n > 33554432 then .error .oversized else
             let (payload, r') ← take? n r
             let s0 ← charge ⟨r', B⟩ extra
             let s' ← charge s0 n
             match tag with
             | none => pure (DM.bytes payload, s')
             | some t =>
               if t ≠ 42 then .error .badTag
               else if !cfg.allowLinks then .error .linksDisabled
               else match payload with
                 | 0 :: cid => if cidValid cid then pure (DM.link cid, s') else .error .badCid
                 | _ => .error .badMultibase) = .ok (v, s')) :
    ItemPost cfg depth extra ⟨b0 :: rest, B⟩ v s' := by
  obtain ⟨⟨n, r⟩, h1, h2⟩ := bind_ok h
  have hr := readLen_len h1
  simp only [] at h2
  split at h2
  · cases h2
  · obtain ⟨⟨p, r'⟩, h3, h4⟩ := bind_ok h2
    have hl := take?_len h3
    obtain ⟨_, hp⟩ := take?_ok h3
    simp only [] at h4
    obtain ⟨s0, h5, h6⟩ := bind_ok h4
    obtain ⟨_, rfl⟩ := charge_eq_ok h5
    obtain ⟨s1, h7, h8⟩ := bind_ok h6
    obtain ⟨hle, rfl⟩ := charge_eq_ok h7
    simp only [] at hle
    cases tag with
    | none =>
      simp only [pure, Except.pure] at h8
      injection h8 with h8; injection h8 with ha hb; subst ha hb
      refine ⟨by simp only [List.length_cons]; omega, by simp only []; omega, ?_, by simp only [DM.depth]; omega⟩
      simp only [cost, hp]; omega
    | some t =>
      simp only [] at h8
      split at h8
      · cases h8
      · split at h8
        · cases h8
        · split at h8
          · split at h8
            · rename_i cid hcid
              simp only [pure, Except.pure] at h8
              injection h8 with h8; injection h8 with ha hb; subst ha hb
              simp only [List.length_cons] at hp
              refine ⟨by simp only [List.length_cons]; omega, by simp only []; omega, ?_,
                by simp only [DM.depth]; omega⟩
              simp only [cost]; omega
            · cases h8
          · cases h8

end cases

/-! ### lists and maps -/

theorem ofList_depth_cons (x : DM) (xs : List DM) :
    (DMs.ofList (x :: xs)).depth = max x.depth (DMs.ofList xs).depth := by
  simp only [DMs.ofList, DMs.depth]

/-- `n` list elements: exactly `n` values, no input growth, budget kept non-negative, the elements'
    charges add up to `costList`, every element fits under the depth cap. -/
theorem decList_bounds {cfg : DecCfg} {depth : Nat} {item : DS → R (DM × DS)}
    (hitem : ItemBounded cfg depth 4 item) :
    ∀ (n : Nat) (s : DS) (xs : List DM) (s' : DS), decList item n s = .ok (xs, s') →
      xs.length = n ∧ s'.rest.length + n ≤ s.rest.length ∧ (0 ≤ s.budget → 0 ≤ s'.budget) ∧
        s.budget - s'.budget = costList (DMs.ofList xs) ∧
        (depth ≤ cfg.maxDepth → depth + (DMs.ofList xs).depth ≤ cfg.maxDepth)
  | 0, s, xs, s', h => by
    simp only [decList] at h
    injection h with h; injection h with ha hb; subst ha hb
    refine ⟨rfl, by omega, fun h => h, by simp only [DMs.ofList, costList]; omega, ?_⟩
    intro hd; simp only [DMs.ofList, DMs.depth]; omega
  | n + 1, s, xs, s', h => by
    simp only [decList] at h
    obtain ⟨⟨x, s1⟩, h1, h2⟩ := bind_ok h
    simp only [] at h2
    obtain ⟨⟨xs', s2⟩, h3, h4⟩ := bind_ok h2
    simp only [pure, Except.pure] at h4
    injection h4 with h4; injection h4 with ha hb; subst ha hb
    obtain ⟨p1, p2, p3, p4⟩ := hitem _ _ _ h1
    obtain ⟨q1, q2, q3, q4, q5⟩ := decList_bounds hitem n s1 xs' _ h3
    refine ⟨by simp [q1], by omega, fun _ => q3 p2, ?_, ?_⟩
    · simp only [DMs.ofList, costList]; omega
    · intro hd
      have := q5 hd
      simp only [DMs.ofList, DMs.depth]; omega

theorem decKey_bounds {cfg : DecCfg} {s s' : DS} {k : Bytes} (h : decKey cfg s = .ok (k, s')) :
    s'.rest.length + k.length < s.rest.length ∧ s'.budget = s.budget := by
  unfold decKey at h
  simp only [] at h
  split at h
  · cases h
  · rename_i b0 rest hrest
    split at h
    · cases h
    · split at h
      · obtain ⟨⟨n, r⟩, h1, h2⟩ := bind_ok h
        have hr := readLen_len h1
        simp only [] at h2
        split at h2
        · cases h2
        · obtain ⟨⟨p, r'⟩, h3, h4⟩ := bind_ok h2
          have hl := take?_len h3
          obtain ⟨_, hp⟩ := take?_ok h3
          simp only [pure, Except.pure] at h4
          injection h4 with h4; injection h4 with ha hb; subst ha hb
          refine ⟨?_, rfl⟩
          simp only [hrest, List.length_cons]; omega
      · cases h

/-- `n` map entries: exactly `n` entries, no input growth, budget kept non-negative, the keys' and
    values' charges add up to `costKVs`, every value fits under the depth cap. -/
theorem decMap_bounds {cfg : DecCfg} {depth : Nat} {item : DS → R (DM × DS)}
    (hitem : ItemBounded cfg depth 0 item) :
    ∀ (n : Nat) (seen : List Bytes) (s : DS) (es : List (Bytes × DM)) (s' : DS),
      decMap cfg item n seen s = .ok (es, s') →
      es.length = n ∧ s'.rest.length + 2 * n ≤ s.rest.length ∧ (0 ≤ s.budget → 0 ≤ s'.budget) ∧
        s.budget - s'.budget = costKVs (DMKVs.ofList es) ∧
        (depth ≤ cfg.maxDepth → depth + (DMKVs.ofList es).depth ≤ cfg.maxDepth)
  | 0, seen, s, es, s', h => by
    simp only [decMap] at h
    injection h with h; injection h with ha hb; subst ha hb
    refine ⟨rfl, by omega, fun h => h, by simp only [DMKVs.ofList, costKVs]; omega, ?_⟩
    intro hd; simp only [DMKVs.ofList, DMKVs.depth]; omega
  | n + 1, seen, s, es, s', h => by
    simp only [decMap] at h
    obtain ⟨⟨k, s1⟩, h1, h2⟩ := bind_ok h
    simp only [] at h2
    obtain ⟨s2, h3, h4⟩ := bind_ok h2
    obtain ⟨hle, rfl⟩ := charge_eq_ok h3
    split at h4
    · cases h4
    · obtain ⟨⟨v, s3⟩, h5, h6⟩ := bind_ok h4
      simp only [] at h6
      obtain ⟨⟨es', s4⟩, h7, h8⟩ := bind_ok h6
      simp only [pure, Except.pure] at h8
      injection h8 with h8; injection h8 with ha hb; subst ha hb
      obtain ⟨k1, k2⟩ := decKey_bounds h1
      obtain ⟨p1, p2, p3, p4⟩ := hitem _ _ _ h5
      obtain ⟨q1, q2, q3, q4, q5⟩ := decMap_bounds hitem n (k :: seen) s3 es' _ h7
      simp only [] at p1 p3
      refine ⟨by simp [q1], by omega, fun _ => q3 p2, ?_, ?_⟩
      · simp only [DMKVs.ofList, costKVs]; omega
      · intro hd
        have := q5 hd
        simp only [DMKVs.ofList, DMKVs.depth]; omega

/-! ### the item decoder -/

theorem post_m4 {cfg : DecCfg} {fuel depth : Nat} {extra : Int} {tag : Option Nat} {b0 : UInt8} {rest : Bytes}
    {B : Int} {v : DM} {s' : DS} {strict : Bool}
    (ih : depth + 1 ≤ cfg.maxDepth → ItemBounded cfg (depth + 1) 4 (decItem cfg fuel (depth + 1) 4 none))
    (h : (do let (n, r) ← readLen strict (b0.toNat % 32) rest
             let s0 ← charge ⟨r, B⟩ extra
             match tag with
             | some _ => .error .badTag
             | none =>
             if depth ≥ cfg.maxDepth then .error .depth else
             let s1 ← charge s0 n
             let (xs, s2) ← decList (decItem cfg fuel (depth + 1) 4 none) n s1
             pure (DM.list (DMs.ofList xs), s2)) = .ok (v, s')) :
    ItemPost cfg depth extra ⟨b0 :: rest, B⟩ v s' := by
  obtain ⟨⟨n, r⟩, h1, h2⟩ := bind_ok h
  have hr := readLen_len h1
  simp only [] at h2
  obtain ⟨s0, h3, h4⟩ := bind_ok h2
  obtain ⟨_, rfl⟩ := charge_eq_ok h3
  cases tag with
  | some t => cases h4
  | none =>
    simp only [] at h4
    split at h4
    · cases h4
    · rename_i hdep
      obtain ⟨s1, h5, h6⟩ := bind_ok h4
      obtain ⟨hle, rfl⟩ := charge_eq_ok h5
      obtain ⟨⟨xs, s2⟩, h7, h8⟩ := bind_ok h6
      simp only [pure, Except.pure] at h8
      injection h8 with h8; injection h8 with ha hb; subst ha hb
      obtain ⟨q1, q2, q3, q4, q5⟩ := decList_bounds (ih (by omega)) _ _ _ _ h7
      simp only [] at hle q2 q3 q4
      have := q5 (by omega)
      refine ⟨by simp only [List.length_cons]; omega, q3 (by omega), ?_, by simp only [DM.depth]; omega⟩
      simp only [cost, DMs.length, DMs.toList_ofList, q1]; omega

theorem post_m5 {cfg : DecCfg} {fuel depth : Nat} {extra : Int} {tag : Option Nat} {b0 : UInt8} {rest : Bytes}
    {B : Int} {v : DM} {s' : DS} {strict : Bool}
    (ih : depth + 1 ≤ cfg.maxDepth → ItemBounded cfg (depth + 1) 0 (decItem cfg fuel (depth + 1) 0 none))
    (h : (do let (n, r) ← readLen strict (b0.toNat % 32) rest
             let s0 ← charge ⟨r, B⟩ extra
             match tag with
             | some _ => .error .badTag
             | none =>
             if depth ≥ cfg.maxDepth then .error .depth else
             let s1 ← charge s0 n
             let (es, s2) ← decMap cfg (decItem cfg fuel (depth + 1) 0 none) n [] s1
             pure (DM.map (DMKVs.ofList es), s2)) = .ok (v, s')) :
    ItemPost cfg depth extra ⟨b0 :: rest, B⟩ v s' := by
  obtain ⟨⟨n, r⟩, h1, h2⟩ := bind_ok h
  have hr := readLen_len h1
  simp only [] at h2
  obtain ⟨s0, h3, h4⟩ := bind_ok h2
  obtain ⟨_, rfl⟩ := charge_eq_ok h3
  cases tag with
  | some t => cases h4
  | none =>
    simp only [] at h4
    split at h4
    · cases h4
    · rename_i hdep
      obtain ⟨s1, h5, h6⟩ := bind_ok h4
      obtain ⟨hle, rfl⟩ := charge_eq_ok h5
      obtain ⟨⟨es, s2⟩, h7, h8⟩ := bind_ok h6
      simp only [pure, Except.pure] at h8
      injection h8 with h8; injection h8 with ha hb; subst ha hb
      obtain ⟨q1, q2, q3, q4, q5⟩ := decMap_bounds (ih (by omega)) _ _ _ _ _ h7
      simp only [] at hle q2 q3 q4
      have := q5 (by omega)
      refine ⟨by simp only [List.length_cons]; omega, q3 (by omega), ?_, by simp only [DM.depth]; omega⟩
      simp only [cost, DMKVs.length, DMKVs.toList_ofList, q1]; omega

theorem post_m6 {cfg : DecCfg} {fuel depth : Nat} {extra : Int} {tag : Option Nat}
    {b0 : UInt8} {rest : Bytes} {B : Int} {v : DM} {s' : DS} {strict : Bool}
    (ih : ∀ t s v s', decItem cfg fuel depth extra (some t) s = .ok (v, s') → ItemPost cfg depth extra s v s')
    (h : (match tag with
        | some _ => (Except.error DecErr.multiTag : R (DM × DS))
        | none => do
          let (t, r) ← readLen strict (b0.toNat % 32) rest
          decItem cfg fuel depth extra (some t) ⟨r, B⟩) = .ok (v, s')) :
    ItemPost cfg depth extra ⟨b0 :: rest, B⟩ v s' := by
  cases tag with
  | some t => cases h
  | none =>
    simp only [] at h
    obtain ⟨⟨t, r⟩, h1, h2⟩ := bind_ok h
    have hr := readLen_len h1
    simp only [] at h2
    obtain ⟨p1, p2, p3, p4⟩ := ih _ _ _ _ h2
    simp only [] at p1 p3
    exact ⟨by simp only [List.length_cons]; omega, p2, p3, p4⟩

/-- Every successful item decode, under every configuration: at least one byte consumed, budget
    still non-negative, exactly `extra + cost v` charged, `depth + v.depth ≤ maxDepth`. -/
theorem decItem_bounds (cfg : DecCfg) :
    ∀ (fuel depth : Nat) (extra : Int) (tag : Option Nat) (s : DS) (v : DM) (s' : DS),
      depth ≤ cfg.maxDepth → decItem cfg fuel depth extra tag s = .ok (v, s') →
      ItemPost cfg depth extra s v s' := by
  intro fuel
  induction fuel with
  | zero => intro depth extra tag s v s' _ h; rw [decItem_zero] at h; cases h
  | succ fuel ih =>
    intro depth extra tag s v s' hd h
    obtain ⟨rest0, B⟩ := s
    cases rest0 with
    | nil => rw [decItem_nil] at h; cases h
    | cons b0 rest =>
      have hb0 := b0.toNat_lt
      by_cases c1 : b0.toNat = 0xf6 ∨ b0.toNat = 0xf7
      · rw [decItem_null _ _ _ _ _ _ _ _ c1] at h
        exact post_scalar hd (by simp only [DM.depth]) (by simp only [cost]) (Nat.le_refl _) h
      by_cases c2 : b0.toNat = 0xf4
      · rw [decItem_false _ _ _ _ _ _ _ _ c2] at h
        exact post_scalar hd (by simp only [DM.depth]) (by simp only [cost]) (Nat.le_refl _) h
      by_cases c3 : b0.toNat = 0xf5
      · rw [decItem_true _ _ _ _ _ _ _ _ c3] at h
        exact post_scalar hd (by simp only [DM.depth]) (by simp only [cost]) (Nat.le_refl _) h
      by_cases c4 : b0.toNat = 0xf9
      · rw [decItem_f16 _ _ _ _ _ _ _ _ c4] at h
        exact post_float (g := f16to64) hd h
      by_cases c5 : b0.toNat = 0xfa
      · rw [decItem_f32 _ _ _ _ _ _ _ _ c5] at h
        exact post_float (g := f32to64) hd h
      by_cases c6 : b0.toNat = 0xfb
      · rw [decItem_f64 _ _ _ _ _ _ _ _ c6] at h
        exact post_float (g := fun x => x) hd h
      by_cases c7 : b0.toNat = 0x5f ∨ b0.toNat = 0x7f ∨ b0.toNat = 0x9f ∨ b0.toNat = 0xbf
      · rw [decItem_indef _ _ _ _ _ _ _ _ c7] at h; cases h
      have hmaj : b0.toNat / 32 = 0 ∨ b0.toNat / 32 = 1 ∨ b0.toNat / 32 = 2 ∨ b0.toNat / 32 = 3 ∨
          b0.toNat / 32 = 4 ∨ b0.toNat / 32 = 5 ∨ b0.toNat / 32 = 6 ∨ b0.toNat / 32 = 7 := by omega
      rcases hmaj with m | m | m | m | m | m | m | m
      · rw [decItem_m0 _ _ _ _ _ _ _ _ m] at h
        exact post_m0 hd h
      · rw [decItem_m1 _ _ _ _ _ _ _ _ m] at h
        exact post_m1 hd h
      · rw [decItem_m2 _ _ _ _ _ _ _ _ m (by omega)] at h
        exact post_m2 hd h
      · rw [decItem_m3 _ _ _ _ _ _ _ _ m (by omega)] at h
        exact post_m3 hd h
      · rw [decItem_m4 _ _ _ _ _ _ _ _ m (by omega)] at h
        exact post_m4 (fun hd' s v s' hh => ih (depth + 1) 4 none s v s' hd' hh) h
      · rw [decItem_m5 _ _ _ _ _ _ _ _ m (by omega)] at h
        exact post_m5 (fun hd' s v s' hh => ih (depth + 1) 0 none s v s' hd' hh) h
      · rw [decItem_m6 _ _ _ _ _ _ _ _ m] at h
        exact post_m6 (fun t s v s' hh => ih depth extra (some t) s v s' hd hh) h
      · rw [decItem_m7 _ _ _ _ _ _ _ _ m c1 c2 c3 c4 c5 c6] at h; cases h

theorem decItem_itemBounded (cfg : DecCfg) (fuel depth : Nat) (extra : Int) (tag : Option Nat)
    (hd : depth ≤ cfg.maxDepth) : ItemBounded cfg depth extra (decItem cfg fuel depth extra tag) :=
  fun s v s' h => decItem_bounds cfg fuel depth extra tag s v s' hd h

/-! ### nodes are paid for -/

mutual
theorem size_le_cost : (v : DM) → (v.size : Int) ≤ cost v + 1
  | .null => by simp [DM.size, cost]
  | .bool _ => by simp [DM.size, cost]
  | .int _ => by simp [DM.size, cost]
  | .float _ => by simp [DM.size, cost]
  | .str s => by simp only [DM.size, cost]; omega
  | .bytes s => by simp only [DM.size, cost]; omega
  | .link c => by simp only [DM.size, cost]; omega
  | .list xs => by have := sizeList_le_cost xs; simp only [DM.size, cost]; omega
  | .map es => by have := sizeKVs_le_cost es; simp only [DM.size, cost]; omega
theorem sizeList_le_cost : (xs : DMs) → (xs.size : Int) ≤ costList xs
  | .nil => by simp [DMs.size, costList]
  | .cons x xs => by
    have := size_le_cost x; have := sizeList_le_cost xs; simp only [DMs.size, costList]; omega
theorem sizeKVs_le_cost : (es : DMKVs) → (es.size : Int) ≤ costKVs es
  | .nil => by simp [DMKVs.size, costKVs]
  | .cons k v es => by
    have := size_le_cost v; have := sizeKVs_le_cost es; simp only [DMKVs.size, costKVs]; omega
end

mutual
/-- Total payload the value carries: bytes of every string, byte string, link (CID + multibase byte)
    and map key. -/
def payload : DM → Nat
  | .str s => s.length
  | .bytes b => b.length
  | .link c => c.length + 1
  | .list xs => payloadList xs
  | .map es => payloadKVs es
  | _ => 0
def payloadList : DMs → Nat
  | .nil => 0
  | .cons x xs => payload x + payloadList xs
def payloadKVs : DMKVs → Nat
  | .nil => 0
  | .cons k v es => k.length + payload v + payloadKVs es
end

mutual
theorem payload_le_cost' : (v : DM) → (payload v : Int) ≤ cost v
  | .null => by simp [payload, cost]
  | .bool _ => by simp [payload, cost]
  | .int _ => by simp [payload, cost]
  | .float _ => by simp [payload, cost]
  | .str s => by simp only [payload, cost]; omega
  | .bytes s => by simp only [payload, cost]; omega
  | .link c => by simp only [payload, cost]; omega
  | .list xs => by have := payloadList_le_cost xs; simp only [payload, cost]; omega
  | .map es => by have := payloadKVs_le_cost es; simp only [payload, cost]; omega
theorem payloadList_le_cost : (xs : DMs) → (payloadList xs : Int) ≤ costList xs
  | .nil => by simp [payloadList, costList]
  | .cons x xs => by
    have := payload_le_cost' x; have := payloadList_le_cost xs; simp only [payloadList, costList]; omega
theorem payloadKVs_le_cost : (es : DMKVs) → (payloadKVs es : Int) ≤ costKVs es
  | .nil => by simp [payloadKVs, costKVs]
  | .cons k v es => by
    have := payload_le_cost' v; have := payloadKVs_le_cost es; simp only [payloadKVs, costKVs]; omega
end

/-! ### a collection header is charged before any element is read -/

theorem decItem_list_prealloc (cfg : DecCfg) (fuel depth : Nat) (extra B : Int) (n : Nat) (rest : Bytes)
    (hn : n < 2 ^ 63) (hd : depth < cfg.maxDepth) (hB : B - extra < n) :
    decItem cfg (fuel + 1) depth extra none ⟨shortestHead 4 n ++ rest, B⟩ = .error .budget := by
  have hi := hinfo_le n
  rw [shortestHead_eq, List.cons_append,
    decItem_m4 _ _ _ _ _ _ _ _ (head_byte_div 4 _ (by omega)) (by rw [head_byte_mod 4 _ (by omega)]; omega),
    head_byte_mod 4 _ (by omega), readLen_harg _ _ hn]
  simp only [bind, Except.bind]
  by_cases he : extra ≤ B
  · rw [charge_ok _ _ _ he]
    simp only []
    have : ¬ depth ≥ cfg.maxDepth := by omega
    rw [if_neg this]
    have : B - extra - (n : Int) < 0 := by omega
    simp [charge, this]
  · have : B - extra < 0 := by omega
    simp [charge, this]

theorem decItem_map_prealloc (cfg : DecCfg) (fuel depth : Nat) (extra B : Int) (n : Nat) (rest : Bytes)
    (hn : n < 2 ^ 63) (hd : depth < cfg.maxDepth) (hB : B - extra < n) :
    decItem cfg (fuel + 1) depth extra none ⟨shortestHead 5 n ++ rest, B⟩ = .error .budget := by
  have hi := hinfo_le n
  rw [shortestHead_eq, List.cons_append,
    decItem_m5 _ _ _ _ _ _ _ _ (head_byte_div 5 _ (by omega)) (by rw [head_byte_mod 5 _ (by omega)]; omega),
    head_byte_mod 5 _ (by omega), readLen_harg _ _ hn]
  simp only [bind, Except.bind]
  by_cases he : extra ≤ B
  · rw [charge_ok _ _ _ he]
    simp only []
    have : ¬ depth ≥ cfg.maxDepth := by omega
    rw [if_neg this]
    have : B - extra - (n : Int) < 0 := by omega
    simp [charge, this]
  · have : B - extra < 0 := by omega
    simp [charge, this]

/-! ### fuel irrelevance: any fuel above the input length gives the same result -/

theorem decList_congr {item item' : DS → R (DM × DS)} (L : Nat)
    (hagree : ∀ s, s.rest.length ≤ L → item s = item' s)
    (hdec : ∀ s v s', item s = .ok (v, s') → s'.rest.length < s.rest.length) :
    ∀ (n : Nat) (s : DS), s.rest.length ≤ L → decList item n s = decList item' n s
  | 0, s, _ => rfl
  | n + 1, s, hs => by
    simp only [decList]
    rw [← hagree s hs]
    cases hi : item s with
    | error e => rfl
    | ok p =>
      obtain ⟨x, s1⟩ := p
      have := hdec _ _ _ hi
      simp only [bind, Except.bind]
      rw [decList_congr L hagree hdec n s1 (by omega)]

theorem decMap_congr {cfg : DecCfg} {item item' : DS → R (DM × DS)} (L : Nat)
    (hagree : ∀ s, s.rest.length ≤ L → item s = item' s)
    (hdec : ∀ s v s', item s = .ok (v, s') → s'.rest.length < s.rest.length) :
    ∀ (n : Nat) (seen : List Bytes) (s : DS), s.rest.length ≤ L →
      decMap cfg item n seen s = decMap cfg item' n seen s
  | 0, _, s, _ => rfl
  | n + 1, seen, s, hs => by
    simp only [decMap]
    cases hk : decKey cfg s with
    | error e => rfl
    | ok p =>
      obtain ⟨k, s1⟩ := p
      obtain ⟨k1, _⟩ := decKey_bounds hk
      simp only [bind, Except.bind]
      cases hc : charge s1 (k.length + 8) with
      | error e => rfl
      | ok s2 =>
        obtain ⟨_, rfl⟩ := charge_eq_ok hc
        simp only []
        split
        · rfl
        · rw [← hagree _ (by simp only []; omega)]
          cases hi : item ⟨s1.rest, s1.budget - (k.length + 8)⟩ with
          | error e => rfl
          | ok q =>
            obtain ⟨v, s3⟩ := q
            have := hdec _ _ _ hi
            simp only [] at this ⊢
            rw [decMap_congr L hagree hdec n (k :: seen) s3 (by omega)]

theorem decItem_fuel_irrel (cfg : DecCfg) :
    ∀ (fuel fuel' depth : Nat) (extra : Int) (tag : Option Nat) (s : DS),
      s.rest.length < fuel → s.rest.length < fuel' →
      decItem cfg fuel depth extra tag s = decItem cfg fuel' depth extra tag s := by
  intro fuel
  induction fuel with
  | zero => intro fuel' depth extra tag s h; omega
  | succ fuel ih =>
    intro fuel' depth extra tag s hf hf'
    obtain ⟨fuel', rfl⟩ : ∃ f, fuel' = f + 1 := ⟨fuel' - 1, by omega⟩
    obtain ⟨rest0, B⟩ := s
    cases rest0 with
    | nil => rw [decItem_nil, decItem_nil]
    | cons b0 rest =>
      simp only [List.length_cons] at hf hf'
      have hb0 := b0.toNat_lt
      by_cases c1 : b0.toNat = 0xf6 ∨ b0.toNat = 0xf7
      · rw [decItem_null _ _ _ _ _ _ _ _ c1, decItem_null _ _ _ _ _ _ _ _ c1]
      by_cases c2 : b0.toNat = 0xf4
      · rw [decItem_false _ _ _ _ _ _ _ _ c2, decItem_false _ _ _ _ _ _ _ _ c2]
      by_cases c3 : b0.toNat = 0xf5
      · rw [decItem_true _ _ _ _ _ _ _ _ c3, decItem_true _ _ _ _ _ _ _ _ c3]
      by_cases c4 : b0.toNat = 0xf9
      · rw [decItem_f16 _ _ _ _ _ _ _ _ c4, decItem_f16 _ _ _ _ _ _ _ _ c4]
      by_cases c5 : b0.toNat = 0xfa
      · rw [decItem_f32 _ _ _ _ _ _ _ _ c5, decItem_f32 _ _ _ _ _ _ _ _ c5]
      by_cases c6 : b0.toNat = 0xfb
      · rw [decItem_f64 _ _ _ _ _ _ _ _ c6, decItem_f64 _ _ _ _ _ _ _ _ c6]
      by_cases c7 : b0.toNat = 0x5f ∨ b0.toNat = 0x7f ∨ b0.toNat = 0x9f ∨ b0.toNat = 0xbf
      · rw [decItem_indef _ _ _ _ _ _ _ _ c7, decItem_indef _ _ _ _ _ _ _ _ c7]
      have hmaj : b0.toNat / 32 = 0 ∨ b0.toNat / 32 = 1 ∨ b0.toNat / 32 = 2 ∨ b0.toNat / 32 = 3 ∨
          b0.toNat / 32 = 4 ∨ b0.toNat / 32 = 5 ∨ b0.toNat / 32 = 6 ∨ b0.toNat / 32 = 7 := by omega
      rcases hmaj with m | m | m | m | m | m | m | m
      · rw [decItem_m0 _ _ _ _ _ _ _ _ m, decItem_m0 _ _ _ _ _ _ _ _ m]
      · rw [decItem_m1 _ _ _ _ _ _ _ _ m, decItem_m1 _ _ _ _ _ _ _ _ m]
      · rw [decItem_m2 _ _ _ _ _ _ _ _ m (by omega), decItem_m2 _ _ _ _ _ _ _ _ m (by omega)]
      · rw [decItem_m3 _ _ _ _ _ _ _ _ m (by omega), decItem_m3 _ _ _ _ _ _ _ _ m (by omega)]
      · rw [decItem_m4 _ _ _ _ _ _ _ _ m (by omega), decItem_m4 _ _ _ _ _ _ _ _ m (by omega)]
        cases hrl : readLen (!cfg.relaxed) (b0.toNat % 32) rest with
        | error e => rfl
        | ok p =>
          obtain ⟨n, r⟩ := p
          have hr := readLen_len hrl
          simp only [bind, Except.bind]
          cases hc : charge ⟨r, B⟩ extra with
          | error e => rfl
          | ok s0 =>
            obtain ⟨_, rfl⟩ := charge_eq_ok hc
            simp only []
            cases tag with
            | some t => rfl
            | none =>
              simp only []
              split
              · rfl
              · rename_i hdep
                cases hc1 : charge ⟨r, B - extra⟩ n with
                | error e => rfl
                | ok s1 =>
                  obtain ⟨_, rfl⟩ := charge_eq_ok hc1
                  simp only []
                  rw [decList_congr (item' := decItem cfg fuel' (depth + 1) 4 none) r.length
                    (fun s hs => ih fuel' (depth + 1) 4 none s (by omega) (by omega))
                    (fun s v s' hh => (decItem_bounds cfg fuel (depth + 1) 4 none s v s' (by omega) hh).1)
                    n _ (Nat.le_refl _)]
      · rw [decItem_m5 _ _ _ _ _ _ _ _ m (by omega), decItem_m5 _ _ _ _ _ _ _ _ m (by omega)]
        cases hrl : readLen (!cfg.relaxed) (b0.toNat % 32) rest with
        | error e => rfl
        | ok p =>
          obtain ⟨n, r⟩ := p
          have hr := readLen_len hrl
          simp only [bind, Except.bind]
          cases hc : charge ⟨r, B⟩ extra with
          | error e => rfl
          | ok s0 =>
            obtain ⟨_, rfl⟩ := charge_eq_ok hc
            simp only []
            cases tag with
            | some t => rfl
            | none =>
              simp only []
              split
              · rfl
              · rename_i hdep
                cases hc1 : charge ⟨r, B - extra⟩ n with
                | error e => rfl
                | ok s1 =>
                  obtain ⟨_, rfl⟩ := charge_eq_ok hc1
                  simp only []
                  rw [decMap_congr (item' := decItem cfg fuel' (depth + 1) 0 none) r.length
                    (fun s hs => ih fuel' (depth + 1) 0 none s (by omega) (by omega))
                    (fun s v s' hh => (decItem_bounds cfg fuel (depth + 1) 0 none s v s' (by omega) hh).1)
                    n _ _ (Nat.le_refl _)]
      · rw [decItem_m6 _ _ _ _ _ _ _ _ m, decItem_m6 _ _ _ _ _ _ _ _ m]
        cases tag with
        | some t => rfl
        | none =>
          simp only []
          cases hrl : readLen (!cfg.relaxed) (b0.toNat % 32) rest with
          | error e => rfl
          | ok p =>
            obtain ⟨t, r⟩ := p
            have hr := readLen_len hrl
            simp only [bind, Except.bind]
            exact ih fuel' depth extra (some t) ⟨r, B⟩ (by simp only []; omega) (by simp only []; omega)
      · rw [decItem_m7 _ _ _ _ _ _ _ _ m c1 c2 c3 c4 c5 c6, decItem_m7 _ _ _ _ _ _ _ _ m c1 c2 c3 c4 c5 c6]

/-- What `decode` is made of. -/
theorem decode_ok {cfg : DecCfg} {bs : Bytes} {v : DM} (h : decode cfg bs = .ok v) :
    ∃ s', decItem cfg (bs.length + 1) 0 0 none ⟨bs, cfg.budget⟩ = .ok (v, s') := by
  unfold decode at h
  obtain ⟨⟨v', s'⟩, h1, h2⟩ := bind_ok h
  simp only [] at h2
  refine ⟨s', ?_⟩
  have : v' = v := by
    split at h2
    · simp only [pure, Except.pure] at h2; injection h2
    · split at h2
      · simp only [pure, Except.pure] at h2; injection h2
      · cases h2
  rw [← this]; exact h1

end Cbor
end Ipld
