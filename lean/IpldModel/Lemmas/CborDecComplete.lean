/-
  Completeness of the decoder: every byte string that denotes a value (and fits the limits) decodes
  to that value.  Generalised over remaining input, fuel, depth, list-entry charge and budget.
-/
import IpldModel.Lemmas.CborDecItem
namespace Ipld
namespace Cbor
open Spec

@[simp] theorem DMs.length_nil : DMs.length .nil = 0 := rfl
@[simp] theorem DMs.length_cons (x : DM) (xs : DMs) : (DMs.cons x xs).length = xs.length + 1 := by
  simp [DMs.length, DMs.toList]
@[simp] theorem DMKVs.length_nil : DMKVs.length .nil = 0 := rfl
@[simp] theorem DMKVs.length_cons (k : Bytes) (v : DM) (es : DMKVs) : (DMKVs.cons k v es).length = es.length + 1 := by
  simp [DMKVs.length, DMKVs.toList]
@[simp] theorem DMKVs.keys_nil : DMKVs.keys .nil = [] := rfl
@[simp] theorem DMKVs.keys_cons (k : Bytes) (v : DM) (es : DMKVs) : (DMKVs.cons k v es).keys = k :: es.keys := by
  simp [DMKVs.keys, DMKVs.toList]

mutual
theorem cost_nonneg : (v : DM) → 0 ≤ cost v
  | .null => by simp [cost]
  | .bool _ => by simp [cost]
  | .int _ => by simp [cost]
  | .float _ => by simp [cost]
  | .str s => by simp [cost]
  | .bytes s => by simp [cost]
  | .link c => by simp only [cost]; omega
  | .list xs => by have := costList_nonneg xs; simp only [cost]; omega
  | .map es => by have := costKVs_nonneg es; simp only [cost]; omega
theorem costList_nonneg : (xs : DMs) → 0 ≤ costList xs
  | .nil => by simp [costList]
  | .cons x xs => by
    have := cost_nonneg x; have := costList_nonneg xs; simp only [costList]; omega
theorem costKVs_nonneg : (es : DMKVs) → 0 ≤ costKVs es
  | .nil => by simp [costKVs]
  | .cons k v es => by
    have := cost_nonneg v; have := costKVs_nonneg es; simp only [costKVs]; omega
end

/-! ### scalars -/

section scalars
variable (cfg : DecCfg) (f depth : Nat) (extra B : Int) (r : Bytes)

theorem complete_uint (n : Nat) (hn : n < 2 ^ 64) (h0 : 0 ≤ extra) (hB : extra + 1 ≤ B) :
    decItem cfg (f + 1) depth extra none ⟨shortestHead 0 n ++ r, B⟩ = .ok (.int n, ⟨r, B - extra - 1⟩) := by
  rw [shortestHead_eq, List.cons_append, decItem_m0 _ _ _ _ _ _ _ _ (head_byte_div 0 n (by omega)),
    head_byte_mod 0 n (by omega), readArg_harg _ n hn]
  simp only [bind, Except.bind]
  rw [finish_ok _ _ _ _ _ h0 (by omega) hB]

theorem complete_nint (n : Nat) (hn : n < 2 ^ 63) (h0 : 0 ≤ extra) (hB : extra + 1 ≤ B) :
    decItem cfg (f + 1) depth extra none ⟨shortestHead 1 n ++ r, B⟩ =
      .ok (.int (-1 - (n : Int)), ⟨r, B - extra - 1⟩) := by
  rw [shortestHead_eq, List.cons_append, decItem_m1 _ _ _ _ _ _ _ _ (head_byte_div 1 n (by omega)),
    head_byte_mod 1 n (by omega), readArg_harg _ n (by omega)]
  simp only [bind, Except.bind]
  have e : (if cfg.negWrap then (n + 1) % 18446744073709551616 else n + 1) = n + 1 := by
    split
    · exact Nat.mod_eq_of_lt (by omega)
    · rfl
  rw [e]
  have : ¬ (n + 1 > 9223372036854775808) := by omega
  rw [if_neg this, finish_ok _ _ _ _ _ h0 (by omega) hB]
  have : (-((n + 1 : Nat) : Int)) = -1 - (n : Int) := by omega
  rw [this]

theorem checkFloat_finite (strict : Bool) (b : Nat) (h : finite64 b) :
    checkFloat strict b = .ok (.float (UInt64.ofNat b)) := by
  unfold finite64 at h
  simp [checkFloat, f64IsNaN, f64IsInf, h]

theorem complete_f64 (x : UInt64) (hx : finite64 x.toNat) (h0 : 0 ≤ extra) (hB : extra + 1 ≤ B) :
    decItem cfg (f + 1) depth extra none ⟨(0xfb :: be 8 x.toNat) ++ r, B⟩ = .ok (.float x, ⟨r, B - extra - 1⟩) := by
  rw [List.cons_append, decItem_f64 _ _ _ _ _ _ _ _ (by decide), spec_be_eq,
    take?_append' 8 _ _ (beBytes_length _ _)]
  simp only [bind, Except.bind, beVal_beBytes]
  have : x.toNat % 256 ^ 8 = x.toNat := Nat.mod_eq_of_lt (by have := x.toNat_lt; omega)
  rw [this, checkFloat_finite _ _ hx]
  simp only [UInt64.ofNat_toNat]
  rw [finish_ok _ _ _ _ _ h0 (by omega) hB]

theorem complete_f32 (x : UInt64) (hx : finite64 x.toNat) (w : Nat) (hw : w < 2 ^ 32) (hwx : f32to64 w = x.toNat)
    (h0 : 0 ≤ extra) (hB : extra + 1 ≤ B) :
    decItem cfg (f + 1) depth extra none ⟨(0xfa :: be 4 w) ++ r, B⟩ = .ok (.float x, ⟨r, B - extra - 1⟩) := by
  rw [List.cons_append, decItem_f32 _ _ _ _ _ _ _ _ (by decide), spec_be_eq,
    take?_append' 4 _ _ (beBytes_length _ _)]
  simp only [bind, Except.bind, beVal_beBytes]
  have : w % 256 ^ 4 = w := Nat.mod_eq_of_lt (by omega)
  rw [this, hwx, checkFloat_finite _ _ hx]
  simp only [UInt64.ofNat_toNat]
  rw [finish_ok _ _ _ _ _ h0 (by omega) hB]

theorem complete_f16 (x : UInt64) (hx : finite64 x.toNat) (w : Nat) (hw : w < 2 ^ 16) (hwx : f16to64 w = x.toNat)
    (h0 : 0 ≤ extra) (hB : extra + 1 ≤ B) :
    decItem cfg (f + 1) depth extra none ⟨(0xf9 :: be 2 w) ++ r, B⟩ = .ok (.float x, ⟨r, B - extra - 1⟩) := by
  rw [List.cons_append, decItem_f16 _ _ _ _ _ _ _ _ (by decide), spec_be_eq,
    take?_append' 2 _ _ (beBytes_length _ _)]
  simp only [bind, Except.bind, beVal_beBytes]
  have : w % 256 ^ 2 = w := Nat.mod_eq_of_lt (by omega)
  rw [this, hwx, checkFloat_finite _ _ hx]
  simp only [UInt64.ofNat_toNat]
  rw [finish_ok _ _ _ _ _ h0 (by omega) hB]

theorem complete_str (s : Bytes) (hs : s.length ≤ 33554432) (h0 : 0 ≤ extra) (hB : extra + s.length ≤ B) :
    decItem cfg (f + 1) depth extra none ⟨(shortestHead 3 s.length ++ s) ++ r, B⟩ =
      .ok (.str s, ⟨r, B - extra - s.length⟩) := by
  have hi := hinfo_le s.length
  rw [shortestHead_eq, List.cons_append, List.cons_append,
    decItem_m3 _ _ _ _ _ _ _ _ (head_byte_div 3 _ (by omega)) (by rw [head_byte_mod 3 _ (by omega)]; omega),
    head_byte_mod 3 _ (by omega), List.append_assoc, readLen_harg _ _ (by omega)]
  simp only [bind, Except.bind]
  have : ¬ (s.length > 33554432) := by omega
  rw [if_neg this, take?_append]
  simp only []
  rw [finish_ok _ _ _ _ _ h0 (by omega) hB]

theorem complete_bytes (s : Bytes) (hs : s.length ≤ 33554432) (_h0 : 0 ≤ extra) (hB : extra + s.length ≤ B) :
    decItem cfg (f + 1) depth extra none ⟨(shortestHead 2 s.length ++ s) ++ r, B⟩ =
      .ok (.bytes s, ⟨r, B - extra - s.length⟩) := by
  have hi := hinfo_le s.length
  rw [shortestHead_eq, List.cons_append, List.cons_append,
    decItem_m2 _ _ _ _ _ _ _ _ (head_byte_div 2 _ (by omega)) (by rw [head_byte_mod 2 _ (by omega)]; omega),
    head_byte_mod 2 _ (by omega), List.append_assoc, readLen_harg _ _ (by omega)]
  simp only [bind, Except.bind]
  have : ¬ (s.length > 33554432) := by omega
  rw [if_neg this, take?_append]
  simp only []
  rw [charge_ok _ _ _ (by omega)]
  simp only []
  rw [charge_ok _ _ _ (by omega)]
  rfl

theorem complete_link (c : Bytes) (hc : c.length + 1 ≤ 33554432) (hv : cidValid c = true)
    (hl : cfg.allowLinks = true) (_h0 : 0 ≤ extra) (hB : extra + (c.length + 1) ≤ B) :
    decItem cfg (f + 2) depth extra none
        ⟨(shortestHead 6 42 ++ (shortestHead 2 (c.length + 1) ++ (0x00 :: c))) ++ r, B⟩ =
      .ok (.link c, ⟨r, B - extra - (c.length + 1)⟩) := by
  have hi := hinfo_le (c.length + 1)
  have hi2 := hinfo_le 42
  rw [shortestHead_eq 6, List.cons_append, List.cons_append,
    decItem_m6 _ _ _ _ _ _ _ _ (head_byte_div 6 _ (by omega)),
    head_byte_mod 6 _ (by omega), List.append_assoc, readLen_harg _ _ (by omega)]
  simp only [bind, Except.bind]
  rw [shortestHead_eq 2, List.cons_append, List.cons_append,
    decItem_m2 _ _ _ _ _ _ _ _ (head_byte_div 2 _ (by omega)) (by rw [head_byte_mod 2 _ (by omega)]; omega),
    head_byte_mod 2 _ (by omega), List.append_assoc, readLen_harg _ _ (by omega)]
  simp only [bind, Except.bind]
  have : ¬ (c.length + 1 > 33554432) := by omega
  rw [if_neg this, take?_append' (c.length + 1) (0 :: c) r (by simp)]
  simp only []
  rw [charge_ok _ _ _ (by omega)]
  simp only []
  rw [charge_ok _ _ _ (by push_cast; omega)]
  simp [hl, hv]
  rfl

end scalars

theorem decKey_complete (cfg : DecCfg) (k r : Bytes) (B : Int) (hk : k.length ≤ 33554432) :
    decKey cfg ⟨(shortestHead 3 k.length ++ k) ++ r, B⟩ = .ok (k, ⟨r, B⟩) := by
  have hi := hinfo_le k.length
  have hb := head_byte 3 k.length (by omega)
  rw [shortestHead_eq, List.cons_append, List.cons_append]
  unfold decKey
  simp only []
  have h1 : ¬ ((UInt8.ofNat (32 * 3 + hinfo k.length)).toNat = 0x7f ∨ (UInt8.ofNat (32 * 3 + hinfo k.length)).toNat = 0x5f
      ∨ (UInt8.ofNat (32 * 3 + hinfo k.length)).toNat = 0x9f ∨ (UInt8.ofNat (32 * 3 + hinfo k.length)).toNat = 0xbf) := by
    omega
  rw [if_neg h1, if_pos (head_byte_div 3 _ (by omega)), head_byte_mod 3 _ (by omega), List.append_assoc,
    readLen_harg _ _ (by omega)]
  simp only [bind, Except.bind]
  have : ¬ (k.length > 33554432) := by omega
  rw [if_neg this, take?_append]
  rfl

/-! ### the generalised statement -/

mutual
/-- Recursion fuel `decItem` needs for a value: one level per nesting, one more for a link's tag. -/
def fuelNeed : DM → Nat
  | .link _ => 2
  | .list xs => fuelNeedList xs + 1
  | .map es => fuelNeedKVs es + 1
  | _ => 1
def fuelNeedList : DMs → Nat
  | .nil => 0
  | .cons x xs => max (fuelNeed x) (fuelNeedList xs)
def fuelNeedKVs : DMKVs → Nat
  | .nil => 0
  | .cons _ v es => max (fuelNeed v) (fuelNeedKVs es)
end

mutual
theorem decItem_complete (cfg : DecCfg) : (v : DM) → ∀ (b1 r : Bytes) (fuel depth : Nat) (extra B : Int),
    Denotes v b1 → fuelNeed v ≤ fuel → depth + v.depth ≤ cfg.maxDepth → 0 ≤ extra →
    extra + cost v ≤ B → B < 2 ^ 63 → maxStr v ≤ 33554432 → (hasLink v = true → cfg.allowLinks = true) →
    decItem cfg fuel depth extra none ⟨b1 ++ r, B⟩ = .ok (v, ⟨r, B - extra - cost v⟩)
  | .null, b1, r, fuel, depth, extra, B, hd, hf, _, h0, hB, _, _, _ => by
    simp only [fuelNeed] at hf
    obtain ⟨f, rfl⟩ : ∃ f, fuel = f + 1 := ⟨fuel - 1, by omega⟩
    simp only [Denotes] at hd
    simp only [cost] at hB ⊢
    rcases hd with rfl | rfl
    · rw [List.cons_append, decItem_null _ _ _ _ _ _ _ _ (by decide), finish_ok _ _ _ _ _ h0 (by omega) hB]; rfl
    · rw [List.cons_append, decItem_null _ _ _ _ _ _ _ _ (by decide), finish_ok _ _ _ _ _ h0 (by omega) hB]; rfl
  | .bool b, b1, r, fuel, depth, extra, B, hd, hf, _, h0, hB, _, _, _ => by
    simp only [fuelNeed] at hf
    obtain ⟨f, rfl⟩ : ∃ f, fuel = f + 1 := ⟨fuel - 1, by omega⟩
    simp only [Denotes] at hd
    simp only [cost] at hB ⊢
    subst hd
    cases b
    · rw [List.cons_append, decItem_false _ _ _ _ _ _ _ _ (by decide), finish_ok _ _ _ _ _ h0 (by omega) hB]; rfl
    · rw [List.cons_append, decItem_true _ _ _ _ _ _ _ _ (by decide), finish_ok _ _ _ _ _ h0 (by omega) hB]; rfl
  | .int i, b1, r, fuel, depth, extra, B, hd, hf, _, h0, hB, _, _, _ => by
    simp only [fuelNeed] at hf
    obtain ⟨f, rfl⟩ : ∃ f, fuel = f + 1 := ⟨fuel - 1, by omega⟩
    simp only [Denotes] at hd
    simp only [cost] at hB ⊢
    rcases hd with ⟨h1, h2, rfl⟩ | ⟨h1, h2, rfl⟩
    · rw [complete_uint cfg f depth extra B r i.toNat (by omega) h0 hB, Int.toNat_of_nonneg h1]
    · rw [complete_nint cfg f depth extra B r _ (by omega) h0 hB]
      have : -1 - ((-1 - i).toNat : Int) = i := by omega
      rw [this]
  | .float x, b1, r, fuel, depth, extra, B, hd, hf, _, h0, hB, _, _, _ => by
    simp only [fuelNeed] at hf
    obtain ⟨f, rfl⟩ : ∃ f, fuel = f + 1 := ⟨fuel - 1, by omega⟩
    simp only [Denotes, FloatBytes] at hd
    simp only [cost] at hB ⊢
    obtain ⟨hfin, rfl | ⟨w, hw, hwx, rfl⟩ | ⟨w, hw, hwx, rfl⟩⟩ := hd
    · exact complete_f64 cfg f depth extra B r x hfin h0 hB
    · exact complete_f32 cfg f depth extra B r x hfin w hw hwx h0 hB
    · exact complete_f16 cfg f depth extra B r x hfin w hw hwx h0 hB
  | .str s, b1, r, fuel, depth, extra, B, hd, hf, _, h0, hB, _, hs, _ => by
    simp only [fuelNeed] at hf
    obtain ⟨f, rfl⟩ : ∃ f, fuel = f + 1 := ⟨fuel - 1, by omega⟩
    simp only [Denotes] at hd
    simp only [cost] at hB ⊢
    simp only [maxStr] at hs
    subst hd
    exact complete_str cfg f depth extra B r s hs h0 hB
  | .bytes s, b1, r, fuel, depth, extra, B, hd, hf, _, h0, hB, _, hs, _ => by
    simp only [fuelNeed] at hf
    obtain ⟨f, rfl⟩ : ∃ f, fuel = f + 1 := ⟨fuel - 1, by omega⟩
    simp only [Denotes] at hd
    simp only [cost] at hB ⊢
    simp only [maxStr] at hs
    subst hd
    exact complete_bytes cfg f depth extra B r s hs h0 hB
  | .link c, b1, r, fuel, depth, extra, B, hd, hf, _, h0, hB, _, hs, hl => by
    simp only [fuelNeed] at hf
    obtain ⟨f, rfl⟩ : ∃ f, fuel = f + 2 := ⟨fuel - 2, by omega⟩
    simp only [Denotes] at hd
    simp only [cost] at hB ⊢
    simp only [maxStr] at hs
    obtain ⟨hv, rfl⟩ := hd
    exact complete_link cfg f depth extra B r c hs hv (hl rfl) h0 hB
  | .list xs, b1, r, fuel, depth, extra, B, hd, hf, hdep, h0, hB, hB63, hs, hl => by
    simp only [fuelNeed] at hf
    obtain ⟨f, rfl⟩ : ∃ f, fuel = f + 1 := ⟨fuel - 1, by omega⟩
    simp only [Denotes] at hd
    simp only [cost] at hB ⊢
    simp only [maxStr] at hs
    simp only [hasLink] at hl
    simp only [DM.depth] at hdep
    obtain ⟨body, rfl, hbody⟩ := hd
    have hc := costList_nonneg xs
    have hi := hinfo_le xs.length
    rw [shortestHead_eq, List.cons_append, List.cons_append,
      decItem_m4 _ _ _ _ _ _ _ _ (head_byte_div 4 _ (by omega)) (by rw [head_byte_mod 4 _ (by omega)]; omega),
      head_byte_mod 4 _ (by omega), List.append_assoc, readLen_harg _ _ (by omega)]
    simp only [bind, Except.bind]
    rw [charge_ok _ _ _ (by omega)]
    simp only []
    have : ¬ depth ≥ cfg.maxDepth := by omega
    rw [if_neg this, charge_ok _ _ _ (by omega)]
    simp only []
    rw [decList_complete cfg xs body r f (depth + 1) (B - extra - xs.length) hbody (by omega) (by omega)
      (by omega) (by omega) hs hl]
    simp only [pure, Except.pure, DMs.ofList_toList]
    congr 3
    omega
  | .map es, b1, r, fuel, depth, extra, B, hd, hf, hdep, h0, hB, hB63, hs, hl => by
    simp only [fuelNeed] at hf
    obtain ⟨f, rfl⟩ : ∃ f, fuel = f + 1 := ⟨fuel - 1, by omega⟩
    simp only [Denotes] at hd
    simp only [cost] at hB ⊢
    simp only [maxStr] at hs
    simp only [hasLink] at hl
    simp only [DM.depth] at hdep
    obtain ⟨hnd, body, rfl, hbody⟩ := hd
    have hc := costKVs_nonneg es
    have hi := hinfo_le es.length
    rw [shortestHead_eq, List.cons_append, List.cons_append,
      decItem_m5 _ _ _ _ _ _ _ _ (head_byte_div 5 _ (by omega)) (by rw [head_byte_mod 5 _ (by omega)]; omega),
      head_byte_mod 5 _ (by omega), List.append_assoc, readLen_harg _ _ (by omega)]
    simp only [bind, Except.bind]
    rw [charge_ok _ _ _ (by omega)]
    simp only []
    have : ¬ depth ≥ cfg.maxDepth := by omega
    rw [if_neg this, charge_ok _ _ _ (by omega)]
    simp only []
    rw [decMap_complete cfg es body r f (depth + 1) (B - extra - es.length) [] hbody hnd (by simp) (by omega)
      (by omega) (by omega) (by omega) hs hl]
    simp only [pure, Except.pure, DMKVs.ofList_toList]
    congr 3
    omega
theorem decList_complete (cfg : DecCfg) : (xs : DMs) → ∀ (body r : Bytes) (f depth : Nat) (B : Int),
    DenotesList xs body → fuelNeedList xs ≤ f → depth + xs.depth ≤ cfg.maxDepth →
    costList xs ≤ B → B < 2 ^ 63 → maxStrList xs ≤ 33554432 → (hasLinkList xs = true → cfg.allowLinks = true) →
    decList (decItem cfg f depth 4 none) xs.length ⟨body ++ r, B⟩ = .ok (xs.toList, ⟨r, B - costList xs⟩)
  | .nil, body, r, f, depth, B, hd, _, _, _, _, _, _ => by
    simp only [DenotesList] at hd
    subst hd
    simp [decList, costList, DMs.toList]
  | .cons x xs, body, r, f, depth, B, hd, hf, hdep, hB, hB63, hs, hl => by
    simp only [DenotesList] at hd
    obtain ⟨b1, b2, rfl, hx, hxs⟩ := hd
    simp only [DMs.depth] at hdep
    simp only [fuelNeedList] at hf
    simp only [costList] at hB ⊢
    simp only [maxStrList] at hs
    simp only [hasLinkList, Bool.or_eq_true] at hl
    have hc := costList_nonneg xs
    have hc' := cost_nonneg x
    simp only [DMs.length_cons, decList, DMs.toList, List.append_assoc]
    rw [decItem_complete cfg x b1 (b2 ++ r) f depth 4 B hx (by omega) (by omega) (by omega) (by omega) hB63
      (by omega) (fun h => hl (Or.inl h))]
    simp only [bind, Except.bind]
    rw [decList_complete cfg xs b2 r f depth (B - 4 - cost x) hxs (by omega) (by omega) (by omega) (by omega)
      (by omega) (fun h => hl (Or.inr h))]
    simp only [pure, Except.pure]
    congr 3
    omega
theorem decMap_complete (cfg : DecCfg) : (es : DMKVs) → ∀ (body r : Bytes) (f depth : Nat) (B : Int) (seen : List Bytes),
    DenotesKVs es body → es.keys.Nodup → (∀ k ∈ es.keys, k ∉ seen) → fuelNeedKVs es ≤ f → depth + es.depth ≤ cfg.maxDepth →
    costKVs es ≤ B → B < 2 ^ 63 → maxStrKVs es ≤ 33554432 → (hasLinkKVs es = true → cfg.allowLinks = true) →
    decMap cfg (decItem cfg f depth 0 none) es.length seen ⟨body ++ r, B⟩ = .ok (es.toList, ⟨r, B - costKVs es⟩)
  | .nil, body, r, f, depth, B, seen, hd, _, _, _, _, _, _, _, _ => by
    simp only [DenotesKVs] at hd
    subst hd
    simp [decMap, costKVs, DMKVs.toList]
  | .cons k v es, body, r, f, depth, B, seen, hd, hnd, hseen, hf, hdep, hB, hB63, hs, hl => by
    simp only [DenotesKVs] at hd
    obtain ⟨b1, b2, rfl, hv, hes⟩ := hd
    simp only [DMKVs.depth] at hdep
    simp only [fuelNeedKVs] at hf
    simp only [costKVs] at hB ⊢
    simp only [maxStrKVs] at hs
    simp only [hasLinkKVs, Bool.or_eq_true] at hl
    simp only [DMKVs.keys_cons, List.nodup_cons] at hnd
    simp only [DMKVs.keys_cons, List.mem_cons, forall_eq_or_imp] at hseen
    have hc := costKVs_nonneg es
    have hc' := cost_nonneg v
    simp only [DMKVs.length_cons, decMap, DMKVs.toList]
    rw [List.append_assoc, decKey_complete cfg k _ B (by omega)]
    simp only [bind, Except.bind]
    rw [charge_ok _ _ _ (by omega)]
    simp only []
    have hnc : seen.contains k = false := by simpa using hseen.1
    simp only [hnc, Bool.false_eq_true, if_false, List.append_assoc]
    rw [decItem_complete cfg v b1 (b2 ++ r) f depth 0 (B - (k.length + 8)) hv (by omega) (by omega) (by omega) (by omega)
      (by omega) (by omega) (fun h => hl (Or.inl h))]
    simp only []
    rw [decMap_complete cfg es b2 r f depth (B - (k.length + 8) - 0 - cost v) (k :: seen) hes hnd.2
      (by
        intro k' hk' hmem
        simp only [List.mem_cons] at hmem
        rcases hmem with rfl | hmem
        · exact hnd.1 hk'
        · exact hseen.2 k' hk' hmem)
      (by omega) (by omega) (by omega) (by omega) (by omega) (fun h => hl (Or.inr h))]
    simp only [pure, Except.pure]
    congr 3
    omega
end


/-! ### enough fuel: input length + 1 covers the nesting of any value the input denotes -/

mutual
theorem denotes_fuel : (v : DM) → ∀ bs, Denotes v bs → 1 ≤ bs.length ∧ fuelNeed v ≤ bs.length + 1
  | .null, bs, h => by
    simp only [Denotes] at h; rcases h with rfl | rfl <;> simp [fuelNeed]
  | .bool b, bs, h => by simp only [Denotes] at h; subst h; simp [fuelNeed]
  | .int i, bs, h => by
    simp only [Denotes] at h
    have := shortestHead_length_pos 0 i.toNat
    have := shortestHead_length_pos 1 (-1 - i).toNat
    rcases h with ⟨_, _, rfl⟩ | ⟨_, _, rfl⟩ <;> simp only [fuelNeed] <;> omega
  | .float x, bs, h => by
    simp only [Denotes, FloatBytes] at h
    obtain ⟨_, rfl | ⟨w, _, _, rfl⟩ | ⟨w, _, _, rfl⟩⟩ := h <;> simp [fuelNeed]
  | .str s, bs, h => by
    simp only [Denotes] at h; subst h
    have := shortestHead_length_pos 3 s.length
    simp only [fuelNeed, List.length_append]; omega
  | .bytes s, bs, h => by
    simp only [Denotes] at h; subst h
    have := shortestHead_length_pos 2 s.length
    simp only [fuelNeed, List.length_append]; omega
  | .link c, bs, h => by
    simp only [Denotes] at h; obtain ⟨_, rfl⟩ := h
    have := shortestHead_length_pos 6 42
    have := shortestHead_length_pos 2 (c.length + 1)
    simp only [fuelNeed, List.length_append]; omega
  | .list xs, bs, h => by
    simp only [Denotes] at h; obtain ⟨body, rfl, hb⟩ := h
    have := shortestHead_length_pos 4 xs.length
    have := denotesList_fuel xs body hb
    simp only [fuelNeed, List.length_append]; omega
  | .map es, bs, h => by
    simp only [Denotes] at h; obtain ⟨_, body, rfl, hb⟩ := h
    have := shortestHead_length_pos 5 es.length
    have := denotesKVs_fuel es body hb
    simp only [fuelNeed, List.length_append]; omega
theorem denotesList_fuel : (xs : DMs) → ∀ bs, DenotesList xs bs → fuelNeedList xs ≤ bs.length + 1
  | .nil, bs, _ => by simp [fuelNeedList]
  | .cons x xs, bs, h => by
    simp only [DenotesList] at h; obtain ⟨b1, b2, rfl, h1, h2⟩ := h
    have := denotes_fuel x b1 h1
    have := denotesList_fuel xs b2 h2
    simp only [fuelNeedList, List.length_append]; omega
theorem denotesKVs_fuel : (es : DMKVs) → ∀ bs, DenotesKVs es bs → fuelNeedKVs es ≤ bs.length + 1
  | .nil, bs, _ => by simp [fuelNeedKVs]
  | .cons k v es, bs, h => by
    simp only [DenotesKVs] at h; obtain ⟨b1, b2, rfl, h1, h2⟩ := h
    have := denotes_fuel v b1 h1
    have := denotesKVs_fuel es b2 h2
    simp only [fuelNeedKVs, List.length_append]; omega
end

theorem decode_complete_aux (cfg : DecCfg) (v : DM) (bs : Bytes) (hd : Denotes v bs)
    (hl : WithinLimits cfg v) (hB : cfg.budget < 2 ^ 63) : decode cfg bs = .ok v := by
  obtain ⟨h1, h2, h3, h4⟩ := hl
  have hlen := (denotes_fuel v bs hd).2
  unfold decode
  have := decItem_complete cfg v bs [] (bs.length + 1) 0 0 cfg.budget hd (by omega) (by omega) (by omega)
    (by omega) hB h3 h4
  rw [List.append_nil] at this
  rw [this]
  simp only [bind, Except.bind, List.isEmpty_nil, if_true]
  split <;> rfl

end Cbor
end Ipld
