/-
  No path is visited twice, provided at every reachable position the child segments the walk loops over are
  pairwise distinct.
-/
import IpldModel.Lemmas.WalkOrder
namespace Ipld
namespace Walk
open Sel

/-- number of visits at path `q` in a log -/
def cnt (q : Path) (es : List Event) : Nat := es.countP (isVisitAt q)

theorem cnt_load (q : Path) (c : Bytes) (es : List Event) : cnt q (.load c :: es) = cnt q es := by
  simp [cnt, isVisitAt]

theorem cnt_visitEvent (q path : Path) (n : DM) (s : S) (es : List Event) :
    cnt q (visitEvent path n s :: es) = cnt q es + (if path = q then 1 else 0) := by
  obtain ⟨m, r, h⟩ : ∃ m r, visitEvent path n s = .visit path m r := by
    unfold visitEvent; split <;> exact ⟨_, _, rfl⟩
  rw [h]
  simp only [cnt, List.countP_cons, isVisitAt, beq_iff_eq]

/-- between two states the number of visits at `q` grows by at most one, and only if `P q` -/
def Grow (P : Path → Prop) (a b : St) (q : Path) : Prop :=
  cnt q a.events ≤ cnt q b.events ∧ cnt q b.events ≤ cnt q a.events + 1 ∧ (cnt q a.events < cnt q b.events → P q)

theorem Grow.same {P : Path → Prop} {a b : St} {q : Path} (h : b.events = a.events) : Grow P a b q := by
  unfold Grow; rw [h]; exact ⟨Nat.le_refl _, Nat.le_succ _, fun h => absurd h (Nat.lt_irrefl _)⟩

theorem Grow.weaken {P R : Path → Prop} {a b : St} {q : Path} (h : Grow P a b q) (hpr : P q → R q) : Grow R a b q :=
  ⟨h.1, h.2.1, fun hlt => hpr (h.2.2 hlt)⟩

theorem Grow.comp {P P' R : Path → Prop} {a b c : St} {q : Path} (h1 : Grow P a b q) (h2 : Grow P' b c q)
    (hex : P q → P' q → False) (hp : P q → R q) (hp' : P' q → R q) : Grow R a c q := by
  obtain ⟨a1, a2, a3⟩ := h1
  obtain ⟨b1, b2, b3⟩ := h2
  refine ⟨by omega, ?_, ?_⟩
  · by_cases c1 : cnt q a.events < cnt q b.events
    · by_cases c2 : cnt q b.events < cnt q c.events
      · exact absurd (b3 c2) (fun h => hex (a3 c1) h)
      · omega
    · omega
  · intro hlt
    by_cases c1 : cnt q a.events < cnt q b.events
    · exact hp (a3 c1)
    · exact hp' (b3 (by omega))

theorem prefix_snoc_inj {path q : Path} {a b : Seg} (h1 : (path ++ [a]) <+: q) (h2 : (path ++ [b]) <+: q) : a = b := by
  have h := List.prefix_of_prefix_length_le h1 h2 (by simp)
  have := h.eq_of_length (by simp)
  have := List.append_cancel_left this
  simpa using this

theorem not_snoc_prefix_self (path : Path) (a : Seg) : ¬ (path ++ [a]) <+: path := by
  intro h
  have := h.length_le
  simp at this
  omega

theorem count_visit_paths (q : Path) (es : List Event) : ((visitsOf es).map (·.1)).count q = cnt q es := by
  induction es with
  | nil => rfl
  | cons e es ih =>
    cases e with
    | load c => rw [cnt_load, ← ih]; rfl
    | visit p m r =>
      have : visitsOf (.visit p m r :: es) = (p, m, r) :: visitsOf es := rfl
      rw [this, List.map_cons, List.count_cons, ih]
      simp only [cnt, List.countP_cons, isVisitAt]
      congr 1

/-- does the selector explore the child at this segment -/
def explored (n : DM) (s : S) (x : Seg × DM) : Bool :=
  match explore s n x.1 with
  | .ok (some _) => true
  | _ => false

theorem exploreChild_not_explored (cfg : Cfg) (fuel : Nat) (past : Bool) (path : Path) (n : DM) (s : S) (ps : Seg)
    (v : DM) (st : St) (h : explored n s (ps, v) = false) :
    (exploreChild cfg fuel past path n s ps v st).1.events = st.events := by
  cases fuel with
  | zero => rw [exploreChild_zero]
  | succ fuel =>
    rw [exploreChild_succ]
    unfold explored at h
    split
    · rfl
    · rfl
    · rfl
    · rename_i sNext hx
      simp only [hx] at h
      cases h

section
variable (cfg : Cfg) (root : DM) (s0 : S)
  (H : ∀ path n s, Reach cfg root s0 path n s → (((childList n s).filter (explored n s)).map (·.1)).Nodup)
include H

theorem grow_all (fuel : Nat) :
    (∀ past path n s st, Reach cfg root s0 path n s → ∀ q,
      Grow (fun q => path <+: q) st (walkAdv cfg fuel past path n s st).1 q) ∧
    (∀ path n s l lp st, Reach cfg root s0 path n s → (∀ x ∈ l, x ∈ childList n s) →
      ((l.filter (explored n s)).map (·.1)).Nodup → ∀ q,
      Grow (fun q => ∃ x ∈ l, explored n s x = true ∧ (path ++ [x.1]) <+: q) st
        (walkChildren cfg fuel path n s l lp st).1 q) ∧
    (∀ past path n s ps v st, Reach cfg root s0 path n s → (ps, v) ∈ childList n s → ∀ q,
      Grow (fun q => (path ++ [ps]) <+: q) st (exploreChild cfg fuel past path n s ps v st).1 q) := by
  induction fuel with
  | zero =>
    refine ⟨?_, ?_, ?_⟩
    · intros; rw [walkAdv_zero]; exact Grow.same rfl
    · intros; rw [walkChildren_zero]; exact Grow.same rfl
    · intros; rw [exploreChild_zero]; exact Grow.same rfl
  | succ fuel ih =>
    obtain ⟨ihA, ihC, ihE⟩ := ih
    refine ⟨?_, ?_, ?_⟩
    · intro past path n s st hr q
      rw [walkAdv_succ]
      cases hck : checkNode st with
      | error e => exact Grow.same rfl
      | ok st1 =>
        have he := checkNode_events hck
        simp only
        split
        · exact Grow.same he
        · have hv : Grow (fun q => q = path) st (visitSt cfg past path n s st1) q := by
            rcases visitSt_events_cases cfg past path n s st1 with ⟨h1, _⟩ | h1
            · exact Grow.same (by rw [h1, he])
            · unfold Grow
              rw [h1, cnt_visitEvent, he]
              by_cases hq : path = q
              · subst hq; simp only [if_true]; exact ⟨Nat.le_succ _, Nat.le_refl _, fun _ => trivial⟩
              · simp only [hq, if_false, Nat.add_zero]
                exact ⟨Nat.le_refl _, Nat.le_succ _, fun h => absurd h (Nat.lt_irrefl _)⟩
          split
          · exact hv.weaken (fun h => by rw [h]; exact List.prefix_refl _)
          · have hc := ihC path n s (childList n s) { past := past } (visitSt cfg past path n s st1) hr
              (fun x hx => hx) (H path n s hr) q
            refine hv.comp hc ?_ ?_ ?_
            · rintro rfl ⟨x, _, _, hx⟩; exact not_snoc_prefix_self _ _ hx
            · intro h; rw [h]; exact List.prefix_refl _
            · rintro ⟨x, _, _, hx⟩
              exact (List.prefix_append path [x.1]).trans hx
    · intro path n s l lp st hr hl hnd q
      cases l with
      | nil => rw [walkChildren_nil]; exact Grow.same rfl
      | cons x rest =>
        obtain ⟨ps, v⟩ := x
        have hrest : ∀ x ∈ rest, x ∈ childList n s := fun x hx => hl x (by simp [hx])
        have hnd2 : ((rest.filter (explored n s)).map (·.1)).Nodup := by
          rw [List.filter_cons] at hnd
          split at hnd
          · simp only [List.map_cons, List.nodup_cons] at hnd; exact hnd.2
          · exact hnd
        rw [walkChildren_cons]
        split
        · exact (ihC _ _ _ _ _ _ hr hrest hnd2 q).weaken
            (fun ⟨x, hx, hp⟩ => ⟨x, List.mem_cons_of_mem _ hx, hp⟩)
        · by_cases hxp : explored n s (ps, v) = true
          · have hhead : ps ∉ (rest.filter (explored n s)).map (·.1) := by
              rw [List.filter_cons, if_pos hxp] at hnd
              simp only [List.map_cons, List.nodup_cons] at hnd; exact hnd.1
            have h1 := ihE (loopStep cfg path lp ps).2.past path n s ps v st hr (hl _ (by simp)) q
            generalize exploreChild cfg fuel (loopStep cfg path lp ps).2.past path n s ps v st = r at h1
            obtain ⟨st', r⟩ := r
            cases r with
            | error e => exact h1.weaken (fun hp => ⟨(ps, v), by simp, hxp, hp⟩)
            | ok u =>
              cases u
              rw [andThen_ok]
              have h2 := ihC path n s rest (loopStep cfg path lp ps).2 st' hr hrest hnd2 q
              refine h1.comp h2 ?_ ?_ ?_
              · rintro hp ⟨x, hx, hxe, hp'⟩
                have := prefix_snoc_inj hp hp'
                exact hhead (by rw [this]; exact List.mem_map_of_mem (List.mem_filter.2 ⟨hx, hxe⟩))
              · intro hp; exact ⟨(ps, v), by simp, hxp, hp⟩
              · rintro ⟨x, hx, hp⟩; exact ⟨x, List.mem_cons_of_mem _ hx, hp⟩
          · have hev := exploreChild_not_explored cfg fuel (loopStep cfg path lp ps).2.past path n s ps v st
              (by simpa using hxp)
            generalize exploreChild cfg fuel (loopStep cfg path lp ps).2.past path n s ps v st = r at hev
            obtain ⟨st', r⟩ := r
            simp only at hev
            cases r with
            | error e => exact Grow.same hev
            | ok u =>
              cases u
              rw [andThen_ok]
              have h2 := ihC path n s rest (loopStep cfg path lp ps).2 st' hr hrest hnd2 q
              have h1 : Grow (fun _ => False) st st' q := Grow.same hev
              exact h1.comp h2 (fun h _ => h) (fun h => h.elim)
                (fun ⟨x, hx, hp⟩ => ⟨x, List.mem_cons_of_mem _ hx, hp⟩)
    · intro past path n s ps v st hr hmem q
      rw [exploreChild_succ]
      split
      · exact Grow.same rfl
      · exact Grow.same rfl
      · exact Grow.same rfl
      · rename_i sNext hx
        unfold enterChild
        split
        · rename_i c
          have hev := linkStep_events_cases cfg c st
          have hsome := @linkStep_some cfg c st
          generalize linkStep cfg c st = ls at hev hsome
          obtain ⟨st', r⟩ := ls
          simp only at hev hsome
          have hg : ∀ P, Grow P st st' q := by
            intro P
            rcases hev with h | h
            · exact Grow.same h
            · unfold Grow; rw [h, cnt_load]
              exact ⟨Nat.le_refl _, Nat.le_succ _, fun h => absurd h (Nat.lt_irrefl _)⟩
          cases r with
          | error e => exact hg _
          | ok o =>
            cases o with
            | none => exact hg _
            | some blk =>
              obtain ⟨h1, h2, _⟩ := hsome rfl
              simp only
              have ha := ihA past (path ++ [ps]) blk sNext st' (Reach.link hr hmem hx h1 h2) q
              exact (hg (fun _ => False)).comp ha (fun h _ => h) (fun h => h.elim) (fun h => h)
        · rename_i hnl
          exact ihA past (path ++ [ps]) v sNext st (Reach.child hr hmem hx (fun c hc => hnl c hc)) q

theorem walk_cnt_le_one (fuel : Nat) (nb lb : Option Int) (q : Path) :
    cnt q (walk cfg fuel nb lb root s0).events ≤ 1 := by
  have h := (grow_all cfg root s0 H fuel).1 false [] root s0 { nodeBudget := nb, linkBudget := lb } Reach.root q
  unfold walk
  simp only [cnt, List.countP_reverse]
  have h2 := h.2.1
  simp only [cnt, List.countP_nil] at h2
  exact h2

theorem walk_visit_paths_nodup (fuel : Nat) (nb lb : Option Int) :
    ((visitsOf (walk cfg fuel nb lb root s0).events).map (·.1)).Nodup := by
  rw [List.nodup_iff_count]
  intro q
  rw [count_visit_paths]
  exact walk_cnt_le_one cfg root s0 H fuel nb lb q

end

end Walk
end Ipld
