/-
  Helper lemmas for the DAG-JSON token round trip: the marshaller writes the tokens of the lexically
  canonical form in order (`marshalTok_eq`), `canonLex` only reorders entries, and the meaning decoder
  reads the tokens of any expressible value back (`unTok_ordToks`).
-/
import IpldModel.Lemmas.JsonSort
import IpldModel.Lemmas.JsonTok
import IpldModel.Lemmas.JsonB64
set_option linter.unusedSimpArgs false
namespace Ipld
namespace Json
open Cbor Spec

mutual
/-- tokens of a value in the entry order it has (no checks, no sorting) -/
def ordToks : DM → List JTok
  | .null => [.null]
  | .bool b => [.bool b]
  | .int i => [.int i]
  | .float f => [.float f]
  | .str s => [.str s]
  | .bytes b => [.mapOpen, .str slash, .mapOpen, .str bytesWord, .str (base64Raw b), .mapClose, .mapClose]
  | .link c => [.mapOpen, .str slash, .str (cidText c), .mapClose]
  | .list xs => .arrOpen :: (ordToksList xs ++ [.arrClose])
  | .map es => .mapOpen :: (ordToksKVs es ++ [.mapClose])
def ordToksList : DMs → List JTok
  | .nil => []
  | .cons x xs => ordToks x ++ ordToksList xs
def ordToksKVs : DMKVs → List JTok
  | .nil => []
  | .cons k v es => .str k :: (ordToks v ++ ordToksKVs es)
end

theorem ordToksKVs_eq : (es : DMKVs) →
    ordToksKVs es = flattenTokPairs (es.toList.map (fun e => (e.1, ordToks e.2)))
  | .nil => rfl
  | .cons k v es => by
    have ih := ordToksKVs_eq es
    simp only [ordToksKVs, DMKVs.toList, List.map_cons, flattenTokPairs, List.flatMap_cons] at ih ⊢
    rw [ih]; simp

mutual
theorem marshalTok_eq : (v : DM) → JsonDomain v → v.NoDup →
    marshalTok dagjsonEnc v = some (ordToks (canonLex v))
  | .null, _, _ => rfl
  | .bool _, _, _ => rfl
  | .int i, hd, _ => by simp only [JsonDomain] at hd; simp [marshalTok, hd, canonLex, ordToks]
  | .float f, hd, _ => by simp only [JsonDomain] at hd; simp [marshalTok, hd, canonLex, ordToks]
  | .str _, _, _ => rfl
  | .bytes _, _, _ => by simp [marshalTok, dagjsonEnc, canonLex, ordToks]
  | .link c, hd, _ => by simp only [JsonDomain] at hd; simp [marshalTok, dagjsonEnc, hd, canonLex, ordToks]
  | .list xs, hd, hn => by
    simp only [JsonDomain] at hd
    simp only [DM.NoDup] at hn
    simp [marshalTok, marshalList_eq xs hd hn, canonLex, ordToks]
  | .map es, hd, hn => by
    simp only [JsonDomain] at hd
    simp only [DM.NoDup] at hn
    obtain ⟨hk, hv⟩ := hn
    simp only [marshalTok, marshalKVs_eq es hd hv, canonLex, ordToks, Option.map_some]
    congr 3
    rw [ordToksKVs_eq, canonLexKVs_toList, isortLex_map (fun v => ordToks v)]
    simp only [List.map_map, Function.comp_def]
    rw [isortLex_eq_sortPairs]
    · rfl
    · simpa [keysOf, List.map_map, Function.comp_def, DMKVs.keys] using hk
theorem marshalList_eq : (xs : DMs) → JsonDomainList xs → xs.NoDup →
    marshalList dagjsonEnc xs = some (ordToksList (canonLexList xs))
  | .nil, _, _ => rfl
  | .cons x xs, hd, hn => by
    simp only [JsonDomainList] at hd
    simp only [DMs.NoDup] at hn
    simp [marshalList, marshalTok_eq x hd.1 hn.1, marshalList_eq xs hd.2 hn.2, canonLexList, ordToksList]
theorem marshalKVs_eq : (es : DMKVs) → JsonDomainKVs es → es.NoDupVals →
    marshalKVs dagjsonEnc es = some (es.toList.map (fun e => (e.1, ordToks (canonLex e.2))))
  | .nil, _, _ => rfl
  | .cons k v es, hd, hn => by
    simp only [JsonDomainKVs] at hd
    simp only [DMKVs.NoDupVals] at hn
    simp [marshalKVs, marshalTok_eq v hd.1 hn.1, marshalKVs_eq es hd.2 hn.2, DMKVs.toList]
end


mutual
theorem marshalTok_none : (v : DM) → ¬ JsonDomain v → marshalTok dagjsonEnc v = none
  | .null, h => absurd trivial h
  | .bool _, h => absurd trivial h
  | .int i, h => by simp only [JsonDomain] at h; simp [marshalTok, h]
  | .float f, h => by simp only [JsonDomain] at h; simp [marshalTok, h]
  | .str _, h => absurd trivial h
  | .bytes _, h => absurd trivial h
  | .link c, h => by simp only [JsonDomain] at h; simp [marshalTok, h]
  | .list xs, h => by
    simp only [JsonDomain] at h
    simp [marshalTok, marshalList_none xs h]
  | .map es, h => by
    simp only [JsonDomain] at h
    simp [marshalTok, marshalKVs_none es h]
theorem marshalList_none : (xs : DMs) → ¬ JsonDomainList xs → marshalList dagjsonEnc xs = none
  | .nil, h => absurd trivial h
  | .cons x xs, h => by
    simp only [JsonDomainList] at h
    by_cases hx : JsonDomain x
    · have := marshalList_none xs (fun h' => h ⟨hx, h'⟩)
      simp only [marshalList, this]
      cases marshalTok dagjsonEnc x <;> rfl
    · simp [marshalList, marshalTok_none x hx]
theorem marshalKVs_none : (es : DMKVs) → ¬ JsonDomainKVs es → marshalKVs dagjsonEnc es = none
  | .nil, h => absurd trivial h
  | .cons k v es, h => by
    simp only [JsonDomainKVs] at h
    by_cases hx : JsonDomain v
    · have := marshalKVs_none es (fun h' => h ⟨hx, h'⟩)
      simp only [marshalKVs, this]
      cases marshalTok dagjsonEnc v <;> rfl
    · simp [marshalKVs, marshalTok_none v hx]
end

/-! ### `canonLex` only reorders map entries -/

theorem insertKVLex_NoDupVals (k : Bytes) (v : DM) : (es : DMKVs) →
    ((insertKVLex k v es).NoDupVals ↔ v.NoDup ∧ es.NoDupVals)
  | .nil => by simp only [insertKVLex, DMKVs.NoDupVals]
  | .cons k' v' es => by
    simp only [insertKVLex]
    split
    · simp only [DMKVs.NoDupVals]
    · simp only [DMKVs.NoDupVals, insertKVLex_NoDupVals k v es]
      constructor
      · rintro ⟨a, b, c⟩; exact ⟨b, a, c⟩
      · rintro ⟨a, b, c⟩; exact ⟨b, a, c⟩

theorem insertKVLex_JsonDomainKVs (k : Bytes) (v : DM) : (es : DMKVs) →
    (JsonDomainKVs (insertKVLex k v es) ↔ JsonDomain v ∧ JsonDomainKVs es)
  | .nil => by simp only [insertKVLex, JsonDomainKVs]
  | .cons k' v' es => by
    simp only [insertKVLex]
    split
    · simp only [JsonDomainKVs]
    · simp only [JsonDomainKVs, insertKVLex_JsonDomainKVs k v es]
      constructor
      · rintro ⟨a, b, c⟩; exact ⟨b, a, c⟩
      · rintro ⟨a, b, c⟩; exact ⟨b, a, c⟩

theorem insertKVLex_CidTextOKKVs (k : Bytes) (v : DM) : (es : DMKVs) →
    (CidTextOKKVs (insertKVLex k v es) ↔ CidTextOK v ∧ CidTextOKKVs es)
  | .nil => by simp only [insertKVLex, CidTextOKKVs]
  | .cons k' v' es => by
    simp only [insertKVLex]
    split
    · simp only [CidTextOKKVs]
    · simp only [CidTextOKKVs, insertKVLex_CidTextOKKVs k v es]
      constructor
      · rintro ⟨a, b, c⟩; exact ⟨b, a, c⟩
      · rintro ⟨a, b, c⟩; exact ⟨b, a, c⟩

theorem insertKVLex_ExpressibleKVs (k : Bytes) (v : DM) : (es : DMKVs) →
    (ExpressibleKVs (insertKVLex k v es) ↔ Expressible v ∧ ExpressibleKVs es)
  | .nil => by simp only [insertKVLex, ExpressibleKVs]
  | .cons k' v' es => by
    simp only [insertKVLex]
    split
    · simp only [ExpressibleKVs]
    · simp only [ExpressibleKVs, insertKVLex_ExpressibleKVs k v es]
      constructor
      · rintro ⟨a, b, c⟩; exact ⟨b, a, c⟩
      · rintro ⟨a, b, c⟩; exact ⟨b, a, c⟩

theorem insertKVLex_jsonDepthKVs (k : Bytes) (v : DM) : (es : DMKVs) →
    jsonDepthKVs (insertKVLex k v es) = max (jsonDepth v) (jsonDepthKVs es)
  | .nil => by simp only [insertKVLex, jsonDepthKVs]
  | .cons k' v' es => by
    simp only [insertKVLex]
    split
    · simp only [jsonDepthKVs]
    · simp only [jsonDepthKVs, insertKVLex_jsonDepthKVs k v es]; omega

theorem insertKVLex_depth (k : Bytes) (v : DM) : (es : DMKVs) →
    (insertKVLex k v es).depth = max v.depth es.depth
  | .nil => by simp only [insertKVLex, DMKVs.depth]
  | .cons k' v' es => by
    simp only [insertKVLex]
    split
    · simp only [DMKVs.depth]
    · simp only [DMKVs.depth, insertKVLex_depth k v es]; omega

mutual
theorem canonLex_NoDup : (v : DM) → v.NoDup → (canonLex v).NoDup
  | .null, h => h
  | .bool _, h => h
  | .int _, h => h
  | .float _, h => h
  | .str _, h => h
  | .bytes _, h => h
  | .link _, h => h
  | .list xs, h => by
    simp only [DM.NoDup] at h
    simp only [canonLex, DM.NoDup]
    exact canonLexList_NoDup xs h
  | .map es, h => by
    simp only [DM.NoDup] at h
    simp only [canonLex, DM.NoDup]
    exact ⟨(canonLexKVs_keys_perm es).nodup_iff.mpr h.1, canonLexKVs_NoDupVals es h.2⟩
theorem canonLexList_NoDup : (xs : DMs) → xs.NoDup → (canonLexList xs).NoDup
  | .nil, h => h
  | .cons x xs, h => by
    simp only [DMs.NoDup] at h
    simp only [canonLexList, DMs.NoDup]
    exact ⟨canonLex_NoDup x h.1, canonLexList_NoDup xs h.2⟩
theorem canonLexKVs_NoDupVals : (es : DMKVs) → es.NoDupVals → (canonLexKVs es).NoDupVals
  | .nil, h => h
  | .cons k v es, h => by
    simp only [DMKVs.NoDupVals] at h
    simp only [canonLexKVs, insertKVLex_NoDupVals]
    exact ⟨canonLex_NoDup v h.1, canonLexKVs_NoDupVals es h.2⟩
end

mutual
theorem canonLex_JsonDomain : (v : DM) → (JsonDomain (canonLex v) ↔ JsonDomain v)
  | .null => Iff.rfl
  | .bool _ => Iff.rfl
  | .int _ => Iff.rfl
  | .float _ => Iff.rfl
  | .str _ => Iff.rfl
  | .bytes _ => Iff.rfl
  | .link _ => Iff.rfl
  | .list xs => by simp only [canonLex, JsonDomain]; exact canonLexList_JsonDomain xs
  | .map es => by simp only [canonLex, JsonDomain]; exact canonLexKVs_JsonDomain es
theorem canonLexList_JsonDomain : (xs : DMs) → (JsonDomainList (canonLexList xs) ↔ JsonDomainList xs)
  | .nil => Iff.rfl
  | .cons x xs => by
    simp only [canonLexList, JsonDomainList, canonLex_JsonDomain x, canonLexList_JsonDomain xs]
theorem canonLexKVs_JsonDomain : (es : DMKVs) → (JsonDomainKVs (canonLexKVs es) ↔ JsonDomainKVs es)
  | .nil => Iff.rfl
  | .cons k v es => by
    simp only [canonLexKVs, JsonDomainKVs, insertKVLex_JsonDomainKVs, canonLex_JsonDomain v, canonLexKVs_JsonDomain es]
end

mutual
theorem canonLex_CidTextOK : (v : DM) → (CidTextOK (canonLex v) ↔ CidTextOK v)
  | .null => Iff.rfl
  | .bool _ => Iff.rfl
  | .int _ => Iff.rfl
  | .float _ => Iff.rfl
  | .str _ => Iff.rfl
  | .bytes _ => Iff.rfl
  | .link _ => Iff.rfl
  | .list xs => by simp only [canonLex, CidTextOK]; exact canonLexList_CidTextOK xs
  | .map es => by simp only [canonLex, CidTextOK]; exact canonLexKVs_CidTextOK es
theorem canonLexList_CidTextOK : (xs : DMs) → (CidTextOKList (canonLexList xs) ↔ CidTextOKList xs)
  | .nil => Iff.rfl
  | .cons x xs => by
    simp only [canonLexList, CidTextOKList, canonLex_CidTextOK x, canonLexList_CidTextOK xs]
theorem canonLexKVs_CidTextOK : (es : DMKVs) → (CidTextOKKVs (canonLexKVs es) ↔ CidTextOKKVs es)
  | .nil => Iff.rfl
  | .cons k v es => by
    simp only [canonLexKVs, CidTextOKKVs, insertKVLex_CidTextOKKVs, canonLex_CidTextOK v, canonLexKVs_CidTextOK es]
end

mutual
theorem canonLex_jsonDepth : (v : DM) → jsonDepth (canonLex v) = jsonDepth v
  | .null => rfl
  | .bool _ => rfl
  | .int _ => rfl
  | .float _ => rfl
  | .str _ => rfl
  | .bytes _ => rfl
  | .link _ => rfl
  | .list xs => by simp only [canonLex, jsonDepth, canonLexList_jsonDepth xs]
  | .map es => by simp only [canonLex, jsonDepth, canonLexKVs_jsonDepth es]
theorem canonLexList_jsonDepth : (xs : DMs) → jsonDepthList (canonLexList xs) = jsonDepthList xs
  | .nil => rfl
  | .cons x xs => by simp only [canonLexList, jsonDepthList, canonLex_jsonDepth x, canonLexList_jsonDepth xs]
theorem canonLexKVs_jsonDepth : (es : DMKVs) → jsonDepthKVs (canonLexKVs es) = jsonDepthKVs es
  | .nil => rfl
  | .cons k v es => by
    simp only [canonLexKVs, jsonDepthKVs, insertKVLex_jsonDepthKVs, canonLex_jsonDepth v, canonLexKVs_jsonDepth es]
end

mutual
theorem canonLex_depth : (v : DM) → (canonLex v).depth = v.depth
  | .null => rfl
  | .bool _ => rfl
  | .int _ => rfl
  | .float _ => rfl
  | .str _ => rfl
  | .bytes _ => rfl
  | .link _ => rfl
  | .list xs => by simp only [canonLex, DM.depth, canonLexList_depth xs]
  | .map es => by simp only [canonLex, DM.depth, canonLexKVs_depth es]
theorem canonLexList_depth : (xs : DMs) → (canonLexList xs).depth = xs.depth
  | .nil => rfl
  | .cons x xs => by simp only [canonLexList, DMs.depth, canonLex_depth x, canonLexList_depth xs]
theorem canonLexKVs_depth : (es : DMKVs) → (canonLexKVs es).depth = es.depth
  | .nil => rfl
  | .cons k v es => by
    simp only [canonLexKVs, DMKVs.depth, insertKVLex_depth, canonLex_depth v, canonLexKVs_depth es]
end


theorem canonLex_eq_str {v : DM} {s : Bytes} (h : canonLex v = .str s) : v = .str s := by
  cases v <;> simp_all [canonLex]

theorem insertKVLex_ne_nil (k : Bytes) (v : DM) (es : DMKVs) : insertKVLex k v es ≠ .nil := by
  cases es with
  | nil => simp [insertKVLex]
  | cons k' v' es => simp only [insertKVLex]; split <;> simp

theorem insertKVLex_single {k a : Bytes} {v b : DM} {X : DMKVs} (h : insertKVLex k v X = .cons a b .nil) :
    X = .nil ∧ k = a ∧ v = b := by
  cases X with
  | nil => simp [insertKVLex] at h; exact ⟨rfl, h.1, h.2⟩
  | cons k' v' es =>
    simp only [insertKVLex] at h
    split at h
    · simp at h
    · simp at h
      exact absurd h.2.2 (insertKVLex_ne_nil _ _ _)

theorem canonLexKVs_eq_nil {es : DMKVs} (h : canonLexKVs es = .nil) : es = .nil := by
  cases es with
  | nil => rfl
  | cons k v es => simp only [canonLexKVs] at h; exact absurd h (insertKVLex_ne_nil _ _ _)

theorem canonLexKVs_single {es : DMKVs} {k : Bytes} {c : DM} (h : canonLexKVs es = .cons k c .nil) :
    ∃ v, es = .cons k v .nil ∧ canonLex v = c := by
  cases es with
  | nil => simp [canonLexKVs] at h
  | cons k' v' es' =>
    simp only [canonLexKVs] at h
    obtain ⟨h1, h2, h3⟩ := insertKVLex_single h
    have := canonLexKVs_eq_nil h1
    subst this; subst h2
    exact ⟨v', rfl, h3⟩

theorem canonLex_eq_map {v : DM} {cs : DMKVs} (h : canonLex v = .map cs) : ∃ es, v = .map es ∧ canonLexKVs es = cs := by
  cases v <;> simp_all [canonLex]

theorem reserved_canonLexKVs {es : DMKVs} (h : Reserved (canonLexKVs es)) : Reserved es := by
  rcases h with ⟨s, h⟩ | ⟨s, h⟩
  · obtain ⟨v, rfl, hv⟩ := canonLexKVs_single h
    left; exact ⟨s, by rw [canonLex_eq_str hv]⟩
  · obtain ⟨v, rfl, hv⟩ := canonLexKVs_single h
    obtain ⟨es2, rfl, h2⟩ := canonLex_eq_map hv
    obtain ⟨v2, rfl, hv2⟩ := canonLexKVs_single h2
    right; exact ⟨s, by rw [canonLex_eq_str hv2]⟩

mutual
theorem canonLex_Expressible : (v : DM) → Expressible v → Expressible (canonLex v)
  | .null, h => h
  | .bool _, h => h
  | .int _, h => h
  | .float _, h => h
  | .str _, h => h
  | .bytes _, h => h
  | .link _, h => h
  | .list xs, h => by
    simp only [Expressible] at h
    simp only [canonLex, Expressible]
    exact canonLexList_Expressible xs h
  | .map es, h => by
    simp only [Expressible] at h
    simp only [canonLex, Expressible]
    exact ⟨fun hr => h.1 (reserved_canonLexKVs hr), canonLexKVs_Expressible es h.2⟩
theorem canonLexList_Expressible : (xs : DMs) → ExpressibleList xs → ExpressibleList (canonLexList xs)
  | .nil, h => h
  | .cons x xs, h => by
    simp only [ExpressibleList] at h
    simp only [canonLexList, ExpressibleList]
    exact ⟨canonLex_Expressible x h.1, canonLexList_Expressible xs h.2⟩
theorem canonLexKVs_Expressible : (es : DMKVs) → ExpressibleKVs es → ExpressibleKVs (canonLexKVs es)
  | .nil, h => h
  | .cons k v es, h => by
    simp only [ExpressibleKVs] at h
    simp only [canonLexKVs, insertKVLex_ExpressibleKVs]
    exact ⟨canonLex_Expressible v h.1, canonLexKVs_Expressible es h.2⟩
end


macro "ct" : tactic => `(tactic| (simp [ordToks, ordToksKVs, ordToksList, classify, cls2, clsL3, clsB3, clsB4, clsB5, clsB6]))
macro "ct'" : tactic => `(tactic| (simp [*, ordToks, ordToksKVs, ordToksList, classify, cls2, clsL3, clsB3, clsB4, clsB5, clsB6]))

/-- The tokens of a map that has neither reserved shape are classified as an ordinary map. -/
theorem classify_ordToksKVs (es : DMKVs) (hr : ¬ Reserved es) (rest : List JTok) :
    ∃ n, classify true true (ordToksKVs es ++ .mapClose :: rest) = .plain n := by
  cases es with
  | nil => exact ⟨1, by ct⟩
  | cons k v es' =>
    by_cases hk : k = slash
    rotate_left
    · exact ⟨1, by ct'⟩
    subst hk
    cases v with
    | null => exact ⟨2, by ct⟩
    | bool b => exact ⟨2, by ct⟩
    | int i => exact ⟨2, by ct⟩
    | float f => exact ⟨2, by ct⟩
    | bytes b => exact ⟨3, by ct⟩
    | link c => exact ⟨3, by ct⟩
    | list xs => exact ⟨2, by ct⟩
    | str s =>
      cases es' with
      | nil => exact absurd (Or.inl ⟨s, rfl⟩) hr
      | cons k2 v2 es2 => exact ⟨3, by ct⟩
    | map m =>
      cases m with
      | nil => exact ⟨3, by ct⟩
      | cons k2 v2 m' =>
        by_cases hk2 : k2 = bytesWord
        rotate_left
        · exact ⟨3, by ct'⟩
        subst hk2
        cases v2 with
        | null => exact ⟨4, by ct⟩
        | bool b => exact ⟨4, by ct⟩
        | int i => exact ⟨4, by ct⟩
        | float f => exact ⟨4, by ct⟩
        | bytes b => exact ⟨4, by ct⟩
        | link c => exact ⟨4, by ct⟩
        | list xs => exact ⟨4, by ct⟩
        | map m2 => exact ⟨4, by ct⟩
        | str s =>
          cases m' with
          | cons k3 v3 m3 => exact ⟨5, by ct⟩
          | nil =>
            cases es' with
            | cons k3 v3 es3 => exact ⟨6, by ct⟩
            | nil => exact absurd (Or.inr ⟨s, rfl⟩) hr


theorem ordToks_head (c : DM) : ∃ t ts, ordToks c = t :: ts ∧ t ≠ .arrClose := by
  cases c <;> simp [ordToks]

theorem ordToksList_length : (xs : DMs) → xs.length ≤ (ordToksList xs).length
  | .nil => by simp [DMs.length, DMs.toList]
  | .cons x xs => by
    have ih := ordToksList_length xs
    obtain ⟨t, ts, h, _⟩ := ordToks_head x
    simp only [DMs.length, DMs.toList, ordToksList, h, List.length_cons, List.length_append] at ih ⊢
    omega

theorem ordToksKVs_length : (es : DMKVs) → es.length ≤ (ordToksKVs es).length
  | .nil => by simp [DMKVs.length, DMKVs.toList]
  | .cons k v es => by
    have ih := ordToksKVs_length es
    simp only [DMKVs.length, DMKVs.toList, ordToksKVs, List.length_cons, List.length_append] at ih ⊢
    omega

theorem unListLoop_cons_ne (item : List JTok → JR (DM × List JTok)) (lf : Nat) (t : JTok) (r : List JTok)
    (h : t ≠ .arrClose) :
    unListLoop item (lf + 1) (t :: r) = (do
      let (v, rest') ← item (t :: r)
      let (xs, rest'') ← unListLoop item lf rest'
      pure (v :: xs, rest'')) := by
  cases t <;> first | exact absurd rfl h | rfl


mutual
theorem unTok_ordToks (cfg : DecCfg) (hl : cfg.parseLinks = true) (hb : cfg.parseBytes = true) : (c : DM) → Expressible c → c.NoDup → CidTextOK c →
    ∀ (depth fuel : Nat) (rest : List JTok), jsonDepth c + depth ≤ cfg.maxDepth → c.depth < fuel →
    unTok cfg fuel depth (ordToks c ++ rest) = .ok (c, rest)
  | c, he, hn, hc, depth, 0, rest, hd, hf => by omega
  | .null, _, _, _, depth, f + 1, rest, _, _ => by simp [unTok, ordToks]
  | .bool _, _, _, _, depth, f + 1, rest, _, _ => by simp [unTok, ordToks]
  | .int _, _, _, _, depth, f + 1, rest, _, _ => by simp [unTok, ordToks]
  | .float _, _, _, _, depth, f + 1, rest, _, _ => by simp [unTok, ordToks]
  | .str _, _, _, _, depth, f + 1, rest, _, _ => by simp [unTok, ordToks]
  | .bytes b, _, _, _, depth, f + 1, rest, hd, _ => by
    simp only [jsonDepth] at hd
    have hd' : ¬ depth ≥ cfg.maxDepth := by omega
    simp only [ordToks, List.cons_append, List.nil_append]
    rw [unTok_mapOpen]
    simp [hd', hl, hb, classify, cls2, clsB3, clsB4, clsB5, clsB6, decodeB64_base64Raw]
  | .link c, _, _, hc, depth, f + 1, rest, hd, _ => by
    simp only [jsonDepth] at hd
    simp only [CidTextOK] at hc
    have hd' : ¬ depth ≥ cfg.maxDepth := by omega
    simp only [ordToks, List.cons_append, List.nil_append]
    rw [unTok_mapOpen]
    simp [hd', hl, hb, classify, cls2, clsL3, hc]
  | .list xs, he, hn, hc, depth, f + 1, rest, hd, hf => by
    simp only [jsonDepth] at hd
    simp only [Expressible] at he
    simp only [DM.NoDup] at hn
    simp only [CidTextOK] at hc
    simp only [DM.depth] at hf
    have hd' : ¬ depth ≥ cfg.maxDepth := by omega
    simp only [ordToks, List.cons_append, List.append_assoc, List.nil_append]
    have hlen := ordToksList_length xs
    have := unListLoop_ordToks cfg hl hb xs he hn hc (depth + 1) f
      ((ordToksList xs).length + (rest.length + 1) + 1) rest (by omega) (by omega) (by omega)
    simp [unTok, hd', this, bind, Except.bind, pure, Except.pure]
  | .map es, he, hn, hc, depth, f + 1, rest, hd, hf => by
    simp only [jsonDepth] at hd
    simp only [Expressible] at he
    simp only [DM.NoDup] at hn
    simp only [CidTextOK] at hc
    simp only [DM.depth] at hf
    have hd' : ¬ depth ≥ cfg.maxDepth := by omega
    simp only [ordToks, List.cons_append, List.append_assoc, List.nil_append]
    rw [unTok_mapOpen]
    obtain ⟨n, hcl⟩ := classify_ordToksKVs es he.1 rest
    have hlen := ordToksKVs_length es
    have := unMapLoop_ordToks cfg hl hb es he.2 hn.2 hn.1 hc (depth + 1) f
      ((ordToksKVs es).length + (rest.length + 1) + 1) [] rest (by omega) (by omega) (by omega) (by simp)
    simp [hd', hl, hb, hcl, asMap, this, bind, Except.bind, pure, Except.pure]
theorem unListLoop_ordToks (cfg : DecCfg) (hl : cfg.parseLinks = true) (hb : cfg.parseBytes = true) : (xs : DMs) → ExpressibleList xs → xs.NoDup → CidTextOKList xs →
    ∀ (depth fuel lf : Nat) (rest : List JTok), jsonDepthList xs + depth ≤ cfg.maxDepth → xs.depth < fuel →
    xs.length < lf →
    unListLoop (unTok cfg fuel depth) lf (ordToksList xs ++ .arrClose :: rest) = .ok (xs.toList, rest)
  | xs, _, _, _, _, _, 0, _, _, _, hlf => by omega
  | .nil, _, _, _, depth, fuel, lf + 1, rest, _, _, _ => by simp [unListLoop, ordToksList, DMs.toList]
  | .cons x xs, he, hn, hc, depth, fuel, lf + 1, rest, hd, hf, hlf => by
    simp only [jsonDepthList] at hd
    simp only [ExpressibleList] at he
    simp only [DMs.NoDup] at hn
    simp only [CidTextOKList] at hc
    simp only [DMs.depth] at hf
    simp only [DMs.length, DMs.toList, List.length_cons] at hlf
    have h1 := unTok_ordToks cfg hl hb x he.1 hn.1 hc.1 depth fuel (ordToksList xs ++ .arrClose :: rest) (by omega) (by omega)
    have h2 := unListLoop_ordToks cfg hl hb xs he.2 hn.2 hc.2 depth fuel lf rest (by omega) (by omega)
      (by simp only [DMs.length]; omega)
    obtain ⟨t, ts, hh, hne⟩ := ordToks_head x
    simp only [ordToksList, List.append_assoc]
    rw [hh] at h1 ⊢
    simp only [List.cons_append] at h1 ⊢
    rw [unListLoop_cons_ne _ _ _ _ hne, h1]
    simp [bind, Except.bind, h2, pure, Except.pure, DMs.toList]
theorem unMapLoop_ordToks (cfg : DecCfg) (hl : cfg.parseLinks = true) (hb : cfg.parseBytes = true) : (es : DMKVs) → ExpressibleKVs es → es.NoDupVals → es.keys.Nodup → CidTextOKKVs es →
    ∀ (depth fuel lf : Nat) (seen : List Bytes) (rest : List JTok), jsonDepthKVs es + depth ≤ cfg.maxDepth →
    es.depth < fuel → es.length < lf → (∀ k ∈ es.keys, k ∉ seen) →
    unMapLoop (unTok cfg fuel depth) lf seen (ordToksKVs es ++ .mapClose :: rest) = .ok (es.toList, rest)
  | es, _, _, _, _, _, _, 0, _, _, _, _, hlf, _ => by omega
  | .nil, _, _, _, _, depth, fuel, lf + 1, seen, rest, _, _, _, _ => by simp [unMapLoop, ordToksKVs, DMKVs.toList]
  | .cons k v es, he, hn, hk, hc, depth, fuel, lf + 1, seen, rest, hd, hf, hlf, hs => by
    simp only [jsonDepthKVs] at hd
    simp only [ExpressibleKVs] at he
    simp only [DMKVs.NoDupVals] at hn
    simp only [CidTextOKKVs] at hc
    simp only [DMKVs.depth] at hf
    simp only [DMKVs.length, DMKVs.toList, List.length_cons] at hlf
    rw [keys_cons, List.nodup_cons] at hk
    have h1 := unTok_ordToks cfg hl hb v he.1 hn.1 hc.1 depth fuel (ordToksKVs es ++ .mapClose :: rest) (by omega) (by omega)
    have h2 := unMapLoop_ordToks cfg hl hb es he.2 hn.2 hk.2 hc.2 depth fuel lf (k :: seen) rest (by omega) (by omega)
      (by simp only [DMKVs.length]; omega)
      (by
        intro k' hk' hm
        simp only [List.mem_cons] at hm
        rcases hm with rfl | hm
        · exact hk.1 hk'
        · exact hs k' (by rw [keys_cons]; exact List.mem_cons_of_mem _ hk') hm)
    have hks : k ∉ seen := hs k (by rw [keys_cons]; exact List.mem_cons_self)
    obtain ⟨t, ts, hh, _⟩ := ordToks_head v
    simp only [ordToksKVs, List.cons_append, List.append_assoc]
    rw [hh] at h1 ⊢
    simp only [List.cons_append] at h1 ⊢
    simp [unMapLoop, hks, h1, bind, Except.bind, h2, pure, Except.pure, DMKVs.toList]
end


mutual
theorem ordToks_depth : (c : DM) → c.depth < (ordToks c).length
  | .null => by simp [DM.depth, ordToks]
  | .bool _ => by simp [DM.depth, ordToks]
  | .int _ => by simp [DM.depth, ordToks]
  | .float _ => by simp [DM.depth, ordToks]
  | .str _ => by simp [DM.depth, ordToks]
  | .bytes _ => by simp [DM.depth, ordToks]
  | .link _ => by simp [DM.depth, ordToks]
  | .list xs => by
    have := ordToksList_depth xs
    simp only [DM.depth, ordToks, List.length_cons, List.length_append, List.length_nil]; omega
  | .map es => by
    have := ordToksKVs_depth es
    simp only [DM.depth, ordToks, List.length_cons, List.length_append, List.length_nil]; omega
theorem ordToksList_depth : (xs : DMs) → xs.depth ≤ (ordToksList xs).length
  | .nil => by simp [DMs.depth]
  | .cons x xs => by
    have h1 := ordToks_depth x
    have h2 := ordToksList_depth xs
    simp only [DMs.depth, ordToksList, List.length_append]; omega
theorem ordToksKVs_depth : (es : DMKVs) → es.depth ≤ (ordToksKVs es).length
  | .nil => by simp [DMKVs.depth]
  | .cons k v es => by
    have h1 := ordToks_depth v
    have h2 := ordToksKVs_depth es
    simp only [DMKVs.depth, ordToksKVs, List.length_cons, List.length_append]; omega
end

/-- Decoding the tokens of an expressible value (in the order it has) gives the value back. -/
theorem decodeToks_ordToks (cfg : DecCfg) (hl : cfg.parseLinks = true) (hb : cfg.parseBytes = true)
    (c : DM) (he : Expressible c) (hn : c.NoDup) (hc : CidTextOK c) (hd : jsonDepth c ≤ cfg.maxDepth) :
    decodeToks cfg (ordToks c) = .ok c := by
  have h := unTok_ordToks cfg hl hb c he hn hc 0 ((ordToks c).length + 1) [] (by omega)
    (by have := ordToks_depth c; omega)
  simp only [List.append_nil] at h
  simp only [decodeToks, h, bind, Except.bind, pure, Except.pure]
  cases cfg.dontParseBeyondEnd <;> simp

mutual
theorem jsonDepth_le : (v : DM) → jsonDepth v ≤ v.depth + 1
  | .null => by simp [jsonDepth]
  | .bool _ => by simp [jsonDepth]
  | .int _ => by simp [jsonDepth]
  | .float _ => by simp [jsonDepth]
  | .str _ => by simp [jsonDepth]
  | .bytes _ => by simp [jsonDepth, DM.depth]
  | .link _ => by simp [jsonDepth, DM.depth]
  | .list xs => by have := jsonDepthList_le xs; simp only [jsonDepth, DM.depth]; omega
  | .map es => by have := jsonDepthKVs_le es; simp only [jsonDepth, DM.depth]; omega
theorem jsonDepthList_le : (xs : DMs) → jsonDepthList xs ≤ xs.depth + 1
  | .nil => by simp [jsonDepthList]
  | .cons x xs => by
    have := jsonDepth_le x; have := jsonDepthList_le xs
    simp only [jsonDepthList, DMs.depth]; omega
theorem jsonDepthKVs_le : (es : DMKVs) → jsonDepthKVs es ≤ es.depth + 1
  | .nil => by simp [jsonDepthKVs]
  | .cons k v es => by
    have := jsonDepth_le v; have := jsonDepthKVs_le es
    simp only [jsonDepthKVs, DMKVs.depth]; omega
end

/-- permuting the entries of a map (distinct keys) does not change its lexically canonical form -/
theorem canonLex_perm_top (es es' : DMKVs) (nd : es.keys.Nodup) (p : es.toList.Perm es'.toList) :
    canonLex (.map es) = canonLex (.map es') := by
  simp only [canonLex]
  congr 1
  have h1 := canonLexKVs_toList es
  have h2 := canonLexKVs_toList es'
  have : (canonLexKVs es).toList = (canonLexKVs es').toList := by
    rw [h1, h2]
    have pm := p.map (fun e : Bytes × DM => (e.1, canonLex e.2))
    have ndm : (keysOf (es.toList.map (fun e : Bytes × DM => (e.1, canonLex e.2)))).Nodup := by
      simpa [keysOf, List.map_map, Function.comp_def, DMKVs.keys] using nd
    rw [isortLex_eq_sortPairs ndm, isortLex_eq_sortPairs (((keysOf_perm pm).nodup_iff).mp ndm)]
    exact sortPairs_perm_invariant .lexical (by decide) ndm pm
  rw [← DMKVs.ofList_toList (canonLexKVs es), ← DMKVs.ofList_toList (canonLexKVs es'), this]


end Json
end Ipld
