/-
  The heap invariant of the builder model (`HeapInv`) and its preservation by the heap-level
  building blocks of `hstep`.  Core Lean only.
-/
import IpldModel.Lemmas.HeapPrim
set_option linter.unusedSimpArgs false
set_option linter.unusedVariables false
namespace Ipld
namespace Heap

def Obj.isMap : Obj → Bool
  | .map _ _ => true
  | .list _ => false

@[simp] theorem Obj.withSlice_isMap (o : Obj) (s : Slice) : (o.withSlice s).isMap = o.isMap := by
  cases o <;> rfl

/-- a reference that may be stored in a container: a scalar, or a finished node -/
def RefOk (fin : List Nat) : NRef → Prop
  | .scalar _ => True
  | .obj id => id ∈ fin

/-- map tables hold entries, list slices hold items -/
def CellKind : Bool → Cell → Prop
  | true, .entry _ _ => True
  | false, .item _ => True
  | _, _ => False

def CellGood (fin : List Nat) (mp : Bool) (c : Cell) : Prop :=
  CellKind mp c ∧ ∀ v, c.ref = some v → RefOk fin v

theorem RefOk.mono {fin fin' : List Nat} (hs : ∀ x ∈ fin, x ∈ fin') {v : NRef} (h : RefOk fin v) :
    RefOk fin' v := by
  cases v with
  | scalar d => trivial
  | obj id => exact hs id h

theorem CellGood.mono {fin fin' : List Nat} (hs : ∀ x ∈ fin, x ∈ fin') {mp : Bool} {c : Cell}
    (h : CellGood fin mp c) : CellGood fin' mp c :=
  ⟨h.1, fun v hv => (h.2 v hv).mono hs⟩

/-- the cells a reader of object `id` sees -/
def cellsOf (h : H) (id : Nat) : List Cell := sliceCells h (objAt h id).slice

/-- the lookup map of object `id` (empty for lists) -/
def gmOf (h : H) (id : Nat) : List (Bytes × NRef) :=
  match (objAt h id).gm with
  | some m => gmAt h m
  | none => []

/-- the nesting depth below object `id` is less than `n` -/
def Bounded (h : H) : Nat → Nat → Prop
  | 0, _ => False
  | n + 1, id => ∀ c ∈ cellsOf h id, ∀ id', c.ref = some (.obj id') → Bounded h n id'

theorem Bounded.mono {h : H} : ∀ {n m : Nat} {id : Nat}, n ≤ m → Bounded h n id → Bounded h m id
  | 0, _, _, _, hb => absurd hb (by simp [Bounded])
  | n + 1, 0, _, hle, _ => by omega
  | n + 1, m + 1, id, hle, hb => by
    intro c hc id' hr
    exact Bounded.mono (by omega) (hb c hc id' hr)

/-- `Bounded` only looks at objects in a set closed under references -/
theorem Bounded.transfer {h h' : H} (P : Nat → Prop)
    (hP : ∀ id, P id → cellsOf h' id = cellsOf h id)
    (hcl : ∀ id, P id → ∀ c ∈ cellsOf h id, ∀ id', c.ref = some (.obj id') → P id') :
    ∀ (n id : Nat), P id → Bounded h n id → Bounded h' n id
  | 0, _, _, hb => absurd hb (by simp [Bounded])
  | n + 1, id, hp, hb => by
    intro c hc id' hr
    rw [hP id hp] at hc
    exact Bounded.transfer P hP hcl n id' (hcl id hp c hc id' hr) (hb c hc id' hr)

/-- The heap invariant. -/
structure HeapInv (h : H) : Prop where
  /-- finished ids denote existing objects -/
  fin_lt : ∀ id ∈ h.finished, id < h.objs.length
  /-- slice headers are consistent with their backing arrays -/
  wf : ∀ id, id < h.objs.length → SliceWf h (objAt h id).slice
  gm_lt : ∀ id m, id < h.objs.length → (objAt h id).gm = some m → m < h.gomaps.length
  /-- an unfinished object owns its backing array exclusively -/
  excl_arr : ∀ i j, i < h.objs.length → j < h.objs.length → i ≠ j → i ∉ h.finished →
      (objAt h i).slice.arr ≠ (objAt h j).slice.arr
  /-- an unfinished map object owns its lookup map exclusively -/
  excl_gm : ∀ i j m, i < h.objs.length → j < h.objs.length → i ≠ j → i ∉ h.finished →
      (objAt h i).gm = some m → (objAt h j).gm ≠ some m
  /-- visible cells have the right shape and refer only to scalars and finished nodes -/
  cells : ∀ id, id < h.objs.length → ∀ c ∈ cellsOf h id, CellGood h.finished (objAt h id).isMap c
  /-- lookup maps refer only to scalars and finished nodes -/
  gm_ok : ∀ id, id < h.objs.length → ∀ e ∈ gmOf h id, RefOk h.finished e.2
  /-- finished nodes are acyclic, of depth at most the number of finished nodes -/
  bounded : ∀ id ∈ h.finished, Bounded h h.finished.length id

theorem HeapInv.closed {h : H} (hi : HeapInv h) :
    ∀ id, id ∈ h.finished → ∀ c ∈ cellsOf h id, ∀ id', c.ref = some (.obj id') → id' ∈ h.finished := by
  intro id hid c hc id' hr
  exact (hi.cells id (hi.fin_lt id hid) c hc).2 _ hr

theorem heapInv_empty : HeapInv {} where
  fin_lt := by intro id h; cases h
  wf := by intro id h; simp at h
  gm_lt := by intro id m h; simp at h
  excl_arr := by intro i j h; simp at h
  excl_gm := by intro i j m h; simp at h
  cells := by intro id h; simp at h
  gm_ok := by intro id h; simp at h
  bounded := by intro id h; cases h

/-- object `j` looks the same in `h'` as in `h`: header, visible cells, lookup map -/
structure SameObj (h h' : H) (j : Nat) : Prop where
  obj : objAt h' j = objAt h j
  cells : cellsOf h' j = cellsOf h j
  gm : gmOf h' j = gmOf h j

theorem SameObj.refl (h : H) (j : Nat) : SameObj h h j := ⟨rfl, rfl, rfl⟩

theorem SameObj.trans {h h' h'' : H} {j : Nat} (a : SameObj h h' j) (b : SameObj h' h'' j) :
    SameObj h h'' j :=
  ⟨b.obj.trans a.obj, b.cells.trans a.cells, b.gm.trans a.gm⟩

/-! ### modifying one unfinished object -/

/-- `h'` arises from `h` by a change confined to the (unfinished) object `id`, its array and map. -/
structure Mod (h h' : H) (id : Nat) : Prop where
  objs_len : h'.objs.length = h.objs.length
  fin : h'.finished = h.finished
  gms_len : h'.gomaps.length = h.gomaps.length
  arrs_len : h.arrs.length ≤ h'.arrs.length
  arr_len : ∀ a, a < h.arrs.length → (arrAt h' a).length = (arrAt h a).length
  other : ∀ j, j < h.objs.length → j ≠ id → SameObj h h' j
  isMap : (objAt h' id).isMap = (objAt h id).isMap
  gm : (objAt h' id).gm = (objAt h id).gm
  wf : SliceWf h' (objAt h' id).slice
  arr : (objAt h' id).slice.arr = (objAt h id).slice.arr ∨ h.arrs.length ≤ (objAt h' id).slice.arr
  cells : ∀ c ∈ cellsOf h' id, CellGood h.finished (objAt h id).isMap c
  gm_ok : ∀ e ∈ gmOf h' id, RefOk h.finished e.2

theorem Mod.heapInv {h h' : H} {id : Nat} (hi : HeapInv h) (hlt : id < h.objs.length)
    (hnf : id ∉ h.finished) (hm : Mod h h' id) : HeapInv h' where
  fin_lt := by
    intro j hj; rw [hm.fin] at hj; rw [hm.objs_len]; exact hi.fin_lt j hj
  wf := by
    intro j hj; rw [hm.objs_len] at hj
    by_cases e : j = id
    · subst e; exact hm.wf
    · rw [(hm.other j hj e).obj]
      obtain ⟨h1, h2, h3⟩ := hi.wf j hj
      exact ⟨Nat.lt_of_lt_of_le h1 hm.arrs_len, h2, by rw [hm.arr_len _ h1]; exact h3⟩
  gm_lt := by
    intro j m hj hg; rw [hm.objs_len] at hj; rw [hm.gms_len]
    by_cases e : j = id
    · subst e; rw [hm.gm] at hg; exact hi.gm_lt j m hj hg
    · rw [(hm.other j hj e).obj] at hg; exact hi.gm_lt j m hj hg
  excl_arr := by
    intro i j hil hjl hne hif
    rw [hm.objs_len] at hil hjl; rw [hm.fin] at hif
    by_cases ei : i = id
    · subst ei
      have ej : j ≠ i := fun e => hne e.symm
      rw [(hm.other j hjl ej).obj]
      rcases hm.arr with ha | ha
      · rw [ha]; exact hi.excl_arr i j hil hjl hne hif
      · have := (hi.wf j hjl).1; omega
    · rw [(hm.other i hil ei).obj]
      by_cases ej : j = id
      · subst ej
        rcases hm.arr with ha | ha
        · rw [ha]; exact hi.excl_arr i j hil hjl hne hif
        · have := (hi.wf i hil).1; omega
      · rw [(hm.other j hjl ej).obj]; exact hi.excl_arr i j hil hjl hne hif
  excl_gm := by
    intro i j m hil hjl hne hif
    rw [hm.objs_len] at hil hjl; rw [hm.fin] at hif
    have ei : objAt h' i = objAt h i ∨ (i = id) := by
      by_cases e : i = id
      · exact Or.inr e
      · exact Or.inl (hm.other i hil e).obj
    have hgi : (objAt h' i).gm = (objAt h i).gm := by
      rcases ei with e | e
      · rw [e]
      · subst e; exact hm.gm
    have hgj : (objAt h' j).gm = (objAt h j).gm := by
      by_cases e : j = id
      · subst e; exact hm.gm
      · rw [(hm.other j hjl e).obj]
    rw [hgi, hgj]; exact hi.excl_gm i j m hil hjl hne hif
  cells := by
    intro j hj c hc; rw [hm.objs_len] at hj; rw [hm.fin]
    by_cases e : j = id
    · subst e; rw [hm.isMap]; exact hm.cells c hc
    · rw [(hm.other j hj e).cells] at hc; rw [(hm.other j hj e).obj]; exact hi.cells j hj c hc
  gm_ok := by
    intro j hj e he; rw [hm.objs_len] at hj; rw [hm.fin]
    by_cases ej : j = id
    · subst ej; exact hm.gm_ok e he
    · rw [(hm.other j hj ej).gm] at he; exact hi.gm_ok j hj e he
  bounded := by
    intro j hj; rw [hm.fin] at hj ⊢
    refine Bounded.transfer (· ∈ h.finished) ?_ hi.closed _ j hj (hi.bounded j hj)
    intro k hk
    have : k ≠ id := fun e => hnf (e ▸ hk)
    exact (hm.other k (hi.fin_lt k hk) this).cells

/-- `append` on the slice of object `id`, storing the new header -/
def hAppend (h : H) (id : Nat) (c : Cell) : H :=
  setObj (appendSlice h (objAt h id).slice c).1 id
    ((objAt h id).withSlice (appendSlice h (objAt h id).slice c).2.1)

theorem objAt_hAppend_self {h : H} {id : Nat} (c : Cell) (hlt : id < h.objs.length) :
    objAt (hAppend h id c) id = (objAt h id).withSlice (appendSlice h (objAt h id).slice c).2.1 := by
  unfold hAppend
  exact objAt_setObj_self _ _ (by rw [appendSlice_objs]; exact hlt)

theorem cellsOf_hAppend_self {h : H} {id : Nat} (c : Cell) (hi : HeapInv h) (hlt : id < h.objs.length) :
    cellsOf (hAppend h id c) id = cellsOf h id ++ [c] := by
  unfold cellsOf
  rw [objAt_hAppend_self c hlt, Obj.withSlice_slice]
  exact appendSlice_cells h _ c (hi.wf id hlt)

theorem hAppend_mod {h : H} {id : Nat} {c : Cell} (hi : HeapInv h) (hlt : id < h.objs.length)
    (hnf : id ∉ h.finished) (hc : CellGood h.finished (objAt h id).isMap c) :
    Mod h (hAppend h id c) id where
  objs_len := by simp [hAppend, appendSlice_objs]
  fin := by simp [hAppend, appendSlice_finished]
  gms_len := by simp [hAppend, appendSlice_gomaps]
  arrs_len := by simp only [hAppend, setObj_arrs]; exact appendSlice_arrs_length _ _ _
  arr_len := by
    intro a ha; simp only [hAppend, arrAt_setObj]; exact arrAt_appendSlice_length _ _ _ ha
  other := by
    intro j hj hne
    have ho : objAt (hAppend h id c) j = objAt h j := by
      unfold hAppend; rw [objAt_setObj_ne _ _ hne]; simp only [objAt, appendSlice_objs]
    refine ⟨ho, ?_, ?_⟩
    · unfold cellsOf; rw [ho]
      simp only [sliceCells_eq, hAppend, arrAt_setObj]
      rw [arrAt_appendSlice_ne _ _ _ (hi.wf j hj).1]
      exact fun e => hi.excl_arr id j hlt hj (fun e => hne e.symm) hnf e.symm
    · unfold gmOf; rw [ho]; simp only [gmAt, hAppend, setObj_gomaps, appendSlice_gomaps]
  isMap := by rw [objAt_hAppend_self c hlt]; simp
  gm := by rw [objAt_hAppend_self c hlt]; simp
  wf := by
    rw [objAt_hAppend_self c hlt, Obj.withSlice_slice]
    have := appendSlice_wf h _ c (hi.wf id hlt)
    exact this
  arr := by
    rw [objAt_hAppend_self c hlt, Obj.withSlice_slice]
    rcases appendSlice_arr h (objAt h id).slice c with e | e
    · exact Or.inl e
    · exact Or.inr (by omega)
  cells := by
    intro c' hc'
    rw [cellsOf_hAppend_self c hi hlt, List.mem_append] at hc'
    rcases hc' with hc' | hc'
    · exact hi.cells id hlt c' hc'
    · simp at hc'; subst hc'; exact hc
  gm_ok := by
    intro e he
    have : gmOf (hAppend h id c) id = gmOf h id := by
      unfold gmOf; rw [objAt_hAppend_self c hlt, Obj.withSlice_gm]
      simp only [gmAt, hAppend, setObj_gomaps, appendSlice_gomaps]
    rw [this] at he; exact hi.gm_ok id hlt e he

/-- store the value of the last entry of a map object and record it in the lookup map -/
def hSetLast (h : H) (t : Slice) (m : Nat) (k : Bytes) (v : NRef) : H :=
  gomapInsert (writeCell h t.arr (t.len - 1) (.entry k (some v))) m k v

theorem mem_take_setAt {l : List Cell} {i n : Nat} {x c : Cell} (h : c ∈ (setAt l i x).take n) :
    c = x ∨ c ∈ l.take n := by
  rw [List.mem_iff_getElem?] at h
  obtain ⟨j, hj⟩ := h
  rw [List.getElem?_take, getElem?_setAt] at hj
  by_cases hjn : j < n
  · rw [if_pos hjn] at hj
    split at hj
    · left; cases hj; rfl
    · right; rw [List.mem_iff_getElem?]; exact ⟨j, by rw [List.getElem?_take, if_pos hjn]; exact hj⟩
  · rw [if_neg hjn] at hj; cases hj

theorem hSetLast_mod {h : H} {id : Nat} {t : Slice} {m : Nat} {k : Bytes} {v : NRef} (hi : HeapInv h)
    (hlt : id < h.objs.length) (hnf : id ∉ h.finished) (ho : objAt h id = .map t m)
    (hv : RefOk h.finished v) : Mod h (hSetLast h t m k v) id where
  objs_len := rfl
  fin := rfl
  gms_len := by simp [hSetLast]
  arrs_len := by simp [hSetLast]
  arr_len := by intro a ha; simp only [hSetLast, arrAt_gomapInsert]; exact arrAt_writeCell_length _ _ _ _ _
  other := by
    intro j hj hne
    have hoj : objAt (hSetLast h t m k v) j = objAt h j := rfl
    refine ⟨hoj, ?_, ?_⟩
    · unfold cellsOf; rw [hoj]
      simp only [sliceCells_eq, hSetLast, arrAt_gomapInsert]
      rw [arrAt_writeCell_ne]
      have := hi.excl_arr id j hlt hj (fun e => hne e.symm) hnf
      rw [ho] at this
      exact fun e => this e.symm
    · unfold gmOf; rw [hoj]
      cases hg : (objAt h j).gm with
      | none => rfl
      | some m' =>
        simp only [hSetLast]
        rw [gmAt_gomapInsert_ne]; · rfl
        have := hi.excl_gm id j m hlt hj (fun e => hne e.symm) hnf (by rw [ho]; rfl)
        intro e; subst e; exact this hg
  isMap := rfl
  gm := rfl
  wf := by
    have hoj : objAt (hSetLast h t m k v) id = objAt h id := rfl
    rw [hoj]
    obtain ⟨h1, h2, h3⟩ := hi.wf id hlt
    refine ⟨by simpa [hSetLast] using h1, h2, ?_⟩
    simp only [hSetLast, arrAt_gomapInsert, arrAt_writeCell_length]; exact h3
  arr := Or.inl rfl
  cells := by
    intro c hc
    have hoj : objAt (hSetLast h t m k v) id = objAt h id := rfl
    unfold cellsOf at hc; rw [hoj, ho] at hc
    simp only [Obj.slice, sliceCells_eq, hSetLast, arrAt_gomapInsert] at hc
    rw [arrAt_writeCell] at hc
    split at hc
    · rcases mem_take_setAt hc with e | hc
      · subst e; rw [ho]
        refine ⟨trivial, ?_⟩
        intro w hw; simp [Cell.ref] at hw; subst hw; exact hv
      · apply hi.cells id hlt c
        unfold cellsOf; rw [ho]; exact hc
    · apply hi.cells id hlt c
      unfold cellsOf; rw [ho]; exact hc
  gm_ok := by
    intro e he
    have hoj : objAt (hSetLast h t m k v) id = objAt h id := rfl
    have hold : ∀ e ∈ gmAt h m, RefOk h.finished e.2 := by
      intro e he
      apply hi.gm_ok id hlt e
      unfold gmOf; rw [ho]; exact he
    unfold gmOf at he; rw [hoj, ho] at he
    simp only [Obj.gm, hSetLast] at he
    rw [gmAt_gomapInsert] at he
    split at he
    · rcases List.mem_append.1 he with he | he
      · exact hold e (List.mem_filter.1 he).1
      · simp at he; subst he; exact hv
    · exact hold e he

/-! ### marking an object finished -/

def hFinish (h : H) (id : Nat) : H := { h with finished := id :: h.finished }

theorem Bounded.congr {h h' : H} (ho : h'.objs = h.objs) (ha : h'.arrs = h.arrs) :
    ∀ (n id : Nat), Bounded h n id → Bounded h' n id
  | 0, _, hb => absurd hb (by simp [Bounded])
  | n + 1, id, hb => by
    intro c hc id' hr
    have : cellsOf h' id = cellsOf h id := by
      simp only [cellsOf, sliceCells, objAt, ho, ha]
    rw [this] at hc
    exact Bounded.congr ho ha n id' (hb c hc id' hr)

theorem hFinish_inv {h : H} {id : Nat} (hi : HeapInv h) (hlt : id < h.objs.length) :
    HeapInv (hFinish h id) where
  fin_lt := by
    intro j hj
    rcases List.mem_cons.1 hj with e | hj
    · subst e; exact hlt
    · exact hi.fin_lt j hj
  wf := hi.wf
  gm_lt := hi.gm_lt
  excl_arr := by
    intro i j hil hjl hne hif
    exact hi.excl_arr i j hil hjl hne (fun hh => hif (List.mem_cons_of_mem _ hh))
  excl_gm := by
    intro i j m hil hjl hne hif
    exact hi.excl_gm i j m hil hjl hne (fun hh => hif (List.mem_cons_of_mem _ hh))
  cells := by
    intro j hj c hc
    exact (hi.cells j hj c hc).mono (fun x hx => List.mem_cons_of_mem _ hx)
  gm_ok := by
    intro j hj e he
    exact (hi.gm_ok j hj e he).mono (fun x hx => List.mem_cons_of_mem _ hx)
  bounded := by
    intro j hj
    have : Bounded h (h.finished.length + 1) j := by
      rcases List.mem_cons.1 hj with e | hj
      · subst e
        intro c hc id' hr
        exact hi.bounded id' ((hi.cells j hlt c hc).2 _ hr)
      · exact (hi.bounded j hj).mono (Nat.le_succ _)
    exact Bounded.congr (h := h) (h' := hFinish h id) rfl rfl _ _ this

/-! ### allocating a fresh container -/

def hNewMap (h : H) (cap : Nat) : H :=
  { objs := h.objs ++ [.map { arr := h.arrs.length, len := 0, cap := cap } h.gomaps.length],
    arrs := h.arrs ++ [List.replicate cap .empty],
    gomaps := h.gomaps ++ [[]],
    finished := h.finished }

def hNewList (h : H) (cap : Nat) : H :=
  { objs := h.objs ++ [.list { arr := h.arrs.length, len := 0, cap := cap }],
    arrs := h.arrs ++ [List.replicate cap .empty],
    gomaps := h.gomaps,
    finished := h.finished }

/-- `h'` extends `h` by one object; nothing that existed changes. -/
structure Ext (h h' : H) (o : Obj) : Prop where
  objs : h'.objs = h.objs ++ [o]
  arrs : ∃ x, h'.arrs = h.arrs ++ x
  gms : ∃ x, h'.gomaps = h.gomaps ++ x

theorem Ext.arrAt_old {h h' : H} {o : Obj} (e : Ext h h' o) {a : Nat} (ha : a < h.arrs.length) :
    arrAt h' a = arrAt h a := by
  obtain ⟨x, hx⟩ := e.arrs
  simp only [Heap.arrAt, hx]; exact getD_append_lt _ _ _ ha

theorem Ext.gmAt_old {h h' : H} {o : Obj} (e : Ext h h' o) {m : Nat} (hm : m < h.gomaps.length) :
    gmAt h' m = gmAt h m := by
  obtain ⟨x, hx⟩ := e.gms
  simp only [Heap.gmAt, hx]; exact getD_append_lt _ _ _ hm

theorem Ext.objAt_old {h h' : H} {o : Obj} (e : Ext h h' o) {j : Nat} (hj : j < h.objs.length) :
    objAt h' j = objAt h j := by
  simp only [Heap.objAt, e.objs]; exact getD_append_lt _ _ _ hj

theorem Ext.objAt_new {h h' : H} {o : Obj} (e : Ext h h' o) : objAt h' h.objs.length = o := by
  simp only [Heap.objAt, e.objs]; exact getD_append_len _ _ _

theorem Ext.objs_len {h h' : H} {o : Obj} (e : Ext h h' o) : h'.objs.length = h.objs.length + 1 := by
  rw [e.objs]; simp

theorem Ext.arrs_len {h h' : H} {o : Obj} (e : Ext h h' o) : h.arrs.length ≤ h'.arrs.length := by
  obtain ⟨x, hx⟩ := e.arrs; rw [hx]; simp

theorem Ext.gms_len {h h' : H} {o : Obj} (e : Ext h h' o) : h.gomaps.length ≤ h'.gomaps.length := by
  obtain ⟨x, hx⟩ := e.gms; rw [hx]; simp

theorem Ext.same {h h' : H} {o : Obj} (e : Ext h h' o) (hi : HeapInv h) {j : Nat}
    (hj : j < h.objs.length) : SameObj h h' j := by
  have ho := e.objAt_old hj
  refine ⟨ho, ?_, ?_⟩
  · unfold cellsOf; rw [ho]; simp only [sliceCells_eq]; rw [e.arrAt_old (hi.wf j hj).1]
  · unfold gmOf; rw [ho]
    cases hg : (objAt h j).gm with
    | none => rfl
    | some m => exact e.gmAt_old (hi.gm_lt j m hj hg)

theorem Ext.lt_cases {h h' : H} {o : Obj} (e : Ext h h' o) {j : Nat} (hj : j < h'.objs.length) :
    j < h.objs.length ∨ j = h.objs.length := by
  rw [e.objs_len] at hj; omega

/-- extending the heap by a fresh object that owns a fresh array (and map) keeps the invariant -/
theorem Ext.heapInv_fresh {h h' : H} {o : Obj} (e : Ext h h' o) (hi : HeapInv h)
    (hf : h'.finished = h.finished)
    (hwf : SliceWf h' o.slice) (harr : h.arrs.length ≤ o.slice.arr) (hlen : o.slice.len = 0)
    (hgm : ∀ m, o.gm = some m → h.gomaps.length ≤ m ∧ m < h'.gomaps.length)
    (hgn : gmOf h' h.objs.length = []) : HeapInv h' where
  fin_lt := by
    intro j hj; rw [hf] at hj; rw [e.objs_len]; exact Nat.lt_succ_of_lt (hi.fin_lt j hj)
  wf := by
    intro j hj
    rcases e.lt_cases hj with hj | hj
    · rw [e.objAt_old hj]
      obtain ⟨h1, h2, h3⟩ := hi.wf j hj
      exact ⟨Nat.lt_of_lt_of_le h1 e.arrs_len, h2, by rw [e.arrAt_old h1]; exact h3⟩
    · subst hj; rw [e.objAt_new]; exact hwf
  gm_lt := by
    intro j m hj hg
    rcases e.lt_cases hj with hj | hj
    · rw [e.objAt_old hj] at hg; exact Nat.lt_of_lt_of_le (hi.gm_lt j m hj hg) e.gms_len
    · subst hj; rw [e.objAt_new] at hg; exact (hgm m hg).2
  excl_arr := by
    intro i j hil hjl hne hif; rw [hf] at hif
    rcases e.lt_cases hil with hil | hil <;> rcases e.lt_cases hjl with hjl | hjl
    · rw [e.objAt_old hil, e.objAt_old hjl]; exact hi.excl_arr i j hil hjl hne hif
    · subst hjl; rw [e.objAt_old hil, e.objAt_new]; have := (hi.wf i hil).1; omega
    · subst hil; rw [e.objAt_old hjl, e.objAt_new]; have := (hi.wf j hjl).1; omega
    · omega
  excl_gm := by
    intro i j m hil hjl hne hif hg; rw [hf] at hif
    rcases e.lt_cases hil with hil | hil <;> rcases e.lt_cases hjl with hjl | hjl
    · rw [e.objAt_old hil] at hg; rw [e.objAt_old hjl]; exact hi.excl_gm i j m hil hjl hne hif hg
    · subst hjl; rw [e.objAt_old hil] at hg; rw [e.objAt_new]
      intro hg'; have := hi.gm_lt i m hil hg; have := (hgm m hg').1; omega
    · subst hil; rw [e.objAt_new] at hg; rw [e.objAt_old hjl]
      intro hg'; have := hi.gm_lt j m hjl hg'; have := (hgm m hg).1; omega
    · omega
  cells := by
    intro j hj c hc; rw [hf]
    rcases e.lt_cases hj with hj | hj
    · rw [(e.same hi hj).cells] at hc; rw [e.objAt_old hj]; exact hi.cells j hj c hc
    · subst hj; unfold cellsOf at hc; rw [e.objAt_new, sliceCells_eq, hlen] at hc; simp at hc
  gm_ok := by
    intro j hj x hx; rw [hf]
    rcases e.lt_cases hj with hj | hj
    · rw [(e.same hi hj).gm] at hx; exact hi.gm_ok j hj x hx
    · subst hj; rw [hgn] at hx; cases hx
  bounded := by
    intro j hj; rw [hf] at hj ⊢
    refine Bounded.transfer (· ∈ h.finished) ?_ hi.closed _ j hj (hi.bounded j hj)
    intro k hk
    exact (e.same hi (hi.fin_lt k hk)).cells

theorem hNewMap_ext (h : H) (cap : Nat) :
    Ext h (hNewMap h cap) (.map { arr := h.arrs.length, len := 0, cap := cap } h.gomaps.length) :=
  ⟨rfl, ⟨_, rfl⟩, ⟨_, rfl⟩⟩

theorem hNewList_ext (h : H) (cap : Nat) :
    Ext h (hNewList h cap) (.list { arr := h.arrs.length, len := 0, cap := cap }) :=
  ⟨rfl, ⟨_, rfl⟩, ⟨[], by simp [hNewList]⟩⟩

theorem hNewMap_inv {h : H} (cap : Nat) (hi : HeapInv h) : HeapInv (hNewMap h cap) := by
  refine (hNewMap_ext h cap).heapInv_fresh hi rfl ?_ (Nat.le_refl _) rfl ?_ ?_
  · refine ⟨by simp [hNewMap, Obj.slice], Nat.zero_le _, ?_⟩
    simp only [Obj.slice, arrAt, hNewMap]
    rw [getD_append_len]; simp
  · intro m hm; simp only [Obj.gm, Option.some.injEq] at hm; subst hm
    simp [hNewMap]
  · unfold gmOf; rw [(hNewMap_ext h cap).objAt_new]
    simp only [Obj.gm, gmAt, hNewMap]; rw [getD_append_len]

theorem hNewList_inv {h : H} (cap : Nat) (hi : HeapInv h) : HeapInv (hNewList h cap) := by
  refine (hNewList_ext h cap).heapInv_fresh hi rfl ?_ (Nat.le_refl _) rfl ?_ ?_
  · refine ⟨by simp [hNewList, Obj.slice], Nat.zero_le _, ?_⟩
    simp only [Obj.slice, arrAt, hNewList]
    rw [getD_append_len]; simp
  · intro m hm; simp [Obj.gm] at hm
  · unfold gmOf; rw [(hNewList_ext h cap).objAt_new]; rfl

/-! ### the shortcut: a fresh finished object with a copy of a finished object's header -/

def hCopy (h : H) (src : Nat) : H :=
  { h with objs := h.objs ++ [objAt h src], finished := h.objs.length :: h.finished }

theorem hCopy_ext (h : H) (src : Nat) : Ext h (hCopy h src) (objAt h src) :=
  ⟨rfl, ⟨[], by simp [hCopy]⟩, ⟨[], by simp [hCopy]⟩⟩

theorem hCopy_inv {h : H} {src : Nat} (hi : HeapInv h) (hs : src ∈ h.finished) :
    HeapInv (hCopy h src) := by
  have e := hCopy_ext h src
  have hsl := hi.fin_lt src hs
  have hfin : (hCopy h src).finished = h.objs.length :: h.finished := rfl
  have hcn : cellsOf (hCopy h src) h.objs.length = cellsOf h src := by
    unfold cellsOf; rw [e.objAt_new]; simp only [sliceCells_eq]; rw [e.arrAt_old (hi.wf src hsl).1]
  exact {
    fin_lt := by
      intro j hj; rw [e.objs_len]
      rcases List.mem_cons.1 hj with hj | hj
      · omega
      · exact Nat.lt_succ_of_lt (hi.fin_lt j hj)
    wf := by
      intro j hj
      have key : ∀ i, i < h.objs.length → SliceWf (hCopy h src) (objAt h i).slice := by
        intro i hil
        obtain ⟨h1, h2, h3⟩ := hi.wf i hil
        exact ⟨Nat.lt_of_lt_of_le h1 e.arrs_len, h2, by rw [e.arrAt_old h1]; exact h3⟩
      rcases e.lt_cases hj with hj | hj
      · rw [e.objAt_old hj]; exact key j hj
      · subst hj; rw [e.objAt_new]; exact key src hsl
    gm_lt := by
      intro j m hj hg
      rcases e.lt_cases hj with hj | hj
      · rw [e.objAt_old hj] at hg; exact hi.gm_lt j m hj hg
      · subst hj; rw [e.objAt_new] at hg; exact hi.gm_lt src m hsl hg
    excl_arr := by
      intro i j hil hjl hne hif
      have hif' : i ∉ h.finished := fun hh => hif (List.mem_cons_of_mem _ hh)
      have hin : i ≠ h.objs.length := fun hh => hif (hh ▸ List.mem_cons_self ..)
      have hil' : i < h.objs.length := by
        rcases e.lt_cases hil with h1 | h1
        · exact h1
        · exact absurd h1 hin
      rw [e.objAt_old hil']
      rcases e.lt_cases hjl with hjl | hjl
      · rw [e.objAt_old hjl]; exact hi.excl_arr i j hil' hjl hne hif'
      · subst hjl; rw [e.objAt_new]
        exact hi.excl_arr i src hil' hsl (fun hh => hif' (hh ▸ hs)) hif'
    excl_gm := by
      intro i j m hil hjl hne hif hg
      have hif' : i ∉ h.finished := fun hh => hif (List.mem_cons_of_mem _ hh)
      have hin : i ≠ h.objs.length := fun hh => hif (hh ▸ List.mem_cons_self ..)
      have hil' : i < h.objs.length := by
        rcases e.lt_cases hil with h1 | h1
        · exact h1
        · exact absurd h1 hin
      rw [e.objAt_old hil'] at hg
      rcases e.lt_cases hjl with hjl | hjl
      · rw [e.objAt_old hjl]; exact hi.excl_gm i j m hil' hjl hne hif' hg
      · subst hjl; rw [e.objAt_new]
        exact hi.excl_gm i src m hil' hsl (fun hh => hif' (hh ▸ hs)) hif' hg
    cells := by
      intro j hj c hc
      rcases e.lt_cases hj with hj | hj
      · rw [(e.same hi hj).cells] at hc; rw [e.objAt_old hj]
        exact (hi.cells j hj c hc).mono (fun x hx => List.mem_cons_of_mem _ hx)
      · subst hj; rw [hcn] at hc; rw [e.objAt_new]
        exact (hi.cells src hsl c hc).mono (fun x hx => List.mem_cons_of_mem _ hx)
    gm_ok := by
      intro j hj x hx
      rcases e.lt_cases hj with hj | hj
      · rw [(e.same hi hj).gm] at hx
        exact (hi.gm_ok j hj x hx).mono (fun x hx => List.mem_cons_of_mem _ hx)
      · subst hj
        have : gmOf (hCopy h src) h.objs.length = gmOf h src := by
          unfold gmOf; rw [e.objAt_new]; rfl
        rw [this] at hx
        exact (hi.gm_ok src hsl x hx).mono (fun x hx => List.mem_cons_of_mem _ hx)
    bounded := by
      intro j hj
      have tr : ∀ k, k ∈ h.finished → Bounded (hCopy h src) h.finished.length k := by
        intro k hk
        refine Bounded.transfer (· ∈ h.finished) ?_ hi.closed _ k hk (hi.bounded k hk)
        intro k' hk'; exact (e.same hi (hi.fin_lt k' hk')).cells
      show Bounded (hCopy h src) (h.finished.length + 1) j
      rcases List.mem_cons.1 hj with hj | hj
      · subst hj
        intro c hc id' hr
        rw [hcn] at hc
        exact tr id' (hi.closed src hs c hc id' hr)
      · exact (tr j hj).mono (Nat.le_succ _) }

end Heap
end Ipld
