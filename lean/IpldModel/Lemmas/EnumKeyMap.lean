/-
  Helper lemmas for the enum-keyed typed map model (Model/EnumKeyMap.lean).  The property theorems are in
  Props/C08enumkeys.lean and Props/C09enumkeys.lean.
-/
import IpldModel.Model.EnumKeyMap
namespace Ipld.EnumKey
open Ipld

/-! ### the enum's two tables -/

theorem isMember_iff (e : EnumTy) (s : Bytes) : isMember e s = true ↔ s ∈ names e := by
  simp [isMember]

theorem memberOfRepr_mem {e : EnumTy} {s n : Bytes} (h : memberOfRepr e s = some n) : (n, s) ∈ e := by
  induction e with
  | nil => simp [memberOfRepr] at h
  | cons p e ih =>
    obtain ⟨n', r⟩ := p
    simp only [memberOfRepr] at h
    by_cases hr : r = s
    · simp [hr] at h; simp [h, hr]
    · simp [hr] at h; exact List.mem_cons_of_mem _ (ih h)

theorem memberOfRepr_name {e : EnumTy} {s n : Bytes} (h : memberOfRepr e s = some n) : n ∈ names e :=
  List.mem_map.2 ⟨(n, s), memberOfRepr_mem h, rfl⟩

theorem memberOfRepr_isSome_iff (e : EnumTy) (s : Bytes) : (memberOfRepr e s).isSome = true ↔ s ∈ reprs e := by
  induction e with
  | nil => simp [memberOfRepr, reprs]
  | cons p e ih =>
    obtain ⟨n', r⟩ := p
    by_cases hr : r = s
    · simp [memberOfRepr, reprs, hr]
    · have hr' : ¬ s = r := fun h => hr h.symm
      simp only [reprs] at ih
      simp [memberOfRepr, reprs, hr, hr', ih]

theorem memberOfRepr_none_of_not_repr {e : EnumTy} {s : Bytes} (h : s ∉ reprs e) : memberOfRepr e s = none := by
  cases hm : memberOfRepr e s with
  | none => rfl
  | some n => exact absurd ((memberOfRepr_isSome_iff e s).1 (by simp [hm])) h

theorem reprOf_mem {e : EnumTy} {k : Bytes} (h : k ∈ names e) : reprOf e k ∈ reprs e := by
  induction e with
  | nil => simp [names] at h
  | cons p e ih =>
    obtain ⟨n, r⟩ := p
    by_cases hn : n = k
    · simp [reprOf, reprs, hn]
    · have : k ∈ names e := by
        simp only [names, List.map_cons, List.mem_cons] at h
        rcases h with h | h
        · exact absurd h.symm hn
        · exact h
      have := ih this
      simp only [reprs] at this
      simp [reprOf, reprs, hn, this]

/-- distinct representation strings: translating a member's representation back gives the member -/
theorem memberOfRepr_reprOf {e : EnumTy} (hr : (reprs e).Nodup) {k : Bytes} (h : k ∈ names e) :
    memberOfRepr e (reprOf e k) = some k := by
  induction e with
  | nil => simp [names] at h
  | cons p e ih =>
    obtain ⟨n, r⟩ := p
    have hr' : r ∉ reprs e ∧ (reprs e).Nodup := by simpa [reprs] using hr
    by_cases hn : n = k
    · simp [reprOf, memberOfRepr, hn]
    · have hk : k ∈ names e := by
        simp only [names, List.map_cons, List.mem_cons] at h
        rcases h with h | h
        · exact absurd h.symm hn
        · exact h
      have hne : ¬ r = reprOf e k := fun h => hr'.1 (h ▸ reprOf_mem hk)
      simp [reprOf, memberOfRepr, hn, hne, ih hr'.2 hk]

/-- distinct names: a member has one representation string -/
theorem reprOf_of_mem {e : EnumTy} (hn : (names e).Nodup) {n s : Bytes} (h : (n, s) ∈ e) : reprOf e n = s := by
  induction e with
  | nil => simp at h
  | cons p e ih =>
    obtain ⟨n', r⟩ := p
    have hn' : n' ∉ names e ∧ (names e).Nodup := by simpa [names] using hn
    simp only [List.mem_cons, Prod.mk.injEq] at h
    rcases h with ⟨h1, h2⟩ | h
    · simp [reprOf, h1, h2]
    · have : ¬ n' = n := fun hh => hn'.1 (hh ▸ List.mem_map.2 ⟨(n, s), h, rfl⟩)
      simp [reprOf, this, ih hn'.2 h]

theorem reprOf_memberOfRepr {e : EnumTy} (hn : (names e).Nodup) {s n : Bytes} (h : memberOfRepr e s = some n) :
    reprOf e n = s :=
  reprOf_of_mem hn (memberOfRepr_mem h)

/-- distinct names: two representation strings of one member are one string -/
theorem memberOfRepr_inj {e : EnumTy} (hn : (names e).Nodup) {s₁ s₂ n : Bytes}
    (h₁ : memberOfRepr e s₁ = some n) (h₂ : memberOfRepr e s₂ = some n) : s₁ = s₂ := by
  rw [← reprOf_memberOfRepr hn h₁, ← reprOf_memberOfRepr hn h₂]

/-- distinct representation strings: two members with one representation string are one member -/
theorem reprOf_inj {e : EnumTy} (hr : (reprs e).Nodup) {a b : Bytes} (ha : a ∈ names e) (hb : b ∈ names e)
    (h : reprOf e a = reprOf e b) : a = b := by
  have h1 := memberOfRepr_reprOf hr ha
  rw [h, memberOfRepr_reprOf hr hb] at h1
  exact (Option.some.inj h1).symm

theorem resolve_name {lvl : Level} {e : EnumTy} {s n : Bytes} (h : resolve lvl e s = some n) : n ∈ names e := by
  cases lvl with
  | type =>
    simp only [resolve] at h
    by_cases hm : isMember e s = true
    · simp [hm] at h; exact h ▸ (isMember_iff e s).1 hm
    · simp [hm] at h
  | repr => exact memberOfRepr_name h

/-! ### association lists -/

theorem assoc_none_of_not_key {m : List (Bytes × Int)} {k : Bytes} (h : k ∉ keys m) : assoc m k = none := by
  induction m with
  | nil => rfl
  | cons p m ih =>
    obtain ⟨k', v⟩ := p
    have : ¬ k = k' ∧ k ∉ keys m := by simpa [keys] using h
    have hne : ¬ k' = k := fun hh => this.1 hh.symm
    simp [assoc, hne, ih this.2]

theorem assoc_of_mem {m : List (Bytes × Int)} (hd : (keys m).Nodup) {k : Bytes} {v : Int} (h : (k, v) ∈ m) :
    assoc m k = some v := by
  induction m with
  | nil => simp at h
  | cons p m ih =>
    obtain ⟨k', v'⟩ := p
    have hd' : k' ∉ keys m ∧ (keys m).Nodup := by simpa [keys] using hd
    simp only [List.mem_cons, Prod.mk.injEq] at h
    rcases h with ⟨h1, h2⟩ | h
    · simp [assoc, h1, h2]
    · have : ¬ k' = k := fun hh => hd'.1 (hh ▸ List.mem_map.2 ⟨(k, v), h, rfl⟩)
      simp [assoc, this, ih hd'.2 h]

theorem assoc_some_mem {m : List (Bytes × Int)} {k : Bytes} {v : Int} (h : assoc m k = some v) : (k, v) ∈ m := by
  induction m with
  | nil => simp [assoc] at h
  | cons p m ih =>
    obtain ⟨k', v'⟩ := p
    by_cases hk : k' = k
    · simp [assoc, hk] at h; simp [hk, h]
    · simp [assoc, hk] at h; exact List.mem_cons_of_mem _ (ih h)

/-! ### the builder, closed form -/

/-- every key text resolved at the level, in call order (`none`: some key text is refused) -/
def resolveAll (lvl : Level) (e : EnumTy) : List (Bytes × Int) → Option EMap
  | [] => some []
  | kv :: rest =>
    match resolve lvl e kv.1 with
    | none => none
    | some n =>
      match resolveAll lvl e rest with
      | none => none
      | some rs => some ((n, kv.2) :: rs)

/-- the admission test of a resolved call sequence on top of a state -/
def fresh (st rs : EMap) : Prop := (keys rs).Nodup ∧ ∀ k, k ∈ keys rs → k ∉ keys st

instance (st rs : EMap) : Decidable (fresh st rs) :=
  inferInstanceAs (Decidable (_ ∧ ∀ k, k ∈ keys rs → k ∉ keys st))

theorem keys_append (a b : EMap) : keys (a ++ b) = keys a ++ keys b := by simp [keys]

theorem buildFrom_eq (lvl : Level) (e : EnumTy) (input : List (Bytes × Int)) (st : EMap) :
    buildFrom lvl e st input =
      match resolveAll lvl e input with
      | none => none
      | some rs => if fresh st rs then some (st ++ rs) else none := by
  induction input generalizing st with
  | nil => simp [buildFrom, resolveAll, fresh, keys]
  | cons kv rest ih =>
    cases hres : resolve lvl e kv.1 with
    | none => simp [buildFrom, step, resolveAll, hres]
    | some n =>
      by_cases hin : n ∈ keys st
      · have hstep : step lvl e st kv = (st, false) := by simp [step, hres, hin]
        simp only [buildFrom, hstep, resolveAll, hres]
        cases resolveAll lvl e rest with
        | none => rfl
        | some rs =>
          have : ¬ fresh st ((n, kv.2) :: rs) := fun hf => hf.2 n (by simp [keys]) hin
          simp [this]
      · have hstep : step lvl e st kv = (st ++ [(n, kv.2)], true) := by simp [step, hres, hin]
        simp only [buildFrom, hstep, resolveAll, hres, ih]
        cases resolveAll lvl e rest with
        | none => rfl
        | some rs =>
          have hiff : fresh (st ++ [(n, kv.2)]) rs ↔ fresh st ((n, kv.2) :: rs) := by
            simp only [fresh, keys_append]
            constructor
            · rintro ⟨h1, h2⟩
              refine ⟨?_, ?_⟩
              · simp only [keys, List.map_cons, List.nodup_cons]
                refine ⟨fun hmem => ?_, h1⟩
                exact h2 n hmem (by simp [keys])
              · intro k hk
                simp only [keys, List.map_cons, List.mem_cons] at hk
                rcases hk with hk | hk
                · exact hk ▸ hin
                · exact fun hks => h2 k hk (List.mem_append_left _ hks)
            · rintro ⟨h1, h2⟩
              have h1' : n ∉ keys rs ∧ (keys rs).Nodup := by simpa [keys] using h1
              refine ⟨h1'.2, ?_⟩
              intro k hk hmem
              rcases List.mem_append.1 hmem with hm | hm
              · exact h2 k (by simp only [keys, List.map_cons, List.mem_cons]; exact Or.inr hk) hm
              · have : k = n := by simpa [keys] using hm
                exact h1'.1 (this ▸ hk)
          by_cases hf : fresh st ((n, kv.2) :: rs)
          · simp [hf, hiff.2 hf]
          · have hnf : ¬ fresh (st ++ [(n, kv.2)]) rs := fun h => hf (hiff.1 h)
            simp [hf, hnf]

theorem build_eq (lvl : Level) (e : EnumTy) (input : List (Bytes × Int)) :
    build lvl e input =
      match resolveAll lvl e input with
      | none => none
      | some rs => if (keys rs).Nodup then some rs else none := by
  rw [build, buildFrom_eq]
  cases resolveAll lvl e input with
  | none => rfl
  | some rs =>
    have : fresh [] rs ↔ (keys rs).Nodup := by simp [fresh, keys]
    by_cases h : (keys rs).Nodup
    · simp [h, this.2 h]
    · have hnf : ¬ fresh [] rs := fun hh => h (this.1 hh)
      simp [h, hnf]

theorem resolveAll_names {lvl : Level} {e : EnumTy} {input : List (Bytes × Int)} {rs : EMap}
    (h : resolveAll lvl e input = some rs) : ∀ k, k ∈ keys rs → k ∈ names e := by
  induction input generalizing rs with
  | nil => simp [resolveAll] at h; subst h; simp [keys]
  | cons kv rest ih =>
    simp only [resolveAll] at h
    cases hres : resolve lvl e kv.1 with
    | none => simp [hres] at h
    | some n =>
      cases hra : resolveAll lvl e rest with
      | none => simp [hres, hra] at h
      | some rs' =>
        simp [hres, hra] at h
        subst h
        intro k hk
        simp only [keys, List.map_cons, List.mem_cons] at hk
        rcases hk with hk | hk
        · exact hk ▸ resolve_name hres
        · exact ih hra k hk

theorem resolveAll_isSome_iff (lvl : Level) (e : EnumTy) (input : List (Bytes × Int)) :
    (resolveAll lvl e input).isSome = true ↔ ∀ k, k ∈ keys input → (resolve lvl e k).isSome = true := by
  induction input with
  | nil => simp [resolveAll, keys]
  | cons kv rest ih =>
    simp only [resolveAll]
    cases hres : resolve lvl e kv.1 with
    | none =>
      simp only [Option.isSome_none, Bool.false_eq_true, false_iff]
      intro hall
      have := hall kv.1 (by simp [keys])
      simp [hres] at this
    | some n =>
      cases hra : resolveAll lvl e rest with
      | none =>
        simp only [Option.isSome_none, Bool.false_eq_true, false_iff]
        intro hall
        have : (resolveAll lvl e rest).isSome = true :=
          ih.2 fun k hk => hall k (by simp only [keys, List.map_cons, List.mem_cons]; exact Or.inr hk)
        simp [hra] at this
      | some rs =>
        simp only [Option.isSome_some, true_iff]
        intro k hk
        simp only [keys, List.map_cons, List.mem_cons] at hk
        rcases hk with hk | hk
        · simp [hk, hres]
        · exact ih.1 (by simp [hra]) k hk

/-- type level: a key text denotes itself -/
theorem resolveAll_type {e : EnumTy} {input : List (Bytes × Int)} {rs : EMap}
    (h : resolveAll .type e input = some rs) : rs = input := by
  induction input generalizing rs with
  | nil => simp [resolveAll] at h; exact h
  | cons kv rest ih =>
    simp only [resolveAll] at h
    cases hres : resolve .type e kv.1 with
    | none => simp [hres] at h
    | some n =>
      cases hra : resolveAll .type e rest with
      | none => simp [hres, hra] at h
      | some rs' =>
        simp [hres, hra] at h
        have hn : n = kv.1 := by
          simp only [resolve] at hres
          by_cases hm : isMember e kv.1 = true
          · simp [hm] at hres; exact hres.symm
          · simp [hm] at hres
        rw [← h, ih hra, hn]

/-- a resolved key is a key of the result exactly when some call's text resolves to it -/
theorem resolveAll_mem_keys {lvl : Level} {e : EnumTy} {input : List (Bytes × Int)} {rs : EMap}
    (h : resolveAll lvl e input = some rs) (n : Bytes) :
    n ∈ keys rs ↔ ∃ k, k ∈ keys input ∧ resolve lvl e k = some n := by
  induction input generalizing rs with
  | nil => simp [resolveAll] at h; subst h; simp [keys]
  | cons kv rest ih =>
    simp only [resolveAll] at h
    cases hres : resolve lvl e kv.1 with
    | none => simp [hres] at h
    | some n' =>
      cases hra : resolveAll lvl e rest with
      | none => simp [hres, hra] at h
      | some rs' =>
        simp [hres, hra] at h
        subst h
        simp only [keys, List.map_cons, List.mem_cons]
        constructor
        · rintro (hn | hn)
          · exact ⟨kv.1, Or.inl rfl, hn ▸ hres⟩
          · obtain ⟨k, hk, hr⟩ := (ih hra).1 hn
            exact ⟨k, Or.inr hk, hr⟩
        · rintro ⟨k, hk | hk, hr⟩
          · subst hk; rw [hres] at hr; exact Or.inl (Option.some.inj hr).symm
          · exact Or.inr ((ih hra).2 ⟨k, hk, hr⟩)

/-- when distinct texts resolve to distinct members, the resolved keys repeat exactly when the texts do -/
theorem resolveAll_nodup_iff {lvl : Level} {e : EnumTy}
    (hinj : ∀ s₁ s₂ n, resolve lvl e s₁ = some n → resolve lvl e s₂ = some n → s₁ = s₂)
    {input : List (Bytes × Int)} {rs : EMap} (h : resolveAll lvl e input = some rs) :
    (keys rs).Nodup ↔ (keys input).Nodup := by
  induction input generalizing rs with
  | nil => simp [resolveAll] at h; subst h; simp [keys]
  | cons kv rest ih =>
    simp only [resolveAll] at h
    cases hres : resolve lvl e kv.1 with
    | none => simp [hres] at h
    | some n =>
      cases hra : resolveAll lvl e rest with
      | none => simp [hres, hra] at h
      | some rs' =>
        simp [hres, hra] at h
        subst h
        have hmem : n ∈ keys rs' ↔ kv.1 ∈ keys rest := by
          rw [resolveAll_mem_keys hra]
          constructor
          · rintro ⟨k, hk, hr⟩
            exact (hinj _ _ _ hr hres) ▸ hk
          · exact fun hk => ⟨kv.1, hk, hres⟩
        simp only [keys, List.map_cons, List.nodup_cons]
        simp only [keys] at hmem ih
        rw [hmem, ih hra]

theorem resolve_type_inj (e : EnumTy) (s₁ s₂ n : Bytes)
    (h₁ : resolve .type e s₁ = some n) (h₂ : resolve .type e s₂ = some n) : s₁ = s₂ := by
  have : ∀ s, resolve .type e s = some n → s = n := by
    intro s h
    simp only [resolve] at h
    by_cases hm : isMember e s = true
    · simp [hm] at h; exact h
    · simp [hm] at h
  rw [this s₁ h₁, this s₂ h₂]

theorem resolve_type_isSome_iff (e : EnumTy) (s : Bytes) : (resolve .type e s).isSome = true ↔ s ∈ names e := by
  simp only [resolve]
  by_cases hm : isMember e s = true
  · simp [hm, (isMember_iff e s).1 hm]
  · have hn : s ∉ names e := fun h => hm ((isMember_iff e s).2 h)
    simp [hm, hn]

/-- the accepted inputs and what is built, in one statement -/
theorem build_isSome_iff (lvl : Level) (e : EnumTy)
    (hinj : ∀ s₁ s₂ n, resolve lvl e s₁ = some n → resolve lvl e s₂ = some n → s₁ = s₂)
    (input : List (Bytes × Int)) :
    (build lvl e input).isSome = true ↔
      (∀ k, k ∈ keys input → (resolve lvl e k).isSome = true) ∧ (keys input).Nodup := by
  rw [build_eq, ← resolveAll_isSome_iff]
  cases hra : resolveAll lvl e input with
  | none => simp
  | some rs =>
    have := resolveAll_nodup_iff hinj hra
    by_cases hd : (keys rs).Nodup
    · simp [hd, this.1 hd]
    · have hn : ¬ (keys input).Nodup := fun h => hd (this.2 h)
      simp [hd, hn]

theorem build_valid {lvl : Level} {e : EnumTy} {input : List (Bytes × Int)} {m : EMap}
    (h : build lvl e input = some m) : valid e m := by
  rw [build_eq] at h
  cases hra : resolveAll lvl e input with
  | none => simp [hra] at h
  | some rs =>
    by_cases hd : (keys rs).Nodup
    · simp [hra, hd] at h
      subst h
      exact ⟨hd, resolveAll_names hra⟩
    · simp [hra, hd] at h

theorem resolveAll_type_of_valid {e : EnumTy} {m : EMap} (hall : ∀ k, k ∈ keys m → k ∈ names e) :
    resolveAll .type e m = some m := by
  induction m with
  | nil => rfl
  | cons kv m ih =>
    have h1 : isMember e kv.1 = true := (isMember_iff e kv.1).2 (hall kv.1 (by simp [keys]))
    have h2 := ih fun k hk => hall k (by simp only [keys, List.map_cons, List.mem_cons]; exact Or.inr hk)
    simp [resolveAll, resolve, h1, h2]

theorem resolveAll_repr_of_valid {e : EnumTy} (hr : (reprs e).Nodup) {m : EMap}
    (hall : ∀ k, k ∈ keys m → k ∈ names e) : resolveAll .repr e (viewRepr e m) = some m := by
  induction m with
  | nil => rfl
  | cons kv m ih =>
    have h1 := memberOfRepr_reprOf hr (hall kv.1 (by simp [keys]))
    have h2 := ih fun k hk => hall k (by simp only [keys, List.map_cons, List.mem_cons]; exact Or.inr hk)
    simp only [viewRepr] at h2
    simp [viewRepr, resolveAll, resolve, h1, h2]

end Ipld.EnumKey
