import IpldModel.Model.Term
import IpldModel.Model.Assembler
import IpldModel.Model.NodeRead
namespace Ipld.Driver
open Ipld Ipld.Asm

def parseProto : String → Option Proto
  | "any" => some .any
  | "map" => some .map
  | "list" => some .list
  | "s:null" => some (.scalar .null)
  | "s:bool" => some (.scalar .bool)
  | "s:int" => some (.scalar .int)
  | "s:float" => some (.scalar .float)
  | "s:str" => some (.scalar .str)
  | "s:bytes" => some (.scalar .bytes)
  | "s:link" => some (.scalar .link)
  | _ => none

/-- Ops: BM<hint> BL<hint> AK AV AE s<hex> A <scalar> AN <term…> F -/
def parseOps : Nat → List String → Option (List Op)
  | 0, _ => none
  | _, [] => some []
  | fuel + 1, t :: rest =>
    match t with
    | "AK" => (parseOps fuel rest).map (.assembleKey :: ·)
    | "AV" => (parseOps fuel rest).map (.assembleValue :: ·)
    | "F" => (parseOps fuel rest).map (.finish :: ·)
    | "AE" =>
      match rest with
      | k :: rest' =>
        match k.toList with
        | 's' :: cs => match bytesOfHexChars cs with
          | some kb => (parseOps fuel rest').map (.assembleEntry kb :: ·)
          | none => none
        | _ => none
      | [] => none
    | "A" =>
      match parseTerm rest with
      | some (d, rest') => (parseOps fuel rest').map (.assign d :: ·)
      | none => none
    | "AN" =>
      match parseTerm rest with
      | some (d, rest') => (parseOps fuel rest').map (.assignNode d :: ·)
      | none => none
    | _ =>
      match t.toList with
      | 'B' :: 'M' :: cs => match (String.ofList cs).toInt? with
        | some h => (parseOps fuel rest).map (.beginMap h :: ·)
        | none => none
      | 'B' :: 'L' :: cs => match (String.ofList cs).toInt? with
        | some h => (parseOps fuel rest).map (.beginList h :: ·)
        | none => none
      | _ => none

def showOut : Out → String
  | .ok => "ok"
  | .err .repeatedKey => "e:repeatedKey"
  | .err .wrongKind => "e:wrongKind"
  | .err .other => "e:other"
  | .panic => "panic"

/-- asm.run <proto> <ops…>  →  <out…> | built <term>  /  <out…> | unfinished -/
def asmHandler : List String → Option String
  | "asm.run" :: p :: toks =>
    match parseProto p, parseOps (toks.length + 1) toks with
    | some proto, some ops =>
      let (st, outs) := run (init proto) ops
      let fin := match build st with
        | some d => "built " ++ d.toTerm
        | none => "unfinished"
      some (" ".intercalate (outs.map showOut) ++ " | " ++ fin)
    | _, _ => some "bad-args"
  | "node.row" :: toks =>
    match parseTermAll toks with
    | some d => some (NodeRead.row d)
    | none => some "bad-term"
  | "node.eq" :: toks =>
    match parseTerm toks with
    | some (a, rest) =>
      match parseTermAll rest with
      | some b => some (if NodeRead.deepEqual a b then "true" else "false")
      | none => some "bad-term"
    | none => some "bad-term"
  | "asm.plan" :: toks =>
    match parseTermAll toks with
    | some d =>
      let (st, _) := run (init .any) (planOf d)
      some (match build st with | some r => "built " ++ r.toTerm | none => "unfinished")
    | none => some "bad-term"
  | _ => none

end Ipld.Driver
