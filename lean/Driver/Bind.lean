import IpldModel.Model.Term
import IpldModel.Model.Bind
namespace Ipld.Driver
open Ipld Ipld.Bind

def parseWidth : String → Option Width
  | "i8" => some .i8 | "i16" => some .i16 | "i32" => some .i32 | "i64" => some .i64
  | "u8" => some .u8 | "u16" => some .u16 | "u32" => some .u32 | "u64" => some .u64
  | _ => none

def showAssign : Assign → String
  | .stored i => "stored i" ++ toString i
  | .rejected => "rejected"

/-- bind.width <i8|…|u64> i<n>  →  <ideal> / <code>     (ideal: store iff it fits; code: the guarded assignment) -/
def bindHandler : List String → Option String
  | ["bind.width", w, t] =>
    match parseWidth w, parseTermAll [t] with
    | some w, some (.int i) => some (showAssign (assignIdeal w i) ++ " / " ++ showAssign (assignCode true w i))
    | _, _ => some "bad-args"
  | _ => none

end Ipld.Driver
