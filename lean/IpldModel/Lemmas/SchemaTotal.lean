/-
  C08-1: which conforming typed values have a representation: exactly those of canonical shape (struct
  entries = the fields, in declaration order) in which no tuple-represented struct has an absent
  field before a present one.
-/
import IpldModel.Lemmas.SchemaRound2
namespace Ipld
namespace Schema

/-! ## The side condition -/

/-- no absent entry before a present one -/
def tupleDense : TLKVs → Bool
  | .nil => true
  | .cons _ v es => if v = .absent then allAbsent es else tupleDense es
where
  allAbsent : TLKVs → Bool
    | .nil => true
    | .cons _ v es => v == .absent && allAbsent es

mutual
/-- `v` has the canonical shape of a typed node of type `ty` (every struct lists exactly its fields,
    in declaration order) and no tuple-represented struct in it has an absent field before a
    present one. -/
def shapeOK (ty : Ty) : TL → Bool
  | .list xs => match ty with
    | .list ety _ => shapeOKList ety xs
    | _ => true
  | .map es => match ty with
    | .map vty _ => shapeOKMap vty es
    | .struct fs sr =>
      shapeOKFields fs.toList es && (match sr with | .tuple => tupleDense es | _ => true)
    | .union ms _ =>
      match es with
      | .cons k v .nil =>
        match ms.toList.find? (fun m => m.name == k) with
        | some m => shapeOK m.ty v
        | none => true
      | _ => true
    | _ => true
  | _ => true
def shapeOKList (ety : Ty) : TLs → Bool
  | .nil => true
  | .cons x xs => shapeOK ety x && shapeOKList ety xs
def shapeOKMap (vty : Ty) : TLKVs → Bool
  | .nil => true
  | .cons _ v es => shapeOK vty v && shapeOKMap vty es
def shapeOKFields : List Field → TLKVs → Bool
  | [], .nil => true
  | f :: fs, .cons k v es => k == f.name && shapeOK f.ty v && shapeOKFields fs es
  | _, _ => false
end

/-! ## `any` -/

mutual
theorem toDM_of_anyOK : (v : TL) → anyOK v = true → ∃ d, v.toDM? = some d
  | .absent, h => by simp [anyOK] at h
  | .null, _ => ⟨_, rfl⟩
  | .bool _, _ => ⟨_, rfl⟩
  | .int _, _ => ⟨_, rfl⟩
  | .float _, _ => ⟨_, rfl⟩
  | .str _, _ => ⟨_, rfl⟩
  | .bytes _, _ => ⟨_, rfl⟩
  | .link _, _ => ⟨_, rfl⟩
  | .list xs, h => by
    simp only [anyOK] at h
    obtain ⟨ys, hys⟩ := toDMs_of_anyOKs xs h
    exact ⟨.list ys, by simp [TL.toDM?, hys]⟩
  | .map es, h => by
    simp only [anyOK] at h
    obtain ⟨ys, hys⟩ := toDMKVs_of_anyOKkv es [] h
    exact ⟨.map ys, by simp [TL.toDM?, hys]⟩
theorem toDMs_of_anyOKs : (xs : TLs) → anyOKs xs = true → ∃ ds, xs.toDMs? = some ds
  | .nil, _ => ⟨_, rfl⟩
  | .cons x xs, h => by
    simp only [anyOKs, Bool.and_eq_true] at h
    obtain ⟨d, hd⟩ := toDM_of_anyOK x h.1
    obtain ⟨ds, hds⟩ := toDMs_of_anyOKs xs h.2
    exact ⟨.cons d ds, by simp [TLs.toDMs?, hd, hds]⟩
theorem toDMKVs_of_anyOKkv : (es : TLKVs) → (seen : List Bytes) → anyOKkv seen es = true →
    ∃ ds, es.toDMKVs? = some ds
  | .nil, _, _ => ⟨_, rfl⟩
  | .cons k x xs, seen, h => by
    simp only [anyOKkv, Bool.and_eq_true] at h
    obtain ⟨d, hd⟩ := toDM_of_anyOK x h.1.2
    obtain ⟨ds, hds⟩ := toDMKVs_of_anyOKkv xs (k :: seen) h.2
    exact ⟨.cons k d ds, by simp [TLKVs.toDMKVs?, hd, hds]⟩
end

/-! ## Stringy types are represented by strings -/

theorem stringy_repr (ty : Ty) (hs : ty.stringy = true) (v : TL) (d : DM)
    (h : toRepr ty false v = some d) : ∃ s, d = .str s := by
  cases ty with
  | str =>
    cases v <;> simp [toRepr] at h
    exact ⟨_, h.symm⟩
  | enum ms r =>
    cases r with
    | int => simp [Ty.stringy] at hs
    | str =>
      cases v <;> simp only [toRepr, Bool.false_eq_true, if_false, reduceCtorEq] at h
      split at h
      · simp only [Option.some.injEq] at h; exact ⟨_, h.symm⟩
      · cases h
  | struct fs sr =>
    cases sr with
    | stringjoin delim =>
      cases v <;> simp only [toRepr, Bool.false_eq_true, if_false, reduceCtorEq] at h
      split at h
      · cases h
      · split at h
        · cases h
        · simp only [Option.map_eq_some_iff] at h
          obtain ⟨ss, _, rfl⟩ := h
          exact ⟨_, rfl⟩
    | _ => simp [Ty.stringy] at hs
  | union ms ur =>
    cases ur with
    | stringprefix delim =>
      cases v with
      | map es =>
        unfold toRepr at h
        simp only [] at h
        split at h
        · split at h
          · cases h
          · split at h
            · cases h
            · split at h
              · simp only [Option.some.injEq] at h; exact ⟨_, h.symm⟩
              · cases h
        · cases h
      | _ => simp [toRepr] at h
    | _ => simp [Ty.stringy] at hs
  | _ => simp [Ty.stringy] at hs

/-- the values of a stringjoin struct's fields are all present and all strings -/
theorem join_vals : (fs : List Field) → (es : TLKVs) → (vals : List (Option DM)) →
    reprFields fs es = some vals →
    (∀ f ∈ fs, f.opt = false ∧ f.nullable = false ∧ f.ty.stringy = true) →
    ∃ ds ss, allSome vals = some ds ∧ allStr ds = some ss
  | [], es, vals, h, _ => by
    obtain ⟨_, rfl⟩ := reprFields_nil_inv es vals h
    exact ⟨[], [], rfl, rfl⟩
  | f :: fs, .nil, vals, h, _ => by simp [reprFields] at h
  | f :: fs, .cons k v es, vals, h, hf => by
    obtain ⟨_, vals', hv', h2⟩ := reprFields_cons_inv f fs k v es vals h
    obtain ⟨ds, ss, hds, hss⟩ := join_vals fs es vals' hv' (fun f' hf' => hf f' (by simp [hf']))
    have hff := hf f (by simp)
    rcases h2 with ⟨_, ho, _⟩ | ⟨_, d, hd, rfl⟩
    · rw [hff.1] at ho; cases ho
    · rw [hff.2.1] at hd
      obtain ⟨s, rfl⟩ := stringy_repr f.ty hff.2.2 v d hd
      exact ⟨.str s :: ds, s :: ss, by simp [allSome, hds], by simp [allStr, hss]⟩

/-! ## Tuples -/

/-- no `none` before a `some` -/
def denseOpt {α : Type} : List (Option α) → Bool
  | [] => true
  | none :: l => l.all Option.isNone
  | some _ :: l => denseOpt l

theorem reprFields_dense : (fs : List Field) → (es : TLKVs) → (vals : List (Option DM)) →
    reprFields fs es = some vals →
    (tupleDense es = denseOpt vals) ∧ (tupleDense.allAbsent es = vals.all Option.isNone)
  | [], es, vals, h => by
    obtain ⟨rfl, rfl⟩ := reprFields_nil_inv es vals h
    simp [tupleDense, tupleDense.allAbsent, denseOpt]
  | f :: fs, .nil, vals, h => by simp [reprFields] at h
  | f :: fs, .cons k v es, vals, h => by
    obtain ⟨_, vals', hv', h2⟩ := reprFields_cons_inv f fs k v es vals h
    have ih := reprFields_dense fs es vals' hv'
    rcases h2 with ⟨rfl, _, rfl⟩ | ⟨hne, d, _, rfl⟩
    · simp [tupleDense, tupleDense.allAbsent, denseOpt, ih.2]
    · have : (v == TL.absent) = false := by simpa using hne
      simp [tupleDense, tupleDense.allAbsent, denseOpt, ih.1, hne, this]

theorem denseOpt_split {α : Type} : (l : List (Option α)) → denseOpt l = true →
    ∃ (ds : List α) (n : Nat), l = ds.map some ++ List.replicate n none
  | [], _ => ⟨[], 0, rfl⟩
  | none :: l, h => by
    simp only [denseOpt] at h
    have := eq_replicate_none l (by simpa using h)
    exact ⟨[], l.length + 1, by simp [List.replicate_succ, ← this]⟩
  | some a :: l, h => by
    simp only [denseOpt] at h
    obtain ⟨ds, n, hl⟩ := denseOpt_split l h
    exact ⟨a :: ds, n, by simp [hl]⟩

theorem allSome_map_some {α : Type} : (ds : List α) → allSome (ds.map some) = some ds
  | [] => rfl
  | a :: ds => by simp [allSome, allSome_map_some ds]

theorem dropWhile_isNone_map_some_reverse {α : Type} (ds : List α) :
    (ds.map some).reverse.dropWhile Option.isNone = (ds.map some).reverse := by
  cases h : (ds.map some).reverse with
  | nil => rfl
  | cons a l =>
    have : a ∈ (ds.map some).reverse := by rw [h]; simp
    simp only [List.mem_reverse, List.mem_map] at this
    obtain ⟨x, _, rfl⟩ := this
    simp

theorem dropTrailingNone_split {α : Type} (ds : List α) (n : Nat) :
    dropTrailingNone (ds.map some ++ List.replicate n none) = ds.map some := by
  unfold dropTrailingNone
  rw [List.reverse_append, List.reverse_replicate]
  have : ∀ (m : Nat) (l : List (Option α)),
      (List.replicate m none ++ l).dropWhile Option.isNone = l.dropWhile Option.isNone := by
    intro m
    induction m with
    | zero => intro l; simp
    | succ m ih => intro l; simp [List.replicate_succ, ih]
  rw [this, dropWhile_isNone_map_some_reverse, List.reverse_reverse]

theorem tuple_total (vals : List (Option DM)) (h : denseOpt vals = true) :
    ∃ ds, allSome (dropTrailingNone vals) = some ds := by
  obtain ⟨ds, n, rfl⟩ := denseOpt_split vals h
  exact ⟨ds, by rw [dropTrailingNone_split, allSome_map_some]⟩

/-- conversely: the dropped tail being all there is to drop means the values are dense -/
theorem dense_of_tuple (vals : List (Option DM)) (ds : List DM)
    (h : allSome (dropTrailingNone vals) = some ds) : denseOpt vals = true := by
  obtain ⟨n, rfl⟩ := tuple_vals vals ds h
  clear h
  induction ds with
  | nil =>
    cases n with
    | zero => rfl
    | succ n => simp [List.replicate_succ, denseOpt]
  | cons a ds ih => simpa [denseOpt] using ih

/-! ## Totality -/

theorem reprFields_cons_absent (f : Field) (fs : List Field) (es : TLKVs) (ho : f.opt = true) :
    reprFields (f :: fs) (.cons f.name .absent es) = (reprFields fs es).map (none :: ·) := by
  simp [reprFields, ho]

theorem reprFields_cons_present (f : Field) (fs : List Field) (v : TL) (es : TLKVs) (d : DM)
    (r : List (Option DM)) (hne : v ≠ .absent) (hd : toRepr f.ty f.nullable v = some d)
    (hr : reprFields fs es = some r) :
    reprFields (f :: fs) (.cons f.name v es) = some (some d :: r) := by
  unfold reprFields
  cases v <;> simp_all

theorem shapeOKFields_cons (f : Field) (fs : List Field) (k : Bytes) (v : TL) (es : TLKVs) :
    shapeOKFields (f :: fs) (.cons k v es) = (k == f.name && shapeOK f.ty v && shapeOKFields fs es) := by
  rw [shapeOKFields]

mutual
theorem total : (v : TL) → (ty : Ty) → (nul : Bool) → ty.wf = true → conforms ty nul v = true →
    shapeOK ty v = true → ∃ d, toRepr ty nul v = some d
  | .absent, _, _, _, hc, _ => by simp [conforms] at hc
  | .null, ty, nul, _, hc, _ => by simp only [conforms] at hc; exact ⟨.null, by simp [toRepr, hc]⟩
  | .bool b, ty, nul, _, hc, _ => by cases ty <;> simp [conforms] at hc <;> simp [toRepr]
  | .int b, ty, nul, _, hc, _ => by cases ty <;> simp [conforms] at hc <;> simp [toRepr]
  | .float b, ty, nul, _, hc, _ => by cases ty <;> simp [conforms] at hc <;> simp [toRepr]
  | .bytes b, ty, nul, _, hc, _ => by cases ty <;> simp [conforms] at hc <;> simp [toRepr]
  | .link b, ty, nul, _, hc, _ => by cases ty <;> simp [conforms] at hc <;> simp [toRepr]
  | .str s, ty, nul, _, hc, _ => by
    cases ty with
    | str => simp [toRepr]
    | any => simp [toRepr]
    | enum ms r =>
      simp only [conforms] at hc
      rw [any_key_iff_find? (·.name) ms s] at hc
      cases hm : ms.find? (fun m => m.name == s) with
      | none => simp [hm] at hc
      | some m => cases r <;> simp [toRepr, hm]
    | _ => simp [conforms] at hc
  | .list xs, ty, nul, hwf, hc, hs => by
    cases ty with
    | list ety enul =>
      unfold conforms at hc
      unfold shapeOK at hs
      obtain ⟨ys, hys⟩ := totalList xs ety enul (by simpa [Ty.wf] using hwf) hc hs
      simp [toRepr, hys]
    | any =>
      unfold conforms at hc
      obtain ⟨d, hd⟩ := toDM_of_anyOK _ hc
      exact ⟨d, by simp only [toRepr]; exact hd⟩
    | _ => simp [conforms] at hc
  | .map es, ty, nul, hwf, hc, hs => by
    cases ty with
    | map vty vnul =>
      unfold conforms at hc
      unfold shapeOK at hs
      obtain ⟨ys, hys⟩ := totalMap es vty vnul (by simpa [Ty.wf] using hwf) [] hc hs
      simp [toRepr, hys]
    | any =>
      unfold conforms at hc
      obtain ⟨d, hd⟩ := toDM_of_anyOK _ hc
      exact ⟨d, by simp only [toRepr]; exact hd⟩
    | struct fs sr =>
      have hw := wf_struct hwf
      unfold conforms at hc
      unfold shapeOK at hs
      simp only [Bool.and_eq_true] at hs
      obtain ⟨vals, hv⟩ := totalFields es fs.toList (Fields.wf_mem fs hw.1) hw.2.1 fs.toList
        (fun _ h => h) [] hc hs.1
      cases sr with
      | map => rw [toRepr_struct_map, hv]; exact ⟨_, rfl⟩
      | listpairs => rw [toRepr_struct_listpairs, hv]; exact ⟨_, rfl⟩
      | tuple =>
        have hd : denseOpt vals = true := by
          rw [← (reprFields_dense _ _ _ hv).1]; exact hs.2
        obtain ⟨ds, hds⟩ := tuple_total vals hd
        rw [toRepr_struct_tuple, hv]; simp only [hds]; exact ⟨_, rfl⟩
      | stringjoin delim =>
        obtain ⟨ds, ss, hds, hss⟩ := join_vals fs.toList es vals hv (wf_stringjoin hwf).2
        rw [toRepr_struct_stringjoin, hv]; simp only [hds, hss]; exact ⟨_, rfl⟩
    | union ms ur =>
      have hw := wf_union hwf
      unfold conforms at hc
      unfold shapeOK at hs
      match es, hc, hs with
      | .cons k v .nil, hc, hs =>
        simp only [] at hc hs
        cases hm : ms.toList.find? (fun m => m.name == k) with
        | none => simp [hm] at hc
        | some m =>
          obtain ⟨hmem, hname⟩ := find?_mem_key (·.name) ms.toList k m hm
          simp only [hm] at hc hs
          obtain ⟨d0, hd0⟩ := total v m.ty false (Members.wf_mem ms hw.1 m hmem) hc hs
          cases ur with
          | keyed => simp [toRepr, hm, hd0]
          | kinded => simp [toRepr, hm, hd0]
          | stringprefix delim =>
            obtain ⟨s, rfl⟩ := stringy_repr m.ty ((wf_stringprefix hwf).2 m hmem) v d0 hd0
            simp [toRepr, hm, hd0]
      | .nil, hc, _ => simp at hc
      | .cons _ _ (.cons _ _ _), hc, _ => simp at hc
    | _ => simp [conforms] at hc
theorem totalList : (xs : TLs) → (ety : Ty) → (enul : Bool) → ety.wf = true →
    conformsList ety enul xs = true → shapeOKList ety xs = true → ∃ ys, reprList ety enul xs = some ys
  | .nil, _, _, _, _, _ => ⟨[], rfl⟩
  | .cons x xs, ety, enul, hwf, hc, hs => by
    simp only [conformsList, Bool.and_eq_true] at hc
    simp only [shapeOKList, Bool.and_eq_true] at hs
    obtain ⟨d, hd⟩ := total x ety enul hwf hc.1 hs.1
    obtain ⟨ds, hds⟩ := totalList xs ety enul hwf hc.2 hs.2
    exact ⟨d :: ds, by simp [reprList, hd, hds]⟩
theorem totalMap : (es : TLKVs) → (vty : Ty) → (vnul : Bool) → vty.wf = true → (seen : List Bytes) →
    conformsMap vty vnul seen es = true → shapeOKMap vty es = true → ∃ ys, reprMap vty vnul es = some ys
  | .nil, _, _, _, _, _, _ => ⟨[], rfl⟩
  | .cons k x xs, vty, vnul, hwf, seen, hc, hs => by
    simp only [conformsMap, Bool.and_eq_true] at hc
    simp only [shapeOKMap, Bool.and_eq_true] at hs
    obtain ⟨d, hd⟩ := total x vty vnul hwf hc.1.2 hs.1
    obtain ⟨ds, hds⟩ := totalMap xs vty vnul hwf (k :: seen) hc.2 hs.2
    exact ⟨(k, d) :: ds, by simp [reprMap, hd, hds]⟩
theorem totalFields : (es : TLKVs) → (F : List Field) → (∀ f ∈ F, f.ty.wf = true) →
    (F.map (·.name)).Nodup → (suf : List Field) → (∀ f ∈ suf, f ∈ F) → (seen : List Bytes) →
    conformsStruct F seen es = true → shapeOKFields suf es = true →
    ∃ vals, reprFields suf es = some vals
  | .nil, F, _, _, suf, _, _, _, hs => by
    cases suf with
    | nil => exact ⟨[], rfl⟩
    | cons _ _ => simp [shapeOKFields] at hs
  | .cons k v es, F, hwf, hnd, suf, hsub, seen, hc, hs => by
    cases suf with
    | nil => simp [shapeOKFields] at hs
    | cons f suf =>
      rw [shapeOKFields_cons] at hs
      simp only [Bool.and_eq_true, beq_iff_eq] at hs
      obtain ⟨⟨hk, hsv⟩, hsr⟩ := hs
      subst hk
      have hfF : f ∈ F := hsub f (by simp)
      obtain ⟨hfv, hc'⟩ := conformsStruct_cons_inv F hnd seen f hfF v es hc
      obtain ⟨vals', hv'⟩ := totalFields es F hwf hnd suf (fun f' hf' => hsub f' (by simp [hf'])) _ hc' hsr
      by_cases hva : v = .absent
      · subst hva
        simp only [fieldValOK] at hfv
        exact ⟨none :: vals', by rw [reprFields_cons_absent f suf es hfv, hv']; rfl⟩
      · rw [fieldValOK_ne_absent f v hva] at hfv
        obtain ⟨d, hd⟩ := total v f.ty f.nullable (hwf f hfF) hfv hsv
        exact ⟨some d :: vals', reprFields_cons_present f suf v es d vals' hva hd hv'⟩
end

/-! ## Exactness: a value that has a representation has the shape -/

mutual
theorem shape_of_repr : (v : TL) → (ty : Ty) → (nul : Bool) → (d : DM) → toRepr ty nul v = some d →
    shapeOK ty v = true
  | .absent, _, _, _, _ => by simp [shapeOK]
  | .null, _, _, _, _ => by simp [shapeOK]
  | .bool _, _, _, _, _ => by simp [shapeOK]
  | .int _, _, _, _, _ => by simp [shapeOK]
  | .float _, _, _, _, _ => by simp [shapeOK]
  | .str _, _, _, _, _ => by simp [shapeOK]
  | .bytes _, _, _, _, _ => by simp [shapeOK]
  | .link _, _, _, _, _ => by simp [shapeOK]
  | .list xs, ty, nul, d, h => by
    cases ty with
    | list ety enul =>
      simp only [toRepr, Option.map_eq_some_iff] at h
      obtain ⟨ys, hys, _⟩ := h
      unfold shapeOK
      exact shapeList_of_repr xs ety enul ys hys
    | _ => simp [shapeOK]
  | .map es, ty, nul, d, h => by
    cases ty with
    | map vty vnul =>
      simp only [toRepr, Option.map_eq_some_iff] at h
      obtain ⟨ys, hys, _⟩ := h
      unfold shapeOK
      exact shapeMap_of_repr es vty vnul ys hys
    | struct fs sr =>
      unfold shapeOK
      cases hv : reprFields fs.toList es with
      | none =>
        cases sr with
        | map => rw [toRepr_struct_map, hv] at h; cases h
        | listpairs => rw [toRepr_struct_listpairs, hv] at h; cases h
        | tuple => rw [toRepr_struct_tuple, hv] at h; cases h
        | stringjoin delim => rw [toRepr_struct_stringjoin, hv] at h; cases h
      | some vals =>
        have h1 := shapeFields_of_repr es fs.toList vals hv
        cases sr with
        | tuple =>
          rw [toRepr_struct_tuple, hv] at h
          simp only [Option.map_eq_some_iff] at h
          obtain ⟨ds, hds, _⟩ := h
          simp only [h1, Bool.true_and]
          rw [(reprFields_dense _ _ _ hv).1]
          exact dense_of_tuple vals ds hds
        | _ => simp [h1]
    | union ms ur =>
      unfold shapeOK
      unfold toRepr at h
      match es, h with
      | .cons k v .nil, h =>
        simp only [] at h ⊢
        cases hm : ms.toList.find? (fun m => m.name == k) with
        | none => rfl
        | some m =>
          simp only [hm] at h ⊢
          cases hd0 : toRepr m.ty false v with
          | none => simp [hd0] at h
          | some d0 => exact shape_of_repr v m.ty false d0 hd0
      | .nil, _ => rfl
      | .cons _ _ (.cons _ _ _), _ => rfl
    | _ => simp [shapeOK]
theorem shapeList_of_repr : (xs : TLs) → (ety : Ty) → (enul : Bool) → (ys : List DM) →
    reprList ety enul xs = some ys → shapeOKList ety xs = true
  | .nil, _, _, _, _ => rfl
  | .cons x xs, ety, enul, ys, h => by
    simp only [reprList] at h
    split at h
    · next d ds hd hds =>
      simp only [shapeOKList, Bool.and_eq_true]
      exact ⟨shape_of_repr x ety enul d hd, shapeList_of_repr xs ety enul ds hds⟩
    · cases h
theorem shapeMap_of_repr : (es : TLKVs) → (vty : Ty) → (vnul : Bool) → (ys : List (Bytes × DM)) →
    reprMap vty vnul es = some ys → shapeOKMap vty es = true
  | .nil, _, _, _, _ => rfl
  | .cons k x xs, vty, vnul, ys, h => by
    simp only [reprMap] at h
    split at h
    · next d ds hd hds =>
      simp only [shapeOKMap, Bool.and_eq_true]
      exact ⟨shape_of_repr x vty vnul d hd, shapeMap_of_repr xs vty vnul ds hds⟩
    · cases h
theorem shapeFields_of_repr : (es : TLKVs) → (fs : List Field) → (vals : List (Option DM)) →
    reprFields fs es = some vals → shapeOKFields fs es = true
  | .nil, fs, vals, h => by
    cases fs with
    | nil => rfl
    | cons _ _ => simp [reprFields] at h
  | .cons k v es, fs, vals, h => by
    cases fs with
    | nil => simp [reprFields] at h
    | cons f fs =>
      obtain ⟨hk, vals', hv', h2⟩ := reprFields_cons_inv f fs k v es vals h
      rw [shapeOKFields_cons]
      simp only [hk, beq_self_eq_true, Bool.true_and, Bool.and_eq_true]
      refine ⟨?_, shapeFields_of_repr es fs vals' hv'⟩
      rcases h2 with ⟨rfl, _, _⟩ | ⟨_, d, hd, _⟩
      · simp [shapeOK]
      · exact shape_of_repr v f.ty f.nullable d hd
end

end Schema
end Ipld
