package checks

import (
	"bytes"
	"encoding/hex"
	"errors"
	"fmt"
	"io"
	"strings"

	"github.com/ipfs/go-cid"
	"github.com/ipld/go-ipld-prime/codec"
	"github.com/ipld/go-ipld-prime/codec/dagcbor"
	"github.com/ipld/go-ipld-prime/codec/dagjson"
	"github.com/ipld/go-ipld-prime/codec/raw"
	"github.com/ipld/go-ipld-prime/datamodel"
	"github.com/ipld/go-ipld-prime/linking"
	cidlink "github.com/ipld/go-ipld-prime/linking/cid"
	"github.com/ipld/go-ipld-prime/multicodec"
	"github.com/ipld/go-ipld-prime/node/basicnode"
	mh "github.com/multiformats/go-multihash"

	// plain cbor / json register themselves in the default registry
	_ "github.com/ipld/go-ipld-prime/codec/cbor"
	_ "github.com/ipld/go-ipld-prime/codec/json"

	"verif/internal/core"
)

// C06 — no load returns data that does not hash to its link, whatever the storage does.
//
// Fault enumeration on real blocks: every single-bit flip, every truncation length, appended bytes,
// substituted blocks, a read error at every offset, random chunkings; over Load, LoadRaw, LoadPlusRaw, Fill.
//   impl observation : ok | hashMismatch | ioErr | otherError (+ whether a node / bytes came back)
//   (D) correspondence: the decoder's behaviour on the same faulty stream (bytes pulled, ok/err) is measured with a
//                       counting reader and handed to the Lean model of Fill/LoadRaw, which predicts the class
//   (O) oracle        : no ok unless the delivered bytes hash to the link; hashMismatch whenever they do not (and no
//                       I/O error occurred); an I/O error surfaces as that error; nothing is returned beside an error;
//                       a failing encoder or storage writer never reaches the committer.

func init() {
	core.Register(&core.Check{ID: "C06", Run: runC06, Replay: replayC06})
}

var errInjected = errors.New("verif: injected read error")
var errInjectedWrite = errors.New("verif: injected write error")

// faultyReader delivers data in the given chunk sizes and fails with errInjected after failAt bytes (if >= 0).
type faultyReader struct {
	data   []byte
	pos    int
	failAt int
	chunk  int
	pulled int
	zeroAt int // > 0: return (0, nil) once when the position reaches zeroAt-1 (legal for an io.Reader: "nothing happened")
	zeroed bool
}

func (r *faultyReader) Read(p []byte) (int, error) {
	if r.failAt >= 0 && r.pos >= r.failAt {
		return 0, errInjected
	}
	if r.pos >= len(r.data) {
		return 0, io.EOF
	}
	if r.zeroAt > 0 && !r.zeroed && r.pos >= r.zeroAt-1 && len(p) > 0 {
		r.zeroed = true
		return 0, nil
	}
	n := len(p)
	if r.chunk > 0 && n > r.chunk {
		n = r.chunk
	}
	lim := len(r.data)
	if r.failAt >= 0 && r.failAt < lim {
		lim = r.failAt
	}
	if r.pos+n > lim {
		n = lim - r.pos
	}
	if r.zeroAt > 0 && !r.zeroed && r.pos+n > r.zeroAt-1 && r.zeroAt-1 > r.pos {
		n = r.zeroAt - 1 - r.pos // stop right before the zero-length read
	}
	copy(p, r.data[r.pos:r.pos+n])
	r.pos += n
	r.pulled += n
	return n, nil
}

func testRegistry() multicodec.Registry {
	reg := multicodec.Registry{}
	reg.RegisterEncoder(0x71, dagcbor.Encode)
	reg.RegisterDecoder(0x71, dagcbor.Decode)
	reg.RegisterEncoder(0x0129, dagjson.Encode)
	reg.RegisterDecoder(0x0129, dagjson.Decode)
	reg.RegisterEncoder(0x55, raw.Encode)
	reg.RegisterDecoder(0x55, raw.Decode)
	for _, c := range []uint64{0x51, 0x0200} {
		if e, err := multicodec.LookupEncoder(c); err == nil {
			reg.RegisterEncoder(c, e)
		}
		if d, err := multicodec.LookupDecoder(c); err == nil {
			reg.RegisterDecoder(c, d)
		}
	}
	// CIDv0 implies codec 0x70 (dag-pb), which the repository does not bundle: a test codec stands in for it
	reg.RegisterEncoder(0x70, dagcbor.Encode)
	reg.RegisterDecoder(0x70, dagcbor.Decode)
	return reg
}

// hashesTo: does b hash to the link, in the sense of the link's own (possibly truncated) digest?
func hashesTo(l cidlink.Link, b []byte) bool {
	dec, err := mh.Decode(l.Cid.Hash())
	if err != nil {
		return false
	}
	sum, err := mh.Sum(b, dec.Code, -1)
	if err != nil {
		return false
	}
	full, err := mh.Decode(sum)
	if err != nil {
		return false
	}
	if dec.Code == mh.IDENTITY {
		return bytes.Equal(full.Digest, dec.Digest)
	}
	if len(full.Digest) < len(dec.Digest) {
		return false
	}
	return bytes.Equal(full.Digest[:len(dec.Digest)], dec.Digest)
}

func classifyLoadErr(err error) string {
	if err == nil {
		return "ok"
	}
	var hm linking.ErrHashMismatch
	if errors.As(err, &hm) {
		return "hashMismatch"
	}
	if errors.Is(err, errInjected) {
		return "ioErr"
	}
	return "decodeErr"
}

type c06fault struct {
	kind   string
	data   []byte // what the storage delivers
	failAt int    // -1 = none
	chunk  int
	proto  string // "" = basicnode Any; else one of the kind-restricted basicnode prototypes
	zeroAt int    // see faultyReader
}

var c06Protos = []string{"map", "list", "string", "bytes", "int", "float", "bool", "link"}

func c06Proto(name string) datamodel.NodePrototype {
	switch name {
	case "map":
		return basicnode.Prototype.Map
	case "list":
		return basicnode.Prototype.List
	case "string":
		return basicnode.Prototype.String
	case "bytes":
		return basicnode.Prototype.Bytes
	case "int":
		return basicnode.Prototype.Int
	case "float":
		return basicnode.Prototype.Float
	case "bool":
		return basicnode.Prototype.Bool
	case "link":
		return basicnode.Prototype.Link
	}
	return basicnode.Prototype.Any
}

func tfs(b bool) string {
	if b {
		return "t"
	}
	return "f"
}

// c06Block runs every fault of one block through the four load functions.
func c06Block(c *core.Ctx, reg multicodec.Registry, lnk cidlink.Link, block []byte, faults []c06fault) error {
	decoder, err := reg.LookupDecoder(lnk.Cid.Prefix().Codec)
	if err != nil {
		return err
	}
	type obs struct {
		fn, cls  string
		returned bool
		f        c06fault
		line     string
	}
	var all []obs
	var lines []string
	for _, f := range faults {
		f := f
		mk := func() *faultyReader {
			return &faultyReader{data: f.data, failAt: f.failAt, chunk: f.chunk, zeroAt: f.zeroAt}
		}
		proto := c06Proto(f.proto)
		// measure the decoder on the same stream
		mr := mk()
		decErr := func() (err error) {
			defer func() {
				if r := recover(); r != nil {
					err = fmt.Errorf("panic %v", r)
				}
			}()
			return decoder(proto.NewBuilder(), mr)
		}()
		deliverable := f.data
		if f.failAt >= 0 && f.failAt < len(deliverable) {
			deliverable = deliverable[:f.failAt]
		}
		prefixOk := hashesTo(lnk, deliverable[:mr.pulled])
		allOk := hashesTo(lnk, deliverable)
		fa := "-"
		if f.failAt >= 0 {
			fa = fmt.Sprint(f.failAt)
		}
		fillLine := fmt.Sprintf("link.fill f %d %s %s %d %s %s", mr.pulled, tfs(decErr != nil), fa, len(f.data), tfs(prefixOk), tfs(allOk))
		rawLine := fmt.Sprintf("link.loadraw %s %d %s", fa, len(f.data), tfs(allOk))

		lsys := cidlink.LinkSystemUsingMulticodecRegistry(reg)
		var rd *faultyReader
		lsys.StorageReadOpener = func(linking.LinkContext, datamodel.Link) (io.Reader, error) {
			rd = mk()
			return rd, nil
		}
		// O: a node that is returned must be the decoding of the bytes that were hashed (not of some other stream)
		checkNode := func(fn string, n datamodel.Node) {
			if n == nil {
				return
			}
			nb := proto.NewBuilder()
			if err := decoder(nb, bytes.NewReader(f.data)); err != nil {
				c.Fail("C06/node-from-undecodable-block", core.Replay{Kind: "oracle", Case: c06Case(lnk, f, fn), Impl: termOf(n), Expected: err.Error(),
					Detail: fn + " returned a node although the delivered block does not decode"})
				return
			}
			if got, want := termOf(n), termOf(nb.Build()); got != want {
				c.Fail("C06/node-not-from-hashed-bytes", core.Replay{Kind: "oracle", Case: c06Case(lnk, f, fn), Impl: got, Expected: want,
					Detail: fn + " returned a node that is not the decoding of the bytes whose hash was verified (fault " + f.kind + ")"})
			}
		}
		run := func(fn string, line string, call func() (bool, []byte, error)) {
			var o obs
			func() {
				defer func() {
					if r := recover(); r != nil {
						o = obs{fn: fn, cls: fmt.Sprintf("panic %v", r), f: f, line: line}
					}
				}()
				gotNode, gotBytes, err := call()
				o = obs{fn: fn, cls: classifyLoadErr(err), returned: gotNode || (gotBytes != nil && err == nil), f: f, line: line}
				// O: delivered bytes vs link
				if err == nil {
					var delivered []byte
					if rd != nil {
						delivered = f.data[:rd.pos]
					}
					if gotBytes != nil {
						delivered = gotBytes
					}
					if !hashesTo(lnk, delivered) {
						c.Fail("C06/ok-without-hash-match", core.Replay{Kind: "oracle", Case: c06Case(lnk, f, fn), Impl: "ok", Expected: "hashMismatch",
							Detail: fmt.Sprintf("%s returned data although the %d delivered bytes do not hash to the link (fault %s)", fn, len(delivered), f.kind)})
					}
					if gotBytes != nil && !bytes.Equal(gotBytes, f.data) {
						c.Fail("C06/raw-bytes-differ", core.Replay{Kind: "oracle", Case: c06Case(lnk, f, fn), Impl: hex.EncodeToString(gotBytes), Expected: hex.EncodeToString(f.data)})
					}
				} else if gotNode {
					c.Fail("C06/node-beside-error", core.Replay{Kind: "oracle", Case: c06Case(lnk, f, fn), Impl: o.cls, Detail: fn + " returned a node together with an error"})
				}
			}()
			all = append(all, o)
			lines = append(lines, line)
		}
		run("Load", fillLine, func() (bool, []byte, error) {
			n, err := lsys.Load(linking.LinkContext{}, lnk, proto)
			if err == nil {
				checkNode("Load", n)
			}
			return n != nil, nil, err
		})
		run("Fill", fillLine, func() (bool, []byte, error) {
			nb := proto.NewBuilder()
			err := lsys.Fill(linking.LinkContext{}, lnk, nb)
			if err == nil {
				checkNode("Fill", nb.Build())
			}
			return false, nil, err
		})
		run("LoadRaw", rawLine, func() (bool, []byte, error) {
			b, err := lsys.LoadRaw(linking.LinkContext{}, lnk)
			if err != nil && b != nil {
				return false, b, fmt.Errorf("bytes beside error: %w", err)
			}
			return false, b, err
		})
		// LoadPlusRaw = LoadRaw then decode the buffer: predicted by loadraw, then by the decoder on the whole block
		run("LoadPlusRaw", rawLine, func() (bool, []byte, error) {
			n, b, err := lsys.LoadPlusRaw(linking.LinkContext{}, lnk, proto)
			if err != nil {
				// bytes may legitimately accompany a *decode* error (documented: "block, err"), but only verified ones
				if b != nil && !hashesTo(lnk, b) {
					return n != nil, nil, fmt.Errorf("unverified bytes beside error: %w", err)
				}
				return n != nil, nil, err
			}
			checkNode("LoadPlusRaw", n)
			return n != nil, b, nil
		})
		_ = block
	}
	outs, err := core.RunDriver(lines)
	if err != nil {
		return err
	}
	for i, o := range all {
		c.Count(c06Case(lnk, o.f, o.fn), o.f.kind != "intact")
		c.Trace(1)
		c.Dist("fault:" + o.f.kind)
		c.Dist("impl:" + strings.Fields(o.cls)[0])
		if i < 2 {
			c.Sample(map[string]string{"case": c06Case(lnk, o.f, o.fn), "impl": o.cls, "model": outs[i]})
		}
		if strings.HasPrefix(o.cls, "panic") {
			c.Fail("C06/panic", core.Replay{Kind: "oracle", Case: c06Case(lnk, o.f, o.fn), Impl: o.cls})
			continue
		}
		// O: mismatch must be reported when the bytes do not hash to the link and no I/O error occurred
		deliverable := o.f.data
		if o.f.failAt < 0 && !hashesTo(lnk, deliverable) && o.cls != "hashMismatch" {
			c.Fail("C06/mismatch-not-reported", core.Replay{Kind: "oracle", Case: c06Case(lnk, o.f, o.fn), Impl: o.cls, Expected: "hashMismatch",
				Detail: "stored bytes do not hash to the link (fault " + o.f.kind + ") but the load did not fail with a hash-mismatch error"})
		}
		if o.f.failAt >= 0 && o.f.failAt < len(o.f.data)+1 && o.cls == "ok" {
			c.Fail("C06/io-error-swallowed", core.Replay{Kind: "oracle", Case: c06Case(lnk, o.f, o.fn), Impl: o.cls, Expected: "error"})
		}
		// D
		want := outs[i]
		if o.fn == "LoadPlusRaw" && want == "ok" {
			// after a verified LoadRaw the decoder runs on the whole buffer
			if err := decoder(c06Proto(o.f.proto).NewBuilder(), bytes.NewBuffer(o.f.data)); err != nil {
				want = "decodeErr"
			}
		}
		if o.cls != want {
			c.Fail("C06/corr-load", core.Replay{Kind: "correspondence", Case: c06Case(lnk, o.f, o.fn), Impl: o.cls, Model: want + "   (" + o.line + ")"})
		}
	}
	return nil
}

func c06Case(lnk cidlink.Link, f c06fault, fn string) string {
	k := f.kind
	if f.proto != "" || f.zeroAt > 0 {
		k += "@" + f.proto
	}
	if f.zeroAt > 0 {
		k += fmt.Sprintf("@%d", f.zeroAt)
	}
	return fmt.Sprintf("c06.load %s %s %s %d %d %s", fn, hex.EncodeToString(lnk.Cid.Bytes()), hexArg(f.data), f.failAt, f.chunk, k)
}

func c06Faults(block []byte, r *core.Rand, exhaustive bool) []c06fault {
	fs := []c06fault{{kind: "intact", data: block, failAt: -1}}
	flip := func(i, bit int) {
		b := append([]byte{}, block...)
		b[i] ^= 1 << uint(bit)
		fs = append(fs, c06fault{kind: "bitflip", data: b, failAt: -1})
	}
	if exhaustive || len(block) <= 24 {
		for i := range block {
			for bit := 0; bit < 8; bit++ {
				flip(i, bit)
			}
		}
	} else {
		for n := 0; n < 48; n++ {
			flip(r.Intn(len(block)), r.Intn(8))
		}
	}
	for l := 0; l < len(block); l++ {
		if exhaustive || len(block) <= 48 || r.Chance(1, 4) {
			fs = append(fs, c06fault{kind: "truncation", data: block[:l], failAt: -1})
		}
	}
	for _, ext := range [][]byte{{0}, {0x20}, {0x0a}, {0xf6}, {0x20, 0x20, 0x0a}, r.Bytes(3)} {
		fs = append(fs, c06fault{kind: "extension", data: append(append([]byte{}, block...), ext...), failAt: -1})
	}
	fs = append(fs, c06fault{kind: "substitution", data: []byte{0xf6}, failAt: -1}, c06fault{kind: "substitution", data: []byte("{}"), failAt: -1},
		c06fault{kind: "substitution", data: r.Bytes(len(block)), failAt: -1}, c06fault{kind: "substitution", data: nil, failAt: -1})
	for off := 0; off <= len(block); off++ {
		if exhaustive || len(block) <= 48 || r.Chance(1, 4) {
			fs = append(fs, c06fault{kind: "read-error", data: block, failAt: off})
		}
	}
	for n := 0; n < 4; n++ {
		fs = append(fs, c06fault{kind: "chunked", data: block, failAt: -1, chunk: 1 + r.Intn(3)})
	}
	if len(block) > 1 {
		b := append([]byte{}, block...)
		b[r.Intn(len(b))] ^= 0x10
		fs = append(fs, c06fault{kind: "bitflip+read-error", data: b, failAt: r.Intn(len(b) + 1)})
		fs = append(fs, c06fault{kind: "bitflip+chunked", data: b, failAt: -1, chunk: 1})
	}
	// a reader that reports "nothing happened" (0, nil) once, at some offset, on intact and on corrupted streams
	for n := 0; n < 4 && len(block) > 0; n++ {
		fs = append(fs, c06fault{kind: "zero-read", data: block, failAt: -1, chunk: r.Intn(3), zeroAt: 1 + r.Intn(len(block))})
		b := append([]byte{}, block...)
		b[r.Intn(len(b))] ^= 1 << uint(r.Intn(8))
		fs = append(fs, c06fault{kind: "bitflip+zero-read", data: b, failAt: -1, zeroAt: 1 + r.Intn(len(block))})
	}
	// foreign bytes appended behind a "nothing happened" read that falls exactly at the end of the genuine block (or inside
	// its trailing whitespace): a consumer that takes (0, nil) for the end of the stream would never see them
	for _, ext := range [][]byte{{0x20}, {'x'}, {0x0a, 'x'}, {0x20, 0x20, 0x7b, 0x7d}, r.Bytes(3)} {
		for _, at := range []int{len(block) + 1, len(block) + 2} {
			if at-1 <= len(block)+len(ext) {
				fs = append(fs, c06fault{kind: "extension+zero-read", data: append(append([]byte{}, block...), ext...), failAt: -1, zeroAt: at, chunk: r.Intn(2)})
			}
		}
	}
	// the same faults through kind-restricted prototypes: the assembler may refuse the data (wrong kind) at any point,
	// and the hash verdict must still come first
	n0 := len(fs)
	for i := 0; i < n0; i++ {
		if exhaustive || r.Chance(1, 2) {
			g := fs[i]
			g.proto = c06Protos[r.Intn(len(c06Protos))]
			fs = append(fs, g)
		}
	}
	return fs
}

var c06Codecs = []uint64{0x71, 0x0129, 0x55, 0x51, 0x0200}
var c06Hashes = []uint64{mh.SHA2_256, mh.SHA2_512, mh.SHA1, mh.IDENTITY, mh.MD5}

func genForCodec(r *core.Rand, codecCode uint64) core.Val {
	cfg := core.DefaultGen
	cfg.MaxDepth, cfg.MaxWidth, cfg.LongStr = 3, 3, false
	switch codecCode {
	case 0x55:
		return core.Bytes(r.Bytes(r.Intn(20)))
	case 0x0129, 0x0200:
		cfg.ValidUTF8, cfg.BigUint = true, false
		cfg.Floats = false // K2: integral floats do not survive the JSON codecs (C04); kept out of the block generator here
		if codecCode == 0x0200 {
			cfg.Links, cfg.Bytes = false, false
		}
	case 0x51:
		cfg.Links = false
	}
	for {
		v := core.GenVal(r, cfg, 0)
		if codecCode == 0x0129 && r.Chance(1, 12) {
			// maps that BEGIN like the reserved link / bytes forms and then carry more (these are in the domain)
			str := core.Str([]string{"aGVsbG8", "bafkqaaik", "x", ""}[r.Intn(4)])
			more := core.KV{K: []byte([]string{"mime", "z", "bytes2", "0"}[r.Intn(4)]), V: core.GenVal(r, cfg, 2)}
			switch r.Intn(4) {
			case 0:
				v = core.Map(core.KV{K: []byte("/"), V: core.Map(core.KV{K: []byte("bytes"), V: str}, more)})
			case 1:
				v = core.Map(core.KV{K: []byte("/"), V: core.Map(core.KV{K: []byte("bytes"), V: str})}, more)
			case 2:
				v = core.Map(core.KV{K: []byte("/"), V: str}, more)
			default:
				v = core.Map(core.KV{K: []byte("/"), V: core.Map(core.KV{K: []byte("bytes"), V: str}, more, core.KV{K: []byte("zz"), V: core.Int(1)})}, core.KV{K: []byte("k"), V: v})
			}
			if r.Bool() {
				v = core.List(v, core.Int(1))
			}
		}
		if codecCode == 0x0129 && hasReservedShape(v) {
			// {"/": "text"} and {"/": {"bytes": "text"}} are not in DAG-JSON's domain (they ARE its link and bytes forms):
			// the encoder writes them as they are and they read back as something else (C04's rule excludes them)
			continue
		}
		return v
	}
}

func runC06(c *core.Ctx) error {
	c.Rule = "blocks = encodings of generated values under dag-cbor, dag-json, raw, cbor, json with sha2-256/sha2-512/sha1/md5/identity and truncated digests; per block: every single-bit flip and every truncation length and a read error at every offset (sampled for blocks above 48 bytes in the quick tier), appended bytes incl. whitespace, substituted blocks, chunkings, combinations; each through Load, Fill, LoadRaw, LoadPlusRaw; non-trivial = a faulted stream; distinct by (link, fault, function)"
	c.Explanation = "theorems (arbitrary hash function, reader and decoder behaviour): fill_ok_hashes, fill_ok_whole_block (no hypothesis on the decoder), mismatch_precedes_decode, mismatch_whatever_the_decoder, io_surfaces, loadRaw_ok_hashes, store_fail_no_commit, corruption_refused_any_decoder"
	c.Assumptions = []string{"hash implementations (go-multihash) are trusted; statements are modulo collisions (a truncated digest of length 0 accepts everything)", "TrustedStorage is excluded by the property", "a read error persists once it has occurred"}
	reg := testRegistry()
	nblocks := c.Pick(40, 1500)
	for i := 0; i < nblocks; i++ {
		r := c.Rand.Fork()
		cc := c06Codecs[i%len(c06Codecs)]
		v := genForCodec(r, cc)
		n, err := core.BuildBasic(v, r)
		if err != nil {
			return err
		}
		hcode := c06Hashes[r.Intn(len(c06Hashes))]
		mhLen := -1
		if hcode != mh.IDENTITY && r.Chance(1, 3) {
			mhLen = []int{4, 8, 16}[r.Intn(3)]
		}
		lp := cidlink.LinkPrototype{Prefix: cid.Prefix{Version: 1, Codec: cc, MhType: hcode, MhLength: mhLen}}
		lsys := cidlink.LinkSystemUsingMulticodecRegistry(reg)
		var buf bytes.Buffer
		lsys.StorageWriteOpener = func(linking.LinkContext) (io.Writer, linking.BlockWriteCommitter, error) {
			return &buf, func(datamodel.Link) error { return nil }, nil
		}
		lnk, err := lsys.Store(linking.LinkContext{}, lp, n)
		if err != nil {
			c.Dist("store-refused:" + fmt.Sprint(cc))
			continue
		}
		c.Dist(fmt.Sprintf("codec:0x%x", cc))
		if err := c06Block(c, reg, lnk.(cidlink.Link), buf.Bytes(), c06Faults(buf.Bytes(), r, c.Thorough() && len(buf.Bytes()) <= 200)); err != nil {
			return err
		}
	}
	if err := c06Nested(c, reg); err != nil {
		return err
	}
	c06Large(c, reg)
	c06Extended(c, reg)
	c06HostileLinks(c, reg)
	c06EarlyStop(c)
	return c06Store(c, reg)
}

// c06Large: blocks of several MiB whose decoding fails at once (a flipped first byte, or an undecodable head in front of
// the content), so that almost the whole stream is still unread when the codec gives up: the stream does not hash to
// the link, and that is what must be reported - at every size, through plain readers and through readers that are
// also io.WriterTo.
func c06Large(c *core.Ctx, reg multicodec.Registry) {
	sizes := []int{1 << 20, 5 << 20}
	if c.Thorough() {
		sizes = append(sizes, 4<<20-1, 4<<20, 4<<20+1, 9<<20)
	}
	for _, size := range sizes {
		for _, codecCode := range []uint64{0x71, 0x0129} {
			payload := bytes.Repeat([]byte{0x61}, size)
			var block []byte
			if codecCode == 0x71 {
				block = append([]byte{0x7a, byte(size >> 24), byte(size >> 16), byte(size >> 8), byte(size)}, payload...) // a text string
			} else {
				block = append(append([]byte{'"'}, payload...), '"')
			}
			sum, _ := mh.Sum(block, mh.SHA2_256, -1)
			lnk := cidlink.Link{Cid: cid.NewCidV1(codecCode, sum)}
			bad := append([]byte{}, block...)
			bad[0] = 0xff
			for _, plain := range []bool{true, false} {
				lsys := cidlink.LinkSystemUsingMulticodecRegistry(reg)
				lsys.StorageReadOpener = func(linking.LinkContext, datamodel.Link) (io.Reader, error) {
					if plain {
						return struct{ io.Reader }{bytes.NewReader(bad)}, nil
					}
					return bytes.NewReader(bad), nil
				}
				for _, fn := range []string{"Load", "Fill"} {
					var err error
					_, panicked, pv := core.Catch(func() error {
						if fn == "Load" {
							_, err = lsys.Load(linking.LinkContext{}, lnk, basicnode.Prototype.Any)
						} else {
							err = lsys.Fill(linking.LinkContext{}, lnk, basicnode.Prototype.Any.NewBuilder())
						}
						return nil
					})
					caseID := fmt.Sprintf("c06.large %s codec=0x%x size=%d plain-reader=%v first-byte=ff", fn, codecCode, size, plain)
					c.Count(caseID, true)
					c.Dist("large-block:" + fn)
					if panicked {
						c.Fail("C06/panic", core.Replay{Kind: "oracle", Case: caseID, Impl: fmt.Sprint(pv)})
					} else if cls := classifyLoadErr(err); cls != "hashMismatch" {
						c.Fail("C06/mismatch-not-reported", core.Replay{Kind: "oracle", Case: caseID, Impl: cls + " " + fmt.Sprint(err), Expected: "hashMismatch",
							Detail: "the stream does not hash to the link; a hash mismatch is reported before any decoding error, however much of the stream the codec left unread"})
					}
				}
			}
		}
	}
}

// c06Extended: intact blocks whose length is exactly a power of two (where a size cap or a buffer boundary would sit),
// one below and one above, extended in storage by one more byte (a letter, a space, a newline): the stream no longer
// hashes to the link and every loading function says so.
func c06Extended(c *core.Ctx, reg multicodec.Registry) {
	exps := []uint{12, 16, 20, 24}
	if c.Thorough() {
		exps = []uint{10, 12, 15, 16, 17, 20, 22, 23, 24, 25}
	}
	var sizes []int
	for _, e := range exps {
		for _, delta := range []int{-1, 0, 1} {
			sizes = append(sizes, 1<<e+delta)
		}
	}
	// the default allocation budget of the DAG-CBOR decoder (a "natural" ceiling for anybody's buffer) and its neighbours
	sizes = append(sizes, 10<<20-1, 10<<20, 10<<20+1)
	for _, size := range sizes {
		{
			for _, codecCode := range []uint64{0x71, 0x0129, 0x55} {
				var block []byte
				if codecCode == 0x55 {
					block = bytes.Repeat([]byte{0x62}, size)
					block[size/2] = 0x63
				} else if codecCode == 0x71 {
					n := size - 5
					block = append([]byte{0x7a, byte(n >> 24), byte(n >> 16), byte(n >> 8), byte(n)}, bytes.Repeat([]byte{0x61}, n)...)
				} else {
					block = append(append([]byte{'"'}, bytes.Repeat([]byte{0x61}, size-2)...), '"')
				}
				sum, _ := mh.Sum(block, mh.SHA2_256, -1)
				lnk := cidlink.Link{Cid: cid.NewCidV1(codecCode, sum)}
				if codecCode == 0x55 || codecCode == 0x0129 && size < 8<<20 || codecCode == 0x71 && size-5 >= 1<<16 && size < 8<<20 { // (the hand-made DAG-CBOR head is the 4-byte form: canonical from 2^16 on; a single string near the decoders' allocation budget is refused by it)
					// the intact block loads, and (raw) the node holds all of it
					lsys := cidlink.LinkSystemUsingMulticodecRegistry(reg)
					lsys.StorageReadOpener = func(linking.LinkContext, datamodel.Link) (io.Reader, error) {
						return struct{ io.Reader }{bytes.NewReader(block)}, nil
					}
					n, err := lsys.Load(linking.LinkContext{}, lnk, basicnode.Prototype.Any)
					caseID := fmt.Sprintf("c06.extended Load codec=0x%x size=%d intact", codecCode, size)
					c.Count(caseID, false)
					if err != nil {
						c.Fail("C06/intact-block-refused", core.Replay{Kind: "oracle", Case: caseID, Impl: truncateStr(fmt.Sprint(err), 200), Expected: "loaded"})
					} else if codecCode == 0x55 {
						if got, _ := n.AsBytes(); !bytes.Equal(got, block) {
							c.Fail("C06/loaded-node-is-not-the-block", core.Replay{Kind: "oracle", Case: caseID, Impl: fmt.Sprintf("%d bytes", len(got)), Expected: fmt.Sprintf("%d bytes", len(block)),
								Detail: "a raw block loaded without error, but the node does not hold the bytes that hash to the link"})
						}
					}
				}
				for _, ext := range []byte{'x', ' ', '\n'} {
					stored := append(append([]byte{}, block...), ext)
					lsys := cidlink.LinkSystemUsingMulticodecRegistry(reg)
					lsys.StorageReadOpener = func(linking.LinkContext, datamodel.Link) (io.Reader, error) { return bytes.NewReader(stored), nil }
					for _, fn := range []string{"Load", "Fill", "LoadRaw", "LoadPlusRaw"} {
						var err error
						_, panicked, pv := core.Catch(func() error {
							switch fn {
							case "Load":
								_, err = lsys.Load(linking.LinkContext{}, lnk, basicnode.Prototype.Any)
							case "Fill":
								err = lsys.Fill(linking.LinkContext{}, lnk, basicnode.Prototype.Any.NewBuilder())
							case "LoadRaw":
								_, err = lsys.LoadRaw(linking.LinkContext{}, lnk)
							default:
								_, _, err = lsys.LoadPlusRaw(linking.LinkContext{}, lnk, basicnode.Prototype.Any)
							}
							return nil
						})
						caseID := fmt.Sprintf("c06.extended %s codec=0x%x size=%d ext=%q", fn, codecCode, size, string(ext))
						c.Count(caseID, true)
						c.Dist("extended-block:" + fn)
						if panicked {
							c.Fail("C06/panic", core.Replay{Kind: "oracle", Case: caseID, Impl: fmt.Sprint(pv)})
						} else if err == nil {
							c.Fail("C06/ok-without-hash-match", core.Replay{Kind: "oracle", Case: caseID, Impl: "loaded", Expected: "hash mismatch", Detail: "the stored stream is the block plus one byte"})
						} else if cls := classifyLoadErr(err); cls != "hashMismatch" {
							c.Fail("C06/mismatch-not-reported", core.Replay{Kind: "oracle", Case: caseID, Impl: cls + " " + truncateStr(fmt.Sprint(err), 200), Expected: "hashMismatch"})
						}
					}
				}
			}
		}
	}
}

// c06EarlyStop: link systems whose DecoderChooser hands out decoders that stop BEFORE the end of the stream - the
// bundled decoders configured with DontParseBeyondEnd, a decoder that reads a fixed number of bytes, one that reads
// nothing - over blocks that were extended, or changed behind the point where the decoder stops, in storage: the hash
// is that of the whole stream whatever the decoder consumed, so every such load fails with the hash mismatch; the intact
// block loads.
func c06EarlyStop(c *core.Ctx) {
	r := c.Rand.Fork()
	type dec struct {
		name  string
		codec uint64
		fn    codec.Decoder
	}
	decs := []dec{
		{"dagcbor-DontParseBeyondEnd", 0x71, dagcbor.DecodeOptions{AllowLinks: true, DontParseBeyondEnd: true}.Decode},
		{"dagjson-DontParseBeyondEnd", 0x0129, dagjson.DecodeOptions{ParseLinks: true, ParseBytes: true, DontParseBeyondEnd: true}.Decode},
		{"reads-8-bytes", 0x55, func(na datamodel.NodeAssembler, rd io.Reader) error {
			buf := make([]byte, 8)
			n, _ := io.ReadFull(rd, buf)
			return na.AssignBytes(buf[:n])
		}},
		{"reads-nothing", 0x55, func(na datamodel.NodeAssembler, rd io.Reader) error { return na.AssignNull() }},
	}
	for i := 0; i < c.Pick(60, 3000); i++ {
		d := decs[r.Intn(len(decs))]
		var block []byte
		if d.codec == 0x55 {
			block = r.Bytes(9 + r.Intn(40))
		} else {
			n, err := core.BuildBasic(genForCodec(r, d.codec), r)
			if err != nil {
				continue
			}
			var buf bytes.Buffer
			enc := dagcbor.Encode
			if d.codec == 0x0129 {
				enc = dagjson.Encode
			}
			if err := enc(n, &buf); err != nil {
				continue
			}
			block = buf.Bytes()
		}
		sum, _ := mh.Sum(block, mh.SHA2_256, -1)
		lnk := cidlink.Link{Cid: cid.NewCidV1(d.codec, sum)}
		type variant struct {
			name   string
			stored []byte
			intact bool
		}
		vars := []variant{{"intact", block, true}, {"extended", append(append([]byte{}, block...), r.Bytes(1+r.Intn(6))...), false}}
		if d.codec == 0x55 && len(block) > 9 {
			ch := append([]byte{}, block...)
			ch[8+r.Intn(len(ch)-8)] ^= 0x40 // behind the point where the decoder stops
			vars = append(vars, variant{"changed-behind-the-decoder", ch, false})
		}
		for _, vr := range vars {
			lsys := cidlink.DefaultLinkSystem()
			lsys.DecoderChooser = func(datamodel.Link) (codec.Decoder, error) { return d.fn, nil }
			stored := vr.stored
			lsys.StorageReadOpener = func(linking.LinkContext, datamodel.Link) (io.Reader, error) { return bytes.NewReader(stored), nil }
			for _, fn := range []string{"Load", "Fill", "LoadPlusRaw"} {
				var err error
				_, panicked, pv := core.Catch(func() error {
					switch fn {
					case "Load":
						_, err = lsys.Load(linking.LinkContext{}, lnk, basicnode.Prototype.Any)
					case "Fill":
						err = lsys.Fill(linking.LinkContext{}, lnk, basicnode.Prototype.Any.NewBuilder())
					default:
						_, _, err = lsys.LoadPlusRaw(linking.LinkContext{}, lnk, basicnode.Prototype.Any)
					}
					return nil
				})
				caseID := fmt.Sprintf("c06.early-stop %s decoder=%s %s block=%x stored=%x", fn, d.name, vr.name, block, stored)
				c.Count(caseID, !vr.intact)
				c.Dist("early-stop:" + d.name + ":" + vr.name)
				switch {
				case panicked:
					c.Fail("C06/panic", core.Replay{Kind: "oracle", Case: caseID, Impl: fmt.Sprint(pv)})
				case vr.intact && err != nil:
					c.Fail("C06/intact-block-refused", core.Replay{Kind: "oracle", Case: caseID, Impl: truncateStr(fmt.Sprint(err), 200), Expected: "loaded"})
				case !vr.intact && err == nil:
					c.Fail("C06/ok-without-hash-match", core.Replay{Kind: "oracle", Case: caseID, Impl: "loaded", Expected: "hash mismatch", Detail: "the decoder stops before the end of the stream; the stream as a whole does not hash to the link"})
				case !vr.intact && classifyLoadErr(err) != "hashMismatch":
					c.Fail("C06/mismatch-not-reported", core.Replay{Kind: "oracle", Case: caseID, Impl: truncateStr(fmt.Sprint(err), 200), Expected: "hashMismatch"})
				}
			}
		}
	}
}

// c06HostileLinks: links as untrusted data may carry them - a multihash that declares a digest LONGER (or shorter) than
// its hash function produces, an identity multihash longer or shorter than what the source answers with - loaded from a
// source that answers every request: no load returns data (nothing hashes to such a link), and none panics.
func c06HostileLinks(c *core.Ctx, reg multicodec.Registry) {
	r := c.Rand.Fork()
	for i := 0; i < c.Pick(120, 8000); i++ {
		code := []uint64{mh.SHA2_256, mh.SHA2_512, mh.SHA1, mh.MD5, mh.IDENTITY, mh.SHA2_256}[r.Intn(6)]
		content := r.Bytes(r.Intn(80))
		honest, _ := mh.Sum(content, code, -1)
		dm, _ := mh.Decode(honest)
		var digest []byte
		which := r.Intn(4)
		if code == mh.IDENTITY && len(content) > 1 && r.Bool() {
			which = 4
		}
		switch which {
		case 4:
			// an identity link that carries a proper PREFIX of what the source answers with: the content is not the
			// link's content, however the comparison truncates
			digest = append([]byte{}, content[:r.Intn(len(content))]...)
		case 0:
			digest = append(append([]byte{}, dm.Digest...), r.Bytes(1+r.Intn(40))...) // longer than the function yields
		case 1:
			digest = append(append([]byte{}, dm.Digest...), 0)
		case 2:
			digest = r.Bytes(len(dm.Digest) + 1 + r.Intn(100))
		default:
			if len(dm.Digest) > 1 {
				digest = append([]byte{}, dm.Digest[:len(dm.Digest)-1]...)
				digest[0] ^= 1 // a proper truncation of a DIFFERENT hash
			} else {
				digest = []byte{1, 2, 3}
			}
		}
		enc, err := mh.Encode(digest, code)
		if err != nil {
			continue
		}
		codecCode := []uint64{0x55, 0x71, 0x0129}[r.Intn(3)]
		lnk := cidlink.Link{Cid: cid.NewCidV1(codecCode, enc)}
		lsys := cidlink.LinkSystemUsingMulticodecRegistry(reg)
		lsys.StorageReadOpener = func(linking.LinkContext, datamodel.Link) (io.Reader, error) { return bytes.NewReader(content), nil }
		for _, fn := range []string{"Load", "Fill", "LoadRaw", "LoadPlusRaw"} {
			var err error
			_, panicked, pv := core.Catch(func() error {
				switch fn {
				case "Load":
					_, err = lsys.Load(linking.LinkContext{}, lnk, basicnode.Prototype.Any)
				case "Fill":
					err = lsys.Fill(linking.LinkContext{}, lnk, basicnode.Prototype.Any.NewBuilder())
				case "LoadRaw":
					_, err = lsys.LoadRaw(linking.LinkContext{}, lnk)
				default:
					_, _, err = lsys.LoadPlusRaw(linking.LinkContext{}, lnk, basicnode.Prototype.Any)
				}
				return nil
			})
			caseID := fmt.Sprintf("c06.hostile-link %s mh=0x%x declared-digest=%d function-yields=%d codec=0x%x content=%x", fn, code, len(digest), len(dm.Digest), codecCode, content)
			c.Count(caseID, true)
			c.Dist("hostile-link:" + fn)
			if panicked {
				c.Fail("C06/panic", core.Replay{Kind: "oracle", Case: caseID, Impl: fmt.Sprint(pv), Expected: "hash mismatch"})
			} else if err == nil {
				c.Fail("C06/ok-without-hash-match", core.Replay{Kind: "oracle", Case: caseID, Impl: "loaded", Expected: "hash mismatch"})
			}
		}
	}
}

// nestedReader delivers `data` in two halves and, between them, runs `mid` (another load on the same link system).
type nestedReader struct {
	data []byte
	pos  int
	mid  func()
	done bool
}

func (r *nestedReader) Read(p []byte) (int, error) {
	if r.pos >= len(r.data) {
		return 0, io.EOF
	}
	half := (len(r.data) + 1) / 2
	if r.pos >= half && !r.done {
		r.done = true
		r.mid()
	}
	end := len(r.data)
	if r.pos < half {
		end = half
	}
	n := copy(p, r.data[r.pos:end])
	r.pos += n
	return n, nil
}

// c06Nested: loads that OVERLAP on one link system - the storage reader of block A performs, half-way, a complete load
// of block B (as a storage layered on the link system, a lazy ADL or a second goroutine would) and then goes on.
// Every load answers as it does alone: good blocks load, a block whose stream is another block's tail or a corrupted
// block is refused with a hash mismatch, whatever the other load did to any state the link system keeps.
func c06Nested(c *core.Ctx, reg multicodec.Registry) error {
	n := c.Pick(60, 4000)
	for i := 0; i < n; i++ {
		r := c.Rand.Fork()
		lsys := cidlink.LinkSystemUsingMulticodecRegistry(reg)
		hcode := []uint64{mh.SHA2_256, mh.SHA2_256, mh.SHA2_512, mh.SHA1}[r.Intn(4)]
		lp := cidlink.LinkPrototype{Prefix: cid.Prefix{Version: 1, Codec: 0x55, MhType: hcode, MhLength: -1}}
		// raw blocks: B is a prefix of A (the worst case for a hasher that is shared and re-fed), or unrelated
		a := r.Bytes(40 + r.Intn(200))
		var b []byte
		if r.Bool() {
			b = append([]byte{}, a[:len(a)/2]...)
		} else {
			b = r.Bytes(20 + r.Intn(100))
		}
		linkOf := func(data []byte) cidlink.Link {
			sum, _ := mh.Sum(data, hcode, -1)
			return cidlink.Link{Cid: cid.NewCidV1(0x55, sum)}
		}
		la, lb := linkOf(a), linkOf(b)
		_ = lp
		// what the storage delivers for A: the block itself, or only its tail (which must NOT be accepted for A's link)
		streamA := a
		tailOnly := r.Chance(1, 2)
		if tailOnly {
			streamA = a[len(a)/2:]
		}
		fn := []string{"Load", "Fill", "LoadRaw", "LoadPlusRaw"}[r.Intn(4)]
		do := func(l cidlink.Link) (string, error) {
			switch fn {
			case "Load":
				nd, err := lsys.Load(linking.LinkContext{}, l, basicnode.Prototype.Any)
				return termOfOrErr(nd, err), err
			case "Fill":
				nb := basicnode.Prototype.Any.NewBuilder()
				err := lsys.Fill(linking.LinkContext{}, l, nb)
				if err != nil {
					return "err " + err.Error(), err
				}
				return termOf(nb.Build()), nil
			case "LoadRaw":
				raw, err := lsys.LoadRaw(linking.LinkContext{}, l)
				return fmt.Sprintf("%x %v", raw, err), err
			default:
				nd, raw, err := lsys.LoadPlusRaw(linking.LinkContext{}, l, basicnode.Prototype.Any)
				return fmt.Sprintf("%s %x", termOfOrErr(nd, err), raw), err
			}
		}
		var innerOut string
		var innerErr error
		nested := true
		lsys.StorageReadOpener = func(_ linking.LinkContext, l datamodel.Link) (io.Reader, error) {
			if l.(cidlink.Link).Cid.Equals(lb.Cid) {
				return &nestedReader{data: b, mid: func() {}}, nil
			}
			rd := &nestedReader{data: streamA, mid: func() {}}
			if nested {
				rd.mid = func() { innerOut, innerErr = do(lb) }
			}
			return rd, nil
		}
		caseID := fmt.Sprintf("c06.nested %s hash=0x%x A=%x B=%x tail-only=%v", fn, hcode, a, b, tailOnly)
		var outN, outAlone string
		var errN, errAlone error
		_, panicked, pv := core.Catch(func() error {
			outN, errN = do(la)
			nested = false
			outAlone, errAlone = do(la)
			return nil
		})
		c.Count(caseID, true)
		c.Dist("nested-load:" + fn)
		if panicked {
			c.Fail("C06/panic", core.Replay{Kind: "oracle", Case: caseID, Impl: fmt.Sprint(pv)})
			continue
		}
		if outN != outAlone || (errN == nil) != (errAlone == nil) {
			c.Fail("C06/overlapping-loads-interfere", core.Replay{Kind: "oracle", Case: caseID, Impl: outN, Expected: outAlone, Detail: "load of A with a complete load of B performed by A's storage reader half-way, against the same load of A alone"})
		}
		if tailOnly && errN == nil {
			c.Fail("C06/ok-without-hash-match", core.Replay{Kind: "oracle", Case: caseID, Impl: outN, Expected: "hash mismatch", Detail: "the storage delivered only the tail of A"})
		}
		if innerErr != nil {
			c.Fail("C06/overlapping-loads-interfere", core.Replay{Kind: "oracle", Case: caseID, Impl: innerOut, Expected: "B loads", Detail: "the inner load (B, delivered intact) failed"})
		}
	}
	return nil
}

// failingWriter fails on write number failAt.
type failingWriter struct {
	n, failAt int
	buf       bytes.Buffer
}

func (w *failingWriter) Write(p []byte) (int, error) {
	if w.n == w.failAt {
		return 0, errInjectedWrite
	}
	w.n++
	return w.buf.Write(p)
}

// c06Store: a failing encoder or storage writer never reaches the committer.
func c06Store(c *core.Ctx, reg multicodec.Registry) error {
	var lines, impl, cases []string
	for i := 0; i < c.Pick(60, 2000); i++ {
		r := c.Rand.Fork()
		cc := c06Codecs[i%2] // dag-cbor, dag-json
		v := genForCodec(r, cc)
		n, err := core.BuildBasic(v, r)
		if err != nil {
			return err
		}
		// count the writes of a clean run
		cw := &failingWriter{failAt: -1}
		var enc codec.Encoder
		if enc, err = reg.LookupEncoder(cc); err != nil {
			return err
		}
		if err := enc(n, cw); err != nil {
			continue
		}
		for failAt := -1; failAt <= cw.n; failAt++ {
			if failAt >= 0 && cw.n > 12 && !r.Chance(1, 3) {
				continue
			}
			committed := false
			lsys := cidlink.LinkSystemUsingMulticodecRegistry(reg)
			fw := &failingWriter{failAt: failAt}
			lsys.StorageWriteOpener = func(linking.LinkContext) (io.Writer, linking.BlockWriteCommitter, error) {
				return fw, func(datamodel.Link) error { committed = true; return nil }, nil
			}
			_, err := lsys.Store(linking.LinkContext{}, cidlink.LinkPrototype{Prefix: cid.Prefix{Version: 1, Codec: cc, MhType: mh.SHA2_256, MhLength: -1}}, n)
			wf := "-"
			if failAt >= 0 {
				wf = fmt.Sprint(failAt)
			}
			lines = append(lines, fmt.Sprintf("link.store %d f %s", cw.n, wf))
			cases = append(cases, fmt.Sprintf("c06.store 0x%x %s writer-fails-at=%s", cc, v.Term(), wf))
			got := "failed"
			if committed {
				got = "committed"
			}
			if committed && err != nil {
				got = "committed-with-error"
			}
			if !committed && err == nil {
				got = "no-commit-no-error"
			}
			impl = append(impl, got)
			if failAt >= 0 && failAt < cw.n && committed {
				c.Fail("C06/commit-after-write-failure", core.Replay{Kind: "oracle", Case: cases[len(cases)-1], Impl: got, Expected: "failed"})
			}
		}
	}
	outs, err := core.RunDriver(lines)
	if err != nil {
		return err
	}
	for i := range lines {
		c.Count(cases[i], true)
		c.Dist("store:" + impl[i])
		if outs[i] != impl[i] {
			c.Fail("C06/corr-store", core.Replay{Kind: "correspondence", Case: cases[i], Impl: impl[i], Model: outs[i] + "   (" + lines[i] + ")"})
		}
	}
	return nil
}

func replayC06(c *core.Ctx, rp core.Replay) error {
	f := strings.Fields(rp.Case)
	if len(f) < 7 || f[0] != "c06.load" {
		return fmt.Errorf("only c06.load cases are replayable; case: %s", rp.Case)
	}
	cb, err := hex.DecodeString(f[2])
	if err != nil {
		return err
	}
	ci, err := cid.Cast(cb)
	if err != nil {
		return err
	}
	var data []byte
	if f[3] != "-" {
		if data, err = hex.DecodeString(f[3]); err != nil {
			return err
		}
	}
	var failAt, chunk int
	fmt.Sscan(f[4], &failAt)
	fmt.Sscan(f[5], &chunk)
	kp := strings.Split(f[6], "@")
	flt := c06fault{kind: kp[0], data: data, failAt: failAt, chunk: chunk}
	if len(kp) > 1 {
		flt.proto = kp[1]
	}
	if len(kp) > 2 {
		fmt.Sscan(kp[2], &flt.zeroAt)
	}
	return c06Block(c, testRegistry(), cidlink.Link{Cid: ci}, nil, []c06fault{flt})
}
