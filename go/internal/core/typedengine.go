package core

import (
	"fmt"

	"github.com/ipld/go-ipld-prime/datamodel"
	"github.com/ipld/go-ipld-prime/node/bindnode"
	"github.com/ipld/go-ipld-prime/schema"
)

// TypedEngine is one typed-node engine bound to one type system: the reflection binding (bindnode)
// now, generated code (C13) later.  Builders are obtained per named type, at type level and at
// representation level; ModelName is the engine instance of the Lean schema model that mirrors it.
type TypedEngine interface {
	Name() string
	ModelName() string
	NewTypeBuilder(typeName string) (datamodel.NodeBuilder, error)
	NewReprBuilder(typeName string) (datamodel.NodeBuilder, error)
}

// BindEngine: bindnode.Prototype(nil, schemaType) - the schema is explicit, only the Go type is
// inferred (per call, no package-level registry involved on that path).
type BindEngine struct {
	ts     *schema.TypeSystem
	protos map[string]schema.TypedPrototype
}

func NewBindEngine(ts *schema.TypeSystem) *BindEngine {
	return &BindEngine{ts: ts, protos: map[string]schema.TypedPrototype{}}
}

func (e *BindEngine) Name() string      { return "bindnode" }
func (e *BindEngine) ModelName() string { return "bindnode" }

func (e *BindEngine) proto(typeName string) (p schema.TypedPrototype, err error) {
	if p, ok := e.protos[typeName]; ok {
		return p, nil
	}
	t := e.ts.TypeByName(typeName)
	if t == nil {
		return nil, fmt.Errorf("no type %q in the type system", typeName)
	}
	defer func() {
		if r := recover(); r != nil {
			err = fmt.Errorf("bindnode.Prototype(nil, %s) panicked: %v", typeName, r)
		}
	}()
	p = bindnode.Prototype(nil, t)
	e.protos[typeName] = p
	return p, nil
}

func (e *BindEngine) NewTypeBuilder(typeName string) (datamodel.NodeBuilder, error) {
	p, err := e.proto(typeName)
	if err != nil {
		return nil, err
	}
	return p.NewBuilder(), nil
}

func (e *BindEngine) NewReprBuilder(typeName string) (datamodel.NodeBuilder, error) {
	p, err := e.proto(typeName)
	if err != nil {
		return nil, err
	}
	return p.Representation().NewBuilder(), nil
}
