package checks

import (
	"bytes"
	"context"
	"encoding/base64"
	"encoding/hex"
	"fmt"
	"io"
	"net/url"
	"os"
	"path/filepath"
	"sort"
	"strings"

	"github.com/ipfs/go-cid"
	"github.com/ipld/go-ipld-prime/linking"
	cidlink "github.com/ipld/go-ipld-prime/linking/cid"
	"github.com/ipld/go-ipld-prime/storage"
	"github.com/ipld/go-ipld-prime/storage/fsstore"
	"github.com/ipld/go-ipld-prime/storage/memstore"
	"github.com/ipld/go-ipld-prime/storage/sharding"
	mbase "github.com/multiformats/go-multibase"
	mh "github.com/multiformats/go-multihash"

	"verif/internal/core"
)

// C17 — block storage is a faithful key-value map for arbitrary binary keys.
//
//   impl observation : results of put / put-stream / put-vec / get / get-stream / peek / has (through the storage
//                      package's feature-detecting functions) on memstore, cidlink.Memory and fsstore (default and
//                      custom sharding); the set of filesystem paths that exist afterwards
//   (D) correspondence: results == the Lean write-once map (`store.kv`); every file the filesystem store created is at
//                       base / shard(base32(key)) as the model computes it (`store.path`)
//   (O) oracle        : results == a Go map of what was successfully put; caller's buffer mutated after put does not change
//                       what is stored; the canary directory around the base directory is byte-for-byte unchanged and
//                       nothing but the predicted files and their shard directories exists under base.

func init() {
	core.Register(&core.Check{ID: "C17", Run: runC17, Replay: replayC17})
}

type kvStore interface {
	storage.ReadableStorage
	storage.WritableStorage
}

var adversarialKeys = []string{"\x00", "a/b", "../../escaped", "..", ".", ".temp/x", "/", "//", "a\x00b", "\xff\xfe", "k", "ab", "abc", "abcd", "abcde", "abcdef", "abcdefg",
	"C:\\x", "~", " ", "\n", strings.Repeat("L", 100), strings.Repeat("\x00", 5)}

// longKeys: keys whose escaped (base32) name is right at the file-name length limit of common filesystems (255), one
// below, and extensions of those (the escaped name of one is a proper prefix of the other's).  A store may refuse such
// a key with an error; it must not store it in a way that changes what other keys answer.
var longKeys = func() []string {
	base := strings.Repeat("A", 159) // 159 bytes ↦ 255 base32 characters
	return []string{base[:158], base, base + "\x01", base + "\x01\x02", base + "\x1f" + strings.Repeat("B", 40), base + "A", strings.Repeat("A", 400)}
}()

func genKey(r *core.Rand) string {
	if r.Chance(1, 10) {
		return longKeys[r.Intn(len(longKeys))]
	}
	switch r.Intn(5) {
	case 0:
		return adversarialKeys[r.Intn(len(adversarialKeys))]
	case 1:
		return string(r.Bytes(1 + r.Intn(6)))
	case 2: // binary form of a CID, as link systems use
		sum, _ := mh.Sum(r.Bytes(8), mh.SHA2_256, -1)
		if r.Bool() {
			return cid.NewCidV0(sum).KeyString()
		}
		return cid.NewCidV1(0x71, sum).KeyString()
	default:
		return string(core.GenStrBytes(r, core.GenCfg{}))
	}
}

// relatedKey: another spelling of k - the text forms of a binary CID (and the binary form of a textual one), the
// usual text encodings of the bytes, case changes, padding - always a different string.
func relatedKey(r *core.Rand, k string) string {
	var cands []string
	if c, err := cid.Cast([]byte(k)); err == nil {
		cands = append(cands, c.String())
		if s, err := c.StringOfBase(mbase.Base16); err == nil {
			cands = append(cands, s)
		}
		if s, err := c.StringOfBase(mbase.Base58BTC); err == nil {
			cands = append(cands, s)
		}
		if s, err := c.StringOfBase(mbase.Base32Upper); err == nil {
			cands = append(cands, s)
		}
		if c.Version() == 0 {
			cands = append(cands, cid.NewCidV1(cid.DagProtobuf, c.Hash()).KeyString())
		}
	}
	if c, err := cid.Decode(k); err == nil {
		cands = append(cands, c.KeyString())
	}
	cands = append(cands, hex.EncodeToString([]byte(k)), b32NoPad(k), strings.ToLower(b32NoPad(k)), base64.StdEncoding.EncodeToString([]byte(k)),
		strings.ToUpper(k), strings.ToLower(k), k+"=", k+"\x00", " "+k, k+" ", url.QueryEscape(k), url.PathEscape(k))
	if b, err := hex.DecodeString(k); err == nil && len(b) > 0 {
		cands = append(cands, string(b))
	}
	for tries := 0; tries < 8; tries++ {
		if c := cands[r.Intn(len(cands))]; c != k && c != "" {
			return c
		}
	}
	return k + "\x01"
}

// snapshot of a directory tree: relative path → "d" or file content
func snapshotTree(root string) map[string]string {
	out := map[string]string{}
	filepath.Walk(root, func(p string, fi os.FileInfo, err error) error {
		if err != nil {
			return nil
		}
		rel, _ := filepath.Rel(root, p)
		if fi.IsDir() {
			out[rel] = "d"
		} else {
			b, _ := os.ReadFile(p)
			out[rel] = "f:" + string(b)
		}
		return nil
	})
	return out
}

type c17env struct {
	name    string
	store   kvStore
	base    string // fsstore base directory ("" otherwise)
	canary  string
	sharder string
	cleanup func()
}

func newC17Env(kind int) (*c17env, error) {
	switch kind % 5 {
	case 0:
		return &c17env{name: "memstore", store: &memstore.Store{}, cleanup: func() {}}, nil
	default:
		canary, err := os.MkdirTemp("", "verif-c17-")
		if err != nil {
			return nil, err
		}
		os.WriteFile(filepath.Join(canary, "canary.txt"), []byte("do not touch"), 0o644)
		os.MkdirAll(filepath.Join(canary, "sibling", "deep"), 0o755)
		os.WriteFile(filepath.Join(canary, "sibling", "deep", "f"), []byte("x"), 0o644)
		base := filepath.Join(canary, "outer", "base")
		os.MkdirAll(base, 0o755)
		st := &fsstore.Store{}
		env := &c17env{store: st, base: base, canary: canary, cleanup: func() { os.RemoveAll(canary) }}
		b32 := func(s string) string { return b32NoPad(s) }
		switch kind % 5 {
		case 1, 2:
			env.name, env.sharder = "fsstore-default", "r12"
			err = st.InitDefaults(base)
		case 3:
			env.name, env.sharder = "fsstore-r122", "r122"
			err = st.Init(base, b32, sharding.Shard_r122)
		case 4:
			env.name, env.sharder = "fsstore-r133", "r133"
			err = st.Init(base, b32, sharding.Shard_r133)
		}
		if err != nil {
			env.cleanup()
			return nil, err
		}
		return env, nil
	}
}

func b32NoPad(s string) string {
	const alpha = "ABCDEFGHIJKLMNOPQRSTUVWXYZ234567"
	var out []byte
	var acc, nbits uint
	for _, b := range []byte(s) {
		acc = acc<<8 | uint(b)
		nbits += 8
		for nbits >= 5 {
			out = append(out, alpha[(acc>>(nbits-5))&31])
			nbits -= 5
		}
	}
	if nbits > 0 {
		out = append(out, alpha[(acc<<(5-nbits))&31])
	}
	return string(out)
}

func c17History(c *core.Ctx, r *core.Rand, idx int) error {
	env, err := newC17Env(idx)
	if err != nil {
		return err
	}
	defer env.cleanup()
	ctx := context.Background()
	model := map[string][]byte{}
	var kvOps, implOut, hist []string
	type heldPeek struct {
		key        string
		view, snap []byte
		cl         io.Closer
	}
	var held []heldPeek
	var keys []string
	before := map[string]string{}
	if env.canary != "" {
		before = snapshotTree(env.canary)
	}
	caseID := func() string { return fmt.Sprintf("c17.history %s #%d: %s", env.name, idx, strings.Join(hist, " ")) }
	fail := func(sig, impl, want, detail string) {
		c.Fail(sig, core.Replay{Kind: "oracle", Case: caseID(), Impl: impl, Expected: want, Detail: detail})
	}
	hx := func(s []byte) string {
		if len(s) == 0 {
			return "-"
		}
		return hex.EncodeToString(s)
	}
	nops := 6 + r.Intn(14)
	for op := 0; op < nops; op++ {
		var key string
		if len(keys) > 0 && r.Chance(1, 2) {
			key = keys[r.Intn(len(keys))]
		} else if len(keys) > 0 && r.Chance(1, 4) {
			// a DIFFERENT key that is some other spelling of one already stored: a store that decodes or normalises
			// keys would answer one for the other
			key = relatedKey(r, keys[r.Intn(len(keys))])
			c.Dist("related-key")
		} else {
			key = genKey(r)
		}
		switch k := r.Intn(8); {
		case k <= 2: // some form of put; a key only ever gets one content
			content, have := model[key]
			if !have {
				content = r.Bytes(r.Intn(40))
			}
			buf := append([]byte{}, content...)
			var perr error
			form := []string{"Put", "PutStream", "PutVec"}[k]
			switch form {
			case "Put":
				perr = storage.Put(ctx, env.store, key, buf)
			case "PutStream":
				var w io.Writer
				var commit func(string) error
				if w, commit, perr = storage.PutStream(ctx, env.store); perr == nil {
					half := len(buf) / 2
					if _, perr = w.Write(buf[:half]); perr == nil {
						if _, perr = w.Write(buf[half:]); perr == nil {
							perr = commit(key)
						}
					}
				}
			case "PutVec":
				half := len(buf) / 3
				perr = storage.PutVec(ctx, env.store, key, [][]byte{buf[:half], buf[half:]})
			}
			hist = append(hist, fmt.Sprintf("%s(%s,%s)", form, hx([]byte(key)), hx(content)))
			// the caller scribbles over its buffer afterwards
			for i := range buf {
				buf[i] ^= 0xff
			}
			if perr != nil {
				c.Dist("put-refused:" + env.name)
				hist[len(hist)-1] += "=refused"
				if key != "" && len(b32NoPad(key)) <= 200 && env.base != "" || env.base == "" && key != "\x00never" {
					if !(env.base != "" && key == "") {
						fail("C17/put-refused", perr.Error(), "success", form+" of an ordinary key failed")
					}
				}
				continue
			}
			if env.base != "" && key == "" && form != "PutStream" && form != "PutVec" {
				fail("C17/empty-key-put-reports-success", "nil", "error or stored content", "")
			}
			if key == "" && env.base != "" {
				// PutStream/PutVec with the empty key is the documented "abandon" signal of the committer: nothing is stored
				continue
			}
			if !have {
				model[key] = content
				keys = append(keys, key)
			}
			kvOps = append(kvOps, "P"+hx([]byte(key))+":"+hx(content))
			implOut = append(implOut, "ok")
		case k == 3:
			has, err := storage.Has(ctx, env.store, key)
			_, want := model[key]
			hist = append(hist, "Has("+hx([]byte(key))+")")
			if err != nil && !has && !want && env.base != "" && len(b32NoPad(key)) > 200 {
				// a key too long for a file name (a put of it is refused): "not there, and here is why" is a faithful answer
				c.Dist("has-refused-overlong-key:" + env.name)
				hist[len(hist)-1] += "=refused"
				continue
			}
			if err != nil || has != want {
				// (the empty key included: on fsstore its path is a shard directory, and it is never stored)
				fail("C17/has-wrong", fmt.Sprint(has, err), fmt.Sprint(want), "")
				continue
			}
			kvOps = append(kvOps, "H"+hx([]byte(key)))
			implOut = append(implOut, tfs(has))
		default:
			form := []string{"Get", "GetStream", "Peek", "Get"}[k-4]
			var got []byte
			var gerr error
			switch form {
			case "Get":
				got, gerr = storage.Get(ctx, env.store, key)
			case "GetStream":
				var rc io.ReadCloser
				if rc, gerr = storage.GetStream(ctx, env.store, key); gerr == nil {
					got, gerr = io.ReadAll(rc)
					rc.Close()
				}
			case "Peek":
				var cl io.Closer
				var view []byte
				if view, cl, gerr = storage.Peek(ctx, env.store, key); gerr == nil {
					got = append([]byte{}, view...)
					if r.Chance(1, 2) {
						// keep the peek OPEN across later operations: until it is closed its bytes must stay what they are
						held = append(held, heldPeek{key: key, view: view, snap: got, cl: cl})
					} else if cl != nil {
						cl.Close()
					}
				}
			}
			// open peeks are re-read after every read operation, and closed at random
			for i := 0; i < len(held); i++ {
				h := held[i]
				if !bytes.Equal(h.view, h.snap) {
					fail("C17/open-peek-changed", hx(h.view), hx(h.snap), "the bytes of a Peek that is still open changed during later operations (key "+hx([]byte(h.key))+")")
					h.snap = append([]byte{}, h.view...)
					held[i] = h
				}
				if r.Chance(1, 3) {
					if h.cl != nil {
						h.cl.Close()
					}
					held = append(held[:i], held[i+1:]...)
					i--
				}
			}
			want, have := model[key]
			hist = append(hist, form+"("+hx([]byte(key))+")")
			if have {
				if gerr != nil || !bytes.Equal(got, want) {
					fail("C17/get-wrong", fmt.Sprint(hx(got), gerr), hx(want), form+" does not return the stored bytes")
					continue
				}
				implOut = append(implOut, hx(got))
			} else {
				if gerr == nil {
					fail("C17/absent-key-found", hx(got), "error", form+" of a key never stored succeeded")
					continue
				}
				implOut = append(implOut, "none")
			}
			kvOps = append(kvOps, "G"+hx([]byte(key)))
		}
	}
	// a burst of overlapping peeks: several open at once, opened and closed in every order
	if len(keys) >= 1 {
		for n := 4 + r.Intn(8); n > 0; n-- {
			if len(held) > 0 && r.Chance(1, 3) {
				i := r.Intn(len(held))
				if held[i].cl != nil {
					held[i].cl.Close()
				}
				held = append(held[:i], held[i+1:]...)
				hist = append(hist, "ClosePeek")
			} else {
				key := keys[r.Intn(len(keys))]
				view, cl, err := storage.Peek(ctx, env.store, key)
				hist = append(hist, "PeekHeld("+hx([]byte(key))+")")
				if err != nil || !bytes.Equal(view, model[key]) {
					fail("C17/get-wrong", fmt.Sprint(hx(view), err), hx(model[key]), "Peek (held) does not return the stored bytes")
					continue
				}
				held = append(held, heldPeek{key: key, view: view, snap: append([]byte{}, view...), cl: cl})
			}
			for i := range held {
				if !bytes.Equal(held[i].view, held[i].snap) {
					fail("C17/open-peek-changed", hx(held[i].view), hx(held[i].snap), "the bytes of a Peek that is still open changed during later operations (key "+hx([]byte(held[i].key))+")")
					held[i].snap = append([]byte{}, held[i].view...)
				}
			}
		}
	}
	for _, h := range held {
		if h.cl != nil {
			h.cl.Close()
		}
	}
	// D: the write-once map
	lines := []string{"store.kv " + strings.Join(kvOps, " ")}
	// fsstore: where the files are
	var pathKeys []string
	if env.base != "" {
		for k := range model {
			pathKeys = append(pathKeys, k)
		}
		sort.Strings(pathKeys)
		for _, k := range pathKeys {
			lines = append(lines, "store.path "+env.sharder+" "+hx([]byte(k)))
		}
	}
	outs, err := core.RunDriver(lines)
	if err != nil {
		return err
	}
	if len(kvOps) > 0 && outs[0] != strings.Join(implOut, " ") {
		c.Fail("C17/corr-kv", core.Replay{Kind: "correspondence", Case: lines[0], Impl: strings.Join(implOut, " "), Model: outs[0], Detail: caseID()})
	}
	if env.base != "" {
		after := snapshotTree(env.canary)
		baseRel, _ := filepath.Rel(env.canary, env.base)
		expected := map[string]string{}
		for i, k := range pathKeys {
			var comps []string
			for _, h := range strings.Split(outs[1+i], "/") {
				b, _ := hex.DecodeString(strings.TrimPrefix(h, "-"))
				comps = append(comps, string(b))
			}
			p := baseRel
			for j, cpt := range comps {
				p = filepath.Join(p, cpt)
				if j < len(comps)-1 {
					expected[p] = "d"
				} else {
					expected[p] = "f:" + string(model[k])
				}
			}
		}
		for p, v := range after {
			if b, ok := before[p]; ok {
				if b != v {
					fail("C17/fs-touched-outside-base", p+" changed", "unchanged", "a path outside the predicted set was modified")
				}
				continue
			}
			if p == filepath.Join(baseRel, ".temp") {
				continue
			}
			refused := strings.Contains(strings.Join(hist, " "), "=refused")
			if strings.HasPrefix(p, filepath.Join(baseRel, ".temp")+string(filepath.Separator)) {
				if refused {
					// a put the store REFUSED (a key whose escaped name the filesystem cannot hold) may leave its staging
					// file behind: inside the base directory, under no key - the property asks for neither more nor less
					c.Dist("staging-debris-after-refused-put")
					continue
				}
				fail("C17/staging-file-left-behind", p, "no staging files after completed puts", "")
				continue
			}
			if refused && v == "d" && strings.HasPrefix(p, baseRel+string(filepath.Separator)) {
				// likewise the (empty) shard directory made for a put that was then refused
				if _, ok := expected[p]; !ok {
					c.Dist("shard-dir-after-refused-put")
					continue
				}
			}
			if e, ok := expected[p]; !ok || e != v {
				fail("C17/fs-unexpected-path", p+" = "+truncateStr(v, 40), "only base/shard(base32(key)) files", "the filesystem store created a path the model does not predict (or with other content)")
			}
		}
		for p := range before {
			if _, ok := after[p]; !ok {
				fail("C17/fs-removed-outside-base", p, "still there", "")
			}
		}
		for p, e := range expected {
			if after[p] != e {
				fail("C17/fs-missing-predicted-path", p, truncateStr(e, 40), "")
			}
		}
	}
	c.Count(caseID(), len(model) >= 2)
	c.Trace(1)
	c.Dist("store:" + env.name)
	if idx < 2 {
		c.Sample(truncateStr(caseID(), 500))
	}
	return nil
}

// cidlink.Memory through its own API (keyed by multihash)
func c17CidMemory(c *core.Ctx, r *core.Rand) {
	st := &cidlink.Memory{}
	model := map[string][]byte{}
	for i := 0; i < 12; i++ {
		content := r.Bytes(r.Intn(30))
		sum, _ := mh.Sum(content, mh.SHA2_256, -1)
		var ci cid.Cid
		if r.Bool() {
			ci = cid.NewCidV1(uint64([]int{0x71, 0x55, 0x0129}[r.Intn(3)]), sum)
		} else {
			ci = cid.NewCidV0(sum)
		}
		lnk := cidlink.Link{Cid: ci}
		if r.Chance(2, 3) {
			w, commit, err := st.OpenWrite(linking.LinkContext{})
			if err != nil {
				c.Fail("C17/cidmemory-openwrite", core.Replay{Kind: "oracle", Case: "c17.cidmemory", Impl: err.Error()})
				continue
			}
			buf := append([]byte{}, content...)
			w.Write(buf)
			if err := commit(lnk); err != nil {
				c.Fail("C17/cidmemory-commit", core.Replay{Kind: "oracle", Case: "c17.cidmemory", Impl: err.Error()})
			}
			for j := range buf {
				buf[j] ^= 0xff
			}
			model[string(ci.Hash())] = content
		}
		rd, err := st.OpenRead(linking.LinkContext{}, lnk)
		want, have := model[string(ci.Hash())]
		if have {
			var got []byte
			if err == nil {
				got, _ = io.ReadAll(rd)
			}
			if err != nil || !bytes.Equal(got, want) {
				c.Fail("C17/cidmemory-get-wrong", core.Replay{Kind: "oracle", Case: "c17.cidmemory " + ci.String(), Impl: fmt.Sprint(hex.EncodeToString(got), err), Expected: hex.EncodeToString(want)})
			}
		} else if err == nil {
			c.Fail("C17/cidmemory-absent-found", core.Replay{Kind: "oracle", Case: "c17.cidmemory " + ci.String()})
		}
		c.Count("cidmemory:"+ci.String(), true)
	}
	c.Dist("store:cidlink.Memory")
}

func runC17(c *core.Ctx) error {
	c.Rule = "histories of 6-19 operations (put, put-stream, put-vec, get, get-stream, peek, has through the storage package's fallbacks) with each key given one content; keys: binary CID forms, random bytes, NUL, slashes, dot-dot sequences, '.temp/x', long, 1-7 bytes (the short-key padding of the sharders), empty; stores: memstore, fsstore with r12 / r122 / r133 sharding inside a canary directory, cidlink.Memory; caller mutates its buffer after put; non-trivial = at least 2 keys stored; distinct by history"
	c.Explanation = "theorems: write-once map laws, base32 alphabet/injectivity, shard_*_src = model sharders with in-range slicing, path_contained (every component non-empty, over the base32 alphabet or '0': never '.', '..', '.temp', no '/' or NUL), path_inj, fs refinement; facts: pathForKey shards the escaped key, InitDefaults arguments"
	c.Assumptions = []string{"the operating system's path resolution is trusted: a relative path whose components contain no '/', NUL and are not '.' or '..' stays inside the directory it is joined to", "keys whose escaped form exceeds the file-name limit are refused with an error by the OS (reported as put-refused in the distribution), never stored under another name", "PutStream/PutVec with the empty key is the API's documented way to abandon a write"}
	n := c.Pick(150, 6000)
	for i := 0; i < n; i++ {
		if err := c17History(c, c.Rand.Fork(), i); err != nil {
			return err
		}
	}
	for i := 0; i < c.Pick(20, 500); i++ {
		c17CidMemory(c, c.Rand.Fork())
	}
	// the generic helpers over a fake store with switchable capabilities and failing writes (c17helpers.go)
	return c17Helpers(c)
}

func replayC17(c *core.Ctx, rp core.Replay) error {
	return fmt.Errorf("C17 histories replay by seed: VERIF_SEED=%d ./vcheck C17 %s (case: %s)", rp.Seed, rp.Tier, rp.Case)
}
