/-
  C07 (companion) — Progress.init / Config.init: a fresh seen-set per top-level walk.
  Recorded by tools/pin_skeletons.py from the source the models were transcribed from; property-tie theorems only.
-/
import IpldModel.Generated.WalkInitSkeletons
namespace Ipld.Props.C07

/-- (T) statement skeleton of `Config.init` (traversal/common.go) — defaults: the statements on this run are the recorded ones. -/
theorem configInit_is_transcribed : Ipld.Generated.configInit_skel_src = [
  "if tc.Ctx == nil",
  ". tc.Ctx = context.Background()",
  "if tc.LinkTargetNodePrototypeChooser == nil",
  ". tc.LinkTargetNodePrototypeChooser = func(lnk datamodel.Link, lnkCtx linking.LinkContext) (datamodel.NodePrototype, error) { if tlnkNd, ok := lnkCtx.LinkNode.(schema.TypedLinkNode); ok { return tlnkNd.LinkTargetNodePrototype(), nil } return nil, fmt.Errorf(\"no LinkTargetNodePrototypeChooser configured\") }"
] := rfl

/-- (T) statement skeleton of `Progress.init` (traversal/common.go) — defaults into a private copy of the Config; a fresh seen-set per top-level walk: the statements on this run are the recorded ones. -/
theorem progressInit_is_transcribed : Ipld.Generated.progressInit_skel_src = [
  "if prog.Cfg == nil",
  ". prog.Cfg = &Config{}",
  "if prog.Cfg.Ctx == nil || prog.Cfg.LinkTargetNodePrototypeChooser == nil",
  ". cfg := *prog.Cfg",
  ". cfg.init()",
  ". prog.Cfg = &cfg",
  "if prog.Cfg.LinkVisitOnlyOnce",
  ". prog.SeenLinks = make(map[datamodel.Link]struct{})"
] := rfl

end Ipld.Props.C07
