/-
  Helper lemmas about the token-level DAG-JSON decoder `unTok`: the reserved-form classifier, the
  reformulation of the `mapOpen` branch through it, and the extent (balanced-bracket) lemma.
-/
import IpldModel.Model.JsonTok
namespace Ipld
namespace Json

/-- What the two lookaheads conclude about the tokens after a `mapOpen`.  `plain n`: it is an ordinary
    map, and `n` tokens were looked at to find that out. -/
inductive Cls where
  | eof | link (s : Bytes) | bytes (s : Bytes) | plain (n : Nat)
  deriving Repr, DecidableEq

def clsL3 (s : Bytes) : List JTok → Cls
  | [] => .eof
  | .mapClose :: _ => .link s
  | _ :: _ => .plain 3

def clsB6 (s : Bytes) : List JTok → Cls
  | [] => .eof
  | .mapClose :: _ => .bytes s
  | _ :: _ => .plain 6

def clsB5 (s : Bytes) : List JTok → Cls
  | [] => .eof
  | .mapClose :: r => clsB6 s r
  | _ :: _ => .plain 5

def clsB4 : List JTok → Cls
  | [] => .eof
  | .str s :: r => clsB5 s r
  | _ :: _ => .plain 4

def clsB3 : List JTok → Cls
  | [] => .eof
  | .str k :: r => if k = bytesWord then clsB4 r else .plain 3
  | _ :: _ => .plain 3

/-- after a first token `"/"` -/
def cls2 (pl pb : Bool) : List JTok → Cls
  | [] => .eof
  | .str s :: r => if pl then clsL3 s r else .plain 2
  | .mapOpen :: r => if pb then clsB3 r else .plain 2
  | _ :: _ => .plain 2

def classify (pl pb : Bool) (rest : List JTok) : Cls :=
  if !(pl || pb) then .plain 0 else
  match rest with
  | [] => .eof
  | .str k :: r => if k = slash then cls2 pl pb r else .plain 1
  | _ :: _ => .plain 1

/-- the ordinary-map reading of the tokens after a `mapOpen` -/
def asMap (cfg : DecCfg) (fuel depth : Nat) (rest : List JTok) : JR (DM × List JTok) := do
  let (es, rest') ← unMapLoop (unTok cfg fuel (depth + 1)) (rest.length + 1) [] rest
  pure (.map (DMKVs.ofList es), rest')

macro "jt" : tactic => `(tactic| simp [classify, cls2, clsL3, clsB3, clsB4, clsB5, clsB6, bind, Except.bind, pure, Except.pure])
macro "jt'" : tactic => `(tactic| simp [*, classify, cls2, clsL3, clsB3, clsB4, clsB5, clsB6, bind, Except.bind, pure, Except.pure])

/-- The `mapOpen` branch of the meaning decoder, through the classifier. -/
theorem unTok_mapOpen (cfg : DecCfg) (fuel depth : Nat) (rest : List JTok) :
    unTok cfg (fuel + 1) depth (.mapOpen :: rest) =
    if depth ≥ cfg.maxDepth then .error .depth else
    match classify cfg.parseLinks cfg.parseBytes rest with
    | .eof => .error .eof
    | .link s => (match cidParse s with | some c => .ok (.link c, rest.drop 3) | none => .error .badCid)
    | .bytes s => (match decodeB64 s with | some b => .ok (.bytes b, rest.drop 6) | none => .error .badBase64)
    | .plain _ => asMap cfg fuel depth rest := by
  unfold unTok asMap
  by_cases hd : depth ≥ cfg.maxDepth
  · simp [hd]
  · simp only [hd, if_false]
    generalize (unMapLoop (unTok cfg fuel (depth + 1)) (rest.length + 1) [] rest >>= fun __x => pure (DM.map (DMKVs.ofList __x.fst), __x.snd)) = M
    generalize cfg.parseLinks = pl
    generalize cfg.parseBytes = pb
    rcases rest with _ | ⟨t1, r1⟩
    · cases pl <;> cases pb <;> jt
    cases t1 <;> try (cases pl <;> cases pb <;> jt; done)
    rename_i k
    by_cases hk : k = slash
    rotate_left
    · cases pl <;> cases pb <;> jt'
    subst hk
    rcases r1 with _ | ⟨t2, r2⟩
    · cases pl <;> cases pb <;> jt
    cases t2 <;> try (cases pl <;> cases pb <;> jt; done)
    · -- t2 = mapOpen
      cases pb
      · cases pl <;> jt
      rcases r2 with _ | ⟨t3, r3⟩
      · cases pl <;> jt
      cases t3 <;> try (cases pl <;> jt; done)
      rename_i k2
      by_cases hk2 : k2 = bytesWord
      rotate_left
      · cases pl <;> jt'
      subst hk2
      rcases r3 with _ | ⟨t4, r4⟩
      · cases pl <;> jt
      cases t4 <;> try (cases pl <;> jt; done)
      rename_i s
      rcases r4 with _ | ⟨t5, r5⟩
      · cases pl <;> jt
      cases t5 <;> try (cases pl <;> jt; done)
      rcases r5 with _ | ⟨t6, r6⟩
      · cases pl <;> jt
      cases t6 <;> (cases pl <;> jt) <;> (cases decodeB64 s <;> rfl)
    · -- t2 = str s
      rename_i s
      cases pl
      · cases pb <;> jt
      rcases r2 with _ | ⟨t3, r3⟩
      · cases pb <;> jt
      cases t3 <;> (cases pb <;> jt) <;> (cases cidParse s <;> rfl)

/-! ## Extent: how many tokens one value spans (bracket matching) -/

/-- `extent d toks`: the number of tokens up to and including the one that brings the nesting level,
    starting at `d`, back to zero (a scalar at level 0 spans one token). -/
def isOpen : JTok → Bool
  | .mapOpen => true
  | .arrOpen => true
  | _ => false

def isClose : JTok → Bool
  | .mapClose => true
  | .arrClose => true
  | _ => false

def extent : Nat → List JTok → Option Nat
  | _, [] => none
  | d, t :: r =>
    if isOpen t then (extent (d + 1) r).map (· + 1)
    else if isClose t then (if d = 0 then none else if d = 1 then some 1 else (extent (d - 1) r).map (· + 1))
    else (if d = 0 then some 1 else (extent d r).map (· + 1))

/-- the tokens it is safe to find in the window (`tk[0]` included) -/
def safe : List JTok → Bool
  | [] => true
  | [_] => true
  | .arrOpen :: _ :: _ => false
  | .mapOpen :: t :: rest => (t != .str slash || rest.isEmpty) && safe (t :: rest)
  | _ :: t :: rest => safe (t :: rest)

theorem extent_comp : ∀ (toks : List JTok) (e n : Nat), extent e toks = some n →
    (1 ≤ n ∧ n ≤ toks.length) ∧ ∀ d, 1 ≤ d → extent (e + d) toks = (extent d (toks.drop n)).map (· + n)
  | [], e, n, h => by simp [extent] at h
  | t :: r, e, n, h => by
    unfold extent at h
    by_cases ho : isOpen t = true
    · simp only [ho, if_true, Option.map_eq_some_iff] at h
      obtain ⟨n', h', rfl⟩ := h
      obtain ⟨⟨h1, h2⟩, ih⟩ := extent_comp r (e + 1) n' h'
      refine ⟨⟨by omega, by simp; omega⟩, ?_⟩
      intro d hd
      have := ih d hd
      rw [extent]
      simp only [ho, if_true, List.drop_succ_cons]
      rw [show e + d + 1 = e + 1 + d by omega, this]
      simp [Option.map_map, Function.comp_def, Nat.add_assoc]
    · simp only [ho] at h
      by_cases hc : isClose t = true
      · simp only [hc, if_true] at h
        by_cases e0 : e = 0
        · simp [e0] at h
        by_cases e1 : e = 1
        · subst e1
          simp at h
          subst h
          refine ⟨⟨by omega, by simp⟩, ?_⟩
          intro d hd
          rw [extent]
          simp [ho, hc]
          have : ¬ (1 + d = 0) := by omega
          have h2 : ¬ (d = 0) := by omega
          simp [h2]
        · simp only [e0, e1, if_false, Bool.false_eq_true, Option.map_eq_some_iff] at h
          obtain ⟨n', h', rfl⟩ := h
          obtain ⟨⟨h1, h2⟩, ih⟩ := extent_comp r (e - 1) n' h'
          refine ⟨⟨by omega, by simp; omega⟩, ?_⟩
          intro d hd
          have := ih d hd
          rw [extent]
          simp only [ho, hc, if_true, List.drop_succ_cons]
          have a1 : ¬ (e + d = 0) := by omega
          have a2 : ¬ (e + d = 1) := by omega
          simp only [a1, a2, if_false, Bool.false_eq_true]
          rw [show e + d - 1 = e - 1 + d by omega, this]
          simp [Option.map_map, Function.comp_def, Nat.add_assoc]
      · simp only [hc] at h
        by_cases e0 : e = 0
        · subst e0
          simp at h
          subst h
          refine ⟨⟨by omega, by simp⟩, ?_⟩
          intro d hd
          rw [extent]
          have h2 : ¬ (d = 0) := by omega
          simp [ho, hc, h2]
        · simp only [e0, if_false, Bool.false_eq_true, Option.map_eq_some_iff] at h
          obtain ⟨n', h', rfl⟩ := h
          obtain ⟨⟨h1, h2⟩, ih⟩ := extent_comp r e n' h'
          refine ⟨⟨by omega, by simp; omega⟩, ?_⟩
          intro d hd
          have := ih d hd
          rw [extent]
          have a1 : ¬ (e + d = 0) := by omega
          simp only [ho, hc, a1, if_false, Bool.false_eq_true, List.drop_succ_cons, this]
          simp [Option.map_map, Function.comp_def, Nat.add_assoc]

@[simp] theorem bytesWord_ne_slash : ¬ (bytesWord = slash) := by decide
@[simp] theorem slash_ne_bytesWord : ¬ (slash = bytesWord) := by decide
macro "cs" : tactic => `(tactic| (simp [classify, cls2, clsL3, clsB3, clsB4, clsB5, clsB6, safe, extent, isOpen, isClose]))
macro "cs'" : tactic => `(tactic| (simp [*, classify, cls2, clsL3, clsB3, clsB4, clsB5, clsB6, safe, extent, isOpen, isClose]))
macro "cx" : tactic => `(tactic| (intros; omega))

theorem classify_spec (pl pb : Bool) (rest : List JTok) :
    match classify pl pb rest with
    | .eof => True
    | .link s => ∃ r, rest = .str slash :: .str s :: .mapClose :: r
    | .bytes s => ∃ r, rest = .str slash :: .mapOpen :: .str bytesWord :: .str s :: .mapClose :: .mapClose :: r
    | .plain n => n ≤ 6 ∧ n ≤ rest.length ∧ safe (rest.take n) = true ∧ ∀ k, extent 1 rest = some k → n ≤ k := by
  rcases rest with _ | ⟨t1, r1⟩
  · cases pl <;> cases pb <;> cs
  cases t1 <;> try (cases pl <;> cases pb <;> cs <;> cx; done)
  rename_i k
  by_cases hk : k = slash
  rotate_left
  · cases pl <;> cases pb <;> cs' <;> cx
  subst hk
  rcases r1 with _ | ⟨t2, r2⟩
  · cases pl <;> cases pb <;> cs
  cases t2 <;> try (cases pl <;> cases pb <;> cs <;> cx; done)
  · -- t2 = mapOpen
    cases pb
    · cases pl <;> cs <;> cx
    rcases r2 with _ | ⟨t3, r3⟩
    · cases pl <;> cs
    cases t3 <;> try (cases pl <;> cs <;> cx; done)
    rename_i k2
    by_cases hk2 : k2 = bytesWord
    rotate_left
    · cases pl <;> cs' <;> cx
    subst hk2
    rcases r3 with _ | ⟨t4, r4⟩
    · cases pl <;> cs
    cases t4 <;> try (cases pl <;> cs <;> cx; done)
    rename_i s
    rcases r4 with _ | ⟨t5, r5⟩
    · cases pl <;> cs
    cases t5 <;> try (cases pl <;> cs <;> cx; done)
    rcases r5 with _ | ⟨t6, r6⟩
    · cases pl <;> cs
    cases t6 <;> (cases pl <;> cs <;> cx)
  · -- t2 = str s
    rename_i s
    cases pl
    · cases pb <;> cs <;> cx
    rcases r2 with _ | ⟨t3, r3⟩
    · cases pb <;> cs
    cases t3 <;> (cases pb <;> cs <;> cx)

def ItemExt (item : List JTok → JR (DM × List JTok)) : Prop :=
  ∀ toks v r, item toks = .ok (v, r) → ∃ n, extent 0 toks = some n ∧ r = toks.drop n

theorem unMapLoop_extent (item : List JTok → JR (DM × List JTok)) (hi : ItemExt item) :
    ∀ (lf : Nat) (seen : List Bytes) (toks : List JTok) (es : List (Bytes × DM)) (rest : List JTok),
    unMapLoop item lf seen toks = .ok (es, rest) → ∃ n, extent 1 toks = some n ∧ rest = toks.drop n
  | 0, _, _, _, _, h => by simp [unMapLoop] at h
  | lf + 1, seen, toks, es, rest, h => by
    unfold unMapLoop at h
    rcases toks with _ | ⟨t, r⟩
    · simp at h
    cases t <;> try (simp at h; done)
    · -- mapClose
      simp at h
      exact ⟨1, by simp [extent, isOpen, isClose], by simp [h.2]⟩
    · -- str k
      rename_i k
      simp only at h
      split at h
      · simp at h
      rcases r with _ | ⟨t2, r2⟩
      · simp at h
      simp only [bind, Except.bind] at h
      cases hit : item (t2 :: r2) with
      | error e => simp [hit] at h
      | ok p =>
        obtain ⟨v, r'⟩ := p
        simp only [hit] at h
        cases hl : unMapLoop item lf (k :: seen) r' with
        | error e => simp [hl] at h
        | ok q =>
          obtain ⟨es', r''⟩ := q
          simp only [hl, pure, Except.pure, Except.ok.injEq, Prod.mk.injEq] at h
          obtain ⟨n1, h1, rfl⟩ := hi _ _ _ hit
          obtain ⟨n2, h2, e2⟩ := unMapLoop_extent item hi lf _ _ _ _ hl
          obtain ⟨⟨b1, b2⟩, hc⟩ := extent_comp _ _ _ h1
          have := hc 1 (by omega)
          refine ⟨n2 + n1 + 1, ?_, ?_⟩
          · rw [extent]
            simp only [isOpen, isClose, Bool.false_eq_true, if_false]
            simp only [Nat.zero_add] at this
            simp [this, h2]
          · rw [← h.2, e2]
            simp [List.drop_drop, Nat.add_comm]


theorem unListLoop_extent (item : List JTok → JR (DM × List JTok)) (hi : ItemExt item) :
    ∀ (lf : Nat) (toks : List JTok) (xs : List DM) (rest : List JTok),
    unListLoop item lf toks = .ok (xs, rest) → ∃ n, extent 1 toks = some n ∧ rest = toks.drop n
  | 0, _, _, _, h => by simp [unListLoop] at h
  | lf + 1, toks, xs, rest, h => by
    unfold unListLoop at h
    rcases toks with _ | ⟨t, r⟩
    · simp at h
    by_cases hc : t = .arrClose
    · subst hc
      simp at h
      exact ⟨1, by simp [extent, isOpen, isClose], by simp [h.2]⟩
    · have h' : (do let (v, rest') ← item (t :: r)
                    let (xs, rest'') ← unListLoop item lf rest'
                    pure (v :: xs, rest'')) = Except.ok (xs, rest) := by
        cases t <;> first | exact absurd rfl hc | exact h
      clear h
      simp only [bind, Except.bind] at h'
      cases hit : item (t :: r) with
      | error e => simp [hit] at h'
      | ok p =>
        obtain ⟨v, r'⟩ := p
        simp only [hit] at h'
        cases hl : unListLoop item lf r' with
        | error e => simp [hl] at h'
        | ok q =>
          obtain ⟨xs', r''⟩ := q
          simp only [hl, pure, Except.pure, Except.ok.injEq, Prod.mk.injEq] at h'
          obtain ⟨n1, h1, rfl⟩ := hi _ _ _ hit
          obtain ⟨n2, h2, e2⟩ := unListLoop_extent item hi lf _ _ _ hl
          obtain ⟨⟨b1, b2⟩, hcm⟩ := extent_comp _ _ _ h1
          have := hcm 1 (by omega)
          simp only [Nat.zero_add] at this
          refine ⟨n2 + n1, ?_, ?_⟩
          · simp [this, h2]
          · rw [← h'.2, e2]
            simp [List.drop_drop, Nat.add_comm]

theorem unTok_extent (cfg : DecCfg) : ∀ (fuel depth : Nat), ItemExt (unTok cfg fuel depth)
  | 0, _ => by intro toks v r h; simp [unTok] at h
  | fuel + 1, depth => by
    intro toks v r h
    rcases toks with _ | ⟨t, rest⟩
    · simp [unTok] at h
    cases t
    case mapOpen =>
      rw [unTok_mapOpen] at h
      split at h
      · simp at h
      have hs := classify_spec cfg.parseLinks cfg.parseBytes rest
      split at h
      · simp at h
      · rename_i s hcl
        rw [hcl] at hs
        obtain ⟨r3, rfl⟩ := hs
        split at h
        · simp at h
          exact ⟨4, by simp [extent, isOpen, isClose], by simp [h.2]⟩
        · simp at h
      · rename_i s hcl
        rw [hcl] at hs
        obtain ⟨r3, rfl⟩ := hs
        split at h
        · simp at h
          exact ⟨7, by simp [extent, isOpen, isClose], by simp [h.2]⟩
        · simp at h
      · simp only [asMap, bind, Except.bind] at h
        cases hl : unMapLoop (unTok cfg fuel (depth + 1)) (rest.length + 1) [] rest with
        | error e => simp [hl] at h
        | ok q =>
          obtain ⟨es, r'⟩ := q
          simp only [hl, pure, Except.pure, Except.ok.injEq, Prod.mk.injEq] at h
          obtain ⟨n, h1, h2⟩ := unMapLoop_extent _ (unTok_extent cfg fuel (depth + 1)) _ _ _ _ _ hl
          exact ⟨n + 1, by simp [extent, isOpen, h1], by simp [← h.2, h2]⟩
    case arrOpen =>
      simp only [unTok] at h
      split at h
      · simp at h
      simp only [bind, Except.bind] at h
      cases hl : unListLoop (unTok cfg fuel (depth + 1)) (rest.length + 1) rest with
      | error e => simp [hl] at h
      | ok q =>
        obtain ⟨xs, r'⟩ := q
        simp only [hl, pure, Except.pure, Except.ok.injEq, Prod.mk.injEq] at h
        obtain ⟨n, h1, h2⟩ := unListLoop_extent _ (unTok_extent cfg fuel (depth + 1)) _ _ _ _ hl
        exact ⟨n + 1, by simp [extent, isOpen, h1], by simp [← h.2, h2]⟩
    all_goals
      simp [unTok] at h
      try exact ⟨1, by simp [extent, isOpen, isClose], by simp [h.2]⟩


end Json
end Ipld
