/-
  Byte-level pieces of the JSON codecs (refmt's json encoder/decoder terminals, base64, CID text
  forms), DESIGN §5 C04.  Core Lean only.
-/
import IpldModel.Model.Base
namespace Ipld
namespace Json

/-! ## UTF-8 (Go `unicode/utf8.DecodeRune`) -/

def runeError : Nat := 0xFFFD

/-- Go `utf8.DecodeRune`: (rune, size); invalid or short input yields (RuneError, 1); empty (RuneError, 0). -/
def decodeRune (s : Bytes) : Nat × Nat :=
  match s with
  | [] => (runeError, 0)
  | b0 :: rest =>
    let c0 := b0.toNat
    if c0 < 0x80 then (c0, 1)
    else if c0 < 0xC2 then (runeError, 1)
    else if c0 < 0xE0 then
      match rest with
      | b1 :: _ => let c1 := b1.toNat
        if 0x80 ≤ c1 ∧ c1 ≤ 0xBF then ((c0 % 32) * 64 + c1 % 64, 2) else (runeError, 1)
      | _ => (runeError, 1)
    else if c0 < 0xF0 then
      match rest with
      | b1 :: b2 :: _ =>
        let c1 := b1.toNat; let c2 := b2.toNat
        let lo := if c0 = 0xE0 then 0xA0 else 0x80
        let hi := if c0 = 0xED then 0x9F else 0xBF
        if lo ≤ c1 ∧ c1 ≤ hi ∧ 0x80 ≤ c2 ∧ c2 ≤ 0xBF then ((c0 % 16) * 4096 + (c1 % 64) * 64 + c2 % 64, 3)
        else (runeError, 1)
      | _ => (runeError, 1)
    else if c0 < 0xF5 then
      match rest with
      | b1 :: b2 :: b3 :: _ =>
        let c1 := b1.toNat; let c2 := b2.toNat; let c3 := b3.toNat
        let lo := if c0 = 0xF0 then 0x90 else 0x80
        let hi := if c0 = 0xF4 then 0x8F else 0xBF
        if lo ≤ c1 ∧ c1 ≤ hi ∧ 0x80 ≤ c2 ∧ c2 ≤ 0xBF ∧ 0x80 ≤ c3 ∧ c3 ≤ 0xBF then
          ((c0 % 8) * 262144 + (c1 % 64) * 4096 + (c2 % 64) * 64 + c3 % 64, 4)
        else (runeError, 1)
      | _ => (runeError, 1)
    else (runeError, 1)

/-- Go `utf8.EncodeRune` (surrogates and out-of-range runes become U+FFFD). -/
def encodeRune (r : Nat) : Bytes :=
  let r := if (0xD800 ≤ r ∧ r ≤ 0xDFFF) ∨ r > 0x10FFFF then runeError else r
  if r < 0x80 then [UInt8.ofNat r]
  else if r < 0x800 then [UInt8.ofNat (0xC0 + r / 64), UInt8.ofNat (0x80 + r % 64)]
  else if r < 0x10000 then [UInt8.ofNat (0xE0 + r / 4096), UInt8.ofNat (0x80 + r / 64 % 64), UInt8.ofNat (0x80 + r % 64)]
  else [UInt8.ofNat (0xF0 + r / 262144), UInt8.ofNat (0x80 + r / 4096 % 64), UInt8.ofNat (0x80 + r / 64 % 64), UInt8.ofNat (0x80 + r % 64)]

/-- valid UTF-8 in Go's sense -/
def validUtf8 : Nat → Bytes → Bool
  | 0, _ => true
  | fuel + 1, s =>
    match s with
    | [] => true
    | _ =>
      let (r, n) := decodeRune s
      if r = runeError ∧ n = 1 then false else validUtf8 fuel (s.drop n)

def isValidUtf8 (s : Bytes) : Bool := validUtf8 (s.length + 1) s

def hexDigitLower (n : Nat) : UInt8 := if n < 10 then UInt8.ofNat (48 + n) else UInt8.ofNat (87 + n)

/-! ## refmt `emitString` -/

def emitStringBody : Nat → Bytes → Bytes
  | 0, _ => []
  | fuel + 1, s =>
    match s with
    | [] => []
    | b :: rest =>
      let c := b.toNat
      if c < 0x80 then
        if 0x20 ≤ c ∧ c ≠ 0x5c ∧ c ≠ 0x22 then b :: emitStringBody fuel rest
        else if c = 0x5c ∨ c = 0x22 then 0x5c :: b :: emitStringBody fuel rest
        else if c = 0x0a then [0x5c, 0x6e] ++ emitStringBody fuel rest
        else if c = 0x0d then [0x5c, 0x72] ++ emitStringBody fuel rest
        else if c = 0x09 then [0x5c, 0x74] ++ emitStringBody fuel rest
        else [0x5c, 0x75, 0x30, 0x30, hexDigitLower (c / 16), hexDigitLower (c % 16)] ++ emitStringBody fuel rest
      else
        let (r, n) := decodeRune s
        if r = runeError ∧ n = 1 then [0x5c, 0x75, 0x66, 0x66, 0x66, 0x64] ++ emitStringBody fuel rest   -- �
        else if r = 0x2028 ∨ r = 0x2029 then
          [0x5c, 0x75, 0x32, 0x30, 0x32, hexDigitLower (r % 16)] ++ emitStringBody fuel (s.drop n)
        else s.take n ++ emitStringBody fuel (s.drop n)

def emitString (s : Bytes) : Bytes := 0x22 :: (emitStringBody (s.length + 1) s ++ [0x22])

/-! ## refmt `parseString` (the bytes between the quotes, already delimited by the scanner) -/

def hexValB (b : UInt8) : Option Nat :=
  let n := b.toNat
  if 48 ≤ n ∧ n ≤ 57 then some (n - 48)
  else if 97 ≤ n ∧ n ≤ 102 then some (n - 87)
  else if 65 ≤ n ∧ n ≤ 70 then some (n - 55)
  else none

/-- `getu4`: `\uXXXX` at the head of `s` -/
def getu4 (s : Bytes) : Option Nat :=
  match s with
  | 0x5c :: 0x75 :: a :: b :: c :: d :: _ => do
    let a ← hexValB a; let b ← hexValB b; let c ← hexValB c; let d ← hexValB d
    pure (a * 4096 + b * 256 + c * 16 + d)
  | _ => none

def isSurrogate (r : Nat) : Bool := 0xD800 ≤ r ∧ r < 0xE000

/-- Go `utf16.DecodeRune`; U+FFFD when not a valid pair -/
def decodeSurrogates (r1 r2 : Nat) : Nat :=
  if 0xD800 ≤ r1 ∧ r1 < 0xDC00 ∧ 0xDC00 ≤ r2 ∧ r2 < 0xE000 then (r1 - 0xD800) * 1024 + (r2 - 0xDC00) + 0x10000
  else runeError

/-- returns the unquoted bytes; on a malformed escape the Go code returns what it has so far with
    `ok = false`, and the caller ignores `ok` and uses the (nil) result: the empty string. -/
def parseStringAux : Nat → Bytes → Bytes → Option Bytes
  | 0, _, acc => some acc
  | fuel + 1, s, acc =>
    match s with
    | [] => some acc
    | b :: rest =>
      let c := b.toNat
      if c = 0x5c then
        match rest with
        | [] => none
        | e :: rest' =>
          let ec := e.toNat
          if ec = 0x22 ∨ ec = 0x5c ∨ ec = 0x2f ∨ ec = 0x27 then parseStringAux fuel rest' (acc ++ [e])
          else if ec = 0x62 then parseStringAux fuel rest' (acc ++ [0x08])
          else if ec = 0x66 then parseStringAux fuel rest' (acc ++ [0x0c])
          else if ec = 0x6e then parseStringAux fuel rest' (acc ++ [0x0a])
          else if ec = 0x72 then parseStringAux fuel rest' (acc ++ [0x0d])
          else if ec = 0x74 then parseStringAux fuel rest' (acc ++ [0x09])
          else if ec = 0x75 then
            match getu4 s with
            | none => none
            | some rr =>
              let after := s.drop 6
              if isSurrogate rr then
                match getu4 after with
                | some rr1 =>
                  let dec := decodeSurrogates rr rr1
                  if dec ≠ runeError then parseStringAux fuel (after.drop 6) (acc ++ encodeRune dec)
                  else parseStringAux fuel after (acc ++ encodeRune runeError)
                | none => parseStringAux fuel after (acc ++ encodeRune runeError)
              else parseStringAux fuel after (acc ++ encodeRune rr)
          else none
      else if c = 0x22 ∨ c < 0x20 then none
      else if c < 0x80 then parseStringAux fuel rest (acc ++ [b])
      else
        let (r, n) := decodeRune s
        parseStringAux fuel (s.drop n) (acc ++ encodeRune r)

def parseString (s : Bytes) : Bytes :=
  match parseStringAux (s.length + 1) s [] with
  | some r => r
  | none => []      -- `s, _ := parseString(...)`: the failure flag is ignored, the nil slice is used

/-! ## decimal integers (strconv.AppendInt / ParseInt base 10) -/

def natDigits : Nat → Nat → List UInt8
  | 0, _ => []
  | fuel + 1, n => if n < 10 then [UInt8.ofNat (48 + n)] else natDigits fuel (n / 10) ++ [UInt8.ofNat (48 + n % 10)]

def emitNat (n : Nat) : Bytes := natDigits (n + 1) n

def emitInt (i : Int) : Bytes := if i < 0 then 0x2d :: emitNat (-i).toNat else emitNat i.toNat

def parseNatDigits : Bytes → Option Nat
  | [] => none
  | ds => ds.foldlM (fun acc d => if 48 ≤ d.toNat ∧ d.toNat ≤ 57 then some (acc * 10 + (d.toNat - 48)) else none) 0

/-- `strconv.ParseInt(s, 10, 64)` restricted to what the scanner lets through: optional '-' (a '+' is never
    scanned), digits; `none` = syntax error; range errors are reported separately. -/
def parseInt (s : Bytes) : Option Int :=
  match s with
  | 0x2d :: ds => (parseNatDigits ds).map fun n => -(n : Int)
  | ds => (parseNatDigits ds).map fun n => (n : Int)

/-! ## base64 (RawStdEncoding, and StdEncoding for the fallback) -/

def b64Char (n : Nat) : UInt8 :=
  if n < 26 then UInt8.ofNat (65 + n) else if n < 52 then UInt8.ofNat (97 + n - 26)
  else if n < 62 then UInt8.ofNat (48 + n - 52) else if n = 62 then 0x2b else 0x2f

def b64Val (b : UInt8) : Option Nat :=
  let n := b.toNat
  if 65 ≤ n ∧ n ≤ 90 then some (n - 65) else if 97 ≤ n ∧ n ≤ 122 then some (n - 97 + 26)
  else if 48 ≤ n ∧ n ≤ 57 then some (n - 48 + 52) else if n = 0x2b then some 62 else if n = 0x2f then some 63 else none

def base64Raw : Bytes → Bytes
  | a :: b :: c :: rest =>
    let n := a.toNat * 65536 + b.toNat * 256 + c.toNat
    b64Char (n / 262144) :: b64Char (n / 4096 % 64) :: b64Char (n / 64 % 64) :: b64Char (n % 64) :: base64Raw rest
  | [a, b] =>
    let n := a.toNat * 65536 + b.toNat * 256
    [b64Char (n / 262144), b64Char (n / 4096 % 64), b64Char (n / 64 % 64)]
  | [a] =>
    let n := a.toNat * 65536
    [b64Char (n / 262144), b64Char (n / 4096 % 64)]
  | [] => []

/-- RawStdEncoding.DecodeString in strict-enough form: groups of 4, tail of 2 or 3 characters whose unused
    bits may be anything (Go's decoder is not strict about trailing bits); `none` on any other input. -/
def unbase64Raw : Bytes → Option Bytes
  | a :: b :: c :: d :: rest => do
    let a ← b64Val a; let b ← b64Val b; let c ← b64Val c; let d ← b64Val d
    let n := a * 262144 + b * 4096 + c * 64 + d
    let r ← unbase64Raw rest
    pure (UInt8.ofNat (n / 65536) :: UInt8.ofNat (n / 256 % 256) :: UInt8.ofNat (n % 256) :: r)
  | [a, b, c] => do
    let a ← b64Val a; let b ← b64Val b; let c ← b64Val c
    let n := a * 262144 + b * 4096 + c * 64
    pure [UInt8.ofNat (n / 65536), UInt8.ofNat (n / 256 % 256)]
  | [a, b] => do
    let a ← b64Val a; let b ← b64Val b
    let n := a * 262144 + b * 4096
    pure [UInt8.ofNat (n / 65536)]
  | [_] => none
  | [] => some []

/-! ## CID text forms (`cid.String()`): CIDv0 base58btc, CIDv1 multibase 'b' + base32 lower, no padding -/

def b32Char (n : Nat) : UInt8 := if n < 26 then UInt8.ofNat (97 + n) else UInt8.ofNat (50 + n - 26)

/-- bits of the byte string, most significant first -/
def bitsOf (bs : Bytes) : List Bool :=
  bs.flatMap fun b => (List.range 8).map fun i => b.toNat / 2 ^ (7 - i) % 2 = 1

def bitsToNat (l : List Bool) : Nat := l.foldl (fun acc b => acc * 2 + (if b then 1 else 0)) 0

def chunk5 : Nat → List Bool → List (List Bool)
  | 0, _ => []
  | fuel + 1, l => if l.isEmpty then [] else
      let c := l.take 5
      (c ++ List.replicate (5 - c.length) false) :: chunk5 fuel (l.drop 5)

def base32Lower (bs : Bytes) : Bytes :=
  let bits := bitsOf bs
  (chunk5 (bits.length + 1) bits).map fun c => b32Char (bitsToNat c)

def b58Alphabet : List UInt8 := "123456789ABCDEFGHJKLMNPQRSTUVWXYZabcdefghijkmnopqrstuvwxyz".toUTF8.toList

def b58Digits : Nat → Nat → List UInt8
  | 0, _ => []
  | fuel + 1, n => if n = 0 then [] else b58Digits fuel (n / 58) ++ [b58Alphabet.getD (n % 58) 0]

def bytesToNat (bs : Bytes) : Nat := bs.foldl (fun acc b => acc * 256 + b.toNat) 0

def base58btc (bs : Bytes) : Bytes :=
  let zeros := (bs.takeWhile (· == 0)).length
  List.replicate zeros 0x31 ++ b58Digits (bs.length * 2 + 1) (bytesToNat bs)

/-- `Cid.String()` on the binary CID -/
def cidText (cid : Bytes) : Bytes :=
  match cid with
  | 0x12 :: 0x20 :: _ => if cid.length = 34 then base58btc cid else 0x62 :: base32Lower cid
  | _ => 0x62 :: base32Lower cid

def b32Val (b : UInt8) : Option Nat :=
  let n := b.toNat
  if 97 ≤ n ∧ n ≤ 122 then some (n - 97) else if 50 ≤ n ∧ n ≤ 55 then some (n - 50 + 26) else none

def natToBits (w n : Nat) : List Bool := (List.range w).map fun i => n / 2 ^ (w - 1 - i) % 2 = 1

def bitsToBytes : Nat → List Bool → Bytes
  | 0, _ => []
  | fuel + 1, l => if l.length < 8 then [] else UInt8.ofNat (bitsToNat (l.take 8)) :: bitsToBytes fuel (l.drop 8)

/-- base32 lower, no padding; the leftover bits (fewer than 8) must be zero… Go's multibase decoder is
    lenient about them; this model accepts them as Go does (drops them). -/
def unbase32Lower (s : Bytes) : Option Bytes := do
  let vals ← s.mapM b32Val
  let bits := vals.flatMap (natToBits 5)
  pure (bitsToBytes (bits.length + 1) bits)

def b58Val (b : UInt8) : Option Nat :=
  let i := b58Alphabet.idxOf b
  if i < 58 then some i else none

def natToBytes : Nat → Nat → Bytes
  | 0, _ => []
  | fuel + 1, n => if n = 0 then [] else natToBytes fuel (n / 256) ++ [UInt8.ofNat (n % 256)]

def unbase58btc (s : Bytes) : Option Bytes := do
  let vals ← s.mapM b58Val
  let zeros := (s.takeWhile (· == 0x31)).length
  let n := vals.foldl (fun acc v => acc * 58 + v) 0
  pure (List.replicate zeros 0 ++ natToBytes (s.length + 1) n)

/-- `cid.Decode(string)` for the two text forms the encoder produces (CIDv0 base58btc = 46 characters
    starting "Qm"; multibase 'b' base32 lower).  Other multibases are outside the model (`none`). -/
def cidParse (s : Bytes) : Option Bytes :=
  if s.length = 46 ∧ s.take 2 = [0x51, 0x6d] then
    match unbase58btc s with
    | some c => if cidValid c then some c else none
    | none => none
  else
    match s with
    | 0x62 :: body =>
      if s.length < 2 then none else
      match unbase32Lower body with
      | some c => if cidValid c then some c else none
      | none => none
    | _ => none

end Json
end Ipld
