import Driver.Asm
import Driver.Schema
import IpldModel.Model.TypedAssembler
namespace Ipld.Driver
open Ipld Ipld.Asm

/-!
  Line protocol of the typed-assembler machine (`Model/TypedAssembler.lean`):

      tasm.run [<engine>] <ty…> OPS <ops…>    →  <out…> | built <tl-term>   /   <out…> | unfinished
                                                  unsupported                 (the type is outside `TAsm.plain`)

  engine = ideal | bindnode | gen (default bindnode); types as in Driver/Schema.lean, ops as in `asm.run`.
  Outcomes as `asm.run` prints them.  Once a refused `AssignNode` has been left half done (`Engine.anPartial`)
  the model makes no claim: the next call is printed as `unclaimed`, nothing after it, and the result is `unclaimed`.
-/

def parseTEngine : String → Option TAsm.Engine
  | "ideal" => some TAsm.Engine.ideal
  | "bindnode" => some TAsm.Engine.bindnode
  | "gen" => some TAsm.Engine.gen
  | _ => none

/-- like `TAsm.run`, printing `unclaimed` where the model stops making claims -/
def tasmRun (e : TAsm.Engine) : TAsm.St → List Op → TAsm.St × List String
  | st, [] => (st, [])
  | st, op :: ops =>
    if st.tainted then (st, ["unclaimed"]) else
    match TAsm.step e st op with
    | (st', .panic) => (st', ["panic"])
    | (st', o) =>
      let (st'', os) := tasmRun e st' ops
      (st'', showOut o :: os)

def tasmHandler : List String → Option String
  | "tasm.run" :: toks =>
    let (e, toks) := match toks with
      | t :: rest => match parseTEngine t with
        | some e => (e, rest)
        | none => (TAsm.Engine.bindnode, toks)
      | [] => (TAsm.Engine.bindnode, toks)
    match parseTyFuel (toks.length + 1) toks with
    | some (ty, "OPS" :: rest) =>
      if !TAsm.plain ty then some "unsupported" else
      match parseOps (rest.length + 1) rest with
      | some ops =>
        let (st, outs) := tasmRun e (TAsm.init ty) ops
        let fin :=
          if st.tainted then "unclaimed" else
          match TAsm.build st with
          | some v => "built " ++ TL.toTerm v
          | none => "unfinished"
        some (" ".intercalate outs ++ " | " ++ fin)
      | none => some "bad-ops"
    | _ => some "bad-type"
  | _ => none

end Ipld.Driver
