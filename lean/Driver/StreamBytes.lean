import IpldModel.Model.Term
import IpldModel.Model.StreamBytes
namespace Ipld.Driver
open Ipld Ipld.StreamBytes

def parseStreamOp (t : String) : Option (Nat × Op) :=
  match t.splitOn ":" with
  | [v, "a"] => v.toNat?.map fun i => (i, Op.asBytes)
  | [v, "r", n] => match v.toNat?, n.toNat? with
    | some i, some k => some (i, Op.read k)
    | _, _ => none
  | [v, "s", off, w] =>
    match v.toNat?, off.toInt?, w with
    | some i, some d, "0" => some (i, Op.seek d .start)
    | some i, some d, "1" => some (i, Op.seek d .current)
    | some i, some d, "2" => some (i, Op.seek d .end_)
    | _, _, _ => none
  | _ => none

def showStreamOut : Out → String
  | .bytes b eof => "b" ++ (if b.isEmpty then "-" else hexOfBytes b) ++ (if eof then "E" else "")
  | .pos p => "p" ++ toString p
  | .err => "err"

/-- stream.run <contenthex|-> <nviews> (<view>:r:<n> | <view>:s:<offset>:<0|1|2> | <view>:a)*  →  one answer per call -/
def streamHandler : List String → Option String
  | "stream.run" :: content :: nv :: ops =>
    match (if content == "-" then some [] else bytesOfHex content), nv.toNat?, ops.mapM parseStreamOp with
    | some c, some n, some os =>
      some (" ".intercalate ((run { sh := { content := c }, views := List.replicate n 0 } os).map showStreamOut))
    | _, _, _ => some "bad-args"
  | _ => none

end Ipld.Driver
