/-
  Lemmas about the base32 model (`b32Std`): alphabet, length, and injectivity (C17 A4).  Core Lean only.
-/
import IpldModel.Model.Store
namespace Ipld.Store

/-! ### bits of bytes -/

theorem bits8_eq (b : UInt8) : bits8 b =
    [decide (b.toNat / 128 % 2 = 1), decide (b.toNat / 64 % 2 = 1), decide (b.toNat / 32 % 2 = 1),
     decide (b.toNat / 16 % 2 = 1), decide (b.toNat / 8 % 2 = 1), decide (b.toNat / 4 % 2 = 1),
     decide (b.toNat / 2 % 2 = 1), decide (b.toNat % 2 = 1)] := by
  simp [bits8, List.range, List.range.loop]

theorem bits8_length (b : UInt8) : (bits8 b).length = 8 := by simp [bits8]

theorem bitsOf_nil : bitsOf [] = [] := rfl

theorem bitsOf_cons (b : UInt8) (bs : Bytes) : bitsOf (b :: bs) = bits8 b ++ bitsOf bs := by
  simp [bitsOf]

theorem bitsOf_length (bs : Bytes) : (bitsOf bs).length = 8 * bs.length := by
  induction bs with
  | nil => rfl
  | cons b r ih => rw [bitsOf_cons, List.length_append, bits8_length, ih, List.length_cons]; omega

theorem bit_eq_of_iff (a b : Nat) (h : a % 2 = 1 ↔ b % 2 = 1) : a % 2 = b % 2 := by omega

theorem byte_decomp (x : Nat) (hx : x < 256) :
    x = 128 * (x / 128 % 2) + 64 * (x / 64 % 2) + 32 * (x / 32 % 2) + 16 * (x / 16 % 2) +
        8 * (x / 8 % 2) + 4 * (x / 4 % 2) + 2 * (x / 2 % 2) + x % 2 := by
  omega

/-- the eight bits determine the byte -/
theorem bits8_inj {x y : UInt8} (h : bits8 x = bits8 y) : x = y := by
  have hx : x.toNat < 256 := x.toNat_lt
  have hy : y.toNat < 256 := y.toNat_lt
  apply UInt8.toNat_inj.mp
  rw [bits8_eq, bits8_eq] at h
  simp only [List.cons.injEq, decide_eq_decide, and_true] at h
  obtain ⟨h7, h6, h5, h4, h3, h2, h1, h0⟩ := h
  rw [byte_decomp x.toNat hx, byte_decomp y.toNat hy, bit_eq_of_iff _ _ h7, bit_eq_of_iff _ _ h6,
    bit_eq_of_iff _ _ h5, bit_eq_of_iff _ _ h4, bit_eq_of_iff _ _ h3, bit_eq_of_iff _ _ h2,
    bit_eq_of_iff _ _ h1, bit_eq_of_iff _ _ h0]

/-- the bit string determines the byte string -/
theorem bitsOf_inj : ∀ {a b : Bytes}, bitsOf a = bitsOf b → a = b
  | [], [], _ => rfl
  | [], y :: ys, h => by
    have := congrArg List.length h
    simp [bitsOf_length] at this
  | x :: xs, [], h => by
    have := congrArg List.length h
    simp [bitsOf_length] at this
  | x :: xs, y :: ys, h => by
    rw [bitsOf_cons, bitsOf_cons] at h
    have := List.append_inj h (by rw [bits8_length, bits8_length])
    rw [bits8_inj this.1, bitsOf_inj this.2]

/-! ### five-bit groups -/

theorem chunk5_nil (fuel : Nat) : chunk5 fuel [] = [] := by
  cases fuel <;> simp [chunk5]

theorem chunk5_succ_of_ne_nil (fuel : Nat) (l : List Bool) (h : l ≠ []) :
    chunk5 (fuel + 1) l = (l.take 5 ++ List.replicate (5 - (l.take 5).length) false) :: chunk5 fuel (l.drop 5) := by
  cases l with
  | nil => exact absurd rfl h
  | cons a r => simp [chunk5]

theorem chunk5_len5 : ∀ (fuel : Nat) (l : List Bool), ∀ c ∈ chunk5 fuel l, c.length = 5
  | 0, _, c, h => by simp [chunk5] at h
  | fuel + 1, l, c, h => by
    by_cases hl : l = []
    · subst hl; simp [chunk5] at h
    · rw [chunk5_succ_of_ne_nil fuel l hl, List.mem_cons] at h
      cases h with
      | inl h => subst h; simp only [List.length_append, List.length_replicate, List.length_take]; omega
      | inr h => exact chunk5_len5 fuel _ c h

theorem chunk5_length : ∀ (fuel : Nat) (l : List Bool), l.length ≤ fuel → (chunk5 fuel l).length = (l.length + 4) / 5
  | 0, l, h => by
    have : l = [] := List.eq_nil_of_length_eq_zero (by omega)
    subst this; simp [chunk5]
  | fuel + 1, l, h => by
    by_cases hl : l = []
    · subst hl; simp [chunk5]
    · rw [chunk5_succ_of_ne_nil fuel l hl, List.length_cons, chunk5_length fuel _ (by rw [List.length_drop]; omega),
        List.length_drop]
      have : 0 < l.length := List.length_pos_iff.mpr hl
      omega

/-- concatenating the groups gives the bits back, followed by fewer than five zero bits of padding -/
theorem chunk5_flatten : ∀ (fuel : Nat) (l : List Bool), l.length ≤ fuel →
    ∃ p, p < 5 ∧ (chunk5 fuel l).flatten = l ++ List.replicate p false
  | 0, l, h => by
    have : l = [] := List.eq_nil_of_length_eq_zero (by omega)
    subst this; exact ⟨0, by omega, by simp [chunk5]⟩
  | fuel + 1, l, h => by
    by_cases hl : l = []
    · subst hl; exact ⟨0, by omega, by simp [chunk5]⟩
    · have hpos : 0 < l.length := List.length_pos_iff.mpr hl
      rw [chunk5_succ_of_ne_nil fuel l hl, List.flatten_cons]
      by_cases h5 : l.length ≤ 5
      · have hd : l.drop 5 = [] := List.drop_eq_nil_of_le h5
        have ht : l.take 5 = l := List.take_of_length_le h5
        rw [hd, chunk5_nil, ht]
        exact ⟨5 - l.length, by omega, by simp⟩
      · obtain ⟨p, hp, he⟩ := chunk5_flatten fuel (l.drop 5) (by rw [List.length_drop]; omega)
        have : (l.take 5).length = 5 := by rw [List.length_take]; omega
        refine ⟨p, hp, ?_⟩
        rw [he, this]
        simp only [Nat.sub_self, List.replicate_zero, List.append_nil]
        rw [← List.append_assoc, List.take_append_drop]

/-! ### characters -/

def b32Val (c : UInt8) : Nat := if 65 ≤ c.toNat then c.toNat - 65 else c.toNat - 50 + 26

theorem b32Val_char : ∀ n, n < 32 → b32Val (b32StdChar n) = n := by decide

theorem b32StdChar_alphabet : ∀ n, n < 32 → isB32Char (b32StdChar n) = true := by decide

def natToBits5 (n : Nat) : List Bool :=
  [decide (n / 16 % 2 = 1), decide (n / 8 % 2 = 1), decide (n / 4 % 2 = 1), decide (n / 2 % 2 = 1), decide (n % 2 = 1)]

theorem len5_cases {α} (l : List α) (h : l.length = 5) : ∃ a b c d e, l = [a, b, c, d, e] := by
  match l, h with
  | [a, b, c, d, e], _ => exact ⟨a, b, c, d, e, rfl⟩

theorem bitsToNat_lt32 (c : List Bool) (h : c.length = 5) : bitsToNat c < 32 := by
  obtain ⟨a, b, c', d, e, rfl⟩ := len5_cases c h
  cases a <;> cases b <;> cases c' <;> cases d <;> cases e <;> decide

theorem natToBits5_bitsToNat (c : List Bool) (h : c.length = 5) : natToBits5 (bitsToNat c) = c := by
  obtain ⟨a, b, c', d, e, rfl⟩ := len5_cases c h
  cases a <;> cases b <;> cases c' <;> cases d <;> cases e <;> decide

/-- the character determines its five-bit group -/
theorem group_of_char (c : List Bool) (h : c.length = 5) : natToBits5 (b32Val (b32StdChar (bitsToNat c))) = c := by
  rw [b32Val_char _ (bitsToNat_lt32 c h), natToBits5_bitsToNat c h]

theorem map_char_inj : ∀ {x y : List (List Bool)}, (∀ c ∈ x, c.length = 5) → (∀ c ∈ y, c.length = 5) →
    x.map (fun c => b32StdChar (bitsToNat c)) = y.map (fun c => b32StdChar (bitsToNat c)) → x = y
  | [], [], _, _, _ => rfl
  | [], _ :: _, _, _, h => by simp at h
  | _ :: _, [], _, _, h => by simp at h
  | a :: x, b :: y, hx, hy, h => by
    simp only [List.map_cons, List.cons.injEq] at h
    have ha := group_of_char a (hx a (List.mem_cons_self ..))
    have hb := group_of_char b (hy b (List.mem_cons_self ..))
    rw [h.1, hb] at ha
    rw [ha, map_char_inj (fun c hc => hx c (List.mem_cons_of_mem _ hc)) (fun c hc => hy c (List.mem_cons_of_mem _ hc)) h.2]

/-! ### the encoding -/

theorem b32_alphabet' (bs : Bytes) : ∀ c ∈ b32Std bs, isB32Char c = true := by
  intro c hc
  unfold b32Std at hc
  simp only [List.mem_map] at hc
  obtain ⟨g, hg, rfl⟩ := hc
  exact b32StdChar_alphabet _ (bitsToNat_lt32 g (chunk5_len5 _ _ g hg))

theorem b32_length' (bs : Bytes) : (b32Std bs).length = (8 * bs.length + 4) / 5 := by
  unfold b32Std
  simp only [List.length_map]
  rw [chunk5_length _ _ (by omega), bitsOf_length]

theorem b32_inj' {a b : Bytes} (h : b32Std a = b32Std b) : a = b := by
  unfold b32Std at h
  have hc := map_char_inj (chunk5_len5 _ _) (chunk5_len5 _ _) h
  obtain ⟨pa, hpa, ea⟩ := chunk5_flatten ((bitsOf a).length + 1) (bitsOf a) (by omega)
  obtain ⟨pb, hpb, eb⟩ := chunk5_flatten ((bitsOf b).length + 1) (bitsOf b) (by omega)
  rw [hc, eb] at ea
  have hlen := congrArg List.length ea
  simp only [List.length_append, List.length_replicate, bitsOf_length] at hlen
  have hl : (bitsOf b).length = (bitsOf a).length := by rw [bitsOf_length, bitsOf_length]; omega
  exact (bitsOf_inj (List.append_inj ea hl).1).symm

end Ipld.Store
