package checks

import (
	"bytes"
	"encoding/hex"
	"errors"
	"fmt"
	"io"
	"strings"
	"testing/iotest"

	"github.com/ipld/go-ipld-prime/codec/dagcbor"
	"github.com/ipld/go-ipld-prime/node/basicnode"

	"verif/internal/core"
)

// C03 — DAG-CBOR decoding is strict and denotes exactly the bytes it accepts.
//
//   impl observation : dagcbor.Decode into basicnode Any → ok <term> | budget | depth | trailing | reject | panic
//   (D) correspondence: == model decoder (`cbor.dec`, mirrors tokenizer + unmarshal)
//   (O) oracle        : every accepted input satisfies Spec.Denotes (driver `cbor.denotes`, a verifier by
//                       structural recursion on the *implementation's* value); labelled tolerated departures
//                       must decode to the original value.  For rejected inputs the verdict rests on the
//                       theorem decode_complete (model rejects ⇒ nothing is denoted) plus (D).

func init() {
	core.Register(&core.Check{ID: "C03", Run: runC03, Replay: replayC03})
}

func hexArg(b []byte) string {
	if len(b) == 0 {
		return "-"
	}
	return hex.EncodeToString(b)
}

func classifyDecodeErr(err error) string {
	switch {
	case errors.Is(err, dagcbor.ErrAllocationBudgetExceeded):
		return "budget"
	case errors.Is(err, dagcbor.ErrDecodeDepthExceeded):
		return "depth"
	case errors.Is(err, dagcbor.ErrTrailingBytes):
		return "trailing"
	}
	return "reject"
}

// c03Impl decodes bs with the given options into a generic builder.
// c03Reader: the same bytes through readers of different legal behaviour (everything at once; the last chunk together
// with io.EOF; one byte per call; half of what is asked for) - chosen by the input, so a case line determines it.
func c03Reader(bs []byte, variant int) (io.Reader, string) {
	switch variant % 4 {
	case 1:
		return iotest.DataErrReader(bytes.NewReader(bs)), "data+EOF"
	case 2:
		return iotest.OneByteReader(bytes.NewReader(bs)), "one-byte"
	case 3:
		return iotest.HalfReader(bytes.NewReader(bs)), "half"
	}
	return bytes.NewReader(bs), "plain"
}

func c03Impl(opts dagcbor.DecodeOptions, bs []byte) string {
	first := c03ImplVia(opts, bs, 0)
	h := 0
	for _, x := range bs {
		h = h*31 + int(x)
	}
	if h < 0 {
		h = -h
	}
	v := 1 + h%3
	if other := c03ImplVia(opts, bs, v); other != first {
		_, name := c03Reader(nil, v)
		return first + "   BUT through a " + name + " reader: " + other
	}
	return first
}

func c03ImplVia(opts dagcbor.DecodeOptions, bs []byte, variant int) string {
	var out string
	err, panicked, pv := core.Catch(func() error {
		nb := basicnode.Prototype.Any.NewBuilder()
		rd, _ := c03Reader(bs, variant)
		if err := opts.Decode(nb, rd); err != nil {
			out = "err " + classifyDecodeErr(err)
			return nil
		}
		v, err := core.ReadNode(nb.Build())
		if err != nil {
			return err
		}
		out = "ok " + v.Term()
		return nil
	})
	if panicked {
		return fmt.Sprintf("panic %v", pv)
	}
	if err != nil {
		return "err read " + err.Error()
	}
	return out
}

type c03case struct {
	bs        []byte
	label     string
	tolerated bool
	orig      *core.Val // for tolerated departures: the value the input must decode to
}

func modelClass(s string) string {
	f := strings.Fields(s)
	if len(f) >= 2 && f[0] == "err" {
		return "err " + f[1]
	}
	return s
}

func c03Batch(c *core.Ctx, cases []c03case) error {
	impl := make([]string, len(cases))
	lines := make([]string, 0, 2*len(cases))
	for i, cs := range cases {
		impl[i] = c03Impl(dagcbor.DecodeOptions{AllowLinks: true}, cs.bs)
		lines = append(lines, "cbor.dec "+hexArg(cs.bs))
	}
	// oracle lines only for accepted inputs
	oidx := map[int]int{}
	for i, cs := range cases {
		if strings.HasPrefix(impl[i], "ok ") {
			oidx[i] = len(lines)
			lines = append(lines, "cbor.denotes "+hexArg(cs.bs)+" "+impl[i][3:])
		}
	}
	outs, err := core.RunDriver(lines)
	if err != nil {
		return err
	}
	var k1 []int
	for i, cs := range cases {
		line := "cbor.dec " + hexArg(cs.bs)
		model := outs[i]
		c.Count(hexArg(cs.bs), len(cs.bs) >= 2)
		c.Trace(1)
		c.Dist("input:" + cs.label)
		if strings.HasPrefix(impl[i], "ok ") {
			c.Dist("impl:accept")
		} else {
			c.Dist("impl:" + impl[i])
		}
		if i < 2 {
			c.Sample(map[string]string{"case": line, "impl": impl[i], "model": model})
		}
		if strings.HasPrefix(impl[i], "panic") {
			c.Fail("C03/panic", core.Replay{Kind: "oracle", Case: line, Impl: impl[i], Detail: "decoder panicked"})
			continue
		}
		// (O) accepted ⇒ denoted
		if j, ok := oidx[i]; ok && outs[j] != "true" {
			k1 = append(k1, i)
		}
		// (O) tolerated departures must be accepted with the original value (in wire order)
		if cs.tolerated && cs.orig != nil && cs.label != "unsorted-keys" {
			want := "ok " + cs.orig.Sorted(core.LessCbor).Term()
			if impl[i] != want {
				c.Fail("C03/tolerated-departure-refused", core.Replay{Kind: "oracle", Case: line, Impl: impl[i], Expected: want, Detail: "documented tolerance (" + cs.label + ") not honoured"})
			}
		}
		// (D)
		if modelClass(model) != impl[i] {
			c.Fail("C03/corr-decode", core.Replay{Kind: "correspondence", Case: line, Impl: impl[i], Model: model, Detail: "input class " + cs.label})
		}
	}
	// classify the accepted-but-not-denoted cases: is the *only* deviation the known negint wrap?
	if len(k1) > 0 {
		var l2 []string
		for _, i := range k1 {
			l2 = append(l2, "cbor.decx lw 0 0 0 "+hexArg(cases[i].bs))
		}
		o2, err := core.RunDriver(l2)
		if err != nil {
			return err
		}
		for n, i := range k1 {
			line := "cbor.dec " + hexArg(cases[i].bs)
			sig := "C03/accepts-non-dagcbor"
			if modelClass(outs[i]) == impl[i] && strings.Contains(o2[n], "negOverflow") {
				sig = "C03/negint-2^64-wraps"
			}
			c.Fail(sig, core.Replay{Kind: "oracle", Case: line, Impl: impl[i], Model: outs[i], Expected: "rejection (bytes are not a DAG-CBOR item denoting that value)",
				Detail: "accepted input is not denoted by the value built; input class " + cases[i].label})
		}
	}
	return nil
}

// relaxed / option variants: correspondence only (what relaxed mode still promises is proved on the model)
func c03Options(c *core.Ctx, cases []c03case) error {
	type variant struct {
		flags string
		opts  dagcbor.DecodeOptions
	}
	vars := []variant{
		{"lr", dagcbor.DecodeOptions{AllowLinks: true, RelaxedDecode: true}},
		{"-", dagcbor.DecodeOptions{}},
		{"le", dagcbor.DecodeOptions{AllowLinks: true, DontParseBeyondEnd: true}},
	}
	var lines []string
	var impl []string
	for i, cs := range cases {
		v := vars[i%len(vars)]
		lines = append(lines, fmt.Sprintf("cbor.decx %s 0 0 0 %s", v.flags, hexArg(cs.bs)))
		impl = append(impl, c03Impl(v.opts, cs.bs))
	}
	outs, err := core.RunDriver(lines)
	if err != nil {
		return err
	}
	for i := range cases {
		c.Count("opt:"+lines[i], len(cases[i].bs) >= 2)
		c.Dist("options:" + strings.Fields(lines[i])[1])
		if modelClass(outs[i]) != impl[i] {
			c.Fail("C03/corr-decode-options", core.Replay{Kind: "correspondence", Case: lines[i], Impl: impl[i], Model: outs[i]})
		}
		if strings.Contains(lines[i], " lr ") && strings.HasPrefix(impl[i], "ok ") {
			// relaxed still promises definite lengths
			if cases[i].label == "indefinite-list" || cases[i].label == "indefinite-map" || cases[i].label == "indefinite-string" || cases[i].label == "indefinite-key" {
				c.Fail("C03/relaxed-accepts-indefinite", core.Replay{Kind: "oracle", Case: lines[i], Impl: impl[i], Expected: "rejection"})
			}
		}
	}
	return nil
}

func c03Exhaustive(c *core.Ctx, maxLen int) error {
	var cases []c03case
	flush := func() error {
		if len(cases) == 0 {
			return nil
		}
		err := c03Batch(c, cases)
		cases = cases[:0]
		return err
	}
	var rec func(prefix []byte, n int) error
	rec = func(prefix []byte, n int) error {
		if n == 0 {
			cases = append(cases, c03case{bs: append([]byte{}, prefix...), label: fmt.Sprintf("exhaustive-len%d", len(prefix))})
			if len(cases) >= 200000 {
				return flush()
			}
			return nil
		}
		for b := 0; b < 256; b++ {
			if err := rec(append(prefix, byte(b)), n-1); err != nil {
				return err
			}
		}
		return nil
	}
	for l := 0; l <= maxLen; l++ {
		if err := rec(nil, l); err != nil {
			return err
		}
	}
	return flush()
}

// c03SmallInts: EVERY integer of small magnitude (all one-, two- and three-byte heads and a stretch of the five-byte
// ones), as a list element, as a map value and at the top: the accepted node holds exactly that integer.  (Exhaustive
// over a range where an implementation might keep a table of preallocated values.)
func c03SmallInts(c *core.Ctx) {
	lim := int64(70000)
	if c.Thorough() {
		lim = 1 << 21
	}
	head := func(major byte, u uint64) []byte {
		switch {
		case u < 24:
			return []byte{major | byte(u)}
		case u < 1<<8:
			return []byte{major | 24, byte(u)}
		case u < 1<<16:
			return []byte{major | 25, byte(u >> 8), byte(u)}
		default:
			return []byte{major | 26, byte(u >> 24), byte(u >> 16), byte(u >> 8), byte(u)}
		}
	}
	bad := 0
	for i := -lim; i <= lim && bad < 5; i++ {
		var item []byte
		if i >= 0 {
			item = head(0x00, uint64(i))
		} else {
			item = head(0x20, uint64(-1-i))
		}
		for shape, in := range map[string][]byte{"top": item, "in-list": append([]byte{0x81}, item...), "in-map": append([]byte{0xa1, 0x61, 0x6b}, item...)} {
			nb := basicnode.Prototype.Any.NewBuilder()
			if err := dagcbor.Decode(nb, bytes.NewReader(in)); err != nil {
				c.Fail("C03/rejects-canonical-dagcbor", core.Replay{Kind: "oracle", Case: "cbor.dec " + hex.EncodeToString(in), Impl: err.Error(), Expected: fmt.Sprintf("the integer %d (%s)", i, shape)})
				bad++
				continue
			}
			n := nb.Build()
			switch shape {
			case "in-list":
				n, _ = n.LookupByIndex(0)
			case "in-map":
				n, _ = n.LookupByString("k")
			}
			if got, err := n.AsInt(); err != nil || got != i {
				c.Fail("C03/accepted-node-denotes-another-value", core.Replay{Kind: "oracle", Case: "cbor.dec " + hex.EncodeToString(in), Impl: fmt.Sprint(got, err), Expected: fmt.Sprintf("%d (%s)", i, shape)})
				bad++
			}
		}
	}
	c.Count(fmt.Sprintf("c03.small-ints ±%d", lim), true)
	c.Dist("small-ints-exhaustive")
}

func runC03(c *core.Ctx) error {
	c.Rule = "all byte strings up to length 2 (quick) / 3 (thorough), then labelled structural departures and byte-level mutations of canonical encodings of generated values (one departure site per case); non-trivial = input of at least 2 bytes; distinct by input bytes"
	c.Explanation = "theorems: decode_complete (everything the Spec denotes, within the configured limits, is accepted with that value), decode_encode, one rejection lemma per strictness rule; oracle: accepted ⇒ Spec.denotesCheck on the implementation's value"
	c.Assumptions = []string{"refmt CBOR tokenizer and go-cid/go-multihash/go-varint CID grammar modelled by hand, tied by this differential run", "IEEE-754 widening f16/f32→f64 shared between Spec and model (Model/Base.lean)"}
	// known-finding witness replay
	w, _ := hex.DecodeString("3bffffffffffffffff")
	wi := c03Impl(dagcbor.DecodeOptions{AllowLinks: true}, w)
	c.KnownWitness("C03/negint-2^64-wraps", wi == "ok i0", "cbor.dec 3bffffffffffffffff → "+wi)

	c03SmallInts(c)
	if err := c03Exhaustive(c, c.Pick(2, 3)); err != nil {
		return err
	}
	c.Extra["exhaustive_part"] = fmt.Sprintf("all byte strings of length <= %d", c.Pick(2, 3))
	n := c.Pick(20000, 1500000)
	cfg := core.DefaultGen
	for done := 0; done < n; {
		k := 50000
		if n-done < k {
			k = n - done
		}
		cases := make([]c03case, 0, k)
		for i := 0; i < k; i++ {
			v := core.GenVal(c.Rand, cfg, 0)
			bs, label, tol := core.MutateCBOR(v, c.Rand)
			vv := v
			cases = append(cases, c03case{bs: bs, label: label, tolerated: tol, orig: &vv})
		}
		if err := c03Batch(c, cases); err != nil {
			return err
		}
		if err := c03Options(c, cases[:len(cases)/4]); err != nil {
			return err
		}
		done += k
	}
	return nil
}

func replayC03(c *core.Ctx, rp core.Replay) error {
	f := strings.Fields(rp.Case)
	if len(f) < 2 {
		return fmt.Errorf("bad case")
	}
	h := f[len(f)-1]
	var bs []byte
	if h != "-" {
		var err error
		if bs, err = hex.DecodeString(h); err != nil {
			return err
		}
	}
	if f[0] == "cbor.decx" {
		return fmt.Errorf("option-variant replays: run `echo '%s' | lean/.lake/build/bin/driver` and compare with the implementation", rp.Case)
	}
	return c03Batch(c, []c03case{{bs: bs, label: "replay"}})
}
