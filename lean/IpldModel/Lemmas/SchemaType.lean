/-
  C09-2: the ideal type-level builder accepts exactly the conforming trees, and builds the
  normalised input.
-/
import IpldModel.Lemmas.SchemaBasic
namespace Ipld
namespace Schema

/-! ## `any`: no repeated key -/

mutual
theorem anyOK_ofDM_eq : (d : DM) → anyOK (TL.ofDM d) = d.noDupKeys
  | .null => by simp [TL.ofDM, anyOK, DM.noDupKeys]
  | .bool _ => by simp [TL.ofDM, anyOK, DM.noDupKeys]
  | .int _ => by simp [TL.ofDM, anyOK, DM.noDupKeys]
  | .float _ => by simp [TL.ofDM, anyOK, DM.noDupKeys]
  | .str _ => by simp [TL.ofDM, anyOK, DM.noDupKeys]
  | .bytes _ => by simp [TL.ofDM, anyOK, DM.noDupKeys]
  | .link _ => by simp [TL.ofDM, anyOK, DM.noDupKeys]
  | .list xs => by simp only [TL.ofDM, anyOK, DM.noDupKeys]; exact anyOKs_ofDMs_eq xs
  | .map es => by simp only [TL.ofDM, anyOK, DM.noDupKeys]; exact anyOKkv_ofDMKVs_eq es []
theorem anyOKs_ofDMs_eq : (xs : DMs) → anyOKs (TLs.ofDMs xs) = xs.noDupKeys
  | .nil => by simp [TLs.ofDMs, anyOKs, DMs.noDupKeys]
  | .cons x xs => by
    simp only [TLs.ofDMs, anyOKs, DMs.noDupKeys, anyOK_ofDM_eq x, anyOKs_ofDMs_eq xs]
theorem anyOKkv_ofDMKVs_eq : (es : DMKVs) → (seen : List Bytes) →
    anyOKkv seen (TLKVs.ofDMKVs es) = es.noDupKeysIn seen
  | .nil, _ => by simp [TLKVs.ofDMKVs, anyOKkv, DMKVs.noDupKeysIn]
  | .cons k v es, seen => by
    simp only [TLKVs.ofDMKVs, anyOKkv, DMKVs.noDupKeysIn, anyOK_ofDM_eq v, anyOKkv_ofDMKVs_eq es]
end

theorem ofDM_ne_absent (d : DM) : TL.ofDM d ≠ .absent := by
  cases d <;> simp [TL.ofDM]

theorem fieldValOK_ofDM (f : Field) (d : DM) :
    fieldValOK f (TL.ofDM d) = conforms f.ty f.nullable (TL.ofDM d) := by
  cases d <;> simp [TL.ofDM, fieldValOK]

/-! ## Scalars at type level -/

theorem buildScalar_type (nul : Bool) (d : DM) (hd : d ≠ .null) (hs : isScalar d = true) (ty : Ty) :
    buildScalar Engine.ideal .type nul d ty =
      if conforms ty nul (TL.ofDM d) = true then .ok (normalize ty (TL.ofDM d)) else .reject := by
  cases ty <;> cases d <;>
    simp_all [buildScalar, conforms, TL.ofDM, isScalar, normalize]

/-! ## The struct value assembled from a state and the entries still to come -/

def mergeVal (g : Bytes → Option TL) (rest : List (Bytes × TL)) (n : Bytes) : TL :=
  match g n with
  | some v => v
  | none =>
    match rest.find? (fun e => e.1 == n) with
    | some (_, v) => v
    | none => .absent

theorem mergeVal_nil (g : Bytes → Option TL) (n : Bytes) : mergeVal g [] n = (g n).getD .absent := by
  unfold mergeVal; cases g n <;> simp

theorem mergeVal_set (g : Bytes → Option TL) (k : Bytes) (tv : TL) (rest : List (Bytes × TL)) (n : Bytes)
    (hk : g k = none) : mergeVal (setFn g k tv) rest n = mergeVal g ((k, tv) :: rest) n := by
  unfold mergeVal
  by_cases hn : n = k
  · subst hn; simp [hk]
  · rw [setFn_other _ _ _ _ hn]
    have : (k == n) = false := by simpa using fun h => hn h.symm
    simp [this]

theorem mergeVal_none (rest : List (Bytes × TL)) (f : Field) :
    (f.name, mergeVal (fun _ => none) rest f.name) =
      (match rest.find? (fun e => e.1 == f.name) with
       | some (_, v) => (f.name, v)
       | none => (f.name, .absent)) := by
  unfold mergeVal
  simp only []
  cases rest.find? (fun e => e.1 == f.name) with
  | none => rfl
  | some p => rfl

/-! ## The type-level builder -/

mutual
theorem build_type : (d : DM) → (ty : Ty) → (nul : Bool) → ty.wf = true →
    build Engine.ideal .type ty nul none d =
      if conforms ty nul (TL.ofDM d) = true then .ok (normalize ty (TL.ofDM d)) else .reject
  | .null, ty, nul, _ => by
    unfold build; simp [TL.ofDM, conforms, normalize]
  | .bool b, ty, nul, _ => by unfold build; exact buildScalar_type nul _ (by simp) rfl ty
  | .int b, ty, nul, _ => by unfold build; exact buildScalar_type nul _ (by simp) rfl ty
  | .float b, ty, nul, _ => by unfold build; exact buildScalar_type nul _ (by simp) rfl ty
  | .str b, ty, nul, _ => by unfold build; exact buildScalar_type nul _ (by simp) rfl ty
  | .bytes b, ty, nul, _ => by unfold build; exact buildScalar_type nul _ (by simp) rfl ty
  | .link b, ty, nul, _ => by unfold build; exact buildScalar_type nul _ (by simp) rfl ty
  | .list xs, ty, nul, hwf => by
    unfold build
    simp only [List.isEmpty_nil, if_true, wrapPath]
    cases ty with
    | list ety enul =>
      have hwe : ety.wf = true := by simpa [Ty.wf] using hwf
      simp only [curList, buildList_type xs ety enul hwe [], TL.ofDM, conforms, normalize, List.nil_append]
      split <;> simp [Outcome.map]
    | any =>
      simp only [TL.ofDM, conforms, normalize]
      rw [← anyOK_ofDM_eq]
      simp only [TL.ofDM]
      split <;> simp_all [Outcome.map]
    | struct fs sr => simp [TL.ofDM, conforms, Outcome.map]
    | _ => simp [TL.ofDM, conforms, Outcome.map]
  | .map es, ty, nul, hwf => by
    rw [build_map_ideal]
    simp only [List.isEmpty_nil, if_true, wrapPath]
    cases ty with
    | map vty vnul =>
      have hwe : vty.wf = true := by simpa [Ty.wf] using hwf
      simp only [curMap, buildMap_type es vty vnul hwe [] [] (by simp), TL.ofDM, conforms, normalize,
        List.nil_append]
      split <;> simp [Outcome.map]
    | any =>
      simp only [TL.ofDM, conforms, normalize]
      rw [← anyOK_ofDM_eq]
      simp only [TL.ofDM]
      split <;> simp_all [Outcome.map]
    | struct fs sr =>
      have hw := wf_struct hwf
      simp only [SSt.init_none, TL.ofDM, conforms, normalize]
      rw [buildStruct_type es fs.toList (Fields.wf_mem fs hw.1) hw.2.1 (fun _ => none) [] (by simp)]
      split
      · simp only [Outcome.map_ok, Outcome.ok.injEq, TL.map.injEq]
        congr 1
        unfold canonFields
        apply List.map_congr_left
        intro f _
        exact mergeVal_none _ f
      · rfl
    | union ms ur =>
      have hw := wf_union hwf
      simp only [TL.ofDM]
      match es with
      | .nil => simp [buildUnion, TLKVs.ofDMKVs, conforms, Outcome.map]
      | .cons k x .nil =>
        simp only [buildUnion, memberByKey_ideal, TLKVs.ofDMKVs, conforms, normalize]
        cases hm : ms.toList.find? (fun m => m.name == k) with
        | none => simp [Outcome.map]
        | some m =>
          have hmm := find?_mem_key (·.name) ms.toList k m hm
          simp only []
          rw [build_type x m.ty false (Members.wf_mem ms hw.1 m hmm.1)]
          by_cases hc : conforms m.ty false (TL.ofDM x) = true <;> simp [hc, Outcome.map, hmm.2]
      | .cons k x (.cons k2 x2 es2) =>
        simp only [buildUnion, memberByKey_ideal, TLKVs.ofDMKVs, conforms]
        cases hm : ms.toList.find? (fun m => m.name == k) with
        | none => simp [Outcome.map]
        | some m =>
          have hmm := find?_mem_key (·.name) ms.toList k m hm
          simp only []
          rw [build_type x m.ty false (Members.wf_mem ms hw.1 m hmm.1)]
          by_cases hc : conforms m.ty false (TL.ofDM x) = true <;> simp [hc, Outcome.map]
    | _ => simp [TL.ofDM, conforms, Outcome.map]
theorem buildList_type : (xs : DMs) → (ety : Ty) → (enul : Bool) → ety.wf = true → (acc : List TL) →
    buildList Engine.ideal .type ety enul acc xs =
      if conformsList ety enul (TLs.ofDMs xs) = true then
        .ok (acc ++ (normalizeList ety (TLs.ofDMs xs)).toList)
      else .reject
  | .nil, _, _, _, acc => by simp [buildList, TLs.ofDMs, conformsList, normalizeList, TLs.toList]
  | .cons x xs, ety, enul, hwf, acc => by
    rw [buildList_cons_ideal]
    rw [build_type x ety enul hwf]
    simp only [TLs.ofDMs, conformsList, normalizeList, TLs.toList]
    by_cases hc : conforms ety enul (TL.ofDM x) = true
    · simp only [hc, if_true, Bool.true_and]
      rw [buildList_type xs ety enul hwf]
      simp
    · simp [hc]
theorem buildMap_type : (es : DMKVs) → (vty : Ty) → (vnul : Bool) → vty.wf = true →
    (acc : List (Bytes × TL)) → (seen : List Bytes) →
    (∀ k, seen.contains k = acc.any (fun p => p.1 == k)) →
    buildMap Engine.ideal .type vty vnul acc es =
      if conformsMap vty vnul seen (TLKVs.ofDMKVs es) = true then
        .ok (acc ++ (normalizeMap vty (TLKVs.ofDMKVs es)).toList)
      else .reject
  | .nil, _, _, _, acc, seen, _ => by
    simp [buildMap, TLKVs.ofDMKVs, conformsMap, normalizeMap, TLKVs.toList]
  | .cons k v es, vty, vnul, hwf, acc, seen, hseen => by
    rw [buildMap_cons_ideal]
    simp only [TLKVs.ofDMKVs, conformsMap, normalizeMap, TLKVs.toList, ideal_dupMapKey, Bool.not_false,
      Bool.and_true, hseen k]
    by_cases hk : acc.any (fun p => p.1 == k) = true
    · simp [hk]
    · simp only [hk, Bool.false_eq_true, if_false, Bool.not_false, Bool.true_and]
      rw [build_type v vty vnul hwf]
      by_cases hc : conforms vty vnul (TL.ofDM v) = true
      · simp only [hc, if_true, Bool.true_and]
        rw [mapAppend_fresh acc k _ (Bool.eq_false_iff.2 hk)]
        rw [buildMap_type es vty vnul hwf _ (k :: seen)]
        · simp
        · intro k'
          simp only [List.contains_cons, hseen k', List.any_append, List.any_cons, List.any_nil,
            Bool.or_false]
          rw [Bool.or_comm]
          congr 1
          exact Bool.beq_comm
      · simp [hc]
theorem buildStruct_type : (es : DMKVs) → (fs : List Field) → (∀ f ∈ fs, f.ty.wf = true) →
    (fs.map (·.name)).Nodup → (g : Bytes → Option TL) → (seen : List Bytes) →
    (∀ k, seen.contains k = (g k).isSome) →
    buildStruct Engine.ideal .type fs (SSt.ofFn fs g) es =
      if conformsStruct fs seen (TLKVs.ofDMKVs es) = true then
        .ok (.map (TLKVs.ofList (fs.map fun f =>
          (f.name, mergeVal g (normalizeStruct fs (TLKVs.ofDMKVs es)).toList f.name))))
      else .reject
  | .nil, fs, _, _, g, seen, hseen => by
    unfold buildStruct
    rw [SSt.ofFn_finish]
    simp only [TLKVs.ofDMKVs, conformsStruct, normalizeStruct, TLKVs.toList, mergeVal_nil, hseen]
  | .cons k x es, fs, hwf, hnd, g, seen, hseen => by
    rw [buildStruct_cons_ideal]
    simp only [TLKVs.ofDMKVs, conformsStruct_cons, normalizeStruct, TLKVs.toList]
    cases hf : fieldByKey Engine.ideal .type fs k with
    | none =>
      have := fieldByKey_ideal_none .type fs k hf
      simp only [] at this
      simp [this]
    | some r =>
      obtain ⟨i, f⟩ := r
      have hk := fieldByKey_ideal_some .type fs k i f hf
      simp only [] at hk
      obtain ⟨hi, hmem, hname, hfind⟩ := hk
      simp only [hfind, SSt.ofFn_isDone fs g i f hi, hname, ← hseen k, ideal_dupStructField,
        Bool.not_false, Bool.and_true, SSt.curOf_ideal, fieldValOK_ofDM]
      by_cases hs : seen.contains k = true
      · simp only [hs, if_true, Bool.not_true, Bool.false_and, Bool.false_eq_true, if_false]
      · simp only [hs, Bool.false_eq_true, if_false, Bool.not_false, Bool.true_and]
        rw [build_type x f.ty f.nullable (hwf f hmem)]
        by_cases hc : conforms f.ty f.nullable (TL.ofDM x) = true
        · simp only [hc, if_true, Bool.true_and]
          rw [SSt.ofFn_assign fs g i f _ hi hnd, hname]
          rw [buildStruct_type es fs hwf hnd _ (k :: seen)]
          · have hgk : g k = none := by
              cases hg : g k with
              | none => rfl
              | some _ => exact absurd (by rw [hseen k, hg]; rfl) hs
            split
            · simp only [Outcome.ok.injEq, TL.map.injEq]
              congr 1
              apply List.map_congr_left
              intro f' _
              rw [mergeVal_set g k _ _ _ hgk]
            · rfl
          · intro k'
            simp only [List.contains_cons, hseen k', setFn]
            by_cases hkk : k' = k
            · subst hkk; simp
            · have : (k' == k) = false := by simpa using hkk
              simp [this]
        · simp [hc]
end

end Schema
end Ipld
