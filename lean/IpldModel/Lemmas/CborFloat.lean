/-
  Helper lemmas about float widening: the widened bit pattern of a 16- and 32-bit float fits 64 bits.
-/
import IpldModel.Model.Base
import IpldModel.Spec.CborDenotes
namespace Ipld

theorem highBit_spec : ∀ (w m : Nat), m ≠ 0 → m < 2 ^ w →
    2 ^ highBit w m ≤ m ∧ m < 2 ^ (highBit w m + 1) ∧ highBit w m < w
  | 0, m, h0, h => by simp at h; omega
  | w + 1, m, h0, h => by
    have hp : 0 < 2 ^ w := Nat.pow_pos (by omega)
    simp only [highBit]
    split
    · rename_i hb
      refine ⟨?_, h, by omega⟩
      have : 1 ≤ m / 2 ^ w := by
        generalize m / 2 ^ w = q at hb; omega
      have := (Nat.le_div_iff_mul_le hp).mp this
      omega
    · rename_i hb
      have h2 : m / 2 ^ w < 2 := by
        rw [Nat.div_lt_iff_lt_mul hp, Nat.mul_comm, ← Nat.pow_succ]; exact h
      have h3 : m / 2 ^ w = 0 := by
        generalize m / 2 ^ w = q at hb h2; omega
      have h4 : m < 2 ^ w := by
        rcases Nat.div_eq_zero_iff.mp h3 with h | h
        · omega
        · exact h
      have := highBit_spec w m h0 h4
      omega

theorem subnormal_frac_lt (mbits m : Nat) (h0 : m ≠ 0) (h : m < 2 ^ mbits) (hmb : mbits ≤ 52) :
    (m - 2 ^ highBit mbits m) * 2 ^ (52 - highBit mbits m) < 2 ^ 52 := by
  obtain ⟨h1, h2, h3⟩ := highBit_spec mbits m h0 h
  have hp : 0 < 2 ^ (52 - highBit mbits m) := Nat.pow_pos (by omega)
  have e : 2 ^ highBit mbits m * 2 ^ (52 - highBit mbits m) = 2 ^ 52 := by
    rw [← Nat.pow_add]; congr 1; omega
  rw [← e]
  apply Nat.mul_lt_mul_of_pos_right _ hp
  rw [Nat.pow_succ] at h2
  omega

theorem f16to64_lt (h : Nat) (hh : h < 2 ^ 16) : f16to64 h < 2 ^ 64 := by
  unfold f16to64 widen
  simp only []
  have hs : h / 32768 < 2 := by omega
  have he : h / 1024 % 32 < 32 := by omega
  have hm : h % 1024 < 2 ^ 10 := by omega
  split
  · split
    · omega
    · rename_i hm0
      have := subnormal_frac_lt 10 (h % 1024) hm0 hm (by omega)
      have := (highBit_spec 10 (h % 1024) hm0 hm).2.2
      omega
  · split
    · split
      · omega
      · omega
    · rename_i h1 h2
      have : h / 1024 % 32 < 31 := by omega
      omega

theorem f32to64_lt (w : Nat) (hw : w < 2 ^ 32) : f32to64 w < 2 ^ 64 := by
  unfold f32to64 widen
  simp only []
  have hs : w / 2147483648 < 2 := by omega
  have he : w / 8388608 % 256 < 256 := by omega
  have hm : w % 8388608 < 2 ^ 23 := by omega
  split
  · split
    · omega
    · rename_i hm0
      have := subnormal_frac_lt 23 (w % 8388608) hm0 hm (by omega)
      have := (highBit_spec 23 (w % 8388608) hm0 hm).2.2
      omega
  · split
    · split
      · omega
      · omega
    · rename_i h1 h2
      have : w / 8388608 % 256 < 255 := by omega
      omega

theorem finite_of_not_nan_inf (b : Nat) (h1 : f64IsNaN b = false) (h2 : f64IsInf b = false) : Spec.finite64 b := by
  unfold Spec.finite64
  intro h
  simp [f64IsNaN, f64IsInf, h] at h1 h2
  omega

theorem not_nan_of_inf (b : Nat) (h : f64IsInf b = true) : f64IsNaN b = false := by
  simp only [f64IsInf, f64IsNaN, Bool.and_eq_true, decide_eq_true_eq] at h ⊢
  simp [h.2]

end Ipld
