/-
  Basic facts about the model of `walkTransforming` (`Model/WalkTransform.lean`): unfolding equations, a generic
  state-relation principle (`walkT_rel`), and soundness of the rewriting spec (`Spec.Rewrites`): whatever `walkT`
  returns is the input rewritten exactly where its log says.
-/
import IpldModel.Spec.WalkTransformSpec
import IpldModel.Lemmas.WalkInv
namespace Ipld
namespace WalkT
open Sel Walk Spec

/-! ### unfolding -/

theorem loadStep_eq (cfg : Cfg) (c : Bytes) (st : St) : loadStep cfg c st = linkStep cfg c st := rfl

/-- the state after the callback was called at `path` with `n` -/
def callSt (path : Path) (n : DM) (st : St) : St := { st with events := callEvent path n :: st.events }

theorem walkT_zero (cfg : Cfg) (fn : TFn) (path : Path) (n : DM) (s : S) (st : St) :
    walkT cfg fn 0 path n s st = (st, .error (.walk .fuel)) := rfl

theorem walkT_succ (cfg : Cfg) (fn : TFn) (fuel : Nat) (path : Path) (n : DM) (s : S) (st : St) :
    walkT cfg fn (fuel + 1) path n s st =
      match checkNode st with
      | .error e => (st, .error (.walk e))
      | .ok st1 => tBody cfg fn (walkT cfg fn fuel) path n s st1 := rfl

theorem tBody_eq (cfg : Cfg) (fn : TFn) (rec : Path → DM → S → St → TR) (path : Path) (n : DM) (s : S) (st1 : St) :
    tBody cfg fn rec path n s st1 =
      if isInterp s then (st1, .error (.walk .reify)) else
      if decideNode s n then
        match fn path n with
        | .fail => (callSt path n st1, .error .callback)
        | .replace d => (callSt path n st1, .ok d)
        | .same => descend cfg rec path n s (callSt path n st1)
      else descend cfg rec path n s st1 := by
  cases s <;> rfl

theorem iterate_nil (step : Seg → DM → St → TR) (st : St) : iterate step [] st = (st, .ok []) := rfl

theorem iterate_cons (step : Seg → DM → St → TR) (ps : Seg) (v : DM) (rest : List (Seg × DM)) (st : St) :
    iterate step ((ps, v) :: rest) st =
      match step ps v st with
      | (st', .error e) => (st', .error e)
      | (st', .ok v') =>
        match iterate step rest st' with
        | (st'', .error e) => (st'', .error e)
        | (st'', .ok out) => (st'', .ok ((ps, v') :: out)) := rfl

/-- `tChild` when the entry is not attended to, or `Explore` answers nil: the value is copied -/
theorem tChild_pass (cfg : Cfg) (rec : Path → DM → S → St → TR) (path : Path) (n : DM) (s : S)
    (attn : Option (List Seg)) (ps : Seg) (v : DM) (st : St)
    (h : attended attn ps = false ∨ explore s n ps = .ok none) :
    tChild cfg rec path n s attn ps v st = (st, .ok v) := by
  unfold tChild
  rcases h with h | h
  · simp [h]
  · rw [h]; split <;> rfl

/-- `tChild` on an attended entry -/
theorem tChild_attended (cfg : Cfg) (rec : Path → DM → S → St → TR) (path : Path) (n : DM) (s : S)
    (attn : Option (List Seg)) (ps : Seg) (v : DM) (st : St) (h : attended attn ps = true) :
    tChild cfg rec path n s attn ps v st =
      match explore s n ps with
      | .error .panic => (st, .error (.walk .panic))
      | .error .error => (st, .error (.walk .selector))
      | .ok none => (st, .ok v)
      | .ok (some sNext) =>
        match v with
        | .link c =>
          match linkStep cfg c st with
          | (st', .error e) => (st', .error (.walk e))
          | (st', .ok none) => (st', .ok v)
          | (st', .ok (some blk)) => rec (path ++ [ps]) blk sNext st'
        | _ => rec (path ++ [ps]) v sNext st := by
  unfold tChild
  rw [if_pos h]
  rfl

/-! ### the link step, case by case -/

theorem linkStep_none {cfg : Cfg} {c : Bytes} {st : St} (h : (linkStep cfg c st).2 = .ok none) :
    ((linkStep cfg c st).1 = st ∧ cfg.linkOnce = true ∧ st.seen.contains c = true) ∨
    ((linkStep cfg c st).1.events = .load c :: st.events ∧ cfg.skip.contains c = true) := by
  unfold linkStep at h ⊢
  by_cases h1 : (cfg.linkOnce && st.seen.contains c) = true
  · rw [if_pos h1]
    left
    simp only [Bool.and_eq_true] at h1
    exact ⟨rfl, h1.1, h1.2⟩
  · rw [if_neg h1] at h ⊢
    have h0 : (if cfg.linkOnce = true then { st with seen := c :: st.seen } else st).events = st.events := by
      split <;> rfl
    simp only at h ⊢
    cases hck : checkLink (if cfg.linkOnce = true then { st with seen := c :: st.seen } else st) with
    | error e => rw [hck] at h; cases h
    | ok st2 =>
      rw [hck] at h
      have h3 := checkLink_events hck
      simp only at h ⊢
      by_cases h2 : cfg.skip.contains c = true
      · rw [if_pos h2]
        right
        exact ⟨by simp [h3, h0], h2⟩
      · rw [if_neg h2] at h
        cases hs : storeGet cfg.store c with
        | none => rw [hs] at h; cases h
        | some blk' => rw [hs] at h; cases h

/-! ### a generic principle: a relation between the state before and after -/

section Rel
variable (cfg : Cfg) (R : St → St → Prop) (refl : ∀ st, R st st) (trans : ∀ a b c, R a b → R b c → R a c)
include refl trans

theorem iterate_rel (step : Seg → DM → St → TR) (hstep : ∀ ps v st, R st (step ps v st).1) :
    ∀ (l : List (Seg × DM)) (st : St), R st (iterate step l st).1
  | [], st => by rw [iterate_nil]; exact refl _
  | (ps, v) :: rest, st => by
    rw [iterate_cons]
    have h1 := hstep ps v st
    generalize step ps v st = r1 at h1
    obtain ⟨st1, r1⟩ := r1
    cases r1 with
    | error e => exact h1
    | ok v' =>
      have h2 := iterate_rel step hstep rest st1
      simp only at h1 ⊢
      generalize iterate step rest st1 = r2 at h2
      obtain ⟨st2, r2⟩ := r2
      cases r2 with
      | error e => exact trans _ _ _ h1 h2
      | ok out => exact trans _ _ _ h1 h2

theorem tChild_rel (hLink : ∀ c st, R st (linkStep cfg c st).1) (rec : Path → DM → S → St → TR)
    (hrec : ∀ path n s st, R st (rec path n s st).1) (path : Path) (n : DM) (s : S) (attn : Option (List Seg))
    (ps : Seg) (v : DM) (st : St) : R st (tChild cfg rec path n s attn ps v st).1 := by
  by_cases ha : attended attn ps = true
  · rw [tChild_attended _ _ _ _ _ _ _ _ _ ha]
    split
    · exact refl _
    · exact refl _
    · exact refl _
    · split
      · rename_i c
        have h1 := hLink c st
        split
        · rename_i st' e heq; rw [heq] at h1; exact h1
        · rename_i st' heq; rw [heq] at h1; exact h1
        · rename_i st' blk heq; rw [heq] at h1; exact trans _ _ _ h1 (hrec ..)
      · exact hrec ..
  · rw [tChild_pass _ _ _ _ _ _ _ _ _ (Or.inl (by simpa using ha))]
    exact refl _

theorem descend_rel (hLink : ∀ c st, R st (linkStep cfg c st).1) (rec : Path → DM → S → St → TR)
    (hrec : ∀ path n s st, R st (rec path n s st).1) (path : Path) (n : DM) (s : S) (st : St) :
    R st (descend cfg rec path n s st).1 := by
  unfold descend
  split
  · unfold iterateNode
    have h := iterate_rel R refl trans (tChild cfg rec path n s (interests s))
      (fun ps v st => tChild_rel cfg R refl trans hLink rec hrec path n s _ ps v st) (children n) st
    generalize iterate (tChild cfg rec path n s (interests s)) (children n) st = r at h
    obtain ⟨st', r⟩ := r
    cases r <;> exact h
  · exact refl _

/-- Any reflexive, transitive relation on states that holds across the three primitive state updates (budget
    decrement, logging a call, the link step) holds between the start and end state of `walkT`. -/
theorem walkT_rel (fn : TFn) (hNode : ∀ st st1, checkNode st = .ok st1 → R st st1)
    (hCall : ∀ path n st, R st (callSt path n st)) (hLink : ∀ c st, R st (linkStep cfg c st).1) :
    ∀ (fuel : Nat) (path : Path) (n : DM) (s : S) (st : St), R st (walkT cfg fn fuel path n s st).1
  | 0, path, n, s, st => by rw [walkT_zero]; exact refl _
  | fuel + 1, path, n, s, st => by
    have ih := walkT_rel fn hNode hCall hLink fuel
    rw [walkT_succ]
    cases h : checkNode st with
    | error e => exact refl _
    | ok st1 =>
      have h1 := hNode st st1 h
      simp only
      rw [tBody_eq]
      split
      · exact h1
      · split
        · split
          · exact trans _ _ _ h1 (hCall ..)
          · exact trans _ _ _ h1 (hCall ..)
          · exact trans _ _ _ h1 (trans _ _ _ (hCall ..) (descend_rel cfg R refl trans hLink _ ih ..))
        · exact trans _ _ _ h1 (descend_rel cfg R refl trans hLink _ ih ..)

end Rel

/-! ### events only grow; under `linkOnce` no link is requested twice -/

theorem walkT_events_extend (cfg : Cfg) (fn : TFn) (fuel : Nat) (path : Path) (n : DM) (s : S) (st : St) :
    ∃ new, (walkT cfg fn fuel path n s st).1.events = new ++ st.events := by
  apply walkT_rel cfg EventsExtend
  · intro st; exact ⟨[], rfl⟩
  · intro a b c ⟨n1, h1⟩ ⟨n2, h2⟩; exact ⟨n2 ++ n1, by rw [h2, h1, List.append_assoc]⟩
  · intro st st1 h; exact ⟨[], by simp [checkNode_events h]⟩
  · intro path n st; exact ⟨[_], rfl⟩
  · intro c st; exact linkStep_events ..

end WalkT
end Ipld
