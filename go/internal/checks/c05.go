package checks

import (
	"bytes"
	"encoding/hex"
	"fmt"
	"strings"

	"github.com/ipfs/go-cid"
	"github.com/ipld/go-ipld-prime/datamodel"
	"github.com/ipld/go-ipld-prime/linking"
	cidlink "github.com/ipld/go-ipld-prime/linking/cid"
	"github.com/ipld/go-ipld-prime/node/basicnode"
	"github.com/ipld/go-ipld-prime/schema"
	"github.com/ipld/go-ipld-prime/storage/memstore"
	mh "github.com/multiformats/go-multihash"

	"verif/internal/core"
)

// C05 — links are a function of value and prototype; store then load returns the value.
//
// One link system and one storage per case; a random interleaving of store / compute / load / loadRaw /
// loadPlusRaw / fill over several values.
//   (O) oracle        : Store link == ComputeLink link at every point of the history and == the link a *fresh* link
//                       system computes (history independence); for the key-sorting codecs the link is the same for every
//                       insertion order and assembly plan; every load function returns the stored value (maps in the
//                       codec's order) and raw bytes that hash to the link.
//   (D) correspondence: the model predicts the block bytes (dag-cbor, cbor; dag-json/json through the C04 model when
//                       available); the harness hashes the predicted bytes with go-multihash, builds the CID with go-cid
//                       and compares it with the link returned by the implementation.

func init() {
	core.Register(&core.Check{ID: "C05", Run: runC05, Replay: replayC05})
}

type c05sys struct {
	lsys  linking.LinkSystem
	fresh func() linking.LinkSystem
	name  string
}

func newC05Sys(kind int) *c05sys {
	reg := testRegistry()
	s := &c05sys{}
	s.fresh = func() linking.LinkSystem { return cidlink.LinkSystemUsingMulticodecRegistry(reg) }
	s.lsys = s.fresh()
	switch kind % 2 {
	case 0:
		st := &memstore.Store{}
		s.lsys.SetReadStorage(st)
		s.lsys.SetWriteStorage(st)
		s.name = "memstore"
	case 1:
		st := &cidlink.Memory{}
		s.lsys.StorageReadOpener = st.OpenRead
		s.lsys.StorageWriteOpener = st.OpenWrite
		s.name = "cidlink.Memory"
	}
	return s
}

func codecOrder(code uint64, v core.Val) core.Val {
	switch code {
	case 0x71, 0x70:
		return v.Sorted(core.LessCbor)
	case 0x0129:
		return v.Sorted(core.LessLex)
	}
	return v.Sorted(func(a, b []byte) bool { return false }) // insertion order (normalises nil/empty)
}

func modelEncLine(code uint64, v core.Val) string {
	switch code {
	case 0x71, 0x70:
		return "cbor.enc " + v.Term()
	case 0x51:
		return "cbor.encplain " + v.Term()
	}
	return ""
}

type c05item struct {
	v     core.Val
	lp    cidlink.LinkPrototype
	lnk   datamodel.Link
	codec uint64
	// typed: the same data-model value presented by a schema-typed node (reflection binding), at type level or as its
	// representation view; nil for plain values
	typed func() (datamodel.Node, error)
	how   string
}

// c05Typed draws a schema type and an inhabitant and returns the data-model value a typed node of it presents (at type
// level, or of its representation view) together with a constructor of that node.  ok=false when the draw is unusable
// (absent fields at type level have no encoding; a value without representation).
func c05Typed(r *core.Rand, jsonDomain bool) (v core.Val, mk func() (datamodel.Node, error), how string, ok bool) {
	cfg := core.DefaultSchemaCfg
	cfg.NullableDispatchUnion, cfg.KindedIntEnum, cfg.TupleLooseOptional, cfg.UnionAnyMember, cfg.EnumEmptyRename = 0, 0, 0, 0, 0
	t := core.GenSchema(r, cfg)
	sc, err := newSchemaCase(t)
	if err != nil {
		return v, nil, "", false
	}
	tv := core.GenInhabitant(t, r, cfg, jsonDomain)
	build := func() (schema.TypedNode, error) {
		nb, err := sc.Eng.NewTypeBuilder(t.Name)
		if err != nil {
			return nil, err
		}
		if err := core.Assemble(nb, core.TypeInput(tv), nil); err != nil {
			return nil, err
		}
		tn, ok := nb.Build().(schema.TypedNode)
		if !ok {
			return nil, fmt.Errorf("not a typed node")
		}
		return tn, nil
	}
	tn, err := build()
	if err != nil {
		return v, nil, "", false
	}
	if r.Bool() {
		// type-level view
		if strings.Contains(" "+tv.Term()+" ", " a ") {
			return v, nil, "", false
		}
		got, err := core.ReadNode(tn)
		if err != nil {
			return v, nil, "", false
		}
		return got, func() (datamodel.Node, error) { return build() }, "bindnode type-level node of " + t.Tokens(), true
	}
	got, err := readNodeSafe(tn.Representation())
	if err != nil {
		return v, nil, "", false
	}
	return got, func() (datamodel.Node, error) {
		tn, err := build()
		if err != nil {
			return nil, err
		}
		return tn.Representation(), nil
	}, "bindnode representation node of " + t.Tokens(), true
}

func c05Case(c *core.Ctx, r *core.Rand, idx int) error {
	sys := newC05Sys(idx)
	var items []c05item
	var hist []string
	caseID := func() string {
		return fmt.Sprintf("c05.history %s seed-fork#%d: %s", sys.name, idx, strings.Join(hist, " ; "))
	}
	fail := func(sig, impl, want, detail string) {
		c.Fail(sig, core.Replay{Kind: "oracle", Case: caseID(), Impl: impl, Expected: want, Detail: detail})
	}
	var modelLines []string
	var modelFor []int
	// everything a load handed out is kept and re-read after every later operation: results are values, not views
	// of buffers the link system goes on using
	type retained struct {
		raw, snap []byte
		n         datamodel.Node
		term      string
		what      string
	}
	var kept []retained
	recheck := func() {
		for i := range kept {
			k := &kept[i]
			if k.raw != nil && !bytes.Equal(k.raw, k.snap) {
				fail("C05/returned-data-changed-by-later-operation", hex.EncodeToString(k.raw), hex.EncodeToString(k.snap), "bytes returned by "+k.what+" changed during a later operation")
				k.snap = append([]byte{}, k.raw...)
			}
			if k.n != nil {
				if t := termOf(k.n); t != k.term {
					fail("C05/returned-data-changed-by-later-operation", t, k.term, "node returned by "+k.what+" changed during a later operation")
					k.term = t
				}
			}
		}
	}
	nops := 4 + r.Intn(10)
	for op := 0; op < nops; op++ {
		recheck()
		if len(items) == 0 || r.Chance(1, 3) {
			// new value + prototype
			code := c06Codecs[r.Intn(len(c06Codecs))]
			ver := uint64(1)
			hcode := c06Hashes[r.Intn(len(c06Hashes))]
			mhLen := -1
			if r.Chance(1, 6) {
				ver, code, hcode = 0, 0x70, mh.SHA2_256
				if r.Bool() {
					mhLen = 32
				}
			} else if hcode != mh.IDENTITY && r.Chance(1, 3) {
				mhLen = []int{4, 8, 16, 20}[r.Intn(4)]
				if hcode == mh.MD5 && mhLen > 16 {
					mhLen = 16
				}
			}
			gc := code
			if gc == 0x70 {
				gc = 0x71
			}
			v := genForCodec(r, gc)
			it := c05item{v: v, codec: code, lp: cidlink.LinkPrototype{Prefix: cid.Prefix{Version: ver, Codec: code, MhType: hcode, MhLength: mhLen}}}
			if (gc == 0x71 || gc == 0x0129) && r.Chance(1, 4) {
				if tv, mk, how, ok := c05Typed(r, gc == 0x0129); ok && !(gc == 0x0129 && strings.Contains(tv.Term(), " d")) {
					it.v, it.typed, it.how = tv, mk, how
					c.Dist("node:typed")
				}
			}
			items = append(items, it)
		}
		it := &items[r.Intn(len(items))]
		build := func(v core.Val) (datamodel.Node, error) {
			if it.typed != nil && r.Bool() {
				hist = append(hist, "("+it.how+")")
				return it.typed()
			}
			return buildVariant(v, r)
		}
		if r.Chance(1, 8) {
			// an operation that FAILS part-way: a value the codec refuses only after it has written some bytes (a link or
			// bytes value deep inside a container, under the codecs that cannot express them).  It must leave no trace:
			// every later link is still compared with a fresh link system's.
			bad := core.List(core.Int(1), core.Str("padding padding padding"), core.Map(core.KV{K: []byte("k"), V: core.Link(core.GenCid(r))}))
			if r.Bool() {
				bad = core.Map(core.KV{K: []byte("a"), V: core.Int(1)}, core.KV{K: []byte("b"), V: core.List(core.Bytes([]byte{1, 2, 3}))})
			}
			code := []uint64{0x51, 0x0200, 0x0200}[r.Intn(3)]
			if code == 0x51 && bad.K == '{' {
				code = 0x0200 // plain cbor can express bytes; json cannot
			}
			lp := cidlink.LinkPrototype{Prefix: cid.Prefix{Version: 1, Codec: code, MhType: c06Hashes[r.Intn(len(c06Hashes))], MhLength: -1}}
			if n, err := core.BuildBasic(bad, nil); err == nil {
				var ferr error
				if r.Bool() {
					hist = append(hist, fmt.Sprintf("failing-store[0x%x mh0x%x]", code, lp.MhType))
					_, ferr = sys.lsys.Store(linking.LinkContext{}, lp, n)
				} else {
					hist = append(hist, fmt.Sprintf("failing-compute[0x%x mh0x%x]", code, lp.MhType))
					_, ferr = sys.lsys.ComputeLink(lp, n)
				}
				if ferr == nil {
					c.Dist("failing-op:accepted")
				} else {
					c.Dist("failing-op:refused")
				}
			}
		}
		switch k := r.Intn(7); {
		case k <= 1 || it.lnk == nil: // store (possibly a different insertion order of the same value)
			v := it.v
			sorted := it.codec == 0x71 || it.codec == 0x0129 || it.codec == 0x70
			if sorted && r.Bool() {
				v = core.Shuffle(v, r)
			}
			n, err := build(v)
			if err != nil {
				return err
			}
			hist = append(hist, fmt.Sprintf("store[0x%x v%d mh0x%x len%d] %s", it.codec, it.lp.Version, it.lp.MhType, it.lp.MhLength, v.Term()))
			lnk, err := sys.lsys.Store(linking.LinkContext{}, it.lp, n)
			if err != nil {
				fail("C05/store-refused", err.Error(), "link", "")
				continue
			}
			cl, err2 := sys.lsys.ComputeLink(it.lp, n)
			if err2 != nil || cl.Binary() != lnk.Binary() {
				fail("C05/store-ne-compute", fmt.Sprint(lnk), fmt.Sprint(cl, err2), "Store and ComputeLink disagree")
			}
			fl := sys.fresh()
			fc, err3 := fl.ComputeLink(it.lp, n)
			if err3 != nil || fc.Binary() != lnk.Binary() {
				fail("C05/link-depends-on-history", fmt.Sprint(lnk), fmt.Sprint(fc, err3), "a fresh link system computes a different link")
			}
			if it.lnk != nil && it.lnk.Binary() != lnk.Binary() {
				fail("C05/link-depends-on-order-or-plan", fmt.Sprint(lnk), fmt.Sprint(it.lnk), "same value, different insertion order / plan / implementation")
			}
			it.lnk = lnk
			if ml := modelEncLine(it.codec, it.v); ml != "" {
				modelLines = append(modelLines, ml)
				modelFor = append(modelFor, len(items)-1)
				for j := range items {
					if &items[j] == it {
						modelFor[len(modelFor)-1] = j
					}
				}
			}
		case k == 2: // compute only
			n, err := build(it.v)
			if err != nil {
				return err
			}
			hist = append(hist, "compute "+it.v.Term())
			cl, err := sys.lsys.ComputeLink(it.lp, n)
			if err != nil || cl.Binary() != it.lnk.Binary() {
				fail("C05/store-ne-compute", fmt.Sprint(cl, err), fmt.Sprint(it.lnk), "ComputeLink later in the history disagrees with the stored link")
			}
		default: // one of the load functions
			fn := []string{"Load", "LoadRaw", "LoadPlusRaw", "Fill"}[k-3]
			hist = append(hist, fn+" "+it.lnk.String())
			want := codecOrder(it.codec, it.v).Term()
			var got string
			var rawb []byte
			var err error
			var keepNode datamodel.Node
			switch fn {
			case "Load":
				var n datamodel.Node
				if n, err = sys.lsys.Load(linking.LinkContext{}, it.lnk, basicnode.Prototype.Any); err == nil {
					got, keepNode = termOf(n), n
				}
			case "Fill":
				nb := basicnode.Prototype.Any.NewBuilder()
				if err = sys.lsys.Fill(linking.LinkContext{}, it.lnk, nb); err == nil {
					keepNode = nb.Build()
					got = termOf(keepNode)
				}
			case "LoadRaw":
				rawb, err = sys.lsys.LoadRaw(linking.LinkContext{}, it.lnk)
			case "LoadPlusRaw":
				var n datamodel.Node
				if n, rawb, err = sys.lsys.LoadPlusRaw(linking.LinkContext{}, it.lnk, basicnode.Prototype.Any); err == nil {
					got, keepNode = termOf(n), n
				}
			}
			if err != nil {
				fail("C05/load-fails", err.Error(), want, fn+" of a stored link failed")
				continue
			}
			if fn != "LoadRaw" && got != want {
				fail("C05/load-differs", got, want, fn+" does not return the stored value")
			}
			if rawb != nil && !hashesTo(it.lnk.(cidlink.Link), rawb) {
				fail("C05/raw-does-not-hash", hex.EncodeToString(rawb), "", fn+" returned bytes that do not hash to the link")
			}
			if rawb != nil {
				kept = append(kept, retained{raw: rawb, snap: append([]byte{}, rawb...), what: fn + " " + it.lnk.String()})
			}
			if keepNode != nil {
				kept = append(kept, retained{n: keepNode, term: got, what: fn + " " + it.lnk.String()})
			}
		}
	}
	recheck()
	// D: predicted bytes → hash → CID
	if len(modelLines) > 0 {
		outs, err := core.RunDriver(modelLines)
		if err != nil {
			return err
		}
		for i, o := range outs {
			it := items[modelFor[i]]
			f := strings.Fields(o)
			if len(f) < 2 || f[0] != "ok" {
				c.Fail("C05/corr-model-refuses", core.Replay{Kind: "correspondence", Case: modelLines[i], Impl: fmt.Sprint(it.lnk), Model: o})
				continue
			}
			b, _ := hex.DecodeString(f[1])
			pc, err := it.lp.Prefix.Sum(b)
			if it.lp.MhLength > 0 || err != nil {
				// Prefix.Sum validates lengths differently; rebuild through BuildLink with the full digest
				sum, _ := mh.Sum(b, it.lp.MhType, -1)
				dec, _ := mh.Decode(sum)
				func() {
					defer func() { recover() }()
					pc = it.lp.BuildLink(dec.Digest).(cidlink.Link).Cid
					err = nil
				}()
			}
			if err != nil || !bytes.Equal(pc.Bytes(), it.lnk.(cidlink.Link).Cid.Bytes()) {
				c.Fail("C05/corr-link", core.Replay{Kind: "correspondence", Case: modelLines[i], Impl: fmt.Sprint(it.lnk), Model: fmt.Sprint(pc, err), Detail: "link of the model's predicted block bytes differs"})
			}
		}
		c.Trace(len(outs))
	}
	c.Count(caseID(), len(hist) >= 4)
	c.Dist("storage:" + sys.name)
	for _, it := range items {
		c.Dist(fmt.Sprintf("codec:0x%x", it.codec))
		c.Dist(fmt.Sprintf("cidv%d", it.lp.Version))
	}
	if idx < 2 {
		c.Sample(caseID())
	}
	return nil
}

// c05Split: a link system that READS from one storage and WRITES to another (the usual set-up for copying or
// re-encoding a graph).  Storing a value commits its block to the storage written to - also when the storage read from
// already holds that block - under the link ComputeLink gives, and loading through a link system over the written
// storage returns the value.
func c05Split(c *core.Ctx, r *core.Rand, n int) {
	reg := testRegistry()
	for i := 0; i < n; i++ {
		src, dst := &memstore.Store{}, &memstore.Store{}
		seedSys := cidlink.LinkSystemUsingMulticodecRegistry(reg)
		seedSys.SetWriteStorage(src)
		split := cidlink.LinkSystemUsingMulticodecRegistry(reg)
		split.SetReadStorage(src)
		split.SetWriteStorage(dst)
		back := cidlink.LinkSystemUsingMulticodecRegistry(reg)
		back.SetReadStorage(dst)
		lp := cidlink.LinkPrototype{Prefix: cid.Prefix{Version: 1, Codec: 0x71, MhType: mh.SHA2_256, MhLength: -1}}
		cfg := core.DefaultGen
		cfg.MaxDepth, cfg.MaxWidth, cfg.BigUint = 3, 4, false
		var hist []string
		for k := 2 + r.Intn(4); k > 0; k-- {
			v := core.GenVal(r, cfg, 0)
			nd, err := core.BuildBasic(v, r)
			if err != nil {
				continue
			}
			already := r.Chance(1, 2)
			if already {
				if _, err := seedSys.Store(linking.LinkContext{}, lp, nd); err != nil {
					continue
				}
			}
			hist = append(hist, fmt.Sprintf("store(%s, already-on-read-side=%v)", v.Term(), already))
			caseID := "c05.split " + strings.Join(hist, " ; ")
			c.Count(caseID, already)
			c.Dist("split-storage:" + map[bool]string{true: "block-already-on-read-side", false: "new-block"}[already])
			lnk, err := split.Store(linking.LinkContext{}, lp, nd)
			if err != nil {
				c.Fail("C05/split-store-fails", core.Replay{Kind: "oracle", Case: caseID, Impl: err.Error(), Expected: "a link"})
				continue
			}
			if want, err := split.ComputeLink(lp, nd); err != nil || want.String() != lnk.String() {
				c.Fail("C05/store-link-differs-from-computed", core.Replay{Kind: "oracle", Case: caseID, Impl: lnk.String(), Expected: fmt.Sprint(want, err)})
			}
			got, err := back.Load(linking.LinkContext{}, lnk, basicnode.Prototype.Any)
			if err != nil || termOf(got) != v.Sorted(core.LessCbor).Term() {
				c.Fail("C05/stored-block-not-in-written-storage", core.Replay{Kind: "oracle", Case: caseID, Impl: termOfOrErr(got, err), Expected: v.Sorted(core.LessCbor).Term(),
					Detail: "Store on a link system reading from one storage and writing to another; loading from the storage written to"})
			}
		}
	}
}

func runC05(c *core.Ctx) error {
	c.Rule = "per case one link system (memstore or cidlink.Memory) and a random interleaving of 4-13 store/compute/load/loadRaw/loadPlusRaw/fill operations over several values; values per codec domain (dag-cbor, dag-json, cbor, json, raw), CIDv0/v1, sha2-256/sha2-512/sha1/md5/identity, full and truncated digests, random insertion orders and assembly plans; non-trivial = history of at least 4 operations; distinct by history"
	c.Explanation = "theorems (arbitrary hash function and codec table): buildLink_hashesTo, store_eq_compute, link_fun, link_perm_dagcbor, history_inv, load_store, load_store_dagcbor"
	c.Assumptions = []string{"hash implementations trusted; composition checked", "floats are kept out of the JSON-codec values here (known finding K2 is decided under C04)", "CIDv0 needs codec 0x70, which the repository does not bundle: a test codec (dag-cbor) stands in"}
	c05Split(c, c.Rand.Fork(), c.Pick(80, 6000))
	n := c.Pick(400, 30000)
	for i := 0; i < n; i++ {
		if err := c05Case(c, c.Rand.Fork(), i); err != nil {
			return err
		}
	}
	return nil
}

func replayC05(c *core.Ctx, rp core.Replay) error {
	return fmt.Errorf("C05 histories replay by seed: VERIF_SEED=%d ./vcheck C05 %s (case: %s)", rp.Seed, rp.Tier, rp.Case)
}
