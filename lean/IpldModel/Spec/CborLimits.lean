/-
  Spec-side vocabulary for the decoder theorems (C03): what a value costs against the decoder's
  allocation budget, the largest string it carries, whether it carries a link, and whether all its
  floats are finite.  These are read off the documented limits of `codec/dagcbor`
  (allocation budget, 32 MiB string cap, depth cap, links switch), not off the decoder's control flow.
-/
import IpldModel.Model.Cbor
import IpldModel.Spec.CborDenotes
namespace Ipld
namespace Spec
open Cbor

mutual
/-- What decoding the value charges against the allocation budget: a scalar 1 (null 0), a string or
    byte string its length, a link its CID length plus one (the multibase byte), a list one per
    element plus 4 per element plus the elements, a map one per entry plus key length plus 8 per
    entry plus the values. -/
def cost : DM → Int
  | .null => 0
  | .bool _ => 1
  | .int _ => 1
  | .float _ => 1
  | .str s => s.length
  | .bytes b => b.length
  | .link c => c.length + 1
  | .list xs => xs.length + costList xs
  | .map es => es.length + costKVs es
def costList : DMs → Int
  | .nil => 0
  | .cons x xs => 4 + cost x + costList xs
def costKVs : DMKVs → Int
  | .nil => 0
  | .cons k v es => k.length + 8 + cost v + costKVs es
end

mutual
/-- The largest string / byte string / key payload in the value (for a link: CID length + 1). -/
def maxStr : DM → Nat
  | .str s => s.length
  | .bytes b => b.length
  | .link c => c.length + 1
  | .list xs => maxStrList xs
  | .map es => maxStrKVs es
  | _ => 0
def maxStrList : DMs → Nat
  | .nil => 0
  | .cons x xs => max (maxStr x) (maxStrList xs)
def maxStrKVs : DMKVs → Nat
  | .nil => 0
  | .cons k v es => max k.length (max (maxStr v) (maxStrKVs es))
end

mutual
def hasLink : DM → Bool
  | .link _ => true
  | .list xs => hasLinkList xs
  | .map es => hasLinkKVs es
  | _ => false
def hasLinkList : DMs → Bool
  | .nil => false
  | .cons x xs => hasLink x || hasLinkList xs
def hasLinkKVs : DMKVs → Bool
  | .nil => false
  | .cons _ v es => hasLink v || hasLinkKVs es
end

mutual
/-- No float in the value is a NaN or an infinity. -/
def finiteFloats : DM → Prop
  | .float f => finite64 f.toNat
  | .list xs => finiteFloatsList xs
  | .map es => finiteFloatsKVs es
  | _ => True
def finiteFloatsList : DMs → Prop
  | .nil => True
  | .cons x xs => finiteFloats x ∧ finiteFloatsList xs
def finiteFloatsKVs : DMKVs → Prop
  | .nil => True
  | .cons _ v es => finiteFloats v ∧ finiteFloatsKVs es
end

/-- The value fits the decoder's configured limits: nesting depth, allocation budget, the fixed
    32 MiB cap on any one string, and links only if links are switched on. -/
def WithinLimits (cfg : DecCfg) (v : DM) : Prop :=
  v.depth ≤ cfg.maxDepth ∧ cost v ≤ cfg.budget ∧ maxStr v ≤ 33554432 ∧ (hasLink v = true → cfg.allowLinks = true)

end Spec
end Ipld
