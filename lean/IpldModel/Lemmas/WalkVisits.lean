/-
  The walk's visit sequence against the spec, as a whole: sorted by document order (`DocBefore`), the only such
  list of the selected paths, every selected path exactly once; and what particular selectors (explore
  everything, explore everything to a depth, fields with matcher leaves) make the walk visit.
-/
import IpldModel.Lemmas.WalkDenote
import IpldModel.Lemmas.WalkOk
namespace Ipld
namespace Walk
open Sel Spec

theorem ownSegs_nodup {n : DM} (hn : n.NoDup) : (ownSegs n).Nodup := by
  cases n with
  | map es =>
    simp only [DM.NoDup] at hn
    exact nodup_map_inj Seg.str (fun a b h => by cases h; rfl) hn.1
  | list xs => exact nodup_map_inj Seg.idx (fun a b h => by cases h; rfl) List.nodup_range
  | _ => exact List.nodup_nil

/-- nodes selected from a duplicate-free root through a duplicate-free store are duplicate-free -/
theorem selectorAt_noDup {store : Store} (hstore : StoreNoDup store) {root : DM} (hroot : root.NoDup) {s : S}
    {q : Path} {n : DM} {s' : S} (h : selectorAt store s root q = some (n, s')) : n.NoDup := by
  have hr : Reach { store := store } root s q n s' :=
    (reach_iff_selectorAt (cfg := { store := store }) rfl hroot hstore q n s').2 h
  exact reach_noDup (cfg := { store := store }) hroot hstore hr

theorem segsNodup_of {store : Store} (hstore : StoreNoDup store) {root : DM} (hroot : root.NoDup) {s : S}
    (hsel : ∀ q n s', selectorAt store s root q = some (n, s') → ∀ l, interests s' = some l → l.Nodup) :
    SegsNodup store s root := by
  intro q n s' h
  unfold segsAt
  cases hi : interests s' with
  | none => exact ownSegs_nodup (selectorAt_noDup hstore hroot h)
  | some l => exact hsel q n s' h l hi

theorem selectorAt_all_sel {s : S} (hs : ExploresAll s) {store : Store} {root : DM} {q : Path} {n : DM} {s' : S}
    (h : selectorAt store s root q = some (n, s')) : s' = s := by
  rw [selectorAt_all hs] at h
  simp only [Option.map_eq_some_iff, Prod.mk.injEq] at h
  obtain ⟨_, _, _, rfl⟩ := h
  rfl

theorem segsNodup_all {s : S} (hs : ExploresAll s) {store : Store} (hstore : StoreNoDup store) {root : DM}
    (hroot : root.NoDup) : SegsNodup store s root :=
  segsNodup_of hstore hroot fun q n s' h l hl => by
    rw [selectorAt_all_sel hs h, hs.noInterests] at hl; cases hl

theorem selectorAt_recAll_sel {d : Int} {store : Store} {root : DM} {q : Path} {n : DM} {s' : S}
    (h : selectorAt store (recAll d) root q = some (n, s')) : ∃ d', s' = recAll d' := by
  rw [selectorAt_recAll] at h
  split at h
  · simp only [Option.map_eq_some_iff, Prod.mk.injEq] at h
    obtain ⟨_, _, _, rfl⟩ := h
    exact ⟨_, rfl⟩
  · cases h

theorem segsNodup_recAll (d : Int) {store : Store} (hstore : StoreNoDup store) {root : DM}
    (hroot : root.NoDup) : SegsNodup store (recAll d) root :=
  segsNodup_of hstore hroot fun q n s' h l hl => by
    obtain ⟨d', rfl⟩ := selectorAt_recAll_sel h
    rw [interests_recAll] at hl; cases hl

section
variable (cfg : Cfg) (hu : Unrestricted cfg) (hstore : StoreNoDup cfg.store) (root : DM) (hroot : root.NoDup)
  (s : S) (fuel : Nat) (hok : (walk cfg fuel none none root s).outcome = .ok ())
include hu hstore hroot hok

/-- everything selected lies above the fuel the successful walk was given -/
theorem selected_depth_lt (p : Path) (h : Selected cfg.store s root p) : p.length < fuel := by
  obtain ⟨n, r, hv⟩ := (visited_iff_selected cfg hu hstore root hroot s fuel hok p).2 h
  rw [walk_visits_eq_denote cfg hu hstore root hroot s fuel hok fuel (Nat.le_refl _), mem_denote] at hv
  obtain ⟨_, _, hlen, _⟩ := hv
  exact hlen

theorem walk_visits_sorted :
    ((visitsOf (walk cfg fuel none none root s).events).map (·.1)).Pairwise (DocBefore cfg.store s root) := by
  rw [walk_visits_eq_denote cfg hu hstore root hroot s fuel hok fuel (Nat.le_refl _)]
  exact denote_sorted _ _ _ _

theorem walk_visits_unique (hnd : SegsNodup cfg.store s root) (L : List Path)
    (hmem : ∀ p, p ∈ L ↔ Selected cfg.store s root p) (hsorted : L.Pairwise (DocBefore cfg.store s root)) :
    (visitsOf (walk cfg fuel none none root s).events).map (·.1) = L := by
  rw [walk_visits_eq_denote cfg hu hstore root hroot s fuel hok fuel (Nat.le_refl _)]
  symm
  apply denote_unique hnd fuel L _ hsorted
  intro p
  rw [hmem]
  exact ⟨fun h => ⟨h, selected_depth_lt cfg hu hstore root hroot s fuel hok p h⟩, fun h => h.1⟩

theorem walk_visits_nodup (hnd : SegsNodup cfg.store s root) :
    ((visitsOf (walk cfg fuel none none root s).events).map (·.1)).Nodup :=
  List.Pairwise.imp (fun {a b} hab => by rintro rfl; exact docBefore_irrefl hnd a hab)
    (walk_visits_sorted cfg hu hstore root hroot s fuel hok)

theorem walk_visit_count (hnd : SegsNodup cfg.store s root) (p : Path) :
    ((visitsOf (walk cfg fuel none none root s).events).map (·.1)).count p =
      if Selected cfg.store s root p then 1 else 0 := by
  have hn := walk_visits_nodup cfg hu hstore root hroot s fuel hok hnd
  have hle := List.nodup_iff_count.1 hn p
  have hiff := visited_iff_selected cfg hu hstore root hroot s fuel hok p
  by_cases hsel : Selected cfg.store s root p
  · rw [if_pos hsel]
    obtain ⟨n, r, hv⟩ := hiff.2 hsel
    have : 0 < ((visitsOf (walk cfg fuel none none root s).events).map (·.1)).count p :=
      List.count_pos_iff.2 (List.mem_map.2 ⟨_, hv, rfl⟩)
    omega
  · rw [if_neg hsel]
    apply List.count_eq_zero.2
    intro hm
    obtain ⟨x, hx, rfl⟩ := List.mem_map.1 hm
    exact hsel (hiff.1 ⟨x.2.1, x.2.2, hx⟩)

end

/-! ### particular selectors, at the level of the walk -/

theorem selected_all {s : S} (hs : ExploresAll s) (store : Store) (root : DM) (p : Path) :
    Selected store s root p ↔ (nodeAt store root p).isSome = true := by
  unfold Selected
  rw [selectorAt_all hs, Option.isSome_map]

theorem selected_recAll (store : Store) (d : Int) (root : DM) (p : Path) :
    Selected store (recAll d) root p ↔ (nodeAt store root p).isSome = true ∧ (p = [] ∨ (p.length : Int) < d) := by
  unfold Selected
  rw [selectorAt_recAll]
  by_cases h : p = [] ∨ (p.length : Int) < d
  · simp only [h, if_true, Option.isSome_map, and_true]
  · simp only [h, if_false, and_false]
    simp

section
variable (cfg : Cfg) (hu : Unrestricted cfg) (hstore : StoreNoDup cfg.store) (root : DM) (hroot : root.NoDup)
  (s : S) (fuel : Nat) (hok : (walk cfg fuel none none root s).outcome = .ok ())
include hu hstore hroot hok

theorem walk_all_visits (hs : ExploresAll s) :
    (∀ p, (∃ n r, (p, n, r) ∈ visitsOf (walk cfg fuel none none root s).events) ↔
      (nodeAt cfg.store root p).isSome = true) ∧
    (∀ p n r, (p, n, r) ∈ visitsOf (walk cfg fuel none none root s).events →
      nodeAt cfg.store root p = some n ∧ r = .matched) ∧
    ((visitsOf (walk cfg fuel none none root s).events).map (·.1)).Nodup ∧
    (∀ d, fuel ≤ d → visitsOf (walk cfg fuel none none root s).events =
      (preorder cfg.store d [] root).map fun x => (x.1, x.2, Reason.matched)) := by
  refine ⟨?_, ?_, ?_, ?_⟩
  · intro p
    rw [visited_iff_selected cfg hu hstore root hroot s fuel hok p, selected_all hs]
  · intro p n r h
    obtain ⟨n', s', hsel, hx⟩ := visited_selectorAt cfg hu hstore root hroot s fuel hok _ h
    simp only at hsel hx
    have hs' := selectorAt_all_sel hs hsel
    subst hs'
    rw [visitOf_all hs] at hx
    cases hx
    rw [selectorAt_all hs] at hsel
    simp only [Option.map_eq_some_iff, Prod.mk.injEq, and_true] at hsel
    obtain ⟨a, ha, rfl⟩ := hsel
    exact ⟨ha, rfl⟩
  · exact walk_visits_nodup cfg hu hstore root hroot s fuel hok (segsNodup_all hs hstore hroot)
  · intro d hd
    rw [walk_visits_eq_denote cfg hu hstore root hroot s fuel hok d hd]
    exact denoteFrom_all hs cfg.store d [] root

end

theorem walk_fuel_pos {cfg : Cfg} {fuel : Nat} {root : DM} {s : S}
    (hok : (walk cfg fuel none none root s).outcome = .ok ()) : ∃ f, fuel = f + 1 := by
  cases fuel with
  | zero => unfold walk at hok; rw [walkAdv_zero] at hok; cases hok
  | succ f => exact ⟨f, rfl⟩

theorem walk_fields_visits (cfg : Cfg) (hu : Unrestricted cfg) (hstore : StoreNoDup cfg.store) (root : DM)
    (hroot : root.NoDup) (fs : SFields) (hfs : AllMatchers fs) (fuel : Nat)
    (hok : (walk cfg fuel none none root (.fields fs)).outcome = .ok ()) (p : Path) :
    (∃ n r, (p, n, r) ∈ visitsOf (walk cfg fuel none none root (.fields fs)).events) ↔
      p = [] ∨ ∃ k v, p = [.str k] ∧ k ∈ fieldKeys fs ∧ lookupBySegment root (.str k) = some v := by
  rw [visited_iff_selected cfg hu hstore root hroot _ fuel hok p, selected_fields_matchers cfg.store fs hfs]
  constructor
  · rintro (h | ⟨k, v, h1, h2, h3, _⟩)
    · exact Or.inl h
    · exact Or.inr ⟨k, v, h1, h2, h3⟩
  · rintro (h | ⟨k, v, h1, h2, h3⟩)
    · exact Or.inl h
    · right
      refine ⟨k, v, h1, h2, h3, ?_⟩
      obtain ⟨f, rfl⟩ := walk_fuel_pos hok
      have hc := clean_of_walk_ok cfg hu hstore root hroot _ (f + 1) hok (f + 1) (Nat.le_refl _)
      have hm : Seg.str k ∈ segsAt root (.fields fs) := by
        simp only [segsAt, interests, Option.getD_some]
        exact (mem_fieldInterests fs _).2 ⟨k, rfl, h2⟩
      cases hx : fieldLookup fs k with
      | none => have := fieldLookup_isSome fs k h2; rw [hx] at this; cases this
      | some s' =>
        obtain ⟨n', hd, _⟩ := clean_step hc hm h3 (s' := s') (by simp only [explore, Seg.toString, hx])
        rw [hd]; rfl

theorem walk_recAll_visits (cfg : Cfg) (hu : Unrestricted cfg) (hstore : StoreNoDup cfg.store) (root : DM)
    (hroot : root.NoDup) (d : Int) (fuel : Nat)
    (hok : (walk cfg fuel none none root (recAll d)).outcome = .ok ()) (p : Path) :
    (∃ n r, (p, n, r) ∈ visitsOf (walk cfg fuel none none root (recAll d)).events) ↔
      (nodeAt cfg.store root p).isSome = true ∧ (p = [] ∨ (p.length : Int) < d) := by
  rw [visited_iff_selected cfg hu hstore root hroot _ fuel hok p, selected_recAll]

/-! ### the example graph of `WalkExamples` satisfies the hypotheses; small graphs for the counterexamples -/

namespace Ex

theorem unrestricted : Unrestricted Ex.cfg := ⟨rfl, rfl, rfl⟩

theorem root_noDup : Ex.root.NoDup := by
  simp [Ex.root, DM.NoDup, DMKVs.NoDupVals, DMs.NoDup, DMKVs.keys, DMKVs.toList]

theorem store_noDup : StoreNoDup Ex.cfg.store := by
  intro c blk h
  simp only [Ex.cfg, storeGet, List.find?_cons, List.find?_nil] at h
  split at h
  · cases h; simp [Ex.blk, DM.NoDup, DMKVs.NoDupVals, DMKVs.keys, DMKVs.toList]
  · cases h

/-- a map with the key `"a"` twice: `{"a": 1, "a": [2]}` (no codec or builder produces one) -/
def rootDup : DM := .map (.cons [0x61] (.int 1) (.cons [0x61] (.list (.cons (.int 2) .nil)) .nil))

/-- a store whose block `[1]` is itself a bare link to block `[2]` -/
def store2 : Store := [([1], .link [2]), ([2], .int 5)]
/-- `{"l": <link [1]>}` -/
def root2 : DM := .map (.cons [0x6c] (.link [1]) .nil)

/-- fields `"l"` and `"z"`, both with a plain matcher -/
def fsEx : SFields := .cons [0x6c] (.matcher none) (.cons [0x7a] (.matcher none) .nil)

theorem fsEx_matchers : AllMatchers fsEx := by
  intro e he
  simp only [fsEx, SFields.toList, List.mem_cons, List.not_mem_nil, or_false] at he
  rcases he with rfl | rfl <;> exact ⟨none, rfl⟩

end Ex

end Walk
end Ipld
