/-
  C06 (companion) — `Load` (Fill into a fresh builder, then the reifier) over the same abstract stream, decoder and
  hash function as `Fill` / `LoadRaw` (Props/C06.lean; `LoadPlusRaw` is there too): no entry point hands out data that
  does not hash to its link.  The statement skeletons of `Load` and `LoadPlusRaw` are tied in Props/C06skel.lean.
  Property theorems only.
-/
import IpldModel.Model.Link
import IpldModel.Lemmas.LinkMore
namespace Ipld.Props.C06
open Ipld Ipld.Link

variable (H : Nat → Bytes → Bytes)

/-- `Load` succeeds only where `Fill` does: the reifier can turn a success into an error, never the reverse. -/
theorem load_ok_fill_ok (trusted : Bool) (l : Lnk) (s : Stream) (d : DecRun) (reifyOk : Bool)
    (h : load H trusted l s d reifyOk = .res .ok) : fill H trusted l s d = .ok ∧ reifyOk = true := by
  unfold load at h
  split at h
  · rename_i hf
    refine ⟨hf, ?_⟩
    cases reifyOk <;> simp_all
  · rename_i r hne
    exact absurd h (by simpa using hne)

/-- Untrusted `Load` returning a node means the hasher saw bytes that hash to the link. -/
theorem load_ok_hashes (l : Lnk) (s : Stream) (d : DecRun) (reifyOk : Bool)
    (h : load H false l s d reifyOk = .res .ok) : hashesTo H l (hasherSaw s d) = true := by
  have hf := (load_ok_fill_ok H false l s d reifyOk h).1
  obtain ⟨_, h2, h3⟩ := (Link.fill_ok_iff H l s d).mp hf
  simpa [hasherSaw, Stream.deliverable, h2] using h3

/-- non-vacuity: under the identity "hash" a matching stream loads, a corrupted one is refused, a failing reifier
    turns the success into its own error. -/
example : load (fun _ b => b) false ⟨1, 0x71, 0, [1, 2]⟩ ⟨[1, 2], none⟩ ⟨2, false⟩ = .res .ok ∧
    load (fun _ b => b) false ⟨1, 0x71, 0, [1, 2]⟩ ⟨[1, 3], none⟩ ⟨2, false⟩ = .res .hashMismatch ∧
    load (fun _ b => b) false ⟨1, 0x71, 0, [1, 2]⟩ ⟨[1, 2], none⟩ ⟨2, false⟩ false = .reifyErr := by decide

end Ipld.Props.C06
