/-
  Completeness of the walk against the path-indexed denotation of `Spec/SelectorDenote.lean`:
  a successful unrestricted walk (no budgets, no start-at path, nothing skipped, visit-once off) logs exactly
  `denoteFrom`, i.e. the selected positions in document order.  The bridge between the walk's iteration over
  `childList` and the spec's random-access `childAt` needs nodes without duplicate map keys.
-/
import IpldModel.Spec.SelectorDenote
import IpldModel.Lemmas.WalkStartAt
import IpldModel.Lemmas.WalkNodup2
namespace Ipld
namespace Walk
open Sel Spec

theorem storeGet_eq_lookup (store : List (Bytes × DM)) (c : Bytes) : storeGet store c = store.lookup c := by
  induction store with
  | nil => rfl
  | cons e rest ih =>
    obtain ⟨k, v⟩ := e
    unfold storeGet at ih ⊢
    rw [List.find?_cons, List.lookup_cons]
    by_cases h : k = c
    · subst h; simp
    · have h1 : (k == c) = false := by simpa using h
      have h2 : (c == k) = false := by simpa using fun h' : c = k => h h'.symm
      simp only [h1, h2]
      exact ih

theorem filterMap_eq_map_of {α β : Type} (f : α → Option β) (g : α → β) :
    (l : List α) → (∀ x ∈ l, f x = some (g x)) → l.filterMap f = l.map g
  | [], _ => rfl
  | x :: l, h => by
    rw [List.filterMap_cons, h x (by simp), List.map_cons, filterMap_eq_map_of f g l (fun y hy => h y (by simp [hy]))]

theorem filterMap_congr' {α β : Type} (f g : α → Option β) :
    (l : List α) → (∀ x ∈ l, f x = g x) → l.filterMap f = l.filterMap g
  | [], _ => rfl
  | x :: l, h => by
    rw [List.filterMap_cons, List.filterMap_cons, h x (by simp), filterMap_congr' f g l (fun y hy => h y (by simp [hy]))]

theorem zipIdx_as_range' {α : Type} : (l : List α) → (k : Nat) →
    (l.zipIdx k).map (fun e => (e.2, e.1)) =
      (List.range' k l.length).filterMap (fun i => l[i - k]?.map fun a => (i, a))
  | [], _ => rfl
  | a :: l, k => by
    rw [List.zipIdx_cons, List.map_cons, List.length_cons, List.range'_succ, List.filterMap_cons]
    simp only [Nat.sub_self, List.getElem?_cons_zero, Option.map_some]
    congr 1
    rw [zipIdx_as_range' l (k + 1)]
    apply filterMap_congr'
    intro i hi
    have hi' : k + 1 ≤ i := by
      have := List.mem_range'_1.1 hi
      omega
    have : i - k = (i - (k + 1)) + 1 := by omega
    rw [this, List.getElem?_cons_succ]

theorem zipIdx_as_range {α : Type} (l : List α) :
    l.zipIdx.map (fun e => (e.2, e.1)) = (List.range l.length).filterMap (fun i => l[i]?.map fun a => (i, a)) := by
  rw [zipIdx_as_range' l 0, List.range_eq_range']
  rfl

theorem lookup_list_idx (xs : DMs) (i : Nat) : lookupBySegment (.list xs) (.idx i) = xs.toList[i]? := by
  have h1 : ¬ ((i : Int) < 0) := by omega
  simp only [lookupBySegment, Seg.index, h1, if_false, Int.toNat_natCast]

/-- iterating a node's children = looking each of its own segments up (no duplicate keys) -/
theorem children_eq_lookup {n : DM} (hn : n.NoDup) :
    children n = (ownSegs n).filterMap fun seg => (lookupBySegment n seg).map fun v => (seg, v) := by
  cases n with
  | map es =>
    simp only [DM.NoDup, DMKVs.keys] at hn
    simp only [children, ownSegs, DMKVs.keys, List.filterMap_map]
    symm
    apply filterMap_eq_map_of
    intro e he
    simp only [Function.comp, lookupBySegment, Seg.toString, find_of_nodup_keys es.toList hn.1 e he, Option.map_some]
  | list xs =>
    simp only [children, ownSegs, List.filterMap_map, DMs.length]
    have h := congrArg (List.map fun e : Nat × DM => (Seg.idx e.1, e.2)) (zipIdx_as_range xs.toList)
    rw [List.map_map, List.map_filterMap] at h
    rw [show (fun e : DM × Nat => (Seg.idx e.2, e.1)) = ((fun e : Nat × DM => (Seg.idx e.1, e.2)) ∘ fun e => (e.2, e.1))
      from rfl, h]
    apply filterMap_congr'
    intro i _
    simp only [Function.comp, lookup_list_idx, Option.map_map]
    rfl
  | _ => rfl

theorem childList_eq_lookup {n : DM} (hn : n.NoDup) (s : S) :
    childList n s = (segsAt n s).filterMap fun seg => (childAt n s seg).map fun v => (seg, v) := by
  have hc : ∀ l : List Seg, (∀ x ∈ l, x ∈ segsAt n s) →
      (l.filterMap fun seg => (lookupBySegment n seg).map fun v => (seg, v)) =
        l.filterMap fun seg => (childAt n s seg).map fun v => (seg, v) := by
    intro l hl
    apply filterMap_congr'
    intro x hx
    simp only [childAt, hl x hx, if_true]
  unfold childList
  cases hi : interests s with
  | none =>
    have : segsAt n s = ownSegs n := by simp [segsAt, hi]
    simp only
    rw [children_eq_lookup hn, ← this]
    exact hc _ (fun x hx => hx)
  | some segs =>
    have : segsAt n s = segs := by simp [segsAt, hi]
    simp only
    rw [this]
    exact hc _ (fun x hx => by rw [this]; exact hx)

/-! ### the loop over `childList` against the flat-map over `segsAt` -/

/-- what the spec lists for one child `(seg, value)` of the walk's loop -/
def denoteChild (store : Store) (d : Nat) (path : Path) (n : DM) (s : S) (x : Seg × DM) :
    List (Path × DM × Reason) :=
  match explore s n x.1 with
  | .ok (some s') =>
    match deref store x.2 with
    | some n' => denoteFrom store d (path ++ [x.1]) n' s'
    | none => []
  | _ => []

theorem flatMap_filterMap {α β γ : Type} (f : α → Option β) (g : β → List γ) :
    (l : List α) → (l.filterMap f).flatMap g = l.flatMap fun a => match f a with | some b => g b | none => []
  | [] => rfl
  | a :: l => by
    rw [List.filterMap_cons, List.flatMap_cons, ← flatMap_filterMap f g l]
    cases f a <;> simp

theorem flatMap_congr' {α β : Type} (f g : α → List β) :
    (l : List α) → (∀ x ∈ l, f x = g x) → l.flatMap f = l.flatMap g
  | [], _ => rfl
  | x :: l, h => by
    rw [List.flatMap_cons, List.flatMap_cons, h x (by simp), flatMap_congr' f g l (fun y hy => h y (by simp [hy]))]

theorem denoteFrom_succ (store : Store) (d : Nat) (path : Path) (n : DM) (s : S) :
    denoteFrom store (d + 1) path n s =
      visitOf path n s :: (segsAt n s).flatMap fun seg =>
        match stepAt store n s seg with
        | some (n', s') => denoteFrom store d (path ++ [seg]) n' s'
        | none => [] := rfl

theorem denoteFrom_children {n : DM} (hn : n.NoDup) (store : Store) (d : Nat) (path : Path) (s : S) :
    denoteFrom store (d + 1) path n s =
      visitOf path n s :: (childList n s).flatMap (denoteChild store d path n s) := by
  rw [denoteFrom_succ, childList_eq_lookup hn, flatMap_filterMap]
  congr 1
  apply flatMap_congr'
  intro seg _
  unfold stepAt denoteChild
  cases childAt n s seg with
  | none => rfl
  | some v =>
    simp only [Option.map_some]
    cases explore s n seg with
    | error e => rfl
    | ok o =>
      cases o with
      | none => rfl
      | some s' => cases h : deref store v <;> simp only [h, Option.map_some, Option.map_none]

/-! ### the simulation: a successful unrestricted walk logs `denoteFrom` -/

/-- the unrestricted configuration: no start-at path, nothing skipped, links may be loaded more than once -/
structure Unrestricted (cfg : Cfg) : Prop where
  startAt : cfg.startAt = []
  skip : cfg.skip = []
  linkOnce : cfg.linkOnce = false

/-- no block of the store has a map with a duplicate key -/
def StoreNoDup (store : Store) : Prop := ∀ c blk, storeGet store c = some blk → blk.NoDup

theorem visitsOf_visitEvent (path : Path) (n : DM) (s : S) (es : List Event) :
    visitsOf (visitEvent path n s :: es) = visitOf path n s :: visitsOf es := by
  unfold visitEvent visitOf
  cases matchNode s n <;> rfl

theorem visitsOf_load (c : Bytes) (es : List Event) : visitsOf (.load c :: es) = visitsOf es := rfl

theorem childList_nonrec {n : DM} (h : isRecursive n = false) (s : S) : childList n s = [] := by
  unfold childList
  cases n <;> simp [isRecursive] at h <;> cases interests s <;> simp [children, lookupBySegment]

theorem deref_nonlink (store : Store) {v : DM} (h : ∀ c, v ≠ .link c) : deref store v = some v := by
  cases v <;> first | rfl | exact absurd rfl (h _)

theorem complete_all (cfg : Cfg) (hu : Unrestricted cfg) (hstore : StoreNoDup cfg.store) (fuel : Nat) :
    (∀ past path n s st st', Plain st → n.NoDup → walkAdv cfg fuel past path n s st = (st', .ok ()) →
      ∀ d, fuel ≤ d →
        visitsOf st'.events = (denoteFrom cfg.store d path n s).reverse ++ visitsOf st.events) ∧
    (∀ path n s l lp st st', Plain st → n.NoDup → (∀ x ∈ l, x ∈ childList n s) →
      walkChildren cfg fuel path n s l lp st = (st', .ok ()) →
      ∀ d, fuel ≤ d →
        visitsOf st'.events = (l.flatMap (denoteChild cfg.store d path n s)).reverse ++ visitsOf st.events) ∧
    (∀ past path n s ps v st st', Plain st → n.NoDup → (ps, v) ∈ childList n s →
      exploreChild cfg fuel past path n s ps v st = (st', .ok ()) →
      ∀ d, fuel ≤ d →
        visitsOf st'.events = (denoteChild cfg.store d path n s (ps, v)).reverse ++ visitsOf st.events) := by
  induction fuel with
  | zero =>
    refine ⟨?_, ?_, ?_⟩
    · intro past path n s st st' _ _ h; rw [walkAdv_zero] at h; cases h
    · intro path n s l lp st st' _ _ _ h; rw [walkChildren_zero] at h; cases h
    · intro past path n s ps v st st' _ _ _ h; rw [exploreChild_zero] at h; cases h
  | succ fuel ih =>
    obtain ⟨ihA, ihC, ihE⟩ := ih
    refine ⟨?_, ?_, ?_⟩
    · intro past path n s st st' hp hn h d hd
      obtain ⟨d, rfl⟩ : ∃ d', d = d' + 1 := ⟨d - 1, by omega⟩
      rw [walkAdv_succ, checkNode_plain hp] at h
      simp only [visitSt_nil cfg hu.startAt] at h
      rw [denoteFrom_children hn]
      split at h
      · cases h
      · split at h
        · rename_i hrec
          cases h
          rw [childList_nonrec (by simpa using hrec)]
          simp only [visitsOf_visitEvent, List.flatMap_nil, List.reverse_cons, List.reverse_nil, List.nil_append,
            List.singleton_append]
        · have := ihC path n s (childList n s) _ { st with events := visitEvent path n s :: st.events } st'
            hp hn (fun x hx => hx) h d (by omega)
          rw [this, visitsOf_visitEvent]
          simp only [List.reverse_cons, List.append_assoc, List.singleton_append]
    · intro path n s l lp st st' hp hn hl h d hd
      cases l with
      | nil => rw [walkChildren_nil] at h; cases h; simp
      | cons x rest =>
        obtain ⟨ps, v⟩ := x
        rw [walkChildren_cons] at h
        simp only [loopStep_nil cfg hu.startAt, Bool.false_eq_true, if_false] at h
        have hpl := (plain_all cfg fuel).2.2 lp.past path n s ps v st hp
        have h1 := ihE lp.past path n s ps v st
        generalize exploreChild cfg fuel lp.past path n s ps v st = r at h h1 hpl
        obtain ⟨st1, r⟩ := r
        cases r with
        | error e => simp only [andThen_error] at h; cases h
        | ok u =>
          cases u
          rw [andThen_ok] at h
          have e1 := h1 st1 hp hn (hl _ (by simp)) rfl d (by omega)
          have e2 := ihC path n s rest lp st1 st' hpl hn (fun x hx => hl x (by simp [hx])) h d (by omega)
          rw [e2, e1, List.flatMap_cons, List.reverse_append, List.append_assoc]
    · intro past path n s ps v st st' hp hn hmem h d hd
      rw [exploreChild_succ] at h
      unfold denoteChild
      split at h
      · cases h
      · cases h
      · rename_i hx; cases h; simp only [hx]; simp
      · rename_i sNext hx
        simp only [hx]
        unfold enterChild at h
        split at h
        · rename_i c
          rw [linkStep_plain cfg hu.linkOnce c hp] at h
          simp only [hu.skip, List.contains_nil, Bool.false_eq_true, if_false] at h
          cases hs : storeGet cfg.store c with
          | none => rw [hs] at h; simp only at h; cases h
          | some blk =>
            rw [hs] at h
            simp only at h
            have hd' : deref cfg.store (.link c) = some blk := by
              rw [← hs, storeGet_eq_lookup]; rfl
            simp only [hd']
            have := ihA past (path ++ [ps]) blk sNext { st with events := .load c :: st.events } st'
              hp (hstore c blk hs) h d (by omega)
            rw [this, visitsOf_load]
        · rename_i hnl
          rw [deref_nonlink cfg.store (fun c hc => hnl c hc)]
          simp only
          exact ihA past (path ++ [ps]) v sNext st st' hp (childList_noDup hn hmem) h d (by omega)

/-! ### the whole walk -/

theorem walk_visits_eq_denote (cfg : Cfg) (hu : Unrestricted cfg) (hstore : StoreNoDup cfg.store) (root : DM)
    (hroot : root.NoDup) (s : S) (fuel : Nat) (hok : (walk cfg fuel none none root s).outcome = .ok ())
    (d : Nat) (hd : fuel ≤ d) :
    visitsOf (walk cfg fuel none none root s).events = denote cfg.store d s root := by
  unfold walk at hok ⊢
  have h := (complete_all cfg hu hstore fuel).1 false [] root s { nodeBudget := none, linkBudget := none }
  generalize walkAdv cfg fuel false [] root s { nodeBudget := none, linkBudget := none } = r at h hok
  obtain ⟨st', o⟩ := r
  simp only at hok
  subst hok
  have := h st' ⟨rfl, rfl⟩ hroot rfl d hd
  simp only [visitsOf_reverse, this, denote]
  simp [visitsOf]

/-! ### `selectorAt` and membership in `denoteFrom` -/

theorem selectorAt_nil (store : Store) (s : S) (root : DM) : selectorAt store s root [] = some (root, s) := rfl

theorem selectorAt_cons (store : Store) (s : S) (root : DM) (seg : Seg) (rest : Path) :
    selectorAt store s root (seg :: rest) =
      (stepAt store root s seg).bind fun x => selectorAt store x.2 x.1 rest := by
  rw [selectorAt]
  cases stepAt store root s seg with
  | none => rfl
  | some x => rfl

theorem selectorAt_append (store : Store) : ∀ (p q : Path) (s : S) (root : DM),
    selectorAt store s root (p ++ q) = (selectorAt store s root p).bind fun x => selectorAt store x.2 x.1 q
  | [], q, s, root => rfl
  | seg :: p, q, s, root => by
    rw [List.cons_append, selectorAt_cons, selectorAt_cons]
    cases stepAt store root s seg with
    | none => rfl
    | some x => exact selectorAt_append store p q x.2 x.1

theorem selectorAt_snoc (store : Store) (p : Path) (seg : Seg) (s : S) (root : DM) :
    selectorAt store s root (p ++ [seg]) = (selectorAt store s root p).bind fun x => stepAt store x.1 x.2 seg := by
  rw [selectorAt_append]
  congr 1
  funext x
  rw [selectorAt_cons]
  cases stepAt store x.1 x.2 seg <;> rfl

theorem stepAt_some {store : Store} {n : DM} {s : S} {seg : Seg} {n' : DM} {s' : S}
    (h : stepAt store n s seg = some (n', s')) :
    ∃ v, seg ∈ segsAt n s ∧ lookupBySegment n seg = some v ∧ explore s n seg = .ok (some s') ∧
      deref store v = some n' := by
  unfold stepAt at h
  split at h
  · rename_i v s1 hc hx
    simp only [Option.map_eq_some_iff, Prod.mk.injEq] at h
    obtain ⟨a, ha, rfl, rfl⟩ := h
    unfold childAt at hc
    split at hc
    · rename_i hm; exact ⟨v, hm, hc, hx, ha⟩
    · cases hc
  · cases h

theorem stepAt_of {store : Store} {n : DM} {s : S} {seg : Seg} {n' v : DM} {s' : S}
    (hm : seg ∈ segsAt n s) (hl : lookupBySegment n seg = some v) (hx : explore s n seg = .ok (some s'))
    (hd : deref store v = some n') : stepAt store n s seg = some (n', s') := by
  unfold stepAt childAt
  simp only [hm, if_true, hl, hx, hd, Option.map_some]

theorem selected_iff (store : Store) (s : S) (root : DM) (p : Path) :
    Selected store s root p ↔ ∃ n s', selectorAt store s root p = some (n, s') := by
  unfold Selected
  cases selectorAt store s root p with
  | none => simp
  | some x => exact ⟨fun _ => ⟨x.1, x.2, rfl⟩, fun _ => rfl⟩

theorem visitOf_fst (path : Path) (n : DM) (s : S) : (visitOf path n s).1 = path := by
  unfold visitOf; cases matchNode s n <;> rfl

theorem mem_denoteFrom (store : Store) : ∀ (d : Nat) (path : Path) (n : DM) (s : S) (x : Path × DM × Reason),
    x ∈ denoteFrom store d path n s ↔
      ∃ q n' s', q.length < d ∧ selectorAt store s n q = some (n', s') ∧ x = visitOf (path ++ q) n' s'
  | 0, path, n, s, x => by
    simp [denoteFrom]
  | d + 1, path, n, s, x => by
    rw [denoteFrom_succ, List.mem_cons, List.mem_flatMap]
    constructor
    · rintro (rfl | ⟨seg, hseg, hx⟩)
      · exact ⟨[], n, s, by simp, rfl, by simp⟩
      · cases hstep : stepAt store n s seg with
        | none => rw [hstep] at hx; cases hx
        | some y =>
          obtain ⟨n1, s1⟩ := y
          rw [hstep] at hx
          obtain ⟨q, n', s', hq, hsel, rfl⟩ := (mem_denoteFrom store d (path ++ [seg]) n1 s1 x).1 hx
          refine ⟨seg :: q, n', s', by simp; omega, ?_, by simp⟩
          rw [selectorAt_cons, hstep]; exact hsel
    · rintro ⟨q, n', s', hq, hsel, rfl⟩
      cases q with
      | nil =>
        left
        rw [selectorAt_nil] at hsel
        cases hsel
        simp
      | cons seg q =>
        right
        rw [selectorAt_cons] at hsel
        cases hstep : stepAt store n s seg with
        | none => rw [hstep] at hsel; cases hsel
        | some y =>
          obtain ⟨n1, s1⟩ := y
          rw [hstep] at hsel
          obtain ⟨v, hm, _⟩ := stepAt_some hstep
          refine ⟨seg, hm, ?_⟩
          rw [hstep]
          simp only
          rw [(mem_denoteFrom store d (path ++ [seg]) n1 s1 _)]
          exact ⟨q, n', s', by simp at hq; omega, hsel, by simp⟩

theorem mem_denote (store : Store) (d : Nat) (s : S) (root : DM) (x : Path × DM × Reason) :
    x ∈ denote store d s root ↔
      ∃ n' s', x.1.length < d ∧ selectorAt store s root x.1 = some (n', s') ∧ x = visitOf x.1 n' s' := by
  unfold denote
  rw [mem_denoteFrom]
  constructor
  · rintro ⟨q, n', s', hq, hsel, rfl⟩
    simp only [List.nil_append, visitOf_fst]
    exact ⟨n', s', hq, hsel, rfl⟩
  · rintro ⟨n', s', hq, hsel, hx⟩
    exact ⟨x.1, n', s', hq, hsel, by simpa using hx⟩


theorem visitOf_eta (p : Path) (n : DM) (s : S) :
    visitOf p n s = (p, (matchNode s n).getD n, if decides s n then .matched else .candidate) := by
  unfold visitOf decides
  cases matchNode s n <;> rfl

section
variable (cfg : Cfg) (hu : Unrestricted cfg) (hstore : StoreNoDup cfg.store) (root : DM) (hroot : root.NoDup)
  (s : S) (fuel : Nat) (hok : (walk cfg fuel none none root s).outcome = .ok ())
include hu hstore hroot hok

/-- completeness: a selected position is visited, with the node and reason the spec gives -/
theorem selected_visited (p : Path) (n : DM) (s' : S) (h : selectorAt cfg.store s root p = some (n, s')) :
    visitOf p n s' ∈ visitsOf (walk cfg fuel none none root s).events := by
  rw [walk_visits_eq_denote cfg hu hstore root hroot s fuel hok (max fuel (p.length + 1)) (Nat.le_max_left _ _),
    mem_denote]
  rw [visitOf_fst]
  exact ⟨n, s', by omega, h, rfl⟩

/-- soundness (for the successful unrestricted walk, through `denote`) -/
theorem visited_selectorAt (x : Path × DM × Reason) (h : x ∈ visitsOf (walk cfg fuel none none root s).events) :
    ∃ n s', selectorAt cfg.store s root x.1 = some (n, s') ∧ x = visitOf x.1 n s' := by
  rw [walk_visits_eq_denote cfg hu hstore root hroot s fuel hok fuel (Nat.le_refl _), mem_denote] at h
  obtain ⟨n, s', _, h1, h2⟩ := h
  exact ⟨n, s', h1, h2⟩

theorem visited_iff_selected (p : Path) :
    (∃ n r, (p, n, r) ∈ visitsOf (walk cfg fuel none none root s).events) ↔ Selected cfg.store s root p := by
  constructor
  · rintro ⟨n, r, h⟩
    obtain ⟨n', s', h1, _⟩ := visited_selectorAt cfg hu hstore root hroot s fuel hok _ h
    unfold Selected; rw [h1]; rfl
  · intro h
    unfold Selected at h
    cases hsel : selectorAt cfg.store s root p with
    | none => rw [hsel] at h; cases h
    | some x =>
      obtain ⟨n, s'⟩ := x
      have := selected_visited cfg hu hstore root hroot s fuel hok p n s' hsel
      rw [visitOf_eta] at this
      exact ⟨_, _, this⟩

theorem visit_reason (p : Path) (m : DM) (r : Reason)
    (h : (p, m, r) ∈ visitsOf (walk cfg fuel none none root s).events) :
    ∃ n s', selectorAt cfg.store s root p = some (n, s') ∧ m = (matchNode s' n).getD n ∧
      (r = .matched ↔ decides s' n = true) := by
  obtain ⟨n, s', h1, h2⟩ := visited_selectorAt cfg hu hstore root hroot s fuel hok _ h
  refine ⟨n, s', h1, ?_⟩
  rw [visitOf_eta] at h2
  simp only [Prod.mk.injEq, true_and] at h2
  obtain ⟨rfl, rfl⟩ := h2
  refine ⟨rfl, ?_⟩
  cases decides s' n <;> simp

end

/-! ### `Reach` (the walk's own account of where it can arrive) is `selectorAt` -/

theorem childList_mem_iff {n : DM} (hn : n.NoDup) (s : S) (seg : Seg) (v : DM) :
    (seg, v) ∈ childList n s ↔ seg ∈ segsAt n s ∧ lookupBySegment n seg = some v := by
  rw [childList_eq_lookup hn, List.mem_filterMap]
  constructor
  · rintro ⟨seg', hm, h⟩
    simp only [childAt, hm, if_true, Option.map_eq_some_iff, Prod.mk.injEq] at h
    obtain ⟨v', hv, rfl, rfl⟩ := h
    exact ⟨hm, hv⟩
  · rintro ⟨hm, hv⟩
    exact ⟨seg, hm, by simp [childAt, hm, hv]⟩

theorem deref_link {store : Store} {c : Bytes} {blk : DM} (h : storeGet store c = some blk) :
    deref store (.link c) = some blk := by
  rw [← h, storeGet_eq_lookup]; rfl

theorem reach_selectorAt {cfg : Cfg} {root : DM} {s0 : S} (hroot : root.NoDup) (hstore : StoreNoDup cfg.store)
    {path : Path} {n : DM} {s : S} (h : Reach cfg root s0 path n s) :
    selectorAt cfg.store s0 root path = some (n, s) := by
  induction h with
  | root => rfl
  | child hr hm hx hnl ih =>
    obtain ⟨h1, h2⟩ := (childList_mem_iff (reach_noDup hroot hstore hr) _ _ _).1 hm
    rw [selectorAt_snoc, ih]
    exact stepAt_of h1 h2 hx (deref_nonlink _ hnl)
  | link hr hm hx hs _ ih =>
    obtain ⟨h1, h2⟩ := (childList_mem_iff (reach_noDup hroot hstore hr) _ _ _).1 hm
    rw [selectorAt_snoc, ih]
    exact stepAt_of h1 h2 hx (deref_link hs)

theorem selectorAt_reach_from {cfg : Cfg} (hk : cfg.skip = []) {root : DM} {s0 : S} (hroot : root.NoDup)
    (hstore : StoreNoDup cfg.store) : ∀ (path p0 : Path) (n0 : DM) (s1 : S) (n : DM) (s : S),
    Reach cfg root s0 p0 n0 s1 → selectorAt cfg.store s1 n0 path = some (n, s) →
      Reach cfg root s0 (p0 ++ path) n s
  | [], p0, n0, s1, n, s, hr, h => by
    rw [selectorAt_nil] at h; cases h; simpa using hr
  | seg :: rest, p0, n0, s1, n, s, hr, h => by
    rw [selectorAt_cons] at h
    cases hstep : stepAt cfg.store n0 s1 seg with
    | none => rw [hstep] at h; cases h
    | some y =>
      obtain ⟨n1, s2⟩ := y
      rw [hstep] at h
      obtain ⟨v, hm, hl, hx, hd⟩ := stepAt_some hstep
      have hmem := (childList_mem_iff (reach_noDup hroot hstore hr) s1 seg v).2 ⟨hm, hl⟩
      have hr' : Reach cfg root s0 (p0 ++ [seg]) n1 s2 := by
        by_cases hlink : ∃ c, v = .link c
        · obtain ⟨c, rfl⟩ := hlink
          have : storeGet cfg.store c = some n1 := by rw [storeGet_eq_lookup]; exact hd
          exact Reach.link hr hmem hx this (by simp [hk])
        · have hnl : ∀ c, v ≠ .link c := fun c hc => hlink ⟨c, hc⟩
          rw [deref_nonlink _ hnl] at hd
          cases hd
          exact Reach.child hr hmem hx hnl
      have := selectorAt_reach_from hk hroot hstore rest (p0 ++ [seg]) n1 s2 n s hr' h
      simpa using this

theorem reach_iff_selectorAt {cfg : Cfg} (hk : cfg.skip = []) {root : DM} {s0 : S} (hroot : root.NoDup)
    (hstore : StoreNoDup cfg.store) (path : Path) (n : DM) (s : S) :
    Reach cfg root s0 path n s ↔ selectorAt cfg.store s0 root path = some (n, s) :=
  ⟨reach_selectorAt hroot hstore, fun h => by
    simpa using selectorAt_reach_from hk hroot hstore path [] root s0 n s Reach.root h⟩

theorem visitEvent_eq_visitOf (path : Path) (n : DM) (s : S) :
    visitEvent path n s = .visit (visitOf path n s).1 (visitOf path n s).2.1 (visitOf path n s).2.2 := by
  unfold visitEvent visitOf
  cases matchNode s n <;> rfl

theorem mem_visitsOf (es : List Event) (x : Path × DM × Reason) :
    x ∈ visitsOf es ↔ .visit x.1 x.2.1 x.2.2 ∈ es := by
  unfold visitsOf
  rw [List.mem_filterMap]
  constructor
  · rintro ⟨e, he, h⟩
    cases e with
    | load c => cases h
    | visit p m r => simp only [Option.some.injEq] at h; subst h; exact he
  · intro h; exact ⟨_, h, rfl⟩

/-- soundness for EVERY walk (any configuration, budgets, fuel, outcome): whatever is visited is selected, and
    is reported with the node and reason the spec gives -/
theorem visited_selectorAt_any (cfg : Cfg) (hstore : StoreNoDup cfg.store) (root : DM) (hroot : root.NoDup) (s : S)
    (fuel : Nat) (nb lb : Option Int) (x : Path × DM × Reason)
    (h : x ∈ visitsOf (walk cfg fuel nb lb root s).events) :
    ∃ n s', selectorAt cfg.store s root x.1 = some (n, s') ∧ x = visitOf x.1 n s' := by
  rw [mem_visitsOf] at h
  rcases walk_events_ok cfg fuel nb lb root s _ h with ⟨c, hc⟩ | ⟨path, n, s', hr, he⟩
  · cases hc
  · rw [visitEvent_eq_visitOf] at he
    simp only [Event.visit.injEq] at he
    obtain ⟨h1, h2, h3⟩ := he
    have hx : x = visitOf path n s' := by
      obtain ⟨a, b, c⟩ := x
      simp only at h1 h2 h3
      rw [h1, h2, h3]
    rw [hx, visitOf_fst]
    exact ⟨n, s', reach_selectorAt hroot hstore hr, rfl⟩

end Walk
end Ipld
