/-
  C05 — links are a function of value and prototype; store then load returns the value.
  Property theorems only.  Arbitrary hash function `H` and codec table.
-/
import IpldModel.Model.Link
import IpldModel.Props.C02
import IpldModel.Generated.LinkSkeletons
namespace Ipld.Props.C05
open Ipld Ipld.Link

variable (H : Nat → Bytes → Bytes) (codecs : Nat → Option Codec)

/-- Rebuilding a link from the same hash with the link's own prototype gives the link back: every block
    stored under a link built from its hash passes the loader's hash check. -/
theorem buildLink_hashesTo (p : Proto) (b : Bytes) (l : Lnk) (h : buildLink p (H p.mhType b) = some l) :
    hashesTo H l b = true := by
  unfold hashesTo
  simp only [beq_iff_eq]
  unfold buildLink at h
  by_cases hv : v0ok p = true
  · simp only [hv, if_true] at h
    cases ht : truncate p (H p.mhType b) with
    | none => simp [ht] at h
    | some d =>
      simp only [ht, Option.bind] at h
      -- facts about l
      have hl : l.mhType = p.mhType ∧ l.digest = d ∧
          ((p.version = 0 ∧ l.version = 0 ∧ l.codec = 0x70 ∧ d.length = 32) ∨ (p.version = 1 ∧ l.version = 1 ∧ l.codec = p.codec)) := by
        unfold mkLink at h
        by_cases v0 : p.version = 0
        · simp only [v0, if_true] at h
          split at h
          · rename_i h32
            simp only [Option.some.injEq] at h
            subst h
            exact ⟨rfl, rfl, Or.inl ⟨v0, rfl, rfl, h32⟩⟩
          · simp at h
        · simp only [v0, if_false] at h
          by_cases v1 : p.version = 1
          · simp only [v1, if_true, Option.some.injEq] at h
            subst h
            exact ⟨rfl, rfl, Or.inr ⟨v1, rfl, rfl⟩⟩
          · simp [v1] at h
      obtain ⟨hm, hd, hver⟩ := hl
      -- the digest is the hash or a prefix of it, and re-truncating to its own length is the identity
      have hpre : truncate l.proto (H l.mhType b) = some d := by
        unfold truncate at ht ⊢
        simp only [Lnk.proto, hm, hd]
        by_cases c1 : p.mhType = identityCode ∨ p.mhLength = -1
        · simp only [c1, if_true, Option.some.injEq] at ht
          subst ht
          by_cases c2 : p.mhType = identityCode
          · simp [c2]
          · have : ¬ (((H p.mhType b).length : Int) = -1) := by omega
            simp [c2, this]
        · simp only [c1, if_false] at ht
          split at ht
          · simp at ht
          · rename_i c3
            simp only [Option.some.injEq] at ht
            subst ht
            have c1' : ¬ p.mhType = identityCode := fun h' => c1 (Or.inl h')
            have hlen : (List.take p.mhLength.toNat (H p.mhType b)).length = p.mhLength.toNat := by
              rw [List.length_take]; omega
            have hge : 0 ≤ p.mhLength := by omega
            have e : ((p.mhLength.toNat : Nat) : Int) = p.mhLength := Int.toNat_of_nonneg hge
            simp only [c1', false_or, hlen, e]
            rw [if_neg (by omega), if_neg (by omega)]
      have hv' : v0ok l.proto = true := by
        unfold v0ok at hv ⊢
        simp only [Lnk.proto]
        rcases hver with ⟨p0, l0, _, h32⟩ | ⟨_, l1, _⟩
        · have : p.mhType = sha256Code := by
            apply Classical.byContradiction
            intro hne
            simp [p0, hne] at hv
          simp [l0, hm, this, hd, h32]
        · simp [l1]
      unfold buildLink
      simp only [hv', if_true, hpre, Option.bind]
      unfold mkLink
      simp only [Lnk.proto]
      rcases hver with ⟨_, l0, lc, h32⟩ | ⟨_, l1, lc⟩
      · simp only [l0, if_true, h32]
        congr 1
        cases l; simp_all
      · have : ¬ l.version = 0 := by omega
        simp only [this, if_false, l1, if_true]
        congr 1
        cases l; simp_all
  · simp [hv] at h

/-- `Store` returns exactly the link `ComputeLink` returns (same encoder output into the same hash). -/
theorem store_eq_compute (s : Store) (p : Proto) (v : DM) (l : Lnk) :
    (hstep H codecs s (.store p v)).2 = .link l ↔ (hstep H codecs s (.compute p v)).2 = .link l := by
  simp only [hstep]
  cases hc : codecs p.codec with
  | none => simp
  | some c =>
    cases he : c.encode v with
    | none => simp [he]
    | some b =>
      cases hb : buildLink p (H p.mhType b) with
      | none => simp [he, hb]
      | some l' => simp [he, hb]

/-- The link is a function of the prototype and the encoded bytes alone: nothing else about the node
    (implementation, insertion order, history, storage contents) enters. -/
theorem link_fun (s s' : Store) (p : Proto) (v v' : DM) (c : Codec) (hc : codecs p.codec = some c)
    (he : c.encode v = c.encode v') :
    (hstep H codecs s (.compute p v)).2 = (hstep H codecs s' (.compute p v')).2 := by
  simp only [hstep, hc, he]
  cases he' : c.encode v' with
  | none => rfl
  | some b => cases hb : buildLink p (H p.mhType b) <;> simp [hb]

/-- the DAG-CBOR model as a codec -/
def dagcborCodec : Codec := { encode := Cbor.encode Cbor.dagcborEnc, decode := fun b => (Cbor.decode Cbor.dagcborDec b).toOption }

/-- For DAG-CBOR the link does not depend on map insertion order either (at any depth). -/
theorem link_perm_dagcbor (s s' : Store) (p : Proto) (v v' : DM)
    (hc : codecs p.codec = some dagcborCodec) (nd : v.NoDup) (nd' : v'.NoDup)
    (e : Spec.canon v = Spec.canon v') (henc : Cbor.encodable Cbor.dagcborEnc v = Cbor.encodable Cbor.dagcborEnc v') :
    (hstep H codecs s (.compute p v)).2 = (hstep H codecs s' (.compute p v')).2 := by
  apply link_fun H codecs s s' p v v' dagcborCodec hc
  simp only [dagcborCodec, Cbor.encode, henc]
  rw [Ipld.Props.C02.encode_perm v v' nd nd' e]

/-- Invariant over every history: every stored block hashes to the link it is stored under. -/
def StoreInv (s : Store) : Prop := ∀ l b, s.get l = some b → hashesTo H l b = true

/-- a step leaves the storage alone or adds one block under the link built from that block's hash -/
theorem hstep_store_cases (s : Store) (op : HOp) :
    (hstep H codecs s op).1 = s ∨
    ∃ p l b, buildLink p (H p.mhType b) = some l ∧ (hstep H codecs s op).1 = s.put l b := by
  cases op with
  | store p v =>
    simp only [hstep]
    split
    · left; rfl
    · split
      · left; rfl
      · split
        · left; rfl
        · rename_i hb; right; exact ⟨p, _, _, hb, rfl⟩
  | compute p v =>
    left
    simp only [hstep]
    split
    · rfl
    · split
      · rfl
      · split <;> rfl
  | load l =>
    left
    simp only [hstep]
    split
    · split
      · split <;> rfl
      · rfl
    · rfl
  | loadRaw l =>
    left
    simp only [hstep]
    split
    · split <;> rfl
    · rfl

theorem step_inv (s : Store) (op : HOp) (h : StoreInv H s) : StoreInv H (hstep H codecs s op).1 := by
  rcases hstep_store_cases H codecs s op with e | ⟨p, l, b, hb, e⟩
  · rw [e]; exact h
  · rw [e]
    intro l' b' hg
    simp only [Store.put, Store.get] at hg
    by_cases e : l = l'
    · simp only [e, if_true, Option.some.injEq] at hg
      subst hg; subst e
      exact buildLink_hashesTo H p b l hb
    · simp only [e, if_false] at hg
      exact h l' b' hg

theorem history_inv (s : Store) (ops : List HOp) (h : StoreInv H s) : StoreInv H (hrun H codecs s ops).1 := by
  induction ops generalizing s with
  | nil => exact h
  | cons op ops ih =>
    simp only [hrun]
    exact ih _ (step_inv H codecs s op h)

/-- Store then load (immediately, on the same storage): the loaded node is what the codec's decoder makes
    of the stored bytes, and `LoadRaw` returns exactly those bytes. -/
theorem load_store (s : Store) (p : Proto) (v : DM) (l : Lnk) (c : Codec)
    (hs : hstep H codecs s (.store p v) = (s', .link l)) (hc : codecs l.codec = some c)
    (hp : codecs p.codec = some c) :
    ∃ b, c.encode v = some b ∧ (hstep H codecs s' (.loadRaw l)).2 = .raw b ∧
      (hstep H codecs s' (.load l)).2 = (match c.decode b with | some v' => .node v' | none => .error) := by
  simp only [hstep, hp] at hs
  cases he : c.encode v with
  | none => simp [he] at hs
  | some b =>
    simp only [he] at hs
    cases hb : buildLink p (H p.mhType b) with
    | none => simp [hb] at hs
    | some l' =>
      simp only [hb, Prod.mk.injEq, HOut.link.injEq] at hs
      obtain ⟨h1, h2⟩ := hs
      subst h2; subst h1
      have hh := buildLink_hashesTo H p b l' hb
      refine ⟨b, rfl, ?_, ?_⟩
      · simp [hstep, Store.put, Store.get, hh]
      · simp only [hstep, hc, Store.put, Store.get, if_true, hh]
        cases c.decode b <;> rfl

/-- DAG-CBOR instance of the round trip: what comes back is the stored value in canonical entry order
    (the theorem `decode_encode` of C03 supplies the hypothesis for every value within the decoder's limits). -/
theorem load_store_dagcbor (s : Store) (p : Proto) (v : DM) (l : Lnk)
    (hs : hstep H codecs s (.store p v) = (s', .link l)) (hc : codecs l.codec = some dagcborCodec)
    (hp : codecs p.codec = some dagcborCodec) (nd : v.NoDup)
    (rt : Cbor.decode Cbor.dagcborDec (Cbor.enc Cbor.dagcborEnc v) = .ok (Spec.canon v)) :
    (hstep H codecs s' (.load l)).2 = .node (Spec.canon v) := by
  obtain ⟨b, he, _, hl⟩ := load_store H codecs s p v l dagcborCodec hs hc hp
  rw [hl]
  simp only [dagcborCodec, Cbor.encode] at he
  split at he
  · simp only [Option.some.injEq] at he
    subst he
    simp [dagcborCodec, rt, Except.toOption]
  · simp at he


/-! ## (T) the transcribed functions as they are in the source on this run -/

/-- `BuildLink`, statement by statement, is what `Link.truncate` / `v0ok` / `mkLink` transcribe: identity hashes are never truncated (`length = -1`), a CIDv0 prototype must be sha2-256 with length 32 or -1 (else panic — the model's `none`), a digest is cut to `MhLength` exactly when a length is given, and the version selects the CID constructor (anything but 0 or 1 panics). -/
theorem buildLink_src_is_transcribed : Ipld.Generated.buildLink_skel_src = [
  "p := lp.Prefix",
  "length := p.MhLength",
  "if p.MhType == multihash.IDENTITY",
  ". length = -1",
  "if p.Version == 0 && (p.MhType != multihash.SHA2_256 || (p.MhLength != 32 && p.MhLength != -1))",
  ". panic(fmt.Errorf(\"invalid cid v0 prefix\"))",
  "if length != -1",
  ". hashsum = hashsum[:p.MhLength]",
  "mh, err := multihash.Encode(hashsum, p.MhType)",
  "if err != nil",
  ". panic(err)",
  "switch lp.Prefix.Version",
  "case 0",
  ". return Link{cid.NewCidV0(mh)}",
  "case 1",
  ". return Link{cid.NewCidV1(p.Codec, mh)}",
  "default",
  ". panic(fmt.Errorf(\"invalid cid version\"))"
] := by decide

/-- `Store`: the encoder writes into storage and hasher at once, an encoder error or a (first) storage write error returns before the committer is called, the link is built from the hasher's sum and committed under exactly that link (`Link.store`). -/
theorem store_src_is_transcribed : Ipld.Generated.store_skel_src = [
  "if lnkCtx.Ctx == nil",
  ". lnkCtx.Ctx = context.Background()",
  "encoder, err := lsys.EncoderChooser(lp)",
  "if err != nil",
  ". return nil, ErrLinkingSetup{\"could not choose an encoder\", err}",
  "hasher, err := lsys.HasherChooser(lp)",
  "if err != nil",
  ". return nil, ErrLinkingSetup{\"could not choose a hasher\", err}",
  "if lsys.StorageWriteOpener == nil",
  ". return nil, ErrLinkingSetup{\"no storage configured for writing\", io.ErrClosedPipe}",
  "writer, commitFn, err := lsys.StorageWriteOpener(lnkCtx)",
  "if err != nil",
  ". return nil, err",
  "storageWriter := &firstErrWriter{w: writer}",
  "tee := io.MultiWriter(storageWriter, hasher)",
  "err = encoder(n, tee)",
  "if err != nil",
  ". return nil, err",
  "if storageWriter.err != nil",
  ". return nil, storageWriter.err",
  "lnk := lp.BuildLink(hasher.Sum(nil))",
  "return lnk, commitFn(lnk)"
] := by decide

/-- `ComputeLink` runs the same encoder into the same hasher and builds the link the same way, without storage (`Link.computeLink`): `store_eq_compute` is about these two bodies. -/
theorem computeLink_src_is_transcribed : Ipld.Generated.computeLink_skel_src = [
  "encoder, err := lsys.EncoderChooser(lp)",
  "if err != nil",
  ". return nil, ErrLinkingSetup{\"could not choose an encoder\", err}",
  "hasher, err := lsys.HasherChooser(lp)",
  "if err != nil",
  ". return nil, ErrLinkingSetup{\"could not choose a hasher\", err}",
  "err = encoder(n, hasher)",
  "if err != nil",
  ". return nil, err",
  "return lp.BuildLink(hasher.Sum(nil)), nil"
] := by decide

end Ipld.Props.C05
