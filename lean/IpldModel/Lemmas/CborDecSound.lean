/-
  Soundness of the strict decoder: whatever it accepts denotes the value it returns.
-/
import IpldModel.Lemmas.CborDecComplete
import IpldModel.Lemmas.CborFloat
namespace Ipld
namespace Cbor
open Spec

theorem bind_ok {α β : Type} {x : R α} {f : α → R β} {b : β} (h : (x >>= f) = .ok b) :
    ∃ a, x = .ok a ∧ f a = .ok b := by
  cases x with
  | error e => cases h
  | ok a => exact ⟨a, rfl, h⟩

/-! ### reading a head in strict mode determines the head -/

theorem readArg_strict_ok {info n : Nat} {rest r : Bytes} (h : readArg true info rest = .ok (n, r)) :
    n < 2 ^ 64 ∧ info = hinfo n ∧ rest = harg n ++ r := by
  unfold readArg at h
  split at h
  · rename_i h1
    injection h with h; injection h with ha hb; subst ha hb
    simp [hinfo, harg, h1]; omega
  · split at h
    · obtain ⟨⟨a, r'⟩, h1, h2⟩ := bind_ok h
      obtain ⟨rfl, hl⟩ := take?_ok h1
      simp only [Bool.true_and, decide_eq_true_eq] at h2
      split at h2
      · cases h2
      · rename_i hinfo24 hv
        injection h2 with h2; injection h2 with ha hb; subst ha hb
        have hlt := beVal_lt a
        rw [hl] at hlt
        have hb := beBytes_beVal a
        rw [hl] at hb
        refine ⟨by omega, ?_, ?_⟩
        · unfold hinfo; rw [if_neg hv, if_pos (by omega)]; exact hinfo24
        · unfold harg; rw [if_neg hv, if_pos (by omega), hb]
    · split at h
      · obtain ⟨⟨a, r'⟩, h1, h2⟩ := bind_ok h
        obtain ⟨rfl, hl⟩ := take?_ok h1
        simp only [Bool.true_and, decide_eq_true_eq] at h2
        split at h2
        · cases h2
        · rename_i hinfo25 hv
          injection h2 with h2; injection h2 with ha hb; subst ha hb
          have hlt := beVal_lt a
          rw [hl] at hlt
          have hb := beBytes_beVal a
          rw [hl] at hb
          refine ⟨by omega, ?_, ?_⟩
          · unfold hinfo; rw [if_neg (by omega), if_neg hv, if_pos (by omega)]; exact hinfo25
          · unfold harg; rw [if_neg (by omega), if_neg hv, if_pos (by omega), hb]
      · split at h
        · obtain ⟨⟨a, r'⟩, h1, h2⟩ := bind_ok h
          obtain ⟨rfl, hl⟩ := take?_ok h1
          simp only [Bool.true_and, decide_eq_true_eq] at h2
          split at h2
          · cases h2
          · rename_i hinfo26 hv
            injection h2 with h2; injection h2 with ha hb; subst ha hb
            have hlt := beVal_lt a
            rw [hl] at hlt
            have hb := beBytes_beVal a
            rw [hl] at hb
            refine ⟨by omega, ?_, ?_⟩
            · unfold hinfo; rw [if_neg (by omega), if_neg (by omega), if_neg hv, if_pos (by omega)]; exact hinfo26
            · unfold harg; rw [if_neg (by omega), if_neg (by omega), if_neg hv, if_pos (by omega), hb]
        · split at h
          · obtain ⟨⟨a, r'⟩, h1, h2⟩ := bind_ok h
            obtain ⟨rfl, hl⟩ := take?_ok h1
            simp only [Bool.true_and, decide_eq_true_eq] at h2
            split at h2
            · cases h2
            · rename_i hinfo27 hv
              injection h2 with h2; injection h2 with ha hb; subst ha hb
              have hlt := beVal_lt a
              rw [hl] at hlt
              have hb := beBytes_beVal a
              rw [hl] at hb
              refine ⟨by omega, ?_, ?_⟩
              · unfold hinfo; rw [if_neg (by omega), if_neg (by omega), if_neg (by omega), if_neg hv]; exact hinfo27
              · unfold harg; rw [if_neg (by omega), if_neg (by omega), if_neg (by omega), if_neg hv, hb]
          · cases h

theorem readLen_strict_ok {info n : Nat} {rest r : Bytes} (h : readLen true info rest = .ok (n, r)) :
    n < 2 ^ 63 ∧ info = hinfo n ∧ rest = harg n ++ r := by
  unfold readLen at h
  obtain ⟨⟨n', r'⟩, h1, h2⟩ := bind_ok h
  simp only [] at h2
  split at h2
  · cases h2
  · injection h2 with h2; injection h2 with ha hb; subst ha hb
    obtain ⟨_, h3, h4⟩ := readArg_strict_ok h1
    exact ⟨by omega, h3, h4⟩

/-- Reassemble a head from its first byte and its argument bytes. -/
theorem head_recon (b0 : UInt8) (m n : Nat) (r : Bytes) (hm : b0.toNat / 32 = m) (hi : b0.toNat % 32 = hinfo n) :
    b0 :: (harg n ++ r) = shortestHead m n ++ r := by
  rw [shortestHead_eq, List.cons_append]
  congr 1
  have : 32 * m + hinfo n = b0.toNat := by omega
  rw [this, UInt8.ofNat_toNat]


/-! ### state threading -/

theorem finish_sound {tag : Option Nat} {extra c : Int} {v v' : DM} {s s' : DS}
    (h : finish tag extra c v s = .ok (v', s')) : tag = none ∧ v' = v ∧ s'.rest = s.rest := by
  unfold finish at h
  obtain ⟨s1, h1, h2⟩ := bind_ok h
  obtain ⟨_, rfl⟩ := charge_eq_ok h1
  cases tag with
  | some t => cases h2
  | none =>
    simp only [] at h2
    obtain ⟨s2, h3, h4⟩ := bind_ok h2
    obtain ⟨_, rfl⟩ := charge_eq_ok h3
    injection h4 with h4; injection h4 with ha hb; subst ha hb
    exact ⟨rfl, rfl, rfl⟩

/-- What a successful `decItem` with a pending tag guarantees. -/
def SoundPost (tag : Option Nat) (v : DM) (b1 : Bytes) : Prop :=
  match tag with
  | none => Denotes v b1
  | some t => t = 42 ∧ ∃ c, v = .link c ∧ cidValid c = true ∧ b1 = shortestHead 2 (c.length + 1) ++ (0 :: c)

/-- The property of an item decoder the list/map lemmas rely on. -/
def ItemSound (item : DS → R (DM × DS)) : Prop :=
  ∀ s v s', item s = .ok (v, s') → ∃ b1, s.rest = b1 ++ s'.rest ∧ Denotes v b1

theorem checkFloat_strict_ok {b : Nat} {v : DM} (h : checkFloat true b = .ok v) :
    v = .float (UInt64.ofNat b) ∧ finite64 b := by
  unfold checkFloat at h
  simp only [Bool.true_and] at h
  split at h
  · cases h
  · split at h
    · cases h
    · rename_i h1 h2
      injection h with h
      exact ⟨h.symm, finite_of_not_nan_inf b (by simpa using h1) (by simpa using h2)⟩

/-! ### one lemma per first-byte class (strict mode) -/

section cases
variable {cfg : DecCfg} {extra : Int} {tag : Option Nat} {b0 : UInt8} {rest : Bytes} {B : Int} {v : DM} {s' : DS}

theorem sound_scalar {c : Int} {w : DM} {bs : Bytes} (hw : Denotes w bs)
    (h : finish tag extra c w ⟨rest, B⟩ = .ok (v, s')) :
    ∃ b1, bs ++ rest = b1 ++ s'.rest ∧ SoundPost tag v b1 := by
  obtain ⟨rfl, rfl, hr⟩ := finish_sound h
  exact ⟨bs, by rw [hr], hw⟩

theorem sound_m0 (hm : b0.toNat / 32 = 0)
    (h : (do let (n, r) ← readArg true (b0.toNat % 32) rest
             finish tag extra 1 (.int n) ⟨r, B⟩) = .ok (v, s')) :
    ∃ b1, b0 :: rest = b1 ++ s'.rest ∧ SoundPost tag v b1 := by
  obtain ⟨⟨n, r⟩, h1, h2⟩ := bind_ok h
  obtain ⟨hn, hi, rfl⟩ := readArg_strict_ok h1
  rw [head_recon b0 0 n r hm hi]
  apply sound_scalar _ h2
  simp only [Denotes]
  left
  refine ⟨by omega, by omega, ?_⟩
  simp

theorem sound_m1 (hw : cfg.negWrap = false) (hm : b0.toNat / 32 = 1)
    (h : (do let (n, r) ← readArg true (b0.toNat % 32) rest
             let pos := if cfg.negWrap then (n + 1) % 18446744073709551616 else n + 1
             if pos > 9223372036854775808 then .error .negOverflow else
             finish tag extra 1 (.int (-(pos : Int))) ⟨r, B⟩) = .ok (v, s')) :
    ∃ b1, b0 :: rest = b1 ++ s'.rest ∧ SoundPost tag v b1 := by
  obtain ⟨⟨n, r⟩, h1, h2⟩ := bind_ok h
  obtain ⟨hn, hi, rfl⟩ := readArg_strict_ok h1
  simp only [hw, Bool.false_eq_true, if_false] at h2
  split at h2
  · cases h2
  · rename_i hp
    rw [head_recon b0 1 n r hm hi]
    apply sound_scalar _ h2
    simp only [Denotes]
    right
    refine ⟨by omega, by omega, ?_⟩
    have : (-1 - -((n + 1 : Nat) : Int)).toNat = n := by omega
    rw [this]

theorem sound_f64 (hb : b0 = 0xfb)
    (h : (do let (a, r) ← take? 8 rest
             let v ← checkFloat true (beVal a)
             finish tag extra 1 v ⟨r, B⟩) = .ok (v, s')) :
    ∃ b1, b0 :: rest = b1 ++ s'.rest ∧ SoundPost tag v b1 := by
  obtain ⟨⟨a, r⟩, h1, h2⟩ := bind_ok h
  obtain ⟨rfl, hl⟩ := take?_ok h1
  obtain ⟨w, h3, h4⟩ := bind_ok h2
  obtain ⟨rfl, hfin⟩ := checkFloat_strict_ok h3
  have hlt := beVal_lt a
  rw [hl] at hlt
  have hbe := beBytes_beVal a
  rw [hl] at hbe
  have e : (UInt64.ofNat (beVal a)).toNat = beVal a := by
    rw [UInt64.toNat_ofNat']; exact Nat.mod_eq_of_lt (by omega)
  rw [← List.cons_append]
  apply sound_scalar _ h4
  simp only [Denotes, e, FloatBytes]
  refine ⟨hfin, Or.inl ?_⟩
  rw [spec_be_eq, hbe, hb]

theorem sound_f32 (hb : b0 = 0xfa)
    (h : (do let (a, r) ← take? 4 rest
             let v ← checkFloat true (f32to64 (beVal a))
             finish tag extra 1 v ⟨r, B⟩) = .ok (v, s')) :
    ∃ b1, b0 :: rest = b1 ++ s'.rest ∧ SoundPost tag v b1 := by
  obtain ⟨⟨a, r⟩, h1, h2⟩ := bind_ok h
  obtain ⟨rfl, hl⟩ := take?_ok h1
  obtain ⟨w, h3, h4⟩ := bind_ok h2
  obtain ⟨rfl, hfin⟩ := checkFloat_strict_ok h3
  have hlt := beVal_lt a
  rw [hl] at hlt
  have hbe := beBytes_beVal a
  rw [hl] at hbe
  have hw := f32to64_lt (beVal a) (by omega)
  have e : (UInt64.ofNat (f32to64 (beVal a))).toNat = f32to64 (beVal a) := by
    rw [UInt64.toNat_ofNat']; exact Nat.mod_eq_of_lt hw
  rw [← List.cons_append]
  apply sound_scalar _ h4
  simp only [Denotes, e, FloatBytes]
  refine ⟨hfin, Or.inr (Or.inl ⟨beVal a, by omega, rfl, ?_⟩)⟩
  rw [spec_be_eq, hbe, hb]

theorem sound_f16 (hb : b0 = 0xf9)
    (h : (do let (a, r) ← take? 2 rest
             let v ← checkFloat true (f16to64 (beVal a))
             finish tag extra 1 v ⟨r, B⟩) = .ok (v, s')) :
    ∃ b1, b0 :: rest = b1 ++ s'.rest ∧ SoundPost tag v b1 := by
  obtain ⟨⟨a, r⟩, h1, h2⟩ := bind_ok h
  obtain ⟨rfl, hl⟩ := take?_ok h1
  obtain ⟨w, h3, h4⟩ := bind_ok h2
  obtain ⟨rfl, hfin⟩ := checkFloat_strict_ok h3
  have hlt := beVal_lt a
  rw [hl] at hlt
  have hbe := beBytes_beVal a
  rw [hl] at hbe
  have hw := f16to64_lt (beVal a) (by omega)
  have e : (UInt64.ofNat (f16to64 (beVal a))).toNat = f16to64 (beVal a) := by
    rw [UInt64.toNat_ofNat']; exact Nat.mod_eq_of_lt hw
  rw [← List.cons_append]
  apply sound_scalar _ h4
  simp only [Denotes, e, FloatBytes]
  refine ⟨hfin, Or.inr (Or.inr ⟨beVal a, by omega, rfl, ?_⟩)⟩
  rw [spec_be_eq, hbe, hb]

theorem sound_m3 (hm : b0.toNat / 32 = 3)
    (h : (do let (n, r) ← readLen true (b0.toNat % 32) rest
             if n > 33554432 then .error .oversized else
             let (payload, r') ← take? n r
             finish tag extra n (.str payload) ⟨r', B⟩) = .ok (v, s')) :
    ∃ b1, b0 :: rest = b1 ++ s'.rest ∧ SoundPost tag v b1 := by
  obtain ⟨⟨n, r⟩, h1, h2⟩ := bind_ok h
  obtain ⟨hn, hi, rfl⟩ := readLen_strict_ok h1
  simp only [] at h2
  split at h2
  · cases h2
  · obtain ⟨⟨p, r'⟩, h3, h4⟩ := bind_ok h2
    obtain ⟨rfl, hl⟩ := take?_ok h3
    rw [head_recon b0 3 n _ hm hi, ← List.append_assoc]
    apply sound_scalar _ h4
    simp only [Denotes, hl]

theorem sound_m2 (hm : b0.toNat / 32 = 2)
    (h : (do let (n, r) ← readLen true (b0.toNat % 32) rest
             if n > 33554432 then .error .oversized else
             let (payload, r') ← take? n r
             let s0 ← charge ⟨r', B⟩ extra
             let s' ← charge s0 n
             match tag with
             | none => pure (DM.bytes payload, s')
             | some t =>
               if t ≠ 42 then .error .badTag
               else if !cfg.allowLinks then .error .linksDisabled
               else match payload with
                 | 0 :: cid => if cidValid cid then pure (DM.link cid, s') else .error .badCid
                 | _ => .error .badMultibase) = .ok (v, s')) :
    ∃ b1, b0 :: rest = b1 ++ s'.rest ∧ SoundPost tag v b1 := by
  obtain ⟨⟨n, r⟩, h1, h2⟩ := bind_ok h
  obtain ⟨hn, hi, rfl⟩ := readLen_strict_ok h1
  simp only [] at h2
  split at h2
  · cases h2
  · obtain ⟨⟨p, r'⟩, h3, h4⟩ := bind_ok h2
    obtain ⟨rfl, hl⟩ := take?_ok h3
    simp only [] at h4
    obtain ⟨s0, h5, h6⟩ := bind_ok h4
    obtain ⟨_, rfl⟩ := charge_eq_ok h5
    obtain ⟨s1, h7, h8⟩ := bind_ok h6
    obtain ⟨_, rfl⟩ := charge_eq_ok h7
    rw [head_recon b0 2 n _ hm hi, ← List.append_assoc]
    cases tag with
    | none =>
      simp only [pure, Except.pure] at h8
      injection h8 with h8; injection h8 with ha hb; subst ha hb
      exact ⟨_, rfl, by simp only [SoundPost, Denotes, hl]⟩
    | some t =>
      simp only [] at h8
      split at h8
      · cases h8
      · rename_i ht
        split at h8
        · cases h8
        · split at h8
          · split at h8
            · rename_i cid hcid
              simp only [pure, Except.pure] at h8
              injection h8 with h8; injection h8 with ha hb; subst ha hb
              refine ⟨_, rfl, ?_⟩
              simp only [SoundPost]
              refine ⟨by omega, cid, rfl, hcid, ?_⟩
              simp only [List.length_cons] at hl
              rw [hl]
            · cases h8
          · cases h8

end cases

/-! ### keys, lists, maps -/

theorem decKey_sound {cfg : DecCfg} (hr : cfg.relaxed = false) {s s' : DS} {k : Bytes}
    (h : decKey cfg s = .ok (k, s')) :
    s.rest = (shortestHead 3 k.length ++ k) ++ s'.rest ∧ s'.budget = s.budget := by
  unfold decKey at h
  simp only [hr, Bool.not_false] at h
  split at h
  · cases h
  · rename_i b0 rest hrest
    split at h
    · cases h
    · split at h
      · rename_i hm
        obtain ⟨⟨n, r⟩, h1, h2⟩ := bind_ok h
        obtain ⟨hn, hi, rfl⟩ := readLen_strict_ok h1
        simp only [] at h2
        split at h2
        · cases h2
        · obtain ⟨⟨p, r'⟩, h3, h4⟩ := bind_ok h2
          obtain ⟨rfl, hl⟩ := take?_ok h3
          simp only [pure, Except.pure] at h4
          injection h4 with h4; injection h4 with ha hb; subst ha hb
          rw [hrest, head_recon b0 3 n _ hm hi, hl, List.append_assoc]
          exact ⟨rfl, rfl⟩
      · cases h

theorem decList_sound {item : DS → R (DM × DS)} (hitem : ItemSound item) :
    ∀ (n : Nat) (s : DS) (xs : List DM) (s' : DS), decList item n s = .ok (xs, s') →
      xs.length = n ∧ ∃ body, s.rest = body ++ s'.rest ∧ DenotesList (DMs.ofList xs) body
  | 0, s, xs, s', h => by
    simp only [decList] at h
    injection h with h; injection h with ha hb; subst ha hb
    exact ⟨rfl, [], rfl, by simp [DMs.ofList, DenotesList]⟩
  | n + 1, s, xs, s', h => by
    simp only [decList] at h
    obtain ⟨⟨x, s1⟩, h1, h2⟩ := bind_ok h
    simp only [] at h2
    obtain ⟨⟨xs', s2⟩, h3, h4⟩ := bind_ok h2
    simp only [pure, Except.pure] at h4
    injection h4 with h4; injection h4 with ha hb; subst ha hb
    obtain ⟨b1, e1, d1⟩ := hitem _ _ _ h1
    obtain ⟨hl, b2, e2, d2⟩ := decList_sound hitem n s1 xs' _ h3
    refine ⟨by simp [hl], b1 ++ b2, ?_, ?_⟩
    · rw [e1, e2, List.append_assoc]
    · simp only [DMs.ofList, DenotesList]
      exact ⟨b1, b2, rfl, d1, d2⟩

theorem decMap_sound {cfg : DecCfg} (hr : cfg.relaxed = false) {item : DS → R (DM × DS)} (hitem : ItemSound item) :
    ∀ (n : Nat) (seen : List Bytes) (s : DS) (es : List (Bytes × DM)) (s' : DS),
      decMap cfg item n seen s = .ok (es, s') →
      es.length = n ∧ (es.map (·.1)).Nodup ∧ (∀ k ∈ es.map (·.1), k ∉ seen) ∧
        ∃ body, s.rest = body ++ s'.rest ∧ DenotesKVs (DMKVs.ofList es) body
  | 0, seen, s, es, s', h => by
    simp only [decMap] at h
    injection h with h; injection h with ha hb; subst ha hb
    exact ⟨rfl, by simp, by simp, [], rfl, by simp [DMKVs.ofList, DenotesKVs]⟩
  | n + 1, seen, s, es, s', h => by
    simp only [decMap] at h
    obtain ⟨⟨k, s1⟩, h1, h2⟩ := bind_ok h
    simp only [] at h2
    obtain ⟨s2, h3, h4⟩ := bind_ok h2
    obtain ⟨_, rfl⟩ := charge_eq_ok h3
    split at h4
    · cases h4
    · rename_i hseen
      obtain ⟨⟨v, s3⟩, h5, h6⟩ := bind_ok h4
      simp only [] at h6
      obtain ⟨⟨es', s4⟩, h7, h8⟩ := bind_ok h6
      simp only [pure, Except.pure] at h8
      injection h8 with h8; injection h8 with ha hb; subst ha hb
      obtain ⟨ek, _⟩ := decKey_sound hr h1
      obtain ⟨b1, e1, d1⟩ := hitem _ _ _ h5
      obtain ⟨hl, hnd, hdisj, b2, e2, d2⟩ := decMap_sound hr hitem n (k :: seen) s3 es' _ h7
      simp only [] at e1
      refine ⟨by simp [hl], ?_, ?_, (shortestHead 3 k.length ++ k) ++ (b1 ++ b2), ?_, ?_⟩
      · simp only [List.map_cons, List.nodup_cons]
        refine ⟨?_, hnd⟩
        intro hk
        exact hdisj k hk (by simp)
      · intro k' hk'
        simp only [List.map_cons, List.mem_cons] at hk'
        rcases hk' with rfl | hk'
        · simpa using hseen
        · intro hmem
          exact hdisj k' hk' (by simp [hmem])
      · rw [ek, e1, e2]; simp only [List.append_assoc]
      · simp only [DMKVs.ofList, DenotesKVs]
        exact ⟨b1, b2, rfl, d1, d2⟩


/-! ### the item decoder -/

theorem sound_m4 {cfg : DecCfg} {fuel depth : Nat} {extra : Int} {tag : Option Nat} {b0 : UInt8} {rest : Bytes}
    {B : Int} {v : DM} {s' : DS}
    (ih : ItemSound (decItem cfg fuel (depth + 1) 4 none)) (hm : b0.toNat / 32 = 4)
    (h : (do let (n, r) ← readLen true (b0.toNat % 32) rest
             let s0 ← charge ⟨r, B⟩ extra
             match tag with
             | some _ => .error .badTag
             | none =>
             if depth ≥ cfg.maxDepth then .error .depth else
             let s1 ← charge s0 n
             let (xs, s2) ← decList (decItem cfg fuel (depth + 1) 4 none) n s1
             pure (DM.list (DMs.ofList xs), s2)) = .ok (v, s')) :
    ∃ b1, b0 :: rest = b1 ++ s'.rest ∧ SoundPost tag v b1 := by
  obtain ⟨⟨n, r⟩, h1, h2⟩ := bind_ok h
  obtain ⟨hn, hi, rfl⟩ := readLen_strict_ok h1
  simp only [] at h2
  obtain ⟨s0, h3, h4⟩ := bind_ok h2
  obtain ⟨_, rfl⟩ := charge_eq_ok h3
  cases tag with
  | some t => cases h4
  | none =>
    simp only [] at h4
    split at h4
    · cases h4
    · obtain ⟨s1, h5, h6⟩ := bind_ok h4
      obtain ⟨_, rfl⟩ := charge_eq_ok h5
      obtain ⟨⟨xs, s2⟩, h7, h8⟩ := bind_ok h6
      simp only [pure, Except.pure] at h8
      injection h8 with h8; injection h8 with ha hb; subst ha hb
      obtain ⟨hl, body, e, d⟩ := decList_sound ih _ _ _ _ h7
      simp only [] at e
      refine ⟨shortestHead 4 n ++ body, ?_, ?_⟩
      · rw [head_recon b0 4 n _ hm hi, e, List.append_assoc]
      · simp only [SoundPost, Denotes]
        refine ⟨body, ?_, d⟩
        simp [DMs.length, hl]

theorem sound_m5 {cfg : DecCfg} (hr : cfg.relaxed = false) {fuel depth : Nat} {extra : Int} {tag : Option Nat}
    {b0 : UInt8} {rest : Bytes} {B : Int} {v : DM} {s' : DS}
    (ih : ItemSound (decItem cfg fuel (depth + 1) 0 none)) (hm : b0.toNat / 32 = 5)
    (h : (do let (n, r) ← readLen true (b0.toNat % 32) rest
             let s0 ← charge ⟨r, B⟩ extra
             match tag with
             | some _ => .error .badTag
             | none =>
             if depth ≥ cfg.maxDepth then .error .depth else
             let s1 ← charge s0 n
             let (es, s2) ← decMap cfg (decItem cfg fuel (depth + 1) 0 none) n [] s1
             pure (DM.map (DMKVs.ofList es), s2)) = .ok (v, s')) :
    ∃ b1, b0 :: rest = b1 ++ s'.rest ∧ SoundPost tag v b1 := by
  obtain ⟨⟨n, r⟩, h1, h2⟩ := bind_ok h
  obtain ⟨hn, hi, rfl⟩ := readLen_strict_ok h1
  simp only [] at h2
  obtain ⟨s0, h3, h4⟩ := bind_ok h2
  obtain ⟨_, rfl⟩ := charge_eq_ok h3
  cases tag with
  | some t => cases h4
  | none =>
    simp only [] at h4
    split at h4
    · cases h4
    · obtain ⟨s1, h5, h6⟩ := bind_ok h4
      obtain ⟨_, rfl⟩ := charge_eq_ok h5
      obtain ⟨⟨es, s2⟩, h7, h8⟩ := bind_ok h6
      simp only [pure, Except.pure] at h8
      injection h8 with h8; injection h8 with ha hb; subst ha hb
      obtain ⟨hl, hnd, _, body, e, d⟩ := decMap_sound hr ih _ _ _ _ _ h7
      simp only [] at e
      refine ⟨shortestHead 5 n ++ body, ?_, ?_⟩
      · rw [head_recon b0 5 n _ hm hi, e, List.append_assoc]
      · simp only [SoundPost, Denotes]
        refine ⟨by simpa [DMKVs.keys] using hnd, body, ?_, d⟩
        simp [DMKVs.length, hl]

theorem sound_m6 {cfg : DecCfg} {fuel depth : Nat} {extra : Int} {tag : Option Nat}
    {b0 : UInt8} {rest : Bytes} {B : Int} {v : DM} {s' : DS}
    (ih : ∀ t s v s', decItem cfg fuel depth extra (some t) s = .ok (v, s') →
      ∃ b1, s.rest = b1 ++ s'.rest ∧ SoundPost (some t) v b1)
    (hm : b0.toNat / 32 = 6)
    (h : (match tag with
        | some _ => (Except.error DecErr.multiTag : R (DM × DS))
        | none => do
          let (t, r) ← readLen true (b0.toNat % 32) rest
          decItem cfg fuel depth extra (some t) ⟨r, B⟩) = .ok (v, s')) :
    ∃ b1, b0 :: rest = b1 ++ s'.rest ∧ SoundPost tag v b1 := by
  cases tag with
  | some t => cases h
  | none =>
    simp only [] at h
    obtain ⟨⟨t, r⟩, h1, h2⟩ := bind_ok h
    obtain ⟨hn, hi, rfl⟩ := readLen_strict_ok h1
    simp only [] at h2
    obtain ⟨b1, e, ht, c, rfl, hc, rfl⟩ := ih _ _ _ _ h2
    simp only [] at e
    subst ht
    refine ⟨shortestHead 6 42 ++ (shortestHead 2 (c.length + 1) ++ 0 :: c), ?_, ?_⟩
    · rw [head_recon b0 6 42 _ hm hi, e]; simp only [List.append_assoc]
    · simp only [SoundPost, Denotes]
      exact ⟨hc, trivial⟩

theorem decItem_sound (cfg : DecCfg) (hr : cfg.relaxed = false) (hw : cfg.negWrap = false) :
    ∀ (fuel depth : Nat) (extra : Int) (tag : Option Nat) (s : DS) (v : DM) (s' : DS),
      decItem cfg fuel depth extra tag s = .ok (v, s') →
      ∃ b1, s.rest = b1 ++ s'.rest ∧ SoundPost tag v b1 := by
  intro fuel
  induction fuel with
  | zero => intro depth extra tag s v s' h; rw [decItem_zero] at h; cases h
  | succ fuel ih =>
    intro depth extra tag s v s' h
    obtain ⟨rest0, B⟩ := s
    cases rest0 with
    | nil => rw [decItem_nil] at h; cases h
    | cons b0 rest =>
      simp only []
      have hb0 := b0.toNat_lt
      by_cases c1 : b0.toNat = 0xf6 ∨ b0.toNat = 0xf7
      · rw [decItem_null _ _ _ _ _ _ _ _ c1] at h
        have : Denotes .null [b0] := by
          simp only [Denotes]
          rcases c1 with c | c
          · left; congr 1; exact UInt8.toNat_inj.mp c
          · right; congr 1; exact UInt8.toNat_inj.mp c
        exact sound_scalar this h
      by_cases c2 : b0.toNat = 0xf4
      · rw [decItem_false _ _ _ _ _ _ _ _ c2] at h
        have : Denotes (.bool false) [b0] := by
          simp only [Denotes]; congr 1; exact UInt8.toNat_inj.mp c2
        exact sound_scalar this h
      by_cases c3 : b0.toNat = 0xf5
      · rw [decItem_true _ _ _ _ _ _ _ _ c3] at h
        have : Denotes (.bool true) [b0] := by
          simp only [Denotes]; congr 1; exact UInt8.toNat_inj.mp c3
        exact sound_scalar this h
      by_cases c4 : b0.toNat = 0xf9
      · rw [decItem_f16 _ _ _ _ _ _ _ _ c4] at h
        simp only [hr, Bool.not_false] at h
        exact sound_f16 (UInt8.toNat_inj.mp c4) h
      by_cases c5 : b0.toNat = 0xfa
      · rw [decItem_f32 _ _ _ _ _ _ _ _ c5] at h
        simp only [hr, Bool.not_false] at h
        exact sound_f32 (UInt8.toNat_inj.mp c5) h
      by_cases c6 : b0.toNat = 0xfb
      · rw [decItem_f64 _ _ _ _ _ _ _ _ c6] at h
        simp only [hr, Bool.not_false] at h
        exact sound_f64 (UInt8.toNat_inj.mp c6) h
      by_cases c7 : b0.toNat = 0x5f ∨ b0.toNat = 0x7f ∨ b0.toNat = 0x9f ∨ b0.toNat = 0xbf
      · rw [decItem_indef _ _ _ _ _ _ _ _ c7] at h; cases h
      have hmaj : b0.toNat / 32 = 0 ∨ b0.toNat / 32 = 1 ∨ b0.toNat / 32 = 2 ∨ b0.toNat / 32 = 3 ∨
          b0.toNat / 32 = 4 ∨ b0.toNat / 32 = 5 ∨ b0.toNat / 32 = 6 ∨ b0.toNat / 32 = 7 := by omega
      rcases hmaj with m | m | m | m | m | m | m | m
      · rw [decItem_m0 _ _ _ _ _ _ _ _ m] at h
        simp only [hr, Bool.not_false] at h
        exact sound_m0 m h
      · rw [decItem_m1 _ _ _ _ _ _ _ _ m] at h
        simp only [hr, Bool.not_false] at h
        exact sound_m1 hw m h
      · rw [decItem_m2 _ _ _ _ _ _ _ _ m (by omega)] at h
        simp only [hr, Bool.not_false] at h
        exact sound_m2 m h
      · rw [decItem_m3 _ _ _ _ _ _ _ _ m (by omega)] at h
        simp only [hr, Bool.not_false] at h
        exact sound_m3 m h
      · rw [decItem_m4 _ _ _ _ _ _ _ _ m (by omega)] at h
        simp only [hr, Bool.not_false] at h
        exact sound_m4 (fun s v s' hh => ih (depth + 1) 4 none s v s' hh) m h
      · rw [decItem_m5 _ _ _ _ _ _ _ _ m (by omega)] at h
        simp only [hr, Bool.not_false] at h
        exact sound_m5 hr (fun s v s' hh => ih (depth + 1) 0 none s v s' hh) m h
      · rw [decItem_m6 _ _ _ _ _ _ _ _ m] at h
        simp only [hr, Bool.not_false] at h
        exact sound_m6 (fun t s v s' hh => ih depth extra (some t) s v s' hh) m h
      · rw [decItem_m7 _ _ _ _ _ _ _ _ m c1 c2 c3 c4 c5 c6] at h; cases h

theorem decode_sound_aux (cfg : DecCfg) (bs : Bytes) (v : DM) (h : decode cfg bs = .ok v)
    (hr : cfg.relaxed = false) (hw : cfg.negWrap = false) (hp : cfg.dontParseBeyondEnd = false) :
    Denotes v bs := by
  unfold decode at h
  obtain ⟨⟨v', s'⟩, h1, h2⟩ := bind_ok h
  simp only [hp, Bool.false_eq_true, if_false] at h2
  split at h2
  · rename_i he
    simp only [pure, Except.pure] at h2
    injection h2 with h2; subst h2
    obtain ⟨b1, e, d⟩ := decItem_sound cfg hr hw _ _ _ _ _ _ _ h1
    simp only [List.isEmpty_iff] at he
    simp only [he, List.append_nil] at e
    subst e
    exact d
  · cases h2

end Cbor
end Ipld
