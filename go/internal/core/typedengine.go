package core

import (
	"fmt"
	"reflect"
	"strings"

	"github.com/ipfs/go-cid"
	cidlink "github.com/ipld/go-ipld-prime/linking/cid"

	"github.com/ipld/go-ipld-prime/datamodel"
	"github.com/ipld/go-ipld-prime/node/bindnode"
	"github.com/ipld/go-ipld-prime/schema"
)

// TypedEngine is one typed-node engine bound to one type system: the reflection binding (bindnode)
// now, generated code (C13) later.  Builders are obtained per named type, at type level and at
// representation level; ModelName is the engine instance of the Lean schema model that mirrors it.
type TypedEngine interface {
	Name() string
	ModelName() string
	NewTypeBuilder(typeName string) (datamodel.NodeBuilder, error)
	NewReprBuilder(typeName string) (datamodel.NodeBuilder, error)
}

// BindEngine: bindnode.Prototype(nil, schemaType) - the schema is explicit, only the Go type is
// inferred (per call, no package-level registry involved on that path).
type BindEngine struct {
	ts     *schema.TypeSystem
	protos map[string]schema.TypedPrototype
}

func NewBindEngine(ts *schema.TypeSystem) *BindEngine {
	return &BindEngine{ts: ts, protos: map[string]schema.TypedPrototype{}}
}

func (e *BindEngine) Name() string      { return "bindnode" }
func (e *BindEngine) ModelName() string { return "bindnode" }

func (e *BindEngine) proto(typeName string) (p schema.TypedPrototype, err error) {
	if p, ok := e.protos[typeName]; ok {
		return p, nil
	}
	t := e.ts.TypeByName(typeName)
	if t == nil {
		return nil, fmt.Errorf("no type %q in the type system", typeName)
	}
	defer func() {
		if r := recover(); r != nil {
			err = fmt.Errorf("bindnode.Prototype(nil, %s) panicked: %v", typeName, r)
		}
	}()
	p = bindnode.Prototype(nil, t)
	e.protos[typeName] = p
	return p, nil
}

func (e *BindEngine) NewTypeBuilder(typeName string) (datamodel.NodeBuilder, error) {
	p, err := e.proto(typeName)
	if err != nil {
		return nil, err
	}
	return p.NewBuilder(), nil
}

func (e *BindEngine) NewReprBuilder(typeName string) (datamodel.NodeBuilder, error) {
	p, err := e.proto(typeName)
	if err != nil {
		return nil, err
	}
	return p.Representation().NewBuilder(), nil
}

// UserBindEngine: bindnode.Prototype(ptrToGoValue, schemaType) with caller-supplied Go types.  The Go types are built
// with reflect along bindnode's documented shape vocabulary, varying the choices a user has: an int-represented enum
// as a Go integer kind or a string, links as cid.Cid / cidlink.Link / datamodel.Link, ints as int64 / int.  Every
// choice is derived from the type's token form, so a case line determines the binding.
type UserBindEngine struct {
	ts     *schema.TypeSystem
	protos map[string]schema.TypedPrototype
	salt   uint64
	// AllIntKinds (C19): a schema Int is bound to any of int8 … int64, int, uint8 … uint64, uint, and an
	// int-represented enum to a string or any of these kinds (a kind that can hold at least one member's
	// representation int).  Off (C08, C09, C13): int64 / int, and string / int32 / int64 / int.
	AllIntKinds bool
	// AllSlotShapes (C19): the other slot shapes verifyCompatibility accepts: every value slot (struct field, list element,
	// map value, the value behind an optional field's or a union member's pointer) sometimes has ONE pointer more than it
	// needs (*T for a required non-nullable slot, **T for a nullable one, ***T for optional and nullable); a nullable slot,
	// and an optional field that is not nullable, is sometimes bound to a bare nilable Go type (slice, []byte,
	// datamodel.Link, datamodel.Node) instead of a pointer.  Off: pointers exactly for optional and nullable.
	AllSlotShapes bool
}

var allIntKindTypes = []reflect.Type{
	reflect.TypeOf(int8(0)), reflect.TypeOf(int16(0)), reflect.TypeOf(int32(0)), reflect.TypeOf(int64(0)), reflect.TypeOf(int(0)),
	reflect.TypeOf(uint8(0)), reflect.TypeOf(uint16(0)), reflect.TypeOf(uint32(0)), reflect.TypeOf(uint64(0)), reflect.TypeOf(uint(0)),
}

// GoType is the Go type this engine binds to the schema type (a function of the type's name and the engine's salt).
func (e *UserBindEngine) GoType(t schema.Type) reflect.Type { return e.goType(t) }

func NewUserBindEngine(ts *schema.TypeSystem, salt string) *UserBindEngine {
	h := uint64(1469598103934665603)
	for _, c := range []byte(salt) {
		h = (h ^ uint64(c)) * 1099511628211
	}
	return &UserBindEngine{ts: ts, protos: map[string]schema.TypedPrototype{}, salt: h}
}

func (e *UserBindEngine) Name() string      { return "bindnode-user-types" }
func (e *UserBindEngine) ModelName() string { return "bindnode" }

func (e *UserBindEngine) pick(name string, n int) int {
	h := e.salt
	for _, c := range []byte(name) {
		h = (h ^ uint64(c)) * 1099511628211
	}
	h ^= h >> 29
	return int(h % uint64(n))
}

func userFieldName(name string) string { return strings.Title(name) } //lint:ignore SA1019 mirrors bindnode

// slotType is the Go type of a value slot for base type bt: a nullable slot is a pointer - or, with AllSlotShapes, sometimes
// the bare type itself where that is nilable (slice, interface) - and, with AllSlotShapes, a slot sometimes has ONE pointer
// more than it needs (*T for T, **T for nullable): verifyCompatibility strips one pointer from every type it is handed.
func (e *UserBindEngine) slotType(bt reflect.Type, nullable bool, key string) reflect.Type {
	k := 99
	if e.AllSlotShapes {
		k = e.pick("slot:"+key, 16)
	}
	nilable := bt.Kind() == reflect.Slice || bt.Kind() == reflect.Interface
	switch {
	case nullable && nilable && k < 5:
		return bt
	case nullable && k == 5:
		return reflect.PointerTo(reflect.PointerTo(bt))
	case nullable:
		return reflect.PointerTo(bt)
	case k < 3:
		return reflect.PointerTo(bt)
	}
	return bt
}

func (e *UserBindEngine) goType(t schema.Type) reflect.Type {
	switch typ := t.(type) {
	case *schema.TypeBool:
		return reflect.TypeOf(false)
	case *schema.TypeInt:
		if e.AllIntKinds {
			return allIntKindTypes[e.pick("int:"+typ.Name(), len(allIntKindTypes))]
		}
		return []reflect.Type{reflect.TypeOf(int64(0)), reflect.TypeOf(int(0))}[e.pick("int:"+typ.Name(), 2)]
	case *schema.TypeFloat:
		return reflect.TypeOf(float64(0))
	case *schema.TypeString:
		return reflect.TypeOf("")
	case *schema.TypeBytes:
		return reflect.TypeOf([]byte(nil))
	case *schema.TypeLink:
		return []reflect.Type{reflect.TypeOf((*datamodel.Link)(nil)).Elem(), reflect.TypeOf(cid.Cid{}), reflect.TypeOf(cidlink.Link{})}[e.pick("link:"+typ.Name(), 3)]
	case *schema.TypeAny:
		return reflect.TypeOf((*datamodel.Node)(nil)).Elem()
	case *schema.TypeEnum:
		if stg, ok := typ.RepresentationStrategy().(schema.EnumRepresentation_Int); ok && e.AllIntKinds {
			if e.pick("enum-as-string:"+typ.Name(), 4) == 0 {
				return reflect.TypeOf("")
			}
			rt := allIntKindTypes[e.pick("enum:"+typ.Name(), len(allIntKindTypes))]
			holdsOne := false
			z := reflect.Zero(rt)
			for _, i := range stg {
				switch rt.Kind() {
				case reflect.Uint, reflect.Uint8, reflect.Uint16, reflect.Uint32, reflect.Uint64:
					holdsOne = holdsOne || (i >= 0 && !z.OverflowUint(uint64(i)))
				default:
					holdsOne = holdsOne || !z.OverflowInt(int64(i))
				}
			}
			if !holdsOne {
				return reflect.TypeOf(int64(0)) // the kind could hold no member at all
			}
			return rt
		}
		if _, ok := typ.RepresentationStrategy().(schema.EnumRepresentation_Int); ok {
			return []reflect.Type{reflect.TypeOf(""), reflect.TypeOf(int32(0)), reflect.TypeOf(int64(0)), reflect.TypeOf(int(0))}[e.pick("enum:"+typ.Name(), 4)]
		}
		return reflect.TypeOf("")
	case *schema.TypeList:
		et := e.slotType(e.goType(typ.ValueType()), typ.ValueIsNullable(), "elem:"+typ.Name())
		return reflect.SliceOf(et)
	case *schema.TypeMap:
		kt := e.goType(typ.KeyType())
		vt := e.slotType(e.goType(typ.ValueType()), typ.ValueIsNullable(), "value:"+typ.Name())
		return reflect.StructOf([]reflect.StructField{{Name: "Keys", Type: reflect.SliceOf(kt)}, {Name: "Values", Type: reflect.MapOf(kt, vt)}})
	case *schema.TypeStruct:
		var fs []reflect.StructField
		for _, f := range typ.Fields() {
			ft := e.goType(f.Type())
			key := "field:" + typ.Name() + "." + f.Name()
			switch {
			case f.IsOptional() && !f.IsNullable() && e.AllSlotShapes && (ft.Kind() == reflect.Slice || ft.Kind() == reflect.Interface) && e.pick("optbare:"+key, 8) < 3:
				// optional, bound to the bare nilable type: nil is absent
			case f.IsOptional() && f.IsNullable():
				ft = reflect.PointerTo(reflect.PointerTo(ft)) // "optional and nullable fields must use double pointers"
				if e.AllSlotShapes && e.pick("slot:"+key, 16) == 5 {
					ft = reflect.PointerTo(ft)
				}
			case f.IsOptional():
				ft = reflect.PointerTo(e.slotType(ft, false, key))
			default:
				ft = e.slotType(ft, f.IsNullable(), key)
			}
			fs = append(fs, reflect.StructField{Name: userFieldName(f.Name()), Type: ft})
		}
		return reflect.StructOf(fs)
	case *schema.TypeUnion:
		var fs []reflect.StructField
		for _, m := range typ.Members() {
			mt := reflect.PointerTo(e.goType(m))
			if e.AllSlotShapes && e.pick("memberptr:"+typ.Name()+"."+m.Name(), 8) == 0 {
				mt = reflect.PointerTo(mt) // one pointer on the value behind the member's pointer
			}
			fs = append(fs, reflect.StructField{Name: userFieldName(m.Name()), Type: mt})
		}
		return reflect.StructOf(fs)
	}
	panic(fmt.Sprintf("UserBindEngine: no Go type for %T", t))
}

func (e *UserBindEngine) proto(typeName string) (p schema.TypedPrototype, err error) {
	if p, ok := e.protos[typeName]; ok {
		return p, nil
	}
	t := e.ts.TypeByName(typeName)
	if t == nil {
		return nil, fmt.Errorf("no type %q in the type system", typeName)
	}
	defer func() {
		if r := recover(); r != nil {
			err = fmt.Errorf("bindnode.Prototype(user Go type, %s) panicked: %v", typeName, r)
		}
	}()
	p = bindnode.Prototype(reflect.New(e.goType(t)).Interface(), t)
	e.protos[typeName] = p
	return p, nil
}

func (e *UserBindEngine) NewTypeBuilder(typeName string) (datamodel.NodeBuilder, error) {
	p, err := e.proto(typeName)
	if err != nil {
		return nil, err
	}
	return p.NewBuilder(), nil
}

func (e *UserBindEngine) NewReprBuilder(typeName string) (datamodel.NodeBuilder, error) {
	p, err := e.proto(typeName)
	if err != nil {
		return nil, err
	}
	return p.Representation().NewBuilder(), nil
}
