/-
  C08 — a typed node's two views are related exactly by the declared representation strategy.

  "For every schema type and every value of that type, a typed node presents a type-level view and a
  representation view related exactly by the type's declared representation strategy: struct as map
  (with renames, optional fields omitted, nullable fields as null), tuple, stringjoin or listpairs;
  union as keyed, kinded or stringprefix; enum as string or int; typed maps and lists element-wise.
  Building the value through the type-level builder or through the representation builder gives the
  same node, and encoding the representation and decoding it back through the representation builder
  reproduces the same bytes and the same typed value."

  Property theorems only; helper lemmas and the two side conditions are in `Lemmas/Schema*.lean`.

  Vocabulary:
    * `toRepr ty nul v` / `repr ty v = toRepr ty false v` — the representation view of the typed value
      `v` (`Model/Schema.lean`); `none` when `v` is not of the canonical shape of a typed node (a struct
      lists exactly its fields, in declaration order, unset optional ones as `absent`) or has no
      representation;
    * `shapeOK ty v` (`Lemmas/SchemaTotal.lean`, decidable) — `v` has the canonical shape and no
      tuple-represented struct in it has an absent field before a present one.  It is EXACTLY the
      condition under which a conforming value has a representation (`repr_total`, `repr_total_exact`);
    * `unambig ty v` (`Lemmas/SchemaRound2.lean`, decidable) — nowhere in `v` does a string-based or
      kinded strategy lose information: a stringjoin struct's joined string splits back into its
      parts, a stringprefix union's text splits back into discriminant and rest (with a delimiter) or
      is claimed by no earlier member (without), a kinded union member's representation has the kind
      the member is listed under.  The round trip holds under this condition, and each of its clauses
      is needed: see `roundtrip_fails_*` for what happens without it (the model follows the library's
      `strings.Split` / `SplitN` / `HasPrefix` / kind-table code there).
-/
import IpldModel.Model.Schema
import IpldModel.Lemmas.SchemaRound2
import IpldModel.Lemmas.SchemaTotal
import IpldModel.Lemmas.SchemaRepr
import IpldModel.Lemmas.SchemaNorm
import IpldModel.Lemmas.SchemaShape
namespace Ipld.Props.C08
open Ipld Ipld.Schema

/-! ## C08-3 — the round trip: representation, then representation builder -/

/-- **ofRepr_repr_partial.**  For a well-formed type, a conforming value whose representation loses no
    information (`unambig`) and IS `d` is rebuilt exactly by the ideal representation builder fed `d`
    — in any slot.  (A value that has a representation is canonical, so the value rebuilt is `v`
    itself, not merely its normal form.)  `unambig` had to be added: see `roundtrip_fails_*`. -/
theorem toRepr_build_partial (ty : Ty) (nul : Bool) (v : TL) (d : DM) (hwf : ty.wf = true)
    (hc : conforms ty nul v = true) (hu : unambig ty v = true) (hr : toRepr ty nul v = some d) :
    build Engine.ideal .repr ty nul none d = .ok v :=
  rt v ty nul hwf hc hu d hr

/-- **ofRepr_repr_partial** (root form). -/
theorem ofRepr_repr_partial (ty : Ty) (v : TL) (d : DM) (hwf : ty.wf = true)
    (hc : conforms ty false v = true) (hu : unambig ty v = true) (hr : repr ty v = some d) :
    ofRepr Engine.ideal ty d = .ok v :=
  rt v ty false hwf hc hu d hr

/-- "reproduces the same bytes and the same typed value": the node rebuilt from the representation has
    the same representation again (so any deterministic codec writes the same bytes). -/
theorem repr_ofRepr_repr_partial (ty : Ty) (v : TL) (d : DM) (hwf : ty.wf = true)
    (hc : conforms ty false v = true) (hu : unambig ty v = true) (hr : repr ty v = some d) :
    ∃ v', ofRepr Engine.ideal ty d = .ok v' ∧ v' = v ∧ repr ty v' = some d :=
  ⟨v, rt v ty false hwf hc hu d hr, rfl, hr⟩

/-- **value_with_repr_is_normal.**  A value that has a representation is already in normal form: this
    is why the round trip gives back `v` itself. -/
theorem value_with_repr_is_normal (ty : Ty) (nul : Bool) (v : TL) (d : DM) (hwf : ty.wf = true)
    (hr : toRepr ty nul v = some d) : normalize ty v = v :=
  normalize_of_repr v ty nul hwf d hr

/-- **ofRepr_repr_normalize_partial.**  For ANY conforming typed value `v` (struct entries in any order,
    unset optional fields left out or explicit): the representation of its normal form — the typed
    node it denotes — is rebuilt to that normal form. -/
theorem ofRepr_repr_normalize_partial (ty : Ty) (v : TL) (d : DM) (hwf : ty.wf = true)
    (hc : conforms ty false v = true) (hu : unambig ty (normalize ty v) = true)
    (hr : repr ty (normalize ty v) = some d) :
    ofRepr Engine.ideal ty d = .ok (normalize ty v) :=
  rt (normalize ty v) ty false hwf (conforms_normalize v ty false hwf hc) hu d hr

/-! ### The side condition is needed -/

/-- `struct { a String; b String } representation stringjoin ":"` -/
def exJoin : Ty :=
  .struct (.cons [97] [97] false false .str (.cons [98] [98] false false .str .nil)) (.stringjoin [58])

/-- **roundtrip_fails_stringjoin.**  A field string containing the delimiter: `{a: "x:y", b: "z"}` is
    represented by `"x:y:z"`, which has three parts; the representation builder rejects it. -/
theorem roundtrip_fails_stringjoin :
    let v : TL := .map (.cons [97] (.str [120, 58, 121]) (.cons [98] (.str [122]) .nil))
    exJoin.wf = true ∧ conforms exJoin false v = true ∧ unambig exJoin v = false ∧
    repr exJoin v = some (.str [120, 58, 121, 58, 122]) ∧
    ofRepr Engine.ideal exJoin (.str [120, 58, 121, 58, 122]) = .reject := by decide

/-- ... and a stringjoin struct without fields: its representation `""` splits into ONE part. -/
theorem roundtrip_fails_empty_stringjoin :
    let ty : Ty := .struct .nil (.stringjoin [58])
    ty.wf = true ∧ conforms ty false (.map .nil) = true ∧ unambig ty (.map .nil) = false ∧
    repr ty (.map .nil) = some (.str []) ∧ ofRepr Engine.ideal ty (.str []) = .reject := by decide

/-- `union { | String "a:b" | String "a" } representation stringprefix ":"`, members named "P", "Q" -/
def exPrefix : Ty :=
  .union (.cons [80] [97, 58, 98] .str .str (.cons [81] [97] .str .str .nil)) (.stringprefix [58])

/-- **roundtrip_fails_stringprefix.**  A discriminant containing the delimiter: the value `P "x"` is
    represented by `"a:b:x"`, which the builder reads as member `Q` holding `"b:x"` — a DIFFERENT,
    conforming node is built silently. -/
theorem roundtrip_fails_stringprefix :
    let v : TL := .map (.cons [80] (.str [120]) .nil)
    exPrefix.wf = true ∧ conforms exPrefix false v = true ∧ unambig exPrefix v = false ∧
    repr exPrefix v = some (.str [97, 58, 98, 58, 120]) ∧
    ofRepr Engine.ideal exPrefix (.str [97, 58, 98, 58, 120])
      = .ok (.map (.cons [81] (.str [98, 58, 120]) .nil)) := by decide

/-- `union { | String "a" | String "ab" } representation stringprefix ""` (no delimiter), members "Q", "P" -/
def exPrefixNoDelim : Ty :=
  .union (.cons [81] [97] .str .str (.cons [80] [97, 98] .str .str .nil)) (.stringprefix [])

/-- **roundtrip_fails_stringprefix_nodelim.**  Without delimiter the FIRST member whose discriminant is a
    prefix of the text wins: `P "x"` is represented by `"abx"`, read back as `Q "bx"`. -/
theorem roundtrip_fails_stringprefix_nodelim :
    let v : TL := .map (.cons [80] (.str [120]) .nil)
    exPrefixNoDelim.wf = true ∧ conforms exPrefixNoDelim false v = true ∧
    unambig exPrefixNoDelim v = false ∧ repr exPrefixNoDelim v = some (.str [97, 98, 120]) ∧
    ofRepr Engine.ideal exPrefixNoDelim (.str [97, 98, 120])
      = .ok (.map (.cons [81] (.str [98, 120]) .nil)) := by decide

/-- `union { | Int string | String int } representation kinded` — each member listed under the kind of
    the OTHER's representation (`Ty.wf` only asks the listed kinds to be distinct). -/
def exKindedSwapped : Ty :=
  .union (.cons [73] [] .str .int (.cons [83] [] .int .str .nil)) .kinded

/-- **roundtrip_fails_kinded.**  A member listed under a kind that is not its representation's: the
    value `I 1` is represented by `1`, an int; the builder hands ints to member `S`, a string: rejected. -/
theorem roundtrip_fails_kinded :
    let v : TL := .map (.cons [73] (.int 1) .nil)
    exKindedSwapped.wf = true ∧ conforms exKindedSwapped false v = true ∧
    unambig exKindedSwapped v = false ∧ repr exKindedSwapped v = some (.int 1) ∧
    ofRepr Engine.ideal exKindedSwapped (.int 1) = .reject := by decide

/-! ## C08-1 — which values have a representation -/

/-- **repr_total_partial.**  Every conforming value of canonical shape in which no tuple-represented
    struct has an absent field before a present one has a representation.  (`shapeOK` had to be added:
    see `repr_none_*`.) -/
theorem repr_total_partial (ty : Ty) (nul : Bool) (v : TL) (hwf : ty.wf = true)
    (hc : conforms ty nul v = true) (hs : shapeOK ty v = true) : ∃ d, toRepr ty nul v = some d :=
  total v ty nul hwf hc hs

/-- **repr_total_exact.**  ... and only those: `shapeOK` is exactly the side condition.  For a
    conforming value of a well-formed type, "has a representation" ↔ `shapeOK`. -/
theorem repr_total_exact (ty : Ty) (v : TL) (hwf : ty.wf = true) (hc : conforms ty false v = true) :
    (∃ d, repr ty v = some d) ↔ shapeOK ty v = true :=
  ⟨fun ⟨d, hd⟩ => shape_of_repr v ty false d hd, fun hs => total v ty false hwf hc hs⟩

/-- **repr_total_normalize_partial.**  For ANY conforming typed value: its normal form has a
    representation as soon as no tuple in it has a gap. -/
theorem repr_total_normalize_partial (ty : Ty) (v : TL) (hwf : ty.wf = true)
    (hc : conforms ty false v = true) (hs : shapeOK ty (normalize ty v) = true) :
    ∃ d, repr ty (normalize ty v) = some d :=
  total (normalize ty v) ty false hwf (conforms_normalize v ty false hwf hc) hs

/-- `struct { a optional Int; b optional Int } representation tuple` -/
def exTuple : Ty :=
  .struct (.cons [97] [97] true false .int (.cons [98] [98] true false .int .nil)) .tuple

/-- **repr_none_tuple.**  A tuple with an absent field before a present one conforms, is canonical, and
    has no representation (a list cannot skip a position). -/
theorem repr_none_tuple :
    let v : TL := .map (.cons [97] .absent (.cons [98] (.int 1) .nil))
    exTuple.wf = true ∧ conforms exTuple false v = true ∧ shapeOK exTuple v = false ∧
    repr exTuple v = none := by decide

/-- **repr_none_noncanonical.**  `conforms` leaves struct entry order free and lets unset optional fields
    be left out; `repr` is defined on the canonical form (what a typed node presents) only. -/
theorem repr_none_noncanonical :
    let v : TL := .map (.cons [98] (.int 1) (.cons [97] (.int 2) .nil))
    conforms exTuple false v = true ∧ shapeOK exTuple v = false ∧ repr exTuple v = none ∧
    repr exTuple (normalize exTuple v) = some (.list (.cons (.int 2) (.cons (.int 1) .nil))) := by decide

/-- What the builders build has the canonical shape, hence (tuples permitting) a representation. -/
example :
    ofType Engine.ideal exTuple (.map (.cons [98] (.int 1) (.cons [97] (.int 2) .nil)))
      = .ok (.map (.cons [97] (.int 2) (.cons [98] (.int 1) .nil))) := by decide

/-- **ofRepr_built_has_repr.**  Every node the representation builder builds has a representation (it
    has the canonical shape and, being assembled position by position, no tuple gap). -/
theorem ofRepr_built_has_repr (ty : Ty) (d : DM) (v : TL) (hwf : ty.wf = true)
    (h : ofRepr Engine.ideal ty d = .ok v) : ∃ d', repr ty v = some d' :=
  build_repr_has_repr ty false d v hwf h

/-- **ofType_built_may_lack_repr.**  Not so for the type-level builder: it accepts `{"b": 1}` for the
    tuple-represented `exTuple`, and the node `{a: absent, b: 1}` it builds has no representation. -/
theorem ofType_built_may_lack_repr :
    ofType Engine.ideal exTuple (.map (.cons [98] (.int 1) .nil))
      = .ok (.map (.cons [97] .absent (.cons [98] (.int 1) .nil))) ∧
    repr exTuple (.map (.cons [97] .absent (.cons [98] (.int 1) .nil))) = none := by decide

/-- For a node built by the type-level builder, "has a representation" is exactly `shapeOK` (i.e. "no
    tuple gap": the canonical shape it has anyway). -/
theorem ofType_built_has_repr_iff (ty : Ty) (input : DM) (v : TL) (hwf : ty.wf = true)
    (h : ofType Engine.ideal ty input = .ok v) : (∃ d, repr ty v = some d) ↔ shapeOK ty v = true :=
  repr_total_exact ty v hwf (build_conforms .type input ty false hwf v h)

/-! ## C08-2 — the representation conforms at representation level -/

/-- **repr_conforms_partial.**  The representation of a conforming, unambiguous value conforms at
    representation level. -/
theorem repr_conforms_partial (ty : Ty) (nul : Bool) (v : TL) (d : DM) (hwf : ty.wf = true)
    (hc : conforms ty nul v = true) (hu : unambig ty v = true) (hr : toRepr ty nul v = some d) :
    conformsRepr ty nul d = true := by
  rw [← build_repr_isOk d ty nul hwf, rt v ty nul hwf hc hu d hr]
  rfl

/-- Without `unambig` it need not: `"x:y:z"` is not a two-field stringjoin. -/
theorem repr_conforms_needs_unambig :
    let v : TL := .map (.cons [97] (.str [120, 58, 121]) (.cons [98] (.str [122]) .nil))
    conforms exJoin false v = true ∧ repr exJoin v = some (.str [120, 58, 121, 58, 122]) ∧
    conformsRepr exJoin false (.str [120, 58, 121, 58, 122]) = false := by decide

/-! ## C08-4 — the two builders agree -/

/-- **ofType_ofRepr_agree_partial.**  A node built through the type-level builder, presented through its
    representation, and rebuilt through the representation builder is the same node. -/
theorem ofType_ofRepr_agree_partial (ty : Ty) (input : DM) (v : TL) (d : DM) (hwf : ty.wf = true)
    (hb : ofType Engine.ideal ty input = .ok v) (hu : unambig ty v = true) (hr : repr ty v = some d) :
    ofRepr Engine.ideal ty d = .ok v :=
  rt v ty false hwf (build_conforms .type input ty false hwf v hb) hu d hr

/-- Without `unambig` the two builders can disagree: the type-level builder builds `{a: "x:y", b: "z"}`
    for `exJoin`; its representation `"x:y:z"` is rejected by the representation builder. -/
theorem ofType_ofRepr_agree_needs_unambig :
    let input : DM := .map (.cons [97] (.str [120, 58, 121]) (.cons [98] (.str [122]) .nil))
    let v : TL := .map (.cons [97] (.str [120, 58, 121]) (.cons [98] (.str [122]) .nil))
    ofType Engine.ideal exJoin input = .ok v ∧ repr exJoin v = some (.str [120, 58, 121, 58, 122]) ∧
    ofRepr Engine.ideal exJoin (.str [120, 58, 121, 58, 122]) = .reject := by decide

/-- ... and the other way round: a node built by the representation builder from `d0`, presented as
    `d`, is rebuilt from `d` (`d` is `d0` up to the order of map-represented struct entries). -/
theorem ofRepr_ofRepr_agree_partial (ty : Ty) (d0 : DM) (v : TL) (d : DM) (hwf : ty.wf = true)
    (hb : ofRepr Engine.ideal ty d0 = .ok v) (hu : unambig ty v = true) (hr : repr ty v = some d) :
    ofRepr Engine.ideal ty d = .ok v :=
  rt v ty false hwf (build_conforms .repr d0 ty false hwf v hb) hu d hr

/-! ## C08-6 — the representation determines the value -/

/-- **repr_injective_partial.**  Two conforming, unambiguous values with the same representation are
    equal. -/
theorem repr_injective_partial (ty : Ty) (v₁ v₂ : TL) (d : DM) (hwf : ty.wf = true)
    (hc₁ : conforms ty false v₁ = true) (hc₂ : conforms ty false v₂ = true)
    (hu₁ : unambig ty v₁ = true) (hu₂ : unambig ty v₂ = true)
    (h₁ : repr ty v₁ = some d) (h₂ : repr ty v₂ = some d) : v₁ = v₂ := by
  have e₁ := rt v₁ ty false hwf hc₁ hu₁ d h₁
  have e₂ := rt v₂ ty false hwf hc₂ hu₂ d h₂
  rw [e₁] at e₂
  exact Outcome.ok.inj e₂

/-- Without `unambig`, two different conforming values can share a representation. -/
theorem repr_not_injective :
    let v₁ : TL := .map (.cons [80] (.str [120]) .nil)
    let v₂ : TL := .map (.cons [81] (.str [98, 58, 120]) .nil)
    conforms exPrefix false v₁ = true ∧ conforms exPrefix false v₂ = true ∧ v₁ ≠ v₂ ∧
    repr exPrefix v₁ = repr exPrefix v₂ := by decide

/-! ## C08-5 — the strategy equations -/

/-- null: only in a nullable slot, represented by null. -/
theorem repr_null (ty : Ty) : toRepr ty true .null = some .null ∧ toRepr ty false .null = none := by
  simp [toRepr]

/-- typed list: element-wise. -/
theorem repr_list (ety : Ty) (enul nul : Bool) (xs : TLs) :
    toRepr (.list ety enul) nul (.list xs) = (reprList ety enul xs).map fun ys => .list (DMs.ofList ys) := by
  simp only [toRepr]

/-- ... head first, then the rest. -/
theorem repr_list_cons (ety : Ty) (enul : Bool) (x : TL) (xs : TLs) (d : DM) (ds : List DM)
    (hx : toRepr ety enul x = some d) (hxs : reprList ety enul xs = some ds) :
    reprList ety enul (.cons x xs) = some (d :: ds) := by
  simp [reprList, hx, hxs]

/-- typed map: same keys, in the same order, values element-wise. -/
theorem repr_map (vty : Ty) (vnul nul : Bool) (es : TLKVs) :
    toRepr (.map vty vnul) nul (.map es) = (reprMap vty vnul es).map fun ys => .map (DMKVs.ofList ys) := by
  simp only [toRepr]

/-- ... entry by entry, the key unchanged. -/
theorem repr_map_cons (vty : Ty) (vnul : Bool) (k : Bytes) (x : TL) (xs : TLKVs) (d : DM)
    (ds : List (Bytes × DM)) (hx : toRepr vty vnul x = some d) (hxs : reprMap vty vnul xs = some ds) :
    reprMap vty vnul (.cons k x xs) = some ((k, d) :: ds) := by
  simp [reprMap, hx, hxs]

/-- struct, field by field (`reprFields`): an unset optional field has no representation entry ... -/
theorem repr_field_absent (f : Field) (fs : List Field) (es : TLKVs) (ho : f.opt = true) :
    reprFields (f :: fs) (.cons f.name .absent es) = (reprFields fs es).map (none :: ·) :=
  reprFields_cons_absent f fs es ho

/-- ... a set field has the representation of its value (null for a null in a nullable field). -/
theorem repr_field_present (f : Field) (fs : List Field) (v : TL) (es : TLKVs) (d : DM)
    (r : List (Option DM)) (hne : v ≠ .absent) (hd : toRepr f.ty f.nullable v = some d)
    (hr : reprFields fs es = some r) :
    reprFields (f :: fs) (.cons f.name v es) = some (some d :: r) :=
  reprFields_cons_present f fs v es d r hne hd hr

/-- struct as map: the set fields, in declaration order, each under its representation key (the
    rename); unset optional fields omitted. -/
theorem repr_struct_map (fs : Fields) (nul : Bool) (es : TLKVs) (vals : List (Option DM))
    (h : reprFields fs.toList es = some vals) :
    toRepr (.struct fs .map) nul (.map es) = some (.map (DMKVs.ofList (mapEntries fs.toList vals))) := by
  rw [toRepr_struct_map, h]; rfl

/-- map representation: an unset field contributes no entry ... -/
theorem mapEntries_absent (f : Field) (fs : List Field) (vals : List (Option DM)) :
    mapEntries (f :: fs) (none :: vals) = mapEntries fs vals := mapEntries_none f fs vals

/-- ... a set field contributes `rename ↦ representation of its value`. -/
theorem mapEntries_present (f : Field) (fs : List Field) (d : DM) (vals : List (Option DM)) :
    mapEntries (f :: fs) (some d :: vals) = (f.rename, d) :: mapEntries fs vals := mapEntries_some f fs d vals

/-- struct as listpairs: a list of `[name, value]` pairs for the set fields, in declaration order. -/
theorem repr_struct_listpairs (fs : Fields) (nul : Bool) (es : TLKVs) (vals : List (Option DM))
    (h : reprFields fs.toList es = some vals) :
    toRepr (.struct fs .listpairs) nul (.map es) = some (.list (DMs.ofList (pairEntries fs.toList vals))) := by
  rw [toRepr_struct_listpairs, h]; rfl

/-- listpairs representation: a set field contributes the pair `[name, representation of its value]`. -/
theorem pairEntries_present (f : Field) (fs : List Field) (d : DM) (vals : List (Option DM)) :
    pairEntries (f :: fs) (some d :: vals) =
      DM.list (.cons (.str f.name) (.cons d .nil)) :: pairEntries fs vals := pairEntries_some f fs d vals

/-- struct as tuple: the field values in declaration order, the trailing unset ones dropped. -/
theorem repr_struct_tuple (fs : Fields) (nul : Bool) (es : TLKVs) (ds : List DM) (n : Nat)
    (h : reprFields fs.toList es = some (ds.map some ++ List.replicate n none)) :
    toRepr (.struct fs .tuple) nul (.map es) = some (.list (DMs.ofList ds)) := by
  rw [toRepr_struct_tuple, h]
  simp only [dropTrailingNone_split, allSome_map_some]; rfl

/-- struct as stringjoin: the field strings joined by the delimiter. -/
theorem repr_struct_stringjoin (fs : Fields) (delim : Bytes) (nul : Bool) (es : TLKVs) (ss : List Bytes)
    (h : reprFields fs.toList es = some (ss.map fun s => some (.str s))) :
    toRepr (.struct fs (.stringjoin delim)) nul (.map es) = some (.str (joinBytes delim ss)) := by
  rw [toRepr_struct_stringjoin, h]
  have h1 : ∀ l : List Bytes, allSome (l.map fun s => some (DM.str s)) = some (l.map DM.str) := by
    intro l
    induction l with
    | nil => rfl
    | cons a l ih => simp [allSome, ih]
  have h2 : ∀ l : List Bytes, allStr (l.map DM.str) = some l := by
    intro l
    induction l with
    | nil => rfl
    | cons a l ih => simp [allStr, ih]
  simp only [h1, h2]; rfl

/-- union, keyed: a single-entry map keyed by the member's discriminant. -/
theorem repr_union_keyed (ms : Members) (nul : Bool) (k : Bytes) (v : TL) (m : Member) (d : DM)
    (hm : ms.toList.find? (fun m => m.name == k) = some m) (hd : toRepr m.ty false v = some d) :
    toRepr (.union ms .keyed) nul (.map (.cons k v .nil)) = some (.map (.cons m.disc d .nil)) := by
  simp only [toRepr, hm, hd]

/-- union, kinded: the member's representation itself. -/
theorem repr_union_kinded (ms : Members) (nul : Bool) (k : Bytes) (v : TL) (m : Member) (d : DM)
    (hm : ms.toList.find? (fun m => m.name == k) = some m) (hd : toRepr m.ty false v = some d) :
    toRepr (.union ms .kinded) nul (.map (.cons k v .nil)) = some d := by
  simp only [toRepr, hm, hd]

/-- union, stringprefix: discriminant, delimiter, the member's string. -/
theorem repr_union_stringprefix (ms : Members) (delim : Bytes) (nul : Bool) (k : Bytes) (v : TL)
    (m : Member) (s : Bytes)
    (hm : ms.toList.find? (fun m => m.name == k) = some m) (hd : toRepr m.ty false v = some (.str s)) :
    toRepr (.union ms (.stringprefix delim)) nul (.map (.cons k v .nil))
      = some (.str (m.disc ++ delim ++ s)) := by
  simp only [toRepr, hm, hd]

/-- The kinded strategy on the builder side: the representation builder of a kinded union hands a
    non-null input to the member listed under the input's kind and wraps the result. -/
theorem build_union_kinded (ms : Members) (nul : Bool) (d : DM) (hd : d ≠ .null) :
    build Engine.ideal .repr (.union ms .kinded) nul none d =
      match ms.toList.find? (fun m => m.kind == d.kind) with
      | none => .reject
      | some m => (build Engine.ideal .repr m.ty false none d).map (wrapMember m.name) :=
  build_kinded_eq ms nul d hd

/-- enum as string: the member's representation string (its name unless renamed). -/
theorem repr_enum_str (ms : List EnumMember) (nul : Bool) (s : Bytes) (m : EnumMember)
    (hm : ms.find? (fun m => m.name == s) = some m) :
    toRepr (.enum ms .str) nul (.str s) = some (.str m.rstr) := by
  simp only [toRepr, hm]

/-- enum as int: the member's representation int. -/
theorem repr_enum_int (ms : List EnumMember) (nul : Bool) (s : Bytes) (m : EnumMember)
    (hm : ms.find? (fun m => m.name == s) = some m) :
    toRepr (.enum ms .int) nul (.str s) = some (.int m.rint) := by
  simp only [toRepr, hm]

/-! ## Examples: the hypotheses are satisfiable on a non-trivial type -/

/-- `struct { a Int (rename "x"); b optional nullable [String]; c optional Int } representation map` -/
def exStruct : Ty :=
  .struct (.cons [97] [120] false false .int
          (.cons [98] [98] true true (.list .str false)
          (.cons [99] [99] true false .int .nil))) .map

/-- `union { | exStruct map | exJoin string | enum{Y "yes" 1, N "no" 0}/int int } representation kinded` -/
def exUnion : Ty :=
  .union (.cons [83] [] .map exStruct
         (.cons [74] [] .str exJoin
         (.cons [69] [] .int (.enum [⟨[89], [121], 1⟩, ⟨[78], [110], 0⟩] .int) .nil))) .kinded

/-- `{ String : exUnion }` with nullable values -/
def exTy : Ty := .map exUnion true

/-- a value: `{"k1": S{a: 7, b: null, c: absent}, "k2": J{a: "p", b: "q"}, "k3": E "N", "k4": null}` -/
def exVal : TL :=
  .map (.cons [107, 49] (.map (.cons [83]
          (.map (.cons [97] (.int 7) (.cons [98] .null (.cons [99] .absent .nil)))) .nil))
       (.cons [107, 50] (.map (.cons [74]
          (.map (.cons [97] (.str [112]) (.cons [98] (.str [113]) .nil))) .nil))
       (.cons [107, 51] (.map (.cons [69] (.str [78]) .nil))
       (.cons [107, 52] .null .nil))))

/-- its representation: `{"k1": {"x": 7, "b": null}, "k2": "p:q", "k3": 0, "k4": null}` — rename, absent
    optional omitted, nullable null, stringjoin, int enum, kinded union transparent -/
def exRepr : DM :=
  .map (.cons [107, 49] (.map (.cons [120] (.int 7) (.cons [98] .null .nil)))
       (.cons [107, 50] (.str [112, 58, 113])
       (.cons [107, 51] (.int 0)
       (.cons [107, 52] .null .nil))))

example : exTy.wf = true := by decide
example : conforms exTy false exVal = true := by decide
example : unambig exTy exVal = true := by decide
example : shapeOK exTy exVal = true := by decide
example : repr exTy exVal = some exRepr := by decide
example : ofRepr Engine.ideal exTy exRepr = .ok exVal := by decide
example : conformsRepr exTy false exRepr = true := by decide

end Ipld.Props.C08
