/-
  The reflection binding itself (`node/bindnode`: `Wrap`, `Unwrap`, the type-level node and assembler of node.go):
  Go types, Go values, what `Wrap` of a Go value exposes through the `Node` interface (`view`) and which Go value
  building a typed value and calling `Unwrap` yields (`assign`).  DESIGN §5 C19.  Core Lean only; total
  computable functions, structural recursion on the VALUE (`GoVal` / `TL`), the types are parameters that change
  along the way (the style of Model/Schema.lean).

  What is modelled is what the CODE does (node.go, infer.go), not an idealisation:

  * `GoTy` is the shape vocabulary of `verifyCompatibility` that the harness generates: bool, every integer kind
    (`int`/`uint` are 64-bit: amd64), float64, string, []byte, the three link forms, `datamodel.Node`, slices,
    pointers, structs (a union is a struct all of whose fields are pointers), the ordered-map struct
    `struct{Keys []string; Values map[string]V}`.  Go field names are identified with schema field names
    (the code maps `foo` to `Foo` by `strings.Title`; the harness generates exactly that).
  * `GoVal`: nil and non-nil slices, pointers and maps are different values; an ordered map is a key list plus an
    association list (a Go map has no order: only lookups by key are ever made on it).  `nilBare` is the nil of a bare
    nilable Go type (slice, []byte, interface) in a slot where nil stands for absent / null; `nilSlice` is the nil
    slice in a slot where it is an empty list.
  * `compatible g t nul`: the Go type bound to schema type `t` in a value slot that is nullable iff `nul`; struct
    fields through `fslot`.  The slot shapes are the ones `verifyCompatibility` accepts AND the node code serves:
      - a nullable slot is a pointer, or a bare nilable Go type (`ptrOrNilable`: slice, []byte, `datamodel.Link`,
        `datamodel.Node`) whose nil is null - as a struct field, a list element or a map value alike; an optional
        field is a pointer to the slot of its value (so optional and nullable is the double pointer), or, if not
        nullable, a bare nilable type whose nil is absent; a union member is a pointer;
      - EVERY value slot may carry ONE pointer more than it needs (`verifyCompatibility` strips one pointer from every
        type it is handed; the node keeps the pointer and reads through `nonPtrVal`, the assembler allocates through
        every level in `createNonPtrVal`): `*T` for a slot that is not nullable (a nil pointer there is not a value of
        the type), `**T` for a nullable one (nil at the outer level is null; a pointer to a nil pointer is not a value
        of the type), hence `***T` for an optional nullable field.  No more than one.
    The REPRESENTATION level (repr.go) is the business of Marshal, not of `view` / `assign`; one corner of it still
    does not dereference the extra pointer (a kinded / stringprefix union member field `**T`:
    `C19/union-member-double-pointer-representation-not-dereferenced` in known_findings.json).
  * `view g t nul gv`: reading the wrapped value through the node API, in full (node.go `_node`, the iterators):
    nil pointer in an optional field ↦ absent, nil pointer in a nullable slot ↦ null (nil of the bare nilable type
    likewise), nil slice ↦ empty list (where the slot is not a nilable one),
    ordered map ↦ the entries in `Keys` order looked up in `Values`, union ↦ the single-entry map keyed by the
    member TYPE name of the first non-nil field, unsigned and narrow ints ↦ their value, an int-represented enum
    held in a Go integer ↦ the name of the first member with that representation int.  `none`: the read fails
    (an error or a panic): a kind mismatch, a key without value, a union without member, an enum int that no
    member has.  Every unsigned value is readable: `newNode` gives the `UintNode` treatment to `reflect.Uint64` and
    `reflect.Uint` (`AsUint`; the plain `AsInt` of such a node refuses values above MaxInt64, the readers and codecs
    ask for `UintNode` first), the narrower unsigned kinds never exceed int64.
  * `assign g t tl`: the Go value behind the node that the type-level builder builds from the typed value `tl`
    (struct entries in any order, unset optional fields left out or explicit - `Schema.conforms` - the built node
    is `Schema.normalize t tl`, C08/C09), `none` if the builder refuses.  Fresh pointers for present optional /
    nullable values (and for a present value behind any extra pointer), nil for absent / null; a list that has been
    begun is a NON-NIL slice in every slot (`BeginList` makes the empty slice), assembled bytes are a non-nil
    `[]byte`; `Keys` is nil unless something was appended, `Values` is always made (`reflect.MakeMap` in `BeginMap`),
    exactly the selected union field is set.  Integers: `AssignInt` / `assignUInt` refuse what does not fit the field
    (`Bind.fits`, C19 `width_guard`); an int-represented enum held in a Go integer stores the member's representation
    int, and refuses one the Go kind cannot hold (`OverflowInt` / `OverflowUint`, negative into unsigned):
    `enumStore`.
  * `GoVal.norm`: the normalisations Unwrap∘build applies to a Go value: nil slice (an empty list) ↦ the non-nil
    empty slice, empty `Keys` ↦ nil, `Values` non-nil and holding exactly the keys listed (in the model: in `Keys`
    order).
  * `wt g t nul gv`: `gv` is a Go value of type `g` and an inhabitant of `t`: integers within their kind,
    enum strings / ints that name a member, exactly one union field set, `Keys` without repetition and in step with
    `Values`, a `Node` holding a non-null value without repeated keys.

  History: until library commits f5ad5bb and 7093040 a Go `uint` above MaxInt64 could not be read and an enum
  representation int was stored without a width check (truncating); the model then carried `IntKind.readable`, a
  `strict` flag of `wt`, and the side conditions `enumsFit` / `noUint` of the theorems.  Until the five bindnode
  repairs of the following round an empty list / empty bytes assembled into a bare nilable slot left it nil (absent /
  null; the model carried `emptyIntoSlice` and the side condition `nilableSlotEmptyList`), a nullable element bound to
  a bare slice could not be read and `**T` could not be built (both outside `compatible` then), and the representation
  node did not dereference the pointer of a plain slot.  All gone with the repairs.
-/
import IpldModel.Model.Schema
import IpldModel.Model.Bind
namespace Ipld
namespace GoBind
open Schema

/-! ## Go types -/

inductive IntKind where
  | i8 | i16 | i32 | i64 | int | u8 | u16 | u32 | u64 | uint
  deriving DecidableEq, Repr, Inhabited

/-- the range of the kind (amd64: `int` = int64, `uint` = uint64) -/
def IntKind.width : IntKind → Bind.Width
  | .i8 => .i8 | .i16 => .i16 | .i32 => .i32 | .i64 => .i64 | .int => .i64
  | .u8 => .u8 | .u16 => .u16 | .u32 => .u32 | .u64 => .u64 | .uint => .u64

inductive LinkForm where
  | iface | cid | cidlink
  deriving DecidableEq, Repr, Inhabited

mutual
inductive GoTy where
  | bool
  | int (k : IntKind)
  | float
  | str
  | bytes
  | link (f : LinkForm)
  | node
  | slice (elem : GoTy)
  | ptr (elem : GoTy)
  | struct (fields : GoFields)      -- also the union struct (every field a pointer)
  | omap (val : GoTy)               -- struct{Keys []string; Values map[string]V}
  deriving DecidableEq, Repr, Inhabited
inductive GoFields where
  | nil
  | cons (name : Bytes) (ty : GoTy) (rest : GoFields)
  deriving DecidableEq, Repr, Inhabited
end

def GoFields.toList : GoFields → List (Bytes × GoTy)
  | .nil => []
  | .cons n g rest => (n, g) :: rest.toList

def GoFields.ofList : List (Bytes × GoTy) → GoFields
  | [] => .nil
  | (n, g) :: r => .cons n g (GoFields.ofList r)

def GoFields.length : GoFields → Nat
  | .nil => 0
  | .cons _ _ rest => rest.length + 1

def GoFields.get? : GoFields → Nat → Option GoTy
  | .nil, _ => none
  | .cons _ g _, 0 => some g
  | .cons _ _ rest, i + 1 => rest.get? i

/-! ## Go values -/

mutual
inductive GoVal where
  | bool (b : Bool)
  | int (i : Int)
  | float (bits : UInt64)
  | str (s : Bytes)
  | bytes (b : Bytes)
  | link (cid : Bytes)
  | node (d : DM)
  | nilSlice
  | slice (xs : GoVals)
  | nilPtr
  | ptr (v : GoVal)
  /-- the nil of a bare nilable Go type (slice, []byte, `datamodel.Link`, `datamodel.Node`) in a slot where nil stands
      for absent / null: an optional struct field, or a nullable field / list element / map value, bound to that type
      without a pointer.  (`.nilSlice` is a nil slice anywhere else: an empty list.) -/
  | nilBare
  | struct (fs : GoVals)
  /-- `keys = none`: `Keys == nil`; `valsNil`: `Values == nil` (then `vals` is empty) -/
  | omap (keys : Option (List Bytes)) (valsNil : Bool) (vals : GoKVs)
  deriving DecidableEq, Repr, Inhabited
inductive GoVals where
  | nil
  | cons (x : GoVal) (xs : GoVals)
  deriving DecidableEq, Repr, Inhabited
inductive GoKVs where
  | nil
  | cons (k : Bytes) (v : GoVal) (es : GoKVs)
  deriving DecidableEq, Repr, Inhabited
end

def GoVals.toList : GoVals → List GoVal
  | .nil => []
  | .cons x xs => x :: xs.toList

def GoVals.ofList : List GoVal → GoVals
  | [] => .nil
  | x :: xs => .cons x (GoVals.ofList xs)

def GoKVs.toList : GoKVs → List (Bytes × GoVal)
  | .nil => []
  | .cons k v es => (k, v) :: es.toList

def GoKVs.ofList : List (Bytes × GoVal) → GoKVs
  | [] => .nil
  | (k, v) :: es => .cons k v (GoKVs.ofList es)

def GoKVs.keys : GoKVs → List Bytes
  | .nil => []
  | .cons k _ es => k :: es.keys

/-- `Values[k]` -/
def GoKVs.lookup : GoKVs → Bytes → Option GoVal
  | .nil, _ => none
  | .cons k v es, q => if k == q then some v else es.lookup q

/-! ## Slots -/

def notPtr : GoTy → Bool
  | .ptr _ => false
  | _ => true

/-- A Go type that is nilable WITHOUT a pointer (`ptrOrNilable`: slice, interface): an optional field, or a nullable
    field / list element / map value, may be bound to it directly, nil (`GoVal.nilBare`) standing for absent / null. -/
def isBare : GoTy → Bool
  | .slice _ => true
  | .bytes => true
  | .link .iface => true
  | .node => true
  | _ => false

/-- How a struct field of Go type `g` carries "optional" (`verifyCompatibility`'s struct case and the struct iterator
    / `LookupByString` / `AssembleValue`):
    `value`   - not optional: `g` is a value slot, nullable iff the field is;
    `optPtr`  - optional behind a pointer `*g1`; `g1` is the value slot, nullable iff the field is (then a pointer
                itself: "optional and nullable fields must use double pointers");
    `optBare` - optional, not nullable, bound to a bare nilable type: nil is absent;
    `bad`     - an optional field that is neither (`verifyCompatibility` panics). -/
inductive FSlot where
  | value | optPtr (g1 : GoTy) | optBare | bad
  deriving DecidableEq, Repr, Inhabited

def ptrElem : GoTy → Option GoTy
  | .ptr g1 => some g1
  | _ => none

def fslot (g : GoTy) (opt nul : Bool) : FSlot :=
  match opt, ptrElem g, nul, isBare g with
  | true, some g1, _, _ => .optPtr g1
  | true, none, false, true => .optBare
  | true, none, _, _ => .bad
  | false, _, _, _ => .value

/-! ## Compatibility -/

mutual
/-- The Go type `g` is bound to schema type `t` in a value slot that is nullable iff `nul` (a list element, a map
    value, a union member behind its pointer, a struct field after `fslot`).  A nullable slot is a pointer, or a bare
    nilable type; and every slot may have ONE pointer more than it needs (`verifyCompatibility` strips one pointer from
    every type it is handed): `*T` where `T` would do, `**T` for nullable. -/
def compatible : GoTy → Ty → Bool → Bool
  | .ptr g, t, nul => (nul || notPtr g) && compatible g t false
  | .bool, t, nul => !nul && (match t with | .bool => true | _ => false)
  | .int _, t, nul => !nul && (match t with | .int => true | .enum _ .int => true | _ => false)
  | .float, t, nul => !nul && (match t with | .float => true | _ => false)
  | .str, t, nul => !nul && (match t with | .str => true | .enum _ _ => true | _ => false)
  | .bytes, t, _ => (match t with | .bytes => true | _ => false)
  | .link f, t, nul => (!nul || f == .iface) && (match t with | .link => true | _ => false)
  | .node, t, _ => (match t with | .any => true | _ => false)
  | .slice ge, t, _ => (match t with | .list et enul => compatible ge et enul | _ => false)
  | .omap gv, t, nul => !nul && (match t with | .map vt vnul => compatible gv vt vnul | _ => false)
  | .struct gfs, t, nul =>
    !nul && (match t with
             | .struct fs _ => compatFields gfs fs.toList
             | .union ms _ => compatMembers gfs ms.toList
             | _ => false)
/-- field by field, in order (`fslot`, spelled out for the structural recursion: `compatFields_cons`) -/
def compatFields : GoFields → List Field → Bool
  | .nil, [] => true
  | .cons n g rest, f :: fs =>
    n == f.name
    && (if f.opt then
          (if isBare g then !f.nullable && compatible g f.ty false
           else match g with
             | .ptr g1 => (!f.nullable || !notPtr g1) && compatible g1 f.ty f.nullable
             | _ => false)
        else compatible g f.ty f.nullable)
    && compatFields rest fs
  | _, _ => false
/-- member by member, in order: each a pointer -/
def compatMembers : GoFields → List Member → Bool
  | .nil, [] => true
  | .cons n g rest, m :: ms =>
    n == m.name && (match g with | .ptr g1 => compatible g1 m.ty false | _ => false) && compatMembers rest ms
  | _, _ => false
end

/-- both present: combine -/
def zipSome {α β γ : Type} (f : α → β → γ) : Option α → Option β → Option γ
  | some a, some b => some (f a b)
  | _, _ => none

/-! ## Wrap: the type-level content of a Go value -/

/-- every key of `Keys`, looked up -/
def lookupAll (tvs : List (Bytes × TL)) : List Bytes → Option (List (Bytes × TL))
  | [] => some []
  | k :: ks =>
    zipSome (fun v r => (k, v) :: r) (tvs.lookup k) (lookupAll tvs ks)

mutual
def view : GoTy → Ty → Bool → GoVal → Option TL
  | g, _, nul, .nilPtr => if nul then (match g with | .ptr _ => some .null | _ => none) else none
  | g, t, _, .ptr v => (match g with | .ptr g1 => view g1 t false v | _ => none)
  | g, _, nul, .nilBare => if nul && isBare g then some .null else none
  | g, t, nul, .bool b => if nul then none else match g, t with
    | .bool, .bool => some (.bool b)
    | _, _ => none
  | g, t, nul, .int i => if nul then none else match g, t with
    | .int _, .int => some (.int i)
    | .int _, .enum ms .int => (ms.find? (fun m => m.rint == i)).map fun m => .str m.name
    | _, _ => none
  | g, t, nul, .float f => if nul then none else match g, t with
    | .float, .float => some (.float f)
    | _, _ => none
  | g, t, nul, .str s => if nul then none else match g, t with
    | .str, .str => some (.str s)
    | .str, .enum _ _ => some (.str s)
    | _, _ => none
  | g, t, nul, .bytes b => if nul && !isBare g then none else match g, t with
    | .bytes, .bytes => some (.bytes b)
    | _, _ => none
  | g, t, nul, .link c => if nul && !isBare g then none else match g, t with
    | .link _, .link => some (.link c)
    | _, _ => none
  | g, t, nul, .node d => if nul && !isBare g then none else match g, t with
    | .node, .any => some (TL.ofDM d)
    | _, _ => none
  | g, t, nul, .nilSlice => if nul then none else match g, t with
    | .slice _, .list _ _ => some (.list .nil)
    | _, _ => none
  | g, t, nul, .slice xs => if nul && !isBare g then none else match g, t with
    | .slice ge, .list et enul => (viewList ge et enul xs).map .list
    | _, _ => none
  | g, t, nul, .struct vs => if nul then none else match g, t with
    | .struct gfs, .struct fs _ => (viewFields gfs fs.toList vs).map .map
    | .struct gfs, .union ms _ => viewUnion gfs ms.toList vs
    | _, _ => none
  | g, t, nul, .omap keys _ vals => if nul then none else match g, t with
    | .omap gv, .map vt vnul =>
      match viewKVs gv vt vnul vals with
      | some tvs => (lookupAll tvs (keys.getD [])).map fun es => .map (TLKVs.ofList es)
      | none => none
    | _, _ => none
def viewList (g : GoTy) (t : Ty) (nul : Bool) : GoVals → Option TLs
  | .nil => some .nil
  | .cons x xs => zipSome TLs.cons (view g t nul x) (viewList g t nul xs)
/-- every value of `Values`, read -/
def viewKVs (g : GoTy) (t : Ty) (nul : Bool) : GoKVs → Option (List (Bytes × TL))
  | .nil => some []
  | .cons k x es => zipSome (fun a r => (k, a) :: r) (view g t nul x) (viewKVs g t nul es)
/-- the struct iterator: every field in declaration order -/
def viewFields : GoFields → List Field → GoVals → Option TLKVs
  | .nil, [], .nil => some .nil
  | .cons _ g gfs, f :: fs, .cons .nilPtr xs =>
    zipSome (TLKVs.cons f.name)
      (match fslot g f.opt f.nullable with
       | .value => view g f.ty f.nullable .nilPtr
       | .optPtr _ => some TL.absent
       | .optBare => view g f.ty false .nilPtr
       | .bad => none)
      (viewFields gfs fs xs)
  | .cons _ g gfs, f :: fs, .cons (.ptr v) xs =>
    zipSome (TLKVs.cons f.name)
      (match fslot g f.opt f.nullable with
       | .value => view g f.ty f.nullable (.ptr v)
       | .optPtr g1 => view g1 f.ty f.nullable v
       | .optBare => view g f.ty false (.ptr v)
       | .bad => none)
      (viewFields gfs fs xs)
  | .cons _ g gfs, f :: fs, .cons x xs =>
    zipSome (TLKVs.cons f.name)
      (match fslot g f.opt f.nullable with
       | .value => view g f.ty f.nullable x
       | .optPtr _ => none
       | .optBare => if x = .nilBare then some TL.absent else view g f.ty false x
       | .bad => none)
      (viewFields gfs fs xs)
  | _, _, _ => none
/-- `unionMember`: the first non-nil field -/
def viewUnion : GoFields → List Member → GoVals → Option TL
  | .cons _ g gfs, m :: ms, .cons x xs =>
    match x with
    | .nilPtr => viewUnion gfs ms xs
    | .ptr v =>
      match g with
      | .ptr g1 => (view g1 m.ty false v).map fun a => .map (.cons m.name a .nil)
      | _ => none
    | _ => none
  | _, _, _ => none
end

/-! ## build + Unwrap -/

/-- the type behind the pointers of a value slot (one, or two with the extra one); a nullable slot without pointer is a
    bare nilable type -/
def unptr (nul : Bool) (g : GoTy) : Option GoTy :=
  match g with
  | .ptr g1 =>
    (match g1 with
     | .ptr b => some b
     | b => some b)
  | b => if nul && !isBare b then none else some b

/-- fresh pointers where the slot has them (`createNonPtrVal` allocates through every level) -/
def wrapFor (g : GoTy) (v : GoVal) : GoVal :=
  match g with
  | .ptr g1 =>
    (match g1 with
     | .ptr _ => .ptr (.ptr v)
     | _ => .ptr v)
  | _ => v

/-- the union struct with field `i` of `n` set -/
def nilPtrs : Nat → GoVals
  | 0 => .nil
  | n + 1 => .cons .nilPtr (nilPtrs n)

def unionVals : Nat → Nat → GoVal → GoVals
  | 0, _, _ => .nil
  | n + 1, 0, v => .cons (.ptr v) (nilPtrs n)
  | n + 1, i + 1, v => .cons .nilPtr (unionVals n i v)

/-- storing an enum member's representation int into the Go integer holding the enum: refused unless the kind can
    hold it (`AssignString`: `OverflowInt` / `OverflowUint`, a negative value into an unsigned field) -/
def enumStore (k : IntKind) (rint : Int) : Option Int :=
  if Bind.fits k.width rint then some rint else none

/-- `Keys` after assembling the entries: nil unless something was appended -/
def keysOf (es : TLKVs) : Option (List Bytes) :=
  match es with
  | .nil => none
  | .cons _ _ _ => some (es.toList.map fun e => e.1)

mutual
/-- The Go value behind the built node that reads as the canonical typed value (`Schema.normalize`d). -/
def assignC (g : GoTy) (t : Ty) (nul : Bool) : TL → Option GoVal
  | .absent => none
  | .null => if nul then (match g with | .ptr _ => some .nilPtr | b => if isBare b then some .nilBare else none) else none
  | .bool b => Option.map (wrapFor g) (match unptr nul g, t with
    | some .bool, .bool => some (.bool b)
    | some .node, .any => some (.node (.bool b))
    | _, _ => none)
  | .int i => Option.map (wrapFor g) (match unptr nul g, t with
    | some (.int k), .int => if Bind.fits k.width i then some (.int i) else none
    | some .node, .any => some (.node (.int i))
    | _, _ => none)
  | .float f => Option.map (wrapFor g) (match unptr nul g, t with
    | some .float, .float => some (.float f)
    | some .node, .any => some (.node (.float f))
    | _, _ => none)
  | .str s => Option.map (wrapFor g) (match unptr nul g, t with
    | some .str, .str => some (.str s)
    | some .str, .enum ms _ => if ms.any (fun m => m.name == s) then some (.str s) else none
    | some (.int k), .enum ms .int =>
      match ms.find? (fun m => m.name == s) with
      | some m => (enumStore k m.rint).map GoVal.int
      | none => none
    | some .node, .any => some (.node (.str s))
    | _, _ => none)
  | .bytes b => Option.map (wrapFor g) (match unptr nul g, t with
    | some .bytes, .bytes => some (.bytes b)
    | some .node, .any => some (.node (.bytes b))
    | _, _ => none)
  | .link c => Option.map (wrapFor g) (match unptr nul g, t with
    | some (.link _), .link => some (.link c)
    | some .node, .any => some (.node (.link c))
    | _, _ => none)
  | .list xs => Option.map (wrapFor g) (match unptr nul g, t with
    | some (.slice ge), .list et enul => (assignList ge et enul xs).map GoVal.slice
    | some .node, .any => (TL.toDM? (.list xs)).map GoVal.node
    | _, _ => none)
  | .map es => Option.map (wrapFor g) (match unptr nul g, t with
    | some (.omap gv), .map vt vnul => (assignKVs gv vt vnul es).map (GoVal.omap (keysOf es) false)
    | some (.struct gfs), .struct fs _ => (assignFields gfs fs.toList es).map GoVal.struct
    | some (.struct gfs), .union ms _ =>
      match es with
      | .cons k v .nil =>
        match findIdx (fun m => m.name == k) ms.toList with
        | some (i, m) =>
          match gfs.get? i with
          | some (.ptr g1) => (assignC g1 m.ty false v).map fun gv => .struct (unionVals gfs.length i gv)
          | _ => none
        | none => none
      | _ => none
    | some .node, .any => (TL.toDM? (.map es)).map GoVal.node
    | _, _ => none)
def assignList (g : GoTy) (t : Ty) (nul : Bool) : TLs → Option GoVals
  | .nil => some .nil
  | .cons x xs => zipSome GoVals.cons (assignC g t nul x) (assignList g t nul xs)
def assignKVs (g : GoTy) (t : Ty) (nul : Bool) : TLKVs → Option GoKVs
  | .nil => some .nil
  | .cons k x es => zipSome (GoKVs.cons k) (assignC g t nul x) (assignKVs g t nul es)
/-- the canonical struct value lists every field in declaration order -/
def assignFields : GoFields → List Field → TLKVs → Option GoVals
  | .nil, [], .nil => some .nil
  | .cons _ g gfs, f :: fs, .cons k v es =>
    if k != f.name then none else
    zipSome GoVals.cons
      (match fslot g f.opt f.nullable with
       | .value => assignC g f.ty f.nullable v
       | .optPtr g1 => if v = .absent then some GoVal.nilPtr else (assignC g1 f.ty f.nullable v).map GoVal.ptr
       | .optBare => if v = .absent then some GoVal.nilBare else assignC g f.ty false v
       | .bad => none)
      (assignFields gfs fs es)
  | _, _, _ => none
end

/-- `Unwrap(build(tl))`: the type-level builder accepts exactly the conforming trees (C09) and builds the normal
    form (C08); the Go value is that of the normal form. -/
def assign (g : GoTy) (t : Ty) (tl : TL) : Option GoVal :=
  if conforms t false tl then assignC g t false (normalize t tl) else none

/-! ## What Unwrap∘build normalises -/

mutual
def GoVal.norm : GoVal → GoVal
  | .nilSlice => .slice .nil
  | .slice xs => .slice xs.norm
  | .ptr v => .ptr v.norm
  | .struct vs => .struct vs.norm
  | .omap keys _ vals =>
    let ks := keys.getD []
    let nv := vals.norm
    .omap (if ks.isEmpty then none else some ks) false
      (GoKVs.ofList (ks.filterMap fun k => (nv.lookup k).map fun v => (k, v)))
  | v => v
def GoVals.norm : GoVals → GoVals
  | .nil => .nil
  | .cons x xs => .cons x.norm xs.norm
def GoKVs.norm : GoKVs → GoKVs
  | .nil => .nil
  | .cons k v es => .cons k v.norm es.norm
end

/-! ## Well-typed inhabitants -/

/-- the remaining fields of a union struct: nil pointers -/
def allNil : GoFields → List Member → GoVals → Bool
  | .nil, [], .nil => true
  | .cons _ g gfs, _ :: ms, .cons x xs =>
    (match g with | .ptr _ => true | _ => false) && (match x with | .nilPtr => true | _ => false) && allNil gfs ms xs
  | _, _, _ => false

mutual
def wt : GoTy → Ty → Bool → GoVal → Bool
  | g, _, nul, .nilPtr => nul && (match g with | .ptr _ => true | _ => false)
  | g, t, _, .ptr v => (match g with | .ptr g1 => wt g1 t false v | _ => false)
  | g, _, nul, .nilBare => nul && isBare g
  | g, t, nul, .bool _ => !nul && (match g, t with | .bool, .bool => true | _, _ => false)
  | g, t, nul, .int i => !nul && (match g, t with
    | .int k, .int => Bind.fits k.width i
    | .int k, .enum ms .int => Bind.fits k.width i && ms.any (fun m => m.rint == i)
    | _, _ => false)
  | g, t, nul, .float _ => !nul && (match g, t with | .float, .float => true | _, _ => false)
  | g, t, nul, .str s => !nul && (match g, t with
    | .str, .str => true
    | .str, .enum ms _ => ms.any (fun m => m.name == s)
    | _, _ => false)
  | g, t, nul, .bytes _ => (!nul || isBare g) && (match g, t with | .bytes, .bytes => true | _, _ => false)
  | g, t, nul, .link _ => (!nul || isBare g) && (match g, t with | .link _, .link => true | _, _ => false)
  | g, t, nul, .node d => (!nul || isBare g) && (match g, t with
    | .node, .any => conforms .any false (TL.ofDM d)
    | _, _ => false)
  | g, t, nul, .nilSlice => !nul && (match g, t with | .slice _, .list _ _ => true | _, _ => false)
  | g, t, nul, .slice xs => (!nul || isBare g) && (match g, t with
    | .slice ge, .list et enul => wtList ge et enul xs
    | _, _ => false)
  | g, t, nul, .struct vs => !nul && (match g, t with
    | .struct gfs, .struct fs _ => wtFields gfs fs.toList vs
    | .struct gfs, .union ms _ => wtUnion gfs ms.toList vs
    | _, _ => false)
  | g, t, nul, .omap keys vnil vals => !nul && (match g, t with
    | .omap gv, .map vt vnul =>
      nodupBytes (keys.getD []) && nodupBytes vals.keys
      && (keys.getD []).all (fun k => vals.keys.contains k) && vals.keys.all (fun k => (keys.getD []).contains k)
      && (!vnil || vals.keys.isEmpty)
      && wtKVs gv vt vnul vals
    | _, _ => false)
def wtList (g : GoTy) (t : Ty) (nul : Bool) : GoVals → Bool
  | .nil => true
  | .cons x xs => wt g t nul x && wtList g t nul xs
def wtKVs (g : GoTy) (t : Ty) (nul : Bool) : GoKVs → Bool
  | .nil => true
  | .cons _ x es => wt g t nul x && wtKVs g t nul es
def wtFields : GoFields → List Field → GoVals → Bool
  | .nil, [], .nil => true
  | .cons _ g gfs, f :: fs, .cons .nilPtr xs =>
    (match fslot g f.opt f.nullable with
     | .value => wt g f.ty f.nullable .nilPtr
     | .optPtr _ => true
     | .optBare => wt g f.ty false .nilPtr
     | .bad => false)
    && wtFields gfs fs xs
  | .cons _ g gfs, f :: fs, .cons (.ptr v) xs =>
    (match fslot g f.opt f.nullable with
     | .value => wt g f.ty f.nullable (.ptr v)
     | .optPtr g1 => wt g1 f.ty f.nullable v
     | .optBare => wt g f.ty false (.ptr v)
     | .bad => false)
    && wtFields gfs fs xs
  | .cons _ g gfs, f :: fs, .cons x xs =>
    (match fslot g f.opt f.nullable with
     | .value => wt g f.ty f.nullable x
     | .optPtr _ => false
     | .optBare => x = .nilBare || (decide (x ≠ .nilSlice) && wt g f.ty false x)
     | .bad => false)
    && wtFields gfs fs xs
  | _, _, _ => false
/-- exactly one field set -/
def wtUnion : GoFields → List Member → GoVals → Bool
  | .cons _ g gfs, m :: ms, .cons x xs =>
    match x with
    | .nilPtr => (match g with | .ptr _ => true | _ => false) && wtUnion gfs ms xs
    | .ptr v => (match g with | .ptr g1 => wt g1 m.ty false v | _ => false) && allNil gfs ms xs
    | _ => false
  | _, _, _ => false
end

/-! ## Side condition of `assign_refuses_iff` -/

mutual
/-- every integer of the canonical typed value fits the Go kind it is bound to (`AssignInt` / `assignUInt` accept),
    and every int-represented enum member's representation int fits the Go integer holding it -/
def intsFit (g : GoTy) (t : Ty) (nul : Bool) : TL → Bool
  | .int i => (match unptr nul g, t with
    | some (.int k), .int => Bind.fits k.width i
    | _, _ => true)
  | .str s => (match unptr nul g, t with
    | some (.int k), .enum ms .int =>
      (match ms.find? (fun m => m.name == s) with
       | some m => Bind.fits k.width m.rint
       | none => true)
    | _, _ => true)
  | .list xs => (match unptr nul g, t with
    | some (.slice ge), .list et enul => intsFitList ge et enul xs
    | _, _ => true)
  | .map es => (match unptr nul g, t with
    | some (.omap gv), .map vt vnul => intsFitKVs gv vt vnul es
    | some (.struct gfs), .struct fs _ => intsFitFields gfs fs.toList es
    | some (.struct gfs), .union ms _ =>
      (match es with
       | .cons k v .nil =>
         (match findIdx (fun m => m.name == k) ms.toList with
          | some (i, m) =>
            (match gfs.get? i with
             | some (.ptr g1) => intsFit g1 m.ty false v
             | _ => true)
          | none => true)
       | _ => true)
    | _, _ => true)
  | _ => true
def intsFitList (g : GoTy) (t : Ty) (nul : Bool) : TLs → Bool
  | .nil => true
  | .cons x xs => intsFit g t nul x && intsFitList g t nul xs
def intsFitKVs (g : GoTy) (t : Ty) (nul : Bool) : TLKVs → Bool
  | .nil => true
  | .cons _ x es => intsFit g t nul x && intsFitKVs g t nul es
def intsFitFields : GoFields → List Field → TLKVs → Bool
  | .cons _ g gfs, f :: fs, .cons _ v es =>
    (match fslot g f.opt f.nullable with
     | .value => intsFit g f.ty f.nullable v
     | .optPtr g1 => intsFit g1 f.ty f.nullable v
     | .optBare => intsFit g f.ty false v
     | .bad => true) && intsFitFields gfs fs es
  | _, _, _ => true
end

end GoBind
end Ipld
