package checks

import (
	"bytes"
	"fmt"
	"strings"

	"github.com/ipld/go-ipld-prime/codec/dagcbor"
	"github.com/ipld/go-ipld-prime/codec/dagjson"
	"github.com/ipld/go-ipld-prime/datamodel"
	"github.com/ipld/go-ipld-prime/node/bindnode"
	"github.com/ipld/go-ipld-prime/schema"

	"verif/internal/core"
)

// C09 — typed builders accept exactly the data that conforms to the schema.
//
//   impl observation : conforming values and every local mutation of them (dropped / duplicated / renamed / retyped /
//                      reordered / nulled fields and entries, wrong discriminants, extra tuple elements, bad enum
//                      members, …) are fed WHOLE into the typed builder - at type level and at representation
//                      level - over four routes: assembler calls with the canonical plan, assembler calls with a
//                      random plan (entry shortcut / key+value / AssignNode of prebuilt nodes / any size hint),
//                      dag-cbor bytes and dag-json text written by the harness (order and repeated keys kept, so
//                      duplicates reach the assembler).  Observed: `accepted <type-level view>` | `rejected` | `panic`.
//   (D) correspondence: == the Lean model with the engine instance that mirrors the real engine
//                      (`schema.oftype bindnode` / `schema.ofrepr bindnode`)
//   (O) oracle        : == the model's `ideal` engine, i.e. accepted iff conforming (`schema.conforms` /
//                      `schema.conformsrepr`, stated independently of the builders) and the node built is the input;
//                      for unmutated inputs the expected node is the generated inhabitant itself (no model involved).
//   Every deviation of the real engine from `ideal` is attributed to the engine flags whose removal changes the
//   model's answer (`schema.quirks`) and reported under one signature per flag; a panic is always a failure.

func init() {
	core.Register(&core.Check{ID: "C09", Run: runC09, Replay: replayC09})
}

var quirkSignature = map[string]string{
	"dupStructField":     "C09/bindnode-repeated-struct-field-accepted",
	"reuseSlot":          "C09/bindnode-repeated-field-assembled-into-old-value",
	"dupMapKey":          "C09/bindnode-repeated-map-key-accepted",
	"unionMulti":         "C09/bindnode-union-several-members-accepted",
	"renameFallback":     "C09/bindnode-renamed-field-accepted-under-original-name",
	"discFallback":       "C09/bindnode-keyed-union-member-accepted-under-type-name",
	"enumTypeAnyString":  "C09/bindnode-enum-type-level-accepts-any-string",
	"enumNameAtRepr":     "C09/bindnode-enum-renamed-member-accepted-under-its-name",
	"nullableUnionPanic": "C09/panic-nullable-kinded-or-stringprefix-union",
	"lpShortPair":        "C09/bindnode-listpairs-short-entry-ignored",
	"lpUnknownKeyPanic":  "C09/panic-listpairs-unknown-field",
}

type c09Case struct {
	sc      *schemaCase
	lvl     string   // type | repr
	input   core.Val // data-model tree
	mut     string   // mutation kind, "none" for a conforming generated value
	expect  string   // for mut == none: the canonical typed value (term)
	trigger []string // C08 triggers of the generated value (for mut == none)
}

func (cs c09Case) line() string {
	return "schema.of" + cs.lvl + " " + cs.sc.Eng.ModelName() + " " + cs.sc.Ty + " VAL " + cs.input.Term()
}

func c09Batch(c *core.Ctx, cases []c09Case, r *core.Rand, report func(string, core.Replay), stats bool) error {
	lines := make([]string, 0, 5*len(cases))
	for _, cs := range cases {
		lines = append(lines, cs.line())
		lines = append(lines, "schema.of"+cs.lvl+" ideal "+cs.sc.Ty+" VAL "+cs.input.Term())
		if cs.lvl == "type" {
			lines = append(lines, "schema.conforms "+cs.sc.Ty+" VAL "+cs.input.Term())
		} else {
			lines = append(lines, "schema.conformsrepr "+cs.sc.Ty+" VAL "+cs.input.Term())
		}
		lines = append(lines, "schema.quirks "+cs.lvl+" "+cs.sc.Ty+" VAL "+cs.input.Term())
		if cs.lvl == "type" {
			lines = append(lines, "schema.normalize "+cs.sc.Ty+" VAL "+cs.input.Term())
		} else {
			lines = append(lines, "schema.wf "+cs.sc.Ty)
		}
	}
	outs, err := core.RunDriver(lines)
	if err != nil {
		return err
	}
	for i, cs := range cases {
		mEng, mIdeal, mConf, mQuirks, mNorm := modelObs(outs[5*i]), modelObs(outs[5*i+1]), outs[5*i+2], outs[5*i+3], outs[5*i+4]
		if strings.HasPrefix(outs[5*i], "bad-") || strings.HasPrefix(outs[5*i+2], "bad-") {
			return fmt.Errorf("driver refused case %q: %s", cs.line(), outs[5*i])
		}
		// impl: all routes
		obs := map[string]string{}
		detail := map[string]string{}
		var routeList []string
		dups := hasRepeatedKey(cs.input)
		for _, route := range schemaRoutes {
			o := feed(cs.sc, cs.lvl, route, cs.input, r.Fork())
			if o.Outcome == "unfed" {
				continue
			}
			if route == "cbor" && dups {
				// the dag-cbor decoder itself refuses a repeated map key (strictness of C03): such an input never
				// reaches the assembler over this route, whatever the engine
				if stats {
					c.Dist("cbor-route:repeated-key-refused-by-codec")
				}
				if o.Outcome == "accepted" { // (it may also stop earlier, for the engine's own reasons)
					report("C09/cbor-route-passed-repeated-key", core.Replay{Kind: "oracle", Case: cs.line(), Impl: o.typeObs(), Expected: "rejected by the decoder"})
				}
				continue
			}
			obs[route] = o.typeObs()
			detail[route] = o.Detail
			routeList = append(routeList, route)
		}
		impl := obs["direct"]
		if stats {
			c.Count(cs.line(), cs.mut != "none" || cs.input.Size() >= 3)
			c.Trace(len(routeList))
			c.Dist("level:" + cs.lvl)
			c.Dist("mutation:" + cs.mut)
			c.Dist("impl:" + strings.Fields(impl)[0])
			c.Dist("ideal:" + strings.Fields(mIdeal)[0])
			distStrategies(c, cs.sc.T)
		}
		if i < 3 && stats {
			c.Sample(map[string]string{"case": cs.line(), "mutation": cs.mut, "impl": impl, "model": mEng, "ideal": mIdeal})
		}
		allObs := func() string {
			var sb strings.Builder
			for _, rt := range routeList {
				fmt.Fprintf(&sb, "%s=%s ", rt, obs[rt])
			}
			return sb.String()
		}
		rp := func(kind, expected, det string) core.Replay {
			return core.Replay{Kind: kind, Case: cs.line(), Impl: allObs(), Model: "engine=" + mEng + " ideal=" + mIdeal + " conforms=" + mConf + " quirks=" + mQuirks,
				Expected: expected, Detail: "mutation=" + cs.mut + " " + det}
		}

		// the two statements of the ideal inside the model agree (else the model is wrong)
		if (strings.HasPrefix(mIdeal, "accepted ")) != (mConf == "true") {
			report("C09/model-ideal-vs-conforms", rp("correspondence", "ideal builder accepts iff conforms", "the model's ideal builder and its conformance predicate disagree"))
			continue
		}
		// "the node built equals the input", stated without the builder: the canonical value of the input tree
		if cs.lvl == "type" && mConf == "true" && mIdeal != "accepted "+mNorm {
			report("C09/model-ideal-vs-normalize", rp("correspondence", "accepted "+mNorm, "the model's ideal builder does not build the canonical value of a conforming input"))
			continue
		}
		// unmutated: the generator, too, says it conforms, and which node it is
		if cs.mut == "none" && mIdeal != "accepted "+cs.expect {
			report("C09/model-rejects-generated-inhabitant", rp("correspondence", "accepted "+cs.expect, "the ideal builder does not build the generated inhabitant from its own input"))
			continue
		}

		// routes agree with each other
		routesAgree := true
		for _, rt := range routeList {
			if obs[rt] != impl {
				routesAgree = false
			}
		}
		if !routesAgree {
			report("C09/routes-disagree", rp("oracle", "one observation over all routes", "the routes (assembler plans, codecs) disagree on the same input"))
		}

		// (D)
		corrOK := true
		for _, rt := range routeList {
			if obs[rt] != mEng {
				corrOK = false
				report("C09/corr-"+cs.lvl+"-builder", rp("correspondence", mEng, "route "+rt+": "+detail[rt]))
				break
			}
		}

		// (O)
		if cs.mut == "none" {
			// independent of the model: a generated inhabitant is accepted and is what is built
			if impl != "accepted "+cs.expect {
				sig := "C09/conforming-input-not-built"
				if strings.HasPrefix(impl, "panic") {
					sig = "C09/panic"
				}
				if corrOK && mQuirks != "-" {
					for _, q := range strings.Split(mQuirks, ",") {
						if s, ok := quirkSignature[q]; ok {
							report(s, rp("oracle", "accepted "+cs.expect, "conforming input; "+detail["direct"]))
						}
					}
					continue
				}
				report(sig, rp("oracle", "accepted "+cs.expect, "conforming input; "+detail["direct"]))
			}
			continue
		}
		for _, rt := range routeList {
			if obs[rt] == mIdeal || obs[rt] != mEng {
				continue // agrees with the ideal, or already reported as a broken correspondence
			}
			// a deviation from the ideal builder
			attributed := false
			if mQuirks != "-" {
				for _, q := range strings.Split(mQuirks, ",") {
					if s, ok := quirkSignature[q]; ok {
						attributed = true
						report(s, rp("oracle", mIdeal, "route "+rt+": "+detail[rt]))
					}
				}
			}
			if !attributed {
				sig := "C09/deviation-unattributed"
				if strings.HasPrefix(obs[rt], "panic") {
					sig = "C09/panic"
				}
				report(sig, rp("oracle", mIdeal, "route "+rt+": "+detail[rt]))
			}
			break
		}
	}
	return nil
}

func runC09(c *core.Ctx) error {
	c.Rule = "case = (random type system as in C08) x (level: type | representation) x (a generated inhabitant's input, or one local mutation of it: see distribution `mutation:*`) x (4 routes); non-trivial = mutated, or an input of >= 3 nodes; distinct by (type, level, input)"
	c.Explanation = "model: lean/IpldModel/Model/Schema.lean (build with Engine.ideal / Engine.bindnode, conforms, conformsRepr); theorems Props/C09.lean: ofType_eq, ofRepr_isOk_eq, ideal_never_panics, built_conforms, accepted_by_every_engine; typed maps keyed by an enum are checked against the generator's statement of conformance (oracle only: the model's maps have string keys)"
	c.Assumptions = []string{
		"engine: reflection binding with inferred and with caller-supplied Go types (generated code: C13)",
		"ints within int64 (width handling is C19), finite non-integral floats, UTF-8 strings, no map key \"/\"",
		"`any` does not contain null at its top unless the slot is nullable (the builder refuses it; taken as the type's meaning)",
	}
	if err := replayWitnesses(c, func(w string, report func(string, core.Replay)) error {
		f := strings.Fields(w)
		if len(f) < 3 || (f[0] != "schema.oftype" && f[0] != "schema.ofrepr") {
			return fmt.Errorf("bad witness")
		}
		sc, v, err := parseSchemaCase(w, 2)
		if err != nil {
			return err
		}
		return c09Batch(c, []c09Case{{sc: sc, lvl: strings.TrimPrefix(f[0], "schema.of"), input: v, mut: "witness"}}, c.Rand, report, false)
	}); err != nil {
		return err
	}
	c09EnumKeys(c, c.Rand.Fork(), c.Pick(150, 20000), "C09")
	nSchemas := c.Pick(5000, 250000)
	cfg := core.DefaultSchemaCfg
	var batch []c09Case
	flush := func() error {
		if len(batch) == 0 {
			return nil
		}
		err := c09Batch(c, batch, c.Rand, c.Fail, true)
		batch = batch[:0]
		return err
	}
	for s := 0; s < nSchemas; s++ {
		sc, err := genSchemaCase(c.Rand, cfg)
		if err != nil {
			c.Fail("C09/schema-not-bindable", core.Replay{Kind: "oracle", Case: "", Detail: err.Error()})
			continue
		}
		for k := 0; k < 3; k++ {
			tv := core.GenInhabitant(sc.T, c.Rand, cfg, false)
			trig := triggerList(sc.T, tv)
			for _, lvl := range []string{"type", "repr"} {
				var input core.Val
				if lvl == "type" {
					input = core.TypeInput(tv)
				} else {
					rv, ok := core.ReprOf(sc.T, tv)
					if !ok {
						continue
					}
					input = rv
				}
				if k == 0 {
					batch = append(batch, c09Case{sc: sc, lvl: lvl, input: input, mut: "none", expect: tv.Term(), trigger: trig})
				}
				for m := 0; m < 3; m++ {
					var mu core.Mutant
					var ok bool
					if c.Rand.Chance(1, 6) {
						mu, ok = core.MutateTwice(sc.T, lvl, input, c.Rand, cfg)
					} else {
						mu, ok = core.MutateInput(sc.T, lvl, input, c.Rand, cfg)
					}
					if !ok {
						continue
					}
					batch = append(batch, c09Case{sc: sc, lvl: lvl, input: mu.V, mut: mu.Kind})
				}
			}
		}
		if len(batch) >= 4000 {
			if err := flush(); err != nil {
				return err
			}
		}
	}
	if err := flush(); err != nil {
		return err
	}
	return nil
}

func replayC09(c *core.Ctx, rp core.Replay) error {
	f := strings.Fields(rp.Case)
	if len(f) < 3 || (f[0] != "schema.oftype" && f[0] != "schema.ofrepr") {
		return fmt.Errorf("bad case")
	}
	sc, v, err := parseSchemaCase(rp.Case, 2)
	if err != nil {
		return err
	}
	lvl := strings.TrimPrefix(f[0], "schema.of")
	mut := "replay"
	if i := strings.Index(rp.Detail, "mutation="); i >= 0 {
		mut = strings.Fields(rp.Detail[i+9:])[0]
	}
	cs := c09Case{sc: sc, lvl: lvl, input: v, mut: mut}
	if mut == "none" {
		cs.expect = strings.TrimPrefix(rp.Expected, "accepted ")
	}
	return c09Batch(c, []c09Case{cs}, c.Rand, c.Fail, false)
}

func hasRepeatedKey(v core.Val) bool {
	seen := map[string]bool{}
	for _, e := range v.M {
		if seen[string(e.K)] || hasRepeatedKey(e.V) {
			return true
		}
		seen[string(e.K)] = true
	}
	for _, x := range v.L {
		if hasRepeatedKey(x) {
			return true
		}
	}
	return false
}

// c09EnumKeys: typed maps whose KEY type is a string-represented enum (keys are not plain strings: at type level a key
// is a member name, at representation level the member's representation string).  Every way of supplying the key
// (AssembleEntry, key assembler, AssignNode of a whole map, dag-json, dag-cbor) must accept exactly the valid keys of
// the level; accepted maps read back with the keys of the level asked for.
func c09EnumKeys(c *core.Ctx, r *core.Rand, n int, pfx string) {
	names := []string{"Yes", "No", "Maybe", "a", "b", "Red"}
	reprs := []string{"y", "n", "m", "A", "B", "r", "Yes", "a"}
	for i := 0; i < n; i++ {
		k := 2 + r.Intn(3)
		perm := r.Perm(len(names))
		var members []string
		ren := schema.EnumRepresentation_String{}
		rp := r.Perm(len(reprs))
		for j := 0; j < k; j++ {
			m := names[perm[j]]
			members = append(members, m)
			if r.Bool() {
				ren[m] = reprs[rp[j]]
			}
		}
		// a representation string must not be ambiguous: no two members with the same representation
		seen := map[string]bool{}
		ok := true
		reprOf := map[string]string{}
		for _, m := range members {
			rs := m
			if x, has := ren[m]; has {
				rs = x
			}
			if seen[rs] {
				ok = false
			}
			seen[rs] = true
			reprOf[m] = rs
		}
		if !ok {
			continue
		}
		ts, errs := schema.SpawnTypeSystem(schema.SpawnString("String"), schema.SpawnInt("Int"),
			schema.SpawnEnum("E", members, ren), schema.SpawnMap("M", "E", "Int", false))
		if errs != nil {
			continue
		}
		tp := bindnode.Prototype(nil, ts.TypeByName("M"))
		for _, lvl := range []string{"type", "repr"} {
			valid := map[string]string{} // key text at this level → member
			for _, m := range members {
				if lvl == "type" {
					valid[m] = m
				} else {
					valid[reprOf[m]] = m
				}
			}
			cands := append(append([]string{}, names...), reprs...)
			cands = append(cands, "zz", "")
			key := cands[r.Intn(len(cands))]
			second := ""
			for v := range valid {
				if v != key {
					second = v
				}
			}
			input := core.Map(core.KV{K: []byte(key), V: core.Int(1)})
			if second != "" && r.Bool() {
				input.M = append(input.M, core.KV{K: []byte(second), V: core.Int(2)})
			}
			_, want := valid[key]
			for _, route := range []string{"entry", "keyasm", "node", "json", "cbor"} {
				caseID := fmt.Sprintf("c09.enumkeys %s %s members=%v renames=%v INPUT %s", lvl, route, members, ren, input.Term())
				var np datamodel.NodePrototype = tp
				if lvl == "repr" {
					np = tp.Representation()
				}
				var built datamodel.Node
				err, panicked, pv := core.Catch(func() error {
					nb := np.NewBuilder()
					switch route {
					case "entry":
						if err := core.Assemble(nb, input, nil); err != nil {
							return err
						}
					case "keyasm":
						ma, err := nb.BeginMap(int64(len(input.M)))
						if err != nil {
							return err
						}
						for _, e := range input.M {
							if err := ma.AssembleKey().AssignString(string(e.K)); err != nil {
								return err
							}
							if err := core.Assemble(ma.AssembleValue(), e.V, nil); err != nil {
								return err
							}
						}
						if err := ma.Finish(); err != nil {
							return err
						}
					case "node":
						bn, err := core.BuildBasic(input, nil)
						if err != nil {
							return err
						}
						if err := nb.AssignNode(bn); err != nil {
							return err
						}
					case "json":
						var sb strings.Builder
						if !core.RawJSON(&sb, input) {
							return nil
						}
						if err := dagjson.Decode(nb, strings.NewReader(sb.String())); err != nil {
							return err
						}
					case "cbor":
						if err := dagcbor.Decode(nb, bytes.NewReader(core.RawCBOR(nil, input))); err != nil {
							return err
						}
					}
					built = nb.Build()
					return nil
				})
				c.Count(caseID, true)
				c.Dist("enum-keyed-map:" + lvl + ":" + route)
				if panicked {
					c.Fail(pfx+"/panic", core.Replay{Kind: "oracle", Case: caseID, Impl: fmt.Sprint(pv)})
					continue
				}
				got := err == nil
				if got != want {
					c.Fail(pfx+"/enum-keyed-map-acceptance", core.Replay{Kind: "oracle", Case: caseID, Impl: fmt.Sprintf("accepted=%v (%v)", got, err), Expected: fmt.Sprintf("accepted=%v", want),
						Detail: "a typed map keyed by an enum accepts exactly the members' names (type level) / representation strings (representation level)"})
					continue
				}
				if got && built != nil {
					// read back at both levels
					tn := built.(schema.TypedNode)
					wantT, wantR := core.Map(), core.Map()
					for _, e := range input.M {
						m := valid[string(e.K)]
						wantT.M = append(wantT.M, core.KV{K: []byte(m), V: e.V})
						wantR.M = append(wantR.M, core.KV{K: []byte(reprOf[m]), V: e.V})
					}
					gt, gr := termOfOrErrSafe(tn, nil), termOfOrErrSafe(tn.Representation(), nil)
					if gt != wantT.Term() || gr != wantR.Term() {
						c.Fail(pfx+"/enum-keyed-map-content", core.Replay{Kind: "oracle", Case: caseID, Impl: gt + " | " + gr, Expected: wantT.Term() + " | " + wantR.Term()})
					}
					// reading by key: every lookup form agrees with iteration at each level, and a text that is not a key OF
					// THAT LEVEL (the name of a renamed member at representation level, its representation at type level) is not found
					for vi, view := range []datamodel.Node{tn, tn.Representation()} {
						if p := consistency(view, ""); p != "" {
							c.Fail(pfx+"/enum-keyed-map-lookup", core.Replay{Kind: "oracle", Case: caseID, Impl: p, Expected: "lookups by key agree with iteration", Detail: []string{"type-level view", "representation view"}[vi]})
						}
						for _, m := range members {
							foreign := reprOf[m]
							if vi == 1 {
								foreign = m
							}
							isKey := false
							for _, m2 := range members {
								if vi == 0 && m2 == foreign || vi == 1 && reprOf[m2] == foreign {
									isKey = true
								}
							}
							if isKey {
								continue
							}
							var found bool
							_, panicked, pv := core.Catch(func() error {
								x, err := view.LookupByString(foreign)
								found = err == nil && x != nil
								return nil
							})
							if panicked || found {
								c.Fail(pfx+"/enum-keyed-map-lookup", core.Replay{Kind: "oracle", Case: caseID, Impl: fmt.Sprintf("LookupByString(%q) found=%v panic=%v", foreign, found, pv), Expected: "not found",
									Detail: []string{"type-level view", "representation view"}[vi] + ": the text is the other level's spelling of a member"})
							}
						}
					}
				}
			}
		}
	}
}
