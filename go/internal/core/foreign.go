package core

import (
	"github.com/ipld/go-ipld-prime/datamodel"
)

// foreignNode presents a node as one of ANOTHER implementation: the same answers through the Node interface, but not
// the concrete type any builder knows, so that no own-type shortcut of AssignNode applies and the generic path (which
// every schema-bound, generated or ADL node takes) is exercised.  Children are foreign too.
type foreignNode struct{ n datamodel.Node }

// Foreign wraps n (and, lazily, everything below it).  Null and Absent stay what they are.
func Foreign(n datamodel.Node) datamodel.Node {
	if n == nil || n.IsNull() || n.IsAbsent() {
		return n
	}
	switch f := n.(type) {
	case foreignNode:
		return f
	case foreignUintNode:
		return f
	}
	if u, ok := n.(datamodel.UintNode); ok {
		return foreignUintNode{foreignNode{n}, u}
	}
	return foreignNode{n}
}

// foreignUintNode: a foreign node that also offers AsUint (integers above MaxInt64 travel that way only).
type foreignUintNode struct {
	foreignNode
	u datamodel.UintNode
}

func (f foreignUintNode) AsUint() (uint64, error) { return f.u.AsUint() }

func fwrap(n datamodel.Node, err error) (datamodel.Node, error) {
	if err != nil {
		return n, err
	}
	return Foreign(n), nil
}

func (f foreignNode) Kind() datamodel.Kind { return f.n.Kind() }
func (f foreignNode) LookupByString(k string) (datamodel.Node, error) {
	return fwrap(f.n.LookupByString(k))
}
func (f foreignNode) LookupByNode(k datamodel.Node) (datamodel.Node, error) {
	return fwrap(f.n.LookupByNode(k))
}
func (f foreignNode) LookupByIndex(i int64) (datamodel.Node, error) {
	return fwrap(f.n.LookupByIndex(i))
}
func (f foreignNode) LookupBySegment(s datamodel.PathSegment) (datamodel.Node, error) {
	return fwrap(f.n.LookupBySegment(s))
}
func (f foreignNode) MapIterator() datamodel.MapIterator {
	it := f.n.MapIterator()
	if it == nil {
		return nil
	}
	return foreignMapIt{it}
}
func (f foreignNode) ListIterator() datamodel.ListIterator {
	it := f.n.ListIterator()
	if it == nil {
		return nil
	}
	return foreignListIt{it}
}
func (f foreignNode) Length() int64                   { return f.n.Length() }
func (f foreignNode) IsAbsent() bool                  { return f.n.IsAbsent() }
func (f foreignNode) IsNull() bool                    { return f.n.IsNull() }
func (f foreignNode) AsBool() (bool, error)           { return f.n.AsBool() }
func (f foreignNode) AsInt() (int64, error)           { return f.n.AsInt() }
func (f foreignNode) AsFloat() (float64, error)       { return f.n.AsFloat() }
func (f foreignNode) AsString() (string, error)       { return f.n.AsString() }
func (f foreignNode) AsBytes() ([]byte, error)        { return f.n.AsBytes() }
func (f foreignNode) AsLink() (datamodel.Link, error) { return f.n.AsLink() }
func (f foreignNode) Prototype() datamodel.NodePrototype {
	return f.n.Prototype()
}

type foreignMapIt struct{ it datamodel.MapIterator }

func (i foreignMapIt) Next() (datamodel.Node, datamodel.Node, error) {
	k, v, err := i.it.Next()
	if err != nil {
		return k, v, err
	}
	return Foreign(k), Foreign(v), nil
}
func (i foreignMapIt) Done() bool { return i.it.Done() }

type foreignListIt struct{ it datamodel.ListIterator }

func (i foreignListIt) Next() (int64, datamodel.Node, error) {
	k, v, err := i.it.Next()
	if err != nil {
		return k, v, err
	}
	return k, Foreign(v), nil
}
func (i foreignListIt) Done() bool { return i.it.Done() }
