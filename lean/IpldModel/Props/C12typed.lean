/-
  C12 for SCHEMA-BOUND builders - the typed assemblers of the reflection binding and of generated code as a
  call-by-call state machine (`Model/TypedAssembler.lean`; type level; lists, String-keyed maps, structs read as
  maps, scalars): a refused call has no effect, a repeated key is refused at the call that supplies it, a value of a
  kind the position cannot hold is refused, the node built conforms to the type (`Schema.conforms`), carries no key
  twice and is what the whole-value ideal builder of C09 builds, and a history with refused calls builds what the
  history without them builds.  For all types, histories and states; no bounds.  Property theorems only; the
  invariant (`Inv`, `Good`), `KeyReset`, `erase` and the helper lemmas are in `IpldModel/Lemmas/TypedAssembler*.lean`.
  The machine is tied to node/bindnode and to generated code by the correspondence `C12/corr-typed-assembler`
  (every history of `c12Typed`, and of `c13Histories` for both engines, is run on the implementation and on the
  machine).
-/
import IpldModel.Lemmas.TypedAssemblerExamples
import IpldModel.Lemmas.TypedAssemblerNode
import IpldModel.Lemmas.TypedAssemblerRefine
import IpldModel.Lemmas.TypedAssemblerReset
import IpldModel.Lemmas.SchemaType
namespace Ipld.Props.C12
open Ipld Ipld.Asm Ipld.TAsm
open Ipld.Schema (Ty Fields Field TL TLs TLKVs conforms ofType)

/-! ### (a) a refused call has no effect -/

/-- **typed_reject_no_effect.**  If a call is answered with an error, the state afterwards is the state before the
    call, with two exceptions, each of which the statement names:
    * the call was made on a KEY assembler and ended it (`KeyReset`): the state afterwards is that same frame back
      where it was before the `AssembleKey` that handed the key assembler out.  No entry, key or value has been
      recorded.
    * the engine leaves a refused `AssignNode` of a map/list node half done (`Engine.anPartial`: generated code, known
      finding `C13/gen-refused-assignnode-wedges-builder`; the reflection binding until the repair 93ca07c): the
      state is marked as no longer the contract's and the model makes no further claim.
    For an engine without that flag (`Engine.bindnode`, `Engine.ideal`) the third case never happens. -/
theorem typed_reject_no_effect {e : Engine} {s s' : TAsm.St} {op : Op} {c : ErrClass}
    (h : TAsm.step e s op = (s', .err c)) :
    s' = s ∨ KeyReset s s' ∨
    (e.anPartial = true ∧ s' = { s with tainted := true } ∧ ∃ v, op = .assignNode v ∧ isRec v = true) :=
  step_err h

/-- Outside a key assembler, for an engine that rolls a refused `AssignNode` back (the reflection binding), EVERY
    refusal - wrong kind, repeated key given to `AssembleEntry`, missing field at `Finish`, a node refused part of
    the way through its copy - leaves the state exactly as it was. -/
theorem typed_reject_no_effect_outside_key {e : Engine} (he : e.anPartial = false) {s s' : TAsm.St} {op : Op}
    {c : ErrClass} (hk : TAsm.inKey s = false) (h : TAsm.step e s op = (s', .err c)) : s' = s := by
  rcases step_err h with h1 | h1 | ⟨h1, _⟩
  · exact h1
  · rw [h1.inKey] at hk; cases hk
  · rw [he] at h1; cases h1

/-- The key assembler ends only by refusing a repeated key - or, in generated code (`unknownAtKey`), a name that is
    no field.  A key assembler that refuses a wrong kind stays as it was. -/
theorem typed_key_assembler_ends_only_on {e : Engine} {s s' : TAsm.St} {op : Op} {c : ErrClass}
    (h : TAsm.step e s op = (s', .err c)) (hr : KeyReset s s') :
    c = .repeatedKey ∨ (c = .other ∧ e.unknownAtKey = true) :=
  step_reset_class h hr

/-- why the second case of `typed_reject_no_effect` is there: `{"a":1}` begun, `"a"` handed to the key assembler - the
    call is refused and the map assembler expects a key again, which is not the state the call met -/
example :
    let s0 := (TAsm.run .bindnode (TAsm.init exMapTy) (exDupViaKeyAsm.take 4)).1
    TAsm.inKey s0 = true ∧ (TAsm.run .bindnode s0 [.assign (.str [97])]).2 = [.err .repeatedKey] ∧
    TAsm.inKey (TAsm.run .bindnode s0 [.assign (.str [97])]).1 = false := by decide

/-- why the third case is there: a list of Int is handed the node `[1,"x"]`.  The reflection binding refuses and is as
    before (the history goes on and builds `[5]`); generated code refuses and is wedged - the model stops there. -/
example :
    (TAsm.run .bindnode (TAsm.init (.list .int false)) exRefusedNode).2 = [.err .wrongKind, .ok, .ok, .ok, .ok] ∧
    TAsm.build (TAsm.run .bindnode (TAsm.init (.list .int false)) exRefusedNode).1
      = some (.list (.cons (.int 5) .nil)) ∧
    (TAsm.run .gen (TAsm.init (.list .int false)) exRefusedNode).2 = [.err .wrongKind, .panic] ∧
    (TAsm.run .gen (TAsm.init (.list .int false)) exRefusedNode).1.tainted = true := by decide

/-! ### (b) a repeated key is refused at the call that supplies it -/

/-- **typed_repeated_key_rejected_at_call** (`AssembleEntry`).  In any state satisfying the invariant (every
    reachable state, `typed_inv_run`) in which the current object is a map or struct assembler expecting a key:
    `AssembleEntry(k)` with a key `k` that this map / struct has already accepted is answered by that very call with
    the repeated-key error, and nothing changes.  Every engine. -/
theorem typed_repeated_key_rejected_at_call {e : Engine} {s : TAsm.St} (hi : TAsm.Inv s) (ht : s.tainted = false)
    (hx : expectsKey s = true) {k : Bytes} (hk : k ∈ acceptedKeys s) :
    TAsm.step e s (.assembleEntry k) = (s, .err .repeatedKey) := by
  rw [step_of_not_tainted ht]
  exact stepPrim_assembleEntry_repeated hi hx hk

/-- ... and through the KEY ASSEMBLER (`AssembleKey().AssignString(k)` or `.AssignNode(string node)`): answered by that
    very call with the repeated-key error, the key assembler ends and the map / struct assembler expects a key
    again.  For a struct this holds of every engine; for a typed map the hypothesis `keyAsmDupMapKey = false` is
    needed - generated code accepts the key there (known finding `C13/gen-keyAsmDupMapKey`, example below). -/
theorem typed_repeated_key_rejected_by_key_assembler {e : Engine} {s : TAsm.St} (hi : TAsm.Inv s)
    (ht : s.tainted = false) (hx : TAsm.inKey s = true) {k : Bytes} (hk : k ∈ acceptedKeys s)
    (he : e.keyAsmDupMapKey = false ∨ inStruct s = true) :
    ∃ s', KeyReset s s' ∧
      TAsm.step e s (.assign (.str k)) = (s', .err .repeatedKey) ∧
      TAsm.step e s (.assignNode (.str k)) = (s', .err .repeatedKey) := by
  obtain ⟨s', hr, hs⟩ := supplyKey_repeated hi hx hk he
  have hp := (pos_key_iff_inKey s).2 hx
  refine ⟨s', hr, ?_, ?_⟩
  · rw [step_of_not_tainted ht]
    show stepPrim e s (.assign (.str k)) = _
    rw [stepPrim_at_key hp]; exact hs
  · rw [step_of_not_tainted ht]
    show stepPrim e s (.assign (.str k)) = _
    rw [stepPrim_at_key hp]; exact hs

/-- the hypothesis on the engine is needed: the generated typed map takes `"a"` a second time through its key assembler -/
example :
    (TAsm.run .gen (TAsm.init exMapTy) exDupViaKeyAsm).2 = [.ok, .ok, .ok, .ok, .ok] ∧
    (TAsm.run .bindnode (TAsm.init exMapTy) exDupViaKeyAsm).2 = [.ok, .ok, .ok, .ok, .err .repeatedKey] := by decide

/-- the hypotheses of the two theorems are satisfiable: after `{"a":1}` the state expects a key, has accepted `"a"`,
    and satisfies the invariant -/
example :
    let s := (TAsm.run .bindnode (TAsm.init exMapTy) (exDupViaKeyAsm.take 3)).1
    TAsm.Inv s ∧ s.tainted = false ∧ expectsKey s = true ∧ [97] ∈ acceptedKeys s :=
  ⟨run_inv _ rfl (init_inv (by decide) (by decide)), by decide, by decide, by decide⟩

/-! ### (c) a value of a kind the position cannot hold is refused -/

/-- **typed_wrong_kind_rejected.**  The current object is a value assembler for type `t` in a slot that is nullable
    iff `nul` (`pos s = .value t nul`: the root builder, a list element, a map value, the value of a struct field).
    Of the calls it offers (`valueCall`: the scalar assignments, `BeginMap`, `BeginList`) it accepts EXACTLY those
    listed by `accepts t nul` - `AssignNull` iff the slot is nullable, the scalar assignment of the type's own kind
    (an Int within int64), `BeginMap` iff `t` is a map or struct, `BeginList` iff `t` is a list - and every other one
    is answered with an error by that call and leaves the state exactly as it was.  Never a panic.  Every engine. -/
theorem typed_wrong_kind_rejected {e : Engine} {s : TAsm.St} {t : Ty} {nul : Bool} (ht : s.tainted = false)
    (hp : pos s = .value t nul) {op : Op} (hc : TAsm.valueCall op = true) :
    (accepts t nul op = true → (TAsm.step e s op).2 = .ok) ∧
    (accepts t nul op = false → ∃ c, TAsm.step e s op = (s, .err c)) := by
  have hs : TAsm.step e s op = valuePrim s t nul op := by
    rw [step_of_not_tainted ht]
    cases op <;> first | (cases hc; done) | (show stepPrim e s _ = _; exact stepPrim_at_value hp _)
  rw [hs]
  exact valuePrim_accepts hp hc

/-- Which scalar assignments `accepts` lists, without reference to the machine: those whose value conforms to the type
    in C09's sense (`Schema.conforms`), an integer moreover within int64.  `plain t` is needed: for `any`, unions and
    enums the machine is no model of the code (it refuses everything; the driver answers `unsupported`). -/
theorem typed_accepts_scalar_iff_conforms {t : Ty} (hp : plain t = true) (nul : Bool) {v : DM}
    (hs : Asm.isScalar v = true) :
    accepts t nul (.assign v) = true ↔
      (conforms t nul (TL.ofDM v) = true ∧ ∀ i, v = .int i → inInt64 i = true) := by
  simp only [accepts, beq_iff_eq]
  exact scalarOut_ok_iff hp nul hs

/-- A key assembler (the keys of the fragment are Strings) refuses every scalar that is not a string, `BeginMap`,
    `BeginList` and every node that is not a string, at that call, with the wrong-kind error, and stays as it was.
    Every engine. -/
theorem typed_key_assembler_accepts_only_strings {e : Engine} {s : TAsm.St} (ht : s.tainted = false)
    (hx : TAsm.inKey s = true) :
    (∀ v, Asm.isScalar v = true → (∀ k, v ≠ .str k) →
        TAsm.step e s (.assign v) = (s, .err .wrongKind) ∧ TAsm.step e s (.assignNode v) = (s, .err .wrongKind)) ∧
    (∀ n, TAsm.step e s (.beginMap n) = (s, .err .wrongKind)) ∧
    (∀ n, TAsm.step e s (.beginList n) = (s, .err .wrongKind)) ∧
    (∀ v, isRec v = true → TAsm.step e s (.assignNode v) = (s, .err .wrongKind)) := by
  have hp := (pos_key_iff_inKey s).2 hx
  have hbm : ∀ n, stepPrim e s (.beginMap n) = (s, .err .wrongKind) := fun n => by rw [stepPrim_at_key hp]; rfl
  have hbl : ∀ n, stepPrim e s (.beginList n) = (s, .err .wrongKind) := fun n => by rw [stepPrim_at_key hp]; rfl
  refine ⟨?_, ?_, ?_, ?_⟩
  · intro v hs hn
    have h1 : stepPrim e s (.assign v) = (s, .err .wrongKind) := by
      rw [stepPrim_at_key hp]; exact keyPrim_nonstring hs hn
    have hnr : isRec v = false := by cases v <;> first | rfl | cases hs
    refine ⟨by rw [step_of_not_tainted ht]; exact h1, ?_⟩
    rw [step_of_not_tainted ht]
    simp only [stepU, hnr, Bool.false_eq_true, if_false]
    exact h1
  · intro n; rw [step_of_not_tainted ht]; exact hbm n
  · intro n; rw [step_of_not_tainted ht]; exact hbl n
  · intro v hv
    rw [step_of_not_tainted ht]
    cases v with
    | list xs => simp [stepU, isRec, putNode, hbl, andThen, beginOp]
    | map es => simp [stepU, isRec, putNode, hbm, andThen, beginOp]
    | null => cases hv
    | bool _ => cases hv
    | int _ => cases hv
    | float _ => cases hv
    | str _ => cases hv
    | bytes _ => cases hv
    | link _ => cases hv

/-- **typed_assignNode_iff_conforms** - the remaining call of a value assembler, `AssignNode(v)`, is the whole-value
    builder of C09.  At a value assembler for a plain type `t` (slot nullable iff `nul`), for every node `v` (any tree, with
    or without repeated keys) and every engine whose key assemblers refuse a repeated map key:
    * if `v` conforms to `t` in C09's sense (`Schema.conforms`) and its integers fit int64, the call is accepted and
      delivers the canonical typed value `Schema.normalize t v` (struct fields in declaration order, unset optional
      fields `absent`) - exactly what `Schema.build Engine.ideal .type t` returns for `v` (`Schema.ofType_eq`);
    * otherwise the call is refused and the state is as it was - or, for an engine with `anPartial`, marked (third case of
      `typed_reject_no_effect`).  Never a panic. -/
theorem typed_assignNode_iff_conforms {e : Engine} (he : e.keyAsmDupMapKey = false) {s : TAsm.St} {t : Ty}
    {nul : Bool} (ht : s.tainted = false) (hp : pos s = .value t nul) (hpl : plain t = true) (v : DM) :
    ((conforms t nul (TL.ofDM v) && int64s v) = true →
      TAsm.step e s (.assignNode v) = ((deliver s (Schema.normalize t (TL.ofDM v))).1, .ok)) ∧
    ((conforms t nul (TL.ofDM v) && int64s v) = false →
      ∃ c, TAsm.step e s (.assignNode v) = (s, .err c) ∨
        (e.anPartial = true ∧ TAsm.step e s (.assignNode v) = ({ s with tainted := true }, .err c))) :=
  step_assignNode_spec he ht hp hpl v

/-- **typed_assignNode_is_ofType.**  On a fresh builder of a well-formed plain type, one `AssignNode(d)` and C09's ideal
    whole-value builder `ofType Engine.ideal` are the same function of `d` (for trees whose integers fit int64): the call is
    accepted iff the ideal builder accepts, and `Build` returns the node the ideal builder returns.  With
    `typed_history_result` this ties every call-by-call history to the whole-value model: a history builds what its
    accepted calls build, and a tree handed over whole builds what C09 says. -/
theorem typed_assignNode_is_ofType {e : Engine} (he : e.keyAsmDupMapKey = false) {ty : Ty} (hwf : ty.wf = true)
    (hpl : plain ty = true) (d : DM) (hi : int64s d = true) :
    TAsm.build (TAsm.run e (TAsm.init ty) [.assignNode d]).1 =
      (match ofType Schema.Engine.ideal ty d with
       | .ok w => some w
       | _ => none) := by
  obtain ⟨h1, h2⟩ := typed_assignNode_iff_conforms he (s := TAsm.init ty) (t := ty) (nul := false) rfl rfl hpl d
  unfold ofType
  rw [Schema.build_type d ty false hwf]
  cases hc : conforms ty false (TL.ofDM d) with
  | true =>
    have hs := h1 (by rw [hc, hi]; rfl)
    simp only [if_true]
    rw [run_cons_ok [] hs]
    rfl
  | false =>
    obtain ⟨c, hs | ⟨_, hs⟩⟩ := h2 (by rw [hc]; rfl)
    · simp only [Bool.false_eq_true, if_false]
      rw [run_cons_err [] hs]
      rfl
    · simp only [Bool.false_eq_true, if_false]
      rw [run_cons_err [] hs]
      rfl

/-- both branches occur: the struct takes `{"b":null,"a":5}` whole (and lists `a` first), and refuses `{"b":null}` -/
example :
    TAsm.build (TAsm.run .bindnode (TAsm.init exStructTy)
      [.assignNode (.map (.cons [98] .null (.cons [97] (.int 5) .nil)))]).1
      = some (.map (.cons [97] (.int 5) (.cons [98] .null .nil))) ∧
    (TAsm.run .bindnode (TAsm.init exStructTy) [.assignNode (.map (.cons [98] .null .nil))]).2 = [.err .other] := by
  decide

/-- `plain` is needed: at a position of type `any` the code accepts every scalar, the machine (which does not model
    `any`) none - while `Schema.conforms` says the value conforms -/
example : conforms .any false (TL.ofDM (.int 1)) = true ∧
    (TAsm.run .bindnode (TAsm.init .any) [.assignNode (.int 1)]).2 = [.err .wrongKind] := by decide

/-- The reflection binding accepts a struct key that is no field and then refuses every value for it: the current object
    is its error assembler, which answers every call it offers with a plain error and stays. -/
theorem typed_error_assembler_refuses_everything {e : Engine} {s : TAsm.St} (ht : s.tainted = false)
    (hp : pos s = .errAsm) {op : Op} (hc : TAsm.valueCall op = true) :
    TAsm.step e s op = (s, .err .other) := by
  rw [step_of_not_tainted ht]
  cases op with
  | assign v =>
    show stepPrim e s _ = _
    rw [stepPrim_at_errAsm hp]
    simp only [TAsm.valueCall] at hc
    simp [errPrim, hc]
  | beginMap n => show stepPrim e s _ = _; rw [stepPrim_at_errAsm hp]; rfl
  | beginList n => show stepPrim e s _ = _; rw [stepPrim_at_errAsm hp]; rfl
  | assembleKey => cases hc
  | assembleValue => cases hc
  | assembleEntry k => cases hc
  | assignNode v => cases hc
  | finish => cases hc

/-- a name that is no field: accepted by the reflection binding's struct assembler, every value for it refused;
    refused at the key by generated code -/
example :
    (TAsm.run .bindnode (TAsm.init exStructTy) exUnknownField).2 = [.ok, .ok, .err .other, .err .other, .err .other] ∧
    (TAsm.run .gen (TAsm.init exStructTy) (exUnknownField.take 2)).2 = [.ok, .err .other] := by decide

/-! ### (d) what is built conforms to the type -/

/-- A fresh builder of a well-formed type of the fragment satisfies the invariant. -/
theorem typed_inv_init {ty : Ty} (hwf : ty.wf = true) (hpl : plain ty = true) : TAsm.Inv (TAsm.init ty) :=
  init_inv hwf hpl

/-- Every call preserves the invariant, whatever its outcome (accepted, refused, misuse) and whatever node is handed
    to `AssignNode` (the copy checks it entry by entry) - for an engine whose key assemblers refuse a repeated map
    key.  The invariant (`TAsm.Inv`): every value held - entries of the open containers, the finished root - is
    `Good` for the position it was delivered to (conforms to the position's type, carries no key twice, is in
    canonical form); the keys of every open map / struct are pairwise distinct, a struct's keys are field names, a
    pending key is not among the accepted ones; every open container was begun at a position of its own type. -/
theorem typed_inv_step {e : Engine} (he : e.keyAsmDupMapKey = false) {s : TAsm.St} (op : Op) (hi : TAsm.Inv s) :
    TAsm.Inv (TAsm.step e s op).1 := step_inv op he hi

/-- The invariant holds after any history of calls. -/
theorem typed_inv_run {e : Engine} (he : e.keyAsmDupMapKey = false) {s : TAsm.St} (h : List Op) (hi : TAsm.Inv s) :
    TAsm.Inv (TAsm.run e s h).1 := run_inv h he hi

/-- **typed_built_conforms.**  For every well-formed type of the fragment (`plain`: the types whose builders the machine
    models), every history of calls on a fresh builder - with refused
    calls, with misuse, with any nodes handed to `AssignNode` - and every engine whose key assemblers refuse a
    repeated map key: if `Build` returns a node `v`, then
    * `v` conforms to the type in C09's sense (`Schema.conforms`: kinds right, null only where nullable, no unknown
      and no repeated field or key, every required field present);
    * no map anywhere in `v` carries a key twice;
    * `v` is in canonical form (its own `Schema.normalize`: structs list all their fields in declaration order). -/
theorem typed_built_conforms {e : Engine} (he : e.keyAsmDupMapKey = false) {ty : Ty} (hwf : ty.wf = true)
    (hpl : plain ty = true) (h : List Op) {v : TL} (hb : TAsm.build (TAsm.run e (TAsm.init ty) h).1 = some v) :
    conforms ty false v = true ∧ TAsm.NoDup v ∧ Schema.normalize ty v = v := by
  have hi : TAsm.Inv (TAsm.run e (TAsm.init ty) h).1 := run_inv h he (init_inv hwf hpl)
  have hg := build_good hi hb
  rw [run_ty] at hg
  exact ⟨hg.conf, hg.nodup, hg.canon⟩

/-- **typed_built_is_ideal_build** - the tie to C09's whole-value builder.  The node built call by call is exactly what
    the IDEAL type-level builder of the schema model (`Schema.ofType Engine.ideal`, C09: accepts exactly conforming
    data) builds when it is fed that node as one tree: it accepts it and returns it unchanged.  (A value showing an
    unset optional field as `absent` is no data-model tree; for those the statement quantifies over nothing and
    `typed_built_conforms` is what is known.) -/
theorem typed_built_is_ideal_build {e : Engine} (he : e.keyAsmDupMapKey = false) {ty : Ty} (hwf : ty.wf = true)
    (hpl : plain ty = true) (h : List Op) {v : TL} (hb : TAsm.build (TAsm.run e (TAsm.init ty) h).1 = some v)
    (d : DM) (hd : TL.ofDM d = v) : ofType Schema.Engine.ideal ty d = .ok v := by
  obtain ⟨h1, _, h3⟩ := typed_built_conforms he hwf hpl h hb
  unfold ofType
  rw [Schema.build_type d ty false hwf, hd, if_pos h1, h3]

/-- **typed_built_struct_fields.**  A built struct lists exactly its fields, in declaration order; a field that shows as
    `absent` is optional - every required field is present. -/
theorem typed_built_struct_fields {e : Engine} (he : e.keyAsmDupMapKey = false) {F : Fields}
    {r : Schema.StructRepr} (hwf : (Ty.struct F r).wf = true) (hpl : plain (Ty.struct F r) = true) (h : List Op)
    {v : TL} (hb : TAsm.build (TAsm.run e (TAsm.init (.struct F r)) h).1 = some v) :
    ∃ es, v = .map es ∧ keysOf es = F.toList.map (·.name) ∧
      ∀ p ∈ es.toList, ∃ f, fieldOf F.toList p.1 = some f ∧ (p.2 = .absent → f.opt = true) := by
  obtain ⟨h1, h2, h3⟩ := typed_built_conforms he hwf hpl h hb
  apply good_struct_shape (nul := false) ⟨h1, h2, h3⟩
  intro hv; subst hv; simp [conforms] at h1

/-- The engine hypothesis of (d) is needed: generated code takes `"a"` twice through the key assembler of a typed map
    and builds a node that carries it twice. -/
example :
    TAsm.build (TAsm.run .gen (TAsm.init exMapTy) (exDupViaKeyAsm ++ [.assembleValue, .assign (.int 2), .finish])).1
      = some (.map (.cons [97] (.int 1) (.cons [97] (.int 2) .nil))) := by decide

example : exStructTy.wf = true := by decide

/-- the struct history builds `{"a":5,"b":["x"]}` - declaration order, although `b` was supplied first -/
example : TAsm.build (TAsm.run .bindnode (TAsm.init exStructTy) exStructHistory).1 = some exStructBuilt := by decide

/-- an unset optional field shows as `absent` -/
example : TAsm.build (TAsm.run .bindnode (TAsm.init exStructTy) exStructShort).1
    = some (.map (.cons [97] (.int 5) (.cons [98] .absent .nil))) := by decide

example : conforms exStructTy false exStructBuilt = true ∧
    ofType Schema.Engine.ideal exStructTy (.map (.cons [97] (.int 5) (.cons [98] (.list (.cons (.str [120]) .nil)) .nil)))
      = .ok exStructBuilt := by decide

/-! ### (e) a history with refused calls builds what the history without them builds -/

/-- `erase e s h` only drops calls from `h`; it never adds or reorders any. -/
theorem typed_erase_sublist (e : Engine) (s : TAsm.St) (h : List Op) : (TAsm.erase e s h).Sublist h := by
  simpa [TAsm.erase] using TAsm.eraseFrom_sublist e s [] h

/-- **typed_history_result.**  Take any history `h` run from a state `s` whose current object is not a key assembler, in
    which no call was misuse (no panic) and which did not end in a state an engine with `anPartial` left half done.
    Erase from `h` every call that was refused, and every `AssembleKey` whose key assembler ended by a refusal
    (`TAsm.erase`).  Then running the erased history from `s` reaches exactly the same final state - so `Build` returns
    the same node: the node built holds exactly the accepted entries, in call order - and every call of the erased
    history is accepted.  As for the generic builders, the erased history is computed together with running, and the
    start-state condition is needed because a key assembler handed out before the history began cannot be un-handed by
    erasing calls of the history.  The third hypothesis excludes exactly the histories in which generated code was handed
    a node it refused part of the way through (`typed_reject_no_effect`, third case); it holds of every history of an
    engine without `anPartial` (`typed_never_tainted`). -/
theorem typed_history_result (e : Engine) (s : TAsm.St) (h : List Op) (hk : TAsm.inKey s = false)
    (hn : Out.panic ∉ (TAsm.run e s h).2) (ht : (TAsm.run e s h).1.tainted = false) :
    TAsm.run e s (TAsm.erase e s h) = ((TAsm.run e s h).1, List.replicate (TAsm.erase e s h).length .ok) :=
  TAsm.eraseFrom_runs h (TAsm.PendOk.none hk) hn ht

/-- An engine that rolls a refused `AssignNode` back never leaves the contract's machine. -/
theorem typed_never_tainted {e : Engine} (he : e.anPartial = false) (s : TAsm.St) (hs : s.tainted = false)
    (h : List Op) : (TAsm.run e s h).1.tainted = false := by
  rw [run_not_tainted he]; exact hs

/-- `typed_history_result` for a fresh builder of the reflection binding (or any engine without `anPartial`): the
    history with the refused calls erased is accepted call by call and `Build` returns the same node. -/
theorem typed_history_result_init {e : Engine} (he : e.anPartial = false) (ty : Ty) (h : List Op)
    (hn : Out.panic ∉ (TAsm.run e (TAsm.init ty) h).2) :
    TAsm.build (TAsm.run e (TAsm.init ty) (TAsm.erase e (TAsm.init ty) h)).1
      = TAsm.build (TAsm.run e (TAsm.init ty) h).1 ∧
    ∀ o ∈ (TAsm.run e (TAsm.init ty) (TAsm.erase e (TAsm.init ty) h)).2, o = .ok := by
  have := typed_history_result e (TAsm.init ty) h rfl hn (typed_never_tainted he _ rfl h)
  rw [this]
  exact ⟨rfl, fun o ho => (List.mem_replicate.1 ho).2⟩

/-! ### (f) the typed builders refine the generic ones -/

/-- **typed_refines_generic.**  Take a history every call of which the typed machine accepts (fresh builder of a
    well-formed type of the fragment; an engine whose key assemblers refuse a repeated map key).  Then the GENERIC machine
    of `Model/Assembler.lean` (basicnode's Any builder, C01/C12) accepts every call of it too, and if the typed builder
    has built a node `w`, the generic builder has built a data-model tree `d` that is a source of `w`: its integers fit
    int64 and C09's ideal whole-value builder turns it into exactly `w` (`ofType Engine.ideal ty d = ok w` - `d` conforms
    to the type and `w` is its canonical typed value: struct entries in declaration order, unset optional fields made
    explicit).  So the typed builders add checks and a canonical order to the generic protocol and nothing else: the
    entries a typed node holds are the entries the same calls give the generic builder, in call order. -/
theorem typed_refines_generic {e : Engine} (he : e.keyAsmDupMapKey = false) {ty : Ty} (hwf : ty.wf = true)
    (hpl : plain ty = true) (h : List Op) (hall : ∀ o ∈ (TAsm.run e (TAsm.init ty) h).2, o = .ok) :
    (Asm.run (Asm.init .any) h).2 = List.replicate h.length .ok ∧
    ∀ w, TAsm.build (TAsm.run e (TAsm.init ty) h).1 = some w →
      ∃ d, Asm.build (Asm.run (Asm.init .any) h).1 = some d ∧ int64s d = true ∧
        ofType Schema.Engine.ideal ty d = .ok w := by
  obtain ⟨gs', hg, hsim⟩ := sim_run he h (sim_init ty) (init_inv hwf hpl) hall
  rw [hg]
  refine ⟨rfl, ?_⟩
  intro w hb
  unfold TAsm.build at hb
  split at hb
  · rename_i hemp
    have hfr := hsim.frames
    have hgfr : gs'.frames = [] := by
      generalize (TAsm.run e (TAsm.init ty) h).1.frames = tfr at hfr hemp
      generalize gs'.frames = gfr at hfr
      cases hfr with
      | nil => rfl
      | cons _ _ => cases hemp
    rcases hsim.root with ⟨h1, _⟩ | ⟨d, w', hgd, htw, hsrc⟩
    · rw [h1] at hb; cases hb
    · rw [htw] at hb
      cases hb
      rw [run_ty] at hsrc
      have hsrc' : SrcV ty false d w := hsrc
      refine ⟨d, by simp [Asm.build, hgfr, hgd], hsrc'.1.ints, ?_⟩
      unfold ofType
      rw [Schema.build_type d ty false hwf, if_pos hsrc'.1.conf, hsrc'.2]
  · cases hb

/-- **typed_history_is_generic_build** - (e) and (f) together, for ANY history on the reflection binding's builders (or any
    engine with neither deviation) that contains no misuse: erase the refused calls (`TAsm.erase`); what is left is accepted
    call by call by the GENERIC builder, which builds from it a tree `d` - the accepted entries, in call order - and the node
    `w` the typed builder returns for the whole history is exactly what C09's ideal builder makes of `d`. -/
theorem typed_history_is_generic_build {e : Engine} (he : e.keyAsmDupMapKey = false) (hp : e.anPartial = false)
    {ty : Ty} (hwf : ty.wf = true) (hpl : plain ty = true) (h : List Op)
    (hn : Out.panic ∉ (TAsm.run e (TAsm.init ty) h).2) {w : TL}
    (hb : TAsm.build (TAsm.run e (TAsm.init ty) h).1 = some w) :
    let h' := TAsm.erase e (TAsm.init ty) h
    (Asm.run (Asm.init .any) h').2 = List.replicate h'.length .ok ∧
    ∃ d, Asm.build (Asm.run (Asm.init .any) h').1 = some d ∧ ofType Schema.Engine.ideal ty d = .ok w := by
  intro h'
  have hr := typed_history_result e (TAsm.init ty) h rfl hn (typed_never_tainted hp _ rfl h)
  have hall : ∀ o ∈ (TAsm.run e (TAsm.init ty) h').2, o = .ok := by
    intro o ho
    rw [hr] at ho
    exact (List.mem_replicate.1 ho).2
  obtain ⟨h1, h2⟩ := typed_refines_generic he hwf hpl h' hall
  refine ⟨h1, ?_⟩
  have hb' : TAsm.build (TAsm.run e (TAsm.init ty) h').1 = some w := by rw [hr]; exact hb
  obtain ⟨d, hd, _, hof⟩ := h2 w hb'
  exact ⟨d, hd, hof⟩

/-- the struct history: its erasure, on the generic builder, builds the entries in CALL order (`b` first); the typed node
    lists them in declaration order -/
example :
    Asm.build (Asm.run (Asm.init .any) (TAsm.erase .bindnode (TAsm.init exStructTy) exStructHistory)).1
      = some (.map (.cons [98] (.list (.cons (.str [120]) .nil)) (.cons [97] (.int 5) .nil))) ∧
    ofType Schema.Engine.ideal exStructTy (.map (.cons [98] (.list (.cons (.str [120]) .nil)) (.cons [97] (.int 5) .nil)))
      = .ok exStructBuilt := by decide

/-- the engine hypothesis of (f) is needed: the history generated code accepts (a key twice through the key assembler) is
    refused by the generic builder -/
example :
    (TAsm.run .gen (TAsm.init exMapTy) exDupViaKeyAsm).2 = [.ok, .ok, .ok, .ok, .ok] ∧
    (Asm.run (Asm.init .any) exDupViaKeyAsm).2 = [.ok, .ok, .ok, .ok, .err .repeatedKey] := by decide

/-! ### (g) `Reset` makes the builder new; optional fields -/

/-- **typed_reset_is_init.**  `Reset()` is accepted in any state - part of the way through a history, after a refused
    call, after `Build`, after a call that panicked (`b`: the calls since then are being passed over), in a state an engine
    with `anPartial` left half done - and what follows is answered, call for call, as a NEW builder of the same type
    answers it: the outcomes are `ok` for the reset followed by those of the rest run from `init`, the final state (hence
    `Build`) is that of the rest run from `init`.  Every engine. -/
theorem typed_reset_is_init (e : Engine) (b : Bool) (s : TAsm.St) (h : List Call) :
    (TAsm.runC e b s (.reset :: h)).1 = (TAsm.runC e false (TAsm.init s.ty) h).1 ∧
    (TAsm.runC e b s (.reset :: h)).2 = .ok :: (TAsm.runC e false (TAsm.init s.ty) h).2 := by
  rw [runC_reset]; exact ⟨rfl, rfl⟩

/-- A history without resets is the history of `TAsm.run` (everything above is about it): same state, same answers. -/
theorem typed_runC_without_reset (e : Engine) (s : TAsm.St) (ops : List Op) :
    TAsm.runC e false s (ops.map .op) = TAsm.run e s ops := runC_ops e s ops

/-- **typed_reset_history_result.**  The state a history with at least one `Reset` ends in - so the node `Build`
    returns - is the one reached by running, on a new builder, only the calls made after the LAST reset (`tailOps`):
    nothing of what went before a reset shows, whatever it was (complete, cut off, refused calls, misuse, a wedged generated
    builder).  With `typed_history_result` applied to that tail: the node built holds exactly the entries accepted after the
    last reset, in call order.  Every engine. -/
theorem typed_reset_history_result (e : Engine) (b : Bool) (s : TAsm.St) (h : List Call)
    (hr : hasReset h = true) :
    (TAsm.runC e b s h).1 = (TAsm.run e (TAsm.init s.ty) (tailOps h)).1 ∧
    TAsm.build (TAsm.runC e b s h).1 = TAsm.build (TAsm.run e (TAsm.init s.ty) (tailOps h)).1 := by
  have := runC_tail e b s h hr
  exact ⟨this, by rw [this]⟩

/-- **typed_built_conforms_with_resets** - (d) at full strength for histories with resets: whatever `Build` returns after
    any history of assembler calls and resets on a fresh builder conforms to the type, carries no key twice and is in
    canonical form. -/
theorem typed_built_conforms_with_resets {e : Engine} (he : e.keyAsmDupMapKey = false) {ty : Ty} (hwf : ty.wf = true)
    (hpl : plain ty = true) (h : List Call) {v : TL}
    (hb : TAsm.build (TAsm.runC e false (TAsm.init ty) h).1 = some v) :
    conforms ty false v = true ∧ TAsm.NoDup v ∧ Schema.normalize ty v = v := by
  have hi : TAsm.Inv (TAsm.runC e false (TAsm.init ty) h).1 := runC_inv he false _ h (init_inv hwf hpl)
  have hg := build_good hi hb
  rw [runC_ty] at hg
  exact ⟨hg.conf, hg.nodup, hg.canon⟩

/-- a first history cut off inside `b`'s list, `Reset`, then `{"a":5}`: every call after the reset accepted, the node is
    `{a:5, b:absent}` - nothing of the first history shows; the same on generated code after the refused node that
    wedges it (the call after the refusal is not claimed, the reset makes the builder new) -/
example :
    (TAsm.runC .bindnode false (TAsm.init exStructTy)
      ((exStructHistory.take 5).map .op ++ [.reset] ++ exStructShort.map .op)).2
      = [.ok, .ok, .err .wrongKind, .ok, .ok, .ok, .ok, .ok, .ok, .ok] ∧
    TAsm.build (TAsm.runC .bindnode false (TAsm.init exStructTy)
      ((exStructHistory.take 5).map .op ++ [.reset] ++ exStructShort.map .op)).1
      = some (.map (.cons [97] (.int 5) (.cons [98] .absent .nil))) ∧
    (TAsm.runC .gen false (TAsm.init (.list .int false))
      (exRefusedNode.map .op ++ [.reset] ++ (exRefusedNode.drop 1).map .op)).2
      = [.err .wrongKind, .panic, .ok, .ok, .ok, .ok, .ok] ∧
    TAsm.build (TAsm.runC .gen false (TAsm.init (.list .int false))
      (exRefusedNode.map .op ++ [.reset] ++ (exRefusedNode.drop 1).map .op)).1
      = some (.list (.cons (.int 5) .nil)) := by decide

example : tailOps ((exStructHistory.take 5).map .op ++ [.reset] ++ exStructShort.map .op) = exStructShort := by decide

/-- optional fields (`b` of the example struct is optional and nullable): never supplied it is `absent` in the node,
    supplied as null it is null; a `Finish` while the REQUIRED field `a` is missing is refused and the struct assembler
    stays where it was - the history goes on and builds the node -/
example :
    (TAsm.run .bindnode (TAsm.init exStructTy)
      [.beginMap 0, .assembleEntry [98], .assign .null, .finish, .assembleEntry [97], .assign (.int 5), .finish]).2
      = [.ok, .ok, .ok, .err .other, .ok, .ok, .ok] ∧
    TAsm.build (TAsm.run .bindnode (TAsm.init exStructTy)
      [.beginMap 0, .assembleEntry [98], .assign .null, .finish, .assembleEntry [97], .assign (.int 5), .finish]).1
      = some (.map (.cons [97] (.int 5) (.cons [98] .null .nil))) := by decide

/-! ### non-vacuity of (a)-(e) on one history per container kind -/

example : (TAsm.run .bindnode (TAsm.init exMapTy) exMapHistory).2 =
    [.ok, .ok, .ok, .err .repeatedKey, .ok, .err .repeatedKey, .ok, .err .wrongKind, .ok, .ok,
     .err .wrongKind, .err .wrongKind, .err .wrongKind, .err .wrongKind, .ok, .ok] := by decide

example : TAsm.build (TAsm.run .bindnode (TAsm.init exMapTy) exMapHistory).1
    = some (.map (.cons [97] (.int 1) (.cons [98] (.int 2) .nil))) := by decide

example : TAsm.erase .bindnode (TAsm.init exMapTy) exMapHistory =
    [.beginMap 2, .assembleEntry [97], .assign (.int 1),
     .assembleKey, .assign (.str [98]), .assembleValue, .assign (.int 2), .finish] := by decide

example : (TAsm.run .bindnode (TAsm.init exStructTy) exStructHistory).2 =
    [.ok, .ok, .err .wrongKind, .ok, .ok, .ok, .ok, .err .other, .ok, .ok, .err .repeatedKey, .ok,
     .err .repeatedKey, .ok] := by decide

example : TAsm.erase .bindnode (TAsm.init exStructTy) exStructHistory =
    [.beginMap 0, .assembleEntry [98], .beginList 1, .assembleValue, .assign (.str [120]), .finish,
     .assembleEntry [97], .assign (.int 5), .finish] := by decide

example : TAsm.build (TAsm.run .bindnode (TAsm.init exStructTy)
    (TAsm.erase .bindnode (TAsm.init exStructTy) exStructHistory)).1 = some exStructBuilt := by decide

/-- the third hypothesis of `typed_history_result` is needed: generated code, handed `[1,"x"]` for a list of Int, ends
    in a state that the history without that call does not reach -/
example :
    (TAsm.run .gen (TAsm.init (.list .int false)) (exRefusedNode.take 1)).2 = [.err .wrongKind] ∧
    TAsm.erase .gen (TAsm.init (.list .int false)) (exRefusedNode.take 1) = [] ∧
    (TAsm.run .gen (TAsm.init (.list .int false)) (exRefusedNode.take 1)).1.tainted = true ∧
    (TAsm.run .gen (TAsm.init (.list .int false)) []).1.tainted = false := by decide

end Ipld.Props.C12
