/-
  Concrete values used by the `example`s of C03 (hypotheses are satisfiable on non-trivial input).
-/
import IpldModel.Model.Cbor
namespace Ipld
namespace Cbor

/-- A CIDv0: sha2-256 multihash prefix and 32 digest bytes. -/
def exCid : Bytes := 0x12 :: 0x20 :: List.replicate 32 0xab

/-- `{"bb": Link(exCid), "a": [1, -3, "x", 1.5, null, h'01ff']}` — keys deliberately *not* in canonical order. -/
def exValue : DM :=
  .map (.cons [0x62, 0x62] (.link exCid)
       (.cons [0x61] (.list (.cons (.int 1) (.cons (.int (-3)) (.cons (.str [0x78])
          (.cons (.float 0x3ff8000000000000) (.cons .null (.cons (.bytes [0x01, 0xff]) .nil)))))))
        .nil))

/-- Its bytes in the order the entries have (not canonical: "bb" before "a"), with the float written
    as a 16-bit float (0x3e00 = 1.5) — tolerated on input. -/
def exBytes : Bytes :=
  [0xa2, 0x62, 0x62, 0x62, 0xd8, 0x2a, 0x58, 0x23, 0x00] ++ exCid ++
  [0x61, 0x61, 0x86, 0x01, 0x22, 0x61, 0x78, 0xf9, 0x3e, 0x00, 0xf6, 0x42, 0x01, 0xff]

end Cbor
end Ipld
