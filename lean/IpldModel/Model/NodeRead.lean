/-
  Read side of the node API (datamodel.Node) over data-model values: which accessor answers on which
  kind, and with what error class otherwise (node/mixins).  DESIGN §5 C01.  Core Lean only.
-/
import IpldModel.Model.Assembler
import IpldModel.Model.Base
namespace Ipld
namespace NodeRead
open Asm

inductive Accessor where
  | asBool | asInt | asFloat | asString | asBytes | asLink
  | lookupByString | lookupByIndex | lookupByNodeStr | lookupByNodeInt | lookupBySegment
  | mapIterator | listIterator | length
  deriving DecidableEq, Repr

def Accessor.all : List Accessor :=
  [.asBool, .asInt, .asFloat, .asString, .asBytes, .asLink, .lookupByString, .lookupByIndex,
   .lookupByNodeStr, .lookupByNodeInt, .lookupBySegment, .mapIterator, .listIterator, .length]

def Accessor.name : Accessor → String
  | .asBool => "AsBool" | .asInt => "AsInt" | .asFloat => "AsFloat" | .asString => "AsString"
  | .asBytes => "AsBytes" | .asLink => "AsLink" | .lookupByString => "LookupByString"
  | .lookupByIndex => "LookupByIndex" | .lookupByNodeStr => "LookupByNode(str)"
  | .lookupByNodeInt => "LookupByNode(int)" | .lookupBySegment => "LookupBySegment"
  | .mapIterator => "MapIterator" | .listIterator => "ListIterator" | .length => "Length"

/-- result classes: a value, a wrong-kind error, a not-exists error, nil (iterators on the wrong kind), -1 -/
inductive Cls where | ok | wrongKind | notExists | nil | minusOne | other
  deriving DecidableEq, Repr

def Cls.name : Cls → String
  | .ok => "ok" | .wrongKind => "wk" | .notExists => "ne" | .nil => "nil" | .minusOne => "-1" | .other => "other"

/-- Which kinds an accessor is appropriate for. -/
def appropriate : Accessor → Kind → Bool
  | .asBool, k => k == .bool
  | .asInt, k => k == .int
  | .asFloat, k => k == .float
  | .asString, k => k == .str
  | .asBytes, k => k == .bytes
  | .asLink, k => k == .link
  | .lookupByString, k => k == .map
  | .lookupByIndex, k => k == .list
  | .lookupByNodeStr, k => k == .map
  | .lookupByNodeInt, _ => false   -- LookupByNode is the node-keyed form of LookupByString: maps only, string keys only
  | .lookupBySegment, k => k == .map || k == .list
  | .mapIterator, k => k == .map
  | .listIterator, k => k == .list
  | .length, k => k == .map || k == .list

/-- The class returned when probing with a key/index that is absent (`"\x00absent"`, index = length). -/
def probe (a : Accessor) (d : DM) : Cls :=
  if appropriate a d.kind then
    match a, d with
    | .asInt, .int i => if i > 9223372036854775807 then .other else .ok   -- UintNode above int64: AsInt overflows, AsUint answers
    | _, _ =>
    match a with
    | .lookupByString | .lookupByIndex | .lookupByNodeStr | .lookupByNodeInt | .lookupBySegment => .notExists
    | _ => .ok
  else
    match a with
    | .mapIterator | .listIterator => .nil
    | .length => .minusOne
    | _ => .wrongKind

def row (d : DM) : String :=
  " ".intercalate (Accessor.all.map fun a => a.name ++ "=" ++ (probe a d).name)

/-- Go `==` on floats, on bit patterns: NaN ≠ anything, +0 = −0. -/
def floatEq (a b : UInt64) : Bool :=
  if f64IsNaN a.toNat || f64IsNaN b.toNat then false
  else if a.toNat % 2 ^ 63 = 0 && b.toNat % 2 ^ 63 = 0 then true
  else a == b

mutual
/-- `datamodel.DeepEqual` on the values two nodes hold. -/
def deepEqual : DM → DM → Bool
  | .null, .null => true
  | .bool a, .bool b => a == b
  | .int a, .int b => a == b
  | .float a, .float b => floatEq a b
  | .str a, .str b => a == b
  | .bytes a, .bytes b => a == b
  | .link a, .link b => a == b
  | .list xs, .list ys => deepEqualList xs ys
  | .map es, .map fs => deepEqualKVs es fs
  | _, _ => false
def deepEqualList : DMs → DMs → Bool
  | .nil, .nil => true
  | .cons x xs, .cons y ys => deepEqual x y && deepEqualList xs ys
  | _, _ => false
def deepEqualKVs : DMKVs → DMKVs → Bool
  | .nil, .nil => true
  | .cons k v es, .cons k' v' fs => k == k' && deepEqual v v' && deepEqualKVs es fs
  | _, _ => false
end

end NodeRead
end Ipld
